(** C13: the canonical printer of the code on the parsed schema equals the
    specification's rules applied to the raw schema. *)
From Coq Require Import String Ascii Lia.
From FA Require Import model.Base model.Json model.Parse model.SchemaSpec model.Canon
     proofs.JsonProofs proofs.ParseProofs.
Open Scope string_scope.

(** ---- unfolding the two recursors one level ---- *)
Lemma canon_m_obj kv m :
  canon_m (JObj kv) m = canon_obj kv (map (fun p => (fst p, canon_m (snd p))) kv) m.
Proof. reflexivity. Qed.

Lemma canon_arr l : canon (JArr l) = "[" ++ join "," (map canon l) ++ "]".
Proof. unfold canon, canon_m. rewrite jfold_arr. now rewrite map_map. Qed.

Lemma canon_fields l : canon_m (JArr l) CFields = join "," (map (fun f => canon_m f CField) l).
Proof. unfold canon_m. rewrite jfold_arr. now rewrite map_map. Qed.

Lemma sub_map k kv m dflt :
  sub k (map (fun p => (fst p, canon_m (snd p))) kv) m dflt =
  match jget k kv with Some v => canon_m v m | None => dflt end.
Proof. unfold sub. rewrite jget_map. destruct (jget k kv); reflexivity. Qed.

Lemma pcf_m_obj kv m ns :
  pcf_m (JObj kv) m ns = pcf_obj kv (map (fun p => (fst p, pcf_m (snd p))) kv) m ns.
Proof. reflexivity. Qed.

Lemma psub_map k kv m ns :
  psub k (map (fun p => (fst p, pcf_m (snd p))) kv) m ns =
  match jget k kv with Some v => pcf_m v m ns | None => JNull end.
Proof. unfold psub. rewrite jget_map. destruct (jget k kv); reflexivity. Qed.

Lemma pcf_arr l ns : pcf_json_in ns (JArr l) = JArr (map (pcf_json_in ns) l).
Proof. unfold pcf_json_in, pcf_m. rewrite jfold_arr. now rewrite map_map. Qed.

Lemma pcf_fields l ns : pcf_m (JArr l) PFields ns = JArr (map (fun f => pcf_m f PField ns) l).
Proof. unfold pcf_m. rewrite jfold_arr. now rewrite map_map. Qed.

Lemma print_arr l : print_json (JArr l) = "[" ++ join "," (map print_json l) ++ "]".
Proof. reflexivity. Qed.

Lemma print_obj2 k1 v1 k2 v2 :
  print_json (JObj [(k1, v1); (k2, v2)]) =
  "{" ++ ((quote k1 ++ ":" ++ print_json v1) ++ "," ++ (quote k2 ++ ":" ++ print_json v2)) ++ "}".
Proof. reflexivity. Qed.

Lemma print_obj3 k1 v1 k2 v2 k3 v3 :
  print_json (JObj [(k1, v1); (k2, v2); (k3, v3)]) =
  "{" ++ ((quote k1 ++ ":" ++ print_json v1) ++ "," ++ (quote k2 ++ ":" ++ print_json v2) ++ ","
          ++ (quote k3 ++ ":" ++ print_json v3)) ++ "}".
Proof. reflexivity. Qed.

Lemma print_str s : print_json (JStr s) = quote s.
Proof. reflexivity. Qed.

(* lookups in the dict the parser builds: copy_prop_get, base_type, base_reserved, keep_get and the
   tactic getk come from ParseProofs *)

(** ---- symbols and sizes print alike ---- *)
Lemma symbols_print syms ss :
  symbol_strings syms = Some ss ->
  map print_json syms = map (fun s => quote (pystr s)) syms.
Proof.
  revert ss. induction syms as [|[| | | |s| |] r IH]; intros ss H; cbn [symbol_strings] in H; try discriminate H.
  - reflexivity.
  - destruct (symbol_ok s); [|discriminate H].
    destruct (symbol_strings r) eqn:E; [|discriminate H].
    cbn [map]. f_equal. eapply IH; eauto.
Qed.

(** ---- the main induction ---- *)
Definition spec_holds (rec : recfun) : Prop :=
  forall j ns wh st d p st',
    simple_m j PSchema = true -> rec j ns wh st d = POk (p, st') ->
    canon p = print_json (pcf_json_in ns j).

Lemma simple_arr l : simple_m (JArr l) PSchema = forallb (fun j => simple_m j PSchema) l.
Proof. unfold simple_m. rewrite jfold_arr. now rewrite forallb_map. Qed.

Lemma simple_fields l : simple_m (JArr l) PFields = forallb (fun j => simple_m j PField) l.
Proof. unfold simple_m. rewrite jfold_arr. now rewrite forallb_map. Qed.

Lemma simple_m_obj kv m :
  simple_m (JObj kv) m =
  let rs := map (fun p => (fst p, simple_m (snd p))) kv in
  match m with
  | PField => match jget "name" kv with Some (JStr _) => true | _ => false end && bsub "type" rs PSchema
  | _ =>
      if type_is kv "array" then bsub "items" rs PSchema
      else if type_is kv "map" then bsub "values" rs PSchema
      else if type_is kv "fixed" then match jget "size" kv with Some (JInt _) => true | _ => false end
      else if type_is kv "record" || type_is kv "error" then bsub "fields" rs PFields
      else true
  end.
Proof. reflexivity. Qed.

Lemma bsub_map k kv m :
  bsub k (map (fun p => (fst p, simple_m (snd p))) kv) m =
  match jget k kv with Some v => simple_m v m | None => true end.
Proof. unfold bsub. rewrite jget_map. destruct (jget k kv); reflexivity. Qed.

Lemma type_is_eq kv t : jget "type" kv = Some (JStr t) -> forall t', type_is kv t' = String.eqb t t'.
Proof. intros H t'. unfold type_is. now rewrite H. Qed.

Section Step.
  Variable rec : recfun.
  Hypothesis IH : spec_holds rec.

  Lemma members_spec ns l st ps st' :
    forallb (fun j => simple_m j PSchema) l = true ->
    members_ok rec ns l st ps st' ->
    map canon ps = map (fun j => print_json (pcf_json_in ns j)) l.
  Proof.
    intros S M. induction M as [|s r st p st1 ps st2 R M IHM]; [reflexivity|].
    cbn [forallb] in S. apply Bool.andb_true_iff in S. destruct S as [S1 S2].
    cbn [map]. f_equal; [eapply IH; eauto|auto].
  Qed.

  Lemma field_spec ns fd st p st' :
    simple_m fd PField = true -> field_ok rec ns fd st p st' ->
    canon_m p CField = print_json (pcf_m fd PField ns).
  Proof.
    intros S F. destruct F as [fkv nm ty st p st1 N T R].
    rewrite simple_m_obj in S. cbn zeta in S. rewrite N, bsub_map, T in S.
    destruct nm as [| | | |nm| |]; try discriminate S. cbn [andb] in S.
    rewrite canon_m_obj. unfold canon_obj. getk. rewrite sub_map. getk. cbn [pystr].
    rewrite pcf_m_obj. unfold pcf_obj, attr. rewrite N, psub_map, T.
    rewrite print_obj2, print_str.
    fold (canon p). rewrite (IH _ _ _ _ _ _ _ S R). unfold pcf_json_in, quote. seq.
  Qed.

  Lemma fields_spec ns l st ps st' :
    forallb (fun j => simple_m j PField) l = true ->
    fields_ok rec ns l st ps st' ->
    map (fun f => canon_m f CField) ps = map (fun f => print_json (pcf_m f PField ns)) l.
  Proof.
    intros S M. induction M as [|s r st p st1 ps st2 R M IHM]; [reflexivity|].
    cbn [forallb] in S. apply Bool.andb_true_iff in S. destruct S as [S1 S2].
    cbn [map]. f_equal; [eapply field_spec; eauto|auto].
  Qed.

  Lemma node_spec : spec_holds (parse_node rec).
  Proof.
    intros j ns wh st d p st' S H. apply parse_node_inv in H.
    destruct H as [s ns wh st d P|s ns wh st d P J|l ns wh st d ps st' M|kv t ns wh st d T P
                   |kv it ns wh st d p st' T I R|kv it ns wh st d p st' T I R
                   |kv ns wh st d ns' full syms ss T SN D SY SS ND parsed
                   |kv ns wh st d ns' full sz T SN D SZ parsed
                   |kv t ns wh st d ns' full fl fs st3 T TT SN D FL FS reckv].
    - (* primitive name *)
      unfold pcf_json_in, pcf_m. cbn [jfold]. rewrite <- is_prim_spec, P. reflexivity.
    - (* reference *)
      unfold pcf_json_in, pcf_m. cbn [jfold]. rewrite <- is_prim_spec, P, qualify_spec. reflexivity.
    - (* union *)
      rewrite simple_arr in S. rewrite canon_arr, pcf_arr, print_arr, map_map.
      now rewrite (members_spec _ _ _ _ _ S M).
    - (* primitive in dict form *)
      unfold canon. rewrite canon_m_obj. unfold canon_obj. getk.
      assert (N1 : String.eqb t "array" = false) by (destruct (String.eqb_spec t "array"); [subst; discriminate P|reflexivity]).
      assert (N2 : String.eqb t "map" = false) by (destruct (String.eqb_spec t "map"); [subst; discriminate P|reflexivity]).
      assert (N3 : String.eqb t "enum" = false) by (destruct (String.eqb_spec t "enum"); [subst; discriminate P|reflexivity]).
      assert (N4 : String.eqb t "fixed" = false) by (destruct (String.eqb_spec t "fixed"); [subst; discriminate P|reflexivity]).
      assert (N5 : String.eqb t "record" = false) by (destruct (String.eqb_spec t "record"); [subst; discriminate P|reflexivity]).
      assert (N6 : String.eqb t "error" = false) by (destruct (String.eqb_spec t "error"); [subst; discriminate P|reflexivity]).
      rewrite N1, N2, N3, N4, N5, N6, P. cbn [orb].
      unfold pcf_json_in. rewrite pcf_m_obj. unfold pcf_obj. rewrite T, <- is_prim_spec, P. reflexivity.
    - (* array *)
      rewrite simple_m_obj in S. cbn zeta in S. rewrite (type_is_eq _ _ T) in S. cbn [String.eqb Ascii.eqb Bool.eqb] in S.
      rewrite bsub_map, I in S.
      unfold canon. rewrite canon_m_obj. unfold canon_obj. getk. cbn [String.eqb Ascii.eqb Bool.eqb].
      rewrite sub_map. getk. fold (canon p). rewrite (IH _ _ _ _ _ _ _ S R).
      unfold pcf_json_in. rewrite pcf_m_obj. unfold pcf_obj. rewrite T. cbn [spec_is_prim mem existsb spec_prims String.eqb Ascii.eqb Bool.eqb orb].
      rewrite psub_map, I, print_obj2, print_str. unfold quote. seq.
    - (* map *)
      rewrite simple_m_obj in S. cbn zeta in S. rewrite !(type_is_eq _ _ T) in S. cbn [String.eqb Ascii.eqb Bool.eqb] in S.
      rewrite bsub_map, I in S.
      unfold canon. rewrite canon_m_obj. unfold canon_obj. getk. cbn [String.eqb Ascii.eqb Bool.eqb].
      rewrite sub_map. getk. fold (canon p). rewrite (IH _ _ _ _ _ _ _ S R).
      unfold pcf_json_in. rewrite pcf_m_obj. unfold pcf_obj. rewrite T. cbn [spec_is_prim mem existsb spec_prims String.eqb Ascii.eqb Bool.eqb orb].
      rewrite psub_map, I, print_obj2, print_str. unfold quote. seq.
    - (* enum *)
      apply schema_name_spec in SN. destruct SN as (-> & -> & NM).
      subst parsed. unfold canon. rewrite canon_m_obj. unfold canon_obj. getk. cbn [String.eqb Ascii.eqb Bool.eqb pystr].
      unfold pcf_json_in. rewrite pcf_m_obj. unfold pcf_obj, attr. rewrite T, SY.
      cbn [spec_is_prim mem existsb spec_prims String.eqb Ascii.eqb Bool.eqb orb].
      rewrite print_obj3, !print_str, print_arr, (symbols_print _ _ SS). unfold quote. seq.
    - (* fixed *)
      apply schema_name_spec in SN. destruct SN as (-> & -> & NM).
      rewrite simple_m_obj in S. cbn zeta in S. rewrite !(type_is_eq _ _ T) in S. cbn [String.eqb Ascii.eqb Bool.eqb] in S.
      rewrite SZ in S. destruct sz as [| |z| | | |]; try discriminate S.
      subst parsed. unfold canon. rewrite canon_m_obj. unfold canon_obj. getk. cbn [String.eqb Ascii.eqb Bool.eqb pystr].
      unfold pcf_json_in. rewrite pcf_m_obj. unfold pcf_obj, attr. rewrite T, SZ.
      cbn [spec_is_prim mem existsb spec_prims String.eqb Ascii.eqb Bool.eqb orb].
      rewrite print_obj3, !print_str. unfold quote. seq.
    - (* record / error *)
      apply schema_name_spec in SN. destruct SN as (-> & -> & NM).
      assert (CAN : canon (mark wh reckv) = canon (JObj reckv)).
      { destruct wh; [|reflexivity]. unfold mark, canon. rewrite !canon_m_obj. unfold canon_obj.
        rewrite !sub_map. subst reckv. getk. reflexivity. }
      rewrite CAN. clear CAN.
      assert (SF : forallb (fun j => simple_m j PField) fl = true /\
                   match jget "fields" (map (fun p => (fst p, pcf_m (snd p))) kv) with
                   | Some r => r PFields (spec_namespace ns kv)
                   | None => JArr []
                   end = JArr (map (fun f => pcf_m f PField (spec_namespace ns kv)) fl)).
      { rewrite simple_m_obj in S. cbn zeta in S. rewrite !(type_is_eq _ _ T) in S.
        rewrite jget_map.
        destruct FL as [FL|[FL ->]]; rewrite FL; cbn [option_map]; [|split; reflexivity].
        rewrite pcf_fields. split; [|reflexivity].
        rewrite <- simple_fields.
        destruct TT as [-> | ->]; cbn [String.eqb Ascii.eqb Bool.eqb orb] in S;
          rewrite bsub_map, FL in S; exact S. }
      destruct SF as [SF PF].
      subst reckv. unfold canon. rewrite canon_m_obj. unfold canon_obj. getk.
      unfold pcf_json_in. rewrite pcf_m_obj. unfold pcf_obj. rewrite T, PF.
      destruct TT as [-> | ->]; cbn [spec_is_prim mem existsb spec_prims String.eqb Ascii.eqb Bool.eqb orb pystr];
        rewrite sub_map; getk; rewrite canon_fields, (fields_spec _ _ _ _ _ SF FS);
        rewrite print_obj3, !print_str, print_arr, map_map; unfold quote; seq.
  Qed.
End Step.

Lemma parse_rec_spec f : spec_holds (parse_rec f).
Proof.
  induction f as [|f IH]; cbn [parse_rec].
  - intros j ns wh st d p st' _ H. discriminate H.
  - apply node_spec. exact IH.
Qed.

(** ---- parse_schema: top-level unions and the alias placeholders ---- *)
Lemma canon_m_jset_irrelevant kv v m :
  canon_m (JObj (jset "__named_schemas" v kv)) m = canon_m (JObj kv) m.
Proof.
  rewrite !canon_m_obj. unfold canon_obj. rewrite !sub_map.
  rewrite !jget_jset_neq by reflexivity. reflexivity.
Qed.

Lemma canon_tie t p : canon (tie t p) = canon p.
Proof.
  induction p as [| | | | |l IH|kv IH] using json_ind'; try reflexivity.
  - unfold tie. rewrite jfold_arr. fold (tie t). rewrite !canon_arr, map_map.
    assert (E : map (fun x => canon (tie t x)) l = map canon l); [|now rewrite E].
    induction IH as [|x r Hx Hr IHr]; [reflexivity|]. cbn [map]. now rewrite Hx, IHr.
  - unfold tie. rewrite jfold_obj.
    destruct (jget "__named_schemas" kv) as [[| | | | | |]|]; try reflexivity.
    unfold canon. apply canon_m_jset_irrelevant.
Qed.

Section Tops.
  Variable rec : json -> pstate -> pres (json * pstate).
  Inductive tops_ok : list json -> pstate -> list json -> pstate -> Prop :=
  | TNil t : tops_ok [] t [] t
  | TCons s r t p t1 ps t2 : rec s t = POk (p, t1) -> tops_ok r t1 ps t2 -> tops_ok (s :: r) t (p :: ps) t2.
  Lemma parse_tops_inv l : forall t ps t', parse_tops rec l t = POk (ps, t') -> tops_ok l t ps t'.
  Proof.
    induction l as [|s r IH]; intros t ps t' H; cbn [parse_tops] in H.
    - injection H as <- <-. constructor.
    - destruct (rec s t) as [[p t1]| | | |] eqn:E; cbn [pbind] in H; try discriminate H.
      destruct (parse_tops rec r t1) as [[ps' t2]| | | |] eqn:E2; cbn [pbind] in H; try discriminate H.
      injection H as <- <-. econstructor; eauto.
  Qed.
End Tops.

Lemma simple_raw_arr l : simple_raw (JArr l) = true -> forallb simple_raw l = true.
Proof.
  unfold simple_raw. rewrite simple_arr, unmarked_arr. intros H.
  apply Bool.andb_true_iff in H. destruct H as [H1 H2].
  induction l as [|x r IH]; [reflexivity|]. cbn [forallb] in *.
  apply Bool.andb_true_iff in H1. apply Bool.andb_true_iff in H2.
  destruct H1 as [A1 B1], H2 as [A2 B2]. rewrite A1, A2. cbn [andb]. auto.
Qed.

Lemma pcf_arr_text l : pcf (JArr l) = "[" ++ join "," (map pcf l) ++ "]".
Proof. unfold pcf, pcf_json. rewrite pcf_arr, print_arr, map_map. reflexivity. Qed.

Lemma run_parse_spec f j st p st' :
  simple_raw j = true -> run_parse f j st = POk (p, st') -> canon p = pcf j.
Proof.
  unfold run_parse, simple_raw. intros S H. apply Bool.andb_true_iff in S. destruct S as [S _].
  eapply parse_rec_spec; eauto.
Qed.

Lemma parse_schema_rec_spec f : forall j st p st',
  simple_raw j = true -> parse_schema_rec f j st = POk (p, st') -> canon p = pcf j.
Proof.
  induction f as [|f IH]; intros j st p st' S H; cbn [parse_schema_rec] in H; [discriminate H|].
  destruct j as [| | | | |l|kv]; try (eapply run_parse_spec; eauto; fail).
  - (* top-level union *)
    destruct (parse_tops (parse_schema_rec f) l st) as [[ps st1]| | | |] eqn:E; cbn [pbind] in H; try discriminate H.
    injection H as <- <-. apply parse_tops_inv in E. apply simple_raw_arr in S.
    rewrite canon_arr, pcf_arr_text.
    assert (EQ : map canon ps = map pcf l); [|now rewrite EQ].
    induction E as [|s r t p t1' ps t2 R E IHE]; [reflexivity|].
    cbn [forallb] in S. apply Bool.andb_true_iff in S. destruct S as [S1 S2].
    cbn [map]. f_equal; eauto.
  - (* dict: raw by hypothesis *)
    assert (U : jhas "__fastavro_parsed" kv = false).
    { unfold simple_raw in S. apply Bool.andb_true_iff in S. destruct S as [_ U].
      rewrite unmarked_obj in U. now apply Bool.negb_true_iff in U. }
    rewrite U in H. eapply run_parse_spec; eauto.
Qed.

Theorem canon_parse_is_pcf f j t p t' :
  simple_raw j = true -> parse_schema f j t = POk (p, t') -> canon p = pcf j.
Proof.
  unfold parse_schema. intros S H.
  destruct (parse_schema_rec f j (mkst [] t)) as [[p0 st1]| | | |] eqn:E; cbn [pbind] in H; try discriminate H.
  injection H as <- <-. rewrite canon_tie. eapply parse_schema_rec_spec; eauto.
Qed.

(** ---- cosmetic edits ----
    [cosmetic ns m j1 j2]: j2 is obtained from j1 (read in namespace ns, as a
    schema / a field list / a field) by edits that the statement calls cosmetic:
    any change of attributes other than the structural ones (so: doc, aliases,
    default, order, custom and logical-type attributes added, removed or
    changed, and any reordering of attributes), a different spelling of a name
    (namespace + name vs dotted name, namespace inherited vs spelled out) or of
    a reference, at any position. *)
Definition agree_on (ks : list string) (kv kv' : list (string * json)) : Prop :=
  forall k, mem k ks = true -> jget k kv = jget k kv'.

Definition SCHEMA_KEYS : list string :=
  ["type"; "name"; "namespace"; "fields"; "symbols"; "items"; "values"; "size"].
Definition SHAPE_KEYS : list string := ["type"; "fields"; "symbols"; "items"; "values"; "size"].

Inductive cosmetic : string -> pmode -> json -> json -> Prop :=
| CRefl ns m j : cosmetic ns m j j
| CSym ns m a b : cosmetic ns m a b -> cosmetic ns m b a
| CTrans ns m a b c : cosmetic ns m a b -> cosmetic ns m b c -> cosmetic ns m a c
(* attributes of a schema node: everything but the structural keys may change, in any order *)
| CAttrs ns kv kv' : agree_on SCHEMA_KEYS kv kv' -> cosmetic ns PSchema (JObj kv) (JObj kv')
(* attributes of a field: everything but name and type *)
| CFieldAttrs ns kv kv' : agree_on ["name"; "type"] kv kv' -> cosmetic ns PField (JObj kv) (JObj kv')
(* another spelling of the same full name *)
| CName ns kv kv' :
    agree_on SHAPE_KEYS kv kv' ->
    spec_fullname ns kv = spec_fullname ns kv' -> spec_namespace ns kv = spec_namespace ns kv' ->
    cosmetic ns PSchema (JObj kv) (JObj kv')
(* another spelling of a reference *)
| CRef ns s s' :
    spec_is_prim s = false -> spec_is_prim s' = false -> spec_ref ns s = spec_ref ns s' ->
    cosmetic ns PSchema (JStr s) (JStr s')
(* closure under contexts *)
| CUnionNil ns : cosmetic ns PSchema (JArr []) (JArr [])
| CUnionCons ns x x' l l' :
    cosmetic ns PSchema x x' -> cosmetic ns PSchema (JArr l) (JArr l') ->
    cosmetic ns PSchema (JArr (x :: l)) (JArr (x' :: l'))
| CFieldsNil ns : cosmetic ns PFields (JArr []) (JArr [])
| CFieldsCons ns x x' l l' :
    cosmetic ns PField x x' -> cosmetic ns PFields (JArr l) (JArr l') ->
    cosmetic ns PFields (JArr (x :: l)) (JArr (x' :: l'))
| CItems ns kv v v' :
    jget "items" kv = Some v -> cosmetic ns PSchema v v' ->
    cosmetic ns PSchema (JObj kv) (JObj (jset "items" v' kv))
| CValues ns kv v v' :
    jget "values" kv = Some v -> cosmetic ns PSchema v v' ->
    cosmetic ns PSchema (JObj kv) (JObj (jset "values" v' kv))
| CRecFields ns kv v v' :
    jget "fields" kv = Some v -> cosmetic (spec_namespace ns kv) PFields v v' ->
    cosmetic ns PSchema (JObj kv) (JObj (jset "fields" v' kv))
| CFieldType ns kv v v' :
    jget "type" kv = Some v -> cosmetic ns PSchema v v' ->
    cosmetic ns PField (JObj kv) (JObj (jset "type" v' kv)).

Lemma spec_names_agree ns kv kv' :
  jget "name" kv = jget "name" kv' -> jget "namespace" kv = jget "namespace" kv' ->
  spec_fullname ns kv = spec_fullname ns kv' /\ spec_namespace ns kv = spec_namespace ns kv'.
Proof.
  intros N S. unfold spec_fullname, spec_namespace, spec_space, spec_name. now rewrite N, S.
Qed.

Lemma spec_names_jset ns kv k v :
  String.eqb "name" k = false -> String.eqb "namespace" k = false ->
  spec_fullname ns (jset k v kv) = spec_fullname ns kv /\ spec_namespace ns (jset k v kv) = spec_namespace ns kv.
Proof. intros A B. apply spec_names_agree; now rewrite jget_jset_neq. Qed.

(* pcf of a dict depends on the structural keys only *)
Lemma pcf_obj_shape ns kv kv' :
  agree_on SHAPE_KEYS kv kv' ->
  spec_fullname ns kv = spec_fullname ns kv' -> spec_namespace ns kv = spec_namespace ns kv' ->
  pcf_m (JObj kv) PSchema ns = pcf_m (JObj kv') PSchema ns.
Proof.
  intros A F N. rewrite !pcf_m_obj. unfold pcf_obj, attr. rewrite !psub_map, !jget_map.
  rewrite <- (A "type"), <- (A "items"), <- (A "values"), <- (A "symbols"), <- (A "size"), <- (A "fields") by reflexivity.
  now rewrite F, N.
Qed.

Lemma pcf_field_shape ns kv kv' :
  agree_on ["name"; "type"] kv kv' -> pcf_m (JObj kv) PField ns = pcf_m (JObj kv') PField ns.
Proof.
  intros A. rewrite !pcf_m_obj. unfold pcf_obj, attr. rewrite !psub_map.
  now rewrite <- (A "type"), <- (A "name") by reflexivity.
Qed.

Lemma agree_jset ks k v kv : mem k ks = false -> agree_on ks kv (jset k v kv).
Proof.
  intros M k' M'. rewrite jget_jset_neq; [reflexivity|].
  destruct (String.eqb_spec k' k); [subst; congruence|reflexivity].
Qed.

Lemma pcf_obj_child ns kv k v v' :
  mem k ["items"; "values"] = true -> jget k kv = Some v ->
  pcf_m v PSchema ns = pcf_m v' PSchema ns ->
  pcf_m (JObj kv) PSchema ns = pcf_m (JObj (jset k v' kv)) PSchema ns.
Proof.
  intros M G E. rewrite !pcf_m_obj. unfold pcf_obj, attr. rewrite !psub_map, !jget_map.
  assert (K : k = "items" \/ k = "values").
  { cbn [mem existsb] in M. destruct (String.eqb_spec k "items"); [auto|].
    destruct (String.eqb_spec k "values"); [auto|discriminate M]. }
  destruct (spec_names_jset ns kv k v') as [F N]; [destruct K; subst; reflexivity..|].
  rewrite F, N.
  destruct K; subst k; getk; rewrite G, E; reflexivity.
Qed.

Lemma cosmetic_pcf ns m a b : cosmetic ns m a b -> pcf_m a m ns = pcf_m b m ns.
Proof.
  induction 1 as [ns m j|ns m a b H IH|ns m a b c H1 IH1 H2 IH2|ns kv kv' A|ns kv kv' A|ns kv kv' A F N
                  |ns s s' P P' R| |ns x x' l l' Hx IHx Hl IHl| |ns x x' l l' Hx IHx Hl IHl
                  |ns kv v v' G H IH|ns kv v v' G H IH|ns kv v v' G H IH|ns kv v v' G H IH].
  - reflexivity.
  - now symmetry.
  - congruence.
  - destruct (spec_names_agree ns kv kv') as [F N]; [apply A; reflexivity..|].
    apply pcf_obj_shape; auto. intros k M. apply A.
    cbn [mem existsb SHAPE_KEYS SCHEMA_KEYS] in *.
    repeat match goal with |- context [String.eqb k ?x] => destruct (String.eqb k x) end; try reflexivity; discriminate M.
  - now apply pcf_field_shape.
  - now apply pcf_obj_shape.
  - unfold pcf_m. cbn [jfold]. now rewrite P, P', R.
  - reflexivity.
  - change (pcf_json_in ns (JArr (x :: l)) = pcf_json_in ns (JArr (x' :: l'))).
    rewrite !pcf_arr. cbn [map]. unfold pcf_json_in at 1 3. rewrite IHx.
    change (pcf_json_in ns (JArr l) = pcf_json_in ns (JArr l')) in IHl. rewrite !pcf_arr in IHl.
    injection IHl as ->. reflexivity.
  - reflexivity.
  - rewrite !pcf_fields. cbn [map]. rewrite IHx. rewrite !pcf_fields in IHl. injection IHl as ->. reflexivity.
  - apply (pcf_obj_child ns kv "items" v v'); auto.
  - apply (pcf_obj_child ns kv "values" v v'); auto.
  - rewrite !pcf_m_obj. unfold pcf_obj, attr. rewrite !psub_map, !jget_map.
    destruct (spec_names_jset ns kv "fields" v') as [F N]; [reflexivity..|].
    rewrite F, N. getk. rewrite G. cbn [option_map]. now rewrite IH.
  - rewrite !pcf_m_obj. unfold pcf_obj, attr. rewrite !psub_map. getk. now rewrite G, IH.
Qed.

Theorem cosmetic_same_canon j1 j2 f1 f2 t1 t2 p1 p2 t1' t2' :
  cosmetic "" PSchema j1 j2 -> simple_raw j1 = true -> simple_raw j2 = true ->
  parse_schema f1 j1 t1 = POk (p1, t1') -> parse_schema f2 j2 t2 = POk (p2, t2') ->
  canon p1 = canon p2.
Proof.
  intros C S1 S2 H1 H2.
  rewrite (canon_parse_is_pcf _ _ _ _ _ S1 H1), (canon_parse_is_pcf _ _ _ _ _ S2 H2).
  unfold pcf, pcf_json, pcf_json_in. now rewrite (cosmetic_pcf _ _ _ _ C).
Qed.

(* the listed edit kinds as instances of the rules *)
Lemma cosmetic_set_attr ns kv k v :
  mem k SCHEMA_KEYS = false -> cosmetic ns PSchema (JObj kv) (JObj (jset k v kv)).
Proof. intros M. apply CAttrs. now apply agree_jset. Qed.

Lemma cosmetic_del_attr ns kv k :
  mem k SCHEMA_KEYS = false -> cosmetic ns PSchema (JObj kv) (JObj (jdrop [k] kv)).
Proof.
  intros M. apply CAttrs. intros k' M'. rewrite jget_jdrop_out; [reflexivity|].
  cbn [mem existsb]. destruct (String.eqb_spec k' k); [subst; congruence|reflexivity].
Qed.

Lemma cosmetic_field_set_attr ns kv k v :
  mem k ["name"; "type"] = false -> cosmetic ns PField (JObj kv) (JObj (jset k v kv)).
Proof. intros M. apply CFieldAttrs. now apply agree_jset. Qed.

(* namespace + short name  vs  dotted name *)
Lemma cosmetic_dotted ns kv n sp :
  jget "name" kv = Some (JStr n) -> jget "namespace" kv = Some (JStr sp) ->
  has_dot n = false -> sp <> "" -> has_dot (sp ++ "." ++ n) = true ->
  before_last_dot (sp ++ "." ++ n) = sp ->
  cosmetic ns PSchema (JObj kv) (JObj (jset "name" (JStr (sp ++ "." ++ n)) kv)).
Proof.
  intros N S D NE HD BL. apply CName.
  - now apply agree_jset.
  - unfold spec_fullname, spec_name, spec_space. getk. rewrite N, S, D, HD.
    destruct (String.eqb_spec sp ""); [contradiction|reflexivity].
  - unfold spec_namespace, spec_name, spec_space. getk. rewrite N, S, D, HD. now rewrite BL.
Qed.

(* a cleaner form of the dotted-name rule, with the string facts discharged *)
Lemma cosmetic_dotted_name ns kv n sp :
  jget "name" kv = Some (JStr n) -> jget "namespace" kv = Some (JStr sp) ->
  has_dot n = false -> sp <> "" ->
  cosmetic ns PSchema (JObj kv) (JObj (jset "name" (JStr (sp ++ "." ++ n)) kv)).
Proof.
  intros N S D NE. apply cosmetic_dotted; auto using has_dot_join, before_last_dot_join.
Qed.

(** ---- re-reading the canonical JSON ---- *)
Lemma prim_no_dot s : spec_is_prim s = true -> has_dot s = false.
Proof.
  unfold spec_is_prim, mem, spec_prims. cbn [existsb]. intros H.
  repeat match type of H with
         | (String.eqb s ?x || _) = true => destruct (String.eqb_spec s x); [subst; reflexivity|cbn [orb] in H]
         end.
  discriminate H.
Qed.

Lemma ns_closed_m_obj kv m ns :
  ns_closed_m (JObj kv) m ns =
  let rs := map (fun p => (fst p, ns_closed_m (snd p))) kv in
  match m with
  | PField => csub "type" rs PSchema ns
  | _ =>
      if type_is kv "array" then csub "items" rs PSchema ns
      else if type_is kv "map" then csub "values" rs PSchema ns
      else if type_is kv "enum" || type_is kv "fixed" then has_dot (spec_fullname ns kv) || String.eqb ns ""
      else if type_is kv "record" || type_is kv "error" then
        (has_dot (spec_fullname ns kv) || String.eqb ns "") && csub "fields" rs PFields (spec_namespace ns kv)
      else true
  end.
Proof. reflexivity. Qed.

Lemma csub_map k kv m ns :
  csub k (map (fun p => (fst p, ns_closed_m (snd p))) kv) m ns =
  match jget k kv with Some v => ns_closed_m v m ns | None => true end.
Proof. unfold csub. rewrite jget_map. destruct (jget k kv); reflexivity. Qed.

Lemma ns_closed_arr l m ns :
  ns_closed_m (JArr l) m ns =
  forallb (fun j => ns_closed_m j (match m with PFields => PField | _ => PSchema end) ns) l.
Proof. unfold ns_closed_m. rewrite jfold_arr. now rewrite forallb_map. Qed.

Lemma pcf_m_arr l m ns :
  pcf_m (JArr l) m ns = JArr (map (fun j => pcf_m j (match m with PFields => PField | _ => PSchema end) ns) l).
Proof. unfold pcf_m. rewrite jfold_arr. destruct m; rewrite map_map; reflexivity. Qed.

(* the canonical name is read back as itself *)
Lemma jget_here {A} k (v : A) r : jget k ((k, v) :: r) = Some v.
Proof. cbn [jget]. now rewrite String.eqb_refl. Qed.
Lemma jget_next {A} k k' (v : A) r : String.eqb k k' = false -> jget k ((k', v) :: r) = jget k r.
Proof. intros H. cbn [jget]. now rewrite H. Qed.

Lemma fullname_reread ns full ty k v :
  String.eqb "namespace" k = false -> has_dot full || String.eqb ns "" = true ->
  spec_fullname ns [("name", JStr full); ("type", ty); (k, v)] = full.
Proof.
  intros K H. unfold spec_fullname, spec_name, spec_space. rewrite jget_here.
  destruct (has_dot full) eqn:D; [reflexivity|].
  rewrite (jget_next "namespace" "name") by reflexivity.
  rewrite (jget_next "namespace" "type") by reflexivity.
  rewrite (jget_next "namespace" k) by exact K. cbn [jget].
  cbn [orb] in H. apply String.eqb_eq in H. subst ns. reflexivity.
Qed.

Lemma pcf_idem j : forall m ns, ns_closed_m j m ns = true -> pcf_m (pcf_m j m ns) m ns = pcf_m j m ns.
Proof.
  induction j as [| | | |s|l IH|kv IH] using json_ind'; intros m ns C; try reflexivity.
  - (* string *)
    unfold pcf_m. cbn [jfold]. destruct (spec_is_prim s) eqn:P; cbn [jfold]; [now rewrite P|].
    assert (R : spec_is_prim (spec_ref ns s) = false /\ spec_ref ns (spec_ref ns s) = spec_ref ns s).
    { unfold spec_ref. destruct (has_dot s) eqn:D; [rewrite D; auto|].
      destruct (String.eqb ns "") eqn:E; [rewrite ?D; auto|].
      rewrite has_dot_join. split; [|reflexivity].
      destruct (spec_is_prim (ns ++ "." ++ s)) eqn:Q; [|reflexivity].
      apply prim_no_dot in Q. rewrite has_dot_join in Q. discriminate Q. }
    destruct R as [R1 R2]. now rewrite R1, R2.
  - (* list *)
    rewrite ns_closed_arr in C. rewrite !pcf_m_arr, map_map. f_equal.
    induction IH as [|x r Hx Hr IHr]; [reflexivity|].
    cbn [forallb] in C. apply Bool.andb_true_iff in C. destruct C as [C1 C2].
    cbn [map]. f_equal; [|auto].
    destruct m; apply Hx; exact C1.
  - (* dict *)
    assert (IH' : forall k v, jget k kv = Some v -> forall m ns,
               ns_closed_m v m ns = true -> pcf_m (pcf_m v m ns) m ns = pcf_m v m ns).
    { intros k v G.
      exact (jget_Forall (fun v => forall m ns, ns_closed_m v m ns = true -> pcf_m (pcf_m v m ns) m ns = pcf_m v m ns)
                         k kv v IH G). }
    rewrite ns_closed_m_obj in C. cbn zeta in C.
    rewrite (pcf_m_obj kv). unfold pcf_obj. unfold attr. rewrite !psub_map, !jget_map.
    destruct m.
    + (* schema *)
      unfold type_is in C.
      destruct (jget "type" kv) as [[| | | |t| |]|] eqn:T; try reflexivity.
      destruct (spec_is_prim t) eqn:P.
      { unfold pcf_m. cbn [jfold]. now rewrite P. }
      destruct (String.eqb t "array") eqn:E1.
      { rewrite csub_map in C. rewrite pcf_m_obj. unfold pcf_obj. cbn [jget String.eqb Ascii.eqb Bool.eqb spec_is_prim mem existsb spec_prims orb].
        rewrite psub_map. cbn [jget String.eqb Ascii.eqb Bool.eqb]. destruct (jget "items" kv) as [v|] eqn:G; [|reflexivity].
        cbn [option_map]. now rewrite (IH' _ _ G PSchema ns C). }
      destruct (String.eqb t "map") eqn:E2.
      { rewrite csub_map in C. rewrite pcf_m_obj. unfold pcf_obj. cbn [jget String.eqb Ascii.eqb Bool.eqb spec_is_prim mem existsb spec_prims orb].
        rewrite psub_map. cbn [jget String.eqb Ascii.eqb Bool.eqb]. destruct (jget "values" kv) as [v|] eqn:G; [|reflexivity].
        cbn [option_map]. now rewrite (IH' _ _ G PSchema ns C). }
      destruct (String.eqb t "enum") eqn:E3.
      { cbn [orb] in C. rewrite pcf_m_obj. unfold pcf_obj, attr.
        cbn [jget String.eqb Ascii.eqb Bool.eqb spec_is_prim mem existsb spec_prims orb].
        now rewrite (fullname_reread ns _ _ "symbols" _ eq_refl C). }
      destruct (String.eqb t "fixed") eqn:E4.
      { cbn [orb] in C. rewrite pcf_m_obj. unfold pcf_obj, attr.
        cbn [jget String.eqb Ascii.eqb Bool.eqb spec_is_prim mem existsb spec_prims orb].
        now rewrite (fullname_reread ns _ _ "size" _ eq_refl C). }
      destruct (String.eqb t "record" || String.eqb t "error") eqn:E5; [|reflexivity].
      cbn [orb] in C. apply Bool.andb_true_iff in C. destruct C as [C1 C2]. rewrite csub_map in C2.
      rewrite pcf_m_obj. unfold pcf_obj, attr.
      cbn [jget String.eqb Ascii.eqb Bool.eqb spec_is_prim mem existsb spec_prims orb map fst snd].
      rewrite (fullname_reread ns _ _ "fields" _ eq_refl C1).
      (* the namespace the fields are re-read in *)
      assert (NS : spec_namespace ns [("name", JStr (spec_fullname ns kv)); ("type", JStr "record");
                     ("fields", match option_map pcf_m (jget "fields" kv) with
                                | Some r => r PFields (spec_namespace ns kv) | None => JArr [] end)]
                   = spec_namespace ns kv).
      { unfold spec_namespace at 1. unfold spec_name, spec_space at 1. cbn [jget String.eqb Ascii.eqb Bool.eqb].
        unfold spec_fullname, spec_namespace in *. set (n := spec_name kv) in *. set (sp := spec_space ns kv) in *.
        destruct (has_dot n) eqn:D; [now rewrite D|].
        destruct (String.eqb sp "") eqn:E.
        - rewrite D in *. cbn [orb] in C1. apply String.eqb_eq in C1. apply String.eqb_eq in E. congruence.
        - rewrite has_dot_join. now apply before_last_dot_join. }
      rewrite NS.
      destruct (jget "fields" kv) as [v|] eqn:G; cbn [option_map]; [|reflexivity].
      now rewrite (IH' _ _ G PFields _ C2).
    + (* a dict where a field list is expected: read as a schema *)
      unfold type_is in C.
      destruct (jget "type" kv) as [[| | | |t| |]|] eqn:T; try reflexivity.
      destruct (spec_is_prim t) eqn:P.
      { unfold pcf_m. cbn [jfold]. now rewrite P. }
      destruct (String.eqb t "array") eqn:E1.
      { rewrite csub_map in C. rewrite pcf_m_obj. unfold pcf_obj. cbn [jget String.eqb Ascii.eqb Bool.eqb spec_is_prim mem existsb spec_prims orb].
        rewrite psub_map. cbn [jget String.eqb Ascii.eqb Bool.eqb]. destruct (jget "items" kv) as [v|] eqn:G; [|reflexivity].
        cbn [option_map]. now rewrite (IH' _ _ G PSchema ns C). }
      destruct (String.eqb t "map") eqn:E2.
      { rewrite csub_map in C. rewrite pcf_m_obj. unfold pcf_obj. cbn [jget String.eqb Ascii.eqb Bool.eqb spec_is_prim mem existsb spec_prims orb].
        rewrite psub_map. cbn [jget String.eqb Ascii.eqb Bool.eqb]. destruct (jget "values" kv) as [v|] eqn:G; [|reflexivity].
        cbn [option_map]. now rewrite (IH' _ _ G PSchema ns C). }
      destruct (String.eqb t "enum") eqn:E3.
      { cbn [orb] in C. rewrite pcf_m_obj. unfold pcf_obj, attr.
        cbn [jget String.eqb Ascii.eqb Bool.eqb spec_is_prim mem existsb spec_prims orb].
        now rewrite (fullname_reread ns _ _ "symbols" _ eq_refl C). }
      destruct (String.eqb t "fixed") eqn:E4.
      { cbn [orb] in C. rewrite pcf_m_obj. unfold pcf_obj, attr.
        cbn [jget String.eqb Ascii.eqb Bool.eqb spec_is_prim mem existsb spec_prims orb].
        now rewrite (fullname_reread ns _ _ "size" _ eq_refl C). }
      destruct (String.eqb t "record" || String.eqb t "error") eqn:E5; [|reflexivity].
      cbn [orb] in C. apply Bool.andb_true_iff in C. destruct C as [C1 C2]. rewrite csub_map in C2.
      rewrite pcf_m_obj. unfold pcf_obj, attr.
      cbn [jget String.eqb Ascii.eqb Bool.eqb spec_is_prim mem existsb spec_prims orb map fst snd].
      rewrite (fullname_reread ns _ _ "fields" _ eq_refl C1).
      assert (NS : spec_namespace ns [("name", JStr (spec_fullname ns kv)); ("type", JStr "record");
                     ("fields", match option_map pcf_m (jget "fields" kv) with
                                | Some r => r PFields (spec_namespace ns kv) | None => JArr [] end)]
                   = spec_namespace ns kv).
      { unfold spec_namespace at 1. unfold spec_name, spec_space at 1. cbn [jget String.eqb Ascii.eqb Bool.eqb].
        unfold spec_fullname, spec_namespace in *. set (n := spec_name kv) in *. set (sp := spec_space ns kv) in *.
        destruct (has_dot n) eqn:D; [now rewrite D|].
        destruct (String.eqb sp "") eqn:E.
        - rewrite D in *. cbn [orb] in C1. apply String.eqb_eq in C1. apply String.eqb_eq in E. congruence.
        - rewrite has_dot_join. now apply before_last_dot_join. }
      rewrite NS.
      destruct (jget "fields" kv) as [v|] eqn:G; cbn [option_map]; [|reflexivity].
      now rewrite (IH' _ _ G PFields _ C2).
    + (* field *)
      rewrite csub_map in C. rewrite pcf_m_obj. unfold pcf_obj, attr. cbn [jget String.eqb Ascii.eqb Bool.eqb].
      rewrite psub_map. cbn [jget String.eqb Ascii.eqb Bool.eqb].
      destruct (jget "type" kv) as [v|] eqn:G; cbn [option_map]; [|reflexivity].
      now rewrite (IH' _ _ G PSchema ns C).
Qed.

Theorem pcf_json_fixed_point j : ns_closed j = true -> pcf_json (pcf_json j) = pcf_json j.
Proof. intros C. unfold pcf_json, pcf_json_in. now apply pcf_idem. Qed.

Theorem canon_fixed_point j f1 f2 t1 t2 p p' t1' t2' :
  ns_closed j = true -> simple_raw j = true -> simple_raw (pcf_json j) = true ->
  parse_schema f1 j t1 = POk (p, t1') -> parse_schema f2 (pcf_json j) t2 = POk (p', t2') ->
  canon p' = canon p /\ canon p' = print_json (pcf_json j).
Proof.
  intros C S1 S2 H1 H2.
  rewrite (canon_parse_is_pcf _ _ _ _ _ S1 H1), (canon_parse_is_pcf _ _ _ _ _ S2 H2).
  unfold pcf. now rewrite (pcf_json_fixed_point _ C).
Qed.
