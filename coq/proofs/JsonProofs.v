(** Generic facts about association lists, the json recursor and strings. *)
From Coq Require Import String Ascii Lia.
From FA Require Import model.Base model.Json.
Open Scope string_scope.

(** ---- strings ---- *)
Lemma app_assoc_s (a b c : string) : (a ++ b) ++ c = a ++ (b ++ c).
Proof. induction a as [|x a IH]; cbn [append]; [reflexivity|]. now rewrite IH. Qed.

Lemma app_nil_r_s (a : string) : a ++ "" = a.
Proof. induction a as [|x a IH]; cbn [append]; [reflexivity|]. now rewrite IH. Qed.

(* normalise both sides to right-nested appends with literals unfolded, then compare *)
Ltac snorm := repeat rewrite app_assoc_s; cbn [append].
Ltac seq := snorm; repeat (reflexivity || f_equal).

(** ---- association lists ---- *)
Lemma jget_map {A B} (f : A -> B) k (kv : list (string * A)) :
  jget k (map (fun p => (fst p, f (snd p))) kv) = option_map f (jget k kv).
Proof.
  induction kv as [|[k' v] r IH]; cbn [map jget fst snd]; [reflexivity|].
  destruct (String.eqb k k'); [reflexivity|exact IH].
Qed.

Lemma jget_jset_eq {A} k (v : A) kv : jget k (jset k v kv) = Some v.
Proof.
  induction kv as [|[k' v'] r IH]; cbn [jset jget].
  - now rewrite String.eqb_refl.
  - destruct (String.eqb k k') eqn:E; cbn [jget]; rewrite ?String.eqb_refl, ?E; auto.
Qed.

Lemma jget_jset_neq {A} k k' (v : A) kv : String.eqb k k' = false -> jget k (jset k' v kv) = jget k kv.
Proof.
  intros N. induction kv as [|[k2 v2] r IH]; cbn [jset jget].
  - now rewrite N.
  - destruct (String.eqb k' k2) eqn:E; cbn [jget].
    + apply String.eqb_eq in E. subst k2. now rewrite N.
    + destruct (String.eqb k k2); auto.
Qed.

Lemma jhas_jset_eq {A} k (v : A) kv : jhas k (jset k v kv) = true.
Proof. unfold jhas. now rewrite jget_jset_eq. Qed.

Lemma jhas_jset_neq {A} k k' (v : A) kv : String.eqb k k' = false -> jhas k (jset k' v kv) = jhas k kv.
Proof. intros N. unfold jhas. now rewrite jget_jset_neq. Qed.

Lemma jhas_jset_mono {A} k k' (v : A) kv : jhas k kv = true -> jhas k (jset k' v kv) = true.
Proof.
  intros H. destruct (String.eqb k k') eqn:E.
  - apply String.eqb_eq in E. subst. apply jhas_jset_eq.
  - now rewrite jhas_jset_neq.
Qed.

Lemma jget_jdrop_in {A} k ex (kv : list (string * A)) : mem k ex = true -> jget k (jdrop ex kv) = None.
Proof.
  intros M. unfold jdrop. induction kv as [|[k' v] r IH]; cbn [filter jget fst]; [reflexivity|].
  destruct (mem k' ex) eqn:E; cbn [negb]; [exact IH|].
  cbn [jget]. destruct (String.eqb k k') eqn:E2; [|exact IH].
  apply String.eqb_eq in E2. subst. congruence.
Qed.

Lemma jget_jdrop_out {A} k ex (kv : list (string * A)) : mem k ex = false -> jget k (jdrop ex kv) = jget k kv.
Proof.
  intros M. unfold jdrop. induction kv as [|[k' v] r IH]; cbn [filter jget fst]; [reflexivity|].
  destruct (mem k' ex) eqn:E; cbn [negb].
  - destruct (String.eqb k k') eqn:E2; [|exact IH]. apply String.eqb_eq in E2. subst. congruence.
  - cbn [jget]. destruct (String.eqb k k'); [reflexivity|exact IH].
Qed.

Lemma keys_jset {A} k (v : A) kv :
  keys (jset k v kv) = if jhas k kv then keys kv else (keys kv ++ [k])%list.
Proof.
  unfold keys, jhas. induction kv as [|[k' v'] r IH]; cbn [jset jget map fst app]; [reflexivity|].
  destruct (String.eqb k k') eqn:E; cbn [map fst].
  - apply String.eqb_eq in E. now subst.
  - rewrite IH. destruct (jget k r); reflexivity.
Qed.

Lemma mem_app s a b : mem s (a ++ b)%list = mem s a || mem s b.
Proof. unfold mem. apply existsb_app. Qed.

Lemma mem_In s l : mem s l = true <-> In s l.
Proof.
  unfold mem. rewrite existsb_exists. split.
  - intros [x [H E]]. apply String.eqb_eq in E. now subst.
  - intros H. exists s. split; [exact H|apply String.eqb_refl].
Qed.

Lemma jhas_keys {A} k (kv : list (string * A)) : jhas k kv = mem k (keys kv).
Proof.
  unfold jhas, keys, mem. induction kv as [|[k' v] r IH]; cbn [jget map fst existsb]; [reflexivity|].
  destruct (String.eqb k k'); [reflexivity|exact IH].
Qed.

(** ---- the recursor ---- *)
Lemma jfold_arr {A} (fa : json -> A) farr fobj l :
  jfold fa farr fobj (JArr l) = farr l (map (jfold fa farr fobj) l).
Proof. reflexivity. Qed.

Lemma jfold_obj {A} (fa : json -> A) farr fobj kv :
  jfold fa farr fobj (JObj kv) = fobj kv (map (fun p => (fst p, jfold fa farr fobj (snd p))) kv).
Proof. reflexivity. Qed.

(** induction principle that reaches through the nested lists *)
Section JsonInd.
  Variable P : json -> Prop.
  Hypothesis Hnull : P JNull.
  Hypothesis Hbool : forall b, P (JBool b).
  Hypothesis Hint : forall z, P (JInt z).
  Hypothesis Hfloat : forall z, P (JFloat z).
  Hypothesis Hstr : forall s, P (JStr s).
  Hypothesis Harr : forall l, Forall P l -> P (JArr l).
  Hypothesis Hobj : forall kv, Forall (fun p => P (snd p)) kv -> P (JObj kv).
  Fixpoint json_ind' (j : json) : P j :=
    match j with
    | JNull => Hnull
    | JBool b => Hbool b
    | JInt z => Hint z
    | JFloat z => Hfloat z
    | JStr s => Hstr s
    | JArr l => Harr l ((fix go (l : list json) : Forall P l :=
                           match l with
                           | [] => Forall_nil _
                           | x :: r => Forall_cons _ (json_ind' x) (go r)
                           end) l)
    | JObj kv => Hobj kv ((fix go (kv : list (string * json)) : Forall (fun p => P (snd p)) kv :=
                             match kv with
                             | [] => Forall_nil _
                             | p :: r => Forall_cons _ (json_ind' (snd p)) (go r)
                             end) kv)
    end.
End JsonInd.

Lemma jget_Forall {A} (P : A -> Prop) k (kv : list (string * A)) v :
  Forall (fun p => P (snd p)) kv -> jget k kv = Some v -> P v.
Proof.
  induction 1 as [|[k' v'] r Hx Hr IH]; cbn [jget]; [discriminate|].
  destruct (String.eqb k k'); [intros E; injection E as <-; exact Hx|exact IH].
Qed.

Lemma forallb_map {A B} (f : B -> bool) (g : A -> B) l :
  forallb f (map g l) = forallb (fun x => f (g x)) l.
Proof. induction l as [|x r IH]; cbn [map forallb]; [reflexivity|now rewrite IH]. Qed.

Lemma has_dot_app a b : has_dot (a ++ b) = has_dot a || has_dot b.
Proof. induction a as [|c a IH]; cbn [append has_dot]; [reflexivity|]. rewrite IH. now rewrite Bool.orb_assoc. Qed.

Lemma has_dot_join a b : has_dot (a ++ "." ++ b) = true.
Proof. rewrite has_dot_app. cbn. apply Bool.orb_true_r. Qed.

Lemma before_last_dot_join a b : has_dot b = false -> before_last_dot (a ++ "." ++ b) = a.
Proof.
  intros H. induction a as [|c a IH].
  - cbn. now rewrite H.
  - change ((String c a) ++ "." ++ b) with (String c (a ++ "." ++ b)).
    cbn [before_last_dot]. rewrite has_dot_join. now rewrite IH.
Qed.
