(** Proofs about model/Threads.v: threads whose steps write no shared cell behave,
    under every interleaving, as when run alone (C18); footprints of the API
    operations; the race of the current read_decimal. *)
From Coq Require Import ZArith List Bool Lia ZifyBool PeanoNat.
From FA Require Import model.Base model.Globals model.Threads proofs.GlobalsProofs.

(** a step is frame-preserving when it leaves the shared state as it found it *)
Definition framep {G L} (s : step G L) : Prop := forall g l, fst (run s g l) = g.

Definition count (s : schedule) (i : nat) : nat := count_occ Nat.eq_dec s i.

(** ---- list helpers -------------------------------------------------------------------- *)
Lemma nth_error_update_eq :
  forall A (l : list A) i x y, nth_error l i = Some y -> nth_error (update l i x) i = Some x.
Proof.
  induction l as [|a l IH]; intros [|i] x y H; cbn in *; try discriminate; [reflexivity|].
  eapply IH; eauto.
Qed.

Lemma nth_error_update_neq :
  forall A (l : list A) i j x, i <> j -> nth_error (update l i x) j = nth_error l j.
Proof.
  induction l as [|a l IH]; intros [|i] [|j] x H; cbn; try reflexivity; try congruence.
  apply IH. congruence.
Qed.

Lemma Forall_update :
  forall A (P : A -> Prop) (l : list A) i x, Forall P l -> P x -> Forall P (update l i x).
Proof.
  induction l as [|a l IH]; intros [|i] x Hl Hx; cbn; auto; inversion Hl; subst; constructor; auto.
Qed.

Lemma advance_nil : forall G L n (g : G) (l : L), advance n g l [] = (g, (l, [])).
Proof. intros G L [|n] g l; reflexivity. Qed.

(** ---- the simulation: induction over the schedule -------------------------------------- *)
Lemma simulation :
  forall G L (s : schedule) (g : G) (ts : list (tstate G L)),
    Forall (fun t => Forall framep (snd t)) ts ->
    fst (run_schedule s g ts) = g /\
    forall i l st, nth_error ts i = Some (l, st) ->
                   nth_error (snd (run_schedule s g ts)) i = Some (snd (advance (count s i) g l st)).
Proof.
  intros G L s. induction s as [|i0 s IH]; intros g ts HF.
  - cbn. split; [reflexivity|]. intros i l st H. rewrite H. reflexivity.
  - cbn [run_schedule].
    destruct (nth_error ts i0) as [[l0 [|s0 rest]]|] eqn:E.
    + (* thread i0 has finished *)
      destruct (IH g ts HF) as [H1 H2]. split; [exact H1|].
      intros i l st H. rewrite (H2 i l st H). unfold count. cbn [count_occ].
      destruct (Nat.eq_dec i0 i) as [->|Hne]; [|reflexivity].
      rewrite E in H. inversion H; subst. rewrite !advance_nil. reflexivity.
    + (* thread i0 takes a step *)
      assert (Hs0 : framep s0 /\ Forall framep rest).
      { rewrite Forall_forall in HF. specialize (HF (l0, s0 :: rest) (nth_error_In _ _ E)).
        cbn in HF. inversion HF; subst. split; assumption. }
      destruct Hs0 as [Hs0 Hrest].
      pose proof (Hs0 g l0) as Hg. destruct (run s0 g l0) as [g' l'] eqn:R. cbn in Hg. subst g'.
      assert (HF' : Forall (fun t => Forall framep (snd t)) (update ts i0 (l', rest))).
      { apply Forall_update; assumption. }
      destruct (IH g _ HF') as [H1 H2]. split; [exact H1|].
      intros i l st H. unfold count. cbn [count_occ].
      destruct (Nat.eq_dec i0 i) as [->|Hne].
      * rewrite E in H. inversion H; subst.
        rewrite (H2 i l' rest (nth_error_update_eq _ _ _ _ _ E)).
        cbn [advance]. rewrite R. reflexivity.
      * rewrite (H2 i l st); [reflexivity|]. rewrite nth_error_update_neq; assumption.
    + (* no such thread *)
      destruct (IH g ts HF) as [H1 H2]. split; [exact H1|].
      intros i l st H. rewrite (H2 i l st H). unfold count. cbn [count_occ].
      destruct (Nat.eq_dec i0 i) as [->|Hne]; [congruence|reflexivity].
Qed.

(** ---- every interleaving gives each thread exactly its number of steps ------------------ *)
Lemma nth_dec_nth_eq : forall l i, nth i (dec_nth l i) 0%nat = pred (nth i l 0%nat).
Proof. induction l as [|n l IH]; intros [|i]; cbn; auto. Qed.

Lemma nth_dec_nth_neq : forall l i j, i <> j -> nth j (dec_nth l i) 0%nat = nth j l 0%nat.
Proof.
  induction l as [|n l IH]; intros [|i] [|j] H; cbn; try reflexivity; try congruence.
  apply IH. congruence.
Qed.

Lemma list_sum_dec_nth :
  forall l i n, nth i l 0%nat = S n -> list_sum l = S (list_sum (dec_nth l i)).
Proof.
  induction l as [|m l IH]; intros [|i] n H; cbn in *; try discriminate.
  - subst. reflexivity.
  - pose proof (IH i n H) as IH'. unfold list_sum in *. cbn [fold_right]. lia.
Qed.

Lemma merges_count :
  forall f rem s, list_sum rem = f -> In s (merges f rem) ->
                  forall i, count s i = nth i rem 0%nat.
Proof.
  induction f as [|f IH]; intros rem s Hsum Hin i.
  - cbn in Hin. destruct Hin as [<-|[]]. unfold count; cbn.
    clear -Hsum. revert i Hsum. induction rem as [|n rem IHr]; intros [|i] Hsum; cbn [nth]; try reflexivity;
      unfold list_sum in *; cbn [fold_right] in Hsum.
    + lia.
    + apply IHr. lia.
  - cbn [merges] in Hin. apply in_flat_map in Hin. destruct Hin as [j [_ Hj]].
    destruct (nth j rem 0%nat) as [|n] eqn:Ej; [destruct Hj|].
    apply in_map_iff in Hj. destruct Hj as [s' [<- Hs']].
    assert (Hsum' : list_sum (dec_nth rem j) = f).
    { pose proof (list_sum_dec_nth rem j n Ej). lia. }
    specialize (IH _ _ Hsum' Hs' i). unfold count in *. cbn [count_occ].
    destruct (Nat.eq_dec j i) as [->|Hne].
    + rewrite IH, nth_dec_nth_eq, Ej. reflexivity.
    + rewrite IH. apply nth_dec_nth_neq. assumption.
Qed.

Lemma nth_map_length :
  forall A (ts : list (list A)) i t, nth_error ts i = Some t ->
                                     nth i (map (@List.length _) ts) 0%nat = List.length t.
Proof.
  induction ts as [|a ts IH]; intros [|i] t H; cbn in *; try discriminate.
  - inversion H; reflexivity.
  - apply IH; assumption.
Qed.

(** ---- C18, generic form ------------------------------------------------------------------ *)
Theorem interleaving_sequential :
  forall G L (ts : list (tstate G L)) (g : G),
    (forall t s, In t ts -> In s (snd t) -> forall g l, fst (run s g l) = g) ->
    forall sigma, In sigma (interleavings (map snd ts)) ->
      fst (run_schedule sigma g ts) = g /\
      forall i l st, nth_error ts i = Some (l, st) ->
        nth_error (snd (run_schedule sigma g ts)) i = Some (snd (run_alone g l st)).
Proof.
  intros G L ts g HF sigma Hin.
  assert (HF' : Forall (fun t => Forall framep (snd t)) ts).
  { apply Forall_forall. intros t Ht. apply Forall_forall. intros s Hs. exact (HF t s Ht Hs). }
  destruct (simulation G L sigma g ts HF') as [H1 H2]. split; [exact H1|].
  intros i l st H. rewrite (H2 i l st H). unfold run_alone.
  unfold interleavings in Hin.
  rewrite (merges_count _ _ _ eq_refl Hin i).
  assert (E : nth_error (map snd ts) i = Some st).
  { exact (map_nth_error snd i ts H). }
  rewrite (nth_map_length _ _ _ _ E). reflexivity.
Qed.

(** interleavings exist and are complete words (non-vacuity of the quantifier) *)
Lemma merges_nonempty : forall f rem, list_sum rem = f -> merges f rem <> [].
Proof.
  induction f as [|f IH]; intros rem H; cbn [merges]; [discriminate|].
  assert (exists j, (j < List.length rem)%nat /\ exists n, nth j rem 0%nat = S n) as [j [Hj [n Hn]]].
  { clear IH. revert f H. induction rem as [|m rem IHr]; intros f H; cbn in H; [discriminate|].
    destruct m as [|m].
    - destruct (IHr f H) as [j [Hj Hn]]. exists (S j). cbn. split; [lia|exact Hn].
    - exists 0%nat. cbn. split; [lia|]. exists m. reflexivity. }
  intros Hnil.
  assert (Hin : In j (seq 0 (List.length rem))) by (apply in_seq; lia).
  pose proof (list_sum_dec_nth rem j n Hn) as Hs.
  assert (Hsum' : list_sum (dec_nth rem j) = f) by lia.
  specialize (IH _ Hsum').
  destruct (merges f (dec_nth rem j)) as [|s0 rest] eqn:Em; [congruence|].
  assert (In (j :: s0) (flat_map (fun i => match nth i rem 0%nat with
                                           | O => []
                                           | S _ => map (cons i) (merges f (dec_nth rem i))
                                           end) (seq 0 (List.length rem)))).
  { apply in_flat_map. exists j. split; [exact Hin|]. rewrite Hn, Em. left. reflexivity. }
  rewrite Hnil in H0. destruct H0.
Qed.

(** ---- footprints of the API operations ----------------------------------------------------- *)

Lemma in_op_steps :
  forall v c s, In s (op_steps v c) ->
    s = s_pure \/ s = s_raise \/ exists d, In s (dec_steps v d).
Proof.
  intros v c s H. unfold op_steps in H. destruct H as [<-|H]; [left; reflexivity|].
  apply in_app_or in H. destruct H as [H|H].
  - apply in_flat_map in H. destruct H as [d [_ Hd]]. right; right. exists d. exact Hd.
  - destruct (raises c); [|destruct H]. destruct H as [<-|[]]. right; left. reflexivity.
Qed.

(** the declared write sets are sound: a cell outside [writes s] is left unchanged *)
Lemma footprint_writes_sound :
  forall v c s, In s (op_steps v c) -> forall g l,
    other (fst (run s g l)) = other g /\
    (~ In CellPrec (writes s) -> prec (fst (run s g l)) = prec g) /\
    (~ In CellFlags (writes s) -> inexact (fst (run s g l)) = inexact g /\ rounded (fst (run s g l)) = rounded g).
Proof.
  intros v c s H g l. destruct (in_op_steps v c s H) as [->|[->|[d Hd]]].
  - cbn. auto.
  - cbn. auto.
  - destruct v; cbn in Hd.
    + destruct Hd as [<-|[<-|[<-|[]]]]; cbn.
      * destruct (failed l); cbn; [auto|]. destruct (df_prec d <? 1); cbn; [auto|].
        split; [reflexivity|]. split; [|auto]. intros Hn. exfalso. apply Hn. left. reflexivity.
      * destruct (failed l); cbn; [auto|].
        split; [reflexivity|]. split; [reflexivity|]. intros Hn. exfalso. apply Hn. left. reflexivity.
      * destruct (failed l); cbn; [auto|]. destruct (cur l); cbn; [|auto].
        split; [reflexivity|]. split; [reflexivity|]. intros Hn. exfalso. apply Hn. left. reflexivity.
    + destruct Hd as [<-|[]]; cbn.
      destruct (failed l); cbn; [auto|]. destruct (df_prec d <? 1); cbn; auto.
Qed.

Lemma empty_writes_frame :
  forall v c s, In s (op_steps v c) -> writes s = [] -> forall g l, fst (run s g l) = g.
Proof.
  intros v c s H Hw g l. destruct (footprint_writes_sound v c s H g l) as [Ho [Hp Hf]].
  rewrite Hw in Hp, Hf. specialize (Hp (fun x => x)). destruct (Hf (fun x => x)) as [Hi Hr].
  destruct (fst (run s g l)) as [p i r o], g as [p' i' r' o']. cbn in *. congruence.
Qed.

(** the declared read sets are sound: a step that does not read [prec] computes the
    same local result whatever [prec] is *)
Lemma footprint_reads_sound :
  forall v c s, In s (op_steps v c) -> ~ In CellPrec (reads s) ->
    forall g l p, snd (run s (set_prec g p) l) = snd (run s g l).
Proof.
  intros v c s H Hr g l p. destruct (in_op_steps v c s H) as [->|[->|[d Hd]]]; try reflexivity.
  destruct v; cbn in Hd.
  - destruct Hd as [<-|[<-|[<-|[]]]]; cbn in *.
    + destruct (failed l); cbn; [reflexivity|]. destruct (df_prec d <? 1); reflexivity.
    + exfalso. apply Hr. left. reflexivity.
    + exfalso. apply Hr. left. reflexivity.
  - destruct Hd as [<-|[]]; cbn.
    destruct (failed l); cbn; [reflexivity|]. destruct (df_prec d <? 1); reflexivity.
Qed.

(** every operation other than a decimal read has an empty shared write set, in the current code *)
Lemma footprints_current :
  forall c, effects c = [] -> Forall (fun s => writes s = []) (op_steps Current c).
Proof.
  intros c H. unfold op_steps. rewrite H. cbn [flat_map app].
  constructor; [reflexivity|]. destruct (raises c); repeat constructor.
Qed.

Lemma footprint_decimal_read_current :
  forall d, footprint (op_steps Current (CRead [d])) =
            [([], [CellOther]); ([CellPrec], []); ([CellFlags], [CellPrec]); ([CellFlags], [CellPrec])].
Proof. reflexivity. Qed.

(** with the repaired read_decimal every operation has an empty shared write set and never reads [prec] *)
Lemma footprints_fixed :
  forall c, Forall (fun s => writes s = [] /\ ~ In CellPrec (reads s)) (op_steps Fixed c).
Proof.
  intros c. apply Forall_forall. intros s H.
  destruct (in_op_steps Fixed c s H) as [->|[->|[d Hd]]].
  - cbn. split; [reflexivity|]. intros [E|[]]; discriminate.
  - cbn. auto.
  - cbn in Hd. destruct Hd as [<-|[]]. cbn. auto.
Qed.

(** ---- the thread model of an operation refines [api_step] ---------------------------------- *)

Lemma advance_app :
  forall G L (a b : thread G L) g l,
    advance (List.length (a ++ b)) g l (a ++ b) =
    let '(g1, (l1, _)) := advance (List.length a) g l a in advance (List.length b) g1 l1 b.
Proof.
  intros G L a. induction a as [|s a IH]; intros b g l; cbn [app List.length advance].
  - reflexivity.
  - destruct (run s g l) as [g' l']. apply IH.
Qed.

Lemma advance_failed :
  forall v ds g l, failed l = true ->
    advance (List.length (flat_map (dec_steps v) ds)) g l (flat_map (dec_steps v) ds) = (g, (l, [])).
Proof.
  intros v ds. induction ds as [|d ds IH]; intros g l Hf; [reflexivity|].
  cbn [flat_map]. rewrite advance_app.
  assert (E : advance (List.length (dec_steps v d)) g l (dec_steps v d) = (g, (l, []))).
  { destruct v; cbn; rewrite ?Hf; cbn; rewrite ?Hf; cbn; rewrite ?Hf; reflexivity. }
  rewrite E. apply IH. exact Hf.
Qed.

Lemma advance_decs :
  forall v ds g acc,
    exists l', advance (List.length (flat_map (dec_steps v) ds)) g (mkL acc None false) (flat_map (dec_steps v) ds)
               = (fst (read_decs v g ds acc), (l', [])) /\
               result_of l' = snd (read_decs v g ds acc) /\ cur l' = None.
Proof.
  intros v ds. induction ds as [|d ds IH]; intros g acc.
  - exists (mkL acc None false). cbn. auto.
  - cbn [flat_map]. rewrite advance_app. cbn [read_decs].
    destruct (df_prec d <? 1) eqn:Ep.
    + exists (mkL acc None true).
      assert (E : advance (List.length (dec_steps v d)) g (mkL acc None false) (dec_steps v d)
                  = (g, (mkL acc None true, []))).
      { destruct v; cbn; rewrite Ep; reflexivity. }
      rewrite E. rewrite advance_failed by reflexivity. cbn. auto.
    + destruct v.
      * assert (E : advance (List.length (dec_steps Current d)) g (mkL acc None false) (dec_steps Current d)
                    = (add_flags (add_flags (set_prec g (df_prec d)) (create_flags (df_prec d) (df_unscaled d)))
                                 (scaleb_flags (df_prec d) (create_decimal (df_prec d) (df_unscaled d)) (df_scale d)),
                       (mkL (scaleb (df_prec d) (create_decimal (df_prec d) (df_unscaled d)) (df_scale d) :: acc) None false, []))).
        { cbn. rewrite Ep. reflexivity. }
        rewrite E. cbn [set_prec add_flags prec]. apply IH.
      * assert (E : advance (List.length (dec_steps Fixed d)) g (mkL acc None false) (dec_steps Fixed d)
                    = (g, (mkL (scaleb (df_prec d) (create_decimal (df_prec d) (df_unscaled d)) (df_scale d) :: acc) None false, []))).
        { cbn. rewrite Ep. reflexivity. }
        rewrite E. apply IH.
Qed.

(** an operation's steps, run alone, compute exactly [api_step] *)
Lemma op_refines :
  forall v g c, exists l',
    run_alone g l0 (op_steps v c) = (fst (api_step_v v g c), (l', [])) /\
    result_of l' = snd (api_step_v v g c).
Proof.
  intros v g c. unfold run_alone, op_steps. cbn [List.length advance run s_pure].
  rewrite advance_app.
  destruct (advance_decs v (effects c) g []) as [l1 [E [Hr Hc]]]. unfold l0. rewrite E.
  rewrite api_step_fst, api_step_snd.
  destruct (raises c).
  - exists (mkL (out l1) (cur l1) true). cbn. auto.
  - exists l1. cbn. auto.
Qed.

(** ---- C18 for the API operations -------------------------------------------------------------- *)

Lemma nth_error_start :
  forall (cs : list api_call) v i c, nth_error cs i = Some c ->
    nth_error (start l0 (map (op_steps v) cs)) i = Some (l0, op_steps v c).
Proof.
  intros cs v i c H. unfold start.
  apply (map_nth_error (fun st => (l0, st))). apply (map_nth_error (op_steps v)). exact H.
Qed.

Lemma map_snd_start : forall (ts : list (thread gstate local)), map snd (start l0 ts) = ts.
Proof. intros ts. unfold start. rewrite map_map. cbn. apply map_id. Qed.

Lemma ops_sequential :
  forall v (cs : list api_call) (g : gstate),
    (forall c s, In c cs -> In s (op_steps v c) -> writes s = []) ->
    forall sigma, In sigma (interleavings (map (op_steps v) cs)) ->
      fst (run_schedule sigma g (start l0 (map (op_steps v) cs))) = g /\
      forall i c, nth_error cs i = Some c ->
        exists l, nth_error (snd (run_schedule sigma g (start l0 (map (op_steps v) cs)))) i = Some (l, []) /\
                  result_of l = snd (api_step_v v g c).
Proof.
  intros v cs g HW sigma Hin.
  destruct (interleaving_sequential gstate local (start l0 (map (op_steps v) cs)) g) with (sigma := sigma) as [H1 H2].
  - intros t s Ht Hs. unfold start in Ht. rewrite map_map in Ht. apply in_map_iff in Ht.
    destruct Ht as [c [<- Hc]]. cbn in Hs. apply (empty_writes_frame v c s Hs). apply (HW c s Hc Hs).
  - rewrite map_snd_start. exact Hin.
  - split; [exact H1|]. intros i c Hc.
    rewrite (H2 i l0 (op_steps v c) (nth_error_start cs v i c Hc)).
    destruct (op_refines v g c) as [l' [E Hr]]. rewrite E. exists l'. cbn. auto.
Qed.

(** repaired code: any operations, any number of threads, any interleaving *)
Theorem ops_sequential_fixed :
  forall (cs : list api_call) (g : gstate) sigma,
    In sigma (interleavings (map (op_steps Fixed) cs)) ->
    fst (run_schedule sigma g (start l0 (map (op_steps Fixed) cs))) = g /\
    forall i c, nth_error cs i = Some c ->
      exists l, nth_error (snd (run_schedule sigma g (start l0 (map (op_steps Fixed) cs)))) i = Some (l, []) /\
                result_of l = snd (api_step_fixed g c).
Proof.
  intros cs g sigma Hin. apply ops_sequential; [|exact Hin].
  intros c s _ Hs. pose proof (footprints_fixed c) as HF. rewrite Forall_forall in HF. apply (HF s Hs).
Qed.

(** current code: the same, provided no operation decodes a decimal *)
Theorem ops_sequential_current :
  forall (cs : list api_call) (g : gstate) sigma,
    Forall (fun c => effects c = []) cs ->
    In sigma (interleavings (map (op_steps Current) cs)) ->
    fst (run_schedule sigma g (start l0 (map (op_steps Current) cs))) = g /\
    forall i c, nth_error cs i = Some c ->
      exists l, nth_error (snd (run_schedule sigma g (start l0 (map (op_steps Current) cs)))) i = Some (l, []) /\
                result_of l = snd (api_step_current g c).
Proof.
  intros cs g sigma HE Hin. apply ops_sequential; [|exact Hin].
  intros c s Hc Hs. rewrite Forall_forall in HE.
  pose proof (footprints_current c (HE c Hc)) as HF. rewrite Forall_forall in HF. apply (HF s Hs).
Qed.

(** ---- the race of the current read_decimal (F4) ------------------------------------------------ *)
Definition race_A : api_call := CRead [mkDF 5 0 12345].
Definition race_B : api_call := CRead [mkDF 2 0 12345].
(* A.tables; A.set(5); B.tables; B.set(2); A.create; A.scaleb; B.create; B.scaleb *)
Definition race_schedule : schedule := [0; 0; 1; 1; 0; 0; 1; 1]%nat.

Lemma in_by_computation :
  forall (s : schedule) (l : list schedule),
    (if in_dec (list_eq_dec Nat.eq_dec) s l then true else false) = true -> In s l.
Proof. intros s l H. destruct (in_dec (list_eq_dec Nat.eq_dec) s l); [assumption|discriminate]. Qed.

Lemma refuted_current :
  exists (cs : list api_call) (sigma : schedule) (i : nat) (c : api_call) (l : local),
    In sigma (interleavings (map (op_steps Current) cs)) /\
    nth_error cs i = Some c /\
    nth_error (snd (run_schedule sigma g0 (start l0 (map (op_steps Current) cs)))) i = Some (l, []) /\
    result_of l <> snd (api_step_current g0 c).
Proof.
  exists [race_A; race_B], race_schedule, 0%nat, race_A,
         (mkL [mkD false 12 3] None false).
  split; [apply in_by_computation; vm_compute; reflexivity|].
  split; [reflexivity|].
  split; [vm_compute; reflexivity|].
  vm_compute. intros H. discriminate H.
Qed.

(** the same schedule on the repaired operations gives the sequential results *)
Lemma race_schedule_fixed_ok :
  exists l, nth_error (snd (run_schedule [0; 1; 0; 1]%nat g0 (start l0 (map (op_steps Fixed) [race_A; race_B])))) 0
            = Some (l, []) /\ result_of l = snd (api_step_fixed g0 race_A).
Proof. eexists. split; vm_compute; reflexivity. Qed.
