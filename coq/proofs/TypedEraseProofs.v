(** Typing of values ([typedn] / [typed], model/Codec.v) depends on the table only through
    [lookup] and on the schema only through its erasure. *)
From Coq Require Import Lia ZifyBool String.
From FA Require Import model.Base model.Varint model.Value model.Schema model.Utf8 model.Codec
     model.Json model.Parse model.SchemaSpec model.Bridge
     proofs.VarintProofs proofs.CodecProofs proofs.BridgeProofs.
Open Scope Z_scope.

Lemma typedn_ext e e' : (forall n, lookup e n = lookup e' n) ->
  forall k s a, typedn k e s a -> typedn k e' s a.
Proof.
  intros X. induction k as [|k IH]; intros s a H; [destruct H|].
  destruct s.
  15:{ apply typedn_ref in H. apply typedn_ref. destruct H as (s0 & Hl & H). exists s0. split; [now rewrite <- X|apply IH; exact H]. }
  15:{ apply typedn_annot in H. apply typedn_annot. apply IH. exact H. }
  all: destruct a; cbn [typedn] in H |- *; try contradiction; try exact H.
  - destruct H as [Hl H]. split; [exact Hl|]. eapply Forall_impl; [|exact H]. intros; apply IH; assumption.
  - destruct H as [Hl H]. split; [exact Hl|]. eapply Forall_impl; [|exact H]. intros kv [Hk Hv]. split; [exact Hk|apply IH; exact Hv].
  - destruct H as (Hi & s0 & Hn & H). split; [exact Hi|]. exists s0. split; [exact Hn|apply IH; exact H].
  - eapply Forall2_impl'; [|exact H]. intros; apply IH; assumption.
Qed.

Lemma typed_ext e e' s a : (forall n, lookup e n = lookup e' n) -> typed e s a <-> typed e' s a.
Proof.
  intros X. split; intros [k H]; exists k; [apply (typedn_ext e e' X)|apply (typedn_ext e' e (fun n => eq_sym (X n)))]; exact H.
Qed.

(** forward: same height *)
Lemma typedn_erase_fwd : forall k e s a, typedn k e s a -> typedn k (erase_env e) (erase_schema s) a.
Proof.
  induction k as [|k IH]; intros e s a H; [destruct H|].
  destruct s; cbn [erase_schema].
  15:{ apply typedn_ref in H. apply typedn_ref. destruct H as (s0 & Hl & H). exists (erase_schema s0).
       split; [now rewrite lookup_erase, Hl|apply IH; exact H]. }
  15:{ apply typedn_annot in H. apply typedn_mono. apply IH. exact H. }
  all: destruct a; cbn [typedn] in H |- *; try contradiction; try exact H.
  - destruct H as [Hl H]. split; [exact Hl|]. eapply Forall_impl; [|exact H]. intros; apply IH; assumption.
  - destruct H as [Hl H]. split; [exact Hl|]. eapply Forall_impl; [|exact H]. intros kv [Hk Hv]. split; [exact Hk|apply IH; exact Hv].
  - destruct H as (Hi & s0 & Hn & H). split; [exact Hi|]. exists (erase_schema s0). split; [now rewrite nthZ_map, Hn|apply IH; exact H].
  - clear -H IH. induction H as [|f x fs l Hx Hr IHr]; cbn [map]; constructor; [apply IH; exact Hx|exact IHr].
Qed.

(** backward: some height (one more unit per annotation) *)
Lemma forall_typed_height e s (l : list aval) :
  Forall (typed e s) l -> exists N, Forall (typedn N e s) l.
Proof.
  induction 1 as [|x l [n Hx] Hl [N IH]]; [exists O; constructor|].
  exists (Nat.max n N). constructor.
  - eapply typedn_le; [apply Nat.le_max_l|exact Hx].
  - eapply Forall_impl; [|exact IH]. intros a Ha. eapply typedn_le; [apply Nat.le_max_r|exact Ha].
Qed.

Lemma typed_erase_bwd e : forall k s a, typedn k (erase_env e) (erase_schema s) a -> typed e s a.
Proof.
  induction k as [|k IH]; intros s a H; [destruct H|].
  induction s as [| | | | | | | |n al z|n al ss d|s IHs|s IHs|bs|n al fs|n|lt s IHs]; cbn [erase_schema] in H.
  15:{ apply typedn_ref in H. destruct H as (s0 & Hl & H). rewrite lookup_erase in Hl.
       destruct (lookup e n) as [d|] eqn:L; [|discriminate Hl]. injection Hl as <-.
       destruct (IH _ _ H) as [m Hm]. exists (S m). apply typedn_ref. exists d. now split. }
  15:{ destruct (IHs H) as [m Hm]. exists (S m). now apply typedn_annot. }
  all: destruct a; cbn [typedn] in H; try contradiction; try (exists (S k); exact H).
  - (* array *)
    destruct H as [Hl H]. assert (F : Forall (typed e s) l) by (eapply Forall_impl; [|exact H]; intros x Hx; exact (IH _ _ Hx)).
    destruct (forall_typed_height _ _ _ F) as [N HN]. exists (S N). split; assumption.
  - (* map *)
    destruct H as [Hl H].
    assert (F : Forall (typed e s) (map snd l)).
    { apply Forall_forall. intros x I. apply in_map_iff in I. destruct I as (kv & <- & I).
      rewrite Forall_forall in H. exact (IH _ _ (proj2 (H _ I))). }
    destruct (forall_typed_height _ _ _ F) as [N HN]. exists (S N). split; [exact Hl|].
    apply Forall_forall. intros kv I. rewrite Forall_forall in H, HN. split; [exact (proj1 (H _ I))|]. apply HN. now apply in_map.
  - (* union *)
    destruct H as (Hi & s0 & Hn & H). rewrite nthZ_map in Hn. match type of Hn with option_map _ (nthZ bs ?i) = _ => destruct (nthZ bs i) as [b|] eqn:B end; [|discriminate Hn].
    injection Hn as <-. destruct (IH _ _ H) as [m Hm]. exists (S m). split; [exact Hi|]. exists b. now split.
  - (* record *)
    assert (F : exists N, Forall2 (fun f x => typedn N e (ftype f) x) fs l).
    { clear -H IH. revert l H. induction fs as [|f fs IHf]; intros l H; inversion H as [|? x ? l' Hx Hr]; subst; [exists O; constructor|].
      cbn [ftype] in Hx. destruct (IH _ _ Hx) as [n Hn]. destruct (IHf _ Hr) as [N HN]. exists (Nat.max n N). constructor.
      - eapply typedn_le; [apply Nat.le_max_l|exact Hn].
      - eapply Forall2_impl'; [|exact HN]. intros f0 x0 Hx0. eapply typedn_le; [apply Nat.le_max_r|exact Hx0]. }
    destruct F as [N HN]. exists (S N). exact HN.
Qed.

Theorem typed_erase e s a : typed e s a <-> typed (erase_env e) (erase_schema s) a.
Proof.
  split; intros [k H]; [exists k; now apply typedn_erase_fwd|eapply typed_erase_bwd; eauto].
Qed.

(* what the typing of values depends on *)
Theorem typed_same_erasure e1 s1 e2 s2 a :
  erase_schema s1 = erase_schema s2 ->
  (forall n, lookup (erase_env e1) n = lookup (erase_env e2) n) ->
  typed e1 s1 a <-> typed e2 s2 a.
Proof.
  intros ES EE. rewrite (typed_erase e1), (typed_erase e2), ES. now apply typed_ext.
Qed.

(** the decoder, too, sees the table through [lookup] only *)
Theorem dec_ext e e' : (forall n, lookup e n = lookup e' n) -> forall f s, mono (dec f e s) (dec f e' s).
Proof.
  intros X. induction f as [|f IH]; intros s bs x H; [discriminate H|].
  destruct s; try exact H.
  - cbn [dec] in *. inv_bind H. injection H as <-.
    now rewrite (blocks_mono _ _ (IH s) (S f) (S f) ltac:(lia) _ _ E).
  - cbn [dec] in *. inv_bind H. injection H as <-.
    now rewrite (blocks_mono _ _ (map_item_mono _ _ (IH s)) (S f) (S f) ltac:(lia) _ _ E).
  - cbn [dec] in *. inv_bind H. cbn [bind].
    destruct (nthZ bs0 z) as [s0|]; [|discriminate H]. inv_bind H. injection H as <-.
    now rewrite (IH _ _ _ E0).
  - cbn [dec] in *. inv_bind H. injection H as <-.
    now rewrite (fields_mono (dec f e) (dec f e') IH fs _ _ E).
  - cbn [dec] in *. rewrite <- X. destruct (lookup e n) as [d|]; [|discriminate H]. now apply IH.
  - cbn [dec] in *. now apply IH.
Qed.

(* decoding of ANY bytes (not only canonical layouts) *)
Theorem dec_same_erasure_lookup a f e1 s1 e2 s2 :
  erase_schema s1 = erase_schema s2 ->
  (forall n, lookup (erase_env e1) n = lookup (erase_env e2) n) ->
  achk a s2 = true -> (forall n d, lookup e2 n = Some d -> achk a d = true) ->
  mono (dec f e1 s1) (dec (f * S a) e2 s2).
Proof.
  intros ES EE A1 A2 bs x H. apply dec_erase_bwd; [exact A1|exact A2|].
  rewrite <- ES. apply (dec_ext _ _ EE). now apply dec_erase_fwd.
Qed.
