(** C09 closure: a well-typed wire value read with return_named_type=True and written back under the same schema is
    elaborated to the SAME wire value (hence the identical bytes), under the boolean side condition [closb]
    (model/Conform.v). *)
From Coq Require Import String Lia ZifyBool.
From FA Require Import model.Base model.Varint model.Value model.Schema model.Utf8 model.Float model.Codec
                       model.Validate model.Write model.Read model.Conform proofs.VarintProofs proofs.CodecProofs proofs.ElabProofs
                       proofs.AcceptIff.

Definition evw o e s (pv : pyval) (a : aval) : Prop := exists f0, forall f, (f0 <= f)%nat -> elab f o e s pv = WOk a.

Lemma evw_leaf o e s pv a : (forall f, elab (S f) o e s pv = WOk a) -> evw o e s pv a.
Proof. intros H. exists 1%nat. intros [|f] Hf; [lia|apply H]. Qed.

(** *** inversion of the reader's loops *)
Section PyInv.
  Variables (ro : ropts) (e : env).

  Lemma py_items_inv it : forall l outs,
    (fix go (l : list aval) : option (list pyval) :=
       match l with
       | [] => Some []
       | x :: l => match py_of ro e it x, go l with Some v, Some r => Some (v :: r) | _, _ => None end
       end) l = Some outs -> Forall2 (fun a out => py_of ro e it a = Some out) l outs.
  Proof.
    induction l as [|a l IH]; intros outs H.
    - injection H as <-. constructor.
    - destruct (py_of ro e it a) as [v|] eqn:Ea; [|discriminate].
      match type of H with match ?g with _ => _ end = _ => destruct g as [r|] eqn:Eg; [|discriminate] end.
      injection H as <-. constructor; [exact Ea|apply IH; reflexivity].
  Qed.

  Lemma py_map_inv vs : forall (l : list (bytes * aval)), NoDup (map fst l) -> forall acc res,
    (forall k, In k (map fst l) -> dict_get acc k = None) ->
    (fix go (l : list (bytes * aval)) (acc : list (pyval * pyval)) : option (list (pyval * pyval)) :=
       match l with
       | [] => Some acc
       | (k, x) :: l => match py_of ro e vs x with Some v => go l (dict_set acc k v) | None => None end
       end) l acc = Some res ->
    exists outs, res = acc ++ outs /\ Forall2 (fun q kx => fst q = PStr (fst kx) /\ py_of ro e vs (snd kx) = Some (snd q)) outs l.
  Proof.
    induction l as [|[k a] l IH]; intros Hnd acc res Hfresh H.
    - injection H as <-. exists []. rewrite app_nil_r. split; [reflexivity|constructor].
    - cbn [fst snd map] in *. destruct (py_of ro e vs a) as [v|] eqn:Ea; [|discriminate].
      inversion Hnd as [|? ? Hnotin Hnd']; subst.
      rewrite dict_set_fresh in H by (apply Hfresh; left; reflexivity).
      destruct (IH Hnd' _ _ (fun k' Hk' => dict_get_snoc acc k v k' (Hfresh k' (or_intror Hk'))
                                             (beqb_neq _ _ (fun E => Hnotin (eq_ind_r (fun z => In z (map fst l)) Hk' E)))) H)
        as (outs & -> & Ho).
      exists ((PStr k, v) :: outs). split; [rewrite <- app_assoc; reflexivity|].
      constructor; [split; [reflexivity|exact Ea]|exact Ho].
  Qed.

  Lemma py_rec_inv : forall (fs : list field) (l : list aval), NoDup (map (fun fd => fname fd) fs) -> forall acc res,
    (forall k, In k (map (fun fd => fname fd) fs) -> dict_get acc k = None) ->
    (fix go (fs : list field) (l : list aval) (acc : list (pyval * pyval)) {struct l} : option (list (pyval * pyval)) :=
       match fs, l with
       | [], [] => Some acc
       | f :: fs, x :: l => match py_of ro e (ftype f) x with
                            | Some v => go fs l (dict_set acc (fname f) v)
                            | None => None end
       | _, _ => None
       end) fs l acc = Some res ->
    exists outs, res = acc ++ outs /\ length fs = length l /\
      Forall2 (fun q fa => fst q = PStr (fname (fst fa)) /\ py_of ro e (ftype (fst fa)) (snd fa) = Some (snd q)) outs (combine fs l).
  Proof.
    induction fs as [|fd fs IH]; intros l Hnd acc res Hfresh H.
    - destruct l; [|discriminate]. injection H as <-. exists []. rewrite app_nil_r. repeat split. constructor.
    - destruct l as [|a l]; [discriminate|]. cbn [map] in *.
      destruct (py_of ro e (ftype fd) a) as [v|] eqn:Ea; [|discriminate].
      inversion Hnd as [|? ? Hnotin Hnd']; subst.
      rewrite dict_set_fresh in H by (apply Hfresh; left; reflexivity).
      destruct (IH l Hnd' _ _ (fun k' Hk' => dict_get_snoc acc (fname fd) v k' (Hfresh k' (or_intror Hk'))
                 (beqb_neq _ _ (fun E => Hnotin (eq_ind_r (fun z => In z (map (fun fd => fname fd) fs)) Hk' E)))) H)
        as (outs & -> & Hlen & Ho).
      exists ((PStr (fname fd), v) :: outs). split; [rewrite <- app_assoc; reflexivity|]. split; [cbn [length]; lia|].
      cbn [combine]. constructor; [split; [reflexivity|exact Ea]|exact Ho].
  Qed.
End PyInv.

(** *** the writer's loops on the value read back *)
Lemma elab_items_to o e it : forall outs l, Forall2 (fun out a => evw o e it out a) outs l ->
  exists f0, forall f, (f0 <= f)%nat -> elab_items (elab f o e) it outs = WOk l.
Proof.
  induction 1 as [|out a outs l [fx Hx] _ [fl Hl]].
  - exists O. intros; reflexivity.
  - exists (Nat.max fx fl). intros f Hf. cbn [elab_items]. rewrite (Hx f ltac:(lia)). cbn [wbind]. rewrite (Hl f ltac:(lia)). reflexivity.
Qed.

Lemma elab_map_to o e vs : forall (res : list (pyval * pyval)) (l : list (bytes * aval)),
  Forall2 (fun q kx => fst q = PStr (fst kx) /\ evw o e vs (snd q) (snd kx)) res l ->
  exists f0, forall f, (f0 <= f)%nat -> elab_map (elab f o e) vs res = WOk l.
Proof.
  induction 1 as [|[k out] [kb a] res l [Hk [fx Hx]] _ [fl Hl]].
  - exists O. intros; reflexivity.
  - cbn [fst snd] in *. subst k. exists (Nat.max fx fl). intros f Hf. cbn [elab_map].
    rewrite (Hx f ltac:(lia)). cbn [wbind]. rewrite (Hl f ltac:(lia)). reflexivity.
Qed.

Lemma elab_fields_to o e (D : list (pyval * pyval)) : forall fs l,
  Forall2 (fun fd a => exists out, dict_get D (fname fd) = Some out /\ fconv (ftype fd) out = WOk out /\ evw o e (ftype fd) out a) fs l ->
  exists f0, forall f, (f0 <= f)%nat -> elab_fields (elab f o e) o D fs = WOk l.
Proof.
  induction 1 as [|fd a fs l (out & Hg & Hc & [fx Hx]) _ [fl Hl]].
  - exists O. intros; reflexivity.
  - exists (Nat.max fx fl). intros f Hf. cbn [elab_fields]. unfold key_in. rewrite Hg. cbn [negb andb].
    fold (fconv (ftype fd) out). rewrite Hc. cbn [wbind]. rewrite (Hx f ltac:(lia)). cbn [wbind]. rewrite (Hl f ltac:(lia)). reflexivity.
Qed.

(* the dict the reader builds for a record: looking a field up gives its value; there are no other keys *)
Lemma dict_get_head k x D : dict_get ((PStr k, x) :: D) k = Some x.
Proof. cbn [dict_get]. rewrite beqb_refl. reflexivity. Qed.

Lemma dict_get_skip k k' x D : k <> k' -> dict_get ((PStr k, x) :: D) k' = dict_get D k'.
Proof. intros H. cbn [dict_get]. rewrite (beqb_neq _ _ H). reflexivity. Qed.

Lemma record_dict_get (R : pyval -> field * aval -> Prop) : forall fs l D pre,
  NoDup (map (fun fd => fname fd) fs) ->
  Forall2 (fun q fa => fst q = PStr (fname (fst fa)) /\ R (snd q) fa) D (combine fs l) -> length fs = length l ->
  (forall k, In k (map (fun fd => fname fd) fs) -> dict_get pre k = None) ->
  Forall2 (fun fd a => exists out, dict_get (pre ++ D) (fname fd) = Some out /\ R out (fd, a)) fs l.
Proof.
  induction fs as [|fd fs IH]; intros l D pre Hnd H Hlen Hpre.
  - destruct l; [constructor|discriminate].
  - destruct l as [|a l]; [discriminate|]. cbn [combine] in H. inversion H as [|[k out] ? D' ? [Hk HR] Hrest]; subst.
    cbn [fst snd map] in *. subst k. inversion Hnd as [|? ? Hnotin Hnd']; subst. constructor.
    + exists out. split; [|exact HR]. clear - Hpre.
      induction pre as [|[k0 x0] pre IHp]; cbn [app]; [apply dict_get_head|].
      assert (H0 := Hpre (fname fd) (or_introl eq_refl)). cbn [dict_get] in H0 |- *.
      destruct k0; try (apply IHp; intros k [<-|Hk]; [exact H0|specialize (Hpre k (or_intror Hk)); cbn [dict_get] in Hpre; exact Hpre]).
      destruct (bytes_eqb s (fname fd)) eqn:E; [discriminate|]. apply IHp. intros k [<-|Hk]; [exact H0|].
      specialize (Hpre k (or_intror Hk)). cbn [dict_get] in Hpre. destruct (bytes_eqb s k); [discriminate|exact Hpre].
    + replace (pre ++ (PStr (fname fd), out) :: D') with ((pre ++ [(PStr (fname fd), out)]) ++ D') by (rewrite <- app_assoc; reflexivity).
      apply IH; [exact Hnd'|exact Hrest|cbn [length] in Hlen; lia|].
      intros k Hk. apply dict_get_snoc; [apply Hpre; right; exact Hk|].
      apply beqb_neq. intros E. apply Hnotin. rewrite E. exact Hk.
Qed.

Lemma record_no_extras (R : pyval -> field * aval -> Prop) : forall fs0 fs l D,
  Forall2 (fun q fa => fst q = PStr (fname (fst fa)) /\ R (snd q) fa) D (combine fs l) ->
  (forall fd, In fd fs -> In fd fs0) -> has_extras D fs0 = false.
Proof.
  intros fs0. unfold has_extras. induction fs as [|fd fs IH]; intros l D H Hsub.
  - cbn [combine] in H. inversion H; subst. reflexivity.
  - destruct l as [|a l]; [cbn [combine] in H; inversion H; subst; reflexivity|].
    cbn [combine] in H. inversion H as [|[k out] ? D' ? [Hk _] Hrest]; subst. cbn [fst] in Hk. subst k. cbn [existsb fst].
    rewrite (IH l D' Hrest (fun fd0 H0 => Hsub fd0 (or_intror H0))), orb_false_r.
    assert (Hin : existsb (bytes_eqb (fname fd)) (field_names fs0) = true).
    { apply existsb_beqb. unfold field_names. apply in_map_iff. exists fd. split; [reflexivity|apply Hsub; left; reflexivity]. }
    rewrite Hin. reflexivity.
Qed.

(** *** the closure theorem *)
Lemma Forall2_flip_and {A B} (R : A -> B -> Prop) (P : A -> Prop) l r :
  Forall2 R l r -> Forall P l -> Forall2 (fun y x => R x y /\ P x) r l.
Proof. induction 1; intros HP; [constructor|]. inversion HP; subst. constructor; [split; assumption|auto]. Qed.

Lemma Forall2_and_r {A B} (R : A -> B -> Prop) (P : B -> Prop) l r :
  Forall2 R l r -> Forall P r -> Forall2 (fun x y => R x y /\ P y) l r.
Proof. induction 1; intros HP; [constructor|]. inversion HP; subst. constructor; [split; assumption|auto]. Qed.

Lemma forall2b_Forall2 {A B} (p : A -> B -> bool) : forall l r, forall2b p l r = true -> Forall2 (fun x y => p x y = true) l r.
Proof.
  induction l as [|x l IH]; intros [|y r] H; cbn [forall2b] in H; try discriminate; [constructor|].
  apply andb_prop in H. destruct H. constructor; auto.
Qed.

Lemma Forall2_conj {A B} (R S : A -> B -> Prop) l r : Forall2 R l r -> Forall2 S l r -> Forall2 (fun x y => R x y /\ S x y) l r.
Proof. induction 1; intros HS; inversion HS; subst; constructor; auto. Qed.

Lemma py_float_shape ro e t a out : match t with SFloat | SDouble => True | _ => False end ->
  py_of ro e t a = Some out -> exists b, out = PFloat b.
Proof.
  intros Ht H. destruct t; try contradiction; destruct a; cbn [py_of resolve strip] in H; try discriminate; injection H as <-; eauto.
Qed.

Lemma wrap_named_some e bs b pv0 nm r : branch_kind e b = Some (nm, r) -> wrap_union ro_named e bs b pv0 = PTuple [PStr nm; pv0].
Proof. intros H. unfold wrap_union, ro_named. cbn [ret_named_override ret_named andb]. rewrite H. reflexivity. Qed.
Lemma wrap_named_none e bs b pv0 : branch_kind e b = None -> wrap_union ro_named e bs b pv0 = pv0.
Proof. intros H. unfold wrap_union, ro_named. cbn [ret_named_override ret_named ret_rec_override ret_rec andb]. rewrite H. reflexivity. Qed.

Theorem closure : forall n o e s a pv,
  typedn n e s a -> closb n o e s a = true -> floats_stable a = true -> py_of ro_named e s a = Some pv -> evw o e s pv a.
Proof.
  induction n as [|n IH]; intros o e s a pv Ht Hc Hfs Hp; [destruct Ht|].
  destruct s.
  15:{ apply typedn_ref in Ht. destruct Ht as (s' & Hl & Ht).
       assert (Hc' : closb n o e s' a = true) by (destruct a; cbn [closb] in Hc; rewrite Hl in Hc; exact Hc).
       destruct (IH o e s' a pv Ht Hc' Hfs (py_of_ref _ _ _ _ _ _ Hl Hp)) as [f0 Hf0].
       exists (S f0). intros [|f] Hf; [lia|]. cbn [elab]. rewrite Hl. apply Hf0. lia. }
  15:{ apply typedn_annot in Ht. assert (Hc' : closb n o e s a = true) by (destruct a; exact Hc).
       rewrite py_of_annot in Hp. destruct (IH o e s a pv Ht Hc' Hfs Hp) as [f0 Hf0].
       exists (S f0). intros [|f] Hf; [lia|]. cbn [elab]. apply Hf0. lia. }
  all: destruct a; cbn [typedn] in Ht; try contradiction; cbn [py_of resolve strip] in Hp.
  - injection Hp as <-. apply evw_leaf. reflexivity.
  - injection Hp as <-. apply evw_leaf. reflexivity.
  - injection Hp as <-. apply evw_leaf. intros f. cbn [elab].
    assert (E : (INT_MIN <=? z) && (z <=? INT_MAX) = true) by (unfold in_int32, INT_MIN, INT_MAX in *; lia). rewrite E. reflexivity.
  - injection Hp as <-. apply evw_leaf. intros f. cbn [elab].
    assert (E : (LONG_MIN <=? z) && (z <=? LONG_MAX) = true) by (unfold in_int64, LONG_MIN, LONG_MAX in *; lia). rewrite E. reflexivity.
  - injection Hp as <-. cbn [floats_stable] in Hfs. destruct (d2s (s2d bits)) as [y| |] eqn:Ed; try discriminate.
    apply Z.eqb_eq in Hfs. subst y. apply evw_leaf. intros f. cbn [elab to_double wbind]. rewrite Ed. reflexivity.
  - injection Hp as <-. apply evw_leaf. reflexivity.
  - injection Hp as <-. apply evw_leaf. reflexivity.
  - injection Hp as <-. apply evw_leaf. reflexivity.
  - injection Hp as <-. destruct Ht as [Hl _]. apply evw_leaf. intros f. cbn [elab]. rewrite <- Hl, Z.eqb_refl. reflexivity.
  - cbn [closb] in Hc. destruct (nthZ syms i) as [x|] eqn:En; [|discriminate]. injection Hp as <-.
    destruct (index_of syms x 0) as [j|] eqn:Ei; cbn [optZ_eqb] in Hc; [|discriminate]. apply Z.eqb_eq in Hc. subst j.
    apply evw_leaf. intros f. cbn [elab]. rewrite Ei. reflexivity.
  - (* array *)
    destruct Ht as [_ Hl]. cbn [closb] in Hc. apply forallb_Forall in Hc.
    match type of Hp with option_map _ ?g = _ => destruct g as [outs|] eqn:Eg; [|discriminate] end.
    cbn [option_map] in Hp. injection Hp as <-. apply py_items_inv in Eg.
    cbn [floats_stable] in Hfs. apply forallb_Forall in Hfs.
    assert (Hall : Forall (fun a0 => typedn n e s a0 /\ closb n o e s a0 = true /\ floats_stable a0 = true) l).
    { rewrite Forall_forall in *. intros a0 Ha. split; [apply Hl|split; [apply Hc|apply Hfs]]; exact Ha. }
    pose proof (Forall2_flip_and _ _ _ _ Eg Hall) as H2.
    destruct (elab_items_to o e s outs l) as [f0 Hf0].
    { eapply Forall2_impl2; [|exact H2]. intros out a0 [Hpy (Ht0 & Hc0 & Hs0)]. eapply IH; eassumption. }
    exists (S f0). intros [|f] Hf; [lia|]. cbn [elab]. rewrite (Hf0 f ltac:(lia)). reflexivity.
  - (* map *)
    destruct Ht as [_ Hl]. cbn [closb] in Hc. apply andb_prop in Hc. destruct Hc as [Hnd Hc]. apply forallb_Forall in Hc.
    match type of Hp with option_map _ ?g = _ => destruct g as [res|] eqn:Eg; [|discriminate] end.
    cbn [option_map] in Hp. injection Hp as <-.
    destruct (py_map_inv ro_named e s l (nodup_str_NoDup _ Hnd) [] res (fun _ _ => eq_refl) Eg) as (outs & -> & Ho).
    cbn [floats_stable] in Hfs. apply forallb_Forall in Hfs.
    assert (Hall : Forall (fun kx : bytes * aval => typedn n e s (snd kx) /\ closb n o e s (snd kx) = true /\ floats_stable (snd kx) = true) l).
    { rewrite Forall_forall in *. intros kx Hk. split; [apply (Hl kx Hk)|split; [apply Hc; exact Hk|apply Hfs; exact Hk]]. }
    pose proof (Forall2_and_r _ _ _ _ Ho Hall) as H2.
    destruct (elab_map_to o e s outs l) as [f0 Hf0].
    { eapply Forall2_impl2; [|exact H2]. intros q kx [[Hk Hpy] (Ht0 & Hc0 & Hs0)]. split; [exact Hk|]. eapply IH; eassumption. }
    exists (S f0). intros [|f] Hf; [lia|]. cbn [elab app]. rewrite (Hf0 f ltac:(lia)). reflexivity.
  - (* union *)
    destruct Ht as (_ & s0 & Hn & Ht). cbn [closb] in Hc. rewrite Hn in Hc, Hp. apply andb_prop in Hc. destruct Hc as [Hcb Hc].
    destruct (py_of ro_named e s0 a) as [pv0|] eqn:Ep0; [|discriminate]. injection Hp as <-.
    cbn [floats_stable] in Hfs. destruct (IH o e s0 a pv0 Ht Hcb Hfs Ep0) as [fb Hfb]. pose proof (nthZ_range _ _ _ Hn) as Hi.
    destruct (branch_kind e s0) as [[nm r]|] eqn:Ek.
    + apply andb_prop in Hc. destruct Hc as [Hc Hfn]. apply andb_prop in Hc. destruct Hc as [Hnb Hdt].
      unfold named_b in Hnb. rewrite Ek in Hnb. apply beqb_eq in Hnb. subst nm.
      rewrite (wrap_named_some _ _ _ _ _ _ Ek).
      destruct (find_named (branch_name s0) bs 0) as [j|] eqn:Ef; cbn [optZ_eqb] in Hfn; [|discriminate]. apply Z.eqb_eq in Hfn. subst j.
      destruct (disable_tuple o) eqn:Ed; [discriminate|].
      exists (S fb). intros [|f] Hf; [lia|]. rewrite elab_union_eq, Ed, Ef. unfold union_go. rewrite Hn, (Hfb f ltac:(lia)). reflexivity.
    + rewrite (wrap_named_none _ _ _ _ Ek). apply andb_prop in Hc. destruct Hc as [Hnt Hch].
      destruct (choose (fun c y => validate n o e c (Some y)) e pv0 bs 0 (-1) (-1) false) as [j| |] eqn:Ech; cbn [resZ_eqb] in Hch; try discriminate.
      apply Z.eqb_eq in Hch. subst j.
      exists (S (Nat.max n fb)). intros [|f] Hf; [lia|].
      assert (Hs : union_search f o e bs pv0 = WOk (AUnion i a)).
      { unfold union_search.
        rewrite (choose_okmono (fun c y => validate n o e c (Some y)) (fun c y => validate f o e c (Some y)) e pv0
                   (fun c0 b0 H0 => validate_fuel_mono n f o e ltac:(lia) c0 (Some pv0) b0 H0) bs 0 (-1) (-1) false i Ech).
        cbn [of_res wbind]. destruct (i <? 0) eqn:Ei; [lia|]. unfold union_go. rewrite Hn, (Hfb f ltac:(lia)). reflexivity. }
      rewrite elab_union_eq. destruct pv0; try exact Hs. discriminate Hnt.
  - (* record *)
    cbn [closb] in Hc. apply andb_prop in Hc. destruct Hc as [Hnd Hc]. apply forall2b_Forall2 in Hc.
    match type of Hp with option_map _ ?g = _ => destruct g as [res|] eqn:Eg; [|discriminate] end.
    cbn [option_map] in Hp. injection Hp as <-.
    assert (HND : NoDup (map (fun fd => fname fd) fs)) by (apply nodup_str_NoDup; exact Hnd).
    destruct (py_rec_inv ro_named e fs l HND [] res (fun _ _ => eq_refl) Eg) as (outs & -> & Hlen & Ho). cbn [app].
    pose proof (record_dict_get (fun out fa => py_of ro_named e (ftype (fst fa)) (snd fa) = Some out) fs l outs [] HND Ho Hlen (fun _ _ => eq_refl)) as Hg.
    cbn [app fst snd] in Hg.
    destruct (elab_fields_to o e outs fs l) as [f0 Hf0].
    cbn [floats_stable] in Hfs. apply forallb_Forall in Hfs.
    { eapply Forall2_impl2; [|exact (Forall2_and_r _ _ _ _ (Forall2_conj _ _ _ _ Hg (Forall2_conj _ _ _ _ Ht Hc)) Hfs)].
      intros fd a0 [[(out & Hd & Hpy) [Ht0 Hc0]] Hs0]. exists out. split; [exact Hd|]. split; [|eapply IH; eassumption].
      unfold fconv. destruct (ftype fd) eqn:Et; try reflexivity.
      - destruct (py_float_shape ro_named e SFloat a0 out I Hpy) as [b ->]; reflexivity.
      - destruct (py_float_shape ro_named e SDouble a0 out I Hpy) as [b ->]; reflexivity. }
    exists (S f0). intros [|f] Hf; [lia|]. cbn [elab].
    rewrite (record_no_extras (fun out fa => py_of ro_named e (ftype (fst fa)) (snd fa) = Some out) fs fs l outs Ho (fun _ H => H)), andb_false_r, (Hf0 f ltac:(lia)). reflexivity.
Qed.

(* at byte level *)
Corollary closure_bytes n o e s a pv :
  typedn n e s a -> closb n o e s a = true -> floats_stable a = true -> py_of ro_named e s a = Some pv ->
  exists f0, forall f, (f0 <= f)%nat -> write f o e s pv = WOk (wire a).
Proof.
  intros Ht Hc Hfs Hp. destruct (closure n o e s a pv Ht Hc Hfs Hp) as [f0 H0]. exists f0. intros f Hf. unfold write. rewrite (H0 f Hf). reflexivity.
Qed.

(* the side condition is monotone in nothing but is decided by computation; a failing instance (outside the statement) *)
