(** The parser's UnknownType failures: the name reported is the first reference, in document
    order, that is neither a primitive nor a key of the dictionary at that point; everything
    before it was accepted; the dictionary carried by the failure is the one at that point. *)
From Coq Require Import String Ascii Lia.
From FA Require Import model.Base model.Json model.Parse model.SchemaSpec model.Inline model.Canon model.Repo
     proofs.JsonProofs proofs.ParseProofs.
Open Scope string_scope.

(** ---- the helpers never raise UnknownType ---- *)
Definition nounk {A} (r : pres A) : Prop := forall q t, r <> PErrUnknown q t.

Ltac kill H :=
  repeat match type of H with
         | context [match ?x with _ => _ end] => destruct x; try discriminate H
         | context [if ?x then _ else _] => destruct x; try discriminate H
         end; try discriminate H.

Lemma nounk_bind {A B} (r : pres A) (k : A -> pres B) : nounk r -> (forall x, nounk (k x)) -> nounk (pbind r k).
Proof. intros R K q t H. destruct r as [x| | | |]; cbn [pbind] in H; try discriminate H; [exact (K x q t H)|exact (R _ _ eq_refl)]. Qed.

Lemma nounk_maybe_float d : nounk (maybe_float_is_float d).
Proof. intros q t H. unfold maybe_float_is_float in H. kill H. Qed.

Lemma nounk_prim d s : nounk (default_matches_prim d s).
Proof.
  intros q t H. unfold default_matches_prim in H. destruct s; try discriminate H.
  repeat match type of H with (if ?x then _ else _) = _ => destruct x; try discriminate H end;
    exact (nounk_maybe_float _ _ _ H).
Qed.

Lemma nounk_leaf d s : nounk (default_matches_leaf d s).
Proof.
  intros q t H. unfold default_matches_leaf in H.
  destruct s as [| | | | | |kv]; try exact (nounk_prim _ _ _ _ H).
  destruct (jget "type" kv) as [ty|]; [|discriminate H].
  destruct ty; try exact (nounk_prim _ _ _ _ H).
  repeat match type of H with (if ?x then _ else _) = _ => destruct x; try discriminate H end.
  exact (nounk_prim _ _ _ _ H).
Qed.

Lemma nounk_default_matches tbl d s : nounk (default_matches tbl d s).
Proof.
  induction s as [| | | |x|l IH|kv IH] using json_ind'; try (exact (nounk_leaf d _)).
  - intros q t H. cbn [default_matches] in H.
    destruct (negb (is_prim x) && match tbl with [] => false | _ => true end); [|exact (nounk_leaf _ _ _ _ H)].
    destruct (jget x tbl) as [[| | | | | |]|]; try discriminate H; exact (nounk_leaf _ _ _ _ H).
  - cbn [default_matches]. induction IH as [|y r Hy Hr IHr]; [intros q t H; discriminate H|].
    apply nounk_bind; [exact Hy|]. intros [|]; [intros q t H; discriminate H|exact IHr].
Qed.

Lemma nounk_any_match tbl d ps : nounk (any_match tbl d ps).
Proof.
  induction ps as [|s r IH]; cbn [any_match]; [intros q t H; discriminate H|].
  apply nounk_bind; [apply nounk_default_matches|]. intros [|]; [intros q t H; discriminate H|exact IH].
Qed.

Lemma nounk_check_default d test : nounk (check_default d test).
Proof. intros q t H. unfold check_default in H. kill H. Qed.

Lemma nounk_schema_name kv ns : nounk (schema_name kv ns).
Proof. intros q t H. unfold schema_name in H. kill H. Qed.

Lemma nounk_declare full st : nounk (declare full st).
Proof. intros q t H. unfold declare in H. kill H. Qed.

Lemma nounk_validate_enum kv : nounk (validate_enum_symbols kv).
Proof. intros q t H. unfold validate_enum_symbols in H. kill H. Qed.

Lemma nounk_decimal parsed kv ty : nounk (decimal_checks parsed kv ty).
Proof.
  unfold decimal_checks. destruct (jget "logicalType" parsed) as [[| | | |lt| |]|]; try (intros q t H; discriminate H).
  destruct (negb (String.eqb lt "decimal")); [intros q t H; discriminate H|].
  apply nounk_bind; [intros q t H; kill H|]. intros _.
  apply nounk_bind; [intros q t H; kill H|]. intros _.
  intros q t H. kill H.
Qed.

(** ---- the first unknown reference ---- *)
(* the dict-form failure of _parse_schema itself: "type" is a string that names nothing, or a
   number / boolean / null *)
Definition dict_unknown (kv : list (string * json)) : bool :=
  match jget "type" kv with
  | Some (JStr t) =>
      negb (String.eqb t "array" || String.eqb t "map" || String.eqb t "enum" || String.eqb t "fixed" ||
            String.eqb t "record" || String.eqb t "error" || is_prim t)
  | Some (JArr _) | Some (JObj _) | None => false
  | Some _ => true
  end.

Inductive first_unknown : nat -> json -> string -> pstate -> string -> named -> Prop :=
| FURef f s ns st :
    is_prim s = false -> jhas (qualify ns s) (st_tbl st) = false ->
    first_unknown (S f) (JStr s) ns st (qualify ns s) (st_tbl st)
| FUDict f kv ns st :
    dict_unknown kv = true -> first_unknown (S f) (JObj kv) ns st "<dict>" (st_tbl st)
| FUMember f pre x post ns st ps st1 q junk :
    members_ok (parse_rec f) ns pre st ps st1 -> first_unknown f x ns st1 q junk ->
    first_unknown (S f) (JArr (pre ++ x :: post)) ns st q junk
| FUItems f kv it ns st q junk :
    jget "type" kv = Some (JStr "array") -> jget "items" kv = Some it -> first_unknown f it ns st q junk ->
    first_unknown (S f) (JObj kv) ns st q junk
| FUValues f kv it ns st q junk :
    jget "type" kv = Some (JStr "map") -> jget "values" kv = Some it -> first_unknown f it ns st q junk ->
    first_unknown (S f) (JObj kv) ns st q junk
| FUField f kv t ns st ns' full pre fkv post fs st3 ty q junk :
    jget "type" kv = Some (JStr t) -> (t = "record" \/ t = "error") ->
    schema_name kv ns = POk (ns', full) -> mem full (st_names st) = false ->
    jget "fields" kv = Some (JArr (pre ++ JObj fkv :: post)) ->
    fields_ok (parse_rec f) ns' pre (set_tbl full (JObj (rbase kv t full ns)) (declared full st)) fs st3 ->
    jget "type" fkv = Some ty -> first_unknown f ty ns' st3 q junk ->
    first_unknown (S f) (JObj kv) ns st q junk.

Ltac uinv H :=
  match type of H with
  | pbind ?e _ = PErrUnknown _ _ =>
      let E := fresh "E" in destruct e eqn:E; cbn [pbind] in H; try discriminate H
  end.

Section Step.
  Variable f : nat.
  Hypothesis IH : forall j ns wh st d q junk, parse_rec f j ns wh st d = PErrUnknown q junk -> first_unknown f j ns st q junk.

  Lemma members_unknown ns l : forall st q junk,
    parse_members (parse_rec f) ns l st = PErrUnknown q junk ->
    exists pre x post ps st1, l = (pre ++ x :: post)%list /\ members_ok (parse_rec f) ns pre st ps st1 /\ first_unknown f x ns st1 q junk.
  Proof.
    induction l as [|s r IHl]; intros st q junk H; cbn [parse_members] in H; [discriminate H|].
    destruct (parse_rec f s ns false st None) as [[p st1]| |a b| |] eqn:E; cbn [pbind] in H; try discriminate H.
    - destruct (parse_members (parse_rec f) ns r st1) as [[ps st2]| |a b| |] eqn:E2; cbn [pbind] in H; try discriminate H.
      injection H as -> ->. destruct (IHl _ _ _ E2) as (pre & x & post & ps & st' & -> & M & F).
      exists (s :: pre), x, post, (p :: ps), st'. split; [reflexivity|]. split; [econstructor; eauto|exact F].
    - injection H as -> ->. exists [], s, r, [], st. split; [reflexivity|]. split; [constructor|eauto].
  Qed.

  Lemma fields_unknown ns l : forall st q junk,
    parse_fields (parse_rec f) ns l st = PErrUnknown q junk ->
    exists pre fkv post fs st3 ty, l = (pre ++ JObj fkv :: post)%list /\ fields_ok (parse_rec f) ns pre st fs st3 /\
      jget "type" fkv = Some ty /\ first_unknown f ty ns st3 q junk.
  Proof.
    induction l as [|s r IHl]; intros st q junk H; cbn [parse_fields] in H; [discriminate H|].
    destruct (parse_field (parse_rec f) ns s st) as [[p st1]| |a b| |] eqn:E; cbn [pbind] in H; try discriminate H.
    - destruct (parse_fields (parse_rec f) ns r st1) as [[ps st2]| |a b| |] eqn:E2; cbn [pbind] in H; try discriminate H.
      injection H as -> ->. destruct (IHl _ _ _ E2) as (pre & fkv & post & fs & st' & ty & -> & M & T & F).
      exists (s :: pre), fkv, post, (p :: fs), st', ty. split; [reflexivity|]. split; [|split; assumption].
      econstructor; [apply parse_field_inv; exact E|exact M].
    - injection H as -> ->. unfold parse_field in E. destruct s as [| | | | | |fkv]; try discriminate E.
      match type of E with pbind ?e _ = _ => destruct e eqn:EA; cbn [pbind] in E; try discriminate E end.
      2:{ exfalso. clear E. kill EA. }
      destruct (jget "name" fkv) as [nm|]; [|discriminate E]. destruct (jget "type" fkv) as [ty|] eqn:T; [|discriminate E].
      destruct (parse_rec f ty ns false st (jget "default" fkv)) as [[p st1]| |a' b'| |] eqn:R; cbn [pbind] in E; try discriminate E.
      injection E as -> ->. exists [], fkv, r, [], st, ty. split; [reflexivity|]. split; [constructor|]. split; [exact T|eauto].
  Qed.

  Lemma node_unknown j ns wh st d q junk :
    parse_node (parse_rec f) j ns wh st d = PErrUnknown q junk -> first_unknown (S f) j ns st q junk.
  Proof.
    intros H. destruct j as [| | | |s|l|kv]; cbn [parse_node] in H; try discriminate H.
    - (* name *)
      destruct (is_prim s) eqn:P.
      + exfalso. destruct d as [dv|]; cbn [pbind] in H; [|discriminate H].
        destruct (default_matches_prim dv (JStr s)) as [b| |a c| |] eqn:E; cbn [pbind] in H; try discriminate H.
        * destruct b; discriminate H.
        * exact (nounk_prim _ _ _ _ E).
      + destruct (jhas (qualify ns s) (st_tbl st)) eqn:J.
        * exfalso. destruct d as [dv|]; cbn [pbind] in H; [|discriminate H].
          destruct (default_matches (st_tbl st) dv (JStr (qualify ns s))) as [b| |a c| |] eqn:E; cbn [pbind] in H; try discriminate H.
          -- destruct b; discriminate H.
          -- exact (nounk_default_matches _ _ _ _ _ E).
        * injection H as <- <-. now constructor.
    - (* union *)
      destruct (parse_members (parse_rec f) ns l st) as [[ps st1]| |a c| |] eqn:E; cbn [pbind] in H; try discriminate H.
      + exfalso. destruct d as [dv|]; cbn [pbind] in H; [|discriminate H].
        destruct (any_match (st_tbl st1) dv ps) as [b| |a c| |] eqn:E2; cbn [pbind] in H; try discriminate H.
        * destruct b; discriminate H.
        * exact (nounk_any_match _ _ _ _ _ E2).
      + injection H as -> ->. destruct (members_unknown _ _ _ _ _ E) as (pre & x & post & ps & st1 & -> & M & F).
        econstructor; eauto.
    - (* dict *)
      unfold parse_dict in H. destruct (jget "type" kv) as [ty|] eqn:T; [|discriminate H].
      destruct (decimal_checks _ kv ty) as [u| |a c| |] eqn:DC; cbn [pbind] in H; try discriminate H;
        [|exfalso; exact (nounk_decimal _ _ _ _ _ DC)].
      destruct ty as [| | | |t| |]; try discriminate H;
        try (injection H as <- <-; apply FUDict; unfold dict_unknown; rewrite T; reflexivity).
      destruct (String.eqb t "array") eqn:E1.
      { apply String.eqb_eq in E1. subst t. destruct (jget "items" kv) as [it|] eqn:I; [|discriminate H].
        destruct (parse_rec f it ns false st None) as [[p st1]| |a c| |] eqn:R; cbn [pbind] in H; try discriminate H.
        - exfalso. destruct (check_default d is_jarr) eqn:CD; cbn [pbind] in H; try discriminate H. exact (nounk_check_default _ _ _ _ CD).
        - injection H as -> ->. eapply FUItems; eauto. }
      destruct (String.eqb t "map") eqn:E2.
      { apply String.eqb_eq in E2. subst t. destruct (jget "values" kv) as [it|] eqn:I; [|discriminate H].
        destruct (parse_rec f it ns false st None) as [[p st1]| |a c| |] eqn:R; cbn [pbind] in H; try discriminate H.
        - exfalso. destruct (check_default d is_jobj) eqn:CD; cbn [pbind] in H; try discriminate H. exact (nounk_check_default _ _ _ _ CD).
        - injection H as -> ->. eapply FUValues; eauto. }
      destruct (String.eqb t "enum") eqn:E3.
      { exfalso.
        destruct (schema_name kv ns) as [[ns' full]| |a c| |] eqn:SN; cbn [pbind] in H; try discriminate H; [|exact (nounk_schema_name _ _ _ _ SN)].
        destruct (declare full st) as [st1| |a c| |] eqn:D; cbn [pbind] in H; try discriminate H; [|exact (nounk_declare _ _ _ _ D)].
        destruct (validate_enum_symbols kv) as [u1| |a c| |] eqn:V; cbn [pbind] in H; try discriminate H; [|exact (nounk_validate_enum _ _ _ V)].
        destruct (check_default d is_jstr) as [u2| |a c| |] eqn:CD; cbn [pbind] in H; try discriminate H; [|exact (nounk_check_default _ _ _ _ CD)].
        destruct (jget "symbols" kv); discriminate H. }
      destruct (String.eqb t "fixed") eqn:E4.
      { exfalso.
        destruct (schema_name kv ns) as [[ns' full]| |a c| |] eqn:SN; cbn [pbind] in H; try discriminate H; [|exact (nounk_schema_name _ _ _ _ SN)].
        destruct (declare full st) as [st1| |a c| |] eqn:D; cbn [pbind] in H; try discriminate H; [|exact (nounk_declare _ _ _ _ D)].
        destruct (check_default d is_jstr) as [u2| |a c| |] eqn:CD; cbn [pbind] in H; try discriminate H; [|exact (nounk_check_default _ _ _ _ CD)].
        destruct (jget "size" kv); discriminate H. }
      destruct (String.eqb t "record" || String.eqb t "error") eqn:E5.
      { destruct (schema_name kv ns) as [[ns' full]| |a c| |] eqn:SN; cbn [pbind] in H; try discriminate H;
          [|exfalso; exact (nounk_schema_name _ _ _ _ SN)].
        destruct (declare full st) as [st1| |a c| |] eqn:D; cbn [pbind] in H; try discriminate H;
          [|exfalso; exact (nounk_declare _ _ _ _ D)].
        unfold declare in D. destruct (mem full (st_names st)) eqn:MF; [discriminate D|]. injection D as <-.
        destruct (check_default d is_jobj) as [u2| |a c| |] eqn:CD; cbn [pbind] in H; try discriminate H;
          [|exfalso; exact (nounk_check_default _ _ _ _ CD)].
        destruct (jget "fields" kv) as [[| | | | |fl|]|] eqn:FL; cbn [pbind] in H; try discriminate H.
        - destruct (parse_fields (parse_rec f) ns' fl _) as [[fs st3]| |a c| |] eqn:PF; cbn [pbind] in H; try discriminate H.
          + destruct wh; discriminate H.
          + injection H as -> ->. destruct (fields_unknown _ _ _ _ _ PF) as (pre & fkv & post & fs & st3 & ty & -> & M & TY & F).
            eapply (FUField f kv t); eauto.
            apply Bool.orb_true_iff in E5. destruct E5 as [E5|E5]; apply String.eqb_eq in E5; auto.
        - cbn [parse_fields pbind] in H. destruct wh; discriminate H. }
      destruct (is_prim t) eqn:P.
      { exfalso. destruct d as [dv|]; cbn [pbind] in H; [|discriminate H].
        destruct (default_matches_prim dv (JStr t)) as [b| |a c| |] eqn:E; cbn [pbind] in H; try discriminate H.
        - destruct b; discriminate H.
        - exact (nounk_prim _ _ _ _ E). }
      injection H as <- <-. apply FUDict. unfold dict_unknown. rewrite T, E1, E2, E3, E4, P.
      apply Bool.orb_false_iff in E5. destruct E5 as [-> ->]. reflexivity.
  Qed.
End Step.

Theorem parse_rec_unknown : forall f j ns wh st d q junk,
  parse_rec f j ns wh st d = PErrUnknown q junk -> first_unknown f j ns st q junk.
Proof.
  induction f as [|f IH]; intros j ns wh st d q junk H; [discriminate H|].
  cbn [parse_rec] in H. eapply node_unknown; eauto.
Qed.

(** ---- consequences ---- *)
(* the dictionary of the failure contains the caller's; the reported name is not in it *)
Theorem first_unknown_table f j ns st q junk :
  first_unknown f j ns st q junk ->
  (forall n, jhas n (st_tbl st) = true -> jhas n junk = true) /\
  (jhas q junk = false \/ q = "<dict>").
Proof.
  induction 1 as [f s ns st P J|f kv ns st D|f pre x post ns st ps st1 q junk M F [IH1 IH2]
                  |f kv it ns st q junk T I F [IH1 IH2]|f kv it ns st q junk T I F [IH1 IH2]
                  |f kv t ns st ns' full pre fkv post fs st3 ty q junk T TT SN MF FL FS TY F [IH1 IH2]].
  - split; [auto|now left].
  - split; [auto|now right].
  - split; [|exact IH2]. intros n H. apply IH1. exact (proj1 (members_refs _ (parse_rec_refs f) _ _ _ _ _ M) n H).
  - split; assumption.
  - split; assumption.
  - split; [|exact IH2]. intros n H. apply IH1.
    apply (proj1 (fields_refs _ (parse_rec_refs f) _ _ _ _ _ FS) n). cbn [set_tbl declared st_tbl]. now apply jhas_jset_mono.
Qed.

(* parse_schema on one (unmarked) document *)
Theorem parse_schema_unknown wh f kv tbl q junk :
  jhas "__fastavro_parsed" kv = false ->
  parse_schema_g wh (S f) (JObj kv) tbl = PErrUnknown q junk ->
  first_unknown f (JObj kv) "" (mkst [] tbl) q junk.
Proof.
  intros U H. unfold parse_schema_g in H. cbn [parse_schema_rec_g] in H. rewrite U in H.
  destruct (parse_rec f (JObj kv) "" wh (mkst [] tbl) None) as [[p st1]| |a c| |] eqn:E; cbn [pbind] in H; try discriminate H.
  injection H as -> ->. eapply parse_rec_unknown; eauto.
Qed.
