(** C10: exactly when the writer (any options: default, strict, strict_allow_default) encodes a datum validate accepts:
    [validate f o e s (Some v) = Ok true -> (the writer eventually elaborates v  <->  exists n, wneed n o e s v)].
    [wneed] (model/Conform.v) lists what the writer needs beyond conformance. *)
From Coq Require Import String Lia ZifyBool.
From FA Require Import model.Base model.Varint model.Value model.Schema model.Utf8 model.Float model.Codec
                       model.Validate model.Write model.Read model.Conform proofs.VarintProofs proofs.CodecProofs proofs.ElabProofs.

(** *** generic pieces *)
Definition guards_ok (o : wopts) (kv : list (pyval * pyval)) (fd : field) : Prop :=
  key_in kv (fname fd) = false ->
  strict o = false /\
  match fdefault fd with Some _ => True | None => strict_allow_default o = false /\ nullok (ftype fd) = true end.

Definition field_ready2 o e (kv : list (pyval * pyval)) (fd : field) : Prop :=
  guards_ok o kv fd /\ exists v', fconv (ftype fd) (field_datum kv fd) = WOk v' /\ ev_elab o e (ftype fd) v'.

Lemma guards_false o kv fd : guards_ok o kv fd ->
  negb (key_in kv (fname fd)) && (strict o || strict_allow_default o && negb match fdefault fd with Some _ => true | None => false end) = false /\
  negb (key_in kv (fname fd)) && negb match fdefault fd with Some _ => true | None => false end && negb (nullok (ftype fd)) = false.
Proof.
  unfold guards_ok. intros H. destruct (key_in kv (fname fd)); [split; reflexivity|]. destruct (H eq_refl) as [Hs Hd]. rewrite Hs.
  destruct (fdefault fd); cbn [negb andb orb]; [rewrite andb_false_r; split; reflexivity|].
  destruct Hd as [-> ->]. split; reflexivity.
Qed.

Lemma elab_fields_ev2 o e kv fs : Forall (field_ready2 o e kv) fs ->
  exists f0, forall f', (f0 <= f')%nat -> exists r, elab_fields (elab f' o e) o kv fs = WOk r.
Proof.
  induction 1 as [|fd l [Hg (v' & Hc & [fx Hx])] _ [fl Hl]].
  - exists O. intros f' _. exists []. reflexivity.
  - exists (Nat.max fx fl). intros f' Hf. destruct (Hx f' ltac:(lia)) as [a Ha]. destruct (Hl f' ltac:(lia)) as [r Hr].
    exists (a :: r). cbn [elab_fields]. destruct (guards_false _ _ _ Hg) as [H1 H2]. rewrite H1, H2.
    fold (field_datum kv fd). fold (fconv (ftype fd) (field_datum kv fd)). rewrite Hc. cbn [wbind].
    rewrite Ha. cbn [wbind]. rewrite Hr. reflexivity.
Qed.

(* inversion of the field loop keeping the guards *)
Lemma elab_fields_inv2 rec o kv fs : forall r, elab_fields rec o kv fs = WOk r ->
  Forall2 (fun fd a => guards_ok o kv fd /\ exists v', fconv (ftype fd) (field_datum kv fd) = WOk v' /\ rec (ftype fd) v' = WOk a) fs r.
Proof.
  induction fs as [|fd fs IH]; intros r H; cbn [elab_fields] in H.
  - injection H as <-. constructor.
  - destruct (negb (key_in kv (fname fd)) && (strict o || strict_allow_default o && negb match fdefault fd with Some _ => true | None => false end)) eqn:G1; [discriminate|].
    destruct (negb (key_in kv (fname fd)) && negb match fdefault fd with Some _ => true | None => false end && negb (nullok (ftype fd))) eqn:G2; [discriminate|].
    fold (field_datum kv fd) in H. fold (fconv (ftype fd) (field_datum kv fd)) in H.
    destruct (fconv (ftype fd) (field_datum kv fd)) as [v'| | |] eqn:Ec; cbn [wbind] in H; try discriminate.
    destruct (rec (ftype fd) v') as [a| | |] eqn:Ea; cbn [wbind] in H; try discriminate.
    destruct (elab_fields rec o kv fs) as [r'| | |] eqn:Er; cbn [wbind] in H; try discriminate. injection H as <-.
    constructor; [|apply IH; reflexivity]. split; [|exists v'; split; [exact Ec|exact Ea]].
    intros Hk. rewrite Hk in G1, G2. cbn [negb andb] in G1, G2. destruct (strict o); [discriminate|]. split; [reflexivity|].
    cbn [orb] in G1. destruct (fdefault fd); [exact I|]. cbn [negb] in *. rewrite andb_true_r in G1.
    split; [exact G1|]. destruct (nullok (ftype fd)); [reflexivity|discriminate].
Qed.

(* a search that answered keeps its answer when the validator is given more fuel *)
Lemma choose_okmono (val1 val2 : schema -> pyval -> res bool) e v :
  (forall c b, val1 c v = Ok b -> val2 c v = Ok b) ->
  forall bs i best most cbf j, choose val1 e v bs i best most cbf = Ok j -> choose val2 e v bs i best most cbf = Ok j.
Proof.
  intros Hm. induction bs as [|c bs IH]; intros i best most cbf j H; cbn [choose] in *; [exact H|].
  destruct (hint_pass e v c); cbn [negb] in *; [|apply IH; exact H].
  destruct cbf; [destruct (is_double c); [exact H|apply IH; exact H]|].
  destruct (val1 c v) as [b| |] eqn:E; cbn [bind] in H; try discriminate. rewrite (Hm _ _ E). cbn [bind].
  destruct b; cbn [negb] in *; [|apply IH; exact H].
  destruct (match strip c with SRef n => match lookup e n with Some d => strip d | None => strip c end | d => d end);
    try exact H; try (apply IH; exact H).
  destruct (most <? _); apply IH; exact H.
Qed.

Lemma double_validates_some o e : forall c v, is_double c = true ->
  ((exists z, v = PInt z) \/ (exists x, v = PFloat x)) -> exists f, validate f o e c (Some v) = Ok true.
Proof.
  induction c; intros v Hd Hv; try discriminate Hd.
  - exists 1%nat. cbn [validate]. destruct Hv as [[z ->]|[x ->]]; reflexivity.
  - unfold is_double in *. cbn [strip] in Hd. destruct (IHc v Hd Hv) as [f Hf]. exists (S f). exact Hf.
Qed.

Lemma to_double_of_dbl_ok v : (exists z, v = PInt z) \/ (exists b, v = PFloat b) -> dbl_ok v -> exists b, to_double v = WOk b.
Proof.
  intros [[z ->]|[b ->]] Hd; [|eexists; reflexivity]. destruct (Hd z eq_refl) as [d Hz]. exists d. cbn [to_double]. rewrite Hz. reflexivity.
Qed.

(** *** sufficiency *)
Theorem wneed_sufficient : forall n o e s v f,
  wneed n o e s v -> validate f o e s (Some v) = Ok true -> ev_elab o e s v.
Proof.
  induction n as [|n IH]; intros o e s v f Hd Hv; [destruct Hd|].
  destruct f as [|f]; [discriminate|]. cbn [validate] in Hv.
  assert (Hleaf : forall a, (forall f', elab (S f') o e s v = WOk a) -> ev_elab o e s v).
  { intros a Ha. exists 1%nat. intros [|f'] Hf; [lia|]. exists a. apply Ha. }
  destruct s.
  - destruct v; try discriminate. apply (Hleaf ANull). reflexivity.
  - destruct v; try discriminate. apply (Hleaf (ABool b)). reflexivity.
  - destruct v; try discriminate. injection Hv as Hv. apply (Hleaf (AInt z)). intros f'. cbn [elab]. rewrite Hv. reflexivity.
  - destruct v; try discriminate. injection Hv as Hv. apply (Hleaf (AInt z)). intros f'. cbn [elab]. rewrite Hv. reflexivity.
  - destruct Hd as [Hdb Hfl].
    assert (Hnum : (exists z, v = PInt z) \/ (exists b, v = PFloat b)) by (destruct v; try discriminate; [left|right]; eexists; reflexivity).
    destruct (to_double_of_dbl_ok v Hnum Hdb) as [b Hb]. destruct (Hfl b Hb) as [x Hx]. apply (Hleaf (AFloat x)). intros f'. cbn [elab].
    destruct v; try discriminate; rewrite Hb; cbn [wbind]; rewrite Hx; reflexivity.
  - assert (Hnum : (exists z, v = PInt z) \/ (exists b, v = PFloat b)) by (destruct v; try discriminate; [left|right]; eexists; reflexivity).
    destruct (to_double_of_dbl_ok v Hnum Hd) as [b Hb]. apply (Hleaf (ADouble b)). intros f'. cbn [elab].
    destruct v; try discriminate; rewrite Hb; reflexivity.
  - destruct v; try discriminate; [apply (Hleaf (ABytes b))|apply (Hleaf (ABytes b))]; reflexivity.
  - destruct v; try discriminate. apply (Hleaf (AString s)). reflexivity.
  - destruct v; try discriminate. injection Hv as Hv. apply (Hleaf (AFixed b)). intros f'. cbn [elab]. rewrite Hv. reflexivity.
  - destruct v; try discriminate. injection Hv as Hv. destruct (index_of_some _ _ Hv 0) as [i Hi].
    apply (Hleaf (AEnum i)). intros f'. cbn [elab]. rewrite Hi. reflexivity.
  - (* array *)
    destruct (as_sequence v) as [l|] eqn:Es; [|discriminate]. apply all_items_true in Hv.
    cbn [wneed] in Hd. specialize (Hd l (proj1 (as_sequence_items v l) Es)).
    assert (Hev : Forall (ev_elab o e s) l).
    { rewrite Forall_forall in *. intros x Hx. eapply IH; [apply Hd; exact Hx|apply Hv; exact Hx]. }
    destruct (elab_items_ev _ _ _ _ Hev) as [f0 Hf0]. exists (S f0). intros [|f'] Hf; [lia|].
    destruct (Hf0 f' ltac:(lia)) as [r Hr]. exists (AArray r). rewrite (elab_array_eq _ _ _ _ _ _ Es), Hr. reflexivity.
  - (* map *)
    destruct v; try discriminate. destruct (forallb is_str_key kv) eqn:Ek; [|discriminate]. apply all_items_true in Hv.
    cbn [wneed] in Hd. specialize (Hd kv eq_refl). rewrite forallb_forall in Ek.
    assert (Hev : Forall (fun p => (exists k, fst p = PStr k) /\ ev_elab o e s (snd p)) kv).
    { rewrite Forall_forall in *. intros p Hp. split.
      - specialize (Ek p Hp). unfold is_str_key in Ek. destruct (fst p); try discriminate. eexists; reflexivity.
      - eapply IH; [apply Hd; exact Hp|apply Hv; apply in_map; exact Hp]. }
    destruct (elab_map_ev _ _ _ _ Hev) as [f0 Hf0]. exists (S f0). intros [|f'] Hf; [lia|].
    destruct (Hf0 f' ltac:(lia)) as [r Hr]. exists (AMap r). cbn [elab]. rewrite Hr. reflexivity.
  - (* union *)
    assert (Hsearch : (exists i c, choose (fun c x => validate n o e c (Some x)) e v bs 0 (-1) (-1) false = Ok i /\
                                   nthZ bs i = Some c /\ wneed n o e c v) ->
              exists f0, forall f', (f0 <= f')%nat -> exists a, union_search f' o e bs v = WOk a).
    { intros (i & c & Hj & Hc & Hw). fold (vval n o e) in Hj. pose proof (nthZ_range _ _ _ Hc) as Hi.
      assert (Hcv : exists fc, validate fc o e c (Some v) = Ok true).
      { destruct (search_valid _ _ _ _ _ Hj ltac:(lia)) as (c' & Hc' & _ & Hcase). rewrite Hc in Hc'. injection Hc' as <-.
        destruct Hcase as [Hok|(Hdbl & k & cf & _ & _ & Hcf & Hkf)]; [exists n; exact Hok|].
        eapply double_validates_some; [exact Hdbl|]. eapply number_of_float_kind; [exact Hcf|exact Hkf]. }
      destruct Hcv as [fc0 Hcv]. destruct (IH o e c v fc0 Hw Hcv) as [fc Hfc].
      exists (Nat.max n fc). intros f' Hf. destruct (Hfc f' ltac:(lia)) as [a Ha'].
      exists (AUnion i a). unfold union_search. fold (vval f' o e).
      rewrite (choose_okmono (vval n o e) (vval f' o e) e v
                 (fun c0 b0 H0 => validate_fuel_mono n f' o e ltac:(lia) c0 (Some v) b0 H0) bs 0 (-1) (-1) false i Hj).
      cbn [of_res wbind]. destruct (i <? 0) eqn:Ej; [lia|]. unfold union_go. rewrite Hc, Ha'. reflexivity. }
    assert (Hwrap : (exists f0, forall f', (f0 <= f')%nat -> exists a, union_search f' o e bs v = WOk a) ->
                    ~ hinted_by o v -> ev_elab o e (SUnion bs) v).
    { intros [f0 Hf0] Hnh. exists (S f0). intros [|f'] Hf; [lia|]. destruct (Hf0 f' ltac:(lia)) as [a Ha].
      exists a. rewrite elab_union_eq. destruct v; try exact Ha. destruct (disable_tuple o) eqn:Ed; [exact Ha|].
      exfalso. apply Hnh. eexists. split; [reflexivity|exact Ed]. }
    destruct v; try (apply Hwrap; [apply Hsearch; exact Hd|intros (? & Hl & _); discriminate]).
    cbn [wneed] in Hd. destruct (disable_tuple o) eqn:Edt.
    { apply Hwrap; [apply Hsearch; exact Hd|intros (? & _ & Hf); congruence]. }
    destruct l as [|name [|x [|? ?]]]; try discriminate.
    destruct name as [| | | |nm| | | | |]; try (rewrite hinted_nonstr in Hv by (intros ? ?; discriminate); discriminate).
    rewrite hinted_str in Hv. destruct (first_named nm bs) as [b|] eqn:Ef; [|discriminate].
    specialize (Hd nm x b eq_refl Ef). destruct (IH o e b x f Hd Hv) as [fb Hfb].
    pose proof (find_first_named nm bs 0) as Hff. destruct (find_named nm bs 0) as [i|] eqn:Efn; [|congruence].
    destruct Hff as (b' & Hb' & Hn). rewrite Ef in Hb'. injection Hb' as <-. rewrite Z.sub_0_r in Hn.
    exists (S fb). intros [|f'] Hf; [lia|]. destruct (Hfb f' ltac:(lia)) as [a Ha]. exists (AUnion i a).
    rewrite elab_union_eq, Edt, Efn. unfold union_go. rewrite Hn, Ha. reflexivity.
  - (* record *)
    destruct v; try discriminate.
    destruct (match dict_get kv (s2b "-type") with Some (PStr t) => bytes_eqb t n0 | Some _ => false | None => true end);
      [|discriminate].
    apply all_fields_true in Hv. cbn [wneed] in Hd. destruct (Hd kv eq_refl) as [Hex Hfs].
    assert (Hready : Forall (field_ready2 o e kv) fs).
    { rewrite Forall_forall in *. intros fd Hfd. specialize (Hv fd Hfd). specialize (Hfs fd Hfd).
      unfold field_value in Hv. unfold field_wneed in Hfs. unfold field_ready2, guards_ok, field_datum, key_in.
      assert (Hnum : forall x, validate f o e (ftype fd) (Some x) = Ok true ->
                match ftype fd with
                | SFloat | SDouble => dbl_ok x /\ forall b, to_double x = WOk b -> wneed n o e (ftype fd) (PFloat b)
                | _ => wneed n o e (ftype fd) x end ->
                exists v', fconv (ftype fd) x = WOk v' /\ ev_elab o e (ftype fd) v').
      { intros x Hx Hw. destruct (ftype fd) eqn:Et;
          try (exists x; split; [reflexivity|]; eapply IH; [exact Hw|exact Hx]).
        - destruct Hw as [Hdb Hw]. destruct f as [|f1]; [discriminate|]. cbn [validate] in Hx.
          assert (Hn : (exists z, x = PInt z) \/ (exists b, x = PFloat b)) by (destruct x; try discriminate; [left|right]; eexists; reflexivity).
          destruct (to_double_of_dbl_ok x Hn Hdb) as [b Hb]. exists (PFloat b). split; [unfold fconv; rewrite Hb; reflexivity|].
          eapply (IH o e SFloat (PFloat b) 1%nat); [apply Hw; exact Hb|reflexivity].
        - destruct Hw as [Hdb Hw]. destruct f as [|f1]; [discriminate|]. cbn [validate] in Hx.
          assert (Hn : (exists z, x = PInt z) \/ (exists b, x = PFloat b)) by (destruct x; try discriminate; [left|right]; eexists; reflexivity).
          destruct (to_double_of_dbl_ok x Hn Hdb) as [b Hb]. exists (PFloat b). split; [unfold fconv; rewrite Hb; reflexivity|].
          eapply (IH o e SDouble (PFloat b) 1%nat); [apply Hw; exact Hb|reflexivity]. }
      destruct (dict_get kv (fname fd)) as [x|] eqn:Eg.
      - split; [intros; discriminate|]. apply Hnum; assumption.
      - destruct Hfs as [Hs Hfs]. destruct (fdefault fd) as [d|] eqn:Edf.
        + split; [intros _; split; [exact Hs|exact I]|]. apply Hnum; assumption.
        + destruct Hfs as (Hsd & Hnull & Hw). split; [intros _; repeat split; assumption|].
          destruct f as [|f1]; [discriminate|]. cbn [validate] in Hv. rewrite Hs in Hv.
          exists PNone. split.
          * unfold fconv. destruct (ftype fd); try reflexivity; discriminate Hnull.
          * eapply IH; [exact Hw|exact Hv]. }
    destruct (elab_fields_ev2 o e kv fs Hready) as [f0 Hf0]. exists (S f0). intros [|f'] Hf; [lia|].
    destruct (Hf0 f' ltac:(lia)) as [r Hr]. exists (ARecord r). cbn [elab].
    destruct (strict o || strict_allow_default o) eqn:Eso; cbn [andb]; [rewrite (Hex eq_refl)|]; rewrite Hr; reflexivity.
  - destruct (lookup e n0) as [s'|] eqn:El; [|discriminate]. cbn [wneed] in Hd. specialize (Hd s' El).
    destruct (IH o e s' v f Hd Hv) as [f0 Hf0]. exists (S f0). intros [|f'] Hf; [lia|].
    destruct (Hf0 f' ltac:(lia)) as [a Ha]. exists a. cbn [elab]. rewrite El. exact Ha.
  - cbn [wneed] in Hd. destruct (IH o e s v f Hd Hv) as [f0 Hf0]. exists (S f0). intros [|f'] Hf; [lia|].
    destruct (Hf0 f' ltac:(lia)) as [a Ha]. exists a. cbn [elab]. exact Ha.
Qed.

(** *** necessity *)
Lemma Forall2_left {A B} (R : A -> B -> Prop) (P : A -> Prop) l r : Forall2 R l r -> (forall x y, R x y -> P x) -> Forall P l.
Proof. intros H HP. induction H; constructor; eauto. Qed.

Lemma dbl_ok_of_to_double x b : to_double x = WOk b -> dbl_ok x.
Proof.
  intros H z ->. cbn [to_double] in H. destruct (z2d z) as [d| |]; cbn [of_res] in H; try discriminate. eexists; reflexivity.
Qed.

Theorem wneed_necessary : forall f o e s v a, elab f o e s v = WOk a -> wneed f o e s v.
Proof.
  induction f as [|f IH]; intros o e s v a H; [discriminate|].
  destruct s; try exact I.
  - (* float *)
    assert (Hn : exists b x, to_double v = WOk b /\ d2s b = Ok x).
    { cbn [elab] in H. destruct v; try discriminate; inv_w H; inv_w H;
        (destruct (d2s x) as [y| |] eqn:Ed; cbn [of_res] in E0; try discriminate; eauto). }
    destruct Hn as (b & x & Hb & Hd). split; [eapply dbl_ok_of_to_double; exact Hb|].
    intros b' Hb'. rewrite Hb in Hb'. injection Hb' as <-. eauto.
  - (* double *)
    assert (Hn : exists b, to_double v = WOk b).
    { cbn [elab] in H. destruct v; try discriminate; inv_w H; eauto. }
    destruct Hn as (b & Hb). cbn [wneed]. eapply dbl_ok_of_to_double; exact Hb.
  - (* array *)
    cbn [wneed]. intros l Hl. apply as_sequence_items in Hl. rewrite (elab_array_eq _ _ _ _ _ _ Hl) in H. inv_w H.
    apply elab_items_inv in E. eapply Forall2_left; [exact E|]. intros x0 y Hxy. eapply IH; exact Hxy.
  - (* map *)
    cbn [wneed]. intros kv ->. cbn [elab] in H. inv_w H. apply elab_map_inv in E.
    eapply Forall2_left; [exact E|]. intros p q [_ Hel]. eapply IH; exact Hel.
  - (* union *)
    apply elab_union_inv in H. destruct H as (i & b & v' & a0 & -> & Hn & Hel & Hcase).
    destruct Hcase as [(-> & Hnh & Hc)|(nm & -> & Hd & Hfn)].
    + assert (Hs : exists i0 c, choose (fun c x => validate f o e c (Some x)) e v bs 0 (-1) (-1) false = Ok i0 /\
                               nthZ bs i0 = Some c /\ wneed f o e c v).
      { exists i, b. split; [exact Hc|]. split; [exact Hn|]. eapply IH; exact Hel. }
      cbn [wneed]. destruct v; try exact Hs. destruct (disable_tuple o) eqn:Ed; [exact Hs|].
      exfalso. apply Hnh. eexists. split; [reflexivity|exact Ed].
    + cbn [wneed]. rewrite Hd. intros name x b0 Hl Hf0. injection Hl as <- <-.
      pose proof (find_first_named nm bs 0) as Hff. rewrite Hfn in Hff. destruct Hff as (b' & Hb' & Hn').
      rewrite Z.sub_0_r in Hn'. rewrite Hn in Hn'. injection Hn' as <-. rewrite Hf0 in Hb'. injection Hb' as ->.
      eapply IH; exact Hel.
  - (* record *)
    cbn [wneed]. intros kv ->. cbn [elab] in H.
    destruct (strict o || strict_allow_default o) eqn:Eso; cbn [andb] in H.
    + destruct (has_extras kv fs) eqn:Ex; [discriminate|]. split; [intros _; reflexivity|].
      inv_w H. apply elab_fields_inv2 in E. eapply Forall2_left; [exact E|].
      intros fd y (Hg & v' & Hc & Hel). revert Hg Hc Hel. generalize (IH o e). clear. intros IH Hg Hc Hel.
      unfold field_wneed, guards_ok, key_in, field_datum in *.
      destruct (dict_get kv (fname fd)) as [x0|].
      * unfold fconv in Hc. destruct (ftype fd) eqn:Et; try (injection Hc as <-; eapply IH; exact Hel);
          (inv_w Hc; injection Hc as <-; split; [eapply dbl_ok_of_to_double; exact E|];
           intros b' Hb'; injection Hb' as <-; eapply IH; exact Hel).
      * destruct (Hg eq_refl) as [Hs Hd]. split; [exact Hs|]. destruct (fdefault fd) as [d|].
        -- unfold fconv in Hc. destruct (ftype fd) eqn:Et; try (injection Hc as <-; eapply IH; exact Hel);
             (inv_w Hc; injection Hc as <-; split; [eapply dbl_ok_of_to_double; exact E|];
              intros b' Hb'; injection Hb' as <-; eapply IH; exact Hel).
        -- destruct Hd as [Hsd Hnull]. split; [exact Hsd|]. split; [exact Hnull|].
           unfold fconv in Hc. destruct (ftype fd); try discriminate Hnull; injection Hc as <-; eapply IH; exact Hel.
    + split; [intros Hf; discriminate Hf|].
      inv_w H. apply elab_fields_inv2 in E. eapply Forall2_left; [exact E|].
      intros fd y (Hg & v' & Hc & Hel). revert Hg Hc Hel. generalize (IH o e). clear. intros IH Hg Hc Hel.
      unfold field_wneed, guards_ok, key_in, field_datum in *.
      destruct (dict_get kv (fname fd)) as [x0|].
      * unfold fconv in Hc. destruct (ftype fd) eqn:Et; try (injection Hc as <-; eapply IH; exact Hel);
          (inv_w Hc; injection Hc as <-; split; [eapply dbl_ok_of_to_double; exact E|];
           intros b' Hb'; injection Hb' as <-; eapply IH; exact Hel).
      * destruct (Hg eq_refl) as [Hs Hd]. split; [exact Hs|]. destruct (fdefault fd) as [d|].
        -- unfold fconv in Hc. destruct (ftype fd) eqn:Et; try (injection Hc as <-; eapply IH; exact Hel);
             (inv_w Hc; injection Hc as <-; split; [eapply dbl_ok_of_to_double; exact E|];
              intros b' Hb'; injection Hb' as <-; eapply IH; exact Hel).
        -- destruct Hd as [Hsd Hnull]. split; [exact Hsd|]. split; [exact Hnull|].
           unfold fconv in Hc. destruct (ftype fd); try discriminate Hnull; injection Hc as <-; eapply IH; exact Hel.
  - cbn [wneed]. intros s' Hl. cbn [elab] in H. rewrite Hl in H. eapply IH; exact H.
  - cbn [wneed]. cbn [elab] in H. eapply IH; exact H.
Qed.

(** *** the characterisation *)
Theorem writer_accepts_iff f o e s v : validate f o e s (Some v) = Ok true ->
  ((exists f0, forall f', (f0 <= f')%nat -> exists a, elab f' o e s v = WOk a) <-> exists n, wneed n o e s v).
Proof.
  intros Hv. split.
  - intros [f0 H0]. destruct (H0 f0 (le_n _)) as [a Ha]. exists f0. eapply wneed_necessary; exact Ha.
  - intros [n Hn]. exact (wneed_sufficient n o e s v f Hn Hv).
Qed.

(* without the validate hypothesis one direction still holds for ANY datum: what the writer encodes satisfies wneed *)
Corollary encoded_needs f o e s v a : elab f o e s v = WOk a -> wneed f o e s v.
Proof. apply wneed_necessary. Qed.

(* the old sufficient condition is an instance: for the default writer [wdom] implies [wneed] on accepted data *)

(** one-step unfoldings of [wneed], for examples *)
Lemma wneed_record n o e nm al fs kv :
  (strict o || strict_allow_default o = true -> has_extras kv fs = false) ->
  Forall (field_wneed (wneed n o e) o kv) fs -> wneed (S n) o e (SRecord nm al fs) (PDict kv).
Proof. intros Hx H. cbn [wneed]. intros kv' E. injection E as <-. split; assumption. Qed.
Lemma wneed_array n o e it v l : as_sequence v = Some l -> Forall (wneed n o e it) l -> wneed (S n) o e (SArray it) v.
Proof.
  intros Hs H. cbn [wneed]. intros l' Hl. apply as_sequence_items in Hl. rewrite Hs in Hl. injection Hl as <-. exact H.
Qed.
Lemma wneed_union_search n o e bs v i c : (forall l, v <> PTuple l) ->
  choose (fun c x => validate n o e c (Some x)) e v bs 0 (-1) (-1) false = Ok i -> nthZ bs i = Some c -> wneed n o e c v ->
  wneed (S n) o e (SUnion bs) v.
Proof.
  intros Hn H1 H2 H3. assert (Hs : exists i0 c0, choose (fun c x => validate n o e c (Some x)) e v bs 0 (-1) (-1) false = Ok i0 /\
                                        nthZ bs i0 = Some c0 /\ wneed n o e c0 v) by eauto.
  cbn [wneed]. destruct v; try exact Hs. exfalso. eapply Hn. reflexivity.
Qed.
Lemma wneed_union_hint n o e bs nm x b : disable_tuple o = false ->
  first_named nm bs = Some b -> wneed n o e b x -> wneed (S n) o e (SUnion bs) (PTuple [PStr nm; x]).
Proof.
  intros Hd Hf H. cbn [wneed]. rewrite Hd. intros name x' b' E Hf'. injection E as <- <-. rewrite Hf in Hf'. injection Hf' as <-. exact H.
Qed.
Lemma wneed_float n o e v : dbl_ok v -> flt_ok v -> wneed (S n) o e SFloat v.
Proof. intros H1 H2. split; assumption. Qed.
