(** C12: idempotence of parsing (marker path, re-parse of the unmarked parsed schema). *)
From Coq Require Import String Ascii Lia.
From FA Require Import model.Base model.Json model.Parse model.SchemaSpec model.Inline model.Canon model.Piecewise
     proofs.JsonProofs proofs.ParseProofs proofs.CanonProofs.
Open Scope string_scope.

(** ---- the marker path ---- *)
Lemma tie_marked t kv emb : jget "__named_schemas" kv = Some (JObj emb) -> tie t (JObj kv) = JObj kv.
Proof. intros G. unfold tie. rewrite jfold_obj. now rewrite G. Qed.

Theorem parse_marked f kv emb t :
  jhas "__fastavro_parsed" kv = true -> jget "__named_schemas" kv = Some (JObj emb) ->
  parse_schema (S f) (JObj kv) t = POk (JObj kv, jupdate emb t).
Proof.
  intros M G. unfold parse_schema. cbn [parse_schema_rec]. rewrite M, G. cbn [pbind st_tbl].
  now rewrite (tie_marked _ _ _ G).
Qed.

(* the parse of a raw record carries the marker and the final dictionary ... *)
Lemma parse_record_marked f kv t0 p t ty :
  jhas "__fastavro_parsed" kv = false -> jget "type" kv = Some (JStr ty) -> (ty = "record" \/ ty = "error") ->
  parse_schema f (JObj kv) t0 = POk (p, t) ->
  exists pkv, p = JObj pkv /\ jhas "__fastavro_parsed" pkv = true /\ jget "__named_schemas" pkv = Some (JObj t).
Proof.
  intros U T TT H. unfold parse_schema in H.
  destruct f as [|f]; [discriminate H|]. cbn [parse_schema_rec] in H. rewrite U in H. unfold run_parse in H.
  destruct (parse_rec f (JObj kv) "" true (mkst [] t0) None) as [[p0 st1]| | | |] eqn:E; cbn [pbind] in H; try discriminate H.
  injection H as <- <-. open_accept E.
  inversion E; subst; same_type; try (destruct TT; subst; discriminate).
  repeat match goal with x := _ |- _ => subst x end.
  unfold mark, tie. rewrite jfold_obj. rewrite jget_jset_eq.
  eexists. split; [reflexivity|]. split.
  - rewrite jhas_jset_neq by reflexivity. rewrite jhas_jset_neq by reflexivity. apply jhas_jset_eq.
  - apply jget_jset_eq.
Qed.

(* ... so parsing it again returns it unchanged and copies its table *)
Theorem parse_twice f kv t0 p t ty :
  jhas "__fastavro_parsed" kv = false -> jget "type" kv = Some (JStr ty) -> (ty = "record" \/ ty = "error") ->
  parse_schema f (JObj kv) t0 = POk (p, t) ->
  forall f' t1, parse_schema (S f') p t1 = POk (p, jupdate t t1).
Proof.
  intros U T TT H f' t1. destruct (parse_record_marked _ _ _ _ _ _ U T TT H) as (pkv & -> & M & G).
  now apply parse_marked.
Qed.

(** ---- re-parsing the parsed (unmarked) schema: same names, same canonical form ---- *)
(* the names a parsed named node carries are read back as themselves *)
Lemma names_rel ns kv :
  (has_dot (spec_fullname ns kv) = true -> before_last_dot (spec_fullname ns kv) = spec_namespace ns kv) /\
  (has_dot (spec_fullname ns kv) = false -> spec_namespace ns kv = "").
Proof.
  unfold spec_fullname, spec_namespace. set (n := spec_name kv). set (sp := spec_space ns kv).
  destruct (has_dot n) eqn:D.
  - split; [reflexivity|]. intros H. rewrite D in H. discriminate H.
  - destruct (String.eqb sp "") eqn:E.
    + apply String.eqb_eq in E. split; [intros H; rewrite D in H; discriminate H|auto].
    + split; [intros _; now apply before_last_dot_join|]. intros H. rewrite has_dot_join in H. discriminate H.
Qed.

Lemma parsed_names_reread ns kv kvp :
  jget "name" kvp = Some (JStr (spec_fullname ns kv)) ->
  jget "namespace" kvp = kept_namespace ns (spec_fullname ns kv) ->
  spec_fullname ns kvp = spec_fullname ns kv /\ spec_namespace ns kvp = spec_namespace ns kv.
Proof.
  intros N S. destruct (names_rel ns kv) as [R1 R2].
  remember (spec_fullname ns kv) as F eqn:EF. remember (spec_namespace ns kv) as G eqn:EG. clear EF EG.
  unfold spec_fullname, spec_namespace, spec_name, spec_space. rewrite N, S. unfold kept_namespace.
  destruct (has_dot F) eqn:D; [split; [reflexivity|now apply R1]|].
  rewrite (R2 eq_refl). destruct (String.eqb ns "") eqn:E; cbn [negb andb].
  - apply String.eqb_eq in E. subst ns. rewrite String.eqb_refl. auto.
  - rewrite String.eqb_refl. auto.
Qed.

Definition reparse_spec (rec : recfun) : Prop :=
  forall j ns wh st d p st',
    simple_m j PSchema = true -> rec j ns wh st d = POk (p, st') ->
    pcf_json_in ns p = pcf_json_in ns j /\ spec_names ns p = spec_names ns j /\ simple_m p PSchema = true.

Lemma pcf_json_in_obj kv ns : pcf_json_in ns (JObj kv) = pcf_obj kv (map (fun p => (fst p, pcf_m (snd p))) kv) PSchema ns.
Proof. reflexivity. Qed.

Section ReparseStep.
  Variable rec : recfun.
  Hypothesis IH : reparse_spec rec.

  Lemma members_reparse ns l st ps st' :
    forallb (fun j => simple_m j PSchema) l = true -> members_ok rec ns l st ps st' ->
    map (pcf_json_in ns) ps = map (pcf_json_in ns) l /\
    concat (map (spec_names ns) ps) = concat (map (spec_names ns) l) /\
    forallb (fun j => simple_m j PSchema) ps = true.
  Proof.
    intros S M. induction M as [|s r st p st1 ps st2 R M IHM]; [auto|].
    cbn [forallb] in S. apply Bool.andb_true_iff in S. destruct S as [S1 S2].
    destruct (IH _ _ _ _ _ _ _ S1 R) as (A & B & C). destruct (IHM S2) as (A2 & B2 & C2).
    cbn [map concat forallb]. rewrite A, A2, B, B2, C, C2. auto.
  Qed.

  Lemma field_reparse ns fd st p st' :
    simple_m fd PField = true -> field_ok rec ns fd st p st' ->
    pcf_m p PField ns = pcf_m fd PField ns /\ spec_names_m p PField ns = spec_names_m fd PField ns /\
    simple_m p PField = true.
  Proof.
    intros S F. destruct F as [fkv nm ty st p st1 N T R].
    rewrite simple_m_obj in S. cbn zeta in S. rewrite N, bsub_map, T in S.
    destruct nm as [| | | |nm| |]; try discriminate S. cbn [andb] in S.
    destruct (IH _ _ _ _ _ _ _ S R) as (A & B & C).
    rewrite !pcf_m_obj, !spec_names_m_obj, simple_m_obj. unfold pcf_obj, attr. cbv beta iota zeta.
    rewrite !psub_map, bsub_map. getk. rewrite N, T. unfold pcf_json_in in A. unfold spec_names in B. rewrite A, B. cbn [andb]. repeat split; auto.
  Qed.

  Lemma fields_reparse ns l st ps st' :
    forallb (fun j => simple_m j PField) l = true -> fields_ok rec ns l st ps st' ->
    map (fun f => pcf_m f PField ns) ps = map (fun f => pcf_m f PField ns) l /\
    concat (map (fun f => spec_names_m f PField ns) ps) = concat (map (fun f => spec_names_m f PField ns) l) /\
    forallb (fun j => simple_m j PField) ps = true.
  Proof.
    intros S M. induction M as [|s r st p st1 ps st2 R M IHM]; [auto|].
    cbn [forallb] in S. apply Bool.andb_true_iff in S. destruct S as [S1 S2].
    destruct (field_reparse _ _ _ _ _ S1 R) as (A & B & C). destruct (IHM S2) as (A2 & B2 & C2).
    cbn [map concat forallb]. rewrite A, A2, B, B2, C, C2. auto.
  Qed.

  Lemma node_reparse : reparse_spec (parse_node rec).
  Proof.
    intros j ns wh st d p st' S H. apply parse_node_inv in H.
    destruct H as [s ns wh st d P|s ns wh st d P J|l ns wh st d ps st' M|kv t ns wh st d T P
                   |kv it ns wh st d p st' T I R|kv it ns wh st d p st' T I R
                   |kv ns wh st d ns' full syms ss T SN D SY SS ND parsed
                   |kv ns wh st d ns' full sz T SN D SZ parsed
                   |kv t ns wh st d ns' full fl fs st3 T TT SN D FL FS reckv].
    - auto.
    - (* a reference: the qualified name is read back as itself *)
      split; [|split; reflexivity].
      unfold pcf_json_in, pcf_m. cbn [jfold]. rewrite <- !is_prim_spec, P.
      assert (Q : is_prim (qualify ns s) = false).
      { unfold qualify. destruct (negb (has_dot s) && negb (String.eqb ns "")); [|exact P].
        destruct (is_prim (ns ++ "." ++ s)) eqn:Q; [|reflexivity].
        rewrite is_prim_spec in Q. apply prim_no_dot in Q. rewrite has_dot_join in Q. discriminate Q. }
      rewrite Q. f_equal. rewrite qualify_spec. unfold spec_ref.
      destruct (has_dot s) eqn:D; [now rewrite D|].
      destruct (String.eqb ns ""); [now rewrite D|now rewrite has_dot_join].
    - (* union *)
      rewrite simple_arr in S. destruct (members_reparse _ _ _ _ _ S M) as (A & B & C).
      rewrite !pcf_arr, simple_arr. unfold spec_names. rewrite !spec_names_m_arr. fold (spec_names ns).
      now rewrite A, B, C.
    - (* primitive in dict form *)
      destruct (prim_not_complex _ P) as (N1 & N2 & N3 & N4 & N5 & N6).
      rewrite !pcf_json_in_obj. unfold pcf_obj. unfold spec_names. rewrite !spec_names_m_obj, simple_m_obj. cbv beta iota zeta.
      rewrite !(type_is_get _ _ _ T), !(type_is_get _ _ _ (base_type kv (JStr t))). getk.
      rewrite T, <- is_prim_spec, P, N1, N2, N3, N4, N5, N6. cbn [orb]. auto.
    - (* array *)
      rewrite simple_m_obj in S. cbn zeta in S. rewrite (type_is_eq _ _ T) in S. cbn [String.eqb Ascii.eqb Bool.eqb] in S.
      rewrite bsub_map, I in S. destruct (IH _ _ _ _ _ _ _ S R) as (A & B & C).
      rewrite !pcf_json_in_obj. unfold pcf_obj. unfold spec_names. rewrite !spec_names_m_obj, simple_m_obj. cbv beta iota zeta.
      rewrite !psub_map, !bsub_map. rewrite !(type_is_get _ _ _ T). unfold type_is. getk. rewrite T, I.
      cbn [spec_is_prim mem existsb spec_prims String.eqb Ascii.eqb Bool.eqb orb].
      unfold pcf_json_in in A. unfold spec_names in B. rewrite A, B. cbn [andb]. repeat split; auto.
    - (* map *)
      rewrite simple_m_obj in S. cbn zeta in S. rewrite !(type_is_eq _ _ T) in S. cbn [String.eqb Ascii.eqb Bool.eqb] in S.
      rewrite bsub_map, I in S. destruct (IH _ _ _ _ _ _ _ S R) as (A & B & C).
      rewrite !pcf_json_in_obj. unfold pcf_obj. unfold spec_names. rewrite !spec_names_m_obj, simple_m_obj. cbv beta iota zeta.
      rewrite !psub_map, !bsub_map. rewrite !(type_is_get _ _ _ T). unfold type_is. getk. rewrite T, I.
      cbn [spec_is_prim mem existsb spec_prims String.eqb Ascii.eqb Bool.eqb orb].
      unfold pcf_json_in in A. unfold spec_names in B. rewrite A, B. cbn [andb]. repeat split; auto.
    - (* enum *)
      apply schema_name_spec in SN. destruct SN as (-> & -> & NM). subst parsed.
      match goal with |- context [JObj ?k] => match k with jset "symbols" _ _ => set (kvp := k) end end.
      destruct (parsed_names_reread ns kv kvp) as [F N]; [subst kvp; getk; reflexivity| |].
      { subst kvp. rewrite jget_jset_neq by reflexivity. rewrite keep_get_namespace; [reflexivity|getk; reflexivity]. }
      rewrite !pcf_json_in_obj. unfold pcf_obj, attr. unfold spec_names. rewrite !spec_names_m_obj, simple_m_obj. cbv beta iota zeta.
      rewrite !(type_is_get _ _ _ T). rewrite F. unfold type_is. subst kvp. getk. rewrite T, SY.
      cbn [spec_is_prim mem existsb spec_prims String.eqb Ascii.eqb Bool.eqb orb]. auto.
    - (* fixed *)
      apply schema_name_spec in SN. destruct SN as (-> & -> & NM). subst parsed.
      rewrite simple_m_obj in S. cbn zeta in S. rewrite !(type_is_eq _ _ T) in S. cbn [String.eqb Ascii.eqb Bool.eqb] in S.
      rewrite SZ in S.
      match goal with |- context [JObj ?k] => match k with jset "size" _ _ => set (kvp := k) end end.
      destruct (parsed_names_reread ns kv kvp) as [F N]; [subst kvp; getk; reflexivity| |].
      { subst kvp. rewrite jget_jset_neq by reflexivity. rewrite keep_get_namespace; [reflexivity|getk; reflexivity]. }
      rewrite !pcf_json_in_obj. unfold pcf_obj, attr. unfold spec_names. rewrite !spec_names_m_obj, simple_m_obj. cbv beta iota zeta.
      rewrite !(type_is_get _ _ _ T). rewrite F. unfold type_is. subst kvp. getk. rewrite T, SZ.
      cbn [spec_is_prim mem existsb spec_prims String.eqb Ascii.eqb Bool.eqb orb]. auto.
    - (* record / error *)
      apply schema_name_spec in SN. destruct SN as (-> & -> & NM).
      assert (SFL : forallb (fun j => simple_m j PField) fl = true).
      { rewrite simple_m_obj in S. cbn zeta in S. rewrite !(type_is_eq _ _ T) in S.
        destruct FL as [FL|[FL ->]]; [|reflexivity].
        destruct TT as [-> | ->]; cbn [String.eqb Ascii.eqb Bool.eqb orb] in S; rewrite bsub_map, FL in S;
          now rewrite <- simple_fields. }
      destruct (fields_reparse _ _ _ _ _ SFL FS) as (A & B & C).
      assert (EQM : forall kvm, mark wh reckv = JObj kvm ->
                 (forall k, mem k ["type"; "name"; "namespace"; "fields"; "symbols"; "items"; "values"; "size"] = true ->
                            jget k kvm = jget k reckv)).
      { intros kvm E k Mk. destruct wh; unfold mark in E; injection E as <-; [|reflexivity].
        rewrite !jget_jset_neq; [reflexivity| |];
          cbn [mem existsb] in Mk;
          repeat match type of Mk with (String.eqb k ?x || _) = true => destruct (String.eqb_spec k x); [subst; reflexivity|cbn [orb] in Mk] end;
          discriminate Mk. }
      destruct (mark wh reckv) as [| | | | | |kvm] eqn:EM; try (destruct wh; discriminate EM).
      specialize (EQM kvm eq_refl).
      assert (G : forall k, mem k ["type"; "name"; "namespace"; "fields"; "symbols"; "items"; "values"; "size"] = true ->
                   jget k kvm = jget k reckv) by exact EQM.
      destruct (parsed_names_reread ns kv kvm) as [F N].
      { rewrite G by reflexivity. subst reckv. getk. reflexivity. }
      { rewrite G by reflexivity. subst reckv. rewrite !jget_jset_neq by reflexivity. unfold rbase.
        rewrite keep_get_namespace; [reflexivity|getk; reflexivity]. }
      assert (TY : jget "type" kvm = Some (JStr t)) by (rewrite G by reflexivity; subst reckv; getk; reflexivity).
      assert (FD : jget "fields" kvm = Some (JArr fs)) by (rewrite G by reflexivity; subst reckv; getk; reflexivity).
      assert (SF : match jget "fields" kv with Some v => Some v | None => None end = jget "fields" kv) by (destruct (jget "fields" kv); reflexivity).
      rewrite !pcf_json_in_obj. unfold pcf_obj. unfold spec_names. rewrite !spec_names_m_obj, simple_m_obj. cbv beta iota zeta.
      rewrite !jget_map, bsub_map. rewrite !(type_is_get _ _ _ T), !(type_is_get _ _ _ TY), TY, T, FD, F, N.
      destruct FL as [FL|[FL ->]]; rewrite FL; cbn [option_map];
        rewrite ?pcf_fields, ?spec_names_m_arr;
        cbn [map concat] in *; rewrite ?A, ?B;
        destruct TT as [-> | ->]; cbn [spec_is_prim mem existsb spec_prims String.eqb Ascii.eqb Bool.eqb orb];
        rewrite !bsub_map, FD, simple_fields, C; auto.
  Qed.
End ReparseStep.

Theorem parse_rec_reparse f : reparse_spec (parse_rec f).
Proof.
  induction f as [|f IH]; cbn [parse_rec].
  - intros j ns wh st d p st' _ H. discriminate H.
  - apply node_reparse. exact IH.
Qed.

(* parsing the parsed schema again (when it is accepted) gives the same canonical form and the same names *)
Theorem reparse_same f j ns wh st d p st' f2 wh2 st2 d2 p2 st2' :
  simple_m j PSchema = true -> parse_rec f j ns wh st d = POk (p, st') ->
  parse_rec f2 p ns wh2 st2 d2 = POk (p2, st2') ->
  canon p2 = canon p /\ carried_names p2 = carried_names p.
Proof.
  intros S H H2. destruct (parse_rec_reparse f _ _ _ _ _ _ _ S H) as (A & B & C).
  split.
  - rewrite (parse_rec_spec f2 _ _ _ _ _ _ _ C H2), (parse_rec_spec f _ _ _ _ _ _ _ S H). now rewrite A.
  - destruct (parse_rec_names f2 _ _ _ _ _ _ _ H2) as [_ N2]. destruct (parse_rec_names f _ _ _ _ _ _ _ H) as [_ N1].
    now rewrite N2, N1, B.
Qed.
