(** C01: the normal form is a fixed point.  A well-typed wire value read WITHOUT named-type reporting and written back under
    the same schema is elaborated to the same wire value, under the boolean side condition [closb0] (every union value, read
    back plain, re-resolves to the same branch; enum index = first occurrence; distinct map keys / field names) and
    [floats_stable]. *)
From Coq Require Import String Lia ZifyBool.
From FA Require Import model.Base model.Varint model.Value model.Schema model.Utf8 model.Float model.Codec
                       model.Validate model.Write model.Read model.Conform proofs.VarintProofs proofs.CodecProofs proofs.ElabProofs
                       proofs.AcceptIff proofs.ClosureProofs.

Theorem closure0 : forall n o e s a pv,
  typedn n e s a -> closb0 n o e s a = true -> floats_stable a = true -> py_of ropts0 e s a = Some pv -> evw o e s pv a.
Proof.
  induction n as [|n IH]; intros o e s a pv Ht Hc Hfs Hp; [destruct Ht|].
  destruct s.
  15:{ apply typedn_ref in Ht. destruct Ht as (s' & Hl & Ht).
       assert (Hc' : closb0 n o e s' a = true) by (destruct a; cbn [closb0] in Hc; rewrite Hl in Hc; exact Hc).
       destruct (IH o e s' a pv Ht Hc' Hfs (py_of_ref _ _ _ _ _ _ Hl Hp)) as [f0 Hf0].
       exists (S f0). intros [|f] Hf; [lia|]. cbn [elab]. rewrite Hl. apply Hf0. lia. }
  15:{ apply typedn_annot in Ht. assert (Hc' : closb0 n o e s a = true) by (destruct a; exact Hc).
       rewrite py_of_annot in Hp. destruct (IH o e s a pv Ht Hc' Hfs Hp) as [f0 Hf0].
       exists (S f0). intros [|f] Hf; [lia|]. cbn [elab]. apply Hf0. lia. }
  all: destruct a; cbn [typedn] in Ht; try contradiction; cbn [py_of resolve strip] in Hp.
  - injection Hp as <-. apply evw_leaf. reflexivity.
  - injection Hp as <-. apply evw_leaf. reflexivity.
  - injection Hp as <-. apply evw_leaf. intros f. cbn [elab].
    assert (E : (INT_MIN <=? z) && (z <=? INT_MAX) = true) by (unfold in_int32, INT_MIN, INT_MAX in *; lia). rewrite E. reflexivity.
  - injection Hp as <-. apply evw_leaf. intros f. cbn [elab].
    assert (E : (LONG_MIN <=? z) && (z <=? LONG_MAX) = true) by (unfold in_int64, LONG_MIN, LONG_MAX in *; lia). rewrite E. reflexivity.
  - injection Hp as <-. cbn [floats_stable] in Hfs. destruct (d2s (s2d bits)) as [y| |] eqn:Ed; try discriminate.
    apply Z.eqb_eq in Hfs. subst y. apply evw_leaf. intros f. cbn [elab to_double wbind]. rewrite Ed. reflexivity.
  - injection Hp as <-. apply evw_leaf. reflexivity.
  - injection Hp as <-. apply evw_leaf. reflexivity.
  - injection Hp as <-. apply evw_leaf. reflexivity.
  - injection Hp as <-. destruct Ht as [Hl _]. apply evw_leaf. intros f. cbn [elab]. rewrite <- Hl, Z.eqb_refl. reflexivity.
  - cbn [closb0] in Hc. destruct (nthZ syms i) as [x|] eqn:En; [|discriminate]. injection Hp as <-.
    destruct (index_of syms x 0) as [j|] eqn:Ei; cbn [optZ_eqb] in Hc; [|discriminate]. apply Z.eqb_eq in Hc. subst j.
    apply evw_leaf. intros f. cbn [elab]. rewrite Ei. reflexivity.
  - (* array *)
    destruct Ht as [_ Hl]. cbn [closb0] in Hc. apply forallb_Forall in Hc.
    match type of Hp with option_map _ ?g = _ => destruct g as [outs|] eqn:Eg; [|discriminate] end.
    cbn [option_map] in Hp. injection Hp as <-. apply py_items_inv in Eg.
    cbn [floats_stable] in Hfs. apply forallb_Forall in Hfs.
    assert (Hall : Forall (fun a0 => typedn n e s a0 /\ closb0 n o e s a0 = true /\ floats_stable a0 = true) l).
    { rewrite Forall_forall in *. intros a0 Ha. split; [apply Hl|split; [apply Hc|apply Hfs]]; exact Ha. }
    pose proof (Forall2_flip_and _ _ _ _ Eg Hall) as H2.
    destruct (elab_items_to o e s outs l) as [f0 Hf0].
    { eapply Forall2_impl2; [|exact H2]. intros out a0 [Hpy (Ht0 & Hc0 & Hs0)]. eapply IH; eassumption. }
    exists (S f0). intros [|f] Hf; [lia|]. cbn [elab]. rewrite (Hf0 f ltac:(lia)). reflexivity.
  - (* map *)
    destruct Ht as [_ Hl]. cbn [closb0] in Hc. apply andb_prop in Hc. destruct Hc as [Hnd Hc]. apply forallb_Forall in Hc.
    match type of Hp with option_map _ ?g = _ => destruct g as [res|] eqn:Eg; [|discriminate] end.
    cbn [option_map] in Hp. injection Hp as <-.
    destruct (py_map_inv ropts0 e s l (nodup_str_NoDup _ Hnd) [] res (fun _ _ => eq_refl) Eg) as (outs & -> & Ho).
    cbn [floats_stable] in Hfs. apply forallb_Forall in Hfs.
    assert (Hall : Forall (fun kx : bytes * aval => typedn n e s (snd kx) /\ closb0 n o e s (snd kx) = true /\ floats_stable (snd kx) = true) l).
    { rewrite Forall_forall in *. intros kx Hk. split; [apply (Hl kx Hk)|split; [apply Hc; exact Hk|apply Hfs; exact Hk]]. }
    pose proof (Forall2_and_r _ _ _ _ Ho Hall) as H2.
    destruct (elab_map_to o e s outs l) as [f0 Hf0].
    { eapply Forall2_impl2; [|exact H2]. intros q kx [[Hk Hpy] (Ht0 & Hc0 & Hs0)]. split; [exact Hk|]. eapply IH; eassumption. }
    exists (S f0). intros [|f] Hf; [lia|]. cbn [elab app]. rewrite (Hf0 f ltac:(lia)). reflexivity.
  - (* union *)
    destruct Ht as (_ & s0 & Hn & Ht). cbn [closb0] in Hc. rewrite Hn in Hc, Hp. apply andb_prop in Hc. destruct Hc as [Hcb Hc].
    destruct (py_of ropts0 e s0 a) as [pv0|] eqn:Ep0; [|discriminate]. injection Hp as <-.
    cbn [floats_stable] in Hfs. destruct (IH o e s0 a pv0 Ht Hcb Hfs Ep0) as [fb Hfb]. pose proof (nthZ_range _ _ _ Hn) as Hi.
    rewrite wrap_union_ropts0. apply andb_prop in Hc. destruct Hc as [Hnt Hch].
    destruct (choose (fun c y => validate n o e c (Some y)) e pv0 bs 0 (-1) (-1) false) as [j| |] eqn:Ech; cbn [resZ_eqb] in Hch; try discriminate.
    apply Z.eqb_eq in Hch. subst j.
    exists (S (Nat.max n fb)). intros [|f] Hf; [lia|].
    assert (Hs : union_search f o e bs pv0 = WOk (AUnion i a)).
    { unfold union_search.
      rewrite (choose_okmono (fun c y => validate n o e c (Some y)) (fun c y => validate f o e c (Some y)) e pv0
                 (fun c0 b0 H0 => validate_fuel_mono n f o e ltac:(lia) c0 (Some pv0) b0 H0) bs 0 (-1) (-1) false i Ech).
      cbn [of_res wbind]. destruct (i <? 0) eqn:Ei; [lia|]. unfold union_go. rewrite Hn, (Hfb f ltac:(lia)). reflexivity. }
    rewrite elab_union_eq. destruct pv0; try exact Hs. discriminate Hnt.
  - (* record *)
    cbn [closb0] in Hc. apply andb_prop in Hc. destruct Hc as [Hnd Hc]. apply forall2b_Forall2 in Hc.
    match type of Hp with option_map _ ?g = _ => destruct g as [res|] eqn:Eg; [|discriminate] end.
    cbn [option_map] in Hp. injection Hp as <-.
    assert (HND : NoDup (map (fun fd => fname fd) fs)) by (apply nodup_str_NoDup; exact Hnd).
    destruct (py_rec_inv ropts0 e fs l HND [] res (fun _ _ => eq_refl) Eg) as (outs & -> & Hlen & Ho). cbn [app].
    pose proof (record_dict_get (fun out fa => py_of ropts0 e (ftype (fst fa)) (snd fa) = Some out) fs l outs [] HND Ho Hlen (fun _ _ => eq_refl)) as Hg.
    cbn [app fst snd] in Hg.
    destruct (elab_fields_to o e outs fs l) as [f0 Hf0].
    cbn [floats_stable] in Hfs. apply forallb_Forall in Hfs.
    { eapply Forall2_impl2; [|exact (Forall2_and_r _ _ _ _ (Forall2_conj _ _ _ _ Hg (Forall2_conj _ _ _ _ Ht Hc)) Hfs)].
      intros fd a0 [[(out & Hd & Hpy) [Ht0 Hc0]] Hs0]. exists out. split; [exact Hd|]. split; [|eapply IH; eassumption].
      unfold fconv. destruct (ftype fd) eqn:Et; try reflexivity.
      - destruct (py_float_shape ropts0 e SFloat a0 out I Hpy) as [b ->]; reflexivity.
      - destruct (py_float_shape ropts0 e SDouble a0 out I Hpy) as [b ->]; reflexivity. }
    exists (S f0). intros [|f] Hf; [lia|]. cbn [elab].
    rewrite (record_no_extras (fun out fa => py_of ropts0 e (ftype (fst fa)) (snd fa) = Some out) fs fs l outs Ho (fun _ H => H)), andb_false_r, (Hf0 f ltac:(lia)). reflexivity.
Qed.

(** the normal form of a normal form is itself: writing [out] (the value the reader returns for [a]) gives [a] again, so the
    reader returns [out] again and the bytes are the same *)
Corollary normal_form_fixed n o e s a out :
  typedn n e s a -> closb0 n o e s a = true -> floats_stable a = true -> py_of ropts0 e s a = Some out ->
  exists f0, forall f, (f0 <= f)%nat ->
    elab f o e s out = WOk a /\ write f o e s out = WOk (wire a) /\
    forall f' r, (n <= f')%nat -> read f' ropts0 e s (wire a ++ r) = Ok (out, r).
Proof.
  intros Ht Hc Hfs Hp. destruct (closure0 n o e s a out Ht Hc Hfs Hp) as [f0 H0]. exists f0. intros f Hf.
  split; [exact (H0 f Hf)|]. split; [unfold write; rewrite (H0 f Hf); reflexivity|].
  intros f' r Hf'. unfold read. rewrite (wire_dec n e s a Ht f' Hf' r). cbn [bind]. rewrite Hp. reflexivity.
Qed.
