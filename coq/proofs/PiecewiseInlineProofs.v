(** C12_piecewise, schema level: inlining the table of separately parsed children into the
    piecewise-parsed parent gives exactly the parser's output for the all-in-one schema (the
    parent with every child written inline at its first use). *)
From Coq Require Import String Ascii Lia.
From FA Require Import model.Base model.Json model.Parse model.SchemaSpec model.Inline model.Canon model.Pout
     model.Repo model.Piecewise
     proofs.JsonProofs proofs.ParseProofs proofs.CanonProofs proofs.AcceptProofs proofs.InlineProofs proofs.PoutProofs.
Open Scope string_scope.

(** ---- association-list facts ---- *)
Lemma jset_jset {A} k (v1 v2 : A) kv : jset k v2 (jset k v1 kv) = jset k v2 kv.
Proof.
  induction kv as [|[k' v'] r IH]; cbn [jset].
  - now rewrite String.eqb_refl.
  - destruct (String.eqb k k') eqn:E; cbn [jset]; rewrite ?String.eqb_refl, ?E; [reflexivity|now rewrite IH].
Qed.

Lemma jdrop_jset_in {A} ex k (v : A) kv : mem k ex = true -> jdrop ex (jset k v kv) = jdrop ex kv.
Proof.
  intros M. unfold jdrop. induction kv as [|[k' v'] r IH]; cbn [jset filter fst].
  - now rewrite M.
  - destruct (String.eqb k k') eqn:E; cbn [filter fst].
    + apply String.eqb_eq in E. subst k'. now rewrite M.
    + now rewrite IH.
Qed.

Lemma copy_prop_jset_src p k (v : json) kv dst :
  String.eqb p k = false -> copy_prop p (jset k v kv) dst = copy_prop p kv dst.
Proof. intros N. unfold copy_prop. now rewrite jget_jset_neq. Qed.

Lemma pbase_jset k v kv ty :
  mem k RESERVED_PROPERTIES = true -> String.eqb "doc" k = false -> pbase (jset k v kv) ty = pbase kv ty.
Proof. intros M N. unfold pbase. now rewrite copy_prop_jset_src, jdrop_jset_in. Qed.

Lemma fbase_jset_type v kv : fbase (jset "type" v kv) = fbase kv.
Proof. unfold fbase. rewrite !copy_prop_jset_src by reflexivity. now rewrite jdrop_jset_in. Qed.

(* pout of a node whose child was replaced *)
Lemma pout_set_items ns kv v :
  jget "type" kv = Some (JStr "array") ->
  pout ns (JObj (jset "items" v kv)) = JObj (jset "items" (pout ns v) (pbase kv (JStr "array"))).
Proof.
  intros T. unfold pout. rewrite pout_m_obj. unfold pout_obj. rewrite jget_jset_neq by reflexivity. rewrite T.
  cbn [String.eqb Ascii.eqb Bool.eqb]. rewrite osubj_map, jget_jset_eq. now rewrite pbase_jset.
Qed.

Lemma pout_set_values ns kv v :
  jget "type" kv = Some (JStr "map") ->
  pout ns (JObj (jset "values" v kv)) = JObj (jset "values" (pout ns v) (pbase kv (JStr "map"))).
Proof.
  intros T. unfold pout. rewrite pout_m_obj. unfold pout_obj. rewrite jget_jset_neq by reflexivity. rewrite T.
  cbn [String.eqb Ascii.eqb Bool.eqb]. rewrite osubj_map, jget_jset_eq. now rewrite pbase_jset.
Qed.

Lemma pout_set_field_type ns fkv v :
  pout_m (JObj (jset "type" v fkv)) PField ns = JObj (jset "type" (pout ns v) (jset "name" (attrj "name" fkv) (fbase fkv))).
Proof.
  rewrite pout_m_obj. unfold pout_obj, attrj. rewrite osubj_map, jget_jset_eq, fbase_jset_type.
  now rewrite jget_jset_neq by reflexivity.
Qed.

Lemma pout_field ns fkv ty :
  jget "type" fkv = Some ty ->
  pout_m (JObj fkv) PField ns = JObj (jset "type" (pout ns ty) (jset "name" (attrj "name" fkv) (fbase fkv))).
Proof. intros T. rewrite pout_m_obj. unfold pout_obj. now rewrite osubj_map, T. Qed.

(** ---- keys that never occur ---- *)

Lemma keys_free_drop ex kv : keys_free ex kv = true -> jdrop ex kv = kv.
Proof.
  unfold keys_free, jdrop. induction kv as [|p r IH]; cbn [forallb filter]; [reflexivity|].
  intros H. apply Bool.andb_true_iff in H. destruct H as [H1 H2]. now rewrite H1, IH.
Qed.

Lemma keys_free_jset ex k v kv : mem k ex = false -> keys_free ex kv = true -> keys_free ex (jset k v kv) = true.
Proof.
  intros M. unfold keys_free. induction kv as [|[k' v'] r IH]; cbn [jset forallb fst].
  - now rewrite M.
  - intros H. apply Bool.andb_true_iff in H. destruct H as [H1 H2].
    destruct (String.eqb k k') eqn:E; cbn [forallb fst].
    + now rewrite M, H2.
    + now rewrite H1, IH.
Qed.

Lemma keys_free_jdrop ex ex' kv : keys_free ex kv = true -> keys_free ex (jdrop ex' kv) = true.
Proof.
  unfold keys_free, jdrop. induction kv as [|p r IH]; cbn [forallb filter]; [reflexivity|].
  intros H. apply Bool.andb_true_iff in H. destruct H as [H1 H2].
  destruct (negb (mem (fst p) ex')); cbn [forallb]; [now rewrite H1, IH|now apply IH].
Qed.

Lemma keys_free_copy ex k src dst : mem k ex = false -> keys_free ex dst = true -> keys_free ex (copy_prop k src dst) = true.
Proof. intros M H. unfold copy_prop. destruct (jget k src); [now apply keys_free_jset|exact H]. Qed.

Lemma keys_free_keep ex full ns kv : mem "namespace" ex = false -> keys_free ex kv = true -> keys_free ex (keep_null_ns full ns kv) = true.
Proof. intros M H. unfold keep_null_ns. destruct (_ && _); [now apply keys_free_jset|exact H]. Qed.

Lemma pout_markerfree ns kv kv' :
  keys_free MARKER_KEYS kv = true -> pout ns (JObj kv) = JObj kv' -> keys_free MARKER_KEYS kv' = true.
Proof.
  intros K. unfold pout. rewrite pout_m_obj. unfold pout_obj.
  assert (B : forall ty, keys_free MARKER_KEYS (pbase kv ty) = true).
  { intros ty. unfold pbase. apply keys_free_copy; [reflexivity|]. apply keys_free_jset; [reflexivity|]. now apply keys_free_jdrop. }
  destruct (jget "type" kv) as [[| | | |t| |]|]; try discriminate.
  repeat match goal with |- context [if ?c then _ else _] => destruct c end; intros E; try discriminate E; injection E as <-;
    repeat first [apply keys_free_jset; [reflexivity|] | apply keys_free_keep; [reflexivity|] | apply B].
Qed.

Lemma spec_fullname_jset ns k v kv :
  String.eqb "name" k = false -> String.eqb "namespace" k = false -> spec_fullname ns (jset k v kv) = spec_fullname ns kv.
Proof. intros A B. unfold spec_fullname, spec_name, spec_space. now rewrite !jget_jset_neq by assumption. Qed.

Lemma spec_namespace_jset ns k v kv :
  String.eqb "name" k = false -> String.eqb "namespace" k = false -> spec_namespace ns (jset k v kv) = spec_namespace ns kv.
Proof. intros A B. unfold spec_namespace, spec_name, spec_space. now rewrite !jget_jset_neq by assumption. Qed.

Definition pfields ns fl := map (fun fd => pout_m fd PField ns) fl.

Lemma pout_record ns kv t :
  jget "type" kv = Some (JStr t) -> String.eqb t "record" || String.eqb t "error" = true ->
  pout ns (JObj kv) =
  JObj (jset "fields" (match jget "fields" kv with Some (JArr fl) => JArr (pfields (spec_namespace ns kv) fl) | _ => JArr [] end)
             (jset "name" (JStr (spec_fullname ns kv)) (keep_null_ns (spec_fullname ns kv) ns (pbase kv (JStr t))))).
Proof.
  intros T R. unfold pout. rewrite pout_m_obj. unfold pout_obj. rewrite T, jget_map.
  assert (N : String.eqb t "array" = false /\ String.eqb t "map" = false /\ String.eqb t "enum" = false /\ String.eqb t "fixed" = false).
  { apply Bool.orb_true_iff in R. destruct R as [R|R]; apply String.eqb_eq in R; subst t; repeat split; reflexivity. }
  destruct N as (-> & -> & -> & ->). rewrite R. destruct (jget "fields" kv) as [[| | | | |fl|]|]; cbn [option_map]; try reflexivity.
  now rewrite pout_fields.
Qed.

Lemma pout_set_fields ns kv t fs :
  jget "type" kv = Some (JStr t) -> String.eqb t "record" || String.eqb t "error" = true ->
  pout ns (JObj (jset "fields" (JArr fs) kv)) =
  JObj (jset "fields" (JArr (pfields (spec_namespace ns kv) fs))
             (jset "name" (JStr (spec_fullname ns kv)) (keep_null_ns (spec_fullname ns kv) ns (pbase kv (JStr t))))).
Proof.
  intros T R. rewrite (pout_record ns _ t); [|now rewrite jget_jset_neq by reflexivity|exact R].
  rewrite jget_jset_eq, spec_fullname_jset, spec_namespace_jset, pbase_jset by reflexivity. reflexivity.
Qed.

(** ---- inlining the table of separately parsed pieces = parsing the pieces written inline ---- *)
Section G.
  Variable rp : repo.
  Variable tbl : named.
  Hypothesis Hagree : forall q raw, jget q rp = Some raw ->
    exists kv', (forall ns, has_dot q = true \/ ns = "" -> pout ns raw = JObj kv') /\
                jget q tbl = Some (JObj kv') /\ keys_free MARKER_KEYS kv' = true.
  Hypothesis Hmiss : forall q, jget q rp = None -> jget q tbl = None.

  Definition G_spec (irec : ifufun) (nrec : inlfun) : Prop :=
    forall x ns d x' d', irec x ns d = POk (x', d') -> nrec (pout ns x) d = POk (pout ns x', d').

  Section Step.
    Variable irec : ifufun.
    Variable nrec : inlfun.
    Hypothesis IH : G_spec irec nrec.

    Lemma G_members ns l : forall d ps d',
      ifu_members irec ns l d = POk (ps, d') -> inline_list nrec (map (pout ns) l) d = POk (map (pout ns) ps, d').
    Proof.
      induction l as [|x r IHl]; intros d ps d' H; cbn [ifu_members] in H.
      - injection H as <- <-. reflexivity.
      - destruct (irec x ns d) as [[p d1]| | | |] eqn:E1; cbn [pbind] in H; try discriminate H.
        destruct (ifu_members irec ns r d1) as [[ps' d2]| | | |] eqn:E2; cbn [pbind] in H; try discriminate H.
        injection H as <- <-. cbn [map inline_list]. rewrite (IH _ _ _ _ _ E1). cbn [pbind].
        rewrite (IHl _ _ _ E2). reflexivity.
    Qed.

    Lemma G_fields ns l : forall d fs d',
      ifu_fields irec ns l d = POk (fs, d') -> inline_fields nrec (pfields ns l) d = POk (pfields ns fs, d').
    Proof.
      induction l as [|x r IHl]; intros d fs d' H; cbn [ifu_fields] in H.
      - injection H as <- <-. reflexivity.
      - destruct x as [| | | | | |fkv]; try discriminate H.
        destruct (jget "type" fkv) as [ty|] eqn:T; [|discriminate H].
        destruct (irec ty ns d) as [[p d1]| | | |] eqn:E1; cbn [pbind] in H; try discriminate H.
        destruct (ifu_fields irec ns r d1) as [[ps' d2]| | | |] eqn:E2; cbn [pbind] in H; try discriminate H.
        injection H as <- <-. unfold pfields. cbn [map inline_fields]. fold (pfields ns r). fold (pfields ns ps').
        rewrite (pout_field _ _ _ T). unfold inline_field. rewrite jget_jset_eq. rewrite (IH _ _ _ _ _ E1). cbn [pbind].
        rewrite (IHl _ _ _ E2). cbn [pbind]. rewrite jset_jset, pout_set_field_type. reflexivity.
    Qed.

    Lemma G_node : G_spec (ifu_node rp irec) (inline_node nrec tbl).
    Proof.
      intros x ns d x' d' H. destruct x as [| | | |s|l|kv]; cbn [ifu_node] in H; try (injection H as <- <-; reflexivity).
      - (* name *)
        rewrite <- is_prim_spec in H. unfold pout at 1, pout_m at 1. cbn [jfold].
        destruct (is_prim s) eqn:P.
        + injection H as <- <-. unfold pout, pout_m. cbn [jfold inline_node]. now rewrite P.
        + rewrite qualify_spec. cbn [inline_node].
          destruct (mem (spec_ref ns s) d) eqn:M.
          { injection H as <- <-. rewrite Bool.orb_true_r. unfold pout, pout_m. cbn [jfold]. now rewrite P, qualify_spec. }
          destruct (jget (spec_ref ns s) rp) as [raw|] eqn:R.
          * destruct (Hagree _ _ R) as (kv' & CF & TB & MF).
            assert (NP : is_prim (spec_ref ns s) = false).
            { rewrite <- qualify_spec. now apply qualify_nonprim. }
            rewrite NP, TB. cbn [orb]. rewrite (keys_free_drop _ _ MF).
            rewrite <- (CF ns); [now apply IH|].
            unfold spec_ref. destruct (has_dot s) eqn:D; [now left|]. destruct (String.eqb ns "") eqn:N.
            { right. now apply String.eqb_eq. } left. apply has_dot_join.
          * injection H as <- <-. rewrite (Hmiss _ R). unfold pout, pout_m. cbn [jfold]. rewrite P, qualify_spec.
            now destruct (is_prim (spec_ref ns s) || false).
      - (* union *)
        destruct (ifu_members irec ns l d) as [[ps d1]| | | |] eqn:E; cbn [pbind] in H; try discriminate H.
        injection H as <- <-. rewrite !pout_arr. cbn [inline_node]. now rewrite (G_members _ _ _ _ _ E).
      - (* dict *)
        unfold type_is in H. destruct (jget "type" kv) as [[| | | |t| |]|] eqn:T;
          try (injection H as <- <-; unfold pout; rewrite pout_m_obj; unfold pout_obj; rewrite T; reflexivity).
        destruct (String.eqb t "array") eqn:E1.
        { apply String.eqb_eq in E1. subst t. destruct (jget "items" kv) as [it|] eqn:I; [|discriminate H].
          destruct (irec it ns d) as [[p d1]| | | |] eqn:E; cbn [pbind] in H; try discriminate H. injection H as <- <-.
          rewrite (pout_set_items _ _ _ T).
          unfold pout at 1. rewrite pout_m_obj. unfold pout_obj. rewrite T. cbn [String.eqb Ascii.eqb Bool.eqb].
          rewrite osubj_map, I. fold (pout ns it). cbn [inline_node].
          rewrite (jget_jset_neq "type") by reflexivity. unfold pbase at 1. rewrite copy_prop_get by reflexivity. rewrite jget_jset_eq.
          cbn [String.eqb Ascii.eqb Bool.eqb]. rewrite jget_jset_eq. unfold define. cbn [is_named_type String.eqb Ascii.eqb Bool.eqb orb].
          rewrite (IH _ _ _ _ _ E). cbn [pbind]. now rewrite jset_jset. }
        destruct (String.eqb t "map") eqn:E2.
        { apply String.eqb_eq in E2. subst t. destruct (jget "values" kv) as [it|] eqn:I; [|discriminate H].
          destruct (irec it ns d) as [[p d1]| | | |] eqn:E; cbn [pbind] in H; try discriminate H. injection H as <- <-.
          rewrite (pout_set_values _ _ _ T).
          unfold pout at 1. rewrite pout_m_obj. unfold pout_obj. rewrite T. cbn [String.eqb Ascii.eqb Bool.eqb].
          rewrite osubj_map, I. fold (pout ns it). cbn [inline_node].
          rewrite (jget_jset_neq "type") by reflexivity. unfold pbase at 1. rewrite copy_prop_get by reflexivity. rewrite jget_jset_eq.
          cbn [String.eqb Ascii.eqb Bool.eqb]. rewrite jget_jset_eq. unfold define. cbn [is_named_type String.eqb Ascii.eqb Bool.eqb orb].
          rewrite (IH _ _ _ _ _ E). cbn [pbind]. now rewrite jset_jset. }
        destruct (String.eqb t "enum" || String.eqb t "fixed") eqn:E3.
        { injection H as <- <-.
          assert (Q : exists kv', pout ns (JObj kv) = JObj kv' /\ jget "type" kv' = Some (JStr t) /\
                                  jget "name" kv' = Some (JStr (spec_fullname ns kv))).
          { unfold pout. rewrite pout_m_obj. unfold pout_obj. rewrite T, E1, E2.
            apply Bool.orb_true_iff in E3. destruct E3 as [E3|E3]; apply String.eqb_eq in E3; subst t;
              cbn [String.eqb Ascii.eqb Bool.eqb]; eexists; (split; [reflexivity|]); fold (base_of kv (JStr "enum")); fold (base_of kv (JStr "fixed")); split; getk; reflexivity. }
          destruct Q as (kv' & -> & T' & N'). cbn [inline_node]. rewrite T', E1, E2.
          assert (R : String.eqb t "record" || String.eqb t "error" = false).
          { apply Bool.orb_true_iff in E3. destruct E3 as [E3|E3]; apply String.eqb_eq in E3; subst t; reflexivity. }
          rewrite R. unfold define, is_named_type. rewrite N'.
          apply Bool.orb_true_iff in E3. destruct E3 as [E3|E3]; rewrite E3, ?Bool.orb_true_r; reflexivity. }
        destruct (String.eqb t "record" || String.eqb t "error") eqn:E4.
        { assert (NT : is_named_type t = true).
          { unfold is_named_type. apply Bool.orb_true_iff in E4. destruct E4 as [E4|E4]; rewrite E4, ?Bool.orb_true_r; reflexivity. }
          set (full := spec_fullname ns kv) in *. set (ns' := spec_namespace ns kv) in *.
          assert (Q : forall fv, exists kv', JObj (jset "fields" fv (jset "name" (JStr full) (keep_null_ns full ns (pbase kv (JStr t))))) = JObj kv' /\
                     jget "type" kv' = Some (JStr t) /\ jget "name" kv' = Some (JStr full) /\ jget "fields" kv' = Some fv).
          { intros fv. eexists. split; [reflexivity|]. fold (base_of kv (JStr t)). repeat split; getk; reflexivity. }
          rewrite (pout_record ns kv t T E4). fold full. fold ns'.
          destruct (jget "fields" kv) as [[| | | | |fl|]|] eqn:F;
            try (injection H as <- <-; rewrite (pout_record ns kv t T E4), F; fold full; fold ns';
                 match goal with |- context [jset "fields" ?fv _] => destruct (Q fv) as (kv' & -> & T' & N' & F') end;
                 cbn [inline_node]; rewrite T', E1, E2, E4, F'; unfold define; rewrite NT, N';
                 cbn [pbind inline_fields]; now rewrite (jset_same _ _ _ F')).
          destruct (ifu_fields irec ns' fl (full :: d)) as [[fs d1]| | | |] eqn:E; cbn [pbind] in H; try discriminate H.
          injection H as <- <-. rewrite (pout_set_fields _ _ t _ T E4). fold full. fold ns'.
          destruct (Q (JArr (pfields ns' fl))) as (kv' & EQ & T' & N' & F').
          rewrite EQ. cbn [inline_node]. rewrite T', E1, E2, E4, F'. unfold define. rewrite NT, N'. cbn [pbind].
          rewrite (G_fields _ _ _ _ _ E). cbn [pbind]. injection EQ as <-. now rewrite jset_jset. }
        injection H as <- <-. unfold pout. rewrite pout_m_obj. unfold pout_obj. rewrite T, E1, E2.
        apply Bool.orb_false_iff in E3. destruct E3 as [E3 E3'].
        assert (E4' := E4). apply Bool.orb_false_iff in E4'. destruct E4' as [E5 E5'].
        rewrite E3, E3', E4.
        destruct (is_prim t) eqn:P; [|reflexivity].
        cbn [inline_node]. fold (base_of kv (JStr t)). rewrite base_type, E1, E2, E4.
        unfold define, is_named_type. now rewrite E3, E3', E5, E5'.
    Qed.
  End Step.
End G.

Theorem ifu_inline rp tbl
  (Hagree : forall q raw, jget q rp = Some raw ->
    exists kv', (forall ns, has_dot q = true \/ ns = "" -> pout ns raw = JObj kv') /\
                jget q tbl = Some (JObj kv') /\ keys_free MARKER_KEYS kv' = true)
  (Hmiss : forall q, jget q rp = None -> jget q tbl = None) :
  forall f, G_spec (ifu_rec f rp) (inline_rec f tbl).
Proof.
  induction f as [|f IH]; cbn [ifu_rec inline_rec].
  - intros x ns d x' d' H. discriminate H.
  - now apply G_node.
Qed.

(** ---- a larger table gives the same result when the result is self-contained ---- *)
Section Mono.
  Variable t1 t2 : named.
  Hypothesis Hsub : forall n v, jget n t1 = Some v -> jget n t2 = Some v.

  Definition mono_spec (r1 r2 : inlfun) : Prop :=
    forall p d q d', r1 p d = POk (q, d') -> forall dd, closed_m q PSchema d = Some dd -> r2 p d = POk (q, d') /\ dd = d'.

  Section MStep.
    Variable r1 r2 : inlfun.
    Hypothesis IH : mono_spec r1 r2.

    Lemma mono_list l : forall d ps d', inline_list r1 l d = POk (ps, d') ->
      forall dd, ofold (map (fun j => closed_m j PSchema) ps) d = Some dd -> inline_list r2 l d = POk (ps, d') /\ dd = d'.
    Proof.
      induction l as [|x r IHl]; intros d ps d' H dd C; cbn [inline_list] in *.
      - injection H as <- <-. cbn [map ofold] in C. injection C as <-. now split.
      - destruct (r1 x d) as [[p d1]| | | |] eqn:E1; cbn [pbind] in H; try discriminate H.
        destruct (inline_list r1 r d1) as [[ps' d2]| | | |] eqn:E2; cbn [pbind] in H; try discriminate H.
        injection H as <- <-. cbn [map ofold] in C.
        destruct (closed_m p PSchema d) as [dx|] eqn:CX; [|discriminate C].
        destruct (IH _ _ _ _ E1 _ CX) as [R ->]. rewrite R. cbn [pbind].
        destruct (IHl _ _ _ E2 _ C) as [R2 ->]. rewrite R2. now split.
    Qed.

    Lemma mono_fields l : forall d ps d', inline_fields r1 l d = POk (ps, d') ->
      forall dd, ofold (map (fun j => closed_m j PField) ps) d = Some dd -> inline_fields r2 l d = POk (ps, d') /\ dd = d'.
    Proof.
      induction l as [|x r IHl]; intros d ps d' H dd C; cbn [inline_fields] in *.
      - injection H as <- <-. cbn [map ofold] in C. injection C as <-. now split.
      - destruct (inline_field r1 x d) as [[p d1]| | | |] eqn:E1; cbn [pbind] in H; try discriminate H.
        destruct (inline_fields r1 r d1) as [[ps' d2]| | | |] eqn:E2; cbn [pbind] in H; try discriminate H.
        injection H as <- <-. cbn [map ofold] in C.
        destruct (closed_m p PField d) as [dx|] eqn:CX; [|discriminate C].
        assert (F : inline_field r2 x d = POk (p, d1) /\ dx = d1).
        { unfold inline_field in *. destruct x as [| | | | | |fkv]; try discriminate E1.
          destruct (jget "type" fkv) as [ty|]; [|discriminate E1].
          destruct (r1 ty d) as [[q dq]| | | |] eqn:E3; cbn [pbind] in E1; try discriminate E1.
          injection E1 as <- <-. rewrite closed_m_obj in CX. cbv beta iota zeta in CX. rewrite jget_jset_eq in CX.
          destruct (IH _ _ _ _ E3 _ CX) as [R ->]. rewrite R. now split. }
        destruct F as [F ->]. rewrite F. cbn [pbind].
        destruct (IHl _ _ _ E2 _ C) as [R2 ->]. rewrite R2. now split.
    Qed.

    Lemma mono_node : mono_spec (inline_node r1 t1) (inline_node r2 t2).
    Proof.
      intros p d q d' H dd C. destruct p as [| | | |s|l|kv]; cbn [inline_node] in *;
        try (injection H as <- <-; unfold closed_m in C; cbn [jfold] in C; injection C as <-; now split).
      - destruct (is_prim s || mem s d) eqn:E.
        + injection H as <- <-. unfold closed_m in C. cbn [jfold] in C. rewrite E in C. injection C as <-. now split.
        + destruct (jget s t1) as [[| | | | | |dkv]|] eqn:G; try discriminate H.
          * rewrite (Hsub _ _ G). eapply IH; eauto.
          * injection H as <- <-. unfold closed_m in C. cbn [jfold] in C. rewrite E in C. discriminate C.
      - destruct (inline_list r1 l d) as [[ps d1]| | | |] eqn:E; cbn [pbind] in H; try discriminate H.
        injection H as <- <-. rewrite closed_m_arr in C. destruct (mono_list _ _ _ _ E _ C) as [R ->]. rewrite R. now split.
      - destruct (jget "type" kv) as [[| | | |t| |]|] eqn:T; try discriminate H;
          try (injection H as <- <-; rewrite closed_m_obj in C; cbv beta iota zeta in C; rewrite T in C; injection C as <-; now split).
        destruct (String.eqb t "array") eqn:E1.
        { destruct (jget "items" kv) as [it|] eqn:G; [|discriminate H].
          destruct (r1 it (define kv t d)) as [[p d1]| | | |] eqn:E; cbn [pbind] in H; try discriminate H.
          injection H as <- <-. rewrite closed_m_obj in C. rewrite (jget_jset_neq "type") in C by reflexivity. rewrite T in C. cbv beta iota zeta in C.
          rewrite define_jset in C by reflexivity. rewrite E1, jget_jset_eq in C.
          destruct (IH _ _ _ _ E _ C) as [R ->]. rewrite R. now split. }
        destruct (String.eqb t "map") eqn:E2.
        { destruct (jget "values" kv) as [it|] eqn:G; [|discriminate H].
          destruct (r1 it (define kv t d)) as [[p d1]| | | |] eqn:E; cbn [pbind] in H; try discriminate H.
          injection H as <- <-. rewrite closed_m_obj in C. rewrite (jget_jset_neq "type") in C by reflexivity. rewrite T in C. cbv beta iota zeta in C.
          rewrite define_jset in C by reflexivity. rewrite E1, E2, jget_jset_eq in C.
          destruct (IH _ _ _ _ E _ C) as [R ->]. rewrite R. now split. }
        destruct (String.eqb t "record" || String.eqb t "error") eqn:E3.
        { match type of H with pbind ?e _ = _ => destruct e as [fl| | | |] eqn:EF; cbn [pbind] in H; try discriminate H end.
          destruct (inline_fields r1 fl (define kv t d)) as [[fs d1]| | | |] eqn:E; cbn [pbind] in H; try discriminate H.
          injection H as <- <-. rewrite closed_m_obj in C. rewrite (jget_jset_neq "type") in C by reflexivity. rewrite T in C. cbv beta iota zeta in C.
          rewrite define_jset in C by reflexivity. rewrite E1, E2, E3, jget_jset_eq in C. rewrite closed_m_arr in C.
          destruct (mono_fields _ _ _ _ E _ C) as [R ->]. cbn [pbind]. rewrite R. now split. }
        injection H as <- <-. rewrite closed_m_obj in C. cbv beta iota zeta in C. rewrite T, E1, E2, E3 in C. injection C as <-. now split.
    Qed.
  End MStep.

  Theorem inline_table_mono f : mono_spec (inline_rec f t1) (inline_rec f t2).
  Proof.
    induction f as [|f IH]; cbn [inline_rec].
    - intros p d q d' H. discriminate H.
    - now apply mono_node.
  Qed.
End Mono.

(** ---- the markers of the top level do not matter ---- *)
Lemma strip_arr l : strip_markers (JArr l) = JArr (map strip_markers l).
Proof. unfold strip_markers. rewrite jfold_arr. reflexivity. Qed.

Lemma strip_obj kv : strip_markers (JObj kv) = JObj (jdrop MARKER_KEYS kv).
Proof. reflexivity. Qed.

Lemma jdrop_jset_out {A} ex k (v : A) kv : mem k ex = false -> jdrop ex (jset k v kv) = jset k v (jdrop ex kv).
Proof.
  intros M. unfold jdrop. induction kv as [|[k' v'] r IH]; cbn [jset filter fst].
  - now rewrite M.
  - destruct (String.eqb k k') eqn:E; cbn [filter fst].
    + apply String.eqb_eq in E. subst k'. rewrite M. cbn [negb jset]. now rewrite String.eqb_refl.
    + rewrite IH. destruct (negb (mem k' ex)); cbn [jset]; [now rewrite E|reflexivity].
Qed.

Lemma jdrop_idem {A} ex (kv : list (string * A)) : jdrop ex (jdrop ex kv) = jdrop ex kv.
Proof.
  unfold jdrop. induction kv as [|p r IH]; cbn [filter]; [reflexivity|].
  destruct (negb (mem (fst p) ex)) eqn:E; cbn [filter]; [now rewrite E, IH|exact IH].
Qed.

Lemma canon_strip p : canon (strip_markers p) = canon p.
Proof.
  induction p as [| | | | |l IH|kv IH] using json_ind'; try reflexivity.
  - rewrite strip_arr, !canon_arr, map_map.
    assert (E : map (fun x => canon (strip_markers x)) l = map canon l); [|now rewrite E].
    induction IH as [|x r Hx Hr IHr]; [reflexivity|]. cbn [map]. now rewrite Hx, IHr.
  - rewrite strip_obj. unfold canon. rewrite !canon_m_obj. unfold canon_obj. rewrite !sub_map.
    rewrite !jget_jdrop_out by reflexivity. reflexivity.
Qed.

Lemma closed_strip p : forall d, closed_m (strip_markers p) PSchema d = closed_m p PSchema d.
Proof.
  induction p as [| | | | |l IH|kv IH] using json_ind'; intros d; try reflexivity.
  - rewrite strip_arr, !closed_m_arr, map_map. revert d.
    induction IH as [|x r Hx Hr IHr]; intros d; [reflexivity|]. cbn [map ofold]. rewrite Hx.
    destruct (closed_m x PSchema d); [apply IHr|reflexivity].
  - rewrite strip_obj, !closed_m_obj. cbv zeta. unfold define. rewrite !jget_jdrop_out by reflexivity. reflexivity.
Qed.

Lemma strip_tie t p : strip_markers (tie t p) = strip_markers p.
Proof.
  induction p as [| | | | |l IH|kv IH] using json_ind'; try reflexivity.
  - unfold tie. rewrite jfold_arr. fold (tie t). rewrite !strip_arr, map_map. f_equal.
    induction IH as [|x r Hx Hr IHr]; [reflexivity|]. cbn [map]. now rewrite Hx, IHr.
  - unfold tie. rewrite jfold_obj.
    destruct (jget "__named_schemas" kv) as [[| | | | | |]|]; try reflexivity.
    rewrite !strip_obj. now rewrite jdrop_jset_in.
Qed.

Lemma strip_mark kv : keys_free MARKER_KEYS kv = true -> strip_markers (mark true kv) = JObj kv.
Proof. intros K. unfold mark. rewrite strip_obj, !jdrop_jset_in by reflexivity. now rewrite keys_free_drop. Qed.

(* results of the inliner: a marker-free top level stays marker-free *)
Definition sfix_spec (r : inlfun) : Prop :=
  forall x d q d', r x d = POk (q, d') -> strip_markers x = x -> strip_markers q = q.

Lemma sfix_list r (IH : sfix_spec r) l : forall d ps d',
  inline_list r l d = POk (ps, d') -> map strip_markers l = l -> map strip_markers ps = ps.
Proof.
  induction l as [|x rr IHl]; intros d ps d' H S; cbn [inline_list] in H.
  - now injection H as <- <-.
  - destruct (r x d) as [[p d1]| | | |] eqn:E1; cbn [pbind] in H; try discriminate H.
    destruct (inline_list r rr d1) as [[ps' d2]| | | |] eqn:E2; cbn [pbind] in H; try discriminate H.
    injection H as <- <-. cbn [map] in *. injection S as S1 S2.
    now rewrite (IH _ _ _ _ E1 S1), (IHl _ _ _ E2 S2).
Qed.

Lemma inline_obj_shape r tbl kv d q d' :
  inline_node r tbl (JObj kv) d = POk (q, d') ->
  q = JObj kv \/ exists k v, q = JObj (jset k v kv) /\ mem k MARKER_KEYS = false.
Proof.
  cbn [inline_node]. intros H.
  destruct (jget "type" kv) as [[| | | |t| |]|]; try discriminate H; try (injection H as <- <-; now left).
  destruct (String.eqb t "array").
  { destruct (jget "items" kv); [|discriminate H]. destruct (r _ _) as [[p d1]| | | |]; cbn [pbind] in H; try discriminate H.
    injection H as <- <-. right. eauto. }
  destruct (String.eqb t "map").
  { destruct (jget "values" kv); [|discriminate H]. destruct (r _ _) as [[p d1]| | | |]; cbn [pbind] in H; try discriminate H.
    injection H as <- <-. right. eauto. }
  destruct (String.eqb t "record" || String.eqb t "error"); [|injection H as <- <-; now left].
  match type of H with pbind ?e _ = _ => destruct e as [fl| | | |]; cbn [pbind] in H; try discriminate H end.
  destruct (inline_fields r fl _) as [[fs d1]| | | |]; cbn [pbind] in H; try discriminate H.
  injection H as <- <-. right. eauto.
Qed.

Lemma sfix_rec f tbl : sfix_spec (inline_rec f tbl).
Proof.
  induction f as [|f IH]; intros x d q d' H S; [discriminate H|]. cbn [inline_rec] in H.
  destruct x as [| | | |s|l|kv]; try (cbn [inline_node] in H; injection H as <- <-; reflexivity).
  - cbn [inline_node] in H. destruct (is_prim s || mem s d); [now injection H as <- <-|].
    destruct (jget s tbl) as [[| | | | | |dkv]|]; try discriminate H.
    + eapply IH; [exact H|]. rewrite strip_obj. now rewrite jdrop_idem.
    + now injection H as <- <-.
  - cbn [inline_node] in H. destruct (inline_list _ l d) as [[ps d1]| | | |] eqn:E; cbn [pbind] in H; try discriminate H.
    injection H as <- <-. rewrite strip_arr in *. injection S as S. now rewrite (sfix_list _ IH _ _ _ _ E S).
  - rewrite strip_obj in S. injection S as S.
    destruct (inline_obj_shape _ _ _ _ _ _ H) as [->|(k & v & -> & M)]; rewrite strip_obj; [now rewrite S|].
    now rewrite jdrop_jset_out, S.
Qed.

(* inlining below a marked top level: same result, markers kept *)
Definition unstrip_spec (r : inlfun) : Prop :=
  forall p d q0 d', r (strip_markers p) d = POk (q0, d') -> exists q, r p d = POk (q, d') /\ strip_markers q = q0.

Lemma unstrip_list r (IH : unstrip_spec r) l : forall d ps0 d',
  inline_list r (map strip_markers l) d = POk (ps0, d') ->
  exists ps, inline_list r l d = POk (ps, d') /\ map strip_markers ps = ps0.
Proof.
  induction l as [|x rr IHl]; intros d ps0 d' H; cbn [map inline_list] in H.
  - injection H as <- <-. exists []. now split.
  - destruct (r (strip_markers x) d) as [[p d1]| | | |] eqn:E1; cbn [pbind] in H; try discriminate H.
    destruct (inline_list r (map strip_markers rr) d1) as [[ps' d2]| | | |] eqn:E2; cbn [pbind] in H; try discriminate H.
    injection H as <- <-. destruct (IH _ _ _ _ E1) as (q & R1 & S1). destruct (IHl _ _ _ E2) as (qs & R2 & S2).
    exists (q :: qs). cbn [inline_list map]. rewrite R1. cbn [pbind]. rewrite R2. cbn [pbind]. now rewrite S1, S2.
Qed.

Lemma unstrip_obj r tbl kv d q0 d' :
  inline_node r tbl (JObj (jdrop MARKER_KEYS kv)) d = POk (q0, d') ->
  exists q, inline_node r tbl (JObj kv) d = POk (q, d') /\ strip_markers q = q0.
Proof.
  cbn [inline_node]. unfold define. rewrite !jget_jdrop_out by reflexivity. intros H.
  destruct (jget "type" kv) as [[| | | |t| |]|]; try discriminate H;
    try (injection H as <- <-; eexists; split; [reflexivity|apply strip_obj]).
  destruct (String.eqb t "array").
  { destruct (jget "items" kv); [|discriminate H]. destruct (r _ _) as [[p d1]| | | |]; cbn [pbind] in *; try discriminate H.
    injection H as <- <-. eexists. split; [reflexivity|]. rewrite strip_obj. now rewrite jdrop_jset_out. }
  destruct (String.eqb t "map").
  { destruct (jget "values" kv); [|discriminate H]. destruct (r _ _) as [[p d1]| | | |]; cbn [pbind] in *; try discriminate H.
    injection H as <- <-. eexists. split; [reflexivity|]. rewrite strip_obj. now rewrite jdrop_jset_out. }
  destruct (String.eqb t "record" || String.eqb t "error"); [|injection H as <- <-; eexists; split; [reflexivity|apply strip_obj]].
  match type of H with pbind ?e _ = _ => destruct e as [fl| | | |]; cbn [pbind] in *; try discriminate H end.
  destruct (inline_fields r fl _) as [[fs d1]| | | |]; cbn [pbind] in *; try discriminate H.
  injection H as <- <-. eexists. split; [reflexivity|]. rewrite strip_obj. now rewrite jdrop_jset_out.
Qed.

Lemma unstrip_rec f tbl : unstrip_spec (inline_rec f tbl).
Proof.
  induction f as [|f IH]; intros p d q0 d' H; [discriminate H|].
  destruct p as [| | | |s|l|kv];
    try (exists q0; split; [exact H|]; eapply (sfix_rec (S f)); [exact H|reflexivity]).
  - rewrite strip_arr in H. cbn [inline_rec inline_node] in *.
    destruct (inline_list _ (map strip_markers l) d) as [[ps d1]| | | |] eqn:E; cbn [pbind] in H; try discriminate H.
    injection H as <- <-. destruct (unstrip_list _ IH _ _ _ _ E) as (qs & R & S). rewrite R. cbn [pbind].
    eexists. split; [reflexivity|]. now rewrite strip_arr, S.
  - rewrite strip_obj in H. cbn [inline_rec] in *. now apply unstrip_obj.
Qed.

Lemma inline_rec_fuel f tbl : forall p d r, inline_rec f tbl p d = POk r -> inline_rec (S f) tbl p d = POk r.
Proof.
  induction f as [|f IH]; intros p d r H; [discriminate H|].
  assert (L : forall l d r, inline_list (inline_rec f tbl) l d = POk r -> inline_list (inline_rec (S f) tbl) l d = POk r).
  { induction l as [|x rr IHl]; intros d0 r0 H0; [exact H0|]. cbn [inline_list] in *.
    destruct (inline_rec f tbl x d0) as [[p1 d1]| | | |] eqn:E1; cbn [pbind] in H0; try discriminate H0.
    rewrite (IH _ _ _ E1). cbn [pbind].
    destruct (inline_list (inline_rec f tbl) rr d1) as [[ps d2]| | | |] eqn:E2; cbn [pbind] in H0; try discriminate H0.
    now rewrite (IHl _ _ E2). }
  assert (F : forall l d r, inline_fields (inline_rec f tbl) l d = POk r -> inline_fields (inline_rec (S f) tbl) l d = POk r).
  { induction l as [|x rr IHl]; intros d0 r0 H0; [exact H0|]. cbn [inline_fields] in *.
    destruct (inline_field (inline_rec f tbl) x d0) as [[p1 d1]| | | |] eqn:E1; cbn [pbind] in H0; try discriminate H0.
    assert (E1' : inline_field (inline_rec (S f) tbl) x d0 = POk (p1, d1)).
    { unfold inline_field in *. destruct x as [| | | | | |fkv]; try discriminate E1. destruct (jget "type" fkv); [|discriminate E1].
      destruct (inline_rec f tbl j d0) as [[q dq]| | | |] eqn:E3; cbn [pbind] in E1; try discriminate E1. now rewrite (IH _ _ _ E3). }
    rewrite E1'. cbn [pbind].
    destruct (inline_fields (inline_rec f tbl) rr d1) as [[ps d2]| | | |] eqn:E2; cbn [pbind] in H0; try discriminate H0.
    now rewrite (IHl _ _ E2). }
  remember (S f) as f1. cbn [inline_rec]. subst f1. cbn [inline_rec] in H.
  destruct p as [| | | |s|l|kv]; cbn [inline_node] in *; try exact H.
  - destruct (is_prim s || mem s d); [exact H|]. destruct (jget s tbl) as [[| | | | | |dkv]|]; try exact H. now apply IH.
  - destruct (inline_list (inline_rec f tbl) l d) as [[ps d1]| | | |] eqn:E; cbn [pbind] in H; try discriminate H. now rewrite (L _ _ _ E).
  - destruct (jget "type" kv) as [[| | | |t| |]|]; try exact H.
    destruct (String.eqb t "array").
    { destruct (jget "items" kv); [|exact H]. destruct (inline_rec f tbl j _) as [[p1 d1]| | | |] eqn:E; cbn [pbind] in H; try discriminate H. now rewrite (IH _ _ _ E). }
    destruct (String.eqb t "map").
    { destruct (jget "values" kv); [|exact H]. destruct (inline_rec f tbl j _) as [[p1 d1]| | | |] eqn:E; cbn [pbind] in H; try discriminate H. now rewrite (IH _ _ _ E). }
    destruct (String.eqb t "record" || String.eqb t "error"); [|exact H].
    match type of H with pbind ?e _ = _ => destruct e as [fl| | | |]; cbn [pbind] in *; try discriminate H end.
    destruct (inline_fields (inline_rec f tbl) fl _) as [[fs d1]| | | |] eqn:E; cbn [pbind] in H; try discriminate H. now rewrite (F _ _ _ E).
Qed.

Lemma inline_rec_fuel_le f f' tbl p d r : (f <= f')%nat -> inline_rec f tbl p d = POk r -> inline_rec f' tbl p d = POk r.
Proof. induction 1; [auto|]. intros H0. apply inline_rec_fuel. auto. Qed.

(** ---- the pieces ---- *)



Lemma markerfree_arr l : markerfree (JArr l) = forallb markerfree l.
Proof. unfold markerfree. rewrite jfold_arr. now rewrite forallb_map. Qed.

Lemma markerfree_obj kv : markerfree (JObj kv) = keys_free MARKER_KEYS kv.
Proof. reflexivity. Qed.

Lemma keys_free_has ex kv k : keys_free ex kv = true -> mem k ex = true -> jhas k kv = false.
Proof.
  unfold keys_free, jhas. induction kv as [|[k' v'] r IH]; cbn [forallb jget fst]; intros H M; [reflexivity|].
  apply Bool.andb_true_iff in H. destruct H as [H1 H2].
  destruct (String.eqb k k') eqn:E; [|now apply IH]. apply String.eqb_eq in E. subst k'. rewrite M in H1. discriminate H1.
Qed.

Lemma markerfree_unmarked j : markerfree j = true -> unmarked j = true.
Proof.
  induction j as [| | | | |l IH|kv IH] using json_ind'; intros H; try reflexivity.
  - rewrite markerfree_arr in H. rewrite unmarked_arr. rewrite forallb_forall in *.
    intros x I. rewrite Forall_forall in IH. apply IH; auto.
  - rewrite markerfree_obj in H. rewrite unmarked_obj. now rewrite (keys_free_has _ _ "__fastavro_parsed" H).
Qed.

Lemma pout_obj_shape ns kv : pout ns (JObj kv) = JNull \/ exists kv', pout ns (JObj kv) = JObj kv'.
Proof.
  unfold pout. rewrite pout_m_obj. unfold pout_obj.
  destruct (jget "type" kv) as [[| | | |t| |]|]; try (now left).
  repeat match goal with |- context [if ?c then _ else _] => destruct c end; try (now left); right; eauto.
Qed.

Lemma strip_pout ns j : (forall l, j <> JArr l) -> markerfree j = true -> strip_markers (pout ns j) = pout ns j.
Proof.
  intros NA M. destruct j as [| | | |s|l|kv]; try reflexivity.
  - unfold pout, pout_m. cbn [jfold]. now destruct (is_prim s).
  - exfalso. now apply (NA l).
  - destruct (pout_obj_shape ns kv) as [E|(kv' & E)]; rewrite E; [reflexivity|].
    rewrite strip_obj, keys_free_drop; [reflexivity|]. eapply pout_markerfree; eauto.
Qed.

Lemma parse_schema_rec_pout f : forall j st p st',
  markerfree j = true -> parse_schema_rec f j st = POk (p, st') -> strip_markers p = pout "" j.
Proof.
  induction f as [|f IH]; intros j st p st' M H; [discriminate H|].
  assert (RUN : forall j0, (forall l, j0 <> JArr l) -> markerfree j0 = true -> run_parse f j0 st = POk (p, st') -> strip_markers p = pout "" j0).
  { intros j0 NA M0 R. unfold run_parse in R. destruct (parse_rec_pout f _ _ _ _ _ _ _ R) as [->|(_ & kv' & Q & ->)].
    - now apply strip_pout.
    - rewrite Q. apply strip_mark. destruct j0 as [| | | |s|l|kv]; try discriminate Q.
      + unfold pout, pout_m in Q. cbn [jfold] in Q. destruct (is_prim s); discriminate Q.
      + eapply pout_markerfree; eauto. }
  cbn [parse_schema_rec] in H. destruct j as [| | | | |l|kv]; try (apply RUN; [discriminate|exact M|exact H]).
  - destruct (parse_tops (parse_schema_rec f) l st) as [[ps st1]| | | |] eqn:E; cbn [pbind] in H; try discriminate H.
    injection H as <- <-. rewrite markerfree_arr in M. rewrite strip_arr, pout_arr. f_equal.
    clear RUN. revert st ps st1 E. induction l as [|m r IHl]; intros st ps st1 E; cbn [parse_tops] in E.
    + now injection E as <- <-.
    + cbn [forallb] in M. apply Bool.andb_true_iff in M. destruct M as [M1 M2].
      destruct (parse_schema_rec f m st) as [[p1 st2]| | | |] eqn:E1; cbn [pbind] in E; try discriminate E.
      destruct (parse_tops (parse_schema_rec f) r st2) as [[ps2 st3]| | | |] eqn:E2; cbn [pbind] in E; try discriminate E.
      injection E as <- <-. cbn [map]. now rewrite (IH _ _ _ _ M1 E1), (IHl M2 _ _ _ E2).
  - pose proof (markerfree_unmarked _ M) as U. rewrite unmarked_obj in U. apply Bool.negb_true_iff in U. rewrite U in H.
    apply RUN; [discriminate|exact M|exact H].
Qed.

(* the table: names the schema does not define keep their entries *)
Lemma parse_schema_rec_keeps f : forall j st p st',
  unmarked j = true -> parse_schema_rec f j st = POk (p, st') -> NoDup (st_names st) ->
  forall n, ~ In n (spec_names "" j) -> jget n (st_tbl st') = jget n (st_tbl st).
Proof.
  induction f as [|f IH]; intros j st p st' U H ND n NI; [discriminate H|].
  assert (RUN : forall j0, run_parse f j0 st = POk (p, st') -> ~ In n (spec_names "" j0) -> jget n (st_tbl st') = jget n (st_tbl st)).
  { intros j0 R NI0. unfold run_parse in R. exact (proj1 (parse_rec_entries_pout f _ _ _ _ _ _ _ R ND) n NI0). }
  cbn [parse_schema_rec] in H. destruct j as [| | | | |l|kv]; try (exact (RUN _ H NI)).
  - destruct (parse_tops (parse_schema_rec f) l st) as [[ps st1]| | | |] eqn:E; cbn [pbind] in H; try discriminate H.
    injection H as <- <-. rewrite unmarked_arr in U. unfold spec_names in NI. rewrite spec_names_m_arr in NI. fold (spec_names "") in NI.
    clear RUN. revert st ps st1 E ND. induction l as [|m r IHl]; intros st ps st1 E ND; cbn [parse_tops] in E.
    + now injection E as <- <-.
    + cbn [forallb] in U. apply Bool.andb_true_iff in U. destruct U as [U1 U2].
      destruct (parse_schema_rec f m st) as [[p1 st2]| | | |] eqn:E1; cbn [pbind] in E; try discriminate E.
      destruct (parse_tops (parse_schema_rec f) r st2) as [[ps2 st3]| | | |] eqn:E2; cbn [pbind] in E; try discriminate E.
      injection E as <- <-. cbn [map concat] in NI.
      rewrite (IHl U2 (fun X => NI (in_or_app _ _ _ (or_intror X))) _ _ _ E2 (proj2 (parse_schema_rec_names f _ _ _ _ U1 E1) ND)).
      apply (IH _ _ _ _ U1 E1 ND). intros X. apply NI. apply in_or_app. now left.
  - rewrite unmarked_obj in U. apply Bool.negb_true_iff in U. rewrite U in H. exact (RUN _ H NI).
Qed.

Lemma parse_schema_keeps f j t p t' :
  unmarked j = true -> parse_schema f j t = POk (p, t') ->
  forall n, ~ In n (spec_names "" j) -> jget n t' = jget n t.
Proof.
  unfold parse_schema. intros U H n NI.
  destruct (parse_schema_rec f j (mkst [] t)) as [[p0 st1]| | | |] eqn:E; cbn [pbind] in H; try discriminate H.
  injection H as <- <-. apply (parse_schema_rec_keeps f _ _ _ _ U E (NoDup_nil _) n NI).
Qed.

Lemma nodup_app_l {A} (a b : list A) : NoDup (a ++ b) -> NoDup a.
Proof.
  induction a as [|x a IH]; [constructor|]. cbn [app]. intros N. inversion N as [|? ? NI N']; subst.
  constructor; [|auto]. intros X. apply NI. apply in_or_app. now left.
Qed.

Lemma nodup_app_r {A} (a b : list A) : NoDup (a ++ b) -> NoDup b.
Proof. induction a as [|x a IH]; [auto|]. cbn [app]. intros N. inversion N; auto. Qed.

(* a piece's own entry *)
Lemma piece_defs kv : is_named_kv kv = true -> In (spec_fullname "" kv, ("", JObj kv)) (defs_of "" (JObj kv)) /\ In (spec_fullname "" kv) (spec_names "" (JObj kv)).
Proof.
  unfold is_named_kv, defs_of, spec_names. rewrite defs_of_m_obj, spec_names_m_obj. cbv zeta. unfold type_is.
  destruct (jget "type" kv) as [[| | | |t| |]|]; try discriminate.
  destruct (String.eqb t "array") eqn:E1; [apply String.eqb_eq in E1; subst t; discriminate|].
  destruct (String.eqb t "map") eqn:E2; [apply String.eqb_eq in E2; subst t; discriminate|].
  intros H. destruct (String.eqb t "enum" || String.eqb t "fixed") eqn:E3; [split; now left|].
  apply Bool.orb_false_iff in E3. destruct E3 as [E3 E4]. rewrite E3, E4, !Bool.orb_false_r in H. rewrite H. split; now left.
Qed.

Lemma piece_entry f c t0 pc t1 :
  piece_ok c = true -> parse_schema f c t0 = POk (pc, t1) ->
  jget (piece_name c) t1 = Some (pout "" c) /\ In (piece_name c) (spec_names "" c) /\
  (forall n, ~ In n (spec_names "" c) -> jget n t1 = jget n t0).
Proof.
  intros OK H. destruct c as [| | | | | |kv]; try discriminate OK. cbn [piece_ok piece_name] in *.
  apply Bool.andb_true_iff in OK. destruct OK as [NM KF].
  assert (U : unmarked (JObj kv) = true) by (apply markerfree_unmarked; exact KF).
  destruct (piece_defs _ NM) as [D1 D2]. split; [|split; [exact D2|now apply (parse_schema_keeps f _ _ _ _ U H)]].
  unfold parse_schema in H.
  destruct (parse_schema_rec f (JObj kv) (mkst [] t0)) as [[p0 st1]| | | |] eqn:E; cbn [pbind] in H; try discriminate H.
  injection H as <- <-. destruct f as [|f]; [discriminate E|]. cbn [parse_schema_rec] in E.
  rewrite unmarked_obj in U. apply Bool.negb_true_iff in U. rewrite U in E. unfold run_parse in E.
  exact (proj2 (parse_rec_entries_pout f _ _ _ _ _ _ _ E (NoDup_nil _)) _ _ _ D1).
Qed.

Lemma piece_entry_name c : piece_ok c = true -> In (piece_name c) (spec_names "" c).
Proof.
  destruct c as [| | | | | |kv]; try discriminate. cbn [piece_ok piece_name]. intros OK.
  apply Bool.andb_true_iff in OK. now apply piece_defs.
Qed.

Lemma pieces_entries : forall children t0 cs t1,
  parse_pieces children t0 = POk (cs, t1) -> forallb piece_ok children = true ->
  NoDup (concat (map (spec_names "") children)) ->
  (forall c, In c children -> jget (piece_name c) t1 = Some (pout "" c)) /\
  (forall n, ~ In n (concat (map (spec_names "") children)) -> jget n t1 = jget n t0).
Proof.
  induction children as [|x r IH]; intros t0 cs t1 H OK ND; cbn [parse_pieces] in H.
  - injection H as <- <-. split; [intros c []|reflexivity].
  - cbn [forallb] in OK. apply Bool.andb_true_iff in OK. destruct OK as [O1 O2].
    destruct (parse_schema (fuel_for x) x t0) as [[p ta]| | | |] eqn:E1; cbn [pbind] in H; try discriminate H.
    destruct (parse_pieces r ta) as [[ps tb]| | | |] eqn:E2; cbn [pbind] in H; try discriminate H.
    injection H as <- <-. cbn [map concat] in ND.
    destruct (piece_entry _ _ _ _ _ O1 E1) as (A1 & A2 & A3).
    destruct (IH _ _ _ E2 O2 (nodup_app_r _ _ ND)) as [B1 B2].
    split.
    + intros c [<-|I]; [|now apply B1]. rewrite B2; [exact A1|].
      intros X. eapply (nodup_app_disjoint _ _ _ ND); eauto.
    + intros n NI. cbn [map concat] in NI. rewrite B2 by (intros X; apply NI; apply in_or_app; now right).
      apply A3. intros X. apply NI. apply in_or_app. now left.
Qed.

(* a named type with a dotted full name reads the same in every namespace *)
Lemma fullname_ctxfree ns kv :
  has_dot (spec_fullname "" kv) = true ->
  spec_fullname ns kv = spec_fullname "" kv /\ spec_namespace ns kv = spec_namespace "" kv.
Proof.
  unfold spec_fullname, spec_namespace, spec_space.
  destruct (has_dot (spec_name kv)) eqn:D; [now split|].
  destruct (jget "namespace" kv) as [[| | | |s| |]|]; try (now split).
  cbn [String.eqb]. intros H. rewrite D in H. discriminate H.
Qed.

Lemma keep_dotted full ns kv : has_dot full = true -> keep_null_ns full ns kv = kv.
Proof. intros D. unfold keep_null_ns. rewrite D. cbn [negb]. now rewrite Bool.andb_false_r. Qed.

Lemma pout_ctxfree ns kv :
  is_named_kv kv = true -> has_dot (spec_fullname "" kv) = true -> pout ns (JObj kv) = pout "" (JObj kv).
Proof.
  intros NM D. destruct (fullname_ctxfree ns kv D) as [F N].
  unfold pout. rewrite !pout_m_obj. unfold pout_obj.
  unfold is_named_kv, type_is in NM.
  destruct (jget "type" kv) as [[| | | |t| |]|]; try discriminate NM.
  destruct (String.eqb t "array") eqn:E1; [apply String.eqb_eq in E1; subst t; discriminate|].
  destruct (String.eqb t "map") eqn:E2; [apply String.eqb_eq in E2; subst t; discriminate|].
  cbv zeta. rewrite F, N, !keep_dotted by exact D. reflexivity.
Qed.

Lemma pout_named_obj ns kv : is_named_kv kv = true -> exists kv', pout ns (JObj kv) = JObj kv'.
Proof.
  intros NM. unfold pout. rewrite pout_m_obj. unfold pout_obj. unfold is_named_kv, type_is in NM.
  destruct (jget "type" kv) as [[| | | |t| |]|]; try discriminate NM.
  destruct (String.eqb t "array") eqn:E1; [apply String.eqb_eq in E1; subst t; discriminate|].
  destruct (String.eqb t "map") eqn:E2; [apply String.eqb_eq in E2; subst t; discriminate|].
  destruct (String.eqb t "enum") eqn:E3; [eauto|]. destruct (String.eqb t "fixed") eqn:E4; [eauto|].
  rewrite !Bool.orb_false_r in NM. rewrite NM. eauto.
Qed.

Lemma jget_repo_of q children raw : jget q (repo_of children) = Some raw -> In raw children /\ piece_name raw = q.
Proof.
  unfold repo_of. induction children as [|c r IH]; cbn [map jget fst snd]; [discriminate|].
  destruct (String.eqb q (piece_name c)) eqn:E.
  - intros X. injection X as <-. apply String.eqb_eq in E. split; [now left|auto].
  - intros X. destruct (IH X). split; [now right|assumption].
Qed.

Lemma jget_tbl_of q children :
  jget q (map (fun c => (piece_name c, pout "" c)) children) = option_map (pout "") (jget q (repo_of children)).
Proof.
  unfold repo_of. induction children as [|c r IH]; cbn [map jget fst snd option_map]; [reflexivity|].
  destruct (String.eqb q (piece_name c)); [reflexivity|exact IH].
Qed.

Lemma ifu_markerfree rp (HR : forall q raw, jget q rp = Some raw -> markerfree raw = true) f :
  forall x ns d x' d', markerfree x = true -> ifu_rec f rp x ns d = POk (x', d') -> markerfree x' = true.
Proof.
  induction f as [|f IH]; intros x ns d x' d' M H; [discriminate H|]. cbn [ifu_rec] in H.
  destruct x as [| | | |s|l|kv]; cbn [ifu_node] in H; try (now injection H as <- <-).
  - destruct (spec_is_prim s); [now injection H as <- <-|]. destruct (mem _ d); [now injection H as <- <-|].
    destruct (jget _ rp) as [raw|] eqn:R; [|now injection H as <- <-]. eapply IH; [|exact H]. eauto.
  - destruct (ifu_members (ifu_rec f rp) ns l d) as [[ps d1]| | | |] eqn:E; cbn [pbind] in H; try discriminate H.
    injection H as <- <-. rewrite markerfree_arr in *. revert d ps d1 E.
    induction l as [|m r IHl]; intros d ps d1 E; cbn [ifu_members] in E; [now injection E as <- <-|].
    cbn [forallb] in M. apply Bool.andb_true_iff in M. destruct M as [M1 M2].
    destruct (ifu_rec f rp m ns d) as [[p1 da]| | | |] eqn:E1; cbn [pbind] in E; try discriminate E.
    destruct (ifu_members (ifu_rec f rp) ns r da) as [[ps2 db]| | | |] eqn:E2; cbn [pbind] in E; try discriminate E.
    injection E as <- <-. cbn [forallb]. now rewrite (IH _ _ _ _ _ M1 E1), (IHl M2 _ _ _ E2).
  - rewrite markerfree_obj in M.
    assert (S : forall k v, mem k MARKER_KEYS = false -> markerfree (JObj (jset k v kv)) = true).
    { intros k v MK. rewrite markerfree_obj. now apply keys_free_jset. }
    destruct (type_is kv "array").
    { destruct (jget "items" kv); [|discriminate H]. destruct (ifu_rec f rp _ ns d) as [[p d1]| | | |]; cbn [pbind] in H; try discriminate H.
      injection H as <- <-. now apply S. }
    destruct (type_is kv "map").
    { destruct (jget "values" kv); [|discriminate H]. destruct (ifu_rec f rp _ ns d) as [[p d1]| | | |]; cbn [pbind] in H; try discriminate H.
      injection H as <- <-. now apply S. }
    destruct (type_is kv "enum" || type_is kv "fixed"); [now injection H as <- <-|].
    destruct (type_is kv "record" || type_is kv "error"); [|now injection H as <- <-].
    destruct (jget "fields" kv) as [[| | | | |fl|]|]; try (now injection H as <- <-).
    destruct (ifu_fields _ _ _ _) as [[fs d1]| | | |]; cbn [pbind] in H; try discriminate H.
    injection H as <- <-. now apply S.
Qed.

(** ---- C12_piecewise ---- *)
Theorem piecewise_inline children parent cs t1 f p t g whole d f' pw tw :
  forallb piece_ok children = true -> markerfree parent = true ->
  NoDup (concat (map (spec_names "") children) ++ spec_names "" parent) ->
  parse_pieces children [] = POk (cs, t1) ->
  parse_schema f parent t1 = POk (p, t) ->
  ifu_rec g (repo_of children) parent "" [] = POk (whole, d) ->
  parse_schema f' whole [] = POk (pw, tw) ->
  exists q, inline_rec g t p [] = POk (q, d) /\
            strip_markers q = strip_markers pw /\ canon q = canon pw /\ closed q = true.
Proof.
  intros OK MP ND PP PS IFU PW.
  set (rp := repo_of children) in *. set (tblc := map (fun c => (piece_name c, pout "" c)) children).
  assert (OKc : forall c, In c children -> piece_ok c = true) by (now apply forallb_forall).
  (* the table of the pieces against the repository *)
  assert (Hagree : forall q raw, jget q rp = Some raw ->
            exists kv', (forall ns, has_dot q = true \/ ns = "" -> pout ns raw = JObj kv') /\
                        jget q tblc = Some (JObj kv') /\ keys_free MARKER_KEYS kv' = true).
  { intros q raw R. destruct (jget_repo_of _ _ _ R) as [I N]. pose proof (OKc _ I) as O.
    destruct raw as [| | | | | |kv]; try discriminate O. cbn [piece_ok piece_name] in O, N.
    apply Bool.andb_true_iff in O. destruct O as [NM KF].
    destruct (pout_named_obj "" kv NM) as (kv' & Q). exists kv'. split; [|split].
    - intros ns [D| ->]; [|exact Q]. rewrite <- Q. apply pout_ctxfree; [exact NM|now rewrite N].
    - unfold tblc. rewrite jget_tbl_of. fold rp. rewrite R. cbn [option_map]. now rewrite Q.
    - eapply pout_markerfree; eauto. }
  assert (Hmiss : forall q, jget q rp = None -> jget q tblc = None).
  { intros q R. unfold tblc. rewrite jget_tbl_of. fold rp. now rewrite R. }
  pose proof (ifu_inline rp tblc Hagree Hmiss g _ _ _ _ _ IFU) as G.
  (* the shared table contains the pieces' table *)
  destruct (pieces_entries _ _ _ _ PP OK (nodup_app_l _ _ ND)) as [B1 B2].
  assert (UP : unmarked parent = true) by now apply markerfree_unmarked.
  assert (Hsub : forall n v, jget n tblc = Some v -> jget n t = Some v).
  { intros n v X. unfold tblc in X. rewrite jget_tbl_of in X. fold rp in X.
    destruct (jget n rp) as [raw|] eqn:R; [|discriminate X]. cbn [option_map] in X. injection X as <-.
    destruct (jget_repo_of _ _ _ R) as [I N]. subst n.
    pose proof (piece_entry_name _ (OKc _ I)) as IN.
    rewrite (parse_schema_keeps f _ _ _ _ UP PS).
    - now apply B1.
    - intros X. eapply (nodup_app_disjoint _ _ _ ND); [|exact X]. apply in_concat. exists (spec_names "" raw). split; [now apply in_map|exact IN]. }
  (* the all-in-one schema *)
  assert (MW : markerfree whole = true).
  { eapply (ifu_markerfree rp); [|exact MP|exact IFU]. intros q raw R. destruct (jget_repo_of _ _ _ R) as [I _].
    pose proof (OKc _ I) as O. destruct raw as [| | | | | |kv]; try discriminate O. cbn [piece_ok] in O.
    apply Bool.andb_true_iff in O. now rewrite markerfree_obj. }
  assert (UW : unmarked whole = true) by now apply markerfree_unmarked.
  assert (SW : strip_markers pw = pout "" whole).
  { unfold parse_schema in PW. destruct (parse_schema_rec f' whole (mkst [] [])) as [[p0 st1]| | | |] eqn:E; cbn [pbind] in PW; try discriminate PW.
    injection PW as <- <-. rewrite strip_tie. eapply parse_schema_rec_pout; eauto. }
  assert (SP : strip_markers p = pout "" parent).
  { unfold parse_schema in PS. destruct (parse_schema_rec f parent (mkst [] t1)) as [[p0 st1]| | | |] eqn:E; cbn [pbind] in PS; try discriminate PS.
    injection PS as <- <-. rewrite strip_tie. eapply parse_schema_rec_pout; eauto. }
  pose proof (parsed_is_closed _ _ _ _ UW PW) as CW. unfold closed in CW.
  destruct (closed_m pw PSchema []) as [dd|] eqn:CW'; [|discriminate CW].
  rewrite <- closed_strip, SW in CW'.
  destruct (inline_table_mono tblc t Hsub g _ _ _ _ G _ CW') as [G2 ->].
  rewrite <- SP in G2. destruct (unstrip_rec g t _ _ _ _ G2) as (q & Q1 & Q2).
  exists q. split; [exact Q1|]. split; [now rewrite Q2, SW|]. split.
  - now rewrite <- (canon_strip q), Q2, <- SW, canon_strip.
  - unfold closed. now rewrite <- closed_strip, Q2, CW'.
Qed.

(* with the inliner's own fuel: _inline_named_schemas(p, named_schemas) *)
Corollary piecewise_inline_auto children parent cs t1 f p t whole d f' pw tw :
  forallb piece_ok children = true -> markerfree parent = true ->
  NoDup (concat (map (spec_names "") children) ++ spec_names "" parent) ->
  parse_pieces children [] = POk (cs, t1) ->
  parse_schema f parent t1 = POk (p, t) ->
  ifu_rec (inline_fuel t p) (repo_of children) parent "" [] = POk (whole, d) ->
  parse_schema f' whole [] = POk (pw, tw) ->
  exists q, inline t p = POk q /\
            strip_markers q = strip_markers pw /\ canon q = canon pw /\ closed q = true.
Proof.
  intros OK MP ND PP PS IFU PW.
  destruct (piecewise_inline _ _ _ _ _ _ _ _ _ _ _ _ _ OK MP ND PP PS IFU PW) as (q & Q & R).
  exists q. split; [|exact R]. unfold inline. now rewrite Q.
Qed.

Lemma nodupb_NoDup l : nodupb l = true -> NoDup l.
Proof.
  induction l as [|x r IH]; cbn [nodupb]; intros H; constructor; apply Bool.andb_true_iff in H; destruct H as [H1 H2]; [|auto].
  intros I. apply Bool.negb_true_iff in H1. unfold mem in H1.
  assert (E : existsb (String.eqb x) r = true) by (apply existsb_exists; exists x; split; [exact I|apply String.eqb_refl]).
  rewrite E in H1. discriminate H1.
Qed.

Lemma carried_strip p : carried_names (strip_markers p) = carried_names p.
Proof.
  induction p as [| | | | |l IH|kv IH] using json_ind'; try reflexivity.
  - rewrite strip_arr. unfold carried_names. rewrite !carried_names_m_arr, map_map. f_equal.
    induction IH as [|x r Hx Hr IHr]; [reflexivity|]. cbn [map]. unfold carried_names in Hx. now rewrite Hx, IHr.
  - rewrite strip_obj. unfold carried_names. rewrite !carried_names_m_obj. cbv zeta. unfold type_is, name_attr.
    rewrite !jget_jdrop_out by reflexivity. reflexivity.
Qed.

Lemma same_strip_same_names q pw : strip_markers q = strip_markers pw -> carried_names q = carried_names pw.
Proof. intros E. now rewrite <- (carried_strip q), E, carried_strip. Qed.
