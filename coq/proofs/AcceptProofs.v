(** C11_accepts: every schema the independent checker [valid_f true] accepts (the
    specification, minus integer literals as defaults of dict-form float/double types) is
    accepted by the parser model. *)
From Coq Require Import String Ascii Lia ZifyBool.
From FA Require Import model.Base model.Json model.Parse model.SchemaSpec model.Canon
     proofs.JsonProofs proofs.ParseProofs proofs.CanonProofs.
Open Scope string_scope.

(** ---- arithmetic: the exact integer formula for floor(log10(2) * n) ---- *)
Lemma ilog10_lower m q : forall fuel p pow10,
  pow10 = 10 ^ p -> 0 <= p -> 0 <= q -> 10 ^ q <= m -> q <= p + Z.of_nat fuel ->
  q <= ilog10_from fuel p pow10 m.
Proof.
  induction fuel as [|fuel IH]; intros p pow10 E P Q H B; cbn [ilog10_from].
  - lia.
  - destruct (Z.leb (pow10 * 10) m) eqn:L.
    + apply IH; try lia. subst pow10. rewrite Z.pow_add_r by lia. lia.
    + assert (m < 10 ^ (p + 1)) by (rewrite Z.pow_add_r by lia; subst pow10; lia).
      destruct (Z_le_gt_dec q p) as [LE|GT]; [exact LE|].
      assert (10 ^ (p + 1) <= 10 ^ q) by (apply Z.pow_le_mono_r; lia). lia.
Qed.

Lemma precision_fits_max sz p : precision_fits sz p = true -> 0 < p -> p <= max_precision sz.
Proof.
  unfold precision_fits, max_precision, floor_log10_pow2. intros H P.
  apply Bool.andb_true_iff in H. destruct H as [H1 H2].
  apply Z.ltb_lt in H1. apply Z.leb_le in H2. rename H1 into S. rename H2 into H.
  set (n := 8 * sz - 1) in *. assert (N : 0 <= n) by lia.
  destruct (Z.leb 0 n) eqn:E; [|lia].
  apply ilog10_lower; try lia.
  rewrite Z2Nat.id by lia. replace (0 + n) with n by lia.
  assert (2 ^ p <= 10 ^ p) by (apply Z.pow_le_mono_l; lia).
  assert (2 ^ p <= 2 ^ n) by lia.
  apply (Z.pow_le_mono_r_iff 2); lia.
Qed.

(** ---- the two spellings of the identifier regex ---- *)
Lemma ident_symbol s : ident_ok s = symbol_ok s.
Proof. destruct s; reflexivity. Qed.

Lemma nodup_same l : nodup_str l = nodupb l.
Proof. induction l as [|x r IH]; cbn; [reflexivity|now rewrite IH]. Qed.

Lemma strings_symbols syms : forall ss,
  strings_of syms = Some ss -> forallb ident_ok ss = true -> symbol_strings syms = Some ss.
Proof.
  induction syms as [|[| | | |s| |] r IH]; intros ss H F; cbn [strings_of] in H; try discriminate H.
  - injection H as <-. reflexivity.
  - destruct (strings_of r) as [t|] eqn:E; [|discriminate H]. injection H as <-.
    cbn [forallb] in F. apply Bool.andb_true_iff in F. destruct F as [F1 F2].
    cbn [symbol_strings]. rewrite <- ident_symbol, F1. now rewrite (IH t eq_refl F2).
Qed.

(** ---- attributes survive into the dict the parser builds ---- *)
Lemma base_custom kv ty k :
  mem k RESERVED_PROPERTIES = false -> jget k (base_of kv ty) = jget k kv.
Proof.
  intros M. unfold base_of.
  assert (N1 : String.eqb k "doc" = false).
  { destruct (String.eqb_spec k "doc"); [subst; discriminate M|reflexivity]. }
  assert (N2 : String.eqb k "type" = false).
  { destruct (String.eqb_spec k "type"); [subst; discriminate M|reflexivity]. }
  rewrite copy_prop_get by exact N1. rewrite jget_jset_neq by exact N2. now apply jget_jdrop_out.
Qed.

Lemma decimal_ok_checks kv t :
  decimal_ok kv t = true -> decimal_checks (base_of kv (JStr t)) kv (JStr t) = POk tt.
Proof.
  unfold decimal_ok, decimal_checks. rewrite !base_custom by reflexivity.
  destruct (jget "logicalType" kv) as [[| | | |lt| |]|]; try reflexivity.
  destruct (String.eqb lt "decimal"); cbn [negb]; [|reflexivity].
  destruct (jget "precision" kv) as [[| |p| | | |]|]; try discriminate.
  intros H. apply Bool.andb_true_iff in H. destruct H as [H H3].
  apply Bool.andb_true_iff in H. destruct H as [H1 H2]. apply Z.ltb_lt in H1.
  assert (FX : String.eqb t "fixed" = true -> exists sz, jget "size" kv = Some (JInt sz) /\ p <= max_precision sz).
  { intros E. rewrite E in H3. destruct (jget "size" kv) as [[| |sz| | | |]|]; try discriminate H3.
    exists sz. split; [reflexivity|]. now apply precision_fits_max. }
  clear H3.
  assert (SC : jget "scale" kv = None \/ exists s, jget "scale" kv = Some (JInt s) /\ 0 <= s <= p).
  { destruct (jget "scale" kv) as [[| |s| | | |]|]; try discriminate H2; [right|left; reflexivity].
    exists s. split; [reflexivity|]. apply Bool.andb_true_iff in H2. destruct H2 as [S1 S2]. lia. }
  clear H2.
  destruct (String.eqb t "fixed") eqn:EF.
  - destruct (FX eq_refl) as (sz & -> & MP).
    destruct SC as [-> | (s & -> & S1)]; cbn [truthy as_pyint];
      repeat (match goal with
              | |- context [Z.eqb ?a ?b] => destruct (Z.eqb_spec a b)
              | |- context [Z.ltb ?a ?b] => destruct (Z.ltb_spec a b)
              | |- context [Z.leb ?a ?b] => destruct (Z.leb_spec a b)
              end; cbn [negb andb pbind]; try lia); reflexivity.
  - destruct SC as [-> | (s & -> & S1)]; cbn [truthy as_pyint];
      repeat (match goal with
              | |- context [Z.eqb ?a ?b] => destruct (Z.eqb_spec a b)
              | |- context [Z.ltb ?a ?b] => destruct (Z.ltb_spec a b)
              | |- context [Z.leb ?a ?b] => destruct (Z.leb_spec a b)
              end; cbn [negb andb pbind]; try lia); reflexivity.
Qed.

Lemma name_ok_schema_name kv ns :
  name_ok kv = true -> schema_name kv ns = POk (spec_namespace ns kv, spec_fullname ns kv).
Proof.
  unfold name_ok, schema_name, spec_namespace, spec_fullname, spec_space, spec_name.
  destruct (jget "name" kv) as [[| | | |n| |]|]; try discriminate.
  intros H. apply Bool.andb_true_iff in H. destruct H as [_ H].
  destruct (has_dot n); [reflexivity|].
  destruct (jget "namespace" kv) as [[| | | |s| |]|]; try discriminate H; try reflexivity.
  - destruct (String.eqb_spec s ""); [subst|]; reflexivity.
  - destruct (String.eqb_spec ns ""); [subst|]; reflexivity.
Qed.

(** ---- the checker's definitions and the parser's state ---- *)
Definition rel (ds : defs) (st : pstate) : Prop :=
  (forall n, mem n (st_names st) = true -> jhas n ds = true) /\
  (forall n, jhas n ds = true -> jhas n (st_tbl st) = true).

Lemma jhas_app {A} n (a b : list (string * A)) : jhas n (a ++ b)%list = jhas n a || jhas n b.
Proof. rewrite !jhas_keys. unfold keys. rewrite map_app. apply mem_app. Qed.

Lemma jhas_single {A} n k (v : A) : jhas n [(k, v)] = String.eqb n k.
Proof. unfold jhas. cbn [jget]. now destruct (String.eqb n k). Qed.

Lemma rel_fresh ds st full : rel ds st -> jhas full ds = false -> mem full (st_names st) = false.
Proof. intros [R _] H. destruct (mem full (st_names st)) eqn:M; [|reflexivity]. rewrite (R _ M) in H. discriminate H. Qed.

Lemma rel_declare ds st full k v :
  rel ds st -> rel (ds ++ [(full, k)])%list (set_tbl full v (declared full st)).
Proof.
  intros [R1 R2]. split; intros n H; cbn [set_tbl declared st_names st_tbl] in *.
  - rewrite mem_app in H. rewrite jhas_app, jhas_single. apply Bool.orb_true_iff in H.
    destruct H as [H|H]; [now rewrite (R1 _ H)|]. cbn [mem existsb] in H. rewrite Bool.orb_false_r in H.
    rewrite H. apply Bool.orb_true_r.
  - rewrite jhas_app, jhas_single in H. apply Bool.orb_true_iff in H. destruct H as [H|H].
    + apply jhas_jset_mono. now apply R2.
    + apply String.eqb_eq in H. subst. apply jhas_jset_eq.
Qed.

Lemma rel_set ds st k v : rel ds st -> rel ds (set_tbl k v st).
Proof.
  intros [R1 R2]. split; intros n H; cbn [set_tbl st_names st_tbl] in *; [auto|].
  apply jhas_jset_mono. auto.
Qed.

(** ---- defaults ---- *)
Lemma spec_prim_cases s :
  spec_is_prim s = true ->
  s = "null" \/ s = "boolean" \/ s = "int" \/ s = "long" \/ s = "float" \/ s = "double" \/ s = "bytes" \/ s = "string".
Proof.
  unfold spec_is_prim, mem, spec_prims. cbn [existsb]. intros H.
  repeat match type of H with
         | (String.eqb s ?x || _) = true => destruct (String.eqb_spec s x); [subst; tauto|cbn [orb] in H]
         end.
  discriminate H.
Qed.

Definition no_overflow (dv : json) : Prop :=
  match dv with JInt z => float_overflows z = false | _ => True end.

Lemma bound63 : 2 ^ 63 < 2 ^ 1024 - 2 ^ 970.
Proof. vm_compute. reflexivity. Qed.
Lemma bound31 : 2 ^ 31 < 2 ^ 63.
Proof. vm_compute. reflexivity. Qed.

Lemma prim_default_no_overflow t dv :
  spec_is_prim t = true -> prim_default_ok t dv = true -> no_overflow dv.
Proof.
  intros P H. destruct dv; try exact I. unfold no_overflow, float_overflows.
  pose proof bound63 as B63. pose proof bound31 as B31.
  set (B := 2 ^ 1024 - 2 ^ 970) in *. set (C := 2 ^ 63) in *. set (D := 2 ^ 31) in *.
  destruct (spec_prim_cases _ P) as [-> | [-> | [-> | [-> | [-> | [-> | [-> | ->]]]]]]];
    cbn [prim_default_ok String.eqb Ascii.eqb Bool.eqb orb] in H; try discriminate H;
    fold B C D in H; lia.
Qed.

Lemma prim_default_matches s dv :
  spec_is_prim s = true -> prim_default_ok s dv = true -> default_matches dv (JStr s) = POk true.
Proof.
  intros P H. pose proof (prim_default_no_overflow _ _ P H) as NO.
  destruct (spec_prim_cases _ P) as [-> | [-> | [-> | [-> | [-> | [-> | [-> | ->]]]]]]];
    cbn [prim_default_ok String.eqb Ascii.eqb Bool.eqb orb] in H;
    cbn [default_matches String.eqb Ascii.eqb Bool.eqb];
    destruct dv; try discriminate H; try reflexivity;
    cbn [maybe_float_is_float]; cbn [no_overflow] in NO; now rewrite NO.
Qed.

Lemma prim_default_matches_strict t dv :
  spec_is_prim t = true -> prim_default_ok_strict t dv = true -> default_matches_strict dv t = true.
Proof.
  intros P H.
  destruct (spec_prim_cases _ P) as [-> | [-> | [-> | [-> | [-> | [-> | [-> | ->]]]]]]];
    cbn [prim_default_ok_strict prim_default_ok String.eqb Ascii.eqb Bool.eqb orb] in H;
    cbn [default_matches_strict String.eqb Ascii.eqb Bool.eqb];
    destruct dv; try discriminate H; reflexivity.
Qed.

(* default_matches never raises when the default is not an overflowing integer *)
Lemma default_matches_total dv p : no_overflow dv -> exists b, default_matches dv p = POk b.
Proof.
  intros NO. unfold default_matches. destruct p; eauto.
  repeat match goal with |- context [if ?c then _ else _] => destruct c; eauto end.
  all: unfold maybe_float_is_float; destruct dv; eauto; cbn [no_overflow] in NO; rewrite NO; eauto.
Qed.

(** ---- the shape of a parsed union member, as far as the default check looks ---- *)
Definition pshape (j p : json) : Prop :=
  match j with
  | JStr s => if is_prim s then p = JStr s else exists q, p = JStr q /\ is_prim q = false
  | JObj _ => exists kv', p = JObj kv'
  | _ => True
  end.

Lemma nonprim_matches dv q : is_prim q = false -> default_matches dv (JStr q) = POk true.
Proof.
  unfold is_prim, mem, PRIMITIVES. cbn [existsb]. intros H.
  repeat (apply Bool.orb_false_iff in H; destruct H as [? H]).
  unfold default_matches.
  repeat match goal with E : String.eqb q ?x = false |- _ => rewrite E; clear E end. reflexivity.
Qed.

Lemma prim_has_no_dot s : is_prim s = true -> has_dot s = false.
Proof.
  unfold is_prim, mem, PRIMITIVES. cbn [existsb]. intros H.
  repeat match type of H with
         | (String.eqb s ?x || _) = true => destruct (String.eqb_spec s x); [subst; reflexivity|cbn [orb] in H]
         end.
  discriminate H.
Qed.

Lemma qualify_nonprim ns s : is_prim s = false -> is_prim (qualify ns s) = false.
Proof.
  intros P. unfold qualify. destruct (negb (has_dot s) && negb (String.eqb ns "")); [|exact P].
  destruct (is_prim (ns ++ "." ++ s)) eqn:Q; [|reflexivity].
  apply prim_has_no_dot in Q. rewrite has_dot_join in Q. discriminate Q.
Qed.

Lemma member_match ds ns m p dv :
  member_default_ok ds ns m dv = true -> pshape m p ->
  default_matches dv p = POk true /\ no_overflow dv.
Proof.
  intros H S. destruct m as [| | | |s| |kv]; try discriminate H; cbn [member_default_ok pshape] in *.
  - rewrite is_prim_spec in S. destruct (spec_is_prim s) eqn:P.
    + subst p. split; [now apply prim_default_matches|eapply prim_default_no_overflow; eauto].
    + destruct S as (q & -> & Q). split; [now apply nonprim_matches|].
      destruct (jget (spec_ref ns s) ds) as [k|]; [|discriminate H].
      destruct dv; try exact I. destruct k; discriminate H.
  - destruct S as (kv' & ->). split; [reflexivity|].
    destruct (jget "type" kv) as [[| | | |t| |]|]; try discriminate H.
    destruct (spec_is_prim t) eqn:P; [eapply prim_default_no_overflow; eauto|].
    destruct dv; try exact I.
    repeat match type of H with (if ?c then _ else _) = true => destruct c; try discriminate H end.
Qed.

Lemma exists_no_overflow ds ns dv : forall l ps,
  Forall2 pshape l ps -> existsb (fun m => member_default_ok ds ns m dv) l = true -> no_overflow dv.
Proof.
  intros l ps F. induction F as [|m p l ps S F IH]; intros E; cbn [existsb] in E; [discriminate E|].
  apply Bool.orb_true_iff in E. destruct E as [M|E]; [exact (proj2 (member_match _ _ _ _ _ M S))|auto].
Qed.

Lemma any_match_ok ds ns dv : forall l ps,
  Forall2 pshape l ps -> existsb (fun m => member_default_ok ds ns m dv) l = true ->
  any_match dv ps = POk true.
Proof.
  intros l ps F. induction F as [|m p l ps S F IH]; intros E; [discriminate E|].
  pose proof (exists_no_overflow _ _ _ _ _ (Forall2_cons _ _ S F) E) as NO.
  cbn [existsb] in E. cbn [any_match].
  destruct (member_default_ok ds ns m dv) eqn:M.
  - rewrite (proj1 (member_match _ _ _ _ _ M S)). reflexivity.
  - cbn [orb] in E. destruct (default_matches_total dv p NO) as [b ->]. cbn [pbind].
    destruct b; [reflexivity|auto].
Qed.

(** ---- the induction ---- *)
Definition vfun := json -> string -> defs -> option json -> option defs.

Definition accepts_spec (v : vfun) (rec : recfun) : Prop :=
  forall j ns ds d ds' st wh, v j ns ds d = Some ds' -> rel ds st ->
    exists p st', rec j ns wh st d = POk (p, st') /\ rel ds' st' /\ pshape j p.

Section AcceptStep.
  Variable v : vfun.
  Variable rec : recfun.
  Hypothesis IH : accepts_spec v rec.

  Lemma members_accept ns : forall l ds ds' st,
    valid_members v ns l ds = Some ds' -> rel ds st ->
    exists ps st', parse_members rec ns l st = POk (ps, st') /\ rel ds' st' /\ Forall2 pshape l ps.
  Proof.
    induction l as [|m r IHl]; intros ds ds' st H R; cbn [valid_members parse_members] in *.
    - injection H as <-. eauto.
    - assert (V : exists ds1, v m ns ds None = Some ds1 /\ valid_members v ns r ds1 = Some ds').
      { destruct m; try discriminate H; destruct (v _ ns ds None) as [ds1|]; try discriminate H; eauto. }
      destruct V as (ds1 & V1 & V2).
      destruct (IH _ _ _ _ _ _ false V1 R) as (p & st1 & P1 & R1 & S1).
      destruct (IHl _ _ _ V2 R1) as (ps & st2 & P2 & R2 & S2).
      exists (p :: ps), st2. rewrite P1. cbn [pbind]. rewrite P2. cbn [pbind]. auto.
  Qed.

  Lemma aliases_kept fkv :
    jget "aliases" (copy_prop "doc" fkv (copy_prop "aliases" fkv (copy_prop "default" fkv
                     (jdrop RESERVED_FIELD_PROPERTIES fkv)))) = jget "aliases" fkv.
  Proof.
    rewrite copy_prop_get by reflexivity. unfold copy_prop at 1.
    destruct (jget "aliases" fkv) as [a|] eqn:E; [apply jget_jset_eq|].
    rewrite copy_prop_get by reflexivity. now apply jget_jdrop_in.
  Qed.

  Lemma field_accept ns fd ds ds' st :
    valid_field v ns fd ds = Some ds' -> rel ds st ->
    exists p st', parse_field rec ns fd st = POk (p, st') /\ rel ds' st'.
  Proof.
    unfold valid_field, parse_field. intros H R.
    destruct fd as [| | | | | |fkv]; try discriminate H.
    destruct (jget "name" fkv) as [[| | | |n| |]|]; try discriminate H.
    destruct (jget "type" fkv) as [ty|]; [|discriminate H].
    match type of H with (if ?c then _ else _) = _ => destruct c eqn:C; [|discriminate H] end.
    apply Bool.andb_true_iff in C. destruct C as [_ C].
    rewrite aliases_kept.
    assert (A : match jget "aliases" fkv with
                | None => POk tt | Some (JArr _) => POk tt | Some _ => PErrParse end = (POk tt : pres unit)).
    { destruct (jget "aliases" fkv) as [[| | | | |al|]|]; try discriminate C; reflexivity. }
    rewrite A. cbn [pbind].
    destruct (IH _ _ _ _ _ _ false H R) as (p & st1 & P1 & R1 & _).
    rewrite P1. cbn [pbind]. eauto.
  Qed.

  Lemma fields_accept ns : forall l ds ds' st,
    valid_fields v ns l ds = Some ds' -> rel ds st ->
    exists ps st', parse_fields rec ns l st = POk (ps, st') /\ rel ds' st'.
  Proof.
    induction l as [|fd r IHl]; intros ds ds' st H R; cbn [valid_fields parse_fields] in *.
    - injection H as <-. eauto.
    - destruct (valid_field v ns fd ds) as [ds1|] eqn:V1; [|discriminate H].
      destruct (field_accept _ _ _ _ _ V1 R) as (p & st1 & P1 & R1).
      destruct (IHl _ _ _ H R1) as (ps & st2 & P2 & R2).
      exists (p :: ps), st2. rewrite P1. cbn [pbind]. rewrite P2. cbn [pbind]. auto.
  Qed.

  Lemma check_default_ok d (f g : json -> bool) :
    (forall x, f x = true -> g x = true) -> opt_ok f d = true -> check_default d g = POk tt.
  Proof. intros E O. destruct d as [dv|]; [|reflexivity]. cbn [opt_ok check_default] in *. now rewrite (E _ O). Qed.

  Lemma node_accept : accepts_spec (valid_node true v) (parse_node rec).
  Proof.
    intros j ns ds d ds' st wh H R.
    destruct j as [| | | |s|l|kv]; cbn [valid_node] in H; try discriminate H.
    - (* a name *)
      cbn [parse_node pshape]. rewrite is_prim_spec.
      destruct (spec_is_prim s) eqn:P.
      + destruct (opt_ok (prim_default_ok s) d) eqn:O; [|discriminate H]. injection H as <-.
        exists (JStr s), st. split; [|auto].
        destruct d as [dv|]; [|reflexivity]. cbn [opt_ok] in O. rewrite (prim_default_matches _ _ P O). reflexivity.
      + destruct (jget (spec_ref ns s) ds) as [k|] eqn:G; [|discriminate H].
        destruct (opt_ok (kind_default_ok k) d); [|discriminate H]. injection H as <-.
        assert (J : jhas (qualify ns s) (st_tbl st) = true).
        { rewrite qualify_spec. apply (proj2 R). unfold jhas. now rewrite G. }
        rewrite J. exists (JStr (qualify ns s)), st. split; [reflexivity|]. split; [exact R|].
        exists (qualify ns s). split; [reflexivity|]. apply qualify_nonprim. now rewrite is_prim_spec.
    - (* union *)
      destruct (nodup_str (map (union_key ns) l)); [|discriminate H].
      destruct (valid_members v ns l ds) as [ds1|] eqn:VM; [|discriminate H].
      destruct (opt_ok (fun dv => existsb (fun m => member_default_ok ds1 ns m dv) l) d) eqn:O; [|discriminate H].
      injection H as <-.
      destruct (members_accept _ _ _ _ _ VM R) as (ps & st1 & PM & R1 & F).
      cbn [parse_node]. rewrite PM. cbn [pbind]. exists (JArr ps), st1. split; [|split; [exact R1|exact I]].
      destruct d as [dv|]; [|reflexivity]. cbn [opt_ok] in O. rewrite (any_match_ok _ _ _ _ _ F O). reflexivity.
    - (* dict *)
      destruct (jget "type" kv) as [[| | | |t| |]|] eqn:T; try discriminate H.
      destruct (decimal_ok kv t) eqn:DO; cbn [negb] in H; [|discriminate H].
      pose proof (decimal_ok_checks _ _ DO) as DC.
      cbn [parse_node pshape]. unfold parse_dict. rewrite T. fold (base_of kv (JStr t)). rewrite DC. cbn [pbind].
      destruct (spec_is_prim t) eqn:P.
      { (* primitive in dict form *)
        destruct (opt_ok (prim_default_ok_strict t) d) eqn:O; [|discriminate H]. injection H as <-.
        rewrite <- is_prim_spec in P. destruct (prim_not_complex _ P) as (N1 & N2 & N3 & N4 & N5 & N6).
        rewrite N1, N2, N3, N4, N5, N6, P. cbn [orb].
        rewrite (check_default_ok d (prim_default_ok_strict t) (fun dv => default_matches_strict dv t)); [|
          intros x X; apply prim_default_matches_strict; [now rewrite <- is_prim_spec|exact X] | exact O].
        cbn [pbind]. eauto 10. }
      destruct (String.eqb t "array") eqn:E1.
      { destruct (jget "items" kv) as [it|]; [|discriminate H].
        match type of H with (if ?c then _ else _) = _ => destruct c eqn:O; [|discriminate H] end.
        destruct (IH _ _ _ _ _ _ false H R) as (p & st1 & P1 & R1 & _). rewrite P1. cbn [pbind].
        rewrite (check_default_ok d _ is_jarr (fun x X => X) O).
        cbn [pbind]. eauto 10. }
      destruct (String.eqb t "map") eqn:E2.
      { destruct (jget "values" kv) as [it|]; [|discriminate H].
        match type of H with (if ?c then _ else _) = _ => destruct c eqn:O; [|discriminate H] end.
        destruct (IH _ _ _ _ _ _ false H R) as (p & st1 & P1 & R1 & _). rewrite P1. cbn [pbind].
        rewrite (check_default_ok d _ is_jobj (fun x X => X) O).
        cbn [pbind]. eauto 10. }
      destruct (String.eqb t "enum") eqn:E3.
      { match type of H with (if ?c then _ else _) = _ => destruct c eqn:C; [|discriminate H] end.
        apply Bool.andb_true_iff in C. destruct C as [C OD]. apply Bool.andb_true_iff in C. destruct C as [NO FR].
        apply Bool.negb_true_iff in FR.
        destruct (jget "symbols" kv) as [[| | | | |syms|]|] eqn:SY; try discriminate H.
        destruct (strings_of syms) as [ss|] eqn:SS; [|discriminate H].
        match type of H with (if ?c then _ else _) = _ => destruct c eqn:C2; [|discriminate H] end.
        apply Bool.andb_true_iff in C2. destruct C2 as [C2 DF]. apply Bool.andb_true_iff in C2. destruct C2 as [F1 ND].
        injection H as <-.
        rewrite (name_ok_schema_name _ ns NO). cbn [pbind]. unfold declare. rewrite (rel_fresh _ _ _ R FR). cbn [pbind].
        assert (V : validate_enum_symbols kv = POk tt).
        { unfold validate_enum_symbols. rewrite SY, (strings_symbols _ _ SS F1), <- nodup_same, ND. cbn [negb].
          destruct (jget "default" kv) as [[| | | |dv| |]|]; try discriminate DF; [|reflexivity]. now rewrite DF. }
        rewrite V. cbn [pbind].
        rewrite (check_default_ok d _ is_jstr (fun x X => X) OD).
        cbn [pbind]. do 2 eexists. split; [reflexivity|]. split; [apply rel_declare; exact R|eauto]. }
      destruct (String.eqb t "fixed") eqn:E4.
      { match type of H with (if ?c then _ else _) = _ => destruct c eqn:C; [|discriminate H] end.
        injection H as <-.
        apply Bool.andb_true_iff in C. destruct C as [C SZ]. apply Bool.andb_true_iff in C. destruct C as [C OD].
        apply Bool.andb_true_iff in C. destruct C as [NO FR]. apply Bool.negb_true_iff in FR.
        rewrite (name_ok_schema_name _ ns NO). cbn [pbind]. unfold declare. rewrite (rel_fresh _ _ _ R FR). cbn [pbind].
        rewrite (check_default_ok d _ is_jstr (fun x X => X) OD).
        cbn [pbind]. destruct (jget "size" kv) as [sz|]; [|discriminate SZ].
        do 2 eexists. split; [reflexivity|]. split; [apply rel_declare; exact R|eauto]. }
      destruct (String.eqb t "record") eqn:E5; [|discriminate H].
      match type of H with (if ?c then _ else _) = _ => destruct c eqn:C; [|discriminate H] end.
      apply Bool.andb_true_iff in C. destruct C as [C OD]. apply Bool.andb_true_iff in C. destruct C as [NO FR].
      apply Bool.negb_true_iff in FR.
      destruct (jget "fields" kv) as [[| | | | |fl|]|] eqn:FL; try discriminate H.
      destruct (nodup_str (field_names fl)); [|discriminate H].
      cbn [orb].
      rewrite (name_ok_schema_name _ ns NO). cbn [pbind]. unfold declare. rewrite (rel_fresh _ _ _ R FR). cbn [pbind].
      rewrite (check_default_ok d _ is_jobj (fun x X => X) OD).
      cbn [pbind].
      match goal with |- context [parse_fields rec ?n ?l ?s] =>
        destruct (fields_accept n l _ _ s H (rel_declare _ _ _ KRecord _ R)) as (fs & st3 & PF & R3) end.
      rewrite PF. cbn [pbind].
      destruct wh; do 2 eexists; (split; [reflexivity|]); (split; [apply rel_set; exact R3|eauto]).
  Qed.
End AcceptStep.

Theorem accept_rec f : accepts_spec (valid_f true f) (parse_rec f).
Proof.
  induction f as [|f IH]; cbn [valid_f parse_rec].
  - intros j ns ds d ds' st wh H. discriminate H.
  - apply node_accept. exact IH.
Qed.

(** ---- parse_schema ---- *)
Lemma run_parse_accept f j ds ds' t :
  valid_f true f j "" ds None = Some ds' -> (forall n, jhas n ds = true -> jhas n t = true) ->
  exists p t', run_parse f j t = POk (p, t') /\ (forall n, jhas n ds' = true -> jhas n t' = true).
Proof.
  intros V K. unfold run_parse.
  assert (R : rel ds (mkst [] t)) by (split; [intros n H; discriminate H|exact K]).
  destruct (accept_rec f _ _ _ _ _ _ true V R) as (p & st' & P & [_ R2] & _).
  rewrite P. cbn [pbind]. eauto.
Qed.

Lemma top_member_accept f m ds ds' t :
  unmarked m = true -> is_jarr m = false ->
  valid_f true f m "" ds None = Some ds' -> (forall n, jhas n ds = true -> jhas n t = true) ->
  exists p t', parse_schema_rec (S f) m t = POk (p, t') /\ (forall n, jhas n ds' = true -> jhas n t' = true).
Proof.
  intros U A V K. cbn [parse_schema_rec].
  destruct m as [| | | | |l|kv]; try (eapply run_parse_accept; eauto; fail); [discriminate A|].
  unfold unmarked in U. rewrite jfold_obj in U. apply Bool.negb_true_iff in U. rewrite U.
  eapply run_parse_accept; eauto.
Qed.

Lemma tops_accept f : forall l ds ds' t,
  forallb unmarked l = true ->
  valid_members (valid_f true f) "" l ds = Some ds' -> (forall n, jhas n ds = true -> jhas n t = true) ->
  exists ps t', parse_tops (parse_schema_rec (S f)) l t = POk (ps, t').
Proof.
  induction l as [|m r IH]; intros ds ds' t U V K; cbn [parse_tops]; [eauto|].
  cbn [forallb] in U. apply Bool.andb_true_iff in U. destruct U as [U1 U2].
  cbn [valid_members] in V.
  assert (W : is_jarr m = false /\ exists ds1, valid_f true f m "" ds None = Some ds1 /\
              valid_members (valid_f true f) "" r ds1 = Some ds').
  { destruct m; try discriminate V; (split; [reflexivity|]);
      destruct (valid_f true f _ "" ds None) as [ds1|]; try discriminate V; eauto. }
  destruct W as (A & ds1 & V1 & V2).
  destruct (top_member_accept f m ds ds1 t U1 A V1 K) as (p & t1 & P1 & K1).
  rewrite P1. cbn [pbind].
  destruct (IH _ _ _ U2 V2 K1) as (ps & t2 & P2). rewrite P2. cbn [pbind]. eauto.
Qed.

Theorem valid_strict_accepted j :
  unmarked j = true -> valid_strict j = true -> exists f r, parse_schema f j [] = POk r.
Proof.
  unfold valid_strict. intros U V.
  destruct (valid_f true (S (S (jdepth j))) j "" [] None) as [ds'|] eqn:E; [clear V|discriminate V].
  assert (K : forall n, jhas n (@nil (string * kind)) = true -> jhas n (@nil (string * json)) = true)
    by (intros n H; discriminate H).
  destruct j as [| | | | |l|kv].
  6: { (* top-level union *)
    set (F := S (jdepth (JArr l))) in *.
    cbn [valid_f] in E. cbn [valid_node] in E.
    destruct (nodup_str (map (union_key "") l)); [|discriminate E].
    destruct (valid_members (valid_f true F) "" l []) as [ds1|] eqn:VM; [|discriminate E].
    rewrite unmarked_arr in U.
    destruct (tops_accept _ _ _ _ _ U VM K) as (ps & t' & P).
    exists (S (S F)). unfold parse_schema.
    change (parse_schema_rec (S (S F)) (JArr l) [])
      with (pbind (parse_tops (parse_schema_rec (S F)) l []) (fun '(ps, t1) => POk (JArr ps, t1))).
    rewrite P. cbn [pbind]. eauto. }
  all: destruct (top_member_accept _ _ _ _ _ U eq_refl E K) as (p & t' & P & _);
    eexists; unfold parse_schema; rewrite P; cbn [pbind]; eauto.
Qed.

(** ---- valid_strict is a sub-class of valid_raw ---- *)
Lemma strict_default_ok t d : opt_ok (prim_default_ok_strict t) d = true -> opt_ok (prim_default_ok t) d = true.
Proof.
  destruct d as [dv|]; [|reflexivity]. cbn [opt_ok]. unfold prim_default_ok_strict.
  destruct (String.eqb t "float" || String.eqb t "double") eqn:E; [|auto].
  intros H. destruct dv; try discriminate H. unfold prim_default_ok.
  destruct (String.eqb t "null") eqn:E1; [apply String.eqb_eq in E1; subst; discriminate E|].
  destruct (String.eqb t "boolean") eqn:E2; [apply String.eqb_eq in E2; subst; discriminate E|].
  destruct (String.eqb t "int") eqn:E3; [apply String.eqb_eq in E3; subst; discriminate E|].
  destruct (String.eqb t "long") eqn:E4; [apply String.eqb_eq in E4; subst; discriminate E|].
  now rewrite E.
Qed.

Definition weaker (v1 v2 : vfun) : Prop :=
  forall j ns ds d ds', v1 j ns ds d = Some ds' -> v2 j ns ds d = Some ds'.

Section Weaken.
  Variables v1 v2 : vfun.
  Hypothesis W : weaker v1 v2.

  Lemma members_weaker ns : forall l ds ds',
    valid_members v1 ns l ds = Some ds' -> valid_members v2 ns l ds = Some ds'.
  Proof.
    induction l as [|m r IHl]; intros ds ds' H; cbn [valid_members] in *; [exact H|].
    destruct m; try discriminate H;
      (destruct (v1 _ ns ds None) as [ds1|] eqn:E; [|discriminate H]; rewrite (W _ _ _ _ _ E); auto).
  Qed.

  Lemma fields_weaker ns : forall l ds ds',
    valid_fields v1 ns l ds = Some ds' -> valid_fields v2 ns l ds = Some ds'.
  Proof.
    induction l as [|fd r IHl]; intros ds ds' H; cbn [valid_fields] in *; [exact H|].
    destruct (valid_field v1 ns fd ds) as [ds1|] eqn:E; [|discriminate H].
    assert (E2 : valid_field v2 ns fd ds = Some ds1).
    { unfold valid_field in *. destruct fd; try discriminate E.
      destruct (jget "name" kv) as [[| | | |n| |]|]; try discriminate E.
      destruct (jget "type" kv); [|discriminate E].
      match type of E with (if ?c then _ else _) = _ => destruct c; [|discriminate E] end. auto. }
    rewrite E2. auto.
  Qed.

  Lemma node_weaker : weaker (valid_node true v1) (valid_node false v2).
  Proof.
    intros j ns ds d ds' H. destruct j as [| | | |s|l|kv]; cbn [valid_node] in *; try discriminate H.
    - exact H.
    - destruct (nodup_str (map (union_key ns) l)); [|discriminate H].
      destruct (valid_members v1 ns l ds) as [ds1|] eqn:E; [|discriminate H].
      now rewrite (members_weaker _ _ _ _ E).
    - destruct (jget "type" kv) as [[| | | |t| |]|]; try discriminate H.
      destruct (negb (decimal_ok kv t)); [discriminate H|].
      destruct (spec_is_prim t).
      { destruct (opt_ok (prim_default_ok_strict t) d) eqn:O; [|discriminate H]. now rewrite (strict_default_ok _ _ O). }
      destruct (String.eqb t "array").
      { destruct (jget "items" kv); [|discriminate H].
        match type of H with (if ?c then _ else _) = _ => destruct c; [|discriminate H] end. auto. }
      destruct (String.eqb t "map").
      { destruct (jget "values" kv); [|discriminate H].
        match type of H with (if ?c then _ else _) = _ => destruct c; [|discriminate H] end. auto. }
      destruct (String.eqb t "enum"); [exact H|].
      destruct (String.eqb t "fixed"); [exact H|].
      destruct (String.eqb t "record"); [|discriminate H].
      match type of H with (if ?c then _ else _) = _ => destruct c; [|discriminate H] end.
      destruct (jget "fields" kv) as [[| | | | |fl|]|]; try discriminate H.
      destruct (nodup_str (field_names fl)); [|discriminate H].
      now apply fields_weaker.
  Qed.
End Weaken.

Lemma valid_f_weaker f : weaker (valid_f true f) (valid_f false f).
Proof.
  induction f as [|f IH]; cbn [valid_f]; [intros j ns ds d ds' H; discriminate H|].
  apply node_weaker. exact IH.
Qed.

Theorem valid_strict_raw j : valid_strict j = true -> valid_raw j = true.
Proof.
  unfold valid_strict, valid_raw.
  destruct (valid_f true (S (S (jdepth j))) j "" [] None) eqn:E; [|discriminate].
  now rewrite (valid_f_weaker _ _ _ _ _ _ E).
Qed.
