(** C11_accepts: every schema the independent checker [valid_raw] accepts is accepted by the
    parser model. *)
From Coq Require Import String Ascii Lia ZifyBool.
From FA Require Import model.Base model.Json model.Parse model.SchemaSpec model.Canon
     proofs.JsonProofs proofs.ParseProofs proofs.CanonProofs.
Open Scope string_scope.

(** ---- arithmetic: the exact integer formula for floor(log10(2) * n) ---- *)
Lemma ilog10_lower m q : forall fuel p pow10,
  pow10 = 10 ^ p -> 0 <= p -> 0 <= q -> 10 ^ q <= m -> q <= p + Z.of_nat fuel ->
  q <= ilog10_from fuel p pow10 m.
Proof.
  induction fuel as [|fuel IH]; intros p pow10 E P Q H B; cbn [ilog10_from].
  - lia.
  - destruct (Z.leb (pow10 * 10) m) eqn:L.
    + apply IH; try lia. subst pow10. rewrite Z.pow_add_r by lia. lia.
    + assert (m < 10 ^ (p + 1)) by (rewrite Z.pow_add_r by lia; subst pow10; lia).
      destruct (Z_le_gt_dec q p) as [LE|GT]; [exact LE|].
      assert (10 ^ (p + 1) <= 10 ^ q) by (apply Z.pow_le_mono_r; lia). lia.
Qed.

Lemma precision_fits_max sz p : precision_fits sz p = true -> 0 < p -> p <= max_precision sz.
Proof.
  unfold precision_fits, max_precision, floor_log10_pow2. intros H P.
  apply Bool.andb_true_iff in H. destruct H as [H1 H2].
  apply Z.ltb_lt in H1. apply Z.leb_le in H2. rename H1 into S. rename H2 into H.
  set (n := 8 * sz - 1) in *. assert (N : 0 <= n) by lia.
  destruct (Z.leb 0 n) eqn:E; [|lia].
  apply ilog10_lower; try lia.
  rewrite Z2Nat.id by lia. replace (0 + n) with n by lia.
  assert (2 ^ p <= 10 ^ p) by (apply Z.pow_le_mono_l; lia).
  assert (2 ^ p <= 2 ^ n) by lia.
  apply (Z.pow_le_mono_r_iff 2); lia.
Qed.

(** ---- the two spellings of the identifier regex ---- *)
Lemma ident_symbol s : ident_ok s = symbol_ok s.
Proof. destruct s; reflexivity. Qed.

Lemma nodup_same l : nodup_str l = nodupb l.
Proof. induction l as [|x r IH]; cbn; [reflexivity|now rewrite IH]. Qed.

Lemma strings_symbols syms : forall ss,
  strings_of syms = Some ss -> forallb ident_ok ss = true -> symbol_strings syms = Some ss.
Proof.
  induction syms as [|[| | | |s| |] r IH]; intros ss H F; cbn [strings_of] in H; try discriminate H.
  - injection H as <-. reflexivity.
  - destruct (strings_of r) as [t|] eqn:E; [|discriminate H]. injection H as <-.
    cbn [forallb] in F. apply Bool.andb_true_iff in F. destruct F as [F1 F2].
    cbn [symbol_strings]. rewrite <- ident_symbol, F1. now rewrite (IH t eq_refl F2).
Qed.

(** ---- attributes survive into the dict the parser builds ---- *)
Lemma base_custom kv ty k :
  mem k RESERVED_PROPERTIES = false -> jget k (base_of kv ty) = jget k kv.
Proof.
  intros M. unfold base_of.
  assert (N1 : String.eqb k "doc" = false).
  { destruct (String.eqb_spec k "doc"); [subst; discriminate M|reflexivity]. }
  assert (N2 : String.eqb k "type" = false).
  { destruct (String.eqb_spec k "type"); [subst; discriminate M|reflexivity]. }
  rewrite copy_prop_get by exact N1. rewrite jget_jset_neq by exact N2. now apply jget_jdrop_out.
Qed.

Lemma decimal_ok_checks kv t :
  decimal_ok kv t = true -> decimal_checks (base_of kv (JStr t)) kv (JStr t) = POk tt.
Proof.
  unfold decimal_ok, decimal_checks. rewrite !base_custom by reflexivity.
  destruct (jget "logicalType" kv) as [[| | | |lt| |]|]; try reflexivity.
  destruct (String.eqb lt "decimal"); cbn [negb]; [|reflexivity].
  destruct (jget "precision" kv) as [[| |p| | | |]|]; try discriminate.
  intros H. apply Bool.andb_true_iff in H. destruct H as [H H3].
  apply Bool.andb_true_iff in H. destruct H as [H1 H2]. apply Z.ltb_lt in H1.
  assert (FX : String.eqb t "fixed" = true -> exists sz, jget "size" kv = Some (JInt sz) /\ p <= max_precision sz).
  { intros E. rewrite E in H3. destruct (jget "size" kv) as [[| |sz| | | |]|]; try discriminate H3.
    exists sz. split; [reflexivity|]. now apply precision_fits_max. }
  clear H3.
  assert (SC : jget "scale" kv = None \/ exists s, jget "scale" kv = Some (JInt s) /\ 0 <= s <= p).
  { destruct (jget "scale" kv) as [[| |s| | | |]|]; try discriminate H2; [right|left; reflexivity].
    exists s. split; [reflexivity|]. apply Bool.andb_true_iff in H2. destruct H2 as [S1 S2]. lia. }
  clear H2.
  destruct (String.eqb t "fixed") eqn:EF.
  - destruct (FX eq_refl) as (sz & -> & MP).
    destruct SC as [-> | (s & -> & S1)]; cbn [present is_jnull negb as_jint as_pyint];
      repeat (match goal with
              | |- context [Z.eqb ?a ?b] => destruct (Z.eqb_spec a b)
              | |- context [Z.ltb ?a ?b] => destruct (Z.ltb_spec a b)
              | |- context [Z.leb ?a ?b] => destruct (Z.leb_spec a b)
              end; cbn [negb andb pbind]; try lia); reflexivity.
  - destruct SC as [-> | (s & -> & S1)]; cbn [present is_jnull negb as_jint as_pyint];
      repeat (match goal with
              | |- context [Z.eqb ?a ?b] => destruct (Z.eqb_spec a b)
              | |- context [Z.ltb ?a ?b] => destruct (Z.ltb_spec a b)
              | |- context [Z.leb ?a ?b] => destruct (Z.leb_spec a b)
              end; cbn [negb andb pbind]; try lia); reflexivity.
Qed.

Lemma name_ok_schema_name kv ns :
  name_ok kv = true -> schema_name kv ns = POk (spec_namespace ns kv, spec_fullname ns kv).
Proof.
  unfold name_ok, schema_name, spec_namespace, spec_fullname, spec_space, spec_name.
  destruct (jget "name" kv) as [[| | | |n| |]|]; try discriminate.
  intros H. apply Bool.andb_true_iff in H. destruct H as [_ H].
  destruct (has_dot n); [reflexivity|].
  destruct (jget "namespace" kv) as [[| | | |s| |]|]; try discriminate H; try reflexivity.
  - destruct (String.eqb_spec s ""); [subst|]; reflexivity.
  - destruct (String.eqb_spec ns ""); [subst|]; reflexivity.
Qed.

(** ---- the checker's definitions and the parser's state ---- *)
Definition kind_type (k : kind) (t : string) : Prop :=
  match k with KRecord => t = "record" | KEnum => t = "enum" | KFixed => t = "fixed" end.

(* names are among the checker's definitions; every definition of the checker has a table entry
   (a dict) of the same kind *)
Definition rel (ds : defs) (st : pstate) : Prop :=
  (forall n, mem n (st_names st) = true -> jhas n ds = true) /\
  (forall n k, jget n ds = Some k ->
     exists kv t, jget n (st_tbl st) = Some (JObj kv) /\ jget "type" kv = Some (JStr t) /\ kind_type k t).

Definition kept (ds ds' : defs) : Prop := forall n k, jget n ds = Some k -> jget n ds' = Some k.

Lemma jget_app {A} n (a b : list (string * A)) :
  jget n (a ++ b)%list = match jget n a with Some v => Some v | None => jget n b end.
Proof.
  induction a as [|[k v] r IH]; cbn [app jget]; [reflexivity|]. destruct (String.eqb n k); [reflexivity|exact IH].
Qed.

Lemma jhas_app {A} n (a b : list (string * A)) : jhas n (a ++ b)%list = jhas n a || jhas n b.
Proof. unfold jhas. rewrite jget_app. destruct (jget n a); reflexivity. Qed.

Lemma jhas_single {A} n k (v : A) : jhas n [(k, v)] = String.eqb n k.
Proof. unfold jhas. cbn [jget]. now destruct (String.eqb n k). Qed.

Lemma kept_snoc ds n k : kept ds (ds ++ [(n, k)])%list.
Proof. intros m k' G. rewrite jget_app, G. reflexivity. Qed.

Lemma kept_trans a b c : kept a b -> kept b c -> kept a c.
Proof. unfold kept. auto. Qed.

Lemma rel_fresh ds st full : rel ds st -> jhas full ds = false -> mem full (st_names st) = false.
Proof. intros [R _] H. destruct (mem full (st_names st)) eqn:M; [|reflexivity]. rewrite (R _ M) in H. discriminate H. Qed.

Lemma rel_declare ds st full k kv t :
  rel ds st -> jhas full ds = false -> jget "type" kv = Some (JStr t) -> kind_type k t ->
  rel (ds ++ [(full, k)])%list (set_tbl full (JObj kv) (declared full st)).
Proof.
  intros [R1 R2] F T K. split; cbn [set_tbl declared st_names st_tbl].
  - intros n H. rewrite mem_app in H. rewrite jhas_app, jhas_single. apply Bool.orb_true_iff in H.
    destruct H as [H|H]; [now rewrite (R1 _ H)|]. cbn [mem existsb] in H. rewrite Bool.orb_false_r in H.
    rewrite H. apply Bool.orb_true_r.
  - intros n k' G. rewrite jget_app in G. destruct (jget n ds) as [k0|] eqn:G0.
    + injection G as <-. destruct (R2 _ _ G0) as (kv0 & t0 & A & B & C).
      exists kv0, t0. split; [|auto]. rewrite jget_jset_neq; [exact A|].
      destruct (String.eqb_spec n full); [subst; unfold jhas in F; rewrite G0 in F; discriminate F|reflexivity].
    + cbn [jget] in G. destruct (String.eqb_spec n full); [|discriminate G]. injection G as <-. subst n.
      exists kv, t. rewrite jget_jset_eq. repeat split; auto.
Qed.

Lemma rel_close ds st full kv :
  rel ds st -> jget full ds = Some KRecord -> jget "type" kv = Some (JStr "record") ->
  rel ds (set_tbl full (JObj kv) st).
Proof.
  intros [R1 R2] G T. split; cbn [set_tbl st_names st_tbl]; [exact R1|].
  intros n k G'. destruct (String.eqb_spec n full) as [->|NE].
  - rewrite G in G'. injection G' as <-. exists kv, "record". rewrite jget_jset_eq. repeat split; auto.
  - destruct (R2 _ _ G') as (kv0 & t0 & A & B & C). exists kv0, t0. rewrite jget_jset_neq; [auto|].
    now apply String.eqb_neq.
Qed.

(** ---- defaults ---- *)
Lemma spec_prim_cases s :
  spec_is_prim s = true ->
  s = "null" \/ s = "boolean" \/ s = "int" \/ s = "long" \/ s = "float" \/ s = "double" \/ s = "bytes" \/ s = "string".
Proof.
  unfold spec_is_prim, mem, spec_prims. cbn [existsb]. intros H.
  repeat match type of H with
         | (String.eqb s ?x || _) = true => destruct (String.eqb_spec s x); [subst; tauto|cbn [orb] in H]
         end.
  discriminate H.
Qed.

Definition no_overflow (dv : json) : Prop :=
  match dv with JInt z => float_overflows z = false | _ => True end.

Lemma bound63 : 2 ^ 63 < 2 ^ 1024 - 2 ^ 970.
Proof. vm_compute. reflexivity. Qed.
Lemma bound31 : 2 ^ 31 < 2 ^ 63.
Proof. vm_compute. reflexivity. Qed.

Lemma prim_default_no_overflow t dv :
  spec_is_prim t = true -> prim_default_ok t dv = true -> no_overflow dv.
Proof.
  intros P H. destruct dv; try exact I. unfold no_overflow, float_overflows.
  pose proof bound63 as B63. pose proof bound31 as B31.
  set (B := 2 ^ 1024 - 2 ^ 970) in *. set (C := 2 ^ 63) in *. set (D := 2 ^ 31) in *.
  destruct (spec_prim_cases _ P) as [-> | [-> | [-> | [-> | [-> | [-> | [-> | ->]]]]]]];
    cbn [prim_default_ok String.eqb Ascii.eqb Bool.eqb orb] in H; try discriminate H;
    fold B C D in H; lia.
Qed.

Lemma prim_default_matches s dv :
  spec_is_prim s = true -> prim_default_ok s dv = true -> default_matches_prim dv (JStr s) = POk true.
Proof.
  intros P H. pose proof (prim_default_no_overflow _ _ P H) as NO.
  destruct (spec_prim_cases _ P) as [-> | [-> | [-> | [-> | [-> | [-> | [-> | ->]]]]]]];
    cbn [prim_default_ok String.eqb Ascii.eqb Bool.eqb orb] in H;
    cbn [default_matches_prim String.eqb Ascii.eqb Bool.eqb];
    destruct dv; try discriminate H; try reflexivity;
    cbn [is_jbool maybe_float_is_float]; cbn [no_overflow] in NO; now rewrite NO.
Qed.

Lemma default_prim_total dv s : no_overflow dv -> exists b, default_matches_prim dv s = POk b.
Proof.
  intros NO. unfold default_matches_prim. destruct s; eauto.
  repeat match goal with |- context [if ?c then _ else _] => destruct c; eauto end.
  all: unfold maybe_float_is_float; destruct dv; eauto; cbn [no_overflow] in NO; rewrite NO; eauto.
Qed.

Lemma default_leaf_total dv kv t :
  no_overflow dv -> jget "type" kv = Some (JStr t) -> exists b, default_matches_leaf dv (JObj kv) = POk b.
Proof.
  intros NO T. cbn [default_matches_leaf]. rewrite T.
  repeat match goal with |- context [if ?c then _ else _] => destruct c; eauto end.
  now apply default_prim_total.
Qed.

Lemma prim_has_no_dot s : is_prim s = true -> has_dot s = false.
Proof.
  unfold is_prim, mem, PRIMITIVES. cbn [existsb]. intros H.
  repeat match type of H with
         | (String.eqb s ?x || _) = true => destruct (String.eqb_spec s x); [subst; reflexivity|cbn [orb] in H]
         end.
  discriminate H.
Qed.

Lemma qualify_nonprim ns s : is_prim s = false -> is_prim (qualify ns s) = false.
Proof.
  intros P. unfold qualify. destruct (negb (has_dot s) && negb (String.eqb ns "")); [|exact P].
  destruct (is_prim (ns ++ "." ++ s)) eqn:Q; [|reflexivity].
  apply prim_has_no_dot in Q. rewrite has_dot_join in Q. discriminate Q.
Qed.

(* a reference whose definition the checker knows: the code judges the default by the table entry *)
Lemma ref_default ds st q k dv :
  rel ds st -> is_prim q = false -> jget q ds = Some k ->
  (kind_default_ok k dv = true -> default_matches (st_tbl st) dv (JStr q) = POk true) /\
  (exists b, default_matches (st_tbl st) dv (JStr q) = POk b).
Proof.
  intros [_ R2] P G. destruct (R2 _ _ G) as (kv & t & A & B & C).
  rewrite (default_ref_by_definition _ dv _ _ P A), (default_complex_member _ _ _ B).
  destruct k; cbn [kind_type] in C; subst t; cbn [String.eqb Ascii.eqb Bool.eqb orb]; (split; [|eauto]);
    destruct dv; try discriminate; reflexivity.
Qed.

(** ---- the shape of a parsed union member, as far as the default check looks ---- *)
Definition pshape (ns : string) (ds : defs) (j p : json) : Prop :=
  match j with
  | JStr s => if is_prim s then p = JStr s
              else p = JStr (qualify ns s) /\ exists k, jget (qualify ns s) ds = Some k
  | JObj kv => exists kv' t, p = JObj kv' /\ jget "type" kv = Some (JStr t) /\ jget "type" kv' = Some (JStr t)
  | JArr _ => True
  | _ => False
  end.

Lemma pshape_kept ns ds ds' j p : kept ds ds' -> pshape ns ds j p -> pshape ns ds' j p.
Proof.
  intros K S. destruct j; cbn [pshape] in *; auto.
  destruct (is_prim s); [exact S|]. destruct S as [E (k & G)]. split; [exact E|]. exists k. now apply K.
Qed.

Lemma member_match ds st ns m p dv :
  rel ds st -> pshape ns ds m p ->
  (member_default_ok ds ns m dv = true -> default_matches (st_tbl st) dv p = POk true /\ no_overflow dv) /\
  (no_overflow dv -> (forall l, m <> JArr l) -> exists b, default_matches (st_tbl st) dv p = POk b).
Proof.
  intros R S. destruct m as [| | | |s|l|kv]; cbn [member_default_ok pshape] in *.
  1-4: destruct S.
  - (* a name *)
    rewrite is_prim_spec in S. destruct (spec_is_prim s) eqn:P.
    + subst p. assert (P' : is_prim s = true) by (now rewrite is_prim_spec).
      cbn [default_matches]. rewrite P'. cbn [negb andb default_matches_leaf]. split.
      * intros H. split; [now apply prim_default_matches|eapply prim_default_no_overflow; eauto].
      * intros NO _. now apply default_prim_total.
    + destruct S as [-> (k & G)].
      assert (Q : is_prim (qualify ns s) = false) by (apply qualify_nonprim; now rewrite is_prim_spec).
      destruct (ref_default _ _ _ _ dv R Q G) as [A B]. split; [|intros _ _; exact B].
      rewrite <- qualify_spec, G. intros H. split; [auto|]. destruct dv; try exact I. destruct k; discriminate H.
  - split; [discriminate|]. intros _ NL. exfalso. now apply (NL l).
  - destruct S as (kv' & t & -> & T & T'). rewrite T. cbn [default_matches].
    rewrite (default_complex_member _ _ _ T'). split.
    + intros H. destruct (spec_is_prim t) eqn:P.
      * assert (P' : is_prim t = true) by (now rewrite is_prim_spec).
        destruct (prim_not_complex _ P') as (N1 & N2 & N3 & N4 & N5 & N6). rewrite N1, N2, N3, N4, N5, N6.
        cbn [orb]. split; [now apply prim_default_matches|eapply prim_default_no_overflow; eauto].
      * destruct (String.eqb_spec t "array") as [->|N1];
          [cbn [String.eqb Ascii.eqb Bool.eqb orb] in *; destruct dv; try discriminate H; split; [reflexivity|exact I]|].
        destruct (String.eqb_spec t "map") as [->|N2];
          [cbn [String.eqb Ascii.eqb Bool.eqb orb] in *; destruct dv; try discriminate H; split; [reflexivity|exact I]|].
        destruct (String.eqb_spec t "record") as [->|N3];
          [cbn [String.eqb Ascii.eqb Bool.eqb orb] in *; destruct dv; try discriminate H; split; [reflexivity|exact I]|].
        destruct (String.eqb_spec t "enum") as [->|N4];
          [cbn [String.eqb Ascii.eqb Bool.eqb orb] in *; destruct dv; try discriminate H; split; [reflexivity|exact I]|].
        destruct (String.eqb_spec t "fixed") as [->|N5];
          [cbn [String.eqb Ascii.eqb Bool.eqb orb] in *; destruct dv; try discriminate H; split; [reflexivity|exact I]|].
        cbn [orb] in H. discriminate H.
    + intros NO _.
      repeat match goal with |- context [if ?c then _ else _] => destruct c; eauto end.
      now apply default_prim_total.
Qed.

Lemma exists_no_overflow ds st ns dv : rel ds st -> forall l ps,
  Forall2 (pshape ns ds) l ps -> existsb (fun m => member_default_ok ds ns m dv) l = true -> no_overflow dv.
Proof.
  intros R l ps F. induction F as [|m p l ps S F IH]; intros E; cbn [existsb] in E; [discriminate E|].
  apply Bool.orb_true_iff in E. destruct E as [M|E]; [|auto].
  exact (proj2 (proj1 (member_match _ _ _ _ _ dv R S) M)).
Qed.

Lemma any_match_ok ds st ns dv : rel ds st -> forall l ps,
  Forall2 (pshape ns ds) l ps -> (forall m, In m l -> forall x, m <> JArr x) ->
  existsb (fun m => member_default_ok ds ns m dv) l = true ->
  any_match (st_tbl st) dv ps = POk true.
Proof.
  intros R l ps F. induction F as [|m p l ps S F IH]; intros NL E; [discriminate E|].
  pose proof (exists_no_overflow _ _ _ _ R _ _ (Forall2_cons _ _ S F) E) as NO.
  cbn [existsb] in E. cbn [any_match].
  destruct (member_match _ _ _ _ _ dv R S) as [A B].
  destruct (member_default_ok ds ns m dv) eqn:M.
  - rewrite (proj1 (A eq_refl)). reflexivity.
  - cbn [orb] in E. destruct (B NO (NL m (or_introl eq_refl))) as [b ->]. cbn [pbind].
    destruct b; [reflexivity|]. apply IH; [|exact E]. intros m' I. apply NL. now right.
Qed.

(** ---- the induction ---- *)
Definition vfun := json -> string -> defs -> option json -> option defs.

Definition accepts_spec (v : vfun) (rec : recfun) : Prop :=
  forall j ns ds d ds' st wh, v j ns ds d = Some ds' -> rel ds st ->
    exists p st', rec j ns wh st d = POk (p, st') /\ rel ds' st' /\ kept ds ds' /\ pshape ns ds' j p.

Section AcceptStep.
  Variable v : vfun.
  Variable rec : recfun.
  Hypothesis IH : accepts_spec v rec.

  Lemma members_accept ns : forall l ds ds' st,
    valid_members v ns l ds = Some ds' -> rel ds st ->
    exists ps st', parse_members rec ns l st = POk (ps, st') /\ rel ds' st' /\ kept ds ds' /\
                   Forall2 (pshape ns ds') l ps /\ (forall m, In m l -> forall x, m <> JArr x).
  Proof.
    induction l as [|m r IHl]; intros ds ds' st H R; cbn [valid_members parse_members] in *.
    - injection H as <-. exists [], st. split; [reflexivity|]. split; [exact R|]. split; [intros n k G; exact G|].
      split; [constructor|intros m []].
    - assert (V : (forall x, m <> JArr x) /\ exists ds1, v m ns ds None = Some ds1 /\ valid_members v ns r ds1 = Some ds').
      { destruct m; try discriminate H; (split; [intros x; discriminate|]);
          destruct (v _ ns ds None) as [ds1|]; try discriminate H; eauto. }
      destruct V as (NA & ds1 & V1 & V2).
      destruct (IH _ _ _ _ _ _ false V1 R) as (p & st1 & P1 & R1 & K1 & S1).
      destruct (IHl _ _ _ V2 R1) as (ps & st2 & P2 & R2 & K2 & S2 & NL).
      exists (p :: ps), st2. rewrite P1. cbn [pbind]. rewrite P2. cbn [pbind].
      split; [reflexivity|]. split; [exact R2|]. split; [eapply kept_trans; eauto|]. split.
      + constructor; [eapply pshape_kept; eauto|exact S2].
      + intros m' [<-|I]; auto.
  Qed.

  Lemma aliases_kept fkv :
    jget "aliases" (copy_prop "doc" fkv (copy_prop "aliases" fkv (copy_prop "default" fkv
                     (jdrop RESERVED_FIELD_PROPERTIES fkv)))) = jget "aliases" fkv.
  Proof.
    rewrite copy_prop_get by reflexivity. unfold copy_prop at 1.
    destruct (jget "aliases" fkv) as [a|] eqn:E; [apply jget_jset_eq|].
    rewrite copy_prop_get by reflexivity. now apply jget_jdrop_in.
  Qed.

  Lemma field_accept ns fd ds ds' st :
    valid_field v ns fd ds = Some ds' -> rel ds st ->
    exists p st', parse_field rec ns fd st = POk (p, st') /\ rel ds' st' /\ kept ds ds'.
  Proof.
    unfold valid_field, parse_field. intros H R.
    destruct fd as [| | | | | |fkv]; try discriminate H.
    destruct (jget "name" fkv) as [[| | | |n| |]|]; try discriminate H.
    destruct (jget "type" fkv) as [ty|]; [|discriminate H].
    match type of H with (if ?c then _ else _) = _ => destruct c eqn:C; [|discriminate H] end.
    apply Bool.andb_true_iff in C. destruct C as [_ C].
    rewrite aliases_kept.
    assert (A : match jget "aliases" fkv with
                | None => POk tt | Some (JArr _) => POk tt | Some _ => PErrParse end = (POk tt : pres unit)).
    { destruct (jget "aliases" fkv) as [[| | | | |al|]|]; try discriminate C; reflexivity. }
    rewrite A. cbn [pbind].
    destruct (IH _ _ _ _ _ _ false H R) as (p & st1 & P1 & R1 & K1 & _).
    rewrite P1. cbn [pbind]. eauto.
  Qed.

  Lemma fields_accept ns : forall l ds ds' st,
    valid_fields v ns l ds = Some ds' -> rel ds st ->
    exists ps st', parse_fields rec ns l st = POk (ps, st') /\ rel ds' st' /\ kept ds ds'.
  Proof.
    induction l as [|fd r IHl]; intros ds ds' st H R; cbn [valid_fields parse_fields] in *.
    - injection H as <-. exists [], st. split; [reflexivity|]. split; [exact R|intros n k G; exact G].
    - destruct (valid_field v ns fd ds) as [ds1|] eqn:V1; [|discriminate H].
      destruct (field_accept _ _ _ _ _ V1 R) as (p & st1 & P1 & R1 & K1).
      destruct (IHl _ _ _ H R1) as (ps & st2 & P2 & R2 & K2).
      exists (p :: ps), st2. rewrite P1. cbn [pbind]. rewrite P2. cbn [pbind].
      split; [reflexivity|]. split; [exact R2|eapply kept_trans; eauto].
  Qed.

  Lemma check_default_ok d (f g : json -> bool) :
    (forall x, f x = true -> g x = true) -> opt_ok f d = true -> check_default d g = POk tt.
  Proof. intros E O. destruct d as [dv|]; [|reflexivity]. cbn [opt_ok check_default] in *. now rewrite (E _ O). Qed.

  Lemma kept_refl ds : kept ds ds.
  Proof. intros n k G; exact G. Qed.

  Lemma node_accept : accepts_spec (valid_node v) (parse_node rec).
  Proof.
    intros j ns ds d ds' st wh H R.
    destruct j as [| | | |s|l|kv]; cbn [valid_node] in H; try discriminate H.
    - (* a name *)
      cbn [parse_node pshape]. rewrite is_prim_spec.
      destruct (spec_is_prim s) eqn:P.
      + destruct (opt_ok (prim_default_ok s) d) eqn:O; [|discriminate H]. injection H as <-.
        exists (JStr s), st. split; [|auto using kept_refl].
        destruct d as [dv|]; [|reflexivity]. cbn [opt_ok] in O. rewrite (prim_default_matches _ _ P O). reflexivity.
      + destruct (jget (spec_ref ns s) ds) as [k|] eqn:G; [|discriminate H].
        destruct (opt_ok (kind_default_ok k) d) eqn:O; [|discriminate H]. injection H as <-.
        rewrite <- qualify_spec in G.
        assert (Q : is_prim (qualify ns s) = false) by (apply qualify_nonprim; now rewrite is_prim_spec).
        assert (J : jhas (qualify ns s) (st_tbl st) = true).
        { destruct (proj2 R _ _ G) as (kv & t & A & _). unfold jhas. now rewrite A. }
        rewrite J. exists (JStr (qualify ns s)), st. split; [|split; [exact R|split; [apply kept_refl|eauto]]].
        destruct d as [dv|]; [|reflexivity]. cbn [opt_ok] in O.
        rewrite (proj1 (ref_default _ _ _ _ dv R Q G) O). reflexivity.
    - (* union *)
      destruct (nodup_str (map (union_key ns) l)); [|discriminate H].
      destruct (valid_members v ns l ds) as [ds1|] eqn:VM; [|discriminate H].
      destruct (opt_ok (fun dv => existsb (fun m => member_default_ok ds1 ns m dv) l) d) eqn:O; [|discriminate H].
      injection H as <-.
      destruct (members_accept _ _ _ _ _ VM R) as (ps & st1 & PM & R1 & K1 & F & NL).
      cbn [parse_node]. rewrite PM. cbn [pbind]. exists (JArr ps), st1.
      split; [|split; [exact R1|split; [exact K1|exact I]]].
      destruct d as [dv|]; [|reflexivity]. cbn [opt_ok] in O.
      rewrite (any_match_ok _ _ _ _ R1 _ _ F NL O). reflexivity.
    - (* dict *)
      destruct (jget "type" kv) as [[| | | |t| |]|] eqn:T; try discriminate H.
      destruct (decimal_ok kv t) eqn:DO; cbn [negb] in H; [|discriminate H].
      pose proof (decimal_ok_checks _ _ DO) as DC.
      cbn [parse_node pshape]. unfold parse_dict. rewrite T. fold (base_of kv (JStr t)). rewrite DC. cbn [pbind].
      destruct (spec_is_prim t) eqn:P.
      { (* primitive in dict form *)
        destruct (opt_ok (prim_default_ok t) d) eqn:O; [|discriminate H]. injection H as <-.
        pose proof P as P'. rewrite <- is_prim_spec in P'.
        destruct (prim_not_complex _ P') as (N1 & N2 & N3 & N4 & N5 & N6).
        rewrite N1, N2, N3, N4, N5, N6, P'. cbn [orb].
        assert (DF : match d with
                     | None => POk tt
                     | Some dv => let+ b := default_matches_prim dv (JStr t) in if b then POk tt else PErrParse
                     end = (POk tt : pres unit)).
        { destruct d as [dv|]; [|reflexivity]. cbn [opt_ok] in O. now rewrite (prim_default_matches _ _ P O). }
        rewrite DF. cbn [pbind]. do 2 eexists. split; [reflexivity|]. split; [exact R|]. split; [apply kept_refl|].
        do 2 eexists. split; [reflexivity|]. split; [reflexivity|apply base_type]. }
      destruct (String.eqb t "array") eqn:E1.
      { destruct (jget "items" kv) as [it|]; [|discriminate H].
        match type of H with (if ?c then _ else _) = _ => destruct c eqn:O; [|discriminate H] end.
        destruct (IH _ _ _ _ _ _ false H R) as (p & st1 & P1 & R1 & K1 & _). rewrite P1. cbn [pbind].
        rewrite (check_default_ok d _ is_jarr (fun x X => X) O).
        cbn [pbind]. do 2 eexists. split; [reflexivity|]. split; [exact R1|]. split; [exact K1|].
        do 2 eexists. split; [reflexivity|]. split; [reflexivity|]. getk. reflexivity. }
      destruct (String.eqb t "map") eqn:E2.
      { destruct (jget "values" kv) as [it|]; [|discriminate H].
        match type of H with (if ?c then _ else _) = _ => destruct c eqn:O; [|discriminate H] end.
        destruct (IH _ _ _ _ _ _ false H R) as (p & st1 & P1 & R1 & K1 & _). rewrite P1. cbn [pbind].
        rewrite (check_default_ok d _ is_jobj (fun x X => X) O).
        cbn [pbind]. do 2 eexists. split; [reflexivity|]. split; [exact R1|]. split; [exact K1|].
        do 2 eexists. split; [reflexivity|]. split; [reflexivity|]. getk. reflexivity. }
      destruct (String.eqb t "enum") eqn:E3.
      { apply String.eqb_eq in E3. subst t.
        match type of H with (if ?c then _ else _) = _ => destruct c eqn:C; [|discriminate H] end.
        apply Bool.andb_true_iff in C. destruct C as [C OD]. apply Bool.andb_true_iff in C. destruct C as [NO FR].
        apply Bool.negb_true_iff in FR.
        destruct (jget "symbols" kv) as [[| | | | |syms|]|] eqn:SY; try discriminate H.
        destruct (strings_of syms) as [ss|] eqn:SS; [|discriminate H].
        match type of H with (if ?c then _ else _) = _ => destruct c eqn:C2; [|discriminate H] end.
        apply Bool.andb_true_iff in C2. destruct C2 as [C2 DF]. apply Bool.andb_true_iff in C2. destruct C2 as [F1 ND].
        injection H as <-.
        rewrite (name_ok_schema_name _ ns NO). cbn [pbind]. unfold declare. rewrite (rel_fresh _ _ _ R FR). cbn [pbind].
        assert (V : validate_enum_symbols kv = POk tt).
        { unfold validate_enum_symbols. rewrite SY, (strings_symbols _ _ SS F1), <- nodup_same, ND. cbn [negb].
          destruct (jget "default" kv) as [[| | | |dv| |]|]; try discriminate DF; [|reflexivity]. now rewrite DF. }
        rewrite V. cbn [pbind].
        rewrite (check_default_ok d _ is_jstr (fun x X => X) OD).
        cbn [pbind]. do 2 eexists. split; [reflexivity|].
        split; [apply (rel_declare _ _ _ KEnum _ "enum" R FR); [getk; reflexivity|reflexivity]|].
        split; [apply kept_snoc|]. do 2 eexists. split; [reflexivity|]. split; [reflexivity|]. getk. reflexivity. }
      destruct (String.eqb t "fixed") eqn:E4.
      { apply String.eqb_eq in E4. subst t.
        match type of H with (if ?c then _ else _) = _ => destruct c eqn:C; [|discriminate H] end.
        injection H as <-.
        apply Bool.andb_true_iff in C. destruct C as [C SZ]. apply Bool.andb_true_iff in C. destruct C as [C OD].
        apply Bool.andb_true_iff in C. destruct C as [NO FR]. apply Bool.negb_true_iff in FR.
        rewrite (name_ok_schema_name _ ns NO). cbn [pbind]. unfold declare. rewrite (rel_fresh _ _ _ R FR). cbn [pbind].
        rewrite (check_default_ok d _ is_jstr (fun x X => X) OD).
        cbn [pbind]. destruct (jget "size" kv) as [sz|]; [|discriminate SZ].
        do 2 eexists. split; [reflexivity|].
        split; [apply (rel_declare _ _ _ KFixed _ "fixed" R FR); [getk; reflexivity|reflexivity]|].
        split; [apply kept_snoc|]. do 2 eexists. split; [reflexivity|]. split; [reflexivity|]. getk. reflexivity. }
      destruct (String.eqb t "record") eqn:E5; [|discriminate H].
      apply String.eqb_eq in E5. subst t.
      match type of H with (if ?c then _ else _) = _ => destruct c eqn:C; [|discriminate H] end.
      apply Bool.andb_true_iff in C. destruct C as [C OD]. apply Bool.andb_true_iff in C. destruct C as [NO FR].
      apply Bool.negb_true_iff in FR.
      destruct (jget "fields" kv) as [[| | | | |fl|]|] eqn:FL; try discriminate H.
      destruct (nodup_str (field_names fl)); [|discriminate H].
      cbn [orb String.eqb Ascii.eqb Bool.eqb].
      rewrite (name_ok_schema_name _ ns NO). cbn [pbind]. unfold declare. rewrite (rel_fresh _ _ _ R FR). cbn [pbind].
      fold (rbase kv "record" (spec_fullname ns kv) ns).
      rewrite (check_default_ok d _ is_jobj (fun x X => X) OD).
      cbn [pbind].
      assert (R2 : rel (ds ++ [(spec_fullname ns kv, KRecord)])%list
                       (set_tbl (spec_fullname ns kv) (JObj (rbase kv "record" (spec_fullname ns kv) ns))
                                (declared (spec_fullname ns kv) st))).
      { apply (rel_declare _ _ _ KRecord _ "record" R FR); [getk; reflexivity|reflexivity]. }
      match goal with |- context [parse_fields rec ?n ?l ?s] =>
        destruct (fields_accept n l _ _ s H R2) as (fs & st3 & PF & R3 & K3) end.
      rewrite PF. cbn [pbind].
      assert (G : jget (spec_fullname ns kv) ds' = Some KRecord).
      { apply K3. rewrite jget_app. unfold jhas in FR. destruct (jget (spec_fullname ns kv) ds); [discriminate FR|].
        cbn [jget]. now rewrite String.eqb_refl. }
      assert (KK : kept ds ds') by (eapply kept_trans; [apply kept_snoc|exact K3]).
      destruct wh; do 2 eexists; (split; [reflexivity|]);
        (split; [apply rel_close; [exact R3|exact G|getk; reflexivity]|]);
        (split; [exact KK|]); do 2 eexists; (split; [reflexivity|]); (split; [reflexivity|]); getk; reflexivity.
  Qed.
End AcceptStep.

Theorem accept_rec f : accepts_spec (valid_f f) (parse_rec f).
Proof.
  induction f as [|f IH]; cbn [valid_f parse_rec].
  - intros j ns ds d ds' st wh H. discriminate H.
  - apply node_accept. exact IH.
Qed.

(** ---- parse_schema ---- *)
Lemma top_member_accept f m ds ds' st :
  unmarked m = true -> (forall x, m <> JArr x) ->
  valid_f f m "" ds None = Some ds' -> rel ds st ->
  exists p st', parse_schema_rec (S f) m st = POk (p, st') /\ rel ds' st'.
Proof.
  intros U A V R. cbn [parse_schema_rec]. unfold run_parse.
  destruct (accept_rec f _ _ _ _ _ _ true V R) as (p & st' & P & R' & _).
  destruct m as [| | | | |l|kv]; eauto; [exfalso; now apply (A l)|].
  rewrite unmarked_obj in U. apply Bool.negb_true_iff in U. rewrite U. eauto.
Qed.

Lemma tops_accept f : forall l ds ds' st,
  forallb unmarked l = true ->
  valid_members (valid_f f) "" l ds = Some ds' -> rel ds st ->
  exists ps st', parse_tops (parse_schema_rec (S f)) l st = POk (ps, st').
Proof.
  induction l as [|m r IH]; intros ds ds' st U V R; cbn [parse_tops]; [eauto|].
  cbn [forallb] in U. apply Bool.andb_true_iff in U. destruct U as [U1 U2].
  cbn [valid_members] in V.
  assert (W : (forall x, m <> JArr x) /\ exists ds1, valid_f f m "" ds None = Some ds1 /\
              valid_members (valid_f f) "" r ds1 = Some ds').
  { destruct m; try discriminate V; (split; [intros x; discriminate|]);
      destruct (valid_f f _ "" ds None) as [ds1|]; try discriminate V; eauto. }
  destruct W as (A & ds1 & V1 & V2).
  destruct (top_member_accept f m ds ds1 st U1 A V1 R) as (p & st1 & P1 & R1).
  rewrite P1. cbn [pbind].
  destruct (IH _ _ _ U2 V2 R1) as (ps & st2 & P2). rewrite P2. cbn [pbind]. eauto.
Qed.

Lemma rel_empty t : rel [] (mkst [] t).
Proof. split; [intros n H; discriminate H|intros n k H; discriminate H]. Qed.

Theorem valid_accepted j :
  unmarked j = true -> valid_raw j = true -> exists f r, parse_schema f j [] = POk r.
Proof.
  unfold valid_raw. intros U V.
  destruct (valid_f (S (S (jdepth j))) j "" [] None) as [ds'|] eqn:E; [clear V|discriminate V].
  pose proof (rel_empty []) as K.
  destruct j as [| | | | |l|kv].
  6: { (* top-level union *)
    set (F := S (jdepth (JArr l))) in *.
    cbn [valid_f] in E. cbn [valid_node] in E.
    destruct (nodup_str (map (union_key "") l)); [|discriminate E].
    destruct (valid_members (valid_f F) "" l []) as [ds1|] eqn:VM; [|discriminate E].
    rewrite unmarked_arr in U.
    destruct (tops_accept _ _ _ _ _ U VM K) as (ps & st' & P).
    exists (S (S F)). unfold parse_schema.
    change (parse_schema_rec (S (S F)) (JArr l) (mkst [] []))
      with (pbind (parse_tops (parse_schema_rec (S F)) l (mkst [] [])) (fun '(ps, st1) => POk (JArr ps, st1))).
    rewrite P. cbn [pbind]. eauto. }
  all: destruct (top_member_accept _ _ _ _ _ U ltac:(intros x; discriminate) E K) as (p & st' & P & _);
    eexists; unfold parse_schema; rewrite P; cbn [pbind]; eauto.
Qed.
