(** C20: what the generator produces is accepted by the binary and the container writers and read back.
    Composition of C20 (generated values validate), C10 (validate + wneed <-> the writer elaborates), C01 (round trip,
    normalisation) and C04-C07 (container histories read back).  The float facts come from proofs/GenFloats.v /
    FloatProofs.v (Flocq: Reals axioms + classic). *)
From Coq Require Import String Lia ZifyBool.
From FA Require Import model.Base model.Varint model.Value model.Schema model.Utf8 model.Float model.Codec
                       model.Validate model.Write model.Read model.Conform model.Gen
                       model.Container model.ContainerPy proofs.ContainerProofs proofs.ContainerPyProofs
                       proofs.GenProofs
                       proofs.VarintProofs proofs.CodecProofs proofs.ElabProofs proofs.AcceptIff proofs.ValidateTotal
                       proofs.GenFloats proofs.ElabFloats.
Open Scope Z_scope.

(** *** wneed is monotone in its height *)
Lemma field_wneed_impl (D1 D2 : schema -> pyval -> Prop) o kv fd :
  (forall s v, D1 s v -> D2 s v) -> field_wneed D1 o kv fd -> field_wneed D2 o kv fd.
Proof.
  intros H. unfold field_wneed.
  assert (Hnum : forall t x,
            match t with SFloat | SDouble => dbl_ok x /\ (forall b, to_double x = WOk b -> D1 t (PFloat b)) | _ => D1 t x end ->
            match t with SFloat | SDouble => dbl_ok x /\ (forall b, to_double x = WOk b -> D2 t (PFloat b)) | _ => D2 t x end).
  { intros t x. destruct t; try apply H; intros [H1 H2]; (split; [exact H1|intros b Hb; apply H; apply H2; exact Hb]). }
  destruct (dict_get kv (fname fd)); [apply Hnum|]. intros [Hs Hr]. split; [exact Hs|].
  destruct (fdefault fd); [apply Hnum; exact Hr|]. destruct Hr as (H1 & H2 & H3). repeat split; try assumption. apply H. exact H3.
Qed.

Lemma wneed_mono : forall n o e s v, wneed n o e s v -> wneed (S n) o e s v.
Proof.
  induction n as [|n IH]; intros o e s v H; [destruct H|].
  destruct s; try exact H.
  - intros l Hl. eapply Forall_impl; [|exact (H l Hl)]. intros; apply IH; assumption.
  - intros kv Hk. eapply Forall_impl; [|exact (H kv Hk)]. intros; apply IH; assumption.
  - assert (HS : (exists i c, choose (fun c x => validate n o e c (Some x)) e v bs 0 (-1) (-1) false = Ok i /\ nthZ bs i = Some c /\ wneed n o e c v) ->
                 exists i c, choose (fun c x => validate (S n) o e c (Some x)) e v bs 0 (-1) (-1) false = Ok i /\ nthZ bs i = Some c /\ wneed (S n) o e c v).
    { intros (i & c & H1 & H2 & H3). exists i, c. split; [|split; [exact H2|apply IH; exact H3]].
      eapply choose_okmono; [|exact H1]. intros c0 b0 H0. eapply validate_fuel_mono; [|exact H0]. lia. }
    change (wneed (S (S n)) o e (SUnion bs) v) with
      (match v with
       | PTuple l => if disable_tuple o
                     then exists i c, choose (fun c x => validate (S n) o e c (Some x)) e v bs 0 (-1) (-1) false = Ok i /\ nthZ bs i = Some c /\ wneed (S n) o e c v
                     else forall name x b, l = [PStr name; x] -> first_named name bs = Some b -> wneed (S n) o e b x
       | _ => exists i c, choose (fun c x => validate (S n) o e c (Some x)) e v bs 0 (-1) (-1) false = Ok i /\ nthZ bs i = Some c /\ wneed (S n) o e c v end).
    change (wneed (S n) o e (SUnion bs) v) with
      (match v with
       | PTuple l => if disable_tuple o
                     then exists i c, choose (fun c x => validate n o e c (Some x)) e v bs 0 (-1) (-1) false = Ok i /\ nthZ bs i = Some c /\ wneed n o e c v
                     else forall name x b, l = [PStr name; x] -> first_named name bs = Some b -> wneed n o e b x
       | _ => exists i c, choose (fun c x => validate n o e c (Some x)) e v bs 0 (-1) (-1) false = Ok i /\ nthZ bs i = Some c /\ wneed n o e c v end) in H.
    destruct v; try (apply HS; exact H). destruct (disable_tuple o); [apply HS; exact H|].
    intros name x b Hl Hf. apply IH. exact (H name x b Hl Hf).
  - intros kv Hk. destruct (H kv Hk) as [Hx Hf]. split; [exact Hx|]. eapply Forall_impl; [|exact Hf].
    intros fd Hfd. eapply field_wneed_impl; [|exact Hfd]. intros; apply IH; assumption.
  - intros s' Hl. apply IH. exact (H s' Hl).
  - apply IH. exact H.
Qed.

Lemma wneed_le n m o e s v : (n <= m)%nat -> wneed n o e s v -> wneed m o e s v.
Proof. induction 1 as [|m _ IH]; intros H; [exact H|]. apply wneed_mono. auto. Qed.

(** *** the side condition [gschb]: acyclic, references resolve, so every validation gives a verdict *)
Lemma gschb_ranked : forall n e s, gschb n e s = true -> ranked n e s.
Proof.
  induction n as [|n IH]; intros e s H; [discriminate|]. destruct s; cbn [gschb ranked] in *; auto.
  - rewrite forallb_forall in H. apply Forall_forall. auto.
  - rewrite forallb_forall in H. apply Forall_forall. intros fd Hfd. apply IH. specialize (H fd Hfd).
    apply andb_prop in H. destruct H as [H _]. apply andb_prop in H. apply H.
  - destruct (lookup e n0) as [s'|]; [|discriminate]. exists s'. split; [reflexivity|apply IH; exact H].
Qed.

Lemma gschb_noerr o e : forall fv n s ov, gschb n e s = true -> validate fv o e s ov <> Err.
Proof.
  induction fv as [|fv IH]; intros n s ov H; [discriminate|]. cbn [validate].
  destruct ov as [v|]; [|destruct (strict o); [discriminate|eapply IH; exact H]].
  destruct n as [|n]; [discriminate|].
  destruct s; try discriminate; cbn [gschb] in H.
  - destruct (as_sequence v); [|discriminate]. apply ValidateTotal.all_items_noerr. intros x. eapply IH; exact H.
  - destruct v; try discriminate. destruct (forallb is_str_key kv); [|discriminate]. apply ValidateTotal.all_items_noerr. intros x. eapply IH; exact H.
  - rewrite forallb_forall in H.
    assert (HA : forall x, any_branch (validate fv o e) (hint_pass e x) x bs <> Err).
    { intros x. apply ValidateTotal.any_branch_noerr. intros b Hb. eapply IH. apply H. exact Hb. }
    destruct v; try apply HA. destruct (disable_tuple o); [apply HA|].
    destruct l as [|name [|x [|? ?]]]; try discriminate. apply hinted_noerr. intros b Hb. eapply IH. apply H. exact Hb.
  - destruct v; try discriminate.
    destruct (match dict_get kv (s2b "-type") with Some (PStr t) => bytes_eqb t n0 | Some _ => false | None => true end); [|discriminate].
    apply ValidateTotal.all_fields_noerr. rewrite forallb_forall in H. intros fd ov Hin. eapply IH.
    specialize (H fd Hin). apply andb_prop in H. destruct H as [H _]. apply andb_prop in H. apply H.
  - destruct (lookup e n0) as [s'|] eqn:El; [|discriminate]. eapply IH. exact H.
  - eapply IH. exact H.
Qed.

Lemma gschb_verdict o e n s v fv : gschb n e s = true -> (2 * n <= fv + 1)%nat -> exists b, validate fv o e s (Some v) = Ok b.
Proof.
  intros H Hf. pose proof (gschb_noerr o e fv n s (Some v) H) as H1.
  pose proof (validate_ranked_nofuel o e n s (gschb_ranked _ _ _ H) fv (Some v) Hf) as H2.
  destruct (validate fv o e s (Some v)) as [b| |]; [eauto|contradiction|contradiction].
Qed.

(** *** numbers of safe values convert *)
Lemma safe_dbl_ok x : safe_py x = true -> dbl_ok x.
Proof.
  intros H z ->. cbn [safe_py] in H. destruct (z2d_int64 z ltac:(lia)) as (d & Hd & _). eauto.
Qed.
Lemma safe_narrows x b : safe_py x = true -> to_double x = WOk b -> exists y, d2s b = Ok y.
Proof.
  destruct x; cbn [to_double safe_py]; intros H Hb; try discriminate.
  - destruct (z2d_int64 z ltac:(lia)) as (d & Hd & Hy). rewrite Hd in Hb. cbn [of_res] in Hb. injection Hb as <-. exact Hy.
  - injection Hb as <-. destruct (d2s bits); try discriminate. eauto.
Qed.
Lemma wneed_float_leaf o e x : safe_py x = true -> wneed 1 o e SFloat x.
Proof. intros H. split; [apply safe_dbl_ok; exact H|intros b Hb; eapply safe_narrows; eassumption]. Qed.
Lemma wneed_double_any o e : forall c v, is_double c = true -> dbl_ok v -> exists N, wneed N o e c v.
Proof.
  induction c; intros v Hd Hv; try discriminate Hd.
  - exists 1%nat. exact Hv.
  - unfold is_double in *. cbn [strip] in Hd. destruct (IHc v Hd Hv) as [N HN]. exists (S N). exact HN.
Qed.

Lemma Forall_ex_max {A} (P : nat -> A -> Prop) (l : list A) : (forall n m x, (n <= m)%nat -> P n x -> P m x) ->
  Forall (fun x => exists n, P n x) l -> exists N, Forall (P N) l.
Proof.
  intros Hm. induction 1 as [|x l [n Hn] _ [N HN]]; [exists O; constructor|].
  exists (Nat.max n N). constructor; [eapply Hm; [|exact Hn]; lia|].
  eapply Forall_impl; [|exact HN]. intros y Hy. eapply Hm; [|exact Hy]. lia.
Qed.

Lemma safe_sequence v l : safe_py v = true -> as_sequence v = Some l -> Forall (fun x => safe_py x = true) l.
Proof.
  destruct v; cbn [as_sequence safe_py]; intros H Hs; try discriminate; injection Hs as <-.
  - apply Forall_forall. intros x Hx. apply in_map_iff in Hx. destruct Hx as (z & <- & Hz).
    rewrite forallb_forall in H. specialize (H z Hz). unfold is_byteb in H. cbn [safe_py]. lia.
  - apply forallb_Forall. exact H.
Qed.
Lemma safe_dict_get kv k x : safe_py (PDict kv) = true -> dict_get kv k = Some x -> safe_py x = true.
Proof.
  cbn [safe_py]. intros H Hg. rewrite forallb_forall in H. destruct (dict_get_in _ _ _ Hg) as [k' Hin].
  specialize (H _ Hin). cbn [fst snd] in H. apply andb_prop in H. apply H.
Qed.

(** *** a validated safe value is writable by the default writer: [wneed] holds at some height *)
Theorem wneed_of_valid o e : default_writer o -> named_env e = true ->
  forall n s, gschb n e s = true -> forall v fv, safe_py v = true -> validate fv o e s (Some v) = Ok true ->
  exists N, wneed N o e s v.
Proof.
  intros [Hso Hsd] Hne. induction n as [|n IH]; intros s Hg v fv Hsafe Hv; [discriminate|].
  destruct fv as [|fv]; [discriminate|]. cbn [validate] in Hv.
  destruct s; try (exists 1%nat; exact I); cbn [gschb] in Hg.
  - exists 1%nat. apply wneed_float_leaf. exact Hsafe.
  - exists 1%nat. apply safe_dbl_ok. exact Hsafe.
  - (* array *)
    destruct (as_sequence v) as [l|] eqn:Es; [|discriminate]. apply all_items_true in Hv.
    pose proof (safe_sequence v l Hsafe Es) as Hsl.
    destruct (Forall_ex_max (fun N x => wneed N o e s x) l) as [N HN].
    { intros a b x Hab. apply wneed_le. exact Hab. }
    { rewrite Forall_forall in *. intros x Hx. eapply IH; [exact Hg|apply Hsl; exact Hx|apply Hv; exact Hx]. }
    exists (S N). cbn [wneed]. intros l' Hl'. apply as_sequence_items in Hl'. rewrite Es in Hl'. injection Hl' as <-. exact HN.
  - (* map *)
    destruct v; try discriminate. destruct (forallb is_str_key kv); [|discriminate]. apply all_items_true in Hv.
    destruct (Forall_ex_max (fun N (p : pyval * pyval) => wneed N o e s (snd p)) kv) as [N HN].
    { intros a b x Hab. apply wneed_le. exact Hab. }
    { rewrite Forall_forall in *. intros p Hp. eapply IH; [exact Hg| |apply Hv; apply in_map; exact Hp].
      cbn [safe_py] in Hsafe. rewrite forallb_forall in Hsafe. specialize (Hsafe p Hp). apply andb_prop in Hsafe. apply Hsafe. }
    exists (S N). cbn [wneed]. intros kv' E. injection E as <-. exact HN.
  - (* union *)
    destruct v; try discriminate Hsafe.
    all: rewrite forallb_forall in Hg.
    all: match type of Hv with any_branch _ _ ?x _ = _ => set (v := x) in * end.
    all: assert (Hverd : forall c, In c bs -> exists b, vval (2 * n) o e c v = Ok b)
           by (intros c Hc; apply (gschb_verdict o e n c v (2 * n)); [apply Hg; exact Hc|lia]).
    all: destruct (choose_total (vval (2 * n) o e) e v bs Hverd 0 (-1) (-1) false) as (j & Hj & Hr).
    all: apply any_branch_true in Hv; destruct Hv as (pre & c0 & post & Hbs & _ & Hpass0 & Hc0).
    all: assert (Hin0 : In c0 bs) by (rewrite Hbs; apply in_or_app; right; left; reflexivity).
    all: assert (Hc0n : validate (2 * n) o e c0 (Some v) = Ok true)
           by (destruct (Hverd c0 Hin0) as [bb Hbb]; unfold vval in Hbb; rewrite Hbb; f_equal;
               pose proof (validate_fuel_mono fv (Nat.max fv (2 * n)) o e (Nat.le_max_l _ _) _ _ _ Hc0) as H1;
               pose proof (validate_fuel_mono (2 * n) (Nat.max fv (2 * n)) o e (Nat.le_max_r _ _) _ _ _ Hbb) as H2; congruence).
    all: assert (Hj0 : 0 <= j < len bs)
           by (destruct Hr as [->|Hr]; [|lia]; exfalso; apply search_none in Hj; rewrite Forall_forall in Hj;
               destruct (Hj c0 Hin0) as [Hj0|Hj0]; unfold pass, vval in Hj0; congruence).
    all: destruct (nthZ_some bs j Hj0) as [c Hc]; assert (Hinc : In c bs) by (eapply ElabProofs.nthZ_In; exact Hc).
    all: assert (HNc : exists Nc, wneed Nc o e c v)
           by (destruct (search_valid _ _ _ _ _ Hj ltac:(lia)) as (c' & Hc' & _ & Hcase); rewrite Hc in Hc'; injection Hc' as <-;
               destruct Hcase as [Hok|(Hdbl & k & cf & _ & _ & Hcf & Hkf)];
               [eapply IH; [apply Hg; exact Hinc|exact Hsafe|exact Hok]
               |apply wneed_double_any; [exact Hdbl|apply safe_dbl_ok; exact Hsafe]]).
    all: destruct HNc as [Nc HNc]; exists (S (Nat.max (2 * n) Nc)).
    all: assert (Hs : exists i c1, choose (fun c x => validate (Nat.max (2 * n) Nc) o e c (Some x)) e v bs 0 (-1) (-1) false = Ok i /\
                                 nthZ bs i = Some c1 /\ wneed (Nat.max (2 * n) Nc) o e c1 v)
           by (exists j, c; split; [eapply choose_okmono; [|exact Hj]; intros c1 b1 H1; unfold vval in H1;
                                   eapply validate_fuel_mono; [|exact H1]; lia
                                  |split; [exact Hc|eapply wneed_le; [|exact HNc]; lia]]).
    all: exact Hs.
  - (* record *)
    destruct v; try discriminate.
    destruct (match dict_get kv (s2b "-type") with Some (PStr t) => bytes_eqb t n0 | Some _ => false | None => true end); [|discriminate].
    apply all_fields_true in Hv. rewrite forallb_forall in Hg.
    assert (Hnum : forall t x, gschb n e t = true -> safe_py x = true -> validate fv o e t (Some x) = Ok true ->
              exists N, match t with
                        | SFloat | SDouble => dbl_ok x /\ forall b, to_double x = WOk b -> wneed N o e t (PFloat b)
                        | _ => wneed N o e t x end).
    { intros t x Ht Hx Hvx.
      destruct t; try (eapply IH; eassumption).
      - exists 1%nat. split; [apply safe_dbl_ok; exact Hx|]. intros b1 Hb1. split; [intros z1 E1; discriminate E1|].
        intros b2 Hb2. cbn [to_double] in Hb2. injection Hb2 as <-. eapply safe_narrows; eassumption.
      - exists 1%nat. split; [apply safe_dbl_ok; exact Hx|]. intros b1 Hb1 z1 E1. discriminate E1. }
    destruct (Forall_ex_max (fun N fd => field_wneed (wneed N o e) o kv fd) fs) as [N HN].
    { intros a b fd Hab Hfd. eapply field_wneed_impl; [|exact Hfd]. intros s0 v0. apply wneed_le. exact Hab. }
    { rewrite Forall_forall in *. intros fd Hfd. specialize (Hv fd Hfd). specialize (Hg fd Hfd).
      apply andb_prop in Hg. destruct Hg as [Hg Hdf]. apply andb_prop in Hg. destruct Hg as [Hgt Hpl].
      unfold field_value in Hv. unfold field_wneed.
      destruct (dict_get kv (fname fd)) as [x|] eqn:Eg.
      - apply Hnum; [exact Hgt|eapply safe_dict_get; eassumption|exact Hv].
      - destruct (fdefault fd) as [d|] eqn:Edf.
        + destruct (Hnum (ftype fd) d Hgt Hdf Hv) as [N HN]. exists N. split; [exact Hso|exact HN].
        + destruct fv as [|fv']; [discriminate|]. cbn [validate] in Hv. rewrite Hso in Hv.
          destruct (IH (ftype fd) Hgt PNone fv' eq_refl Hv) as [N HN]. exists N. split; [exact Hso|]. split; [exact Hsd|].
          split; [|exact HN]. eapply none_nullok; [exact Hne|exact Hpl|exact Hv]. }
    exists (S N). cbn [wneed]. intros kv' E. injection E as <-. split; [rewrite Hso, Hsd; intros H0; discriminate H0|exact HN].
  - (* reference *)
    destruct (lookup e n0) as [s'|] eqn:El; [|discriminate]. destruct (IH s' Hg v fv Hsafe Hv) as [N HN].
    exists (S N). cbn [wneed]. intros s'' Hl. rewrite El in Hl. injection Hl as <-. exact HN.
  - destruct (IH s Hg v fv Hsafe Hv) as [N HN]. exists (S N). exact HN.
Qed.

(** *** what the generator produces is well-formed, safe data *)
Definition good (v : pyval) : Prop := safe_py v = true /\ wf_py v = true /\ pyfloats_ok v = true.

Lemma ascii_wf s : Forall (fun c => 0 <= c < 128) s -> len s < 2 ^ 63 -> wf_py (PStr s) = true.
Proof.
  intros H Hl. cbn [wf_py]. unfold bytes_okb.
  assert (H1 : forallb is_byteb s = true).
  { apply forallb_forall. rewrite Forall_forall in H. intros c Hc. specialize (H c Hc). unfold is_byteb. lia. }
  assert (H2 : utf8_valid s = true).
  { clear Hl H1. induction H as [|c s0 Hc _ IH].
    - reflexivity.
    - cbn [utf8_valid]. destruct (c <? 128) eqn:E; [|lia]. rewrite IH. lia. }
  rewrite H1, H2. lia.
Qed.

Lemma good_str s : wf_py (PStr s) = true -> good (PStr s).
Proof. intros H. split; [reflexivity|split; [exact H|reflexivity]]. Qed.

Lemma rand_letters_ascii k : forall rs s rs', rand_letters k rs = Ok (s, rs') -> Forall (fun c => 0 <= c < 128) s /\ length s = k.
Proof.
  induction k as [|k IH]; cbn [rand_letters]; intros rs s rs' H.
  - injection H as <- <-. split; [constructor|reflexivity].
  - destruct (draw rs) as [[d r0]| |]; cbn [bind] in H; try discriminate.
    destruct (rand_letters k r0) as [[l r1]| |] eqn:E; cbn [bind] in H; try discriminate. injection H as <- <-.
    destruct (IH _ _ _ E) as [H1 H2]. split; [|cbn [length]; congruence]. constructor; [|exact H1].
    unfold ascii_letter. pose proof (Z.mod_pos_bound d 52 ltac:(lia)). destruct (d mod 52 <? 26) eqn:E26; lia.
Qed.

Lemma gen_string_good lt rs v rs' : gen_string lt rs = Ok (v, rs') -> good v.
Proof.
  intros H. unfold gen_string in H. destruct (lt_is lt "uuid") eqn:El.
  - assert (Hlt : lt = s2b "uuid") by (apply gbeqb_eq; exact El).
    assert (Hg : gen 1 [] (SAnnot (s2b "uuid") SString) rs = Ok (v, rs')).
    { rewrite annot_string_unfold. unfold gen_string. rewrite lt_is_refl. exact H. }
    destruct (readable_uuid _ _ _ _ _ Hg) as (h & -> & Hlen & Hhex). apply good_str. apply ascii_wf.
    + eapply Forall_impl; [|exact Hhex]. intros c [Hc|Hc]; lia.
    + unfold len. rewrite Hlen. cbn. lia.
  - destruct (gen_utf8 rs) as [[s r0]| |] eqn:E; cbn [bind] in H; try discriminate. injection H as <- <-.
    destruct (rand_letters_ascii _ _ _ _ E) as [H1 H2]. apply good_str. apply ascii_wf; [exact H1|unfold len; rewrite H2; cbn; lia].
Qed.

Lemma good_int z : - 2 ^ 63 <= z <= 2 ^ 63 -> good (PInt z).
Proof. intros H. split; [cbn [safe_py]; lia|split; reflexivity]. Qed.

Lemma gen_float_good rs v rs' : gen_float rs = Ok (v, rs') -> good v.
Proof.
  intros H. destruct (gen_float_flt _ _ _ H) as (b & -> & Hb). split; [|split].
  - cbn [safe_py]. destruct (d2s_below_one b Hb) as [x ->]. reflexivity.
  - reflexivity.
  - cbn [pyfloats_ok]. unfold ONE_BITS in Hb. lia.
Qed.

Lemma gen_bytes_good n rs v rs' : n < 2 ^ 63 -> gen_bytes n rs = Ok (v, rs') -> good v.
Proof.
  intros Hn H. destruct (gen_bytes_len _ _ _ _ H) as (b & -> & Hl & Hb).
  assert (H1 : forallb is_byteb b = true).
  { apply forallb_forall. rewrite Forall_forall in Hb. intros c Hc. specialize (Hb c Hc). unfold is_byte in Hb. unfold is_byteb. lia. }
  split; [exact H1|split; [|reflexivity]]. cbn [wf_py]. unfold bytes_okb. rewrite H1. lia.
Qed.

(* dicts built by dict_set *)
Definition dent (Gd : pyval -> Prop) (kv : list (pyval * pyval)) : Prop :=
  Forall (fun p => (exists k, fst p = PStr k /\ wf_py (PStr k) = true) /\ Gd (snd p)) kv.

Lemma dict_set_dent Gd kv k v : dent Gd kv -> wf_py (PStr k) = true -> Gd v -> dent Gd (dict_set kv k v).
Proof.
  unfold dent. intros H Hk Hv. induction H as [|[k' v'] kv [(k0 & Hk0 & Hw0) Hp] Ht IH]; cbn [dict_set].
  - constructor; [|constructor]. split; [exists k; split; [reflexivity|exact Hk]|exact Hv].
  - cbn [fst snd] in *. subst k'. destruct (bytes_eqb k0 k).
    + constructor; [split; [exists k0; split; [reflexivity|exact Hw0]|exact Hv]|exact Ht].
    + constructor; [split; [exists k0; split; [reflexivity|exact Hw0]|exact Hp]|exact IH].
Qed.

Lemma key_in_set K kv k v : existsb (fun p => py_eqb K (fst p)) (dict_set kv k v) = true ->
  existsb (fun p => py_eqb K (fst p)) kv = true \/ py_eqb K (PStr k) = true.
Proof.
  induction kv as [|[k' v'] kv IH]; cbn [dict_set existsb fst].
  - rewrite orb_false_r. intros H. right. exact H.
  - destruct k'; try (cbn [existsb fst]; intros H; apply orb_prop in H; destruct H as [H|H]; [left; rewrite H; reflexivity|
        destruct (IH H) as [H'|H']; [left; rewrite H'; apply orb_true_r|right; exact H']]).
    destruct (bytes_eqb s k) eqn:E; cbn [existsb fst]; intros H; apply orb_prop in H; destruct H as [H|H].
    + left. rewrite H. reflexivity.
    + left. rewrite H. apply orb_true_r.
    + left. rewrite H. reflexivity.
    + destruct (IH H) as [H'|H']; [left; rewrite H'; apply orb_true_r|right; exact H'].
Qed.

Lemma dict_set_nodup Gd kv k v : dent Gd kv -> nodup_keys kv = true -> nodup_keys (dict_set kv k v) = true.
Proof.
  unfold dent. intros H. induction H as [|[k' v'] kv [(k0 & Hk0 & _) _] _ IH]; intros Hn; cbn [dict_set nodup_keys]; [reflexivity|].
  cbn [fst] in Hk0. subst k'. cbn [nodup_keys] in Hn. apply andb_prop in Hn. destruct Hn as [H1 H2].
  destruct (bytes_eqb k0 k) eqn:E; cbn [nodup_keys]; [rewrite H1, H2; reflexivity|].
  rewrite (IH H2), andb_true_r. destruct (existsb (fun p => py_eqb (PStr k0) (fst p)) (dict_set kv k v)) eqn:Ex; [|reflexivity].
  exfalso. destruct (key_in_set _ _ _ _ Ex) as [H'|H']; [rewrite H' in H1; discriminate|]. cbn [py_eqb] in H'. congruence.
Qed.

Lemma dict_set_length kv k v : (length (dict_set kv k v) <= S (length kv))%nat.
Proof.
  induction kv as [|[k' v'] kv IH]; cbn [dict_set length]; [lia|].
  destruct k'; cbn [length]; try lia. destruct (bytes_eqb s k); cbn [length]; lia.
Qed.

Definition dgood (kv : list (pyval * pyval)) : Prop := dent good kv /\ nodup_keys kv = true.

Lemma dgood_set kv k v : dgood kv -> wf_py (PStr k) = true -> good v -> dgood (dict_set kv k v).
Proof. intros [H1 H2] Hk Hv. split; [apply dict_set_dent; assumption|eapply dict_set_nodup; eassumption]. Qed.

Lemma dgood_dict kv : dgood kv -> len kv < 2 ^ 63 -> good (PDict kv).
Proof.
  intros [Hd Hn] Hl. unfold dent in Hd. rewrite Forall_forall in Hd. split; [|split].
  - cbn [safe_py]. apply forallb_forall. intros p Hp. destruct (Hd p Hp) as [(k & -> & _) (Hs & _)]. rewrite Hs. reflexivity.
  - cbn [wf_py]. rewrite Hn. assert (Hf : forallb (fun p => wf_py (fst p) && wf_py (snd p)) kv = true).
    { apply forallb_forall. intros p Hp. destruct (Hd p Hp) as [(k & -> & Hw) (_ & Hw2 & _)]. rewrite Hw, Hw2. reflexivity. }
    rewrite Hf. lia.
  - cbn [pyfloats_ok]. apply forallb_forall. intros p Hp. destruct (Hd p Hp) as [(k & -> & _) (_ & _ & Hf)]. rewrite Hf. reflexivity.
Qed.

Section GenLoopsGood.
  Variable rec : schema -> rand_stream -> res (pyval * rand_stream).

  Lemma gen_entries_dgood s : (forall rs v rs', rec s rs = Ok (v, rs') -> good v) ->
    forall n acc rs kv rs', dgood acc -> gen_entries rec n s acc rs = Ok (kv, rs') ->
      dgood kv /\ (length kv <= length acc + n)%nat.
  Proof.
    intros HP. induction n as [|n IH]; cbn [gen_entries]; intros acc rs kv rs' Hacc H.
    - injection H as <- <-. split; [exact Hacc|lia].
    - destruct (gen_utf8 rs) as [[k r1]| |] eqn:Ek; cbn [bind] in H; try discriminate.
      destruct (rec s r1) as [[v r2]| |] eqn:E; cbn [bind] in H; try discriminate.
      destruct (rand_letters_ascii _ _ _ _ Ek) as [Ha Hlen].
      destruct (IH _ _ _ _ (dgood_set acc k v Hacc (ascii_wf k Ha ltac:(unfold len; rewrite Hlen; cbn; lia)) (HP _ _ _ E)) H) as [H1 H2].
      split; [exact H1|]. pose proof (dict_set_length acc k v). lia.
  Qed.

  Lemma gen_fields_dgood : forall fs,
    (forall f rs v rs', In f fs -> rec (ftype f) rs = Ok (v, rs') -> good v) ->
    (forall f, In f fs -> wf_py (PStr (fname f)) = true) ->
    forall acc rs kv rs', dgood acc -> gen_fields rec fs acc rs = Ok (kv, rs') ->
      dgood kv /\ (length kv <= length acc + length fs)%nat.
  Proof.
    induction fs as [|f fs IH]; cbn [gen_fields]; intros HP Hnm acc rs kv rs' Hacc H.
    - injection H as <- <-. split; [exact Hacc|cbn; lia].
    - destruct (rec (ftype f) rs) as [[v r1]| |] eqn:E; cbn [bind] in H; try discriminate.
      destruct (IH (fun g rs v rs' Hg => HP g rs v rs' (or_intror Hg)) (fun g Hg => Hnm g (or_intror Hg)) _ _ _ _
                  (dgood_set acc (fname f) v Hacc (Hnm f (or_introl eq_refl)) (HP f _ _ _ (or_introl eq_refl) E)) H) as [H1 H2].
      split; [exact H1|]. pose proof (dict_set_length acc (fname f) v). cbn [length]. lia.
  Qed.
End GenLoopsGood.

Lemma good_list l : Forall good l -> len l < 2 ^ 63 -> good (PList l).
Proof.
  intros H Hl. rewrite Forall_forall in H. split; [|split].
  - cbn [safe_py]. apply forallb_forall. intros x Hx. apply (H x Hx).
  - cbn [wf_py]. assert (Hf : forallb wf_py l = true) by (apply forallb_forall; intros x Hx; apply (H x Hx)). rewrite Hf. lia.
  - cbn [pyfloats_ok]. apply forallb_forall. intros x Hx. apply (H x Hx).
Qed.

Lemma genok_lookup e n s : genok_env e = true -> lookup e n = Some s -> genokb s = true.
Proof. unfold genok_env. intros H Hl. rewrite forallb_forall in H. destruct (lookup_in _ _ _ Hl) as [k Hin]. exact (H _ Hin). Qed.

Lemma int_good lt rs v rs' : gen_int lt rs = Ok (v, rs') -> good v.
Proof. intros H. destruct (gen_int_range _ _ _ _ H) as (z & -> & Hz). apply good_int. rewrite INT_MIN_lit, INT_MAX_lit in Hz. lia. Qed.
Lemma long_good lt rs v rs' : gen_long lt rs = Ok (v, rs') -> good v.
Proof. intros H. destruct (gen_long_range _ _ _ _ H) as (z & -> & Hz). apply good_int. rewrite LONG_MIN_lit, LONG_MAX_lit in Hz. lia. Qed.

Theorem gen_good e : GenProofs.wf_env e -> genok_env e = true ->
  forall f s rs v rs', GenProofs.wf_schema e s -> genokb s = true -> gen f e s rs = Ok (v, rs') -> good v.
Proof.
  intros We Ge. induction f as [|f IH]; intros s rs v rs' Ws Gs H; [discriminate|].
  destruct s; cbn [gen] in H.
  - injection H as <- <-. split; [|split]; reflexivity.
  - destruct (gen_bool_bool _ _ _ H) as [b ->]. split; [|split]; reflexivity.
  - eapply int_good; exact H.
  - eapply long_good; exact H.
  - eapply gen_float_good; exact H.
  - eapply gen_float_good; exact H.
  - eapply (gen_bytes_good 10); [lia|exact H].
  - eapply gen_string_good; exact H.
  - cbn [genokb] in Gs. eapply (gen_bytes_good size); [lia|exact H].
  - destruct (gen_enum_sym _ _ _ _ H) as (x & -> & Hx). cbn [genokb] in Gs. rewrite forallb_forall in Gs. apply good_str. apply Gs. exact Hx.
  - (* array *)
    destruct (gen_items (gen f e) ITEMS s rs) as [[l r1]| |] eqn:E; cbn [bind] in H; try discriminate. injection H as <- <-.
    destruct (gen_items_all (gen f e) good s (fun rs0 v0 rs0' H0 => IH s rs0 v0 rs0' (sall_array _ _ Ws) Gs H0) _ _ _ _ E) as [Hl Hn].
    apply good_list; [exact Hl|]. unfold len. rewrite Hn. cbn. lia.
  - (* map *)
    destruct (gen_entries (gen f e) ITEMS s [] rs) as [[kv r1]| |] eqn:E; cbn [bind] in H; try discriminate. injection H as <- <-.
    destruct (gen_entries_dgood (gen f e) s (fun rs0 v0 rs0' H0 => IH s rs0 v0 rs0' (sall_map _ _ Ws) Gs H0) _ _ _ _ _
                (conj (Forall_nil _) eq_refl) E) as [Hd Hn].
    apply dgood_dict; [exact Hd|]. unfold len. unfold ITEMS in Hn. cbn [length] in Hn. lia.
  - (* union *)
    destruct (randint 0 (len bs - 1) rs) as [[i r1]| |] eqn:Er; cbn [bind] in H; try discriminate.
    destruct (nthZ bs i) as [b|] eqn:En; [|discriminate].
    pose proof (sall_union _ _ Ws) as Wb. rewrite Forall_forall in Wb. cbn [genokb] in Gs. rewrite forallb_forall in Gs.
    pose proof (ElabProofs.nthZ_In _ _ _ En) as Hin. eapply IH; [apply Wb; exact Hin|apply Gs; exact Hin|exact H].
  - (* record *)
    destruct (gen_fields (gen f e) fs [] rs) as [[kv r1]| |] eqn:E; cbn [bind] in H; try discriminate. injection H as <- <-.
    pose proof (sall_record _ _ _ _ Ws) as Wf. rewrite Forall_forall in Wf.
    cbn [genokb] in Gs. apply andb_prop in Gs. destruct Gs as [Glen Gf]. rewrite forallb_forall in Gf.
    destruct (gen_fields_dgood (gen f e) fs) with (acc := @nil (pyval * pyval)) (rs := rs) (kv := kv) (rs' := r1) as [Hd Hn].
    + intros fd rs0 v0 rs0' Hfd H0. specialize (Gf fd Hfd). apply andb_prop in Gf. eapply IH; [apply Wf; exact Hfd|apply Gf|exact H0].
    + intros fd Hfd. specialize (Gf fd Hfd). apply andb_prop in Gf. apply Gf.
    + split; [constructor|reflexivity].
    + exact E.
    + apply dgood_dict; [exact Hd|]. unfold len in *. cbn [length] in Hn. lia.
  - (* reference *)
    destruct (lookup e n) as [s'|] eqn:El; [|discriminate].
    eapply IH; [exact (We n s' El)|eapply genok_lookup; eassumption|exact H].
  - (* dict form *)
    pose proof (sall_annot _ _ _ Ws) as Ws'. cbn [genokb] in Gs.
    destruct s; try discriminate H; try (eapply IH; [exact Ws'|exact Gs|exact H]).
    + eapply int_good; exact H.
    + eapply long_good; exact H.
    + eapply gen_string_good; exact H.
Qed.

(** *** the composition: generated => validates => elaborated => written => read back *)
Record gen_side (n : nat) (e : env) (s : schema) : Prop := {
  gs_wfe : GenProofs.wf_env e;           gs_wfs : GenProofs.wf_schema e s;      (* C20's own well-formedness *)
  gs_named : named_env e = true;         gs_sch : gschb n e s = true;           (* acyclic, plain field types, safe defaults *)
  gs_oke : genok_env e = true;           gs_oks : genokb s = true;              (* sizes / symbols / names are well-formed data *)
  gs_cwe : Conform.wf_env e = true;      gs_cws : Conform.wf_schema s = true;   (* schema side of data_ok *)
  gs_fe : env_floats_ok e = true;        gs_fs : dflt_floats_ok s = true }.

Lemma gen_data_ok n e s f rs v rs' : gen_side n e s -> gen f e s rs = Ok (v, rs') -> data_ok e s v /\ safe_py v = true.
Proof.
  intros G H. destruct (gen_good e (gs_wfe _ _ _ G) (gs_oke _ _ _ G) f s rs v rs' (gs_wfs _ _ _ G) (gs_oks _ _ _ G) H) as (Hs & Hw & Hp).
  split; [|exact Hs]. unfold data_ok. repeat split; first [exact (gs_cwe _ _ _ G)|exact (gs_cws _ _ _ G)|exact Hw|exact (gs_fe _ _ _ G)|exact (gs_fs _ _ _ G)|exact Hp].
Qed.

Lemma gen_validates n o e s f rs v rs' : gen_side n e s -> gen f e s rs = Ok (v, rs') ->
  forall fv, (2 * n <= fv + 1)%nat -> validate fv o e s (Some v) = Ok true.
Proof.
  intros G H fv Hf.
  destruct (proj2 (gen_conforms o e (gs_wfe _ _ _ G) f s rs v rs' (gs_wfs _ _ _ G) H) fv) as [A|A]; [exact A|].
  exfalso. exact (validate_ranked_nofuel o e n s (gschb_ranked _ _ _ (gs_sch _ _ _ G)) fv (Some v) Hf A).
Qed.

(** schemaless_writer accepts every generated value, and schemaless_reader returns its documented normalisation *)
Theorem gen_written n o e s f rs v rs' : default_writer o -> gen_side n e s -> gen f e s rs = Ok (v, rs') ->
  validate (2 * n) o e s (Some v) = Ok true /\
  exists f0, forall f', (f0 <= f')%nat -> exists a out,
    elab f' o e s v = WOk a /\ write f' o e s v = WOk (wire a) /\ typedn f' e s a /\ normalises f' o e s v out /\
    forall f'', (f' <= f'')%nat -> forall r, read f'' ropts0 e s (wire a ++ r) = Ok (out, r).
Proof.
  intros Ho G H. pose proof (gen_validates n o e s f rs v rs' G H (2 * n) ltac:(lia)) as Hv. split; [exact Hv|].
  destruct (gen_data_ok n e s f rs v rs' G H) as [Hd Hs].
  destruct (wneed_of_valid o e Ho (gs_named _ _ _ G) n s (gs_sch _ _ _ G) v (2 * n) Hs Hv) as [N HN].
  destruct (wneed_sufficient N o e s v (2 * n) HN Hv) as [f0 Hf0]. exists f0. intros f' Hf. destruct (Hf0 f' Hf) as [a Ha].
  destruct (roundtrip_normalised_py f' o e s v a Ha Hd (gs_named _ _ _ G)) as (out & Hn & Hw & Hr).
  exists a, out. split; [exact Ha|]. split; [exact Hw|]. split; [|split; [exact Hn|exact Hr]].
  destruct Hd as (He & Hsc & Hwv & Hfe & Hfs & Hfv). eapply elab_typedn; try eassumption. eapply elab_floats_ok; eassumption.
Qed.

(** the container writer (Writer / writer(), with or without validation, any codec): a file written from generated values
    and flushed reads back as exactly their wire values, in order *)
Lemma gen_many_each f e s : forall k rs l rs', gen_items (gen f e) k s rs = Ok (l, rs') ->
  Forall (fun v => exists rs0 rs1, gen f e s rs0 = Ok (v, rs1)) l.
Proof.
  induction k as [|k IH]; cbn [gen_items]; intros rs l rs' H.
  - injection H as <- <-. constructor.
  - destruct (gen f e s rs) as [[v r1]| |] eqn:E; cbn [bind] in H; try discriminate.
    destruct (gen_items (gen f e) k s r1) as [[l1 r2]| |] eqn:E2; cbn [bind] in H; try discriminate. injection H as <- <-.
    constructor; [eauto|eapply IH; exact E2].
Qed.

Lemma common_fuel n o e s (l : list pyval) : default_writer o -> gen_side n e s ->
  Forall (fun v => exists f rs0 rs1, gen f e s rs0 = Ok (v, rs1)) l ->
  exists F, forall F', (F <= F')%nat ->
    Forall (fun v => validate F' o e s (Some v) = Ok true /\ exists a, elab F' o e s v = WOk a /\ typedn F' e s a) l.
Proof.
  intros Ho G. induction 1 as [|v l (f & rs0 & rs1 & Hg) _ [F HF]].
  - exists O. intros; constructor.
  - destruct (gen_written n o e s f rs0 v rs1 Ho G Hg) as [Hv [f0 Hf0]].
    exists (Nat.max F (Nat.max f0 (2 * n))). intros F' HF'. constructor; [|apply HF; lia].
    split; [eapply validate_fuel_mono; [|exact Hv]; lia|].
    destruct (Hf0 F' ltac:(lia)) as (a & out & Ha & _ & Ht & _). eauto.
Qed.

Definition writes (vs : list pyval) : list pop := map PWrite vs.

Theorem gen_container compress decompress (codec_rt : forall b, decompress (compress b) = Ok b)
    sync (sync_len : length sync = 16%nat) (sync_ok : Forall is_byte sync)
    n o validator e s f count rs l rs' :
  default_writer o -> gen_side n e s -> gen_many f e s count rs = Ok (l, rs') ->
  exists F, forall F', (F <= F')%nat ->
    exists ws, Forall2 (fun v a => elab F' o e s v = WOk a /\ typedn F' e s a) l ws /\
      forall meta si hf, meta_ok meta -> (3 <= hf)%nat -> len l < 2 ^ 63 ->
        small_run compress sync (wcreate sync meta si) (map OWrite ws) ->
        prun compress sync F' o validator e s (wcreate sync meta si) (writes l) = run compress sync (wcreate sync meta si) (map OWrite ws) /\
        exists nb, forall k, (nb < k)%nat ->
          read_container decompress e s F' hf k
            (out (flush compress sync (prun compress sync F' o validator e s (wcreate sync meta si) (writes l)))) = (ws, EndOK).
Proof.
  intros Ho G H. unfold gen_many in H.
  assert (Hall : Forall (fun v => exists f0 rs0 rs1, gen f0 e s rs0 = Ok (v, rs1)) l).
  { eapply Forall_impl; [|exact (gen_many_each f e s _ _ _ _ H)]. intros v (r0 & r1 & Hg). eauto. }
  destruct (common_fuel n o e s l Ho G Hall) as [F HF]. exists F. intros F' HF'. specialize (HF F' HF').
  assert (Hws : exists ws, Forall2 (fun v a => validate F' o e s (Some v) = Ok true /\ elab F' o e s v = WOk a /\ typedn F' e s a) l ws).
  { clear - HF. induction HF as [|v l (Hv & a & Ha & Ht) _ [ws IH]]; [exists []; constructor|]. exists (a :: ws). constructor; [auto|exact IH]. }
  destruct Hws as [ws Hws]. exists ws. split; [eapply Forall2_impl2; [|exact Hws]; intros v a (_ & H1 & H2); auto|].
  intros meta si hf Hm Hhf Hlen Hsm.
  assert (Hlow : lower_all F' o validator e s (writes l) = Some (map OWrite ws)).
  { clear - Hws. induction Hws as [|v a l ws (Hv & Ha & _) _ IH]; [reflexivity|]. cbn [writes map lower_all lower].
    destruct validator; [rewrite Hv|]; rewrite Ha; cbn [fst]; unfold writes in IH; rewrite IH; reflexivity. }
  rewrite (prun_lowers compress sync F' o validator e s (writes l) (map OWrite ws) _ Hlow). split; [reflexivity|].
  assert (Hsub : submitted (map OWrite ws) = ws).
  { clear. unfold submitted. induction ws as [|a ws IH]; [reflexivity|]. cbn [map flat_map submitted_of app]. rewrite IH. reflexivity. }
  destruct (history_reads_back compress decompress codec_rt e s F' F' (le_n _) sync sync_len sync_ok meta (map OWrite ws) hf Hm) with (si := si) as [nb Hnb].
  - apply Forall_forall. intros op Hop. apply in_map_iff in Hop. destruct Hop as (a & <- & Ha). cbn [op_ok].
    destruct (Forall2_in_r _ _ _ _ Hws Ha) as (v & _ & _ & _ & Ht). exact Ht.
  - exact Hsm.
  - rewrite Hsub. rewrite <- (Forall2_len _ _ _ Hws). exact Hlen.
  - exact Hhf.
  - exists nb. intros k Hk. rewrite (Hnb k Hk), Hsub. reflexivity.
Qed.
