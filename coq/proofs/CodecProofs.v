(** Proofs about the binary codec model: round trip for every layout, extension,
    truncation, skip = decode-and-forget, index range. *)
From Coq Require Import Lia ZifyBool.
From FA Require Import model.Base model.Varint model.Value model.Schema model.Utf8 model.Codec proofs.VarintProofs.
Ltac Zify.zify_post_hook ::= Z.to_euclidean_division_equations.

Ltac inv_bind H :=
  match type of H with
  | bind ?e _ = Ok _ =>
      let E := fresh "E" in destruct e as [[? ?]| |] eqn:E; cbn [bind] in H; try discriminate H
  end.
Tactic Notation "inv_bind_n" hyp(H) ident(x) ident(y) :=
  match type of H with
  | bind ?e _ = Ok _ =>
      let E := fresh "E" in destruct e as [[x y]| |] eqn:E; cbn [bind] in H; try discriminate H
  end.

(** *** generic list / take *)
Lemma take_app {A} (p r : list A) : take (length p) (p ++ r) = Some (p, r).
Proof. induction p as [|x p IH]; cbn [take length app]; [reflexivity|]. rewrite IH. reflexivity. Qed.

Lemma take_ext {A} n : forall (p q x r : list A), take n p = Some (x, r) -> take n (p ++ q) = Some (x, r ++ q).
Proof.
  induction n as [|n IH]; intros p q x r H; cbn [take] in *.
  - injection H as <- <-. reflexivity.
  - destruct p as [|a p]; [discriminate|]. cbn [app].
    destruct (take n p) as [[x' r']|] eqn:E; [|discriminate]. injection H as <- <-.
    rewrite (IH _ q _ _ E). reflexivity.
Qed.

Lemma take_split {A} n : forall (p x r : list A), take n p = Some (x, r) -> p = x ++ r /\ length x = n.
Proof.
  induction n as [|n IH]; intros p x r H; cbn [take] in *.
  - injection H as <- <-. split; reflexivity.
  - destruct p as [|a p]; [discriminate|].
    destruct (take n p) as [[x' r']|] eqn:E; [|discriminate]. injection H as <- <-.
    destruct (IH _ _ _ E) as [-> <-]. split; reflexivity.
Qed.

Lemma len_nonneg {A} (l : list A) : 0 <= len l. Proof. unfold len. lia. Qed.
Lemma len_app {A} (l1 l2 : list A) : len (l1 ++ l2) = len l1 + len l2.
Proof. unfold len. rewrite app_length. lia. Qed.
Lemma len_cons {A} (x : A) l : len (x :: l) = 1 + len l.
Proof. unfold len. cbn [length]. lia. Qed.

Lemma read_n_ok (b r : bytes) : read_n (len b) (b ++ r) = Ok (b, r).
Proof.
  unfold read_n. pose proof (len_nonneg b). destruct (len b <? 0) eqn:E; [lia|].
  unfold len. rewrite Nat2Z.id, take_app. reflexivity.
Qed.

Lemma read_n_ext n p q x r : read_n n p = Ok (x, r) -> read_n n (p ++ q) = Ok (x, r ++ q).
Proof.
  unfold read_n. destruct (n <? 0); [discriminate|].
  destruct (take (Z.to_nat n) p) as [[x' r']|] eqn:E; [|discriminate].
  intros H; injection H as <- <-. rewrite (take_ext _ _ q _ _ E). reflexivity.
Qed.

Lemma read_n_split n p x r : read_n n p = Ok (x, r) -> p = x ++ r /\ len x = n.
Proof.
  unfold read_n. destruct (n <? 0) eqn:En; [discriminate|].
  destruct (take (Z.to_nat n) p) as [[x' r']|] eqn:E; [|discriminate].
  intros H; injection H as <- <-. destruct (take_split _ _ _ _ E) as [-> Hl].
  split; [reflexivity|]. unfold len. lia.
Qed.

(** *** little-endian fixed-width values *)
Lemma le_bytes_length n x : length (le_bytes n x) = n.
Proof. revert x; induction n as [|n IH]; intros x; cbn [le_bytes length]; [reflexivity|]. rewrite IH. reflexivity. Qed.

Lemma le_val_bytes n : forall x, 0 <= x < 256 ^ Z.of_nat n -> le_val (le_bytes n x) = x.
Proof.
  induction n as [|n IH]; intros x Hx; cbn [le_bytes le_val].
  - change (256 ^ Z.of_nat 0) with 1 in Hx. lia.
  - rewrite Nat2Z.inj_succ, Z.pow_succ_r in Hx by lia. rewrite IH by lia. lia.
Qed.

Lemma le_bytes_ok n : forall x, Forall is_byte (le_bytes n x).
Proof. induction n as [|n IH]; intros x; cbn [le_bytes]; constructor; [unfold is_byte; lia|apply IH]. Qed.

Lemma nthZ_range {A} (l : list A) : forall i x, nthZ l i = Some x -> 0 <= i < len l.
Proof.
  induction l as [|a l IH]; intros i x H; cbn [nthZ] in H; [discriminate|]. rewrite len_cons.
  pose proof (len_nonneg l). destruct (i =? 0) eqn:E0; [lia|]. destruct (i <? 0) eqn:E1; [discriminate|].
  specialize (IH _ _ H). lia.
Qed.

Lemma nthZ_none {A} (l : list A) : forall i, i < 0 \/ len l <= i -> nthZ l i = None.
Proof.
  induction l as [|a l IH]; intros i H; cbn [nthZ]; [reflexivity|]. rewrite len_cons in H.
  pose proof (len_nonneg l). destruct (i =? 0) eqn:E0; [lia|]. destruct (i <? 0) eqn:E1; [reflexivity|].
  apply IH. lia.
Qed.

(** *** bytes / strings *)
Lemma long_dec_zero r : long_dec (0 :: r) = Ok (0, r).
Proof. reflexivity. Qed.

Lemma len_int64 {A} (l : list A) : len l < 2 ^ 63 -> in_int64 (len l).
Proof. pose proof (len_nonneg l). unfold in_int64. lia. Qed.

Lemma dec_bytes_ok b r : len b < 2 ^ 63 -> dec_bytes (enc_bytes b ++ r) = Ok (b, r).
Proof.
  intros H. unfold dec_bytes, enc_bytes. rewrite <- app_assoc, long_rt by (apply len_int64; exact H).
  cbn [bind]. apply read_n_ok.
Qed.

Lemma dec_utf8_ok b r : key_ok b -> dec_utf8 (enc_bytes b ++ r) = Ok (b, r).
Proof.
  intros [[_ Hl] Hu]. unfold dec_utf8. rewrite dec_bytes_ok by exact Hl. cbn [bind]. rewrite Hu. reflexivity.
Qed.

Lemma dec_bytes_ext p q x r : dec_bytes p = Ok (x, r) -> dec_bytes (p ++ q) = Ok (x, r ++ q).
Proof.
  unfold dec_bytes. intros H. inv_bind H. rewrite (long_ext _ q _ _ E). cbn [bind].
  apply read_n_ext. exact H.
Qed.

Lemma dec_utf8_ext p q x r : dec_utf8 p = Ok (x, r) -> dec_utf8 (p ++ q) = Ok (x, r ++ q).
Proof.
  unfold dec_utf8. intros H. inv_bind_n H b0 r0. rewrite (dec_bytes_ext _ q _ _ E). cbn [bind].
  destruct (utf8_valid b0); [|discriminate]. injection H as <- <-. reflexivity.
Qed.

(** *** item loops *)
Section BlocksProofs.
  Context {A : Type}.
  Variable rec : bytes -> res (A * bytes).

  Fixpoint items_nat (n : nat) (bs : bytes) : res (list A * bytes) :=
    match n with
    | O => Ok ([], bs)
    | S n => let* (a, bs) := rec bs in let* (l, bs) := items_nat n bs in Ok (a :: l, bs)
    end.

  Lemma items_nat_add n : forall m bs,
    items_nat (n + m) bs =
    (let* (l1, bs) := items_nat n bs in let* (l2, bs) := items_nat m bs in Ok (l1 ++ l2, bs)).
  Proof.
    induction n as [|n IH]; intros m bs; cbn [items_nat Nat.add bind].
    - destruct (items_nat m bs) as [[l b]| |]; reflexivity.
    - destruct (rec bs) as [[a b]| |]; cbn [bind]; try reflexivity.
      rewrite IH. destruct (items_nat n b) as [[l1 b1]| |]; cbn [bind]; try reflexivity.
      destruct (items_nat m b1) as [[l2 b2]| |]; reflexivity.
  Qed.

  Lemma items_pos_nat p : forall bs, items_pos rec p bs = items_nat (Pos.to_nat p) bs.
  Proof.
    induction p as [p IH|p IH|]; intros bs; cbn [items_pos].
    - rewrite Pos2Nat.inj_xI.
      replace (2 * Pos.to_nat p)%nat with (Pos.to_nat p + Pos.to_nat p)%nat by lia.
      cbn [items_nat].
      destruct (rec bs) as [[a b]| |]; cbn [bind]; try reflexivity.
      rewrite items_nat_add, IH. destruct (items_nat (Pos.to_nat p) b) as [[l1 b1]| |]; cbn [bind]; try reflexivity.
      rewrite IH. destruct (items_nat (Pos.to_nat p) b1) as [[l2 b2]| |]; reflexivity.
    - rewrite Pos2Nat.inj_xO.
      replace (2 * Pos.to_nat p)%nat with (Pos.to_nat p + Pos.to_nat p)%nat by lia.
      rewrite items_nat_add, IH. destruct (items_nat (Pos.to_nat p) bs) as [[l1 b1]| |]; cbn [bind]; try reflexivity.
      rewrite IH. reflexivity.
    - change (Pos.to_nat 1) with 1%nat. cbn [items_nat].
      destruct (rec bs) as [[a b]| |]; reflexivity.
  Qed.

  Lemma items_Z_nat c bs : 0 <= c -> items_Z rec c bs = items_nat (Z.to_nat c) bs.
  Proof.
    intros Hc. destruct c as [|p|p]; [reflexivity| |lia].
    cbn [items_Z]. rewrite items_pos_nat. rewrite Z2Nat.inj_pos. reflexivity.
  Qed.

  Context {B : Type}.
  Variable w : B -> bytes.
  Variable er : B -> A.

  Lemma items_nat_ok l :
    Forall (fun b => forall r, rec (w b ++ r) = Ok (er b, r)) l ->
    forall r, items_nat (length l) (flat_map w l ++ r) = Ok (map er l, r).
  Proof.
    induction 1 as [|a l Ha _ IH]; intros r; cbn [items_nat length flat_map app map]; [reflexivity|].
    rewrite <- app_assoc, Ha. cbn [bind]. rewrite IH. reflexivity.
  Qed.

  Lemma items_Z_ok l :
    Forall (fun b => forall r, rec (w b ++ r) = Ok (er b, r)) l ->
    forall r, items_Z rec (len l) (flat_map w l ++ r) = Ok (map er l, r).
  Proof.
    intros H r. rewrite items_Z_nat by apply len_nonneg. unfold len. rewrite Nat2Z.id.
    apply items_nat_ok. exact H.
  Qed.

  (* the bytes of one block, and of a list of blocks followed by the terminator *)
  Definition wblock (b : bool * Z * list B) : bytes :=
    block_head (fst (fst b)) (snd (fst b)) (len (snd b)) ++ flat_map w (snd b).

  Lemma blocks_ok : forall (bl : list (bool * Z * list B)) k r,
    (length bl < k)%nat ->
    Forall (fun b => snd b <> [] /\ len (snd b) < 2 ^ 63 /\ in_int64 (snd (fst b)) /\
                     Forall (fun a => forall r, rec (w a ++ r) = Ok (er a, r)) (snd b)) bl ->
    blocks rec k (flat_map wblock bl ++ 0 :: r) = Ok (flat_map (fun b => map er (snd b)) bl, r).
  Proof.
    induction bl as [|[[neg sz] its] bl IH]; intros k r Hk H.
    - destruct k as [|k]; [cbn [length] in Hk; lia|]. cbn [flat_map app blocks].
      rewrite long_dec_zero. cbn [bind]. reflexivity.
    - destruct k as [|k]; [cbn [length] in Hk; lia|].
      inversion H as [|? ? Hb Hrest]; subst. cbn [fst snd] in Hb. destruct Hb as (Hne & Hlen & Hsz & Hits).
      assert (Hpos : 0 < len its).
      { destruct its; [contradiction|]. rewrite len_cons. pose proof (len_nonneg its). lia. }
      cbn [flat_map blocks]. unfold wblock at 1. cbn [fst snd]. unfold block_head.
      destruct neg.
      + rewrite <- !app_assoc, long_rt by (unfold in_int64; lia). cbn [bind].
        destruct (- len its =? 0) eqn:E0; [lia|]. destruct (- len its <? 0) eqn:E1; [|lia].
        rewrite long_rt by exact Hsz. cbn [bind]. rewrite Z.opp_involutive.
        rewrite items_Z_ok by exact Hits. cbn [bind].
        rewrite IH; [reflexivity|cbn [length] in Hk; lia|exact Hrest].
      + rewrite <- !app_assoc, long_rt by (unfold in_int64; lia). cbn [bind].
        destruct (len its =? 0) eqn:E0; [lia|]. destruct (len its <? 0) eqn:E1; [lia|]. cbn [bind].
        rewrite items_Z_ok by exact Hits. cbn [bind].
        rewrite IH; [reflexivity|cbn [length] in Hk; lia|exact Hrest].
  Qed.

  (** extension *)
  Hypothesis rec_ext : forall p q a r, rec p = Ok (a, r) -> rec (p ++ q) = Ok (a, r ++ q).

  Lemma items_pos_ext p : forall bs q l r,
    items_pos rec p bs = Ok (l, r) -> items_pos rec p (bs ++ q) = Ok (l, r ++ q).
  Proof.
    induction p as [p IH|p IH|]; intros bs q l r H; cbn [items_pos] in *.
    - inv_bind H. inv_bind H. inv_bind H. injection H as <- <-.
      rewrite (rec_ext _ q _ _ E). cbn [bind]. rewrite (IH _ q _ _ E0). cbn [bind].
      rewrite (IH _ q _ _ E1). reflexivity.
    - inv_bind H. inv_bind H. injection H as <- <-.
      rewrite (IH _ q _ _ E). cbn [bind]. rewrite (IH _ q _ _ E0). reflexivity.
    - inv_bind H. injection H as <- <-. rewrite (rec_ext _ q _ _ E). reflexivity.
  Qed.

  Lemma items_Z_ext c bs q l r :
    items_Z rec c bs = Ok (l, r) -> items_Z rec c (bs ++ q) = Ok (l, r ++ q).
  Proof.
    destruct c; cbn [items_Z]; try (intros H; injection H as <- <-; reflexivity).
    apply items_pos_ext.
  Qed.

  Lemma blocks_ext k : forall bs q l r,
    blocks rec k bs = Ok (l, r) -> blocks rec k (bs ++ q) = Ok (l, r ++ q).
  Proof.
    induction k as [|k IH]; intros bs q l r H; cbn [blocks] in *; [discriminate|].
    inv_bind_n H z r0. rewrite (long_ext _ q _ _ E). cbn [bind].
    destruct (z =? 0).
    - injection H as <- <-. reflexivity.
    - destruct (z <? 0).
      + inv_bind H. inv_bind E0. injection E0 as <- <-.
        rewrite (long_ext _ q _ _ E1). cbn [bind].
        inv_bind H. inv_bind H. injection H as <- <-.
        rewrite (items_Z_ext _ _ q _ _ E0). cbn [bind]. rewrite (IH _ q _ _ E2). reflexivity.
      + cbn [bind] in *. inv_bind H. inv_bind H. injection H as <- <-.
        rewrite (items_Z_ext _ _ q _ _ E0). cbn [bind]. rewrite (IH _ q _ _ E1). reflexivity.
  Qed.
End BlocksProofs.

(** *** records *)
Lemma fields_ok rec fs (l : list lval) :
  Forall2 (fun f a => forall r, rec (ftype f) (wire_l a ++ r) = Ok (erase a, r)) fs l ->
  forall r, fields rec fs (flat_map wire_l l ++ r) = Ok (map erase l, r).
Proof.
  induction 1 as [|f a fs l Ha _ IH]; intros r; cbn [fields flat_map app map]; [reflexivity|].
  rewrite <- app_assoc, Ha. cbn [bind]. rewrite IH. reflexivity.
Qed.

Lemma Forall2_impl' {A B} (P Q : A -> B -> Prop) l1 l2 :
  (forall a b, P a b -> Q a b) -> Forall2 P l1 l2 -> Forall2 Q l1 l2.
Proof. intros H; induction 1; constructor; auto. Qed.

(** *** leaves *)
Definition leaf_schema (s : schema) : Prop :=
  match s with
  | SArray _ | SMap _ | SUnion _ | SRecord _ _ _ | SRef _ | SAnnot _ _ => False
  | _ => True
  end.

Lemma leaf_dec n e s a : leaf_schema s -> typedn (S n) e s a ->
  forall f r, dec (S f) e s (wire a ++ r) = Ok (a, r).
Proof.
  intros Hs Ht f r.
  destruct s; cbn [leaf_schema] in Hs; try contradiction;
    destruct a; cbn [typedn] in Ht; try contradiction; cbn [dec wire].
  - reflexivity.
  - cbn [app]. destruct b; reflexivity.
  - rewrite long_rt; [reflexivity|]. unfold in_int32, in_int64 in *. lia.
  - rewrite long_rt; [reflexivity|exact Ht].
  - pose proof (read_n_ok (le_bytes 4 bits) r) as H. unfold len in H. rewrite le_bytes_length in H.
    change (Z.of_nat 4) with 4 in H. rewrite H. cbn [bind]. rewrite le_val_bytes; [reflexivity|].
    change (256 ^ Z.of_nat 4) with (2 ^ 32). exact Ht.
  - pose proof (read_n_ok (le_bytes 8 bits) r) as H. unfold len in H. rewrite le_bytes_length in H.
    change (Z.of_nat 8) with 8 in H. rewrite H. cbn [bind]. rewrite le_val_bytes; [reflexivity|].
    change (256 ^ Z.of_nat 8) with (2 ^ 64). exact Ht.
  - rewrite dec_bytes_ok; [reflexivity|apply Ht].
  - rewrite dec_utf8_ok; [reflexivity|exact Ht].
  - destruct Ht as [<- _]. rewrite read_n_ok. reflexivity.
  - rewrite long_rt by (unfold in_int64; lia). cbn [bind].
    destruct ((0 <=? i) && (i <? len syms)) eqn:E; [reflexivity|lia].
Qed.

(** *** the round trip for every layout *)
Theorem wire_l_dec : forall n e s l, typedl n e s l ->
  forall f, (n <= f)%nat -> forall r, dec f e s (wire_l l ++ r) = Ok (erase l, r).
Proof.
  induction n as [|n IH]; intros e s l Ht f Hf r; [destruct Ht|].
  destruct f as [|f]; [lia|]. assert (Hf' : (n <= f)%nat) by lia.
  destruct s;
    try (destruct l; cbn [typedl] in Ht; try contradiction;
         cbn [wire_l erase]; apply (leaf_dec n); [exact I|exact Ht]).
  - (* array *)
    destruct l; cbn [typedl] in Ht; try contradiction. destruct Ht as [Hlen Hbl].
    cbn [dec wire_l erase]. rewrite <- app_assoc. cbn [app].
    pose proof (blocks_ok (dec f e s) wire_l erase bl (S f) r) as Hb. unfold wblock in Hb.
    rewrite Hb; [reflexivity|lia|].
    eapply Forall_impl; [|exact Hbl]. intros b (H1 & H2 & H3 & H4). split; [exact H1|split; [exact H2|split; [exact H3|]]].
    eapply Forall_impl; [|exact H4]. intros a Ha r'. apply IH; assumption.
  - (* map *)
    destruct l; cbn [typedl] in Ht; try contradiction. destruct Ht as [Hlen Hbl].
    cbn [dec wire_l erase]. rewrite <- app_assoc. cbn [app].
    pose proof (blocks_ok (map_item (dec f e s)) (fun kv => enc_bytes (fst kv) ++ wire_l (snd kv))
                       (fun kv => (fst kv, erase (snd kv))) bl (S f) r) as Hb. unfold wblock in Hb.
    rewrite Hb; [reflexivity|lia|].
    eapply Forall_impl; [|exact Hbl]. intros b (H1 & H2 & H3 & H4). split; [exact H1|split; [exact H2|split; [exact H3|]]].
    eapply Forall_impl; [|exact H4]. intros [k v] [Hk Hv] r'. cbn [fst snd] in *.
    unfold map_item. rewrite <- app_assoc, dec_utf8_ok by exact Hk. cbn [bind].
    rewrite (IH e s v Hv f Hf'). reflexivity.
  - (* union *)
    destruct l; cbn [typedl] in Ht; try contradiction. destruct Ht as (Hi63 & s0 & Hn & Ht).
    cbn [dec wire_l erase]. rewrite <- app_assoc.
    assert (Hi : in_int64 i).
    { pose proof (nthZ_range _ _ _ Hn). unfold in_int64. lia. }
    rewrite long_rt by exact Hi. cbn [bind]. rewrite Hn. rewrite (IH e s0 l Ht f Hf'). reflexivity.
  - (* record *)
    destruct l as [| | | |ls]; cbn [typedl] in Ht; try contradiction.
    cbn [dec wire_l erase]. rewrite (fields_ok (dec f e) fs ls); [reflexivity|].
    eapply Forall2_impl'; [|exact Ht]. intros fd a Ha r'. apply IH; assumption.
  - (* reference *)
    assert (Hr : exists s0, lookup e n0 = Some s0 /\ typedl n e s0 l) by (destruct l; exact Ht).
    destruct Hr as (s0 & Hl & Ht'). cbn [dec]. rewrite Hl. apply IH; assumption.
  - (* annotation *)
    assert (Hr : typedl n e s l) by (destruct l; exact Ht).
    cbn [dec]. apply IH; assumption.
Qed.

(** *** the writer's layout is one of the valid layouts *)
Lemma typedl_ref n e nm l : typedl (S n) e (SRef nm) l <-> exists s, lookup e nm = Some s /\ typedl n e s l.
Proof. destruct l; reflexivity. Qed.
Lemma typedl_annot n e lt s l : typedl (S n) e (SAnnot lt s) l <-> typedl n e s l.
Proof. destruct l; reflexivity. Qed.
Lemma typedn_ref n e nm a : typedn (S n) e (SRef nm) a <-> exists s, lookup e nm = Some s /\ typedn n e s a.
Proof. destruct a; reflexivity. Qed.
Lemma typedn_annot n e lt s a : typedn (S n) e (SAnnot lt s) a <-> typedn n e s a.
Proof. destruct a; reflexivity. Qed.

Definition layout_good n e s a :=
  typedl n e s (layout_of a) /\ erase (layout_of a) = a /\ wire_l (layout_of a) = wire a.

Lemma typedn_pos n e s a : typedn n e s a -> (1 <= n)%nat.
Proof. destruct n; [intros []|lia]. Qed.

Lemma layout_typed : forall n e s a, typedn n e s a -> layout_good n e s a.
Proof.
  induction n as [|n IH]; intros e s a Ht; [destruct Ht|].
  destruct s.
  15:{ apply typedn_ref in Ht. destruct Ht as (s0 & Hl & Ht). destruct (IH _ _ _ Ht) as (H1 & H2 & H3).
       split; [|split; assumption]. apply typedl_ref. exists s0. split; assumption. }
  15:{ apply typedn_annot in Ht. destruct (IH _ _ _ Ht) as (H1 & H2 & H3).
       split; [|split; assumption]. apply typedl_annot. exact H1. }
  all: destruct a; cbn [typedn] in Ht; try contradiction; unfold layout_good; cbn [layout_of].
  1-10: (split; [exact Ht|split; reflexivity]).
  - (* array *)
    destruct Ht as [Hlen Hl].
    assert (Hg : Forall (fun a => layout_good n e s a) l) by (eapply Forall_impl; [|exact Hl]; intros; apply IH; assumption).
    assert (He : map erase (map layout_of l) = l).
    { clear Hl Hlen. induction Hg as [|a l (_ & Ha & _) _ IHl]; cbn [map]; [reflexivity|]. rewrite Ha, IHl. reflexivity. }
    assert (Hw : flat_map wire_l (map layout_of l) = flat_map wire l).
    { clear Hl Hlen He. induction Hg as [|a l (_ & _ & Ha) _ IHl]; cbn [map flat_map]; [reflexivity|]. rewrite Ha, IHl. reflexivity. }
    assert (Ht' : Forall (typedl n e s) (map layout_of l)).
    { clear Hl Hlen He Hw. induction Hg as [|a l (Ha & _) _ IHl]; cbn [map]; constructor; assumption. }
    destruct l as [|a0 l0].
    + cbn [typedl wire_l erase flat_map wire app length]. repeat split; try constructor. lia.
    + set (l := a0 :: l0) in *.
      assert (Hn1 : (1 <= n)%nat) by (inversion Hl as [|? ? H0 _]; exact (typedn_pos _ _ _ _ H0)).
      cbn [typedl wire_l erase flat_map fst snd app length]. unfold block_head. rewrite !app_nil_r.
      unfold len in *. rewrite map_length. split; [|split].
      * split; [lia|]. constructor; [|constructor]. cbn [fst snd]. split; [subst l; discriminate|].
        rewrite map_length. split; [exact Hlen|]. split; [unfold in_int64; lia|exact Ht'].
      * rewrite He. reflexivity.
      * rewrite Hw, <- app_assoc. subst l. reflexivity.
  - (* map *)
    destruct Ht as [Hlen Hl].
    assert (Hg : Forall (fun kv => key_ok (fst kv) /\ layout_good n e s (snd kv)) l).
    { eapply Forall_impl; [|exact Hl]. intros kv [Hk Hv]. split; [exact Hk|apply IH; exact Hv]. }
    set (lo := fun kv : bytes * aval => (fst kv, layout_of (snd kv))).
    assert (He : map (fun kv : bytes * lval => (fst kv, erase (snd kv))) (map lo l) = l).
    { clear Hl Hlen. induction Hg as [|[k a] l (_ & _ & Ha & _) _ IHl]; cbn [map]; [reflexivity|].
      change (lo (k, a)) with (k, layout_of a). cbn [fst snd] in *. rewrite Ha, IHl. reflexivity. }
    assert (Hw : flat_map (fun kv : bytes * lval => enc_bytes (fst kv) ++ wire_l (snd kv)) (map lo l)
                 = flat_map (fun kv => enc_bytes (fst kv) ++ wire (snd kv)) l).
    { clear Hl Hlen He. induction Hg as [|[k a] l (_ & _ & _ & Ha) _ IHl]; cbn [map flat_map]; [reflexivity|].
      change (lo (k, a)) with (k, layout_of a). cbn [fst snd] in *. rewrite Ha, IHl. reflexivity. }
    assert (Ht' : Forall (fun kv : bytes * lval => key_ok (fst kv) /\ typedl n e s (snd kv)) (map lo l)).
    { clear Hl Hlen He Hw. induction Hg as [|[k a] l (Hk & Ha & _) _ IHl]; cbn [map]; constructor; [|assumption].
      change (lo (k, a)) with (k, layout_of a). cbn [fst snd] in *. split; assumption. }
    destruct l as [|a0 l0].
    + cbn [typedl wire_l erase flat_map wire app length map]. repeat split; try constructor. lia.
    + set (l := a0 :: l0) in *.
      assert (Hn1 : (1 <= n)%nat) by (inversion Hl as [|? ? [_ H0] _]; exact (typedn_pos _ _ _ _ H0)).
      cbn [typedl wire_l erase flat_map fst snd app length]. unfold block_head. rewrite !app_nil_r.
      fold lo. unfold len in *. rewrite map_length. split; [|split].
      * split; [lia|]. constructor; [|constructor]. cbn [fst snd]. split; [subst l; discriminate|].
        rewrite map_length. split; [exact Hlen|]. split; [unfold in_int64; lia|exact Ht'].
      * rewrite He. reflexivity.
      * rewrite Hw, <- app_assoc. subst l. reflexivity.
  - (* union *)
    destruct Ht as (Hi & s0 & Hn & Ht). destruct (IH _ _ _ Ht) as (H1 & H2 & H3).
    cbn [typedl erase wire_l wire]. rewrite H2, H3. repeat split; try assumption. exists s0. split; assumption.
  - (* record *)
    assert (Hg : Forall2 (fun f a => layout_good n e (ftype f) a) fs l).
    { eapply Forall2_impl'; [|exact Ht]. intros; apply IH; assumption. }
    cbn [typedl erase wire_l wire]. clear Ht. split; [|split].
    + induction Hg as [|f a fs l (Ha & _) _ IHl]; cbn [map]; constructor; assumption.
    + f_equal. induction Hg as [|f a fs l (_ & Ha & _) _ IHl]; cbn [map]; [reflexivity|]. rewrite Ha, IHl. reflexivity.
    + induction Hg as [|f a fs l (_ & _ & Ha) _ IHl]; cbn [map flat_map]; [reflexivity|]. rewrite Ha, IHl. reflexivity.
Qed.

(** reading back what the writer wrote, with anything after it on the stream *)
Theorem wire_dec n e s a : typedn n e s a ->
  forall f, (n <= f)%nat -> forall r, dec f e s (wire a ++ r) = Ok (a, r).
Proof.
  intros Ht f Hf r. destruct (layout_typed _ _ _ _ Ht) as (H1 & H2 & H3).
  rewrite <- H3. transitivity (Ok (erase (layout_of a), r)); [|rewrite H2; reflexivity].
  apply (wire_l_dec n); assumption.
Qed.

(** *** decoding never looks beyond the bytes it consumes *)
Definition ext_ok {A} (rec : bytes -> res (A * bytes)) :=
  forall p q a r, rec p = Ok (a, r) -> rec (p ++ q) = Ok (a, r ++ q).

Lemma fields_ext rec : (forall s, ext_ok (rec s)) -> forall fs, ext_ok (fields rec fs).
Proof.
  intros Hrec; induction fs as [|fd fs IH]; intros p q l r H; cbn [fields] in *.
  - injection H as <- <-. reflexivity.
  - inv_bind H. inv_bind H. injection H as <- <-.
    rewrite (Hrec _ _ q _ _ E). cbn [bind]. rewrite (IH _ q _ _ E0). reflexivity.
Qed.

Lemma map_item_ext rec : ext_ok rec -> ext_ok (map_item rec).
Proof.
  intros Hrec p q a r H. unfold map_item in *. inv_bind_n H k r0. inv_bind_n H v r1. injection H as <- <-.
  rewrite (dec_utf8_ext _ q _ _ E). cbn [bind]. rewrite (Hrec _ q _ _ E0). reflexivity.
Qed.

Theorem dec_ext : forall f e s, ext_ok (dec f e s).
Proof.
  induction f as [|f IH]; intros e s p q a r H; cbn [dec] in *; [discriminate|].
  destruct s.
  - injection H as <- <-. reflexivity.
  - destruct p as [|b p]; [discriminate|]. injection H as <- <-. reflexivity.
  - inv_bind H. injection H as <- <-. rewrite (long_ext _ q _ _ E). reflexivity.
  - inv_bind H. injection H as <- <-. rewrite (long_ext _ q _ _ E). reflexivity.
  - inv_bind H. injection H as <- <-. rewrite (read_n_ext _ _ q _ _ E). reflexivity.
  - inv_bind H. injection H as <- <-. rewrite (read_n_ext _ _ q _ _ E). reflexivity.
  - inv_bind H. injection H as <- <-. rewrite (dec_bytes_ext _ q _ _ E). reflexivity.
  - inv_bind H. injection H as <- <-. rewrite (dec_utf8_ext _ q _ _ E). reflexivity.
  - inv_bind H. injection H as <- <-. rewrite (read_n_ext _ _ q _ _ E). reflexivity.
  - inv_bind_n H i r0. rewrite (long_ext _ q _ _ E). cbn [bind].
    destruct ((0 <=? i) && (i <? len syms)); [|discriminate]. injection H as <- <-. reflexivity.
  - inv_bind H. injection H as <- <-.
    rewrite (blocks_ext (dec f e s) (IH e s) _ _ q _ _ E). reflexivity.
  - inv_bind H. injection H as <- <-.
    rewrite (blocks_ext (map_item (dec f e s)) (map_item_ext _ (IH e s)) _ _ q _ _ E). reflexivity.
  - inv_bind_n H i r0. rewrite (long_ext _ q _ _ E). cbn [bind].
    destruct (nthZ bs i) as [s0|]; [|discriminate]. inv_bind H. injection H as <- <-.
    rewrite (IH _ _ _ q _ _ E0). reflexivity.
  - inv_bind H. injection H as <- <-.
    rewrite (fields_ext (dec f e) (IH e) fs _ q _ _ E). reflexivity.
  - destruct (lookup e n) as [s0|]; [|discriminate]. apply IH. exact H.
  - apply IH. exact H.
Qed.

(** no proper prefix of a valid encoding decodes (to anything) *)
Theorem truncated_fails n e s l : typedl n e s l ->
  forall p q, wire_l l = p ++ q -> q <> [] -> forall f, (n <= f)%nat -> forall a' r, dec f e s p <> Ok (a', r).
Proof.
  intros Ht p q E Hq f Hf a' r H.
  pose proof (dec_ext f e s p q a' r H) as H1. rewrite <- E in H1.
  pose proof (wire_l_dec n e s l Ht f Hf []) as H2. rewrite app_nil_r in H2.
  rewrite H2 in H1. injection H1 as _ H1. destruct r; destruct q; try discriminate; congruence.
Qed.

(** a prefix can at best run out of fuel?  no: fuel is monotone, see [dec_fuel_mono];
    with enough fuel the result on a prefix is an error, never a value *)

(** *** skipping = decoding and forgetting the value *)
Definition forget {A} (x : res (A * bytes)) : res (unit * bytes) :=
  match x with Ok (_, r) => Ok (tt, r) | Err => Err | OutOfFuel => OutOfFuel end.

Lemma forget_bind {A B} (x : res (A * bytes)) (g : A -> bytes -> res (B * bytes)) (h : bytes -> res (unit * bytes)) :
  (forall a r, forget (g a r) = h r) ->
  forget (let* (a, r) := x in g a r) = (let* (_, r) := forget x in h r).
Proof. intros Hg. destruct x as [[a r]| |]; cbn [bind forget]; [apply Hg|reflexivity|reflexivity]. Qed.

Section SkipBlocks.
  Context {A : Type}.
  Variable rec : bytes -> res (A * bytes).
  Variable srec : bytes -> res (unit * bytes).
  Hypothesis Hs : forall bs, srec bs = forget (rec bs).

  Lemma items_pos_forget p : forall bs, forget (items_pos srec p bs) = forget (items_pos rec p bs).
  Proof.
    induction p as [p IH|p IH|]; intros bs; cbn [items_pos].
    - rewrite Hs. destruct (rec bs) as [[a r]| |]; cbn [bind forget]; try reflexivity.
      specialize (IH r) as IH1.
      destruct (items_pos srec p r) as [[l1 r1]| |]; destruct (items_pos rec p r) as [[l1' r1']| |];
        cbn [forget bind] in *; try discriminate; try reflexivity.
      injection IH1 as <-. specialize (IH r1) as IH2.
      destruct (items_pos srec p r1) as [[l2 r2]| |]; destruct (items_pos rec p r1) as [[l2' r2']| |];
        cbn [forget bind] in *; try discriminate; try reflexivity. exact IH2.
    - specialize (IH bs) as IH1.
      destruct (items_pos srec p bs) as [[l1 r1]| |]; destruct (items_pos rec p bs) as [[l1' r1']| |];
        cbn [forget bind] in *; try discriminate; try reflexivity.
      injection IH1 as <-. specialize (IH r1) as IH2.
      destruct (items_pos srec p r1) as [[l2 r2]| |]; destruct (items_pos rec p r1) as [[l2' r2']| |];
        cbn [forget bind] in *; try discriminate; try reflexivity. exact IH2.
    - rewrite Hs. destruct (rec bs) as [[a r]| |]; reflexivity.
  Qed.

  Lemma items_Z_forget c bs : forget (items_Z srec c bs) = forget (items_Z rec c bs).
  Proof. destruct c; cbn [items_Z]; try reflexivity. apply items_pos_forget. Qed.

  Lemma blocks_forget k : forall bs, forget (blocks srec k bs) = forget (blocks rec k bs).
  Proof.
    induction k as [|k IH]; intros bs; cbn [blocks]; [reflexivity|].
    destruct (long_dec bs) as [[c r]| |]; cbn [bind forget]; try reflexivity.
    destruct (c =? 0); [reflexivity|].
    destruct (c <? 0).
    - destruct (long_dec r) as [[sz r']| |]; cbn [bind forget]; try reflexivity.
      pose proof (items_Z_forget (- c) r') as H1.
      destruct (items_Z srec (- c) r') as [[l1 r1]| |]; destruct (items_Z rec (- c) r') as [[l1' r1']| |];
        cbn [forget bind] in *; try discriminate; try reflexivity.
      injection H1 as <-. specialize (IH r1).
      destruct (blocks srec k r1) as [[l2 r2]| |]; destruct (blocks rec k r1) as [[l2' r2']| |];
        cbn [forget bind] in *; try discriminate; try reflexivity. exact IH.
    - cbn [bind]. pose proof (items_Z_forget c r) as H1.
      destruct (items_Z srec c r) as [[l1 r1]| |]; destruct (items_Z rec c r) as [[l1' r1']| |];
        cbn [forget bind] in *; try discriminate; try reflexivity.
      injection H1 as <-. specialize (IH r1).
      destruct (blocks srec k r1) as [[l2 r2]| |]; destruct (blocks rec k r1) as [[l2' r2']| |];
        cbn [forget bind] in *; try discriminate; try reflexivity. exact IH.
  Qed.
End SkipBlocks.

Lemma skip_fields_forget rec srec : (forall s bs, srec s bs = forget (rec s bs)) ->
  forall fs bs, skip_fields srec fs bs = forget (fields rec fs bs).
Proof.
  intros Hs; induction fs as [|fd fs IH]; intros bs; cbn [skip_fields fields]; [reflexivity|].
  rewrite Hs. destruct (rec (ftype fd) bs) as [[a r]| |]; cbn [bind forget]; try reflexivity.
  rewrite IH. destruct (fields rec fs r) as [[l r']| |]; reflexivity.
Qed.

Theorem skip_is_dec : forall f e s bs, skip f e s bs = forget (dec f e s bs).
Proof.
  induction f as [|f IH]; intros e s bs; cbn [skip dec]; [reflexivity|].
  destruct s.
  - reflexivity.
  - destruct bs; reflexivity.
  - destruct (long_dec bs) as [[? ?]| |]; reflexivity.
  - destruct (long_dec bs) as [[? ?]| |]; reflexivity.
  - destruct (read_n 4 bs) as [[? ?]| |]; reflexivity.
  - destruct (read_n 8 bs) as [[? ?]| |]; reflexivity.
  - destruct (dec_bytes bs) as [[? ?]| |]; reflexivity.
  - destruct (dec_utf8 bs) as [[? ?]| |]; reflexivity.
  - destruct (read_n size bs) as [[? ?]| |]; reflexivity.
  - destruct (long_dec bs) as [[i r]| |]; cbn [bind forget]; try reflexivity.
    destruct ((0 <=? i) && (i <? len syms)); reflexivity.
  - pose proof (blocks_forget (dec f e s) (skip f e s) (IH e s) (S f) bs) as H.
    destruct (blocks (skip f e s) (S f) bs) as [[l1 r1]| |]; destruct (blocks (dec f e s) (S f) bs) as [[l2 r2]| |];
      cbn [forget bind] in *; try discriminate; try reflexivity. exact H.
  - assert (Hi : forall bs, skip_item (skip f e s) bs = forget (map_item (dec f e s) bs)).
    { intros b. unfold skip_item, map_item. destruct (dec_utf8 b) as [[k r]| |]; cbn [bind forget]; try reflexivity.
      rewrite IH. destruct (dec f e s r) as [[v r']| |]; reflexivity. }
    pose proof (blocks_forget (map_item (dec f e s)) (skip_item (skip f e s)) Hi (S f) bs) as H.
    destruct (blocks (skip_item (skip f e s)) (S f) bs) as [[l1 r1]| |];
      destruct (blocks (map_item (dec f e s)) (S f) bs) as [[l2 r2]| |];
      cbn [forget bind] in *; try discriminate; try reflexivity. exact H.
  - destruct (long_dec bs) as [[i r]| |]; cbn [bind forget]; try reflexivity.
    destruct (nthZ bs0 i) as [s0|]; [|reflexivity]. rewrite IH.
    destruct (dec f e s0 r) as [[a r']| |]; reflexivity.
  - rewrite (skip_fields_forget (dec f e) (skip f e) (IH e)).
    destruct (fields (dec f e) fs bs) as [[l r]| |]; reflexivity.
  - destruct (lookup e n); [apply IH|reflexivity].
  - apply IH.
Qed.

(** *** an index outside the schema's range is an error, whatever follows *)
Theorem union_bad_index f e bs i rest :
  in_int64 i -> (i < 0 \/ len bs <= i) -> dec (S f) e (SUnion bs) (long_enc i ++ rest) = Err.
Proof.
  intros Hi Hb. cbn [dec]. rewrite long_rt by exact Hi. cbn [bind].
  rewrite nthZ_none by exact Hb. reflexivity.
Qed.

Theorem enum_bad_index f e n al syms d i rest :
  in_int64 i -> (i < 0 \/ len syms <= i) -> dec (S f) e (SEnum n al syms d) (long_enc i ++ rest) = Err.
Proof.
  intros Hi Hb. cbn [dec]. rewrite long_rt by exact Hi. cbn [bind].
  destruct ((0 <=? i) && (i <? len syms)) eqn:E; [lia|reflexivity].
Qed.

(** *** values written back to back are read back one by one *)
Fixpoint dec_stream (f : nat) (e : env) (ss : list schema) (bs : bytes) : res (list aval * bytes) :=
  match ss with
  | [] => Ok ([], bs)
  | s :: ss => let* (a, bs) := dec f e s bs in
               let* (l, bs) := dec_stream f e ss bs in Ok (a :: l, bs)
  end.

Theorem stream_roundtrip n e : forall ss vs, Forall2 (typedn n e) ss vs ->
  forall f, (n <= f)%nat -> forall r, dec_stream f e ss (flat_map wire vs ++ r) = Ok (vs, r).
Proof.
  induction 1 as [|s a ss vs Ha _ IH]; intros f Hf r; cbn [dec_stream flat_map app]; [reflexivity|].
  rewrite <- app_assoc, (wire_dec n e s a Ha f Hf). cbn [bind]. rewrite IH by exact Hf. reflexivity.
Qed.

(** *** more fuel never changes a result *)
Definition mono {A} (r1 r2 : bytes -> res (A * bytes)) := forall bs x, r1 bs = Ok x -> r2 bs = Ok x.

Section Mono.
  Context {A : Type}.
  Variables r1 r2 : bytes -> res (A * bytes).
  Hypothesis Hm : mono r1 r2.

  Lemma items_pos_mono p : mono (items_pos r1 p) (items_pos r2 p).
  Proof.
    induction p as [p IH|p IH|]; intros bs x H; cbn [items_pos] in *.
    - inv_bind H. inv_bind H. inv_bind H. injection H as <-.
      rewrite (Hm _ _ E). cbn [bind]. rewrite (IH _ _ E0). cbn [bind]. rewrite (IH _ _ E1). reflexivity.
    - inv_bind H. inv_bind H. injection H as <-.
      rewrite (IH _ _ E). cbn [bind]. rewrite (IH _ _ E0). reflexivity.
    - inv_bind H. injection H as <-. rewrite (Hm _ _ E). reflexivity.
  Qed.

  Lemma items_Z_mono c : mono (items_Z r1 c) (items_Z r2 c).
  Proof. destruct c; cbn [items_Z]; try (intros bs x H; exact H). apply items_pos_mono. Qed.

  Lemma blocks_mono k : forall k', (k <= k')%nat -> mono (blocks r1 k) (blocks r2 k').
  Proof.
    induction k as [|k IH]; intros k' Hk bs x H; cbn [blocks] in H; [discriminate|].
    destruct k' as [|k']; [lia|]. cbn [blocks].
    inv_bind_n H c r0. cbn [bind]. destruct (c =? 0); [exact H|].
    destruct (c <? 0).
    - inv_bind H. inv_bind E0. injection E0 as <- <-. cbn [bind].
      inv_bind H. inv_bind H. injection H as <-.
      rewrite (items_Z_mono _ _ _ E0). cbn [bind]. rewrite (IH k' ltac:(lia) _ _ E2). reflexivity.
    - cbn [bind] in *. inv_bind H. inv_bind H. injection H as <-.
      rewrite (items_Z_mono _ _ _ E0). cbn [bind]. rewrite (IH k' ltac:(lia) _ _ E1). reflexivity.
  Qed.
End Mono.

Lemma fields_mono r1 r2 : (forall s, mono (r1 s) (r2 s)) -> forall fs, mono (fields r1 fs) (fields r2 fs).
Proof.
  intros Hm; induction fs as [|fd fs IH]; intros bs x H; cbn [fields] in *; [exact H|].
  inv_bind H. inv_bind H. injection H as <-. rewrite (Hm _ _ _ E). cbn [bind]. rewrite (IH _ _ E0). reflexivity.
Qed.

Lemma map_item_mono r1 r2 : mono r1 r2 -> mono (map_item r1) (map_item r2).
Proof.
  intros Hm bs x H. unfold map_item in *. inv_bind H. cbn [bind]. inv_bind H. injection H as <-.
  rewrite (Hm _ _ E0). reflexivity.
Qed.

Lemma dec_fuel_S : forall f e s, mono (dec f e s) (dec (S f) e s).
Proof.
  induction f as [|f IH]; intros e s bs x H; [discriminate|].
  cbn [dec] in H. remember (S f) as f1. cbn [dec]. subst f1.
  destruct s; try exact H.
  - inv_bind H. injection H as <-.
    rewrite (blocks_mono _ _ (IH e s) (S f) (S (S f)) ltac:(lia) _ _ E). reflexivity.
  - inv_bind H. injection H as <-.
    rewrite (blocks_mono _ _ (map_item_mono _ _ (IH e s)) (S f) (S (S f)) ltac:(lia) _ _ E). reflexivity.
  - inv_bind H. cbn [bind]. destruct (nthZ bs0 z) as [s0|]; [|discriminate]. inv_bind H. injection H as <-.
    rewrite (IH _ _ _ _ E0). reflexivity.
  - inv_bind H. injection H as <-. rewrite (fields_mono _ _ (IH e) fs _ _ E). reflexivity.
  - destruct (lookup e n); [|discriminate]. apply IH. exact H.
  - apply IH. exact H.
Qed.

Theorem dec_fuel_mono f f' e s : (f <= f')%nat -> mono (dec f e s) (dec f' e s).
Proof.
  induction 1 as [|f' _ IH]; intros bs x H; [exact H|]. apply dec_fuel_S. apply IH. exact H.
Qed.

(** hence: with ANY fuel, a proper prefix of a valid encoding never decodes to a value *)
Theorem truncated_never_ok n e s l : typedl n e s l ->
  forall p q, wire_l l = p ++ q -> q <> [] -> forall f a' r, dec f e s p <> Ok (a', r).
Proof.
  intros Ht p q E Hq f a' r H.
  apply (truncated_fails n e s l Ht p q E Hq (Nat.max n f) (Nat.le_max_l _ _) a' r).
  eapply dec_fuel_mono; [apply Nat.le_max_r|exact H].
Qed.

(** one-step unfoldings of the layout typing, for examples *)
Lemma typedl_record n e nm al fs l :
  typedl (S n) e (SRecord nm al fs) (LRecord l) <-> Forall2 (fun f a => typedl n e (ftype f) a) fs l.
Proof. reflexivity. Qed.
Lemma typedl_union n e bs i l :
  typedl (S n) e (SUnion bs) (LUnion i l) <-> i < 2 ^ 63 /\ exists s, nthZ bs i = Some s /\ typedl n e s l.
Proof. reflexivity. Qed.
Lemma typedl_array n e s bl :
  typedl (S n) e (SArray s) (LArray bl) <->
  (length bl <= n)%nat /\
  Forall (fun b => snd b <> [] /\ len (snd b) < 2 ^ 63 /\ in_int64 (snd (fst b)) /\ Forall (typedl n e s) (snd b)) bl.
Proof. reflexivity. Qed.
Lemma typedl_long n e z : typedl (S n) e SLong (LLeaf (AInt z)) <-> in_int64 z.
Proof. reflexivity. Qed.

(** *** the encoding determines the value *)
Theorem wire_injective n e s a a' : typedn n e s a -> typedn n e s a' -> wire a = wire a' -> a = a'.
Proof.
  intros H H' E.
  pose proof (wire_dec n e s a H n (le_n n) []) as D. pose proof (wire_dec n e s a' H' n (le_n n) []) as D'.
  rewrite E in D. rewrite D' in D. injection D as ->. reflexivity.
Qed.

Lemma typedn_mono : forall n e s a, typedn n e s a -> typedn (S n) e s a.
Proof.
  induction n as [|n IH]; intros e s a H; [destruct H|].
  destruct s.
  15:{ apply typedn_ref in H. apply typedn_ref. destruct H as (s0 & Hl & H). exists s0. split; [exact Hl|apply IH; exact H]. }
  15:{ apply typedn_annot in H. apply typedn_annot. apply IH. exact H. }
  all: destruct a; cbn [typedn] in H; try contradiction; try exact H.
  - destruct H as [Hl H]. split; [exact Hl|]. eapply Forall_impl; [|exact H]. intros; apply IH; assumption.
  - destruct H as [Hl H]. split; [exact Hl|]. eapply Forall_impl; [|exact H]. intros kv [Hk Hv]. split; [exact Hk|apply IH; exact Hv].
  - destruct H as (Hi & s0 & Hn & H). split; [exact Hi|]. exists s0. split; [exact Hn|apply IH; exact H].
  - eapply Forall2_impl'; [|exact H]. intros; apply IH; assumption.
Qed.

Lemma typedn_le n m e s a : (n <= m)%nat -> typedn n e s a -> typedn m e s a.
Proof. induction 1 as [|m _ IH]; intros Ht; [exact Ht|]. apply typedn_mono. auto. Qed.

Theorem wire_injective_typed e s a a' : typed e s a -> typed e s a' -> wire a = wire a' -> a = a'.
Proof.
  intros [n H] [n' H'] E. apply (wire_injective (Nat.max n n') e s); [| |exact E].
  - eapply typedn_le; [apply Nat.le_max_l|exact H].
  - eapply typedn_le; [apply Nat.le_max_r|exact H'].
Qed.
