(** JSON codec vs binary codec at the level of Python data (uses the elaboration theorems of proofs/ElabProofs.v). *)
From Coq Require Import Lia ZifyBool String.
From FA Require Import model.Base model.Varint model.Value model.Schema model.Float model.Utf8 model.Codec
                       model.Validate model.Write model.Read model.Conform model.JsonCodec
                       proofs.VarintProofs proofs.CodecProofs proofs.ElabProofs proofs.JsonCodecProofs.
Open Scope Z_scope. Open Scope list_scope.

Theorem json_binary_py f e s v : c15_side f e s v = true ->
  exists a j, elab f wo0 e s v = WOk a /\ json_write f e s v = Some j /\ write f wo0 e s v = WOk (wire a) /\
    forall ro, exists pv, py_of ro e s a = Some pv /\
      forall f', (f <= f')%nat -> json_read f' ro e s j = Ok pv /\ forall r, read f' ro e s (wire a ++ r) = Ok (pv, r).
Proof.
  unfold c15_side. intros H.
  repeat (apply andb_prop in H; let H2 := fresh "H" in destruct H as [H H2]).
  destruct (elab f wo0 e s v) as [a| | |] eqn:Ea; try discriminate.
  match goal with Hx : floats_ok a && float_leaves_ok a = true |- _ => apply andb_prop in Hx; destruct Hx as [Hfo Hfl] end.
  match goal with
  | H1 : wf_env e = true, H2 : wf_schema s = true, H3 : wf_py v = true, H4 : named_env e = true, H5 : wf_envb e = true, H6 : wfb s = true |- _ =>
      destruct (elab_typed f wo0 e s v a Ea H1 H2 H3 Hfo) as (n & Hn & Ht);
      destruct (json_enc_total n e s a H5 H6 Ht Hfl) as [j Hj];
      exists a, j; split; [reflexivity|]; split; [unfold json_write; rewrite Ea; exact Hj|]; split; [unfold write; rewrite Ea; reflexivity|];
      intros ro; destruct (py_of_total ro e H4 n s a Ht) as [pv Hp]; exists pv; split; [exact Hp|];
      intros f' Hf'; split;
      [ exact (proj1 (json_binary_agree n e s a j ro pv H5 H6 Ht Hfl Hj Hp f' ltac:(lia)))
      | intros r; unfold read; rewrite (wire_dec n e s a Ht f' ltac:(lia) r); cbn [bind]; rewrite Hp; reflexivity ]
  end.
Qed.
