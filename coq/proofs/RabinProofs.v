From Coq Require Import Lia ZifyBool String.
From FA Require Import model.Base model.Rabin.
Ltac Zify.zify_post_hook ::= Z.to_euclidean_division_equations.

Lemma land1_mod x : Z.land x 1 = x mod 2.
Proof. change 1 with (Z.ones 1). rewrite Z.land_ones by lia. reflexivity. Qed.

Lemma land1_cases x : Z.land x 1 = 0 \/ Z.land x 1 = 1.
Proof. rewrite land1_mod. pose proof (Z.mod_pos_bound x 2). lia. Qed.

Ltac bitwise :=
  apply Z.bits_inj'; intros ?n ?Hn;
  repeat (rewrite ?Z.land_spec, ?Z.lxor_spec, ?Z.lor_spec);
  repeat match goal with |- context [Z.testbit ?a ?n] => is_var a; destruct (Z.testbit a n) end;
  try reflexivity.

Lemma land_lxor_distr_l a b c : Z.land (Z.lxor a b) c = Z.lxor (Z.land a c) (Z.land b c).
Proof. bitwise. Qed.

Definition mask (x : Z) : Z := Z.land EMPTY (- (Z.land x 1)).

Lemma mask_cases x : (Z.land x 1 = 0 /\ mask x = 0) \/ (Z.land x 1 = 1 /\ mask x = EMPTY).
Proof.
  unfold mask. destruct (land1_cases x) as [H|H]; rewrite H; [left|right]; split; auto.
Qed.

Lemma mask_linear a b : mask (Z.lxor a b) = Z.lxor (mask a) (mask b).
Proof.
  destruct (mask_cases a) as [[Ha Ma]|[Ha Ma]], (mask_cases b) as [[Hb Mb]|[Hb Mb]];
  rewrite Ma, Mb; unfold mask; rewrite land_lxor_distr_l, Ha, Hb; reflexivity.
Qed.

Lemma shift1_linear a b : shift1 (Z.lxor a b) = Z.lxor (shift1 a) (shift1 b).
Proof.
  unfold shift1. fold (mask (Z.lxor a b)) (mask a) (mask b).
  rewrite Z.shiftr_lxor, mask_linear.
  set (x := Z.shiftr a 1); set (y := Z.shiftr b 1); set (u := mask a); set (v := mask b).
  clearbody x y u v. bitwise.
Qed.

Lemma iter_linear n a b : iter n shift1 (Z.lxor a b) = Z.lxor (iter n shift1 a) (iter n shift1 b).
Proof. revert a b; induction n as [|n IH]; intros a b; cbn [iter]; [reflexivity|]. rewrite shift1_linear. apply IH. Qed.

Lemma iter_shift_zero_low : forall (k : nat) y, 0 <= y -> iter k shift1 (Z.shiftl y (Z.of_nat k)) = y.
Proof.
  induction k as [|k IH]; intros y Hy.
  - cbn [iter]. apply Z.shiftl_0_r.
  - cbn [iter].
    assert (E : shift1 (Z.shiftl y (Z.of_nat (S k))) = Z.shiftl y (Z.of_nat k)).
    { unfold shift1. fold (mask (Z.shiftl y (Z.of_nat (S k)))).
      assert (Hm : mask (Z.shiftl y (Z.of_nat (S k))) = 0).
      { destruct (mask_cases (Z.shiftl y (Z.of_nat (S k)))) as [[_ M]|[H _]]; [exact M|].
        exfalso. rewrite land1_mod in H. rewrite Z.shiftl_mul_pow2 in H by lia.
        rewrite Nat2Z.inj_succ, Z.pow_succ_r in H by lia.
        replace (y * (2 * 2 ^ Z.of_nat k)) with ((y * 2 ^ Z.of_nat k) * 2) in H by lia.
        rewrite Z.mod_mul in H by lia. lia. }
      rewrite Hm, Z.lxor_0_r. rewrite Z.shiftr_shiftl_l by lia. f_equal. lia. }
    rewrite E. apply IH. exact Hy.
Qed.

Lemma split_low8 x : 0 <= x -> x = Z.lxor (Z.shiftl (Z.shiftr x 8) 8) (Z.land x 255).
Proof.
  intros Hx. apply Z.bits_inj'; intros n Hn.
  rewrite Z.lxor_spec, Z.land_spec.
  destruct (Z_lt_le_dec n 8) as [Hlt|Hge].
  - rewrite Z.shiftl_spec_low by lia. rewrite xorb_false_l.
    change 255 with (Z.ones 8). rewrite Z.ones_spec_low by lia. rewrite andb_true_r. reflexivity.
  - rewrite Z.shiftl_spec_high by lia. rewrite Z.shiftr_spec by lia.
    replace (n - 8 + 8) with n by lia.
    change 255 with (Z.ones 8). rewrite Z.ones_spec_high by lia. rewrite andb_false_r, xorb_false_r. reflexivity.
Qed.

(** the 256 table entries are what eight division steps give: finite, by computation *)
Lemma table_ok_b : forallb (fun i => nth i fp_table 0 =? tbl (Z.of_nat i)) (seq 0 256) = true.
Proof. vm_compute. reflexivity. Qed.

Theorem table_ok i : 0 <= i < 256 -> nth (Z.to_nat i) fp_table 0 = tbl i.
Proof.
  intros Hi. pose proof table_ok_b as H. rewrite forallb_forall in H.
  specialize (H (Z.to_nat i)). rewrite Z2Nat.id in H by lia.
  apply Z.eqb_eq, H. apply in_seq. lia.
Qed.

Lemma land255_range x : 0 <= Z.land x 255 < 256.
Proof. change 255 with (Z.ones 8). rewrite Z.land_ones by lia. apply Z.mod_pos_bound. lia. Qed.

Theorem step_eq r b : 0 <= r -> 0 <= b < 256 -> step r b = step_bit r b.
Proof.
  intros Hr Hb. unfold step, step_bit. rewrite table_ok by apply land255_range. unfold tbl.
  set (x := Z.lxor r b).
  assert (Hx : 0 <= x) by (apply Z.lxor_nonneg; lia).
  rewrite (split_low8 x Hx) at 2. rewrite iter_linear.
  change 8 with (Z.of_nat 8) at 2. rewrite iter_shift_zero_low by (apply Z.shiftr_nonneg; lia).
  f_equal. unfold x. change (Z.of_nat 8) with 8. rewrite Z.shiftr_lxor.
  replace (Z.shiftr b 8) with 0; [symmetry; apply Z.lxor_0_r|].
  rewrite Z.shiftr_div_pow2 by lia. symmetry. apply Z.div_small. lia.
Qed.

Lemma EMPTY_pos : 0 <= EMPTY. Proof. unfold EMPTY. lia. Qed.

Lemma shift1_nonneg x : 0 <= x -> 0 <= shift1 x.
Proof.
  intros Hx. unfold shift1. apply Z.lxor_nonneg. split; intros _.
  - apply Z.land_nonneg. left. apply EMPTY_pos.
  - apply Z.shiftr_nonneg. lia.
Qed.

Lemma iter_nonneg n : forall x, 0 <= x -> 0 <= iter n shift1 x.
Proof. induction n as [|n IH]; intros x Hx; cbn [iter]; [exact Hx|]. apply IH, shift1_nonneg, Hx. Qed.

Lemma step_bit_nonneg r b : 0 <= r -> 0 <= b -> 0 <= step_bit r b.
Proof. intros Hr Hb. unfold step_bit. apply iter_nonneg. apply Z.lxor_nonneg. lia. Qed.

(** 64-bit state invariant *)
Lemma EMPTY_lt : EMPTY < 2^64. Proof. unfold EMPTY. lia. Qed.

Lemma lt_pow2_bits x k : 0 <= k -> 0 <= x -> (x < 2^k <-> forall n, k <= n -> Z.testbit x n = false).
Proof.
  intros Hk Hx. split.
  - intros Hlt n Hn. destruct (Z.eq_dec x 0) as [->|]; [apply Z.bits_0|].
    apply Z.bits_above_log2; [lia|]. assert (Z.log2 x < k) by (apply Z.log2_lt_pow2; lia). lia.
  - intros H. destruct (Z.eq_dec x 0) as [->|Hne]; [apply Z.pow_pos_nonneg; lia|].
    apply Z.log2_lt_pow2; [lia|].
    destruct (Z_lt_le_dec (Z.log2 x) k) as [Hl|Hl]; [exact Hl|].
    specialize (H (Z.log2 x) Hl). rewrite Z.bit_log2 in H by lia. discriminate.
Qed.

Lemma shift1_lt x : 0 <= x < 2^64 -> shift1 x < 2^64.
Proof.
  intros [Hx Hlt]. pose proof (shift1_nonneg x Hx) as Hn.
  apply (lt_pow2_bits _ 64); [lia|exact Hn|]. intros n Hn64. unfold shift1.
  rewrite Z.lxor_spec, Z.land_spec, Z.shiftr_spec by lia.
  rewrite (proj1 (lt_pow2_bits x 64 ltac:(lia) Hx) Hlt) by lia.
  rewrite (proj1 (lt_pow2_bits EMPTY 64 ltac:(lia) EMPTY_pos) EMPTY_lt) by lia. reflexivity.
Qed.

Lemma iter_lt n : forall x, 0 <= x < 2^64 -> 0 <= iter n shift1 x < 2^64.
Proof.
  induction n as [|n IH]; intros x Hx; cbn [iter]; [exact Hx|].
  apply IH. split; [apply shift1_nonneg; lia|apply shift1_lt; exact Hx].
Qed.

Lemma step_bit_range r b : 0 <= r < 2^64 -> 0 <= b < 256 -> 0 <= step_bit r b < 2^64.
Proof.
  intros Hr Hb. unfold step_bit. apply iter_lt. split; [apply Z.lxor_nonneg; lia|].
  apply (lt_pow2_bits _ 64); [lia|apply Z.lxor_nonneg; lia|]. intros n Hn.
  rewrite Z.lxor_spec.
  rewrite (proj1 (lt_pow2_bits r 64 ltac:(lia) ltac:(lia))) by lia.
  rewrite (proj1 (lt_pow2_bits b 64 ltac:(lia) ltac:(lia))) by lia. reflexivity.
Qed.

Lemma fl_cons {A B} (f : A -> B -> A) b bs r : fold_left f (b :: bs) r = fold_left f bs (f r b).
Proof. reflexivity. Qed.

Lemma fold_step_eq bs : forall r, 0 <= r -> Forall is_byte bs ->
  fold_left step bs r = fold_left step_bit bs r.
Proof.
  induction bs as [|b bs IH]; intros r Hr Hall; [reflexivity|].
  rewrite !fl_cons.
  pose proof (Forall_inv Hall) as Hb. pose proof (Forall_inv_tail Hall) as Hbs.
  rewrite step_eq by assumption.
  apply IH; [apply step_bit_nonneg; [assumption|destruct Hb; assumption]|assumption].
Qed.

Theorem rabin_eq bs : Forall is_byte bs -> rabin bs = rabin_bitwise bs.
Proof. intros H. apply fold_step_eq; [apply EMPTY_pos|exact H]. Qed.

Definition W64 : Z := 2^64.
Lemma fold_step_bit_range bs : Forall is_byte bs -> forall r, 0 <= r < 2^64 ->
  0 <= fold_left step_bit bs r < 2^64.
Proof.
  induction 1 as [|b bs Hb _ IH]; intros r Hr; [exact Hr|].
  rewrite fl_cons. apply IH. apply step_bit_range; assumption.
Qed.

Theorem rabin_range bs : Forall is_byte bs -> 0 <= rabin bs < 2^64.
Proof.
  intros H. rewrite rabin_eq by exact H.
  apply fold_step_bit_range; [exact H|]. split; [apply EMPTY_pos|apply EMPTY_lt].
Qed.

Theorem rabin_empty : rabin [] = 0xC15D213AA4D7A795.
Proof. reflexivity. Qed.

(** little-endian bytes: value and length *)
Fixpoint le_value (bs : bytes) : Z := match bs with [] => 0 | b :: bs => b + 256 * le_value bs end.

Lemma le_bytes_spec n : forall x, 0 <= x < 256 ^ Z.of_nat n ->
  List.length (le_bytes n x) = n /\ le_value (le_bytes n x) = x /\ Forall is_byte (le_bytes n x).
Proof.
  induction n as [|n IH]; intros x Hx; cbn [le_bytes List.length le_value].
  - cbn in Hx. repeat split; [lia|constructor].
  - rewrite Nat2Z.inj_succ, Z.pow_succ_r in Hx by lia.
    destruct (IH (x / 256) ltac:(lia)) as (Hl & Hv & Hf).
    rewrite Hl, Hv. split; [reflexivity|]. split; [lia|]. constructor; [unfold is_byte; lia|exact Hf].
Qed.

Lemma tohex_length l : String.length (tohex l) = (2 * List.length l)%nat.
Proof. induction l as [|b l IH]; cbn [tohex String.length List.length]; [reflexivity|]. rewrite IH. lia. Qed.

Theorem rabin_hex_length bs : Forall is_byte bs -> String.length (rabin_hex bs) = 16%nat.
Proof.
  intros H. unfold rabin_hex. rewrite tohex_length.
  destruct (le_bytes_spec 8 (rabin bs)) as (Hl & _ & _).
  { change (256 ^ Z.of_nat 8) with (2^64). apply rabin_range, H. }
  rewrite Hl. reflexivity.
Qed.

Theorem rabin_hex_le bs : Forall is_byte bs ->
  exists l, rabin_hex bs = tohex l /\ List.length l = 8%nat /\ le_value l = rabin_bitwise bs /\ Forall is_byte l.
Proof.
  intros H. exists (le_bytes 8 (rabin bs)).
  destruct (le_bytes_spec 8 (rabin bs)) as (Hl & Hv & Hf).
  { change (256 ^ Z.of_nat 8) with (2^64). apply rabin_range, H. }
  rewrite <- rabin_eq by exact H. auto.
Qed.

(** dispatch *)
Section D.
  Variable digest : string -> bytes -> string.
  Variable adv : list string.
  Lemma fp_unknown alg t : existsb (String.eqb alg) adv = false -> fingerprint digest adv alg t = None.
  Proof. unfold fingerprint. intros ->. reflexivity. Qed.
  Lemma fp_crc t : existsb (String.eqb "CRC-64-AVRO") adv = true ->
    fingerprint digest adv "CRC-64-AVRO" t = Some (rabin_hex t).
  Proof. unfold fingerprint. intros ->. reflexivity. Qed.
  Lemma fp_md5 t : existsb (String.eqb "MD5") adv = true -> fingerprint digest adv "MD5" t = Some (digest "md5" t).
  Proof. unfold fingerprint. intros ->. reflexivity. Qed.
  Lemma fp_sha t : existsb (String.eqb "SHA-256") adv = true -> fingerprint digest adv "SHA-256" t = Some (digest "sha256" t).
  Proof. unfold fingerprint. intros ->. reflexivity. Qed.
  Lemma fp_other alg t : existsb (String.eqb alg) adv = true ->
    alg <> "SHA-256"%string -> alg <> "MD5"%string -> alg <> "CRC-64-AVRO"%string ->
    fingerprint digest adv alg t = Some (digest alg t).
  Proof.
    unfold fingerprint, java_map. intros -> H1 H2 H3.
    apply String.eqb_neq in H1, H2, H3. rewrite H1, H2, H3. reflexivity.
  Qed.
End D.
