(** Proofs about schema resolution (model/Resolve.v).

    Part A  rdec = decode ; rval          (the code consumes exactly one value, whatever the reader schema)
    Part B  error rules of the specification [resolve]
    Part C  identity: resolve e e s s = py_of
    Part D  rval = resolve inside the agreement zone (inline schemas) *)
From Coq Require Import Lia ZifyBool.
From FA Require Import model.Base model.Varint model.Value model.Schema model.Float model.Utf8 model.Codec
                       model.Validate model.Read model.Resolve proofs.VarintProofs proofs.CodecProofs.
Open Scope Z_scope.

Definition lift {A} (x : bytes) (r : rres A) : rres (A * bytes) := let+ v := r in ROk (v, x).

Lemma lift_bind {A B} (x : bytes) (Y : rres A) (g : A -> rres B) :
  (let+ (v, bs) := lift x Y in let+ v' := g v in ROk (v', bs)) = lift x (let+ v := Y in g v).
Proof. destruct Y as [v| | |]; cbn [lift rbind]; try reflexivity. Qed.

(* ------------------------------------------------------------------------------------------ *)
(** * Part A *)

(** *** typing of layouts: monotone in the height, stable under [strip] *)
Lemma typedl_mono : forall n e s l, typedl n e s l -> typedl (S n) e s l.
Proof.
  induction n as [|n IH]; intros e s l H; [destruct H|].
  destruct s.
  15:{ apply typedl_ref in H. apply typedl_ref. destruct H as (s0 & Hl & H). exists s0. split; [exact Hl|apply IH; exact H]. }
  15:{ apply typedl_annot in H. apply typedl_annot. apply IH. exact H. }
  all: destruct l; cbn [typedl] in H; try contradiction.
  1-10: (cbn [typedl]; apply (typedn_mono (S n)); exact H).
  - destruct H as [Hl H]. split; [lia|]. eapply Forall_impl; [|exact H].
    intros b (H1 & H2 & H3 & H4). split; [exact H1|split; [exact H2|split; [exact H3|]]]. eapply Forall_impl; [|exact H4]. intros; apply IH; assumption.
  - destruct H as [Hl H]. split; [lia|]. eapply Forall_impl; [|exact H].
    intros b (H1 & H2 & H3 & H4). split; [exact H1|split; [exact H2|split; [exact H3|]]]. eapply Forall_impl; [|exact H4].
    intros kv [Hk Hv]. split; [exact Hk|apply IH; exact Hv].
  - destruct H as (Hi & s0 & Hn & H). split; [exact Hi|]. exists s0. split; [exact Hn|apply IH; exact H].
  - eapply Forall2_impl'; [|exact H]. intros; apply IH; assumption.
Qed.

Lemma typedl_le n m e s l : (n <= m)%nat -> typedl n e s l -> typedl m e s l.
Proof. induction 1 as [|m _ IH]; intros Ht; [exact Ht|]. apply typedl_mono. auto. Qed.

Lemma typedl_strip : forall n e s l, typedl n e s l -> typedl n e (strip s) l.
Proof.
  induction n as [|n IH]; intros e s l H; [destruct H|].
  destruct s; try exact H.
  apply typedl_annot in H. cbn [strip]. apply typedl_mono. apply IH. exact H.
Qed.

Lemma strip_not_annot s : forall l0 s', strip s <> SAnnot l0 s'.
Proof. induction s; intros l0 s'; cbn [strip]; try discriminate. apply IHs. Qed.

Lemma strip_idem s : strip (strip s) = strip s.
Proof. induction s; cbn [strip]; try reflexivity. exact IHs. Qed.

(** *** the block loop over [rres] *)
Section RBlocksProofs.
  Context {A : Type}.
  Variable rec : bytes -> rres (A * bytes).

  Fixpoint ritems_nat (n : nat) (bs : bytes) : rres (list A * bytes) :=
    match n with
    | O => ROk ([], bs)
    | S n => let+ (a, bs) := rec bs in let+ (l, bs) := ritems_nat n bs in ROk (a :: l, bs)
    end.

  Lemma ritems_nat_add n : forall m bs,
    ritems_nat (n + m) bs =
    (let+ (l1, bs) := ritems_nat n bs in let+ (l2, bs) := ritems_nat m bs in ROk (l1 ++ l2, bs)).
  Proof.
    induction n as [|n IH]; intros m bs; cbn [ritems_nat Nat.add rbind].
    - destruct (ritems_nat m bs) as [[l b]| | |]; reflexivity.
    - destruct (rec bs) as [[a b]| | |]; cbn [rbind]; try reflexivity.
      rewrite IH. destruct (ritems_nat n b) as [[l1 b1]| | |]; cbn [rbind]; try reflexivity.
      destruct (ritems_nat m b1) as [[l2 b2]| | |]; reflexivity.
  Qed.

  Lemma ritems_pos_nat p : forall bs, ritems_pos rec p bs = ritems_nat (Pos.to_nat p) bs.
  Proof.
    induction p as [p IH|p IH|]; intros bs; cbn [ritems_pos].
    - rewrite Pos2Nat.inj_xI.
      replace (2 * Pos.to_nat p)%nat with (Pos.to_nat p + Pos.to_nat p)%nat by lia.
      cbn [ritems_nat].
      destruct (rec bs) as [[a b]| | |]; cbn [rbind]; try reflexivity.
      rewrite ritems_nat_add, IH. destruct (ritems_nat (Pos.to_nat p) b) as [[l1 b1]| | |]; cbn [rbind]; try reflexivity.
      rewrite IH. destruct (ritems_nat (Pos.to_nat p) b1) as [[l2 b2]| | |]; reflexivity.
    - rewrite Pos2Nat.inj_xO.
      replace (2 * Pos.to_nat p)%nat with (Pos.to_nat p + Pos.to_nat p)%nat by lia.
      rewrite ritems_nat_add, IH. destruct (ritems_nat (Pos.to_nat p) bs) as [[l1 b1]| | |]; cbn [rbind]; try reflexivity.
      rewrite IH. reflexivity.
    - change (Pos.to_nat 1) with 1%nat. cbn [ritems_nat].
      destruct (rec bs) as [[a b]| | |]; reflexivity.
  Qed.

  Lemma ritems_Z_nat c bs : 0 <= c -> ritems_Z rec c bs = ritems_nat (Z.to_nat c) bs.
  Proof.
    intros Hc. destruct c as [|p|p]; [reflexivity| |lia].
    cbn [ritems_Z]. rewrite ritems_pos_nat. rewrite Z2Nat.inj_pos. reflexivity.
  Qed.

  Context {B : Type}.
  Variable w : B -> bytes.
  Variable g : B -> rres A.

  Fixpoint mapM (l : list B) : rres (list A) :=
    match l with
    | [] => ROk []
    | b :: l => let+ v := g b in let+ t := mapM l in ROk (v :: t)
    end.

  Lemma mapM_app l1 : forall l2,
    mapM (l1 ++ l2) = (let+ a := mapM l1 in let+ b := mapM l2 in ROk (a ++ b)).
  Proof.
    induction l1 as [|b l1 IH]; intros l2; cbn [mapM app rbind].
    - destruct (mapM l2); reflexivity.
    - destruct (g b) as [v| | |]; cbn [rbind]; try reflexivity. rewrite IH.
      destruct (mapM l1) as [a| | |]; cbn [rbind]; try reflexivity.
      destruct (mapM l2) as [c| | |]; reflexivity.
  Qed.

  Definition item_ok (b : B) := forall r, rec (w b ++ r) = lift r (g b).

  Lemma ritems_nat_ok l : Forall item_ok l ->
    forall r, ritems_nat (length l) (flat_map w l ++ r) = lift r (mapM l).
  Proof.
    induction 1 as [|a l Ha _ IH]; intros r; cbn [ritems_nat length flat_map app mapM]; [reflexivity|].
    rewrite <- app_assoc, Ha. destruct (g a) as [v| | |]; cbn [lift rbind]; try reflexivity.
    rewrite IH. destruct (mapM l) as [t| | |]; reflexivity.
  Qed.

  Lemma ritems_Z_ok l : Forall item_ok l ->
    forall r, ritems_Z rec (len l) (flat_map w l ++ r) = lift r (mapM l).
  Proof.
    intros H r. rewrite ritems_Z_nat by apply len_nonneg. unfold len. rewrite Nat2Z.id.
    apply ritems_nat_ok. exact H.
  Qed.

  Definition wblk (b : bool * Z * list B) : bytes :=
    block_head (fst (fst b)) (snd (fst b)) (len (snd b)) ++ flat_map w (snd b).

  Lemma rblocks_ok : forall (bl : list (bool * Z * list B)) k r,
    (length bl < k)%nat ->
    Forall (fun b => snd b <> [] /\ len (snd b) < 2 ^ 63 /\ in_int64 (snd (fst b)) /\ Forall item_ok (snd b)) bl ->
    rblocks rec k (flat_map wblk bl ++ 0 :: r) = lift r (mapM (flat_map snd bl)).
  Proof.
    induction bl as [|[[neg sz] its] bl IH]; intros k r Hk H.
    - destruct k as [|k]; [cbn [length] in Hk; lia|]. cbn [flat_map app rblocks].
      rewrite long_dec_zero. reflexivity.
    - destruct k as [|k]; [cbn [length] in Hk; lia|].
      inversion H as [|? ? Hb Hrest]; subst. cbn [fst snd] in Hb. destruct Hb as (Hne & Hlen & Hsz & Hits).
      assert (Hpos : 0 < len its).
      { destruct its; [contradiction|]. rewrite len_cons. pose proof (len_nonneg its). lia. }
      assert (Hk' : (length bl < k)%nat) by (cbn [length] in Hk; lia).
      cbn [flat_map rblocks snd]. unfold wblk at 1. cbn [fst snd]. unfold block_head.
      rewrite mapM_app.
      destruct neg.
      + rewrite <- !app_assoc, long_rt by (unfold in_int64; lia). cbn [of_res rbind].
        destruct (- len its =? 0) eqn:E0; [lia|]. destruct (- len its <? 0) eqn:E1; [|lia].
        rewrite long_rt by exact Hsz. cbn [of_res rbind]. rewrite Z.opp_involutive.
        rewrite ritems_Z_ok by exact Hits.
        destruct (mapM its) as [l1| | |]; cbn [lift rbind]; try reflexivity.
        rewrite (IH k r Hk' Hrest). destruct (mapM (flat_map snd bl)) as [l2| | |]; reflexivity.
      + rewrite <- !app_assoc, long_rt by (unfold in_int64; lia). cbn [of_res rbind].
        destruct (len its =? 0) eqn:E0; [lia|]. destruct (len its <? 0) eqn:E1; [lia|]. cbn [rbind].
        rewrite ritems_Z_ok by exact Hits.
        destruct (mapM its) as [l1| | |]; cbn [lift rbind]; try reflexivity.
        rewrite (IH k r Hk' Hrest). destruct (mapM (flat_map snd bl)) as [l2| | |]; reflexivity.
  Qed.
End RBlocksProofs.

Lemma flat_map_map_snd {B C} (er : B -> C) (bl : list (bool * Z * list B)) :
  flat_map (fun b => map er (snd b)) bl = map er (flat_map snd bl).
Proof. induction bl as [|b bl IH]; cbn [flat_map]; [reflexivity|]. rewrite map_app, IH. reflexivity. Qed.

Lemma mapM_vitems (h : aval -> rres pyval) (ls : list lval) :
  mapM (fun la => h (erase la)) ls = vitems h (map erase ls).
Proof.
  induction ls as [|a ls IH]; cbn [mapM vitems map]; [reflexivity|].
  destruct (h (erase a)); cbn [rbind]; try reflexivity. rewrite IH. reflexivity.
Qed.

Lemma mapM_vmap_items (h : aval -> rres pyval) (ls : list (bytes * lval)) :
  mapM (fun kv => let+ v := h (erase (snd kv)) in ROk (fst kv, v)) ls
  = vmap_items h (map (fun kv => (fst kv, erase (snd kv))) ls).
Proof.
  induction ls as [|[k a] ls IH]; cbn [mapM vmap_items map fst snd]; [reflexivity|].
  destruct (h (erase a)); cbn [rbind]; try reflexivity. rewrite IH. reflexivity.
Qed.

(** *** leaves *)
Lemma leaf_typed_env n e e' s a : leaf_schema s -> typedn (S n) e s a -> typedn (S n) e' s a.
Proof. intros Hs H. destruct s; cbn [leaf_schema] in Hs; try contradiction; destruct a; exact H. Qed.

Lemma read_leaf_ok n e s a x : leaf_schema s -> typedn (S n) e s a ->
  read_leaf s (wire a ++ x) = lift x (leaf_py s a).
Proof.
  intros Hs H. unfold read_leaf.
  rewrite (leaf_dec n [] s a Hs (leaf_typed_env n e [] s a Hs H) 0%nat x). cbn [of_res rbind lift].
  destruct (leaf_py s a); reflexivity.
Qed.

(** *** record fields *)
Lemma rfields_plain_ok (rec : schema -> option schema -> bytes -> rres (pyval * bytes))
      (vrec : schema -> option schema -> aval -> rres pyval) wfs (ls : list lval) :
  Forall2 (fun wf la => forall R x, rec (ftype wf) R (wire_l la ++ x) = lift x (vrec (ftype wf) R (erase la))) wfs ls ->
  forall record x, rfields_plain rec wfs record (flat_map wire_l ls ++ x)
                   = lift x (vfields_plain vrec wfs (map erase ls) record).
Proof.
  induction 1 as [|wf la wfs ls Ha _ IH]; intros record x; cbn [rfields_plain vfields_plain flat_map map app]; [reflexivity|].
  rewrite <- app_assoc, Ha. destruct (vrec (ftype wf) None (erase la)) as [v| | |]; cbn [lift rbind]; try reflexivity.
  apply IH.
Qed.

Lemma rfields_ok (rec : schema -> option schema -> bytes -> rres (pyval * bytes))
      (vrec : schema -> option schema -> aval -> rres pyval) (skp : schema -> bytes -> res (unit * bytes)) rfs wfs (ls : list lval) :
  Forall2 (fun wf la => (forall R x, rec (ftype wf) R (wire_l la ++ x) = lift x (vrec (ftype wf) R (erase la))) /\
                        (forall x, skp (ftype wf) (wire_l la ++ x) = Ok (tt, x))) wfs ls ->
  forall record x, rfields rec skp rfs wfs record (flat_map wire_l ls ++ x)
                   = lift x (vfields vrec rfs wfs (map erase ls) record).
Proof.
  induction 1 as [|wf la wfs ls [Ha Hs] _ IH]; intros record x; cbn [rfields vfields flat_map map app]; [reflexivity|].
  rewrite <- app_assoc. destruct (reader_field rfs (fname wf)) as [rf|].
  - rewrite Ha. destruct (vrec (ftype wf) (Some (ftype rf)) (erase la)) as [v| | |]; cbn [lift rbind]; try reflexivity.
    apply IH.
  - rewrite Hs. cbn [of_res rbind]. apply IH.
Qed.

(** *** reading with a reader schema = decoding under the writer schema, then the value-level algorithm;
        exactly the bytes of one value are consumed (alignment after skipped fields included) *)
Theorem rdec_rval : forall n we w l, typedl n we w l ->
  forall f, (n <= f)%nat -> forall re o R x,
  rdec f we re o w R (wire_l l ++ x) = lift x (rval f we re o w R (erase l)).
Proof.
  induction n as [|n IH]; intros we w l Ht f Hf re o R x; [destruct Ht|].
  destruct f as [|f]; [lia|]. assert (Hf' : (n <= f)%nat) by lia.
  cbn [rdec rval].
  destruct (matched we re w R) as [R'| | |]; cbn [rbind lift]; try reflexivity.
  pose proof (typedl_strip _ _ _ _ Ht) as Hs.
  pose proof (strip_not_annot w) as Hna.
  destruct (strip w) as [| | | | | | | |nm al sz|nm al syms dflt|wi|wv|wbs|nm al wfs|nm|lt s'] eqn:Esw.
  16:{ exfalso. eapply Hna. reflexivity. }
  (* leaves: null boolean int long float double bytes string fixed *)
  1-9: (destruct l; cbn [typedl] in Hs; try contradiction; cbn [wire_l erase];
        match goal with |- context [read_leaf ?s _] => rewrite (read_leaf_ok n we s a x I Hs) end; apply lift_bind).
  - (* enum *)
    destruct l as [a| | | |]; cbn [typedl] in Hs; try contradiction.
    destruct a; cbn [typedn] in Hs; try contradiction. destruct Hs as [Hi Hi63].
    cbn [wire_l erase wire]. rewrite long_rt by (unfold in_int64; lia). cbn [of_res rbind].
    destruct (nthZ syms i) as [sym|]; [|reflexivity].
    destruct (enum_symbol R' sym) as [v| | |]; cbn [rbind lift]; try reflexivity.
  - (* array *)
    destruct l as [|bl| | |]; cbn [typedl] in Hs; try contradiction. destruct Hs as [Hlen Hbl].
    cbn [wire_l erase]. rewrite <- app_assoc. cbn [app].
    set (item := fun bs : bytes => match truthy R' with
                        | Some r => let+ ri := r_items r in rdec f we re o wi (Some ri) bs
                        | None => rdec f we re o wi None bs end).
    set (item' := fun a : aval => match truthy R' with
                        | Some r => let+ ri := r_items r in rval f we re o wi (Some ri) a
                        | None => rval f we re o wi None a end).
    pose proof (rblocks_ok item wire_l (fun la => item' (erase la)) bl (S f) x) as Hb. unfold wblk in Hb.
    rewrite Hb; [|lia|].
    + rewrite mapM_vitems, <- flat_map_map_snd.
      destruct (vitems item' (flat_map (fun b => map erase (snd b)) bl)) as [vs| | |]; cbn [lift rbind]; try reflexivity.
    + eapply Forall_impl; [|exact Hbl]. intros b (H1 & H2 & H3 & H4). split; [exact H1|split; [exact H2|split; [exact H3|]]].
      eapply Forall_impl; [|exact H4]. intros la Hla r. unfold item, item'.
      destruct (truthy R') as [r0|].
      * destruct (r_items r0) as [ri| | |]; cbn [rbind lift]; try reflexivity. apply IH; assumption.
      * apply IH; assumption.
  - (* map *)
    destruct l as [| |bl| |]; cbn [typedl] in Hs; try contradiction. destruct Hs as [Hlen Hbl].
    cbn [wire_l erase]. rewrite <- app_assoc. cbn [app].
    set (item := fun bs : bytes => match truthy R' with
                        | Some r => let+ rv := r_values r in rdec f we re o wv (Some rv) bs
                        | None => rdec f we re o wv None bs end).
    set (item' := fun a : aval => match truthy R' with
                        | Some r => let+ rv := r_values r in rval f we re o wv (Some rv) a
                        | None => rval f we re o wv None a end).
    pose proof (rblocks_ok (rmap_item item) (fun kv : bytes * lval => enc_bytes (fst kv) ++ wire_l (snd kv))
                  (fun kv => let+ v := item' (erase (snd kv)) in ROk (fst kv, v)) bl (S f) x) as Hb. unfold wblk in Hb.
    rewrite Hb; [|lia|].
    + rewrite mapM_vmap_items, <- flat_map_map_snd.
      destruct (vmap_items item' (flat_map (fun b => map (fun kv : bytes * lval => (fst kv, erase (snd kv))) (snd b)) bl))
        as [vs| | |]; cbn [lift rbind]; try reflexivity.
    + eapply Forall_impl; [|exact Hbl]. intros b (H1 & H2 & H3 & H4). split; [exact H1|split; [exact H2|split; [exact H3|]]].
      eapply Forall_impl; [|exact H4]. intros [k la] [Hk Hla] r. cbn [fst snd] in *.
      unfold rmap_item. rewrite <- app_assoc, dec_utf8_ok by exact Hk. cbn [of_res rbind].
      assert (Hi : item (wire_l la ++ r) = lift r (item' (erase la))).
      { unfold item, item'. destruct (truthy R') as [r0|].
        - destruct (r_values r0) as [rv| | |]; cbn [rbind lift]; try reflexivity. apply IH; assumption.
        - apply IH; assumption. }
      rewrite Hi. destruct (item' (erase la)); reflexivity.
  - (* union *)
    destruct l as [| | |i l|]; cbn [typedl] in Hs; try contradiction. destruct Hs as (Hi63 & s0 & Hn & Hl).
    cbn [wire_l erase]. rewrite <- app_assoc.
    assert (Hi : in_int64 i) by (pose proof (nthZ_range _ _ _ Hn); unfold in_int64; lia).
    rewrite long_rt by exact Hi. cbn [of_res rbind]. rewrite Hn.
    destruct (union_reader we re s0 R') as [[rb idx]| | |]; cbn [rbind lift]; try reflexivity.
    rewrite (IH we s0 l Hl f Hf' re o rb x).
    destruct (rval f we re o s0 rb (erase l)) as [v| | |]; cbn [lift rbind]; try reflexivity.
    destruct (wrap_union_r o we re wbs s0 idx v) as [v'| | |]; cbn [rbind]; try reflexivity.
  - (* record *)
    destruct l as [| | | |ls]; cbn [typedl] in Hs; try contradiction.
    cbn [wire_l erase].
    destruct R' as [r|].
    + destruct (r_fields r) as [rfs| | |]; cbn [rbind lift]; try reflexivity.
      rewrite (rfields_ok (rdec f we re o) (rval f we re o) (skip f we) rfs wfs ls).
      * destruct (vfields (rval f we re o) rfs wfs (map erase ls) []) as [record| | |]; cbn [lift rbind]; try reflexivity.
        destruct (finish_record re rfs record) as [v| | |]; cbn [rbind]; try reflexivity.
      * eapply Forall2_impl'; [|exact Hs]. intros fd la Hla. split.
        -- intros R0 x0. apply IH; assumption.
        -- intros x0. rewrite skip_is_dec, (wire_l_dec n we (ftype fd) la Hla f Hf' x0). reflexivity.
    + rewrite (rfields_plain_ok (rdec f we re o) (rval f we re o) wfs ls).
      * destruct (vfields_plain (rval f we re o) wfs (map erase ls) []) as [record| | |]; cbn [lift rbind]; reflexivity.
      * eapply Forall2_impl'; [|exact Hs]. intros fd la Hla R0 x0. apply IH; assumption.
  - (* by-name reference *)
    apply typedl_ref in Hs. destruct Hs as (s0 & Hlk & Hl). rewrite Hlk.
    replace (match erase l with
             | ANull | _ => match lookup we nm with
                            | Some w' => rval f we re o w' R' (erase l)
                            | None => RErrOther end end)
      with (rval f we re o s0 R' (erase l))
      by (rewrite Hlk; destruct (erase l); reflexivity).
    rewrite (IH we s0 l Hl f Hf' re o R' x).
    destruct (rval f we re o s0 R' (erase l)); reflexivity.
Qed.

(** the writer's own encoding *)
Corollary rdec_rval_wire n we w a : typedn n we w a ->
  forall f, (n <= f)%nat -> forall re o R x,
  rdec f we re o w R (wire a ++ x) = lift x (rval f we re o w R a).
Proof.
  intros Ht f Hf re o R x. destruct (layout_typed _ _ _ _ Ht) as (H1 & H2 & H3).
  pose proof (rdec_rval n we w (layout_of a) H1 f Hf re o R x) as H. rewrite H3, H2 in H. exact H.
Qed.

(* ------------------------------------------------------------------------------------------ *)
(** * Part B: when no rule applies the specification gives a resolution error *)

(** [resolve] looks at the writer schema only through [deref], at the reader schema only through [reader_side] *)
Lemma resolve_deref_w we re w w' r a : deref we w = deref we w' -> resolve we re w r a = resolve we re w' r a.
Proof. intros H. destruct a; cbn [resolve]; cbv zeta; rewrite H; reflexivity. Qed.

Lemma reader_side_deref we re dw r r' : deref re r = deref re r' -> reader_side we re dw r = reader_side we re dw r'.
Proof. intros H. unfold reader_side. rewrite H. reflexivity. Qed.

Lemma resolve_deref_r we re r r' : deref re r = deref re r' ->
  forall a w, resolve we re w r a = resolve we re w r' a.
Proof.
  intros H. induction a; intros w; cbn [resolve]; cbv zeta; rewrite ?(reader_side_deref we re (deref we w) r r' H); try reflexivity.
  destruct (deref we w); try reflexivity. destruct (nthZ bs i); [apply IHa|reflexivity].
Qed.

Lemma resolve_reader_side we re w r r' a : is_union (deref we w) = false ->
  reader_side we re (deref we w) r = reader_side we re (deref we w) r' ->
  resolve we re w r a = resolve we re w r' a.
Proof.
  intros Hu H. destruct a; cbn [resolve]; cbv zeta; rewrite ?H; try reflexivity.
  destruct (deref we w); try reflexivity. discriminate Hu.
Qed.

(** the value fits the (dereferenced, non-union) writer schema: the shape test of [resolve] *)
Definition fits (dw : schema) (a : aval) : bool :=
  match dw, a with
  | SNull, ANull | SBool, ABool _ | SInt, AInt _ | SLong, AInt _ | SFloat, AFloat _ | SDouble, ADouble _
  | SBytes, ABytes _ | SString, AString _ | SFixed _ _ _, AFixed _ | SEnum _ _ _ _, AEnum _
  | SRecord _ _ _, ARecord _ | SArray _, AArray _ | SMap _, AMap _ => true
  | _, _ => false
  end.

Definition is_prim (s : schema) : bool :=
  match s with SNull | SBool | SInt | SLong | SFloat | SDouble | SBytes | SString => true | _ => false end.

(** no branch of the reader union matches *)
Theorem error_no_branch we re w r a rbs :
  is_union (deref we w) = false -> fits (deref we w) a = true ->
  deref re r = SUnion rbs -> pick_branch we re (deref we w) rbs = None ->
  resolve we re w r a = RErrResolution.
Proof.
  intros Hu Hf Hr Hp.
  assert (Hs : reader_side we re (deref we w) r = None) by (unfold reader_side; rewrite Hr, Hp; reflexivity).
  destruct a; cbn [resolve]; cbv zeta; rewrite ?Hs; destruct (deref we w); try discriminate Hf; try discriminate Hu; reflexivity.
Qed.

(** primitive types that are neither equal nor related by a promotion *)
Theorem error_not_promotable we re w r a dr :
  is_prim (deref we w) = true -> fits (deref we w) a = true ->
  reader_side we re (deref we w) r = Some dr -> prim_match true (deref we w) dr = false ->
  resolve we re w r a = RErrResolution.
Proof.
  intros Hp Hf Hs Hm.
  destruct a; cbn [resolve]; cbv zeta; rewrite ?Hs; destruct (deref we w); try discriminate Hf; try discriminate Hp;
    destruct dr; try discriminate Hm; reflexivity.
Qed.

(** the reader's schema is of another kind altogether (named against unnamed, array against map, record against enum ...) *)
Definition same_kind (dw dr : schema) : bool :=
  match dw, dr with
  | SFixed _ _ _, SFixed _ _ _ | SEnum _ _ _ _, SEnum _ _ _ _ | SRecord _ _ _, SRecord _ _ _
  | SArray _, SArray _ | SMap _, SMap _ => true
  | _, _ => is_prim dw && is_prim dr
  end.

Theorem error_kind we re w r a dr :
  is_union (deref we w) = false -> fits (deref we w) a = true ->
  reader_side we re (deref we w) r = Some dr -> same_kind (deref we w) dr = false ->
  resolve we re w r a = RErrResolution.
Proof.
  intros Hu Hf Hs Hk.
  destruct a; cbn [resolve]; cbv zeta; rewrite ?Hs; destruct (deref we w); try discriminate Hf; try discriminate Hu;
    destruct dr; try discriminate Hk; reflexivity.
Qed.

(** fixed: size differs *)
Theorem error_fixed_size we re w r b wn wal wsz rn ral rsz :
  deref we w = SFixed wn wal wsz -> reader_side we re (SFixed wn wal wsz) r = Some (SFixed rn ral rsz) ->
  wsz <> rsz -> resolve we re w r (AFixed b) = RErrResolution.
Proof.
  intros Hw Hs Hne. cbn [resolve]; cbv zeta. rewrite Hw, Hs.
  destruct (wsz =? rsz) eqn:E; [lia|]. rewrite andb_false_r. reflexivity.
Qed.

(** named types: neither the unqualified names agree nor is the writer's name an alias of the reader's *)
Theorem error_name_mismatch_fixed we re w r b wn wal wsz rn ral rsz :
  deref we w = SFixed wn wal wsz -> reader_side we re (SFixed wn wal wsz) r = Some (SFixed rn ral rsz) ->
  names_match wn rn ral = false -> resolve we re w r (AFixed b) = RErrResolution.
Proof. intros Hw Hs Hn. cbn [resolve]; cbv zeta. rewrite Hw, Hs, Hn. reflexivity. Qed.

Theorem error_name_mismatch_enum we re w r i wn wal wsyms wd rn ral rsyms rd :
  deref we w = SEnum wn wal wsyms wd -> reader_side we re (SEnum wn wal wsyms wd) r = Some (SEnum rn ral rsyms rd) ->
  names_match wn rn ral = false -> resolve we re w r (AEnum i) = RErrResolution.
Proof. intros Hw Hs Hn. cbn [resolve]; cbv zeta. rewrite Hw, Hs, Hn. reflexivity. Qed.

Theorem error_name_mismatch_record we re w r l wn wal wfs rn ral rfs :
  deref we w = SRecord wn wal wfs -> reader_side we re (SRecord wn wal wfs) r = Some (SRecord rn ral rfs) ->
  names_match wn rn ral = false -> resolve we re w r (ARecord l) = RErrResolution.
Proof. intros Hw Hs Hn. cbn [resolve]; cbv zeta. rewrite Hw, Hs, Hn. reflexivity. Qed.

(** enum: the writer's symbol is unknown to the reader and the reader's enum has no default *)
Theorem error_unknown_symbol we re w r i sym wn wal wsyms wd rn ral rsyms :
  deref we w = SEnum wn wal wsyms wd -> reader_side we re (SEnum wn wal wsyms wd) r = Some (SEnum rn ral rsyms None) ->
  nthZ wsyms i = Some sym -> mem sym rsyms = false ->
  resolve we re w r (AEnum i) = RErrResolution.
Proof.
  intros Hw Hs Hi Hm. cbn [resolve]; cbv zeta. rewrite Hw, Hs, Hi, Hm.
  destruct (names_match wn rn ral); reflexivity.
Qed.

(** ... and with a default the default is the result *)
Theorem enum_default we re w r i sym d wn wal wsyms wd rn ral rsyms :
  deref we w = SEnum wn wal wsyms wd -> reader_side we re (SEnum wn wal wsyms wd) r = Some (SEnum rn ral rsyms (Some d)) ->
  names_match wn rn ral = true -> nthZ wsyms i = Some sym -> mem sym rsyms = false ->
  resolve we re w r (AEnum i) = ROk (PStr d).
Proof. intros Hw Hs Hn Hi Hm. cbn [resolve]; cbv zeta. rewrite Hw, Hs, Hn, Hi, Hm. reflexivity. Qed.

(** arrays / maps whose item schemas do not match (even when the datum is empty) *)
Theorem error_items we re w r l wi ri :
  deref we w = SArray wi -> reader_side we re (SArray wi) r = Some (SArray ri) ->
  smatch we re true wi ri = false -> resolve we re w r (AArray l) = RErrResolution.
Proof. intros Hw Hs Hm. cbn [resolve]; cbv zeta. rewrite Hw, Hs, Hm. reflexivity. Qed.

Theorem error_values we re w r l wv rv :
  deref we w = SMap wv -> reader_side we re (SMap wv) r = Some (SMap rv) ->
  smatch we re true wv rv = false -> resolve we re w r (AMap l) = RErrResolution.
Proof. intros Hw Hs Hm. cbn [resolve]; cbv zeta. rewrite Hw, Hs, Hm. reflexivity. Qed.

(** records: the first reader field that the writer's data does not provide has no default *)
Lemma spec_defaults_skip re tbl1 : forall tbl2 record,
  Forall (fun e => dict_get record (fst e) <> None) tbl1 ->
  spec_defaults re (tbl1 ++ tbl2) record = spec_defaults re tbl2 record.
Proof.
  induction tbl1 as [|[n fd] tbl1 IH]; intros tbl2 record H; cbn [app spec_defaults]; [reflexivity|].
  inversion H as [|? ? H1 H2]; subst. cbn [fst] in H1.
  destruct (dict_get record n); [apply IH; exact H2|contradiction].
Qed.

Theorem error_no_default we re w r l wn wal wfs rn ral rfs record tbl1 n fd tbl2 :
  deref we w = SRecord wn wal wfs -> reader_side we re (SRecord wn wal wfs) r = Some (SRecord rn ral rfs) ->
  names_match wn rn ral = true ->
  res_fields (resolve we re) rfs wfs l [] = ROk record ->          (* the writer's fields resolve *)
  field_table rfs = tbl1 ++ (n, fd) :: tbl2 ->
  Forall (fun e => dict_get record (fst e) <> None) tbl1 ->         (* reader fields before it are provided *)
  dict_get record n = None -> fdefault fd = None ->                 (* this one is not, and has no default *)
  resolve we re w r (ARecord l) = RErrResolution.
Proof.
  intros Hw Hs Hn Hf Ht H1 Hg Hd. cbn [resolve]; cbv zeta. rewrite Hw, Hs, Hn, Hf. cbn [rbind].
  rewrite Ht, spec_defaults_skip by exact H1. cbn [spec_defaults]. rewrite Hg, Hd. reflexivity.
Qed.

(* ------------------------------------------------------------------------------------------ *)
(** * Part C: a reader schema equal to the writer schema changes nothing *)

Lemma bytes_eqb_refl x : bytes_eqb x x = true.
Proof. induction x as [|c x IH]; cbn [bytes_eqb]; [reflexivity|]. rewrite Z.eqb_refl, IH. reflexivity. Qed.

Lemma bytes_eqb_eq x : forall y, bytes_eqb x y = true -> x = y.
Proof.
  induction x as [|c x IH]; intros [|d y] H; cbn [bytes_eqb] in H; try discriminate; [reflexivity|].
  apply andb_prop in H. destruct H as [H1 H2]. apply Z.eqb_eq in H1. rewrite (IH _ H2), H1. reflexivity.
Qed.

Lemma names_match_refl n al : names_match n n al = true.
Proof. unfold names_match. rewrite bytes_eqb_refl. reflexivity. Qed.

Lemma nthZ_some {A} (l : list A) : forall i, 0 <= i < len l -> exists x, nthZ l i = Some x.
Proof.
  induction l as [|a l IH]; intros i H; [unfold len in H; cbn [length] in H; lia|].
  rewrite len_cons in H. cbn [nthZ]. destruct (i =? 0) eqn:E0; [eexists; reflexivity|].
  destruct (i <? 0) eqn:E1; [lia|]. apply IH. lia.
Qed.

Lemma nthZ_mem (l : list str) : forall i x, nthZ l i = Some x -> mem x l = true.
Proof.
  induction l as [|a l IH]; intros i x H; cbn [nthZ] in H; [discriminate|]. unfold mem. cbn [existsb].
  destruct (i =? 0); [injection H as ->; rewrite bytes_eqb_refl; reflexivity|].
  destruct (i <? 0); [discriminate|]. apply orb_true_iff. right. exact (IH _ _ H).
Qed.

(** named loops of py_of *)
Definition py_items (o : ropts) (e : env) (it : schema) :=
  fix go (l : list aval) : option (list pyval) :=
    match l with
    | [] => Some []
    | x :: l => match py_of o e it x, go l with Some v, Some r => Some (v :: r) | _, _ => None end
    end.
Definition py_entries (o : ropts) (e : env) (vs : schema) :=
  fix go (l : list (bytes * aval)) (acc : list (pyval * pyval)) : option (list (pyval * pyval)) :=
    match l with
    | [] => Some acc
    | (k, x) :: l => match py_of o e vs x with Some v => go l (dict_set acc k v) | None => None end
    end.
Definition py_fields (o : ropts) (e : env) :=
  fix go (fs : list field) (l : list aval) (acc : list (pyval * pyval)) {struct l} : option (list (pyval * pyval)) :=
    match fs, l with
    | [], [] => Some acc
    | f :: fs, x :: l => match py_of o e (ftype f) x with
                         | Some v => go fs l (dict_set acc (fname f) v)
                         | None => None end
    | _, _ => None
    end.

Lemma py_of_array o e s it l : Read.resolve e s = SArray it ->
  py_of o e s (AArray l) = option_map PList (py_items o e it l).
Proof. intros H. cbn [py_of]. rewrite H. reflexivity. Qed.
Lemma py_of_map o e s vs l : Read.resolve e s = SMap vs ->
  py_of o e s (AMap l) = option_map PDict (py_entries o e vs l []).
Proof. intros H. cbn [py_of]. rewrite H. reflexivity. Qed.
Lemma py_of_record o e s n al fs l : Read.resolve e s = SRecord n al fs ->
  py_of o e s (ARecord l) = option_map PDict (py_fields o e fs l []).
Proof. intros H. cbn [py_of]. rewrite H. reflexivity. Qed.
Lemma py_of_union o e s bs i x : Read.resolve e s = SUnion bs ->
  py_of o e s (AUnion i x) = match nthZ bs i with
                             | Some b => match py_of o e b x with Some v => Some (wrap_union o bs b v) | None => None end
                             | None => None end.
Proof. intros H. cbn [py_of]. rewrite H. reflexivity. Qed.

Lemma py_of_deref o e s s' a : Read.resolve e s = Read.resolve e s' -> py_of o e s a = py_of o e s' a.
Proof. intros H. destruct a; cbn [py_of]; rewrite H; reflexivity. Qed.

(** dictionaries *)
Lemma dict_get_set_same d : forall k v, dict_get (dict_set d k v) k = Some v.
Proof.
  induction d as [|[k' v'] d IH]; intros k v; cbn [dict_set dict_get].
  - rewrite bytes_eqb_refl. reflexivity.
  - destruct k'; cbn [dict_get]; try apply IH.
    destruct (bytes_eqb s k) eqn:E; cbn [dict_get]; rewrite E; [reflexivity|apply IH].
Qed.

Lemma dict_get_set_keep d : forall k k' v, dict_get d k <> None -> dict_get (dict_set d k' v) k <> None.
Proof.
  induction d as [|[k0 v0] d IH]; intros k k' v H; cbn [dict_set dict_get] in *; [contradiction|].
  destruct k0; cbn [dict_get] in *; try (apply IH; exact H).
  destruct (bytes_eqb s k') eqn:E'; cbn [dict_get].
  - destruct (bytes_eqb s k); [discriminate|exact H].
  - destruct (bytes_eqb s k); [discriminate|]. apply IH. exact H.
Qed.

(** the keys of the reader's field table are field names *)
Lemma tbl_set_keys {A} (d : list (str * A)) k v : forall n, In n (map fst (tbl_set d k v)) -> In n (map fst d) \/ n = k.
Proof.
  induction d as [|[k' v'] d IH]; intros n H; cbn [tbl_set map fst In] in *.
  - destruct H as [<-|[]]. right. reflexivity.
  - destruct (bytes_eqb k' k); cbn [map fst In] in H.
    + destruct H as [<-|H]; [left; left; reflexivity|left; right; exact H].
    + destruct H as [<-|H]; [left; left; reflexivity|]. destruct (IH _ H) as [H'|H']; [left; right; exact H'|right; exact H'].
Qed.

Lemma field_table_keys rfs : forall n, In n (map fst (field_table rfs)) -> In n (map (@fname schema) rfs).
Proof.
  unfold field_table.
  assert (G : forall rfs acc n, In n (map fst (fold_left (fun d f => tbl_set d (fname f) f) rfs acc)) ->
                                In n (map fst acc) \/ In n (map (@fname schema) rfs)).
  { induction rfs0 as [|f rfs0 IH]; intros acc n H; cbn [fold_left map In] in *; [left; exact H|].
    destruct (IH _ _ H) as [H'|H']; [|right; right; exact H'].
    destruct (tbl_set_keys _ _ _ _ H') as [H'' | ->]; [left; exact H''|right; left; reflexivity]. }
  intros n H. destruct (G rfs [] n H) as [[]|H']. exact H'.
Qed.

Lemma spec_defaults_all_present re tbl : forall record,
  Forall (fun e => dict_get record (fst e) <> None) tbl -> spec_defaults re tbl record = ROk record.
Proof.
  intros record H. rewrite <- (app_nil_r tbl), spec_defaults_skip by exact H. reflexivity.
Qed.

(** well-formedness needed for the identity: unions whose branches do not capture each other, records whose
    fields find themselves, references that resolve to named types, item schemas that match themselves *)
Definition union_ok (e : env) (bs : list schema) : Prop :=
  forall i b, nthZ bs i = Some b ->
    is_union (deref e b) = false /\
    exists b', pick_branch e e (deref e b) bs = Some b' /\ deref e b' = deref e b.

Definition fields_ok (fs : list field) : Prop := Forall (fun f => reader_field fs (fname f) = Some f) fs.

Fixpoint wf_ident (n : nat) (e : env) (s : schema) {struct n} : Prop :=
  match n with
  | O => False
  | S n =>
    match s with
    | SArray s' | SMap s' => wf_ident n e s' /\ smatch e e true s' s' = true
    | SUnion bs => Forall (wf_ident n e) bs /\ union_ok e bs
    | SRecord _ _ fs => Forall (fun f => wf_ident n e (ftype f)) fs /\ fields_ok fs
    | SRef nm => exists d, lookup e nm = Some d /\ deref e d = strip d /\ wf_ident n e d
    | SAnnot _ s' => wf_ident n e s'
    | _ => True
    end
  end.

Lemma wf_ident_mono : forall n e s, wf_ident n e s -> wf_ident (S n) e s.
Proof.
  induction n as [|n IH]; intros e s H; [destruct H|].
  destruct s; try exact I; cbn [wf_ident] in H |- *.
  - destruct H as [H1 H2]. split; [apply IH; exact H1|exact H2].
  - destruct H as [H1 H2]. split; [apply IH; exact H1|exact H2].
  - destruct H as [H1 H2]. split; [|exact H2]. eapply Forall_impl; [|exact H1]. intros; apply IH; assumption.
  - destruct H as [H1 H2]. split; [|exact H2]. eapply Forall_impl; [|exact H1]. intros; apply IH; assumption.
  - destruct H as (d & H1 & H2 & H3). exists d. split; [exact H1|split; [exact H2|apply IH; exact H3]].
  - apply IH. exact H.
Qed.

Lemma wf_ident_le n m e s : (n <= m)%nat -> wf_ident n e s -> wf_ident m e s.
Proof. induction 1 as [|m _ IH]; intros H; [exact H|]. apply wf_ident_mono. auto. Qed.

Definition ident_ok (e : env) (s : schema) (a : aval) : Prop :=
  exists v, py_of ropts0 e s a = Some v /\ resolve e e s s a = ROk v.

Lemma ident_items e it l : Forall (ident_ok e it) l ->
  exists vs, py_items ropts0 e it l = Some vs /\ res_items (resolve e e) it it l = ROk vs.
Proof.
  induction 1 as [|x l (v & H1 & H2) _ (vs & H3 & H4)]; cbn [py_items res_items]; [eexists; split; reflexivity|].
  fold (py_items ropts0 e it). rewrite H1, H2, H3, H4. eexists; split; reflexivity.
Qed.

Lemma ident_entries e vs l : Forall (fun kv => ident_ok e vs (snd kv)) l ->
  forall acc, exists kvs, res_entries (resolve e e) vs vs l = ROk kvs /\
    py_entries ropts0 e vs l acc = Some (fold_left (fun d kv => dict_set d (fst kv) (snd kv)) kvs acc).
Proof.
  induction 1 as [|[k x] l (v & H1 & H2) _ IH]; intros acc; cbn [py_entries res_entries]; [eexists; split; reflexivity|].
  fold (py_entries ropts0 e vs). cbn [snd] in H1, H2. rewrite H1, H2.
  destruct (IH (dict_set acc k v)) as (kvs & H3 & H4). rewrite H3, H4. eexists; split; reflexivity.
Qed.

Lemma ident_fields e rfs wfs l : Forall2 (fun f x => ident_ok e (ftype f) x) wfs l ->
  Forall (fun f => reader_field rfs (fname f) = Some f) wfs ->
  forall acc, exists rec, py_fields ropts0 e wfs l acc = Some rec /\ res_fields (resolve e e) rfs wfs l acc = ROk rec /\
    (forall k, dict_get acc k <> None -> dict_get rec k <> None) /\
    (forall f, In f wfs -> dict_get rec (fname f) <> None).
Proof.
  induction 1 as [|f x wfs l (v & H1 & H2) _ IH]; intros Hrf acc; cbn [py_fields res_fields].
  - exists acc. repeat split; auto; intros f0 [].
  - fold (py_fields ropts0 e). inversion Hrf as [|? ? Hf Hrf']; subst. rewrite Hf, H1, H2. cbn [rbind].
    destruct (IH Hrf' (dict_set acc (fname f) v)) as (rec & H3 & H4 & H5 & H6). exists rec.
    split; [exact H3|split; [exact H4|split]].
    + intros k Hk. apply H5. apply dict_get_set_keep. exact Hk.
    + intros f' [<-|Hin]; [|apply H6; exact Hin]. apply H5. rewrite dict_get_set_same. discriminate.
Qed.

Lemma deref_annot e lt s : deref e (SAnnot lt s) = deref e s.
Proof. reflexivity. Qed.

Lemma deref_not_annot e s : forall l0 s', deref e s <> SAnnot l0 s'.
Proof.
  intros l0 s'. unfold deref, Read.resolve. pose proof (strip_not_annot s) as H.
  destruct (strip s) eqn:E; try discriminate; try (exfalso; eapply H; reflexivity).
  destruct (lookup e n); [apply strip_not_annot|discriminate].
Qed.

Theorem resolve_identity : forall n e s a, typedn n e s a -> wf_ident n e s -> ident_ok e s a.
Proof.
  induction n as [|n IH]; intros e s a Ht Hw; [destruct Ht|].
  destruct s.
  15:{ (* reference *)
    apply typedn_ref in Ht. destruct Ht as (d & Hl & Ht). cbn [wf_ident] in Hw. destruct Hw as (d' & Hl' & Hd & Hw).
    rewrite Hl in Hl'. injection Hl' as <-.
    destruct (IH e d a Ht Hw) as (v & H1 & H2). exists v.
    assert (E : deref e (SRef n0) = deref e d) by (unfold deref, Read.resolve at 1; cbn [strip]; rewrite Hl; symmetry; exact Hd).
    split.
    - rewrite (py_of_deref _ _ _ d); [exact H1|exact E].
    - rewrite (resolve_deref_w e e _ d) by exact E. rewrite (resolve_deref_r e e _ d E). exact H2. }
  15:{ (* annotation *)
    apply typedn_annot in Ht. cbn [wf_ident] in Hw. destruct (IH e s a Ht Hw) as (v & H1 & H2). exists v. split.
    - rewrite (py_of_deref _ _ _ s); [exact H1|reflexivity].
    - rewrite (resolve_deref_w e e _ s) by reflexivity. rewrite (resolve_deref_r e e _ s (deref_annot e lt s)). exact H2. }
  all: destruct a; cbn [typedn] in Ht; try contradiction.
  1-8: (eexists; split; reflexivity).
  - (* fixed *)
    eexists; split; [reflexivity|]. cbn [resolve]; cbv zeta. cbn. rewrite names_match_refl, Z.eqb_refl. reflexivity.
  - (* enum *)
    destruct Ht as [Hi _]. destruct (nthZ_some syms i Hi) as (sym & Hs).
    exists (PStr sym). split; [cbn; rewrite Hs; reflexivity|].
    cbn [resolve]; cbv zeta. cbn. rewrite names_match_refl, Hs, (nthZ_mem _ _ _ Hs). reflexivity.
  - (* array *)
    destruct Ht as [_ Hl]. cbn [wf_ident] in Hw. destruct Hw as [Hw Hm].
    assert (Hi : Forall (ident_ok e s) l) by (eapply Forall_impl; [|exact Hl]; intros x Hx; apply IH; assumption).
    destruct (ident_items e s l Hi) as (vs & H1 & H2). exists (PList vs). split.
    + rewrite (py_of_array _ _ _ s) by reflexivity. rewrite H1. reflexivity.
    + cbn [resolve]; cbv zeta. cbn [deref Read.resolve strip reader_side]. rewrite Hm, H2. reflexivity.
  - (* map *)
    destruct Ht as [_ Hl]. cbn [wf_ident] in Hw. destruct Hw as [Hw Hm].
    assert (Hi : Forall (fun kv : bytes * aval => ident_ok e s (snd kv)) l).
    { eapply Forall_impl; [|exact Hl]. intros kv [_ Hx]. apply IH; assumption. }
    destruct (ident_entries e s l Hi []) as (kvs & H1 & H2). exists (PDict (dict_of_items kvs)). split.
    + rewrite (py_of_map _ _ _ s) by reflexivity. rewrite H2. reflexivity.
    + cbn [resolve]; cbv zeta. cbn [deref Read.resolve strip reader_side]. rewrite Hm, H1. reflexivity.
  - (* union *)
    destruct Ht as (_ & wb & Hn & Hx). cbn [wf_ident] in Hw. destruct Hw as [Hw Hu].
    assert (Hwb : wf_ident n e wb).
    { clear - Hw Hn. revert i Hn. induction Hw as [|b bs Hb _ IHb]; intros i Hn; cbn [nthZ] in Hn; [discriminate|].
      destruct (i =? 0); [injection Hn as <-; exact Hb|]. destruct (i <? 0); [discriminate|]. eapply IHb. exact Hn. }
    destruct (IH e wb a Hx Hwb) as (v & H1 & H2). exists v. split.
    + rewrite (py_of_union _ _ _ bs) by reflexivity. rewrite Hn, H1. reflexivity.
    + cbn [resolve]; cbv zeta. cbn [deref Read.resolve strip]. rewrite Hn.
      destruct (Hu i wb Hn) as (Hnu & b' & Hp & Hd).
      rewrite <- H2. apply resolve_reader_side; [exact Hnu|].
      unfold reader_side at 1. cbn [deref Read.resolve strip]. rewrite Hp.
      fold (deref e b'). rewrite Hd.
      unfold reader_side. destruct (deref e wb) eqn:E; try reflexivity. discriminate Hnu.
  - (* record *)
    cbn [wf_ident] in Hw. destruct Hw as [Hw Hf].
    assert (Hi : Forall2 (fun f x => ident_ok e (ftype f) x) fs l).
    { clear - IH Ht Hw. induction Ht as [|f x fs l Hx _ IHt]; constructor.
      - inversion Hw; subst. apply IH; assumption.
      - inversion Hw; subst. apply IHt. assumption. }
    destruct (ident_fields e fs fs l Hi Hf []) as (rec & H1 & H2 & _ & H4). exists (PDict rec). split.
    + rewrite (py_of_record _ _ _ n0 al fs) by reflexivity. rewrite H1. reflexivity.
    + cbn [resolve]; cbv zeta. cbn [deref Read.resolve strip reader_side]. rewrite names_match_refl, H2. cbn [rbind].
      rewrite spec_defaults_all_present; [reflexivity|].
      apply Forall_forall. intros [k fd] Hin. cbn [fst].
      assert (Hk : In k (map (@fname schema) fs)) by (apply field_table_keys; apply in_map_iff; exists (k, fd); split; [reflexivity|exact Hin]).
      apply in_map_iff in Hk. destruct Hk as (f & <- & Hfin). apply H4. exact Hfin.
Qed.



