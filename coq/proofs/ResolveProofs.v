(** Proofs about schema resolution (model/Resolve.v).

    Part A  rdec = decode ; rval          (the code consumes exactly one value, whatever the reader schema)
    Part B  error rules of the specification [resolve]
    Part C  identity: resolve ropts0 e e s s = py_of
    Part D  rval = resolve inside the agreement zone (inline schemas) *)
From Coq Require Import Lia ZifyBool.
From FA Require Import model.Base model.Varint model.Value model.Schema model.Float model.Utf8 model.Codec
                       model.Validate model.Read model.Resolve proofs.VarintProofs proofs.CodecProofs.
Open Scope Z_scope.

Definition lift {A} (x : bytes) (r : rres A) : rres (A * bytes) := let+ v := r in ROk (v, x).

Lemma lift_bind {A B} (x : bytes) (Y : rres A) (g : A -> rres B) :
  (let+ (v, bs) := lift x Y in let+ v' := g v in ROk (v', bs)) = lift x (let+ v := Y in g v).
Proof. destruct Y as [v| | |]; cbn [lift rbind]; try reflexivity. Qed.

(* ------------------------------------------------------------------------------------------ *)
(** * Part A *)

(** *** typing of layouts: monotone in the height, stable under [strip] *)
Lemma typedl_mono : forall n e s l, typedl n e s l -> typedl (S n) e s l.
Proof.
  induction n as [|n IH]; intros e s l H; [destruct H|].
  destruct s.
  15:{ apply typedl_ref in H. apply typedl_ref. destruct H as (s0 & Hl & H). exists s0. split; [exact Hl|apply IH; exact H]. }
  15:{ apply typedl_annot in H. apply typedl_annot. apply IH. exact H. }
  all: destruct l; cbn [typedl] in H; try contradiction.
  1-10: (cbn [typedl]; apply (typedn_mono (S n)); exact H).
  - destruct H as [Hl H]. split; [lia|]. eapply Forall_impl; [|exact H].
    intros b (H1 & H2 & H3 & H4). split; [exact H1|split; [exact H2|split; [exact H3|]]]. eapply Forall_impl; [|exact H4]. intros; apply IH; assumption.
  - destruct H as [Hl H]. split; [lia|]. eapply Forall_impl; [|exact H].
    intros b (H1 & H2 & H3 & H4). split; [exact H1|split; [exact H2|split; [exact H3|]]]. eapply Forall_impl; [|exact H4].
    intros kv [Hk Hv]. split; [exact Hk|apply IH; exact Hv].
  - destruct H as (Hi & s0 & Hn & H). split; [exact Hi|]. exists s0. split; [exact Hn|apply IH; exact H].
  - eapply Forall2_impl'; [|exact H]. intros; apply IH; assumption.
Qed.

Lemma typedl_le n m e s l : (n <= m)%nat -> typedl n e s l -> typedl m e s l.
Proof. induction 1 as [|m _ IH]; intros Ht; [exact Ht|]. apply typedl_mono. auto. Qed.

Lemma typedl_strip : forall n e s l, typedl n e s l -> typedl n e (strip s) l.
Proof.
  induction n as [|n IH]; intros e s l H; [destruct H|].
  destruct s; try exact H.
  apply typedl_annot in H. cbn [strip]. apply typedl_mono. apply IH. exact H.
Qed.

Lemma strip_not_annot s : forall l0 s', strip s <> SAnnot l0 s'.
Proof. induction s; intros l0 s'; cbn [strip]; try discriminate. apply IHs. Qed.

Lemma strip_idem s : strip (strip s) = strip s.
Proof. induction s; cbn [strip]; try reflexivity. exact IHs. Qed.

(** *** the block loop over [rres] *)
Section RBlocksProofs.
  Context {A : Type}.
  Variable rec : bytes -> rres (A * bytes).

  Fixpoint ritems_nat (n : nat) (bs : bytes) : rres (list A * bytes) :=
    match n with
    | O => ROk ([], bs)
    | S n => let+ (a, bs) := rec bs in let+ (l, bs) := ritems_nat n bs in ROk (a :: l, bs)
    end.

  Lemma ritems_nat_add n : forall m bs,
    ritems_nat (n + m) bs =
    (let+ (l1, bs) := ritems_nat n bs in let+ (l2, bs) := ritems_nat m bs in ROk (l1 ++ l2, bs)).
  Proof.
    induction n as [|n IH]; intros m bs; cbn [ritems_nat Nat.add rbind].
    - destruct (ritems_nat m bs) as [[l b]| | |]; reflexivity.
    - destruct (rec bs) as [[a b]| | |]; cbn [rbind]; try reflexivity.
      rewrite IH. destruct (ritems_nat n b) as [[l1 b1]| | |]; cbn [rbind]; try reflexivity.
      destruct (ritems_nat m b1) as [[l2 b2]| | |]; reflexivity.
  Qed.

  Lemma ritems_pos_nat p : forall bs, ritems_pos rec p bs = ritems_nat (Pos.to_nat p) bs.
  Proof.
    induction p as [p IH|p IH|]; intros bs; cbn [ritems_pos].
    - rewrite Pos2Nat.inj_xI.
      replace (2 * Pos.to_nat p)%nat with (Pos.to_nat p + Pos.to_nat p)%nat by lia.
      cbn [ritems_nat].
      destruct (rec bs) as [[a b]| | |]; cbn [rbind]; try reflexivity.
      rewrite ritems_nat_add, IH. destruct (ritems_nat (Pos.to_nat p) b) as [[l1 b1]| | |]; cbn [rbind]; try reflexivity.
      rewrite IH. destruct (ritems_nat (Pos.to_nat p) b1) as [[l2 b2]| | |]; reflexivity.
    - rewrite Pos2Nat.inj_xO.
      replace (2 * Pos.to_nat p)%nat with (Pos.to_nat p + Pos.to_nat p)%nat by lia.
      rewrite ritems_nat_add, IH. destruct (ritems_nat (Pos.to_nat p) bs) as [[l1 b1]| | |]; cbn [rbind]; try reflexivity.
      rewrite IH. reflexivity.
    - change (Pos.to_nat 1) with 1%nat. cbn [ritems_nat].
      destruct (rec bs) as [[a b]| | |]; reflexivity.
  Qed.

  Lemma ritems_Z_nat c bs : 0 <= c -> ritems_Z rec c bs = ritems_nat (Z.to_nat c) bs.
  Proof.
    intros Hc. destruct c as [|p|p]; [reflexivity| |lia].
    cbn [ritems_Z]. rewrite ritems_pos_nat. rewrite Z2Nat.inj_pos. reflexivity.
  Qed.

  Context {B : Type}.
  Variable w : B -> bytes.
  Variable g : B -> rres A.

  Fixpoint mapM (l : list B) : rres (list A) :=
    match l with
    | [] => ROk []
    | b :: l => let+ v := g b in let+ t := mapM l in ROk (v :: t)
    end.

  Lemma mapM_app l1 : forall l2,
    mapM (l1 ++ l2) = (let+ a := mapM l1 in let+ b := mapM l2 in ROk (a ++ b)).
  Proof.
    induction l1 as [|b l1 IH]; intros l2; cbn [mapM app rbind].
    - destruct (mapM l2); reflexivity.
    - destruct (g b) as [v| | |]; cbn [rbind]; try reflexivity. rewrite IH.
      destruct (mapM l1) as [a| | |]; cbn [rbind]; try reflexivity.
      destruct (mapM l2) as [c| | |]; reflexivity.
  Qed.

  Definition item_ok (b : B) := forall r, rec (w b ++ r) = lift r (g b).

  Lemma ritems_nat_ok l : Forall item_ok l ->
    forall r, ritems_nat (length l) (flat_map w l ++ r) = lift r (mapM l).
  Proof.
    induction 1 as [|a l Ha _ IH]; intros r; cbn [ritems_nat length flat_map app mapM]; [reflexivity|].
    rewrite <- app_assoc, Ha. destruct (g a) as [v| | |]; cbn [lift rbind]; try reflexivity.
    rewrite IH. destruct (mapM l) as [t| | |]; reflexivity.
  Qed.

  Lemma ritems_Z_ok l : Forall item_ok l ->
    forall r, ritems_Z rec (len l) (flat_map w l ++ r) = lift r (mapM l).
  Proof.
    intros H r. rewrite ritems_Z_nat by apply len_nonneg. unfold len. rewrite Nat2Z.id.
    apply ritems_nat_ok. exact H.
  Qed.

  Definition wblk (b : bool * Z * list B) : bytes :=
    block_head (fst (fst b)) (snd (fst b)) (len (snd b)) ++ flat_map w (snd b).

  Lemma rblocks_ok : forall (bl : list (bool * Z * list B)) k r,
    (length bl < k)%nat ->
    Forall (fun b => snd b <> [] /\ len (snd b) < 2 ^ 63 /\ in_int64 (snd (fst b)) /\ Forall item_ok (snd b)) bl ->
    rblocks rec k (flat_map wblk bl ++ 0 :: r) = lift r (mapM (flat_map snd bl)).
  Proof.
    induction bl as [|[[neg sz] its] bl IH]; intros k r Hk H.
    - destruct k as [|k]; [cbn [length] in Hk; lia|]. cbn [flat_map app rblocks].
      rewrite long_dec_zero. reflexivity.
    - destruct k as [|k]; [cbn [length] in Hk; lia|].
      inversion H as [|? ? Hb Hrest]; subst. cbn [fst snd] in Hb. destruct Hb as (Hne & Hlen & Hsz & Hits).
      assert (Hpos : 0 < len its).
      { destruct its; [contradiction|]. rewrite len_cons. pose proof (len_nonneg its). lia. }
      assert (Hk' : (length bl < k)%nat) by (cbn [length] in Hk; lia).
      cbn [flat_map rblocks snd]. unfold wblk at 1. cbn [fst snd]. unfold block_head.
      rewrite mapM_app.
      destruct neg.
      + rewrite <- !app_assoc, long_rt by (unfold in_int64; lia). cbn [of_res rbind].
        destruct (- len its =? 0) eqn:E0; [lia|]. destruct (- len its <? 0) eqn:E1; [|lia].
        rewrite long_rt by exact Hsz. cbn [of_res rbind]. rewrite Z.opp_involutive.
        rewrite ritems_Z_ok by exact Hits.
        destruct (mapM its) as [l1| | |]; cbn [lift rbind]; try reflexivity.
        rewrite (IH k r Hk' Hrest). destruct (mapM (flat_map snd bl)) as [l2| | |]; reflexivity.
      + rewrite <- !app_assoc, long_rt by (unfold in_int64; lia). cbn [of_res rbind].
        destruct (len its =? 0) eqn:E0; [lia|]. destruct (len its <? 0) eqn:E1; [lia|]. cbn [rbind].
        rewrite ritems_Z_ok by exact Hits.
        destruct (mapM its) as [l1| | |]; cbn [lift rbind]; try reflexivity.
        rewrite (IH k r Hk' Hrest). destruct (mapM (flat_map snd bl)) as [l2| | |]; reflexivity.
  Qed.
End RBlocksProofs.

Lemma flat_map_map_snd {B C} (er : B -> C) (bl : list (bool * Z * list B)) :
  flat_map (fun b => map er (snd b)) bl = map er (flat_map snd bl).
Proof. induction bl as [|b bl IH]; cbn [flat_map]; [reflexivity|]. rewrite map_app, IH. reflexivity. Qed.

Lemma mapM_vitems (h : aval -> rres pyval) (ls : list lval) :
  mapM (fun la => h (erase la)) ls = vitems h (map erase ls).
Proof.
  induction ls as [|a ls IH]; cbn [mapM vitems map]; [reflexivity|].
  destruct (h (erase a)); cbn [rbind]; try reflexivity. rewrite IH. reflexivity.
Qed.

Lemma mapM_vmap_items (h : aval -> rres pyval) (ls : list (bytes * lval)) :
  mapM (fun kv => let+ v := h (erase (snd kv)) in ROk (fst kv, v)) ls
  = vmap_items h (map (fun kv => (fst kv, erase (snd kv))) ls).
Proof.
  induction ls as [|[k a] ls IH]; cbn [mapM vmap_items map fst snd]; [reflexivity|].
  destruct (h (erase a)); cbn [rbind]; try reflexivity. rewrite IH. reflexivity.
Qed.

(** *** leaves *)
Lemma leaf_typed_env n e e' s a : leaf_schema s -> typedn (S n) e s a -> typedn (S n) e' s a.
Proof. intros Hs H. destruct s; cbn [leaf_schema] in Hs; try contradiction; destruct a; exact H. Qed.

Lemma read_leaf_ok n e s a x : leaf_schema s -> typedn (S n) e s a ->
  read_leaf s (wire a ++ x) = lift x (leaf_py s a).
Proof.
  intros Hs H. unfold read_leaf.
  rewrite (leaf_dec n [] s a Hs (leaf_typed_env n e [] s a Hs H) 0%nat x). cbn [of_res rbind lift].
  destruct (leaf_py s a); reflexivity.
Qed.

(** *** record fields *)
Lemma rfields_plain_ok (rec : schema -> option schema -> bytes -> rres (pyval * bytes))
      (vrec : schema -> option schema -> aval -> rres pyval) wfs (ls : list lval) :
  Forall2 (fun wf la => forall R x, rec (ftype wf) R (wire_l la ++ x) = lift x (vrec (ftype wf) R (erase la))) wfs ls ->
  forall record x, rfields_plain rec wfs record (flat_map wire_l ls ++ x)
                   = lift x (vfields_plain vrec wfs (map erase ls) record).
Proof.
  induction 1 as [|wf la wfs ls Ha _ IH]; intros record x; cbn [rfields_plain vfields_plain flat_map map app]; [reflexivity|].
  rewrite <- app_assoc, Ha. destruct (vrec (ftype wf) None (erase la)) as [v| | |]; cbn [lift rbind]; try reflexivity.
  apply IH.
Qed.

Lemma rfields_ok (rec : schema -> option schema -> bytes -> rres (pyval * bytes))
      (vrec : schema -> option schema -> aval -> rres pyval) (skp : schema -> bytes -> res (unit * bytes)) rfs wfs (ls : list lval) :
  Forall2 (fun wf la => (forall R x, rec (ftype wf) R (wire_l la ++ x) = lift x (vrec (ftype wf) R (erase la))) /\
                        (forall x, skp (ftype wf) (wire_l la ++ x) = Ok (tt, x))) wfs ls ->
  forall record x, rfields rec skp rfs wfs record (flat_map wire_l ls ++ x)
                   = lift x (vfields vrec rfs wfs (map erase ls) record).
Proof.
  induction 1 as [|wf la wfs ls [Ha Hs] _ IH]; intros record x; cbn [rfields vfields flat_map map app]; [reflexivity|].
  rewrite <- app_assoc. destruct (reader_field rfs (fname wf)) as [rf|].
  - rewrite Ha. destruct (vrec (ftype wf) (Some (ftype rf)) (erase la)) as [v| | |]; cbn [lift rbind]; try reflexivity.
    apply IH.
  - rewrite Hs. cbn [of_res rbind]. apply IH.
Qed.

(** *** reading with a reader schema = decoding under the writer schema, then the value-level algorithm;
        exactly the bytes of one value are consumed (alignment after skipped fields included) *)
Theorem rdec_rval : forall n we w l, typedl n we w l ->
  forall f, (n <= f)%nat -> forall re o R x,
  rdec f we re o w R (wire_l l ++ x) = lift x (rval f we re o w R (erase l)).
Proof.
  induction n as [|n IH]; intros we w l Ht f Hf re o R x; [destruct Ht|].
  destruct f as [|f]; [lia|]. assert (Hf' : (n <= f)%nat) by lia.
  cbn [rdec rval].
  destruct (matched we re w R) as [R'| | |]; cbn [rbind lift]; try reflexivity.
  pose proof (typedl_strip _ _ _ _ Ht) as Hs.
  pose proof (strip_not_annot w) as Hna.
  destruct (strip w) as [| | | | | | | |nm al sz|nm al syms dflt|wi|wv|wbs|nm al wfs|nm|lt s'] eqn:Esw.
  16:{ exfalso. eapply Hna. reflexivity. }
  (* leaves: null boolean int long float double bytes string fixed *)
  1-9: (destruct l; cbn [typedl] in Hs; try contradiction; cbn [wire_l erase];
        match goal with |- context [read_leaf ?s _] => rewrite (read_leaf_ok n we s a x I Hs) end; apply lift_bind).
  - (* enum *)
    destruct l as [a| | | |]; cbn [typedl] in Hs; try contradiction.
    destruct a; cbn [typedn] in Hs; try contradiction. destruct Hs as [Hi Hi63].
    cbn [wire_l erase wire]. rewrite long_rt by (unfold in_int64; lia). cbn [of_res rbind].
    destruct (nthZ syms i) as [sym|]; [|reflexivity].
    destruct (enum_symbol R' sym) as [v| | |]; cbn [rbind lift]; try reflexivity.
  - (* array *)
    destruct l as [|bl| | |]; cbn [typedl] in Hs; try contradiction. destruct Hs as [Hlen Hbl].
    cbn [wire_l erase]. rewrite <- app_assoc. cbn [app].
    set (item := fun bs : bytes => match truthy R' with
                        | Some r => let+ ri := r_items r in rdec f we re o wi (Some ri) bs
                        | None => rdec f we re o wi None bs end).
    set (item' := fun a : aval => match truthy R' with
                        | Some r => let+ ri := r_items r in rval f we re o wi (Some ri) a
                        | None => rval f we re o wi None a end).
    pose proof (rblocks_ok item wire_l (fun la => item' (erase la)) bl (S f) x) as Hb. unfold wblk in Hb.
    rewrite Hb; [|lia|].
    + rewrite mapM_vitems, <- flat_map_map_snd.
      destruct (vitems item' (flat_map (fun b => map erase (snd b)) bl)) as [vs| | |]; cbn [lift rbind]; try reflexivity.
    + eapply Forall_impl; [|exact Hbl]. intros b (H1 & H2 & H3 & H4). split; [exact H1|split; [exact H2|split; [exact H3|]]].
      eapply Forall_impl; [|exact H4]. intros la Hla r. unfold item, item'.
      destruct (truthy R') as [r0|].
      * destruct (r_items r0) as [ri| | |]; cbn [rbind lift]; try reflexivity. apply IH; assumption.
      * apply IH; assumption.
  - (* map *)
    destruct l as [| |bl| |]; cbn [typedl] in Hs; try contradiction. destruct Hs as [Hlen Hbl].
    cbn [wire_l erase]. rewrite <- app_assoc. cbn [app].
    set (item := fun bs : bytes => match truthy R' with
                        | Some r => let+ rv := r_values r in rdec f we re o wv (Some rv) bs
                        | None => rdec f we re o wv None bs end).
    set (item' := fun a : aval => match truthy R' with
                        | Some r => let+ rv := r_values r in rval f we re o wv (Some rv) a
                        | None => rval f we re o wv None a end).
    pose proof (rblocks_ok (rmap_item item) (fun kv : bytes * lval => enc_bytes (fst kv) ++ wire_l (snd kv))
                  (fun kv => let+ v := item' (erase (snd kv)) in ROk (fst kv, v)) bl (S f) x) as Hb. unfold wblk in Hb.
    rewrite Hb; [|lia|].
    + rewrite mapM_vmap_items, <- flat_map_map_snd.
      destruct (vmap_items item' (flat_map (fun b => map (fun kv : bytes * lval => (fst kv, erase (snd kv))) (snd b)) bl))
        as [vs| | |]; cbn [lift rbind]; try reflexivity.
    + eapply Forall_impl; [|exact Hbl]. intros b (H1 & H2 & H3 & H4). split; [exact H1|split; [exact H2|split; [exact H3|]]].
      eapply Forall_impl; [|exact H4]. intros [k la] [Hk Hla] r. cbn [fst snd] in *.
      unfold rmap_item. rewrite <- app_assoc, dec_utf8_ok by exact Hk. cbn [of_res rbind].
      assert (Hi : item (wire_l la ++ r) = lift r (item' (erase la))).
      { unfold item, item'. destruct (truthy R') as [r0|].
        - destruct (r_values r0) as [rv| | |]; cbn [rbind lift]; try reflexivity. apply IH; assumption.
        - apply IH; assumption. }
      rewrite Hi. destruct (item' (erase la)); reflexivity.
  - (* union *)
    destruct l as [| | |i l|]; cbn [typedl] in Hs; try contradiction. destruct Hs as (Hi63 & s0 & Hn & Hl).
    cbn [wire_l erase]. rewrite <- app_assoc.
    assert (Hi : in_int64 i) by (pose proof (nthZ_range _ _ _ Hn); unfold in_int64; lia).
    rewrite long_rt by exact Hi. cbn [of_res rbind]. rewrite Hn.
    destruct (union_reader we re s0 R') as [[rb idx]| | |]; cbn [rbind lift]; try reflexivity.
    rewrite (IH we s0 l Hl f Hf' re o rb x).
    destruct (rval f we re o s0 rb (erase l)) as [v| | |]; cbn [lift rbind]; try reflexivity.
    destruct (wrap_union_r o we re wbs s0 idx v) as [v'| | |]; cbn [rbind]; try reflexivity.
  - (* record *)
    destruct l as [| | | |ls]; cbn [typedl] in Hs; try contradiction.
    cbn [wire_l erase].
    destruct R' as [r|].
    + destruct (r_fields r) as [rfs| | |]; cbn [rbind lift]; try reflexivity.
      rewrite (rfields_ok (rdec f we re o) (rval f we re o) (skip f we) rfs wfs ls).
      * destruct (vfields (rval f we re o) rfs wfs (map erase ls) []) as [record| | |]; cbn [lift rbind]; try reflexivity.
        destruct (finish_record re rfs record) as [v| | |]; cbn [rbind]; try reflexivity.
      * eapply Forall2_impl'; [|exact Hs]. intros fd la Hla. split.
        -- intros R0 x0. apply IH; assumption.
        -- intros x0. rewrite skip_is_dec, (wire_l_dec n we (ftype fd) la Hla f Hf' x0). reflexivity.
    + rewrite (rfields_plain_ok (rdec f we re o) (rval f we re o) wfs ls).
      * destruct (vfields_plain (rval f we re o) wfs (map erase ls) []) as [record| | |]; cbn [lift rbind]; reflexivity.
      * eapply Forall2_impl'; [|exact Hs]. intros fd la Hla R0 x0. apply IH; assumption.
  - (* by-name reference *)
    apply typedl_ref in Hs. destruct Hs as (s0 & Hlk & Hl). rewrite Hlk.
    replace (match erase l with
             | ANull | _ => match lookup we nm with
                            | Some w' => rval f we re o w' R' (erase l)
                            | None => RErrOther end end)
      with (rval f we re o s0 R' (erase l))
      by (rewrite Hlk; destruct (erase l); reflexivity).
    rewrite (IH we s0 l Hl f Hf' re o R' x).
    destruct (rval f we re o s0 R' (erase l)); reflexivity.
Qed.

(** the writer's own encoding *)
Corollary rdec_rval_wire n we w a : typedn n we w a ->
  forall f, (n <= f)%nat -> forall re o R x,
  rdec f we re o w R (wire a ++ x) = lift x (rval f we re o w R a).
Proof.
  intros Ht f Hf re o R x. destruct (layout_typed _ _ _ _ Ht) as (H1 & H2 & H3).
  pose proof (rdec_rval n we w (layout_of a) H1 f Hf re o R x) as H. rewrite H3, H2 in H. exact H.
Qed.

Section Opts.
  Variable o : ropts.       (* the reader options: everything below holds for any of them *)

(* ------------------------------------------------------------------------------------------ *)
(** * Part B: when no rule applies the specification gives a resolution error *)

(** [resolve] looks at the writer schema only through [deref], at the reader schema only through [reader_side] *)
Lemma resolve_deref_w we re w w' r a : deref we w = deref we w' -> resolve o we re w r a = resolve o we re w' r a.
Proof. intros H. destruct a; cbn [resolve]; cbv zeta; rewrite H; reflexivity. Qed.

Lemma reader_side_deref we re dw r r' : deref re r = deref re r' -> reader_side we re dw r = reader_side we re dw r'.
Proof. intros H. unfold reader_side. rewrite H. reflexivity. Qed.

Lemma resolve_deref_r we re r r' : deref re r = deref re r' ->
  forall a w, resolve o we re w r a = resolve o we re w r' a.
Proof.
  intros H. induction a; intros w; cbn [resolve]; cbv zeta; rewrite ?(reader_side_deref we re (deref we w) r r' H); try reflexivity.
  destruct (deref we w); try reflexivity. destruct (nthZ bs i); [|reflexivity].
  rewrite IHa. unfold union_pick. rewrite H. reflexivity.
Qed.

Lemma resolve_reader_side we re w r r' a : is_union (deref we w) = false ->
  reader_side we re (deref we w) r = reader_side we re (deref we w) r' ->
  resolve o we re w r a = resolve o we re w r' a.
Proof.
  intros Hu H. destruct a; cbn [resolve]; cbv zeta; rewrite ?H; try reflexivity.
  destruct (deref we w); try reflexivity. discriminate Hu.
Qed.

(** the value fits the (dereferenced, non-union) writer schema: the shape test of [resolve] *)
Definition fits (dw : schema) (a : aval) : bool :=
  match dw, a with
  | SNull, ANull | SBool, ABool _ | SInt, AInt _ | SLong, AInt _ | SFloat, AFloat _ | SDouble, ADouble _
  | SBytes, ABytes _ | SString, AString _ | SFixed _ _ _, AFixed _ | SEnum _ _ _ _, AEnum _
  | SRecord _ _ _, ARecord _ | SArray _, AArray _ | SMap _, AMap _ => true
  | _, _ => false
  end.

(** no branch of the reader union matches *)
Theorem error_no_branch we re w r a rbs :
  is_union (deref we w) = false -> fits (deref we w) a = true ->
  deref re r = SUnion rbs -> pick_branch we re (deref we w) rbs = None ->
  resolve o we re w r a = RErrResolution.
Proof.
  intros Hu Hf Hr Hp.
  assert (Hs : reader_side we re (deref we w) r = None) by (unfold reader_side; rewrite Hr, Hp; reflexivity).
  destruct a; cbn [resolve]; cbv zeta; rewrite ?Hs; destruct (deref we w); try discriminate Hf; try discriminate Hu; reflexivity.
Qed.

(** primitive types that are neither equal nor related by a promotion *)
Theorem error_not_promotable we re w r a dr :
  is_prim (deref we w) = true -> fits (deref we w) a = true ->
  reader_side we re (deref we w) r = Some dr -> prim_match true (deref we w) dr = false ->
  resolve o we re w r a = RErrResolution.
Proof.
  intros Hp Hf Hs Hm.
  destruct a; cbn [resolve]; cbv zeta; rewrite ?Hs; destruct (deref we w); try discriminate Hf; try discriminate Hp;
    destruct dr; try discriminate Hm; reflexivity.
Qed.

(** the reader's schema is of another kind altogether (named against unnamed, array against map, record against enum ...) *)
Definition same_kind (dw dr : schema) : bool :=
  match dw, dr with
  | SFixed _ _ _, SFixed _ _ _ | SEnum _ _ _ _, SEnum _ _ _ _ | SRecord _ _ _, SRecord _ _ _
  | SArray _, SArray _ | SMap _, SMap _ => true
  | _, _ => is_prim dw && is_prim dr
  end.

Theorem error_kind we re w r a dr :
  is_union (deref we w) = false -> fits (deref we w) a = true ->
  reader_side we re (deref we w) r = Some dr -> same_kind (deref we w) dr = false ->
  resolve o we re w r a = RErrResolution.
Proof.
  intros Hu Hf Hs Hk.
  destruct a; cbn [resolve]; cbv zeta; rewrite ?Hs; destruct (deref we w); try discriminate Hf; try discriminate Hu;
    destruct dr; try discriminate Hk; reflexivity.
Qed.

(** fixed: size differs *)
Theorem error_fixed_size we re w r b wn wal wsz rn ral rsz :
  deref we w = SFixed wn wal wsz -> reader_side we re (SFixed wn wal wsz) r = Some (SFixed rn ral rsz) ->
  wsz <> rsz -> resolve o we re w r (AFixed b) = RErrResolution.
Proof.
  intros Hw Hs Hne. cbn [resolve]; cbv zeta. rewrite Hw, Hs.
  destruct (wsz =? rsz) eqn:E; [lia|]. rewrite andb_false_r. reflexivity.
Qed.

(** named types: neither the unqualified names agree nor is the writer's name an alias of the reader's *)
Theorem error_name_mismatch_fixed we re w r b wn wal wsz rn ral rsz :
  deref we w = SFixed wn wal wsz -> reader_side we re (SFixed wn wal wsz) r = Some (SFixed rn ral rsz) ->
  names_match wn rn ral = false -> resolve o we re w r (AFixed b) = RErrResolution.
Proof. intros Hw Hs Hn. cbn [resolve]; cbv zeta. rewrite Hw, Hs, Hn. reflexivity. Qed.

Theorem error_name_mismatch_enum we re w r i wn wal wsyms wd rn ral rsyms rd :
  deref we w = SEnum wn wal wsyms wd -> reader_side we re (SEnum wn wal wsyms wd) r = Some (SEnum rn ral rsyms rd) ->
  names_match wn rn ral = false -> resolve o we re w r (AEnum i) = RErrResolution.
Proof. intros Hw Hs Hn. cbn [resolve]; cbv zeta. rewrite Hw, Hs, Hn. reflexivity. Qed.

Theorem error_name_mismatch_record we re w r l wn wal wfs rn ral rfs :
  deref we w = SRecord wn wal wfs -> reader_side we re (SRecord wn wal wfs) r = Some (SRecord rn ral rfs) ->
  names_match wn rn ral = false -> resolve o we re w r (ARecord l) = RErrResolution.
Proof. intros Hw Hs Hn. cbn [resolve]; cbv zeta. rewrite Hw, Hs, Hn. reflexivity. Qed.

(** enum: the writer's symbol is unknown to the reader and the reader's enum has no default *)
Theorem error_unknown_symbol we re w r i sym wn wal wsyms wd rn ral rsyms :
  deref we w = SEnum wn wal wsyms wd -> reader_side we re (SEnum wn wal wsyms wd) r = Some (SEnum rn ral rsyms None) ->
  nthZ wsyms i = Some sym -> mem sym rsyms = false ->
  resolve o we re w r (AEnum i) = RErrResolution.
Proof.
  intros Hw Hs Hi Hm. cbn [resolve]; cbv zeta. rewrite Hw, Hs, Hi, Hm.
  destruct (names_match wn rn ral); reflexivity.
Qed.

(** ... and with a default the default is the result *)
Theorem enum_default we re w r i sym d wn wal wsyms wd rn ral rsyms :
  deref we w = SEnum wn wal wsyms wd -> reader_side we re (SEnum wn wal wsyms wd) r = Some (SEnum rn ral rsyms (Some d)) ->
  names_match wn rn ral = true -> nthZ wsyms i = Some sym -> mem sym rsyms = false ->
  resolve o we re w r (AEnum i) = ROk (PStr d).
Proof. intros Hw Hs Hn Hi Hm. cbn [resolve]; cbv zeta. rewrite Hw, Hs, Hn, Hi, Hm. reflexivity. Qed.

(** arrays / maps whose item schemas do not match (even when the datum is empty) *)
Theorem error_items we re w r l wi ri :
  deref we w = SArray wi -> reader_side we re (SArray wi) r = Some (SArray ri) ->
  smatch we re true wi ri = false -> resolve o we re w r (AArray l) = RErrResolution.
Proof. intros Hw Hs Hm. cbn [resolve]; cbv zeta. rewrite Hw, Hs, Hm. reflexivity. Qed.

Theorem error_values we re w r l wv rv :
  deref we w = SMap wv -> reader_side we re (SMap wv) r = Some (SMap rv) ->
  smatch we re true wv rv = false -> resolve o we re w r (AMap l) = RErrResolution.
Proof. intros Hw Hs Hm. cbn [resolve]; cbv zeta. rewrite Hw, Hs, Hm. reflexivity. Qed.

(** records: the first reader field that the writer's data does not provide has no default *)
Lemma spec_defaults_skip re tbl1 : forall tbl2 record,
  Forall (fun e => dict_get record (fst e) <> None) tbl1 ->
  spec_defaults re (tbl1 ++ tbl2) record = spec_defaults re tbl2 record.
Proof.
  induction tbl1 as [|[n fd] tbl1 IH]; intros tbl2 record H; cbn [app spec_defaults]; [reflexivity|].
  inversion H as [|? ? H1 H2]; subst. cbn [fst] in H1.
  destruct (dict_get record n); [apply IH; exact H2|contradiction].
Qed.

Theorem error_no_default we re w r l wn wal wfs rn ral rfs record tbl1 n fd tbl2 :
  deref we w = SRecord wn wal wfs -> reader_side we re (SRecord wn wal wfs) r = Some (SRecord rn ral rfs) ->
  names_match wn rn ral = true ->
  res_fields (resolve o we re) rfs wfs l [] = ROk record ->          (* the writer's fields resolve *)
  field_table rfs = tbl1 ++ (n, fd) :: tbl2 ->
  Forall (fun e => dict_get record (fst e) <> None) tbl1 ->         (* reader fields before it are provided *)
  dict_get record n = None -> fdefault fd = None ->                 (* this one is not, and has no default *)
  resolve o we re w r (ARecord l) = RErrResolution.
Proof.
  intros Hw Hs Hn Hf Ht H1 Hg Hd. cbn [resolve]; cbv zeta. rewrite Hw, Hs, Hn, Hf. cbn [rbind].
  rewrite Ht, spec_defaults_skip by exact H1. cbn [spec_defaults]. rewrite Hg, Hd. reflexivity.
Qed.

(* ------------------------------------------------------------------------------------------ *)
(** * Part C: a reader schema equal to the writer schema changes nothing *)

Lemma bytes_eqb_refl x : bytes_eqb x x = true.
Proof. induction x as [|c x IH]; cbn [bytes_eqb]; [reflexivity|]. rewrite Z.eqb_refl, IH. reflexivity. Qed.

Lemma bytes_eqb_eq x : forall y, bytes_eqb x y = true -> x = y.
Proof.
  induction x as [|c x IH]; intros [|d y] H; cbn [bytes_eqb] in H; try discriminate; [reflexivity|].
  apply andb_prop in H. destruct H as [H1 H2]. apply Z.eqb_eq in H1. rewrite (IH _ H2), H1. reflexivity.
Qed.

Lemma names_match_refl n al : names_match n n al = true.
Proof. unfold names_match. rewrite bytes_eqb_refl. reflexivity. Qed.

Lemma nthZ_some {A} (l : list A) : forall i, 0 <= i < len l -> exists x, nthZ l i = Some x.
Proof.
  induction l as [|a l IH]; intros i H; [unfold len in H; cbn [length] in H; lia|].
  rewrite len_cons in H. cbn [nthZ]. destruct (i =? 0) eqn:E0; [eexists; reflexivity|].
  destruct (i <? 0) eqn:E1; [lia|]. apply IH. lia.
Qed.

Lemma nthZ_mem (l : list str) : forall i x, nthZ l i = Some x -> mem x l = true.
Proof.
  induction l as [|a l IH]; intros i x H; cbn [nthZ] in H; [discriminate|]. unfold mem. cbn [existsb].
  destruct (i =? 0); [injection H as ->; rewrite bytes_eqb_refl; reflexivity|].
  destruct (i <? 0); [discriminate|]. apply orb_true_iff. right. exact (IH _ _ H).
Qed.

(** named loops of py_of *)
Definition py_items (oo : ropts) (e : env) (it : schema) :=
  fix go (l : list aval) : option (list pyval) :=
    match l with
    | [] => Some []
    | x :: l => match py_of oo e it x, go l with Some v, Some r => Some (v :: r) | _, _ => None end
    end.
Definition py_entries (oo : ropts) (e : env) (vs : schema) :=
  fix go (l : list (bytes * aval)) (acc : list (pyval * pyval)) : option (list (pyval * pyval)) :=
    match l with
    | [] => Some acc
    | (k, x) :: l => match py_of oo e vs x with Some v => go l (dict_set acc k v) | None => None end
    end.
Definition py_fields (oo : ropts) (e : env) :=
  fix go (fs : list field) (l : list aval) (acc : list (pyval * pyval)) {struct l} : option (list (pyval * pyval)) :=
    match fs, l with
    | [], [] => Some acc
    | f :: fs, x :: l => match py_of oo e (ftype f) x with
                         | Some v => go fs l (dict_set acc (fname f) v)
                         | None => None end
    | _, _ => None
    end.

Lemma py_of_array oo e s it l : Read.resolve e s = SArray it ->
  py_of oo e s (AArray l) = option_map PList (py_items oo e it l).
Proof. intros H. cbn [py_of]. rewrite H. reflexivity. Qed.
Lemma py_of_map oo e s vs l : Read.resolve e s = SMap vs ->
  py_of oo e s (AMap l) = option_map PDict (py_entries oo e vs l []).
Proof. intros H. cbn [py_of]. rewrite H. reflexivity. Qed.
Lemma py_of_record oo e s n al fs l : Read.resolve e s = SRecord n al fs ->
  py_of oo e s (ARecord l) = option_map PDict (py_fields oo e fs l []).
Proof. intros H. cbn [py_of]. rewrite H. reflexivity. Qed.
Lemma py_of_union oo e s bs i x : Read.resolve e s = SUnion bs ->
  py_of oo e s (AUnion i x) = match nthZ bs i with
                             | Some b => match py_of oo e b x with Some v => Some (wrap_union oo e bs b v) | None => None end
                             | None => None end.
Proof. intros H. cbn [py_of]. rewrite H. reflexivity. Qed.

Lemma py_of_deref oo e s s' a : Read.resolve e s = Read.resolve e s' -> py_of oo e s a = py_of oo e s' a.
Proof. intros H. destruct a; cbn [py_of]; rewrite H; reflexivity. Qed.

(** dictionaries *)
Lemma dict_get_set_same d : forall k v, dict_get (dict_set d k v) k = Some v.
Proof.
  induction d as [|[k' v'] d IH]; intros k v; cbn [dict_set dict_get].
  - rewrite bytes_eqb_refl. reflexivity.
  - destruct k'; cbn [dict_get]; try apply IH.
    destruct (bytes_eqb s k) eqn:E; cbn [dict_get]; rewrite E; [reflexivity|apply IH].
Qed.

Lemma dict_get_set_keep d : forall k k' v, dict_get d k <> None -> dict_get (dict_set d k' v) k <> None.
Proof.
  induction d as [|[k0 v0] d IH]; intros k k' v H; cbn [dict_set dict_get] in *; [contradiction|].
  destruct k0; cbn [dict_get] in *; try (apply IH; exact H).
  destruct (bytes_eqb s k') eqn:E'; cbn [dict_get].
  - destruct (bytes_eqb s k); [discriminate|exact H].
  - destruct (bytes_eqb s k); [discriminate|]. apply IH. exact H.
Qed.

(** the keys of the reader's field table are field names *)
Lemma tbl_set_keys {A} (d : list (str * A)) k v : forall n, In n (map fst (tbl_set d k v)) -> In n (map fst d) \/ n = k.
Proof.
  induction d as [|[k' v'] d IH]; intros n H; cbn [tbl_set map fst In] in *.
  - destruct H as [<-|[]]. right. reflexivity.
  - destruct (bytes_eqb k' k); cbn [map fst In] in H.
    + destruct H as [<-|H]; [left; left; reflexivity|left; right; exact H].
    + destruct H as [<-|H]; [left; left; reflexivity|]. destruct (IH _ H) as [H'|H']; [left; right; exact H'|right; exact H'].
Qed.

Lemma field_table_keys rfs : forall n, In n (map fst (field_table rfs)) -> In n (map (@fname schema) rfs).
Proof.
  unfold field_table.
  assert (G : forall rfs acc n, In n (map fst (fold_left (fun d f => tbl_set d (fname f) f) rfs acc)) ->
                                In n (map fst acc) \/ In n (map (@fname schema) rfs)).
  { induction rfs0 as [|f rfs0 IH]; intros acc n H; cbn [fold_left map In] in *; [left; exact H|].
    destruct (IH _ _ H) as [H'|H']; [|right; right; exact H'].
    destruct (tbl_set_keys _ _ _ _ H') as [H'' | ->]; [left; exact H''|right; left; reflexivity]. }
  intros n H. destruct (G rfs [] n H) as [[]|H']. exact H'.
Qed.

Lemma spec_defaults_all_present re tbl : forall record,
  Forall (fun e => dict_get record (fst e) <> None) tbl -> spec_defaults re tbl record = ROk record.
Proof.
  intros record H. rewrite <- (app_nil_r tbl), spec_defaults_skip by exact H. reflexivity.
Qed.

(** well-formedness needed for the identity: unions whose branches do not capture each other, records whose
    fields find themselves, references that resolve to named types, item schemas that match themselves *)
Definition union_ok (e : env) (bs : list schema) : Prop :=
  forall i b, nthZ bs i = Some b ->
    is_union (deref e b) = false /\
    exists b', pick_branch e e (deref e b) bs = Some b' /\ deref e b' = deref e b.

Definition fields_ok (fs : list field) : Prop := Forall (fun f => reader_field fs (fname f) = Some f) fs.

Fixpoint wf_ident (n : nat) (e : env) (s : schema) {struct n} : Prop :=
  match n with
  | O => True          (* nothing is visited beyond the depth of the value *)
  | S n =>
    match s with
    | SArray s' | SMap s' => wf_ident n e s' /\ smatch e e true s' s' = true
    | SUnion bs => Forall (wf_ident n e) bs /\ union_ok e bs
    | SRecord _ _ fs => Forall (fun f => wf_ident n e (ftype f)) fs /\ fields_ok fs
    | SRef nm => exists d, lookup e nm = Some d /\ deref e d = strip d /\ wf_ident n e d
    | SAnnot _ s' => wf_ident n e s'
    | _ => True
    end
  end.

(* checking deeper implies checking less deep *)
Lemma wf_ident_anti : forall n e s, wf_ident (S n) e s -> wf_ident n e s.
Proof.
  induction n as [|n IH]; intros e s H; [exact I|].
  destruct s; try exact I; cbn [wf_ident] in H |- *.
  - destruct H as [H1 H2]. split; [apply IH; exact H1|exact H2].
  - destruct H as [H1 H2]. split; [apply IH; exact H1|exact H2].
  - destruct H as [H1 H2]. split; [|exact H2]. eapply Forall_impl; [|exact H1]. intros; apply IH; assumption.
  - destruct H as [H1 H2]. split; [|exact H2]. eapply Forall_impl; [|exact H1]. intros; apply IH; assumption.
  - destruct H as (d & H1 & H2 & H3). exists d. split; [exact H1|split; [exact H2|apply IH; exact H3]].
  - apply IH. exact H.
Qed.

Lemma wf_ident_le n m e s : (n <= m)%nat -> wf_ident m e s -> wf_ident n e s.
Proof. induction 1 as [|m _ IH]; intros H; [exact H|]. apply IH. apply wf_ident_anti. exact H. Qed.

Definition ident_ok (e : env) (s : schema) (a : aval) : Prop :=
  exists v, py_of o e s a = Some v /\ resolve o e e s s a = ROk v.

Lemma ident_items e it l : Forall (ident_ok e it) l ->
  exists vs, py_items o e it l = Some vs /\ res_items (resolve o e e) it it l = ROk vs.
Proof.
  induction 1 as [|x l (v & H1 & H2) _ (vs & H3 & H4)]; cbn [py_items res_items]; [eexists; split; reflexivity|].
  fold (py_items o e it). rewrite H1, H2, H3, H4. eexists; split; reflexivity.
Qed.

Lemma ident_entries e vs l : Forall (fun kv => ident_ok e vs (snd kv)) l ->
  forall acc, exists kvs, res_entries (resolve o e e) vs vs l = ROk kvs /\
    py_entries o e vs l acc = Some (fold_left (fun d kv => dict_set d (fst kv) (snd kv)) kvs acc).
Proof.
  induction 1 as [|[k x] l (v & H1 & H2) _ IH]; intros acc; cbn [py_entries res_entries]; [eexists; split; reflexivity|].
  fold (py_entries o e vs). cbn [snd] in H1, H2. rewrite H1, H2.
  destruct (IH (dict_set acc k v)) as (kvs & H3 & H4). rewrite H3, H4. eexists; split; reflexivity.
Qed.

Lemma ident_fields e rfs wfs l : Forall2 (fun f x => ident_ok e (ftype f) x) wfs l ->
  Forall (fun f => reader_field rfs (fname f) = Some f) wfs ->
  forall acc, exists rec, py_fields o e wfs l acc = Some rec /\ res_fields (resolve o e e) rfs wfs l acc = ROk rec /\
    (forall k, dict_get acc k <> None -> dict_get rec k <> None) /\
    (forall f, In f wfs -> dict_get rec (fname f) <> None).
Proof.
  induction 1 as [|f x wfs l (v & H1 & H2) _ IH]; intros Hrf acc; cbn [py_fields res_fields].
  - exists acc. repeat split; auto; intros f0 [].
  - fold (py_fields o e). inversion Hrf as [|? ? Hf Hrf']; subst. rewrite Hf, H1, H2. cbn [rbind].
    destruct (IH Hrf' (dict_set acc (fname f) v)) as (rec & H3 & H4 & H5 & H6). exists rec.
    split; [exact H3|split; [exact H4|split]].
    + intros k Hk. apply H5. apply dict_get_set_keep. exact Hk.
    + intros f' [<-|Hin]; [|apply H6; exact Hin]. apply H5. rewrite dict_get_set_same. discriminate.
Qed.

Lemma deref_annot e lt s : deref e (SAnnot lt s) = deref e s.
Proof. reflexivity. Qed.

Lemma deref_not_annot e s : forall l0 s', deref e s <> SAnnot l0 s'.
Proof.
  intros l0 s'. unfold deref, Read.resolve. pose proof (strip_not_annot s) as H.
  destruct (strip s) eqn:E; try discriminate; try (exfalso; eapply H; reflexivity).
  destruct (lookup e n); [apply strip_not_annot|discriminate].
Qed.

Lemma wrap_spec_same we re wbs wb b v : branch_kind re b = branch_kind we wb ->
  wrap_spec o we re wbs wb (Some b) v = ROk (wrap_union o we wbs wb v).
Proof.
  intros H. unfold wrap_spec, wrap_union. rewrite H.
  destruct (ret_named_override o && (count_named we wbs =? 1)); [reflexivity|].
  destruct (ret_named o); destruct (branch_kind we wb) as [[n0 [|]]|]; cbn [option_map fst];
    destruct (ret_rec_override o && (count_records we wbs =? 1)); destruct (ret_rec o); reflexivity.
Qed.

Theorem resolve_identity : forall n e s a, typedn n e s a -> wf_ident n e s -> ident_ok e s a.
Proof.
  induction n as [|n IH]; intros e s a Ht Hw; [destruct Ht|].
  destruct s.
  15:{ (* reference *)
    apply typedn_ref in Ht. destruct Ht as (d & Hl & Ht). cbn [wf_ident] in Hw. destruct Hw as (d' & Hl' & Hd & Hw).
    rewrite Hl in Hl'. injection Hl' as <-.
    destruct (IH e d a Ht Hw) as (v & H1 & H2). exists v.
    assert (E : deref e (SRef n0) = deref e d) by (unfold deref, Read.resolve at 1; cbn [strip]; rewrite Hl; symmetry; exact Hd).
    split.
    - rewrite (py_of_deref _ _ _ d); [exact H1|exact E].
    - rewrite (resolve_deref_w e e _ d) by exact E. rewrite (resolve_deref_r e e _ d E). exact H2. }
  15:{ (* annotation *)
    apply typedn_annot in Ht. cbn [wf_ident] in Hw. destruct (IH e s a Ht Hw) as (v & H1 & H2). exists v. split.
    - rewrite (py_of_deref _ _ _ s); [exact H1|reflexivity].
    - rewrite (resolve_deref_w e e _ s) by reflexivity. rewrite (resolve_deref_r e e _ s (deref_annot e lt s)). exact H2. }
  all: destruct a; cbn [typedn] in Ht; try contradiction.
  1-8: (eexists; split; reflexivity).
  - (* fixed *)
    eexists; split; [reflexivity|]. cbn [resolve]; cbv zeta. cbn. rewrite names_match_refl, Z.eqb_refl. reflexivity.
  - (* enum *)
    destruct Ht as [Hi _]. destruct (nthZ_some syms i Hi) as (sym & Hs).
    exists (PStr sym). split; [cbn; rewrite Hs; reflexivity|].
    cbn [resolve]; cbv zeta. cbn. rewrite names_match_refl, Hs, (nthZ_mem _ _ _ Hs). reflexivity.
  - (* array *)
    destruct Ht as [_ Hl]. cbn [wf_ident] in Hw. destruct Hw as [Hw Hm].
    assert (Hi : Forall (ident_ok e s) l) by (eapply Forall_impl; [|exact Hl]; intros x Hx; apply IH; assumption).
    destruct (ident_items e s l Hi) as (vs & H1 & H2). exists (PList vs). split.
    + rewrite (py_of_array _ _ _ s) by reflexivity. rewrite H1. reflexivity.
    + cbn [resolve]; cbv zeta. cbn [deref Read.resolve strip reader_side]. rewrite Hm, H2. reflexivity.
  - (* map *)
    destruct Ht as [_ Hl]. cbn [wf_ident] in Hw. destruct Hw as [Hw Hm].
    assert (Hi : Forall (fun kv : bytes * aval => ident_ok e s (snd kv)) l).
    { eapply Forall_impl; [|exact Hl]. intros kv [_ Hx]. apply IH; assumption. }
    destruct (ident_entries e s l Hi []) as (kvs & H1 & H2). exists (PDict (dict_of_items kvs)). split.
    + rewrite (py_of_map _ _ _ s) by reflexivity. rewrite H2. reflexivity.
    + cbn [resolve]; cbv zeta. cbn [deref Read.resolve strip reader_side]. rewrite Hm, H1. reflexivity.
  - (* union *)
    destruct Ht as (_ & wb & Hn & Hx). cbn [wf_ident] in Hw. destruct Hw as [Hw Hu].
    assert (Hwb : wf_ident n e wb).
    { clear - Hw Hn. revert i Hn. induction Hw as [|b bs Hb _ IHb]; intros i Hn; cbn [nthZ] in Hn; [discriminate|].
      destruct (i =? 0); [injection Hn as <-; exact Hb|]. destruct (i <? 0); [discriminate|]. eapply IHb. exact Hn. }
    destruct (IH e wb a Hx Hwb) as (v & H1 & H2). exists (wrap_union o e bs wb v). split.
    + rewrite (py_of_union _ _ _ bs) by reflexivity. rewrite Hn, H1. reflexivity.
    + cbn [resolve]; cbv zeta. cbn [deref Read.resolve strip]. rewrite Hn.
      destruct (Hu i wb Hn) as (Hnu & b' & Hp & Hd).
      assert (E : resolve o e e wb (SUnion bs) a = ROk v).
      { rewrite <- H2. apply resolve_reader_side; [exact Hnu|].
        unfold reader_side at 1. cbn [deref Read.resolve strip]. rewrite Hp.
        fold (deref e b'). rewrite Hd.
        unfold reader_side. destruct (deref e wb) eqn:E; try reflexivity. discriminate Hnu. }
      rewrite E. cbn [rbind]. unfold union_pick. cbn [deref Read.resolve strip]. rewrite Hp.
      apply wrap_spec_same. unfold branch_kind. fold (deref e b'). fold (deref e wb). rewrite Hd. reflexivity.
  - (* record *)
    cbn [wf_ident] in Hw. destruct Hw as [Hw Hf].
    assert (Hi : Forall2 (fun f x => ident_ok e (ftype f) x) fs l).
    { clear - IH Ht Hw. induction Ht as [|f x fs l Hx _ IHt]; constructor.
      - inversion Hw; subst. apply IH; assumption.
      - inversion Hw; subst. apply IHt. assumption. }
    destruct (ident_fields e fs fs l Hi Hf []) as (rec & H1 & H2 & _ & H4). exists (PDict rec). split.
    + rewrite (py_of_record _ _ _ n0 al fs) by reflexivity. rewrite H1. reflexivity.
    + cbn [resolve]; cbv zeta. cbn [deref Read.resolve strip reader_side]. rewrite names_match_refl, H2. cbn [rbind].
      rewrite spec_defaults_all_present; [reflexivity|].
      apply Forall_forall. intros [k fd] Hin. cbn [fst].
      assert (Hk : In k (map (@fname schema) fs)) by (apply field_table_keys; apply in_map_iff; exists (k, fd); split; [reflexivity|exact Hin]).
      apply in_map_iff in Hk. destruct Hk as (f & <- & Hfin). apply H4. exact Hfin.
Qed.



(* ------------------------------------------------------------------------------------------ *)
(** * Part D: inside the agreement zone the code's value-level algorithm IS the specification
      (schemas without by-name references; annotations only as dict-form primitives) *)

Lemma inline_deref e s : inline s = true -> deref e s = strip s.
Proof. destruct s; cbn [inline]; try discriminate; try reflexivity. destruct s; try discriminate; reflexivity. Qed.

(* an annotated schema of the fragment is a dict-form primitive *)
Lemma inline_strip s : inline s = true -> inline (strip s) = true /\ strip (strip s) = strip s /\ is_union (strip s) = is_union s.
Proof. destruct s; cbn [inline]; try discriminate; try (repeat split; assumption || reflexivity). destruct s; try discriminate; repeat split; reflexivity. Qed.

Tactic Notation "dsch" constr(w) hyp(H) ident(lw) ident(pw) :=
  destruct w as [| | | | | | | | | | | | | | |lw pw]; try discriminate H; [..|destruct pw; try discriminate H].

Lemma inline_deref1 e s : inline s = true -> deref1 e s = s.
Proof. destruct s; cbn [inline]; try discriminate; reflexivity. Qed.

Lemma inline_branch_gen rbs k b : inline (SUnion rbs) = true -> nth_error rbs k = Some b -> inline b = true /\ is_union b = false.
Proof.
  cbn [inline]. intros H Hn. rewrite forallb_forall in H. specialize (H b (nth_error_In _ _ Hn)).
  apply andb_prop in H. destruct H as [H1 H2]. split; [exact H2|]. destruct (is_union b); [discriminate|reflexivity].
Qed.

(** *** positions instead of schemas: which branch is picked *)
Lemma find_find_idx {A} (P : A -> bool) l :
  find P l = match find_idx P l with Some k => nth_error l k | None => None end.
Proof.
  induction l as [|x l IH]; cbn [find find_idx]; [reflexivity|].
  destruct (P x); [reflexivity|]. rewrite IH. destruct (find_idx P l); reflexivity.
Qed.

Lemma find_idx_some {A} (P : A -> bool) l k : find_idx P l = Some k -> exists x, nth_error l k = Some x /\ P x = true.
Proof.
  revert k. induction l as [|x l IH]; intros k H; cbn [find_idx] in H; [discriminate|].
  destruct (P x) eqn:E.
  - injection H as <-. exists x. split; [reflexivity|exact E].
  - destruct (find_idx P l) as [k'|]; [|discriminate]. injection H as <-. apply IH. reflexivity.
Qed.

Lemma pick_branch_idx we re w rbs :
  pick_branch we re w rbs = match spec_idx we re w rbs with Some k => nth_error rbs k | None => None end.
Proof.
  unfold pick_branch, spec_idx. rewrite !find_find_idx.
  destruct (find_idx (same_named we re w) rbs) as [k|] eqn:E0.
  - destruct (find_idx_some _ _ _ E0) as (x & -> & _). reflexivity.
  - destruct (find_idx (smatch we re false w) rbs) as [k|] eqn:E1.
    + destruct (find_idx_some _ _ _ E1) as (x & -> & _). reflexivity.
    + reflexivity.
Qed.

(* positions of find_branch / reader_branch *)
Fixpoint find_branch_idx (mt : schema -> rres bool) (bs : list schema) : rres (option nat) :=
  match bs with
  | [] => ROk None
  | b :: bs => let+ x := mt b in if x then ROk (Some O) else let+ k := find_branch_idx mt bs in ROk (option_map S k)
  end.

Definition reader_branch_idx (mt : nat -> schema -> rres bool) (bs : list schema) : rres (option nat) :=
  let+ x := find_branch_idx (mt 0%nat) bs in
  match x with
  | Some k => ROk (Some k)
  | None => let+ x := find_branch_idx (mt 1%nat) bs in
            match x with
            | Some k => ROk (Some k)
            | None => find_branch_idx (mt 2%nat) bs
            end
  end.

Definition nth_opt (bs : list schema) (k : option nat) : option schema :=
  match k with Some k => nth_error bs k | None => None end.

Lemma find_branch_nth mt bs :
  find_branch mt bs = (let+ k := find_branch_idx mt bs in ROk (nth_opt bs k)).
Proof.
  induction bs as [|b bs IH]; cbn [find_branch find_branch_idx]; [reflexivity|].
  destruct (mt b) as [x| | |]; cbn [rbind]; try reflexivity. destruct x; [reflexivity|].
  rewrite IH. destruct (find_branch_idx mt bs) as [[k|]| | |]; reflexivity.
Qed.

Lemma find_branch_idx_range mt bs k : find_branch_idx mt bs = ROk (Some k) -> exists b, nth_error bs k = Some b.
Proof.
  revert k. induction bs as [|b bs IH]; intros k H; cbn [find_branch_idx] in H; [discriminate|].
  destruct (mt b) as [x| | |]; cbn [rbind] in H; try discriminate. destruct x.
  - injection H as <-. exists b. reflexivity.
  - destruct (find_branch_idx mt bs) as [[k'|]| | |]; cbn [rbind option_map] in H; try discriminate.
    injection H as <-. apply IH. reflexivity.
Qed.

Lemma reader_branch_nth mt bs :
  reader_branch mt bs = (let+ k := reader_branch_idx mt bs in ROk (nth_opt bs k)).
Proof.
  unfold reader_branch, reader_branch_idx. rewrite !find_branch_nth.
  destruct (find_branch_idx (mt 0%nat) bs) as [[k|]| | |] eqn:E0; cbn [rbind nth_opt]; try reflexivity.
  - destruct (find_branch_idx_range _ _ _ E0) as (b & ->). reflexivity.
  - destruct (find_branch_idx (mt 1%nat) bs) as [[k|]| | |] eqn:E1; cbn [rbind nth_opt]; try reflexivity.
    destruct (find_branch_idx_range _ _ _ E1) as (b & ->). reflexivity.
Qed.

Lemma mfuel_S w : mfuel w = S (2 * amdepth w + 7).
Proof. unfold mfuel. lia. Qed.

Lemma match_schemas_S f we re l w r :
  match_schemas (S f) we re l w r = match_schemas_body we re (match_types f we re) l w r.
Proof. reflexivity. Qed.
Lemma match_types_S f we re l w r :
  match_types (S f) we re l w r = match_types_body we re (match_schemas f we re) l w r.
Proof. reflexivity. Qed.

Lemma is_list_union s : is_list s = is_union s.
Proof. reflexivity. Qed.

(** *** a rejected pair is a resolution error of the specification *)
Lemma resolve_reject we re n w r a :
  inline w = true -> inline r = true -> is_union w = false -> is_union r = false ->
  typedn (S n) we w a -> smatch we re true w r = false -> resolve o we re w r a = RErrResolution.
Proof.
  intros Hw Hr Huw Hur Ht Hm.
  dsch w Hw ltw pw; try discriminate Huw;
    try (apply (proj1 (typedn_annot _ _ _ _ _)) in Ht; destruct n as [|n']; [destruct Ht|]);
    destruct a; cbn [typedn] in Ht; try contradiction;
    dsch r Hr ltr pr; try discriminate Hur;
    cbn [smatch deref Read.resolve strip named_match prim_match] in Hm; try discriminate Hm;
    cbn [resolve]; cbv zeta; cbn [deref Read.resolve strip reader_side]; try reflexivity;
    rewrite ?Hm; try reflexivity.
Qed.

Lemma typed_fits we n w a : inline w = true -> is_union w = false -> typedn (S n) we w a -> fits (strip w) a = true.
Proof.
  intros Hw Hu Ht. dsch w Hw ltw pw; try discriminate Hu;
    try (apply (proj1 (typedn_annot _ _ _ _ _)) in Ht; destruct n as [|n']; [destruct Ht|]);
    destruct a; cbn [typedn] in Ht; try contradiction; reflexivity.
Qed.

(** *** keys of the record under construction: determined by the two field lists *)
Definition kadd (ks : list str) (k : str) : list str := if mem k ks then ks else ks ++ [k].

Fixpoint rec_keys (rfs wfs : list field) (ks : list str) : list str :=
  match wfs with
  | [] => ks
  | wf :: wfs => match reader_field rfs (fname wf) with
                 | Some rf => rec_keys rfs wfs (kadd ks (fname rf))
                 | None => rec_keys rfs wfs ks
                 end
  end.

Definition guard_ok (rfs wfs : list field) : bool :=
  let ks := rec_keys rfs wfs [] in
  let tbl := field_table rfs in
  (len tbl >? len ks) || forallb (fun e => mem (fst e) ks) tbl.

Definition keys_inv (record : list (pyval * pyval)) (ks : list str) : Prop := map fst record = map PStr ks.

Lemma bytes_eqb_sym a : forall b, bytes_eqb a b = bytes_eqb b a.
Proof. induction a as [|x a IH]; intros [|y b]; cbn [bytes_eqb]; try reflexivity. rewrite Z.eqb_sym, IH. reflexivity. Qed.

Lemma dict_set_keys record : forall ks k v, keys_inv record ks -> keys_inv (dict_set record k v) (kadd ks k).
Proof.
  unfold keys_inv, kadd.
  induction record as [|[k0 v0] record IH]; intros ks k v H; destruct ks as [|s ks]; cbn [map fst] in H; try discriminate.
  - reflexivity.
  - injection H as -> H. cbn [dict_set mem existsb]. unfold mem in *.
    rewrite (bytes_eqb_sym k s). destruct (bytes_eqb s k) eqn:E; cbn [orb map fst].
    + rewrite H. reflexivity.
    + specialize (IH ks k v H). destruct (existsb (bytes_eqb k) ks); cbn [map app] in *; rewrite IH; reflexivity.
Qed.

Lemma keys_get record : forall ks n, keys_inv record ks -> (dict_get record n <> None <-> mem n ks = true).
Proof.
  unfold keys_inv, mem.
  induction record as [|[k0 v0] record IH]; intros ks n H; destruct ks as [|s ks]; cbn [map fst] in H; try discriminate.
  - cbn. split; [intros []; reflexivity|discriminate].
  - injection H as -> H. cbn [dict_get existsb]. rewrite (bytes_eqb_sym n s).
    destruct (bytes_eqb s n); cbn [orb]; [split; [reflexivity|discriminate]|]. apply IH. exact H.
Qed.

Lemma keys_len record ks : keys_inv record ks -> len record = len ks.
Proof. unfold keys_inv, len. intros H. rewrite <- (map_length fst record), H, map_length. reflexivity. Qed.

Lemma vfields_keys rec rfs : forall wfs l record ks record',
  keys_inv record ks -> vfields rec rfs wfs l record = ROk record' -> keys_inv record' (rec_keys rfs wfs ks).
Proof.
  induction wfs as [|wf wfs IH]; intros l record ks record' Hk H; destruct l as [|x l]; cbn [vfields rec_keys] in *; try discriminate.
  - injection H as <-. exact Hk.
  - destruct (reader_field rfs (fname wf)) as [rf|].
    + destruct (rec (ftype wf) (Some (ftype rf)) x) as [v| | |]; cbn [rbind] in H; try discriminate.
      eapply IH; [|exact H]. apply dict_set_keys. exact Hk.
    + eapply IH; [exact Hk|exact H].
Qed.

(** *** the code's conversion of a JSON default gives the specification's value whenever the specification has one *)
Lemma default_code_spec : forall f re s d v, default_value f re s d = ROk v -> code_default f re s d = ROk v.
Proof.
  induction f as [|f IH]; intros re s d v H; [discriminate H|].
  cbn [default_value code_default] in *.
  destruct (deref re s) as [| | | | | | | |nm al sz|nm al syms dflt|ri|rv|rbs|nm al rfs|nm|lt0 s'] eqn:E.
  13:{ (* union *)
    assert (G : forall bs,
      (fix go (rbs : list schema) : rres pyval :=
         match rbs with
         | [] => RErrOther
         | b :: rbs => if json_fits re b d then default_value f re b d else go rbs
         end) bs = ROk v ->
      (fix go (rbs : list schema) : rres pyval :=
         match rbs with
         | [] => ROk d
         | b :: rbs => if json_fits re b d then code_default f re b d else go rbs
         end) bs = ROk v).
    { induction bs as [|b bs IHb]; intros G; [discriminate G|].
      destruct (json_fits re b d); [apply IH; exact G|apply IHb; exact G]. }
    apply G. destruct d; exact H. }
  all: destruct d; try discriminate H; try exact H.
  - (* array *)
    assert (G : forall l0 l1,
      (fix go (l : list pyval) : rres (list pyval) :=
         match l with [] => ROk [] | x :: l => let+ v := default_value f re ri x in let+ t := go l in ROk (v :: t) end) l0 = ROk l1 ->
      (fix go (l : list pyval) : rres (list pyval) :=
         match l with [] => ROk [] | x :: l => let+ v := code_default f re ri x in let+ t := go l in ROk (v :: t) end) l0 = ROk l1).
    { induction l0 as [|x l0 IHl]; intros l1 G; [exact G|].
      destruct (default_value f re ri x) as [vx| | |] eqn:Ex; cbn [rbind] in G; try discriminate G.
      rewrite (IH _ _ _ _ Ex). cbn [rbind].
      match type of G with (let+ t := ?X in _) = _ => destruct X as [t| | |] eqn:Et; cbn [rbind] in G; try discriminate G end.
      rewrite (IHl t eq_refl). exact G. }
    match type of H with (let+ l' := ?X in _) = _ => destruct X as [res| | |] eqn:Eres; cbn [rbind] in H; try discriminate H end.
    rewrite (G l res Eres). exact H.
  - (* map *)
    assert (G : forall l0 l1,
      (fix go (kv : list (pyval * pyval)) : rres (list (pyval * pyval)) :=
         match kv with [] => ROk [] | (k, x) :: kv => let+ v := default_value f re rv x in let+ t := go kv in ROk ((k, v) :: t) end) l0 = ROk l1 ->
      (fix go (kv : list (pyval * pyval)) : rres (list (pyval * pyval)) :=
         match kv with [] => ROk [] | (k, x) :: kv => let+ v := code_default f re rv x in let+ t := go kv in ROk ((k, v) :: t) end) l0 = ROk l1).
    { induction l0 as [|[k x] l0 IHl]; intros l1 G; [exact G|].
      destruct (default_value f re rv x) as [vx| | |] eqn:Ex; cbn [rbind] in G; try discriminate G.
      rewrite (IH _ _ _ _ Ex). cbn [rbind].
      match type of G with (let+ t := ?X in _) = _ => destruct X as [t| | |] eqn:Et; cbn [rbind] in G; try discriminate G end.
      rewrite (IHl t eq_refl). exact G. }
    match type of H with (let+ l' := ?X in _) = _ => destruct X as [res| | |] eqn:Eres; cbn [rbind] in H; try discriminate H end.
    rewrite (G kv res Eres). exact H.
  - (* record *)
    assert (G : forall fs l1,
      (fix go (rfs : list field) : rres (list (pyval * pyval)) :=
         match rfs with
         | [] => ROk []
         | fd :: rfs =>
             let+ v := match dict_get kv (fname fd), fdefault fd with
                       | Some x, _ => default_value f re (ftype fd) x
                       | None, Some x => default_value f re (ftype fd) x
                       | None, None => RErrOther end in
             let+ t := go rfs in ROk ((PStr (fname fd), v) :: t)
         end) fs = ROk l1 ->
      (fix go (rfs : list field) : rres (list (pyval * pyval)) :=
         match rfs with
         | [] => ROk []
         | fd :: rfs =>
             let+ v := match dict_get kv (fname fd), fdefault fd with
                       | Some x, _ => code_default f re (ftype fd) x
                       | None, Some x => code_default f re (ftype fd) x
                       | None, None => RErrOther end in
             let+ t := go rfs in ROk ((PStr (fname fd), v) :: t)
         end) fs = ROk l1).
    { induction fs as [|fd fs IHl]; intros l1 G; [exact G|].
      destruct (dict_get kv (fname fd)) as [x|].
      - destruct (default_value f re (ftype fd) x) as [vx| | |] eqn:Ex; cbn [rbind] in G; try discriminate G.
        rewrite (IH _ _ _ _ Ex). cbn [rbind].
        match type of G with (let+ t := ?X in _) = _ => destruct X as [t| | |] eqn:Et; cbn [rbind] in G; try discriminate G end.
        rewrite (IHl t eq_refl). exact G.
      - destruct (fdefault fd) as [x|]; [|discriminate G].
        destruct (default_value f re (ftype fd) x) as [vx| | |] eqn:Ex; cbn [rbind] in G; try discriminate G.
        rewrite (IH _ _ _ _ Ex). cbn [rbind].
        match type of G with (let+ t := ?X in _) = _ => destruct X as [t| | |] eqn:Et; cbn [rbind] in G; try discriminate G end.
        rewrite (IHl t eq_refl). exact G. }
    match type of H with (let+ l' := ?X in _) = _ => destruct X as [res| | |] eqn:Eres; cbn [rbind] in H; try discriminate H end.
    match goal with |- (let+ kv0 := ?Y in _) = _ => replace Y with (@ROk (list (pyval * pyval)) res) by (symmetry; exact (G rfs res Eres)) end.
    exact H.
Qed.

Lemma fill_spec re tbl : forall record, defaults_ok_tbl re tbl = true ->
  fill_defaults re tbl record = spec_defaults re tbl record.
Proof.
  unfold defaults_ok_tbl.
  induction tbl as [|[n fd] tbl IH]; intros record H; cbn [fill_defaults spec_defaults forallb snd] in *; [reflexivity|].
  apply andb_prop in H. destruct H as [H1 H2].
  destruct (dict_get record n); [apply IH; exact H2|].
  destruct (fdefault fd) as [d|]; [|reflexivity].
  destruct (default_value DFUEL re (ftype fd) d) as [v| | |] eqn:E; try discriminate H1.
  rewrite (default_code_spec _ _ _ _ _ E). cbn [rbind]. apply IH. exact H2.
Qed.

Lemma finish_eq re rfs wfs record :
  keys_inv record (rec_keys rfs wfs []) -> defaults_ok re rfs = true -> guard_ok rfs wfs = true ->
  finish_record re rfs record = (let+ r := spec_defaults re (field_table rfs) record in ROk (PDict r)).
Proof.
  intros Hk Hd Hg. unfold finish_record. rewrite (fill_spec re _ record Hd).
  destruct (len (field_table rfs) >? len record) eqn:G; [reflexivity|].
  unfold guard_ok in Hg. rewrite <- (keys_len _ _ Hk), G in Hg. cbn [orb] in Hg.
  rewrite spec_defaults_all_present; [reflexivity|].
  apply Forall_forall. intros e He. apply (keys_get _ _ _ Hk).
  rewrite forallb_forall in Hg. apply Hg. exact He.
Qed.

(** *** on inline schemas the code's matching IS the specification's "the schemas match" *)
Definition named_pair_b (level : nat) (sw sr : schema) : bool :=
  match named_pair level sw sr with ROk b => b | _ => false end.

Definition nspec_with (ms2 : schema -> schema -> bool) (level : nat) (w r : schema) : bool :=
  match w, r with
  | SMap wv, SMap rv => ms2 wv rv
  | SArray wi, SArray ri => ms2 wi ri
  | _, _ => if in_named_types (tag_of w) && in_named_types (tag_of r) then named_pair_b level w r
            else match_type_names (tag_of w) (tag_of r) level
  end.

Fixpoint mspec (level : nat) (w r : schema) {struct w} : bool :=
  is_union w || is_union r ||
  match w, r with
  | SMap wv, SMap rv => mspec 2 wv rv
  | SArray wi, SArray ri => mspec 2 wi ri
  | _, _ => if in_named_types (tag_of w) && in_named_types (tag_of r) then named_pair_b level w r
            else match_type_names (tag_of w) (tag_of r) level
  end.

Definition nspec (level : nat) (w r : schema) : bool := nspec_with (mspec 2) level w r.

Lemma mspec_nspec level w r : mspec level w r = is_union w || is_union r || nspec level w r.
Proof. destruct w; reflexivity. Qed.

Lemma named_pair_ok level sw sr : named_pair level sw sr = ROk (named_pair_b level sw sr).
Proof. unfold named_pair_b. destruct sw; destruct sr; reflexivity. Qed.

Lemma ms_inline we re mt level w r :
  inline w = true -> inline r = true -> is_union w = false -> is_union r = false ->
  (forall wi, (w = SArray wi \/ w = SMap wi) -> forall ri, inline ri = true -> mt 2%nat wi ri = ROk (mspec 2 wi ri)) ->
  match_schemas_body we re mt level w r = if nspec level w r then ROk r else RErrResolution.
Proof.
  intros Hw Hr Huw Hur Hsub. unfold match_schemas_body, match_schemas_core.
  rewrite (inline_deref1 we w Hw), (inline_deref1 re r Hr), is_list_union, Huw.
  dsch w Hw ltw pw; try discriminate Huw;
    dsch r Hr ltr pr; try discriminate Hur;
    cbn [strip tag_of in_named_types andb nspec nspec_with];
    rewrite ?named_pair_ok;
    try (match goal with |- context [mt 2%nat ?a ?b] =>
           first [rewrite (Hsub a (or_introl eq_refl) b Hr) | rewrite (Hsub a (or_intror eq_refl) b Hr)] end);
    cbn [rbind]; try match goal with |- context [if ?c then _ else _] => destruct c end; reflexivity.
Qed.

Lemma mt_inline we re ms level w r :
  inline w = true -> inline r = true ->
  (is_union w = false -> is_union r = false -> ms level w r = if nspec level w r then ROk r else RErrResolution) ->
  match_types_body we re ms level w r = ROk (mspec level w r).
Proof.
  intros Hw Hr Hms. unfold match_types_body.
  rewrite (inline_deref1 we w Hw), (inline_deref1 re r Hr), mspec_nspec.
  change (is_list w) with (is_union w); change (is_list r) with (is_union r).
  destruct (is_union w) eqn:Huw; [reflexivity|]. destruct (is_union r) eqn:Hur; [reflexivity|]. cbn [orb].
  destruct (is_dict w || is_dict r) eqn:Hd.
  - rewrite (Hms eq_refl eq_refl). destruct (nspec level w r); reflexivity.
  - dsch w Hw ltw pw; try discriminate Hd; dsch r Hr ltr pr; try discriminate Hd; reflexivity.
Qed.

Lemma match_inline we re : forall w, inline w = true ->
  (forall f level r, (2 * amdepth w + 2 <= f)%nat -> inline r = true ->
     match_types f we re level w r = ROk (mspec level w r)) /\
  (forall f level r, (2 * amdepth w + 1 <= f)%nat -> inline r = true -> is_union w = false -> is_union r = false ->
     match_schemas f we re level w r = if nspec level w r then ROk r else RErrResolution).
Proof.
  assert (Step : forall w, inline w = true ->
     (forall wi, (w = SArray wi \/ w = SMap wi) -> forall f level r, (2 * amdepth wi + 2 <= f)%nat -> inline r = true ->
                 match_types f we re level wi r = ROk (mspec level wi r)) ->
     (forall f level r, (2 * amdepth w + 2 <= f)%nat -> inline r = true ->
        match_types f we re level w r = ROk (mspec level w r)) /\
     (forall f level r, (2 * amdepth w + 1 <= f)%nat -> inline r = true -> is_union w = false -> is_union r = false ->
        match_schemas f we re level w r = if nspec level w r then ROk r else RErrResolution)).
  { intros w Hw Hsub.
    assert (HS : forall f level r, (2 * amdepth w + 1 <= f)%nat -> inline r = true -> is_union w = false -> is_union r = false ->
        match_schemas f we re level w r = if nspec level w r then ROk r else RErrResolution).
    { intros f level r Hf Hr Huw Hur. destruct f as [|f]; [lia|]. rewrite match_schemas_S.
      apply ms_inline; try assumption. intros wi Hwi ri Hri. apply (Hsub wi Hwi); [|exact Hri].
      destruct Hwi as [-> | ->]; cbn [amdepth] in Hf; lia. }
    split; [|exact HS].
    intros f level r Hf Hr. destruct f as [|f]; [lia|]. rewrite match_types_S.
    apply mt_inline; try assumption. intros Huw Hur. apply HS; try assumption. lia. }
  induction w; intros Hi; apply Step; try exact Hi; intros wi [E|E]; try discriminate E.
  - injection E as <-. apply IHw. exact Hi.
  - injection E as <-. apply IHw. exact Hi.
Qed.

(** ... and the specification's [smatch] is the same predicate *)
Lemma prim_match_names promo w r : is_prim w = true -> is_prim r = true ->
  prim_match promo w r = match_type_names (tag_of w) (tag_of r) (if promo then 2 else 1).
Proof. destruct w; try discriminate; destruct r; try discriminate; destruct promo; reflexivity. Qed.

Lemma names_or n n0 al : bytes_eqb n n0 || names_match n n0 al = names_match n n0 al.
Proof.
  destruct (bytes_eqb n n0) eqn:E; [|reflexivity].
  apply bytes_eqb_eq in E. subst. rewrite names_match_refl. reflexivity.
Qed.

Lemma smatch_mspec we re : forall w r, inline w = true -> inline r = true ->
  smatch we re true w r = mspec 2 w r /\ smatch we re false w r = mspec 1 w r.
Proof.
  induction w as [| | | | | | | | | |wi IHw|wv IHw| | | |ltw pw _]; intros r Hw Hr; try discriminate Hw;
    [..|destruct pw; try discriminate Hw];
    dsch r Hr ltr pr;
    cbn [smatch deref Read.resolve strip named_match prim_match mspec is_union orb tag_of in_named_types andb
         match_type_names tag_eqb promotable named_pair_b named_pair Nat.leb];
    try (split; reflexivity).
  all: try (match goal with |- smatch _ _ true ?a ?b = _ /\ _ => destruct (IHw b Hw Hr) as [H1 _]; rewrite H1; split; reflexivity end).
  all: rewrite names_or; split; try reflexivity; apply andb_comm.
Qed.

Lemma mfuel_ge w : (2 * amdepth w + 2 <= pred (mfuel w))%nat /\ (2 * amdepth w + 2 <= mfuel w)%nat.
Proof. unfold mfuel. lia. Qed.

(** the verdict of match_schemas / match_types on inline schemas is the specification's *)
Lemma match_top_spec we re w r :
  inline w = true -> inline r = true -> is_union w = false -> is_union r = false ->
  match_top we re w r = if smatch we re true w r then ROk r else RErrResolution.
Proof.
  intros Hw Hr Huw Hur. unfold match_top.
  rewrite (proj2 (match_inline we re w Hw) (mfuel w) 2%nat r ltac:(unfold mfuel; lia) Hr Huw Hur).
  rewrite (proj1 (smatch_mspec we re w r Hw Hr)), mspec_nspec, Huw, Hur. reflexivity.
Qed.

Lemma match_types_spec we re f w r : (2 * amdepth w + 2 <= f)%nat ->
  inline w = true -> inline r = true ->
  match_types f we re 2 w r = ROk (smatch we re true w r).
Proof.
  intros Hf Hw Hr. rewrite (proj1 (match_inline we re w Hw) f 2%nat r Hf Hr), (proj1 (smatch_mspec we re w r Hw Hr)). reflexivity.
Qed.

Lemma find_branch_idx_pure mt (P : schema -> bool) bs :
  (forall b, In b bs -> mt b = ROk (P b)) -> find_branch_idx mt bs = ROk (find_idx P bs).
Proof.
  induction bs as [|b bs IH]; intros H; cbn [find_branch_idx find_idx]; [reflexivity|].
  rewrite (H b (or_introl eq_refl)). cbn [rbind]. destruct (P b); [reflexivity|].
  rewrite IH by (intros b' Hb'; apply H; right; exact Hb'). reflexivity.
Qed.

Lemma find_idx_ext {A} (P Q : A -> bool) l : (forall x, In x l -> P x = Q x) -> find_idx P l = find_idx Q l.
Proof.
  induction l as [|x l IH]; intros H; cbn [find_idx]; [reflexivity|].
  rewrite (H x (or_introl eq_refl)), IH by (intros y Hy; apply H; right; exact Hy). reflexivity.
Qed.

Lemma find_idx_none {A} (P : A -> bool) l : (forall x, In x l -> P x = false) -> find_idx P l = None.
Proof.
  induction l as [|x l IH]; intros H; cbn [find_idx]; [reflexivity|].
  rewrite (H x (or_introl eq_refl)), IH by (intros y Hy; apply H; right; exact Hy). reflexivity.
Qed.

(** level 0 of the code = "the very same named type" of the specification; for a writer type that is not
    named, levels 0 and 1 coincide *)
Lemma level0_named we re w b : inline w = true -> inline b = true -> is_union w = false -> is_union b = false ->
  in_named_types (tag_of w) = true -> mspec 0 w b = same_named we re w b.
Proof.
  intros Hw Hb Huw Hub Hn.
  dsch w Hw ltw pw; try discriminate Huw; try discriminate Hn;
    dsch b Hb ltb pb; try discriminate Hub; try reflexivity.
  all: cbn; rewrite ?orb_false_r; try reflexivity. apply andb_comm.
Qed.

Lemma level0_plain we re w b : inline w = true -> inline b = true -> is_union w = false -> is_union b = false ->
  in_named_types (tag_of w) = false -> mspec 0 w b = mspec 1 w b /\ same_named we re w b = false.
Proof.
  intros Hw Hb Huw Hub Hn.
  dsch w Hw ltw pw; try discriminate Huw; try discriminate Hn;
    dsch b Hb ltb pb; try discriminate Hub; split; reflexivity.
Qed.

Lemma reader_branch_idx_spec we re f w rbs : (2 * amdepth w + 2 <= f)%nat ->
  inline w = true -> is_union w = false -> inline (SUnion rbs) = true ->
  reader_branch_idx (fun l => match_types f we re l w) rbs = ROk (spec_idx we re w rbs).
Proof.
  intros Hf Hw Huw Hr.
  assert (Hb : forall b, In b rbs -> inline b = true /\ is_union b = false).
  { intros b Hin. cbn [inline] in Hr. rewrite forallb_forall in Hr. specialize (Hr b Hin).
    apply andb_prop in Hr. destruct Hr as [H1 H2]. split; [exact H2|]. destruct (is_union b); [discriminate|reflexivity]. }
  assert (Hmt : forall l b, In b rbs -> match_types f we re l w b = ROk (mspec l w b)).
  { intros l b Hin. apply (proj1 (match_inline we re w Hw)); [exact Hf|apply Hb; exact Hin]. }
  unfold reader_branch_idx, spec_idx.
  rewrite (find_branch_idx_pure _ (mspec 0 w) rbs (Hmt 0%nat)),
          (find_branch_idx_pure _ (mspec 1 w) rbs (Hmt 1%nat)),
          (find_branch_idx_pure _ (mspec 2 w) rbs (Hmt 2%nat)). cbn [rbind].
  assert (H1 : find_idx (smatch we re false w) rbs = find_idx (mspec 1 w) rbs).
  { apply find_idx_ext. intros b Hin. apply (smatch_mspec we re w b Hw). apply Hb; exact Hin. }
  assert (H2 : find_idx (smatch we re true w) rbs = find_idx (mspec 2 w) rbs).
  { apply find_idx_ext. intros b Hin. apply (smatch_mspec we re w b Hw). apply Hb; exact Hin. }
  rewrite H1, H2.
  destruct (in_named_types (tag_of w)) eqn:Hn.
  - assert (H0 : find_idx (same_named we re w) rbs = find_idx (mspec 0 w) rbs).
    { apply find_idx_ext. intros b Hin. destruct (Hb b Hin) as [Hbi Hbu]. symmetry. apply level0_named; assumption. }
    rewrite H0. destruct (find_idx (mspec 0 w) rbs); [reflexivity|].
    destruct (find_idx (mspec 1 w) rbs); reflexivity.
  - assert (H0 : find_idx (same_named we re w) rbs = None).
    { apply find_idx_none. intros b Hin. destruct (Hb b Hin) as [Hbi Hbu]. apply (level0_plain we re w b); assumption. }
    assert (H01 : find_idx (mspec 0 w) rbs = find_idx (mspec 1 w) rbs).
    { apply find_idx_ext. intros b Hin. destruct (Hb b Hin) as [Hbi Hbu]. apply (level0_plain we re w b); assumption. }
    rewrite H0, H01. destruct (find_idx (mspec 1 w) rbs); reflexivity.
Qed.

(** the branch the specification picks does match *)
Lemma smatch_false_true we re w b : inline w = true -> inline b = true ->
  smatch we re false w b = true -> smatch we re true w b = true.
Proof.
  intros Hw Hb. dsch w Hw ltw pw; dsch b Hb ltb pb;
    cbn [smatch deref Read.resolve strip prim_match named_match]; try discriminate; trivial.
Qed.

Lemma same_named_smatch we re w b : inline w = true -> inline b = true -> is_union w = false ->
  same_named we re w b = true -> smatch we re true w b = true.
Proof.
  intros Hw Hb Huw. dsch w Hw ltw pw; try discriminate Huw; dsch b Hb ltb pb;
    cbn [same_named smatch deref Read.resolve strip prim_match named_match]; try discriminate; trivial; intros H.
  - apply andb_prop in H. destruct H as [H1 H2]. apply bytes_eqb_eq in H1. subst. rewrite names_match_refl, H2. reflexivity.
  - apply bytes_eqb_eq in H. subst. apply names_match_refl.
  - apply bytes_eqb_eq in H. subst. apply names_match_refl.
Qed.

Lemma spec_idx_smatch we re w rbs k b : inline w = true -> is_union w = false -> inline (SUnion rbs) = true ->
  spec_idx we re w rbs = Some k -> nth_error rbs k = Some b -> smatch we re true w b = true.
Proof.
  intros Hw Huw Hr Hk Hn. destruct (inline_branch_gen rbs k b Hr Hn) as [Hbi Hbu].
  unfold spec_idx in Hk.
  destruct (find_idx (same_named we re w) rbs) as [k0|] eqn:E0.
  - injection Hk as <-. destruct (find_idx_some _ _ _ E0) as (x & Hx & Px). rewrite Hn in Hx. injection Hx as <-.
    apply same_named_smatch; assumption.
  - destruct (find_idx (smatch we re false w) rbs) as [k1|] eqn:E1.
    + injection Hk as <-. destruct (find_idx_some _ _ _ E1) as (x & Hx & Px). rewrite Hn in Hx. injection Hx as <-.
      apply smatch_false_true; assumption.
    + destruct (find_idx_some _ _ _ Hk) as (x & Hx & Px). rewrite Hn in Hx. injection Hx as <-. exact Px.
Qed.

(** the reader field found for a name is one of the reader's fields *)
Lemma tbl_set_vals {A} (P : A -> Prop) (d : list (str * A)) k v :
  Forall (fun e => P (snd e)) d -> P v -> Forall (fun e => P (snd e)) (tbl_set d k v).
Proof.
  intros Hd Hv. induction Hd as [|[k' v'] d Hx Hd IH]; cbn [tbl_set]; [constructor; [exact Hv|constructor]|].
  destruct (bytes_eqb k' k); constructor; try assumption.
Qed.

Lemma tbl_get_vals {A} (P : A -> Prop) (d : list (str * A)) k v :
  Forall (fun e => P (snd e)) d -> tbl_get d k = Some v -> P v.
Proof.
  induction 1 as [|[k' v'] d Hx Hd IH]; cbn [tbl_get]; [discriminate|].
  destruct (bytes_eqb k' k); [intros H; injection H as <-; exact Hx|exact IH].
Qed.

Lemma reader_field_in rfs k rf : reader_field rfs k = Some rf -> In rf rfs.
Proof.
  unfold reader_field.
  assert (H1 : Forall (fun e : str * field => In (snd e) rfs) (field_table rfs)).
  { unfold field_table.
    assert (G : forall l acc, incl l rfs -> Forall (fun e : str * field => In (snd e) rfs) acc ->
                Forall (fun e : str * field => In (snd e) rfs) (fold_left (fun d f => tbl_set d (fname f) f) l acc)).
    { induction l as [|f l IH]; intros acc Hl Ha; cbn [fold_left]; [exact Ha|].
      apply IH; [intros x Hx; apply Hl; right; exact Hx|]. apply (tbl_set_vals (fun x : field => In x rfs)); [exact Ha|apply Hl; left; reflexivity]. }
    apply G; [apply incl_refl|constructor]. }
  assert (H2 : Forall (fun e : str * field => In (snd e) rfs) (alias_table rfs)).
  { unfold alias_table.
    assert (G : forall l acc, incl l rfs -> Forall (fun e : str * field => In (snd e) rfs) acc ->
                Forall (fun e : str * field => In (snd e) rfs)
                  (fold_left (fun d f => fold_left (fun d a => tbl_set d a f) (faliases f) d) l acc)).
    { induction l as [|f l IH]; intros acc Hl Ha; cbn [fold_left]; [exact Ha|].
      apply IH; [intros x Hx; apply Hl; right; exact Hx|].
      assert (Hf : In f rfs) by (apply Hl; left; reflexivity).
      generalize (faliases f). intros als. revert acc Ha. induction als as [|a als IHa]; intros acc Ha; cbn [fold_left]; [exact Ha|].
      apply IHa. apply (tbl_set_vals (fun x : field => In x rfs)); assumption. }
    apply G; [apply incl_refl|constructor]. }
  destruct (tbl_get (field_table rfs) k) as [f|] eqn:E.
  - intros H; injection H as <-. exact (tbl_get_vals (fun x : field => In x rfs) _ _ _ H1 E).
  - intros H. exact (tbl_get_vals (fun x : field => In x rfs) _ _ _ H2 H).
Qed.

(** *** the `len(readers_field_dict) > len(record)` guard of read_record never hides a missing field *)
Lemma mem_In k ks : mem k ks = true <-> In k ks.
Proof.
  unfold mem. rewrite existsb_exists. split.
  - intros (x & Hx & E). apply bytes_eqb_eq in E. subst. exact Hx.
  - intros H. exists k. split; [exact H|apply bytes_eqb_refl].
Qed.

Lemma nodup_snoc {A} (l : list A) x : NoDup l -> ~ In x l -> NoDup (l ++ [x]).
Proof.
  induction 1 as [|y l Hy Hl IH]; intros Hx; cbn [app]; [constructor; [intros []|constructor]|].
  constructor.
  - intros H. apply in_app_or in H. destruct H as [H|[<-|[]]]; [exact (Hy H)|apply Hx; left; reflexivity].
  - apply IH. intros H. apply Hx. right. exact H.
Qed.

Lemma kadd_nodup ks k : NoDup ks -> NoDup (kadd ks k).
Proof.
  intros H. unfold kadd. destruct (mem k ks) eqn:E; [exact H|].
  apply nodup_snoc; [exact H|]. intros Hin. apply mem_In in Hin. congruence.
Qed.

Lemma kadd_incl ks k (P : str -> Prop) : (forall x, In x ks -> P x) -> P k -> forall x, In x (kadd ks k) -> P x.
Proof.
  intros H Hk x Hx. unfold kadd in Hx. destruct (mem k ks); [apply H; exact Hx|].
  apply in_app_or in Hx. destruct Hx as [Hx|[<-|[]]]; [apply H; exact Hx|exact Hk].
Qed.

Lemma tbl_set_has {A} (d : list (str * A)) k v : In k (map fst (tbl_set d k v)) /\
  (forall n, In n (map fst d) -> In n (map fst (tbl_set d k v))).
Proof.
  induction d as [|[k' v'] d [IH1 IH2]]; cbn [tbl_set map fst In].
  - split; [left; reflexivity|intros n []].
  - destruct (bytes_eqb k' k) eqn:E; cbn [map fst In].
    + apply bytes_eqb_eq in E. subst. split; [left; reflexivity|intros n H; exact H].
    + split; [right; exact IH1|intros n [H|H]; [left; exact H|right; apply IH2; exact H]].
Qed.

Lemma field_table_has rfs f : In f rfs -> In (fname f) (map fst (field_table rfs)).
Proof.
  unfold field_table.
  assert (G : forall l acc, (In f l \/ In (fname f) (map fst acc)) ->
              In (fname f) (map fst (fold_left (fun d f => tbl_set d (fname f) f) l acc))).
  { induction l as [|g l IH]; intros acc H; cbn [fold_left].
    - destruct H as [[]|H]. exact H.
    - apply IH. destruct H as [[<-|H]|H].
      + right. exact (proj1 (tbl_set_has acc (fname g) g)).
      + left. exact H.
      + right. exact (proj2 (tbl_set_has acc (fname g) g) _ H). }
  intros H. apply G. left. exact H.
Qed.

Lemma rec_keys_props rfs : forall wfs ks, NoDup ks -> (forall x, In x ks -> In x (map fst (field_table rfs))) ->
  NoDup (rec_keys rfs wfs ks) /\ (forall x, In x (rec_keys rfs wfs ks) -> In x (map fst (field_table rfs))).
Proof.
  induction wfs as [|wf wfs IH]; intros ks Hn Hi; cbn [rec_keys]; [split; assumption|].
  destruct (reader_field rfs (fname wf)) as [rf|] eqn:E; [|apply IH; assumption].
  apply IH; [apply kadd_nodup; exact Hn|].
  apply kadd_incl; [exact Hi|]. apply field_table_has. eapply reader_field_in. exact E.
Qed.

Lemma guard_always rfs wfs : guard_ok rfs wfs = true.
Proof.
  unfold guard_ok.
  destruct (len (field_table rfs) >? len (rec_keys rfs wfs [])) eqn:G; [reflexivity|]. cbn [orb].
  destruct (rec_keys_props rfs wfs [] (NoDup_nil _) (fun x (H : In x []) => match H with end)) as [Hn Hi].
  assert (Hincl : incl (map fst (field_table rfs)) (rec_keys rfs wfs [])).
  { apply NoDup_length_incl; [exact Hn| |exact Hi]. rewrite map_length. unfold len in G. lia. }
  apply forallb_forall. intros e He. apply mem_In. apply Hincl. apply in_map. exact He.
Qed.

(** *** one step of [rval] *)
Definition rbody (f : nat) (we re : env) (oo : ropts) (w : schema) (R' : option schema) (a : aval) : rres pyval :=
    let+ v :=
      match strip w, a with
      | SRef n, _ =>
          match lookup we n with
          | None => RErrOther
          | Some w' => rval f we re oo w' R' a
          end
      | SArray wi, AArray l =>
          let item a := match truthy R' with
                        | Some r => let+ ri := r_items r in rval f we re oo wi (Some ri) a
                        | None => rval f we re oo wi None a
                        end in
          let+ l := vitems item l in ROk (PList l)
      | SMap wv, AMap l =>
          let item a := match truthy R' with
                        | Some r => let+ rv := r_values r in rval f we re oo wv (Some rv) a
                        | None => rval f we re oo wv None a
                        end in
          let+ l := vmap_items item l in ROk (PDict (dict_of_items l))
      | SUnion wbs, AUnion i x =>
          match nthZ wbs i with
          | None => RErrOther
          | Some wb =>
              let+ (rb, idx_reader) := union_reader we re wb R' in
              let+ v := rval f we re oo wb rb x in
              wrap_union_r oo we re wbs wb idx_reader v
          end
      | SRecord _ _ wfs, ARecord l =>
          match R' with
          | None => let+ record := vfields_plain (rval f we re oo) wfs l [] in ROk (PDict record)
          | Some r =>
              let+ rfs := r_fields r in
              let+ record := vfields (rval f we re oo) rfs wfs l [] in
              finish_record re rfs record
          end
      | SEnum _ _ syms _, AEnum i =>
          match nthZ syms i with
          | None => RErrOther
          | Some sym => enum_symbol R' sym
          end
      | SAnnot _ _, _ => RErrOther
      | (SArray _ | SMap _ | SUnion _ | SRecord _ _ _ | SEnum _ _ _ _), _ => RErrOther
      | s, a => leaf_py s a
      end in
    match strip w with
    | SRef _ => ROk v
    | _ => promote_with (tag_of w) R' v
    end.

Lemma rval_S f we re oo w R a :
  rval (S f) we re oo w R a = (let+ R' := matched we re w R in rbody f we re oo w R' a).
Proof. reflexivity. Qed.

(** the part of [agree] about what follows once a non-union writer schema meets the reader schema [b] *)
Definition sub_ok (we re : env) (w b : schema) : bool :=
  match w, b with
  | SEnum _ _ _ _, SEnum _ _ _ (Some []) => false
  | SArray wi, SArray ri => agree we re wi ri
  | SMap wv, SMap rv => agree we re wv rv
  | SRecord _ _ wfs, SRecord _ _ rfs =>
      forallb (fun wf => match reader_field rfs (fname wf) with
                         | Some rf => agree we re (ftype wf) (ftype rf)
                         | None => true end) wfs
      && defaults_ok re rfs
  | _, _ => true
  end.

Lemma agree_nonunion we re w r : is_union w = false ->
  agree we re w r =
  truthy_ok r &&
  match r with
  | SUnion rbs => match spec_idx we re w rbs with
                  | Some k => match nth_error rbs k with Some b => sub_ok we re w b | None => true end
                  | None => true
                  end
  | _ => if smatch we re true w r then sub_ok we re w r else true
  end.
Proof. intros H. destruct w; try discriminate H; reflexivity. Qed.

Lemma agree_union we re wbs r :
  agree we re (SUnion wbs) r =
  truthy_ok r &&
  forallb (fun wb =>
        match r with
        | SUnion rbs => match spec_idx we re wb rbs with
                        | Some k => match nth_error rbs k with Some b => agree we re wb b | None => true end
                        | None => true
                        end
        | _ => if smatch we re true wb r then agree we re wb r else true
        end) wbs.
Proof. reflexivity. Qed.

(** *** the wrapping of a union value under the reader options: the code's is the specification's *)
Definition topnode (s : schema) : bool :=
  match s with SRef _ => false | SAnnot _ p => is_prim p | _ => true end.

Tactic Notation "dtop" constr(w) hyp(H) ident(lw) ident(pw) :=
  destruct w as [| | | | | | | | | | | | | | |lw pw]; try discriminate H; [..|destruct pw; try discriminate H].

Lemma wrap_eq_core we re wbs wb rb v :
  topnode (deref1 we wb) = true -> deref we wb = strip (deref1 we wb) ->
  (forall b, rb = Some b -> topnode (deref1 re b) = true /\ deref re b = strip (deref1 re b) /\
       (in_named_types (tag_of (deref1 we wb)) = true -> in_named_types (tag_of (deref1 re b)) = true)) ->
  wrap_union_r o we re wbs wb rb v = wrap_spec o we re wbs wb rb v.
Proof.
  intros Hwn Hwd Hb. unfold wrap_union_r, wrap_spec, branch_kind.
  change (Read.resolve we wb) with (deref we wb). rewrite Hwd.
  destruct (ret_named_override o && (count_named we wbs =? 1)); [reflexivity|].
  destruct rb as [b|].
  - destruct (Hb b eq_refl) as (Hnb & Hdb & Hnm). change (Read.resolve re b) with (deref re b). rewrite Hdb.
    assert (Hname : in_named_types (tag_of (deref1 we wb)) = true ->
              (let+ d := (if is_dict b then ROk b
                          else match b with
                               | SRef m => ROk match lookup re m with Some d => d | None => deref1 we wb end
                               | SUnion _ => RErrOther
                               | _ => ROk (deref1 we wb)
                               end) in let+ n := dict_name d in ROk (PTuple [PStr n; v]))
              = match option_map fst (match strip (deref1 re b) with
                                      | SRecord n _ _ => Some (n, true)
                                      | SEnum n _ _ _ | SFixed n _ _ => Some (n, false)
                                      | SRef n => Some (n, true)
                                      | _ => None end) with
                | Some n => ROk (PTuple [PStr n; v]) | None => RErrOther end).
    { intros Hw. specialize (Hnm Hw).
      destruct b; cbn [deref1 topnode] in Hnb, Hnm |- *; try discriminate Hnm; try reflexivity.
      - destruct (lookup re n) as [d|]; [|discriminate Hnb]. destruct d; try discriminate Hnm; try reflexivity.
        destruct d; try discriminate Hnb; discriminate Hnm.
      - destruct b; try discriminate Hnb; try discriminate Hnm. }
    set (wn := deref1 we wb) in *. clearbody wn.
    dtop wn Hwn ltw pw; cbn [strip tag_of in_named_types andb option_map fst] in Hname |- *;
      try (specialize (Hname eq_refl); rewrite Hname);
      destruct (ret_named o); destruct (ret_rec_override o && (count_records we wbs =? 1)); destruct (ret_rec o); reflexivity.
  - set (wn := deref1 we wb) in *. clearbody wn.
    dtop wn Hwn ltw pw; cbn [strip tag_of in_named_types andb option_map fst rbind dict_name is_dict is_list is_str negb name_of];
      destruct (ret_named o); destruct (ret_rec_override o && (count_records we wbs =? 1)); destruct (ret_rec o); reflexivity.
Qed.

Lemma wrap_eq_inline we re wbs wb rb v : inline wb = true ->
  (forall b, rb = Some b -> inline b = true /\
       (in_named_types (tag_of wb) = true -> in_named_types (tag_of b) = true)) ->
  wrap_union_r o we re wbs wb rb v = wrap_spec o we re wbs wb rb v.
Proof.
  intros Hw Hb. apply wrap_eq_core.
  - rewrite (inline_deref1 we wb Hw). destruct wb; try discriminate Hw; try reflexivity. exact Hw.
  - rewrite (inline_deref1 we wb Hw). apply inline_deref. exact Hw.
  - intros b E. destruct (Hb b E) as [Hbi Hnm]. rewrite (inline_deref1 re b Hbi), (inline_deref1 we wb Hw).
    split; [destruct b; try discriminate Hbi; try reflexivity; exact Hbi|]. split; [apply inline_deref; exact Hbi|exact Hnm].
Qed.

(* a named writer type only matches a named reader type *)
Lemma smatch_named_inline we re wb b : inline wb = true -> inline b = true -> is_union wb = false -> is_union b = false ->
  smatch we re true wb b = true -> in_named_types (tag_of wb) = true -> in_named_types (tag_of b) = true.
Proof.
  intros Hw Hb Huw Hub Hm Hn.
  dsch wb Hw ltw pw; try discriminate Huw; try discriminate Hn;
    dsch b Hb ltb pb; try discriminate Hub; try reflexivity;
    cbn [smatch deref Read.resolve strip named_match prim_match] in Hm; discriminate Hm.
Qed.

Lemma union_pick_plain we re wb r : is_union (deref re r) = false -> union_pick we re wb r = None.
Proof. intros H. unfold union_pick. destruct (deref re r); try reflexivity. discriminate H. Qed.

Section Body.
  Variable n : nat.
  Hypothesis IH : forall we w a, typedn n we w a -> forall re r f, (n <= f)%nat ->
    inline w = true -> inline r = true -> agree we re w r = true ->
    rval f we re o w (Some r) a = resolve o we re w r a.

  Lemma items_agree we re wi ri f l : (n <= f)%nat -> inline wi = true -> inline ri = true -> agree we re wi ri = true ->
    Forall (typedn n we wi) l ->
    vitems (fun a => rval f we re o wi (Some ri) a) l = res_items (resolve o we re) wi ri l.
  Proof.
    intros Hf Hw Hr Ha. induction 1 as [|x l Hx _ IHl]; cbn [vitems res_items]; [reflexivity|].
    rewrite (IH we wi x Hx re ri f Hf Hw Hr Ha), IHl. reflexivity.
  Qed.

  Lemma entries_agree we re wv rv f (l : list (bytes * aval)) : (n <= f)%nat -> inline wv = true -> inline rv = true ->
    agree we re wv rv = true ->
    Forall (fun kv => key_ok (fst kv) /\ typedn n we wv (snd kv)) l ->
    vmap_items (fun a => rval f we re o wv (Some rv) a) l = res_entries (resolve o we re) wv rv l.
  Proof.
    intros Hf Hw Hr Ha. induction 1 as [|[k x] l [_ Hx] _ IHl]; cbn [vmap_items res_entries]; [reflexivity|].
    cbn [snd] in Hx. rewrite (IH we wv x Hx re rv f Hf Hw Hr Ha), IHl. reflexivity.
  Qed.

  Lemma fields_agree we re rfs f : (n <= f)%nat -> forallb (fun rf : field => inline (ftype rf)) rfs = true ->
    forall wfs l acc, Forall2 (fun fd a => typedn n we (ftype fd) a) wfs l ->
    forallb (fun wf : field => inline (ftype wf)) wfs = true ->
    forallb (fun wf => match reader_field rfs (fname wf) with
                       | Some rf => agree we re (ftype wf) (ftype rf)
                       | None => true end) wfs = true ->
    vfields (rval f we re o) rfs wfs l acc = res_fields (resolve o we re) rfs wfs l acc.
  Proof.
    intros Hf Hrfs wfs l acc H. revert acc. induction H as [|wf x wfs l Hx _ IHl]; intros acc Hi Ha; cbn [vfields res_fields]; [reflexivity|].
    cbn [forallb] in Hi, Ha. apply andb_prop in Hi. destruct Hi as [Hi1 Hi2]. apply andb_prop in Ha. destruct Ha as [Ha1 Ha2].
    destruct (reader_field rfs (fname wf)) as [rf|] eqn:E.
    - assert (Hrf : inline (ftype rf) = true).
      { rewrite forallb_forall in Hrfs. apply Hrfs. eapply reader_field_in. exact E. }
      rewrite (IH we (ftype wf) x Hx re (ftype rf) f Hf Hi1 Hrf Ha1).
      destruct (resolve o we re (ftype wf) (ftype rf) x); cbn [rbind]; try reflexivity. apply IHl; assumption.
    - apply IHl; assumption.
  Qed.

  Lemma body_agree we re w b a f : typedn (S n) we w a -> (n <= f)%nat ->
    inline w = true -> inline b = true -> is_union w = false -> is_union b = false ->
    smatch we re true w b = true -> sub_ok we re w b = true ->
    rbody f we re o w (Some b) a = resolve o we re w b a.
  Proof.
    intros Ht Hf Hw Hb Huw Hub Hm Hs.
    dsch w Hw ltw pw; try discriminate Huw;
      try (apply (proj1 (typedn_annot _ _ _ _ _)) in Ht; apply typedn_mono in Ht);
      destruct a; cbn [typedn] in Ht; try contradiction;
      dsch b Hb ltb pb; try discriminate Hub;
      cbn [smatch deref Read.resolve strip named_match prim_match] in Hm; try discriminate Hm;
      cbn [sub_ok] in Hs; try discriminate Hs; try reflexivity.
    - (* fixed *)
      cbn [resolve]; cbv zeta; cbn [deref Read.resolve strip reader_side]. rewrite Hm. reflexivity.
    - (* enum *)
      cbn [resolve]; cbv zeta; cbn [deref Read.resolve strip reader_side]. rewrite Hm.
      unfold rbody. cbn [strip]. destruct (nthZ syms i) as [sym|]; [|reflexivity].
      unfold enum_symbol. cbn [truthy is_dict is_list is_str negb andb strip].
      destruct (mem sym syms0); [reflexivity|]. destruct dflt0 as [[|c d]|]; try discriminate Hs; reflexivity.
    - (* array *)
      destruct Ht as [_ Hl]. cbn [inline] in Hw, Hb.
      cbn [resolve]; cbv zeta; cbn [deref Read.resolve strip reader_side]. rewrite Hm.
      unfold rbody. cbn [strip truthy r_items is_dict is_list is_str negb andb rbind].
      rewrite (items_agree we re w b f l Hf Hw Hb Hs Hl).
      destruct (res_items (resolve o we re) w b l); reflexivity.
    - (* map *)
      destruct Ht as [_ Hl]. cbn [inline] in Hw, Hb.
      cbn [resolve]; cbv zeta; cbn [deref Read.resolve strip reader_side]. rewrite Hm.
      unfold rbody. cbn [strip truthy r_values is_dict is_list is_str negb andb rbind].
      rewrite (entries_agree we re w b f l Hf Hw Hb Hs Hl).
      destruct (res_entries (resolve o we re) w b l); reflexivity.
    - (* record *)
      cbn [inline] in Hw, Hb. apply andb_prop in Hs. destruct Hs as [Hs Hd]. pose proof (guard_always fs0 fs) as Hg.
      cbn [resolve]; cbv zeta; cbn [deref Read.resolve strip reader_side]. rewrite Hm.
      unfold rbody. cbn [strip r_fields is_dict is_list is_str negb andb rbind].
      rewrite (fields_agree we re fs0 f Hf Hb fs l [] Ht Hw Hs).
      destruct (res_fields (resolve o we re) fs0 fs l []) as [record| | |] eqn:E; cbn [rbind]; try reflexivity.
      assert (Hk : keys_inv record (rec_keys fs0 fs [])).
      { rewrite <- (fields_agree we re fs0 f Hf Hb fs l [] Ht Hw Hs) in E. eapply vfields_keys; [|exact E]. reflexivity. }
      rewrite (finish_eq re fs0 fs record Hk Hd Hg).
      destruct (spec_defaults re (field_table fs0) record); reflexivity.
  Qed.
End Body.

Lemma nthZ_In {A} (l : list A) : forall i x, nthZ l i = Some x -> In x l.
Proof.
  induction l as [|a l IH]; intros i x H; cbn [nthZ] in H; [discriminate|].
  destruct (i =? 0); [injection H as <-; left; reflexivity|]. destruct (i <? 0); [discriminate|]. right. eapply IH. exact H.
Qed.

Lemma truthy_some r : truthy_ok r = true -> truthy (Some r) = Some r.
Proof. destruct r; try reflexivity. destruct bs; [discriminate|reflexivity]. Qed.

Lemma deref_nonunion e w : inline w = true -> is_union w = false -> is_union (deref e w) = false.
Proof. intros Hi Hu. rewrite (inline_deref e w Hi). destruct (inline_strip w Hi) as (_ & _ & ->). exact Hu. Qed.

Lemma reader_side_union we re w rbs k b :
  spec_idx we re w rbs = Some k -> nth_error rbs k = Some b -> inline b = true -> is_union b = false ->
  reader_side we re w (SUnion rbs) = Some (strip b).
Proof.
  intros Hk Hn Hi Hu. unfold reader_side. cbn [deref Read.resolve strip]. rewrite pick_branch_idx, Hk, Hn.
  pose proof (deref_nonunion re b Hi Hu) as Hd. rewrite (inline_deref re b Hi) in *.
  destruct (strip b); try discriminate Hd; reflexivity.
Qed.

Lemma reader_side_plain we re w b : inline b = true -> is_union b = false -> reader_side we re w b = Some (strip b).
Proof.
  intros Hi Hu. unfold reader_side. pose proof (deref_nonunion re b Hi Hu) as Hd. rewrite (inline_deref re b Hi) in *.
  destruct (strip b); try discriminate Hd; reflexivity.
Qed.

Definition inline_branch := inline_branch_gen.

Lemma spec_idx_strip we re w rbs : inline w = true -> spec_idx we re (strip w) rbs = spec_idx we re w rbs.
Proof.
  intros Hw. unfold spec_idx.
  assert (H0 : find_idx (same_named we re (strip w)) rbs = find_idx (same_named we re w) rbs).
  { apply find_idx_ext. intros b _. dsch w Hw ltw pw; reflexivity. }
  assert (H1 : forall promo, find_idx (smatch we re promo (strip w)) rbs = find_idx (smatch we re promo w) rbs).
  { intros promo. apply find_idx_ext. intros b _. dsch w Hw ltw pw; try reflexivity;
      cbn [strip smatch]; destruct (deref re b); reflexivity. }
  rewrite H0, !H1. reflexivity.
Qed.

Lemma spec_idx_range we re w rbs k : spec_idx we re w rbs = Some k -> exists b, nth_error rbs k = Some b.
Proof.
  unfold spec_idx. intros H.
  destruct (find_idx (same_named we re w) rbs) as [k0|] eqn:E0.
  - injection H as <-. destruct (find_idx_some _ _ _ E0) as (x & Hx & _). exists x. exact Hx.
  - destruct (find_idx (smatch we re false w) rbs) as [k1|] eqn:E1.
    + injection H as <-. destruct (find_idx_some _ _ _ E1) as (x & Hx & _). exists x. exact Hx.
    + destruct (find_idx_some _ _ _ H) as (x & Hx & _). exists x. exact Hx.
Qed.

Lemma union_reader_plain we re wb r : is_union r = false ->
  union_reader we re wb (Some r) = (let+ x := match_types_top we re 2 wb r in if x then ROk (Some r, None) else RErrResolution).
Proof. intros H. destruct r; try discriminate H; reflexivity. Qed.

Lemma union_reader_union we re wb rbs : truthy_ok (SUnion rbs) = true ->
  union_reader we re wb (Some (SUnion rbs)) =
  (let+ x := reader_branch (fun l => match_types_top we re l wb) rbs in
   match x with Some b => ROk (Some b, Some b) | None => RErrResolution end).
Proof. intros H. destruct rbs; [discriminate H|reflexivity]. Qed.

Lemma match_top_union_writer we re wbs r : match_top we re (SUnion wbs) r = ROk r.
Proof. unfold match_top. rewrite mfuel_S, match_schemas_S. unfold match_schemas_body, match_schemas_core. reflexivity. Qed.

Lemma match_top_union_reader we re w rbs : inline w = true -> is_union w = false ->
  match_top we re w (SUnion rbs) =
  (let+ x := reader_branch (fun l => match_types (pred (mfuel w)) we re l w) rbs in
   match x with Some b => ROk b | None => RErrResolution end).
Proof.
  intros Hi Hu. unfold match_top. rewrite mfuel_S, match_schemas_S. cbn [pred]. unfold match_schemas_body, match_schemas_core.
  rewrite (inline_deref1 we w Hi), is_list_union, Hu. cbn [deref1].
  destruct (reader_branch (fun l => match_types (2 * amdepth w + 7) we re l w) rbs) as [[b|]| | |]; reflexivity.
Qed.

Lemma reader_branch_idx_top we re wb rbs : inline wb = true -> is_union wb = false -> inline (SUnion rbs) = true ->
  reader_branch_idx (fun l => match_types_top we re l wb) rbs = ROk (spec_idx we re wb rbs).
Proof. intros H1 H2 H3. exact (reader_branch_idx_spec we re (mfuel wb) wb rbs (proj2 (mfuel_ge wb)) H1 H2 H3). Qed.

Lemma match_types_top_spec we re wb r : inline wb = true -> inline r = true ->
  match_types_top we re 2 wb r = ROk (smatch we re true wb r).
Proof. intros H1 H2. exact (match_types_spec we re (mfuel wb) wb r (proj2 (mfuel_ge wb)) H1 H2). Qed.

Theorem rval_resolve : forall n we w a, typedn n we w a -> forall re r f, (n <= f)%nat ->
  inline w = true -> inline r = true -> agree we re w r = true ->
  rval f we re o w (Some r) a = resolve o we re w r a.
Proof.
  induction n as [|n IH]; intros we w a Ht re r f Hf Hw Hr Ha; [destruct Ht|].
  destruct f as [|f]; [lia|]. assert (Hf' : (n <= f)%nat) by lia.
  rewrite rval_S.
  destruct (is_union w) eqn:Hu.
  - (* the writer schema is a union *)
    destruct w as [| | | | | | | | | | | |wbs| | |]; try discriminate Hu.
    destruct a; cbn [typedn] in Ht; try contradiction. destruct Ht as (_ & wb & Hn & Hx).
    rewrite agree_union in Ha. apply andb_prop in Ha. destruct Ha as [Htr Ha].
    unfold matched. rewrite (truthy_some r Htr), match_top_union_writer. cbn [rbind]. rewrite (inline_deref1 re r Hr).
    unfold rbody. cbn [strip]. rewrite Hn.
    assert (Hin : In wb wbs) by (eapply nthZ_In; exact Hn).
    cbn [inline] in Hw. rewrite forallb_forall in Hw. specialize (Hw wb Hin). apply andb_prop in Hw. destruct Hw as [Hwu Hwi].
    assert (Hwu' : is_union wb = false) by (destruct (is_union wb); [discriminate|reflexivity]).
    rewrite forallb_forall in Ha. specialize (Ha wb Hin).
    destruct n as [|m]; [destruct Hx|].
    assert (Hres : resolve o we re (SUnion wbs) r (AUnion i a) =
                   (let+ v := resolve o we re wb r a in wrap_spec o we re wbs wb (union_pick we re wb r) v)).
    { cbn [resolve]; cbv zeta. cbn [deref Read.resolve strip]. rewrite Hn. reflexivity. }
    rewrite Hres.
    destruct (is_union r) eqn:Hur.
    + (* reader union *)
      destruct r as [| | | | | | | | | | | |rbs| | |]; try discriminate Hur.
      rewrite (union_reader_union we re wb rbs Htr), reader_branch_nth.
      rewrite (reader_branch_idx_top we re wb rbs Hwi Hwu' Hr). cbn [rbind].
      destruct (spec_idx we re wb rbs) as [k|] eqn:Hk; cbn [nth_opt].
      * destruct (spec_idx_range _ _ _ _ _ Hk) as (b & Hnth). rewrite Hnth in Ha |- *.
        destruct (inline_branch rbs k b Hr Hnth) as [Hbi Hbu]. cbn [rbind].
        rewrite (IH we wb a Hx re b f Hf' Hwi Hbi Ha).
        assert (Hpick : union_pick we re wb (SUnion rbs) = Some b).
        { unfold union_pick. cbn [deref Read.resolve strip].
          rewrite (inline_deref we wb Hwi), pick_branch_idx, (spec_idx_strip we re wb rbs Hwi), Hk. exact Hnth. }
        rewrite Hpick, (resolve_reader_side we re wb (SUnion rbs) b a).
        -- destruct (resolve o we re wb b a) as [v| | |]; cbn [rbind]; try reflexivity.
           rewrite (wrap_eq_inline we re wbs wb (Some b) v Hwi).
           ++ destruct (wrap_spec o we re wbs wb (Some b) v); reflexivity.
           ++ intros b0 E. injection E as <-. split; [exact Hbi|].
              apply (smatch_named_inline we re wb b Hwi Hbi Hwu' Hbu).
              apply (spec_idx_smatch we re wb rbs k b Hwi Hwu' Hr Hk Hnth).
        -- apply deref_nonunion; assumption.
        -- rewrite (inline_deref we wb Hwi), (reader_side_union we re (strip wb) rbs k b (eq_trans (spec_idx_strip we re wb rbs Hwi) Hk) Hnth Hbi Hbu), (reader_side_plain we re (strip wb) b Hbi Hbu). reflexivity.
      * rewrite (error_no_branch we re wb (SUnion rbs) a rbs); [reflexivity| | | |].
        -- apply deref_nonunion; assumption.
        -- rewrite (inline_deref we wb Hwi). eapply typed_fits; eassumption.
        -- reflexivity.
        -- rewrite (inline_deref we wb Hwi), pick_branch_idx, (spec_idx_strip we re wb rbs Hwi), Hk. reflexivity.
    + (* reader not a union *)
      assert (Ha2 : (if smatch we re true wb r then agree we re wb r else true) = true)
        by (destruct r; try discriminate Hur; exact Ha).
      clear Ha. rename Ha2 into Ha.
      rewrite (union_reader_plain we re wb r Hur), (match_types_top_spec we re wb r Hwi Hr). cbn [rbind].
      rewrite (union_pick_plain we re wb r) by (rewrite (inline_deref re r Hr); destruct (inline_strip r Hr) as (_ & _ & ->); exact Hur).
      destruct (smatch we re true wb r) eqn:Hm.
      * cbn [rbind]. rewrite (IH we wb a Hx re r f Hf' Hwi Hr Ha).
        destruct (resolve o we re wb r a) as [v| | |]; cbn [rbind]; try reflexivity.
        rewrite (wrap_eq_inline we re wbs wb None v Hwi) by (intros b0 E; discriminate E).
        destruct (wrap_spec o we re wbs wb None v); reflexivity.
      * cbn [rbind]. rewrite (resolve_reject we re m wb r a Hwi Hr Hwu' Hur Hx Hm). reflexivity.
  - (* the writer schema is not a union *)
    rewrite (agree_nonunion we re w r Hu) in Ha. apply andb_prop in Ha. destruct Ha as [Htr Ha].
    unfold matched. rewrite (truthy_some r Htr).
    destruct (is_union r) eqn:Hur.
    + destruct r as [| | | | | | | | | | | |rbs| | |]; try discriminate Hur.
      rewrite (match_top_union_reader we re w rbs Hw Hu), reader_branch_nth.
      rewrite (reader_branch_idx_spec we re (pred (mfuel w)) w rbs (proj1 (mfuel_ge w)) Hw Hu Hr). cbn [rbind].
      destruct (spec_idx we re w rbs) as [k|] eqn:Hk; cbn [nth_opt].
      * destruct (spec_idx_range _ _ _ _ _ Hk) as (b & Hnth). rewrite Hnth in Ha |- *.
        destruct (inline_branch rbs k b Hr Hnth) as [Hbi Hbu]. cbn [rbind]. rewrite (inline_deref1 re b Hbi).
        pose proof (spec_idx_smatch we re w rbs k b Hw Hu Hr Hk Hnth) as Hm.
        rewrite (body_agree n IH we re w b a f Ht Hf' Hw Hbi Hu Hbu Hm Ha).
        symmetry. apply resolve_reader_side.
        -- apply deref_nonunion; assumption.
        -- rewrite (inline_deref we w Hw), (reader_side_union we re (strip w) rbs k b (eq_trans (spec_idx_strip we re w rbs Hw) Hk) Hnth Hbi Hbu), (reader_side_plain we re (strip w) b Hbi Hbu). reflexivity.
      * symmetry. apply (error_no_branch we re w (SUnion rbs) a rbs).
        -- apply deref_nonunion; assumption.
        -- rewrite (inline_deref we w Hw). eapply typed_fits; eassumption.
        -- reflexivity.
        -- rewrite (inline_deref we w Hw), pick_branch_idx, (spec_idx_strip we re w rbs Hw), Hk. reflexivity.
    + assert (Ha' : (if smatch we re true w r then sub_ok we re w r else true) = true)
        by (destruct r; try discriminate Hur; exact Ha).
      clear Ha. rewrite (match_top_spec we re w r Hw Hr Hu Hur).
      destruct (smatch we re true w r) eqn:Hm; cbn [rbind].
      * rewrite (inline_deref1 re r Hr). apply (body_agree n IH we re w r a f Ht Hf' Hw Hr Hu Hur Hm Ha').
      * symmetry. eapply resolve_reject; eassumption.
Qed.

(** reading with a reader schema = decode, then the SPECIFICATION, inside the agreement zone *)
Theorem rdec_resolve_zone : forall n we w l, typedl n we w l ->
  forall re r f x, (n <= f)%nat -> typedn n we w (erase l) ->
  inline w = true -> inline r = true -> agree we re w r = true ->
  rdec f we re o w (Some r) (wire_l l ++ x) = lift x (resolve o we re w r (erase l)).
Proof.
  intros n we w l Hl re r f x Hf Ht Hw Hr Ha.
  rewrite (rdec_rval n we w l Hl f Hf re o (Some r) x).
  rewrite (rval_resolve n we w (erase l) Ht re r f Hf Hw Hr Ha). reflexivity.
Qed.

Theorem rdec_resolve_zone_wire : forall n we w a, typedn n we w a ->
  forall re r f x, (n <= f)%nat -> inline w = true -> inline r = true -> agree we re w r = true ->
  rdec f we re o w (Some r) (wire a ++ x) = lift x (resolve o we re w r a).
Proof.
  intros n we w a Ht re r f x Hf Hw Hr Ha.
  rewrite (rdec_rval_wire n we w a Ht f Hf re o (Some r) x).
  rewrite (rval_resolve n we w a Ht re r f Hf Hw Hr Ha). reflexivity.
Qed.

(** reader == writer through the code, inside the zone: what reading without a reader schema returns *)
Theorem rdec_identity_zone : forall n e s a, typedn n e s a -> wf_ident n e s ->
  inline s = true -> agree e e s s = true ->
  forall f x, (n <= f)%nat ->
  exists v, py_of o e s a = Some v /\ rdec f e e o s (Some s) (wire a ++ x) = ROk (v, x).
Proof.
  intros n e s a Ht Hwf Hi Ha f x Hf. destruct (resolve_identity n e s a Ht Hwf) as (v & H1 & H2).
  exists v. split; [exact H1|]. rewrite (rdec_resolve_zone_wire n e s a Ht e s f x Hf Hi Hi Ha), H2. reflexivity.
Qed.

(* ------------------------------------------------------------------------------------------ *)
(** * Part D2: the same with by-name references (recursive types included) *)

Definition nonref (s : schema) : bool := match s with SRef _ => false | _ => true end.

Lemma lookup_in (e : env) n d : lookup e n = Some d -> exists n', In (n', d) e.
Proof.
  induction e as [|[k s] e IH]; cbn [lookup]; [discriminate|].
  destruct (bytes_eqb k n); [intros H; injection H as <-; exists k; left; reflexivity|].
  intros H. destruct (IH H) as (n' & Hin). exists n'. right. exact Hin.
Qed.

Lemma lookup_scoped e n d : env_scoped e = true -> lookup e n = Some d -> named_core d = true /\ scoped e d = true.
Proof.
  intros He Hl. destruct (lookup_in e n d Hl) as (n' & Hin). unfold env_scoped in He. rewrite forallb_forall in He.
  specialize (He _ Hin). cbn [snd] in He. apply andb_prop in He. exact He.
Qed.

Lemma named_core_facts d : named_core d = true -> nonref d = true /\ strip d = d /\ is_union d = false /\ is_dict d = true.
Proof. destruct d; try discriminate; repeat split; reflexivity. Qed.

(** the node a schema stands for *)
Lemma deref1_node e s : env_scoped e = true -> scoped e s = true ->
  nonref (deref1 e s) = true /\ scoped e (deref1 e s) = true /\ deref e s = strip (deref1 e s) /\
  deref1 e (deref1 e s) = deref1 e s.
Proof.
  intros He Hs. destruct s; try (repeat split; try reflexivity; exact Hs).
  - (* reference *)
    cbn [scoped] in Hs. cbn [deref1]. destruct (lookup e n) as [d|] eqn:E; [|discriminate Hs].
    destruct (lookup_scoped e n d He E) as [Hn Hd]. destruct (named_core_facts d Hn) as (H1 & H2 & _ & _).
    repeat split; try assumption.
    + unfold deref, Read.resolve. cbn [strip]. rewrite E. reflexivity.
    + destruct d; try discriminate H1; reflexivity.
  - (* annotation *)
    repeat split; try reflexivity; try exact Hs.
    cbn [scoped] in Hs. destruct s; try discriminate Hs; reflexivity.
Qed.

Lemma deref1_nonref e s : nonref s = true -> deref1 e s = s.
Proof. destruct s; try discriminate; reflexivity. Qed.

Lemma scoped_deref e s : env_scoped e = true -> scoped e s = true -> nonref s = true -> deref e s = strip s.
Proof. intros He Hs Hn. destruct (deref1_node e s He Hs) as (_ & _ & H & _). rewrite H, (deref1_nonref e s Hn). reflexivity. Qed.

(** a non-reference schema of the fragment: a primitive, its dict form, or a composite with scoped parts *)
Tactic Notation "dnode" constr(w) hyp(Hs) hyp(Hn) ident(lw) ident(pw) :=
  destruct w as [| | | | | | | | | | | | | | |lw pw]; try discriminate Hn; try discriminate Hs; [..|destruct pw; try discriminate Hs].

(** *** the matchers on scoped schemas *)
Definition leaf_spec (level : nat) (w' r' : schema) : bool :=
  if in_named_types (tag_of w') && in_named_types (tag_of r') then named_pair_b level (strip w') (strip r')
  else match_type_names (tag_of w') (tag_of r') level.

(* on the writer schema as given and the DEREFERENCED reader schema *)
Fixpoint mspecS (we re : env) (level : nat) (w r : schema) {struct w} : bool :=
  let r' := deref1 re r in
  match w with
  | SUnion _ => true
  | SMap wv => is_union r' || match r' with SMap rv => mspecS we re 2 wv rv | _ => leaf_spec level w r' end
  | SArray wi => is_union r' || match r' with SArray ri => mspecS we re 2 wi ri | _ => leaf_spec level w r' end
  | _ => let w' := deref1 we w in is_union r' || leaf_spec level w' r'
  end.

Definition nspecS (we re : env) (level : nat) (w' r' : schema) : bool :=     (* both dereferenced, neither a union *)
  match w', r' with
  | SMap wv, SMap rv => mspecS we re 2 wv rv
  | SArray wi, SArray ri => mspecS we re 2 wi ri
  | _, _ => leaf_spec level w' r'
  end.

Lemma mspecS_node we re level w r : env_scoped we = true -> scoped we w = true ->
  mspecS we re level w r = is_union (deref1 we w) || is_union (deref1 re r) || nspecS we re level (deref1 we w) (deref1 re r).
Proof.
  intros He Hs. destruct w; cbn [mspecS deref1 is_union orb]; try (destruct (deref1 re r); reflexivity).
  (* reference *)
  cbn [scoped] in Hs. destruct (lookup we n) as [d|] eqn:E; [|discriminate Hs].
  destruct (lookup_scoped we n d He E) as [Hn _]. destruct (named_core_facts d Hn) as (_ & _ & Hu & _). rewrite Hu. cbn [orb].
  destruct d; try discriminate Hn; destruct (deref1 re r); reflexivity.
Qed.

Lemma ms_core_scoped we re mt level w' r' :
  nonref w' = true -> scoped we w' = true -> nonref r' = true -> scoped re r' = true ->
  is_union w' = false -> is_union r' = false ->
  (forall wi, (w' = SArray wi \/ w' = SMap wi) -> forall ri, scoped re ri = true -> mt 2%nat wi ri = ROk (mspecS we re 2 wi ri)) ->
  match_schemas_core mt level w' r' = if nspecS we re level w' r' then ROk None else RErrResolution.
Proof.
  intros Hnw Hw Hnr Hr Huw Hur Hsub. unfold match_schemas_core. rewrite is_list_union, Huw.
  dnode w' Hw Hnw ltw pw; try discriminate Huw;
    dnode r' Hr Hnr ltr pr; try discriminate Hur;
    cbn [strip tag_of in_named_types andb nspecS leaf_spec];
    rewrite ?named_pair_ok;
    try (match goal with |- context [mt 2%nat ?a ?b] =>
           first [rewrite (Hsub a (or_introl eq_refl) b Hr) | rewrite (Hsub a (or_intror eq_refl) b Hr)] end);
    cbn [rbind]; try match goal with |- context [if ?c then _ else _] => destruct c end; reflexivity.
Qed.

Lemma mt_scoped we re ms level w r :
  env_scoped we = true -> env_scoped re = true -> scoped we w = true -> scoped re r = true ->
  (is_union (deref1 we w) = false -> is_union (deref1 re r) = false ->
   ms level (deref1 we w) (deref1 re r) =
   if nspecS we re level (deref1 we w) (deref1 re r) then ROk (deref1 re r) else RErrResolution) ->
  match_types_body we re ms level w r = ROk (mspecS we re level w r).
Proof.
  intros Hew Her Hw Hr Hms. unfold match_types_body. rewrite (mspecS_node we re level w r Hew Hw).
  destruct (deref1_node we w Hew Hw) as (Hnw & Hsw & _ & _). destruct (deref1_node re r Her Hr) as (Hnr & Hsr & _ & _).
  set (w' := deref1 we w) in *. set (r' := deref1 re r) in *.
  change (is_list w') with (is_union w'); change (is_list r') with (is_union r').
  destruct (is_union w') eqn:Huw; [reflexivity|]. destruct (is_union r') eqn:Hur; [reflexivity|]. cbn [orb].
  destruct (is_dict w' || is_dict r') eqn:Hd.
  - rewrite (Hms eq_refl eq_refl). destruct (nspecS we re level w' r'); reflexivity.
  - clearbody w' r'. dnode w' Hsw Hnw ltw pw; try discriminate Hd; dnode r' Hsr Hnr ltr pr; try discriminate Hd; reflexivity.
Qed.

Lemma ms_node_scoped we re f level w' r' :
  nonref w' = true -> scoped we w' = true -> nonref r' = true -> scoped re r' = true ->
  is_union w' = false -> is_union r' = false ->
  (forall wi, (w' = SArray wi \/ w' = SMap wi) -> forall ri, scoped re ri = true ->
      match_types f we re 2 wi ri = ROk (mspecS we re 2 wi ri)) ->
  match_schemas (S f) we re level w' r' = if nspecS we re level w' r' then ROk r' else RErrResolution.
Proof.
  intros Hnw Hw Hnr Hr Huw Hur Hsub. rewrite match_schemas_S. unfold match_schemas_body.
  rewrite (deref1_nonref we w' Hnw), (deref1_nonref re r' Hnr).
  rewrite (ms_core_scoped we re (match_types f we re) level w' r' Hnw Hw Hnr Hr Huw Hur Hsub).
  destruct (nspecS we re level w' r'); reflexivity.
Qed.

Lemma match_scoped we re : env_scoped we = true -> env_scoped re = true -> forall w, scoped we w = true ->
  (forall f level r, (2 * amdepth w + 2 <= f)%nat -> scoped re r = true ->
     match_types f we re level w r = ROk (mspecS we re level w r)) /\
  (forall f level r', (2 * amdepth w + 1 <= f)%nat -> nonref w = true -> nonref r' = true -> scoped re r' = true ->
     is_union w = false -> is_union r' = false ->
     match_schemas f we re level w r' = if nspecS we re level w r' then ROk r' else RErrResolution).
Proof.
  intros Hew Her.
  assert (Step : forall w, scoped we w = true ->
     (forall wi, (w = SArray wi \/ w = SMap wi) -> forall f level r, (2 * amdepth wi + 2 <= f)%nat -> scoped re r = true ->
                 match_types f we re level wi r = ROk (mspecS we re level wi r)) ->
     (forall f level r, (2 * amdepth w + 2 <= f)%nat -> scoped re r = true ->
        match_types f we re level w r = ROk (mspecS we re level w r)) /\
     (forall f level r', (2 * amdepth w + 1 <= f)%nat -> nonref w = true -> nonref r' = true -> scoped re r' = true ->
        is_union w = false -> is_union r' = false ->
        match_schemas f we re level w r' = if nspecS we re level w r' then ROk r' else RErrResolution)).
  { intros w Hw Hsub.
    assert (HS : forall f level r', (2 * amdepth w + 1 <= f)%nat -> nonref w = true -> nonref r' = true -> scoped re r' = true ->
        is_union w = false -> is_union r' = false ->
        match_schemas f we re level w r' = if nspecS we re level w r' then ROk r' else RErrResolution).
    { intros f level r' Hf Hnw Hnr Hr Huw Hur. destruct f as [|f]; [lia|].
      apply ms_node_scoped; try assumption. intros wi Hwi ri Hri. apply (Hsub wi Hwi); [|exact Hri].
      destruct Hwi as [-> | ->]; cbn [amdepth] in Hf; lia. }
    split; [|exact HS].
    intros f level r Hf Hr. destruct f as [|f]; [lia|]. rewrite match_types_S.
    apply mt_scoped; try assumption. intros Huw Hur.
    destruct (deref1_node re r Her Hr) as (Hnr & Hsr & _ & _).
    destruct (nonref w) eqn:Hnw.
    - rewrite (deref1_nonref we w Hnw) in *. apply HS; try assumption; try reflexivity. lia.
    - (* a reference: its definition is a named type *)
      destruct w; try discriminate Hnw. cbn [scoped] in Hw. cbn [deref1] in *.
      destruct (lookup we n) as [d|] eqn:E; [|discriminate Hw].
      destruct (lookup_scoped we n d Hew E) as [Hn Hd]. destruct (named_core_facts d Hn) as (H1 & _ & _ & _).
      destruct f as [|f]; [lia|]. apply ms_node_scoped; try assumption.
      intros wi [->| ->]; discriminate Hn. }
  induction w; intros Hi; apply Step; try exact Hi; intros wi [E|E]; try discriminate E.
  - injection E as <-. apply IHw. exact Hi.
  - injection E as <-. apply IHw. exact Hi.
Qed.

(** the specification's [smatch] is the same predicate *)
Lemma smatch_mspecS we re : env_scoped we = true -> env_scoped re = true ->
  forall w r, scoped we w = true -> scoped re r = true ->
  smatch we re true w r = mspecS we re 2 w r /\ smatch we re false w r = mspecS we re 1 w r.
Proof.
  intros Hew Her.
  induction w as [| | | | | | | | | |wi IHw|wv IHw| | |nm|ltw pw _]; intros r Hw Hr;
    destruct (deref1_node re r Her Hr) as (Hnr & Hsr & Hd & _);
    cbn [smatch mspecS]; rewrite Hd; set (r' := deref1 re r) in *; clearbody r'.
  15:{ (* reference *)
    cbn [scoped] in Hw. unfold deref, Read.resolve. cbn [strip deref1].
    destruct (lookup we nm) as [d|] eqn:E; [|discriminate Hw].
    destruct (lookup_scoped we nm d Hew E) as [Hn _].
    destruct d; try discriminate Hn; dnode r' Hsr Hnr ltr pr;
      cbn [strip named_match is_union orb leaf_spec tag_of in_named_types andb named_pair_b named_pair match_type_names tag_eqb promotable Nat.leb];
      try (split; reflexivity); rewrite names_or; split; try reflexivity; apply andb_comm. }
  15:{ (* annotation *)
    cbn [scoped] in Hw. destruct pw; try discriminate Hw; cbn [smatch]; rewrite ?Hd; dnode r' Hsr Hnr ltr pr; split; reflexivity. }
  all: dnode r' Hsr Hnr ltr pr;
    cbn [strip deref1 named_match prim_match is_union orb leaf_spec tag_of in_named_types andb named_pair_b named_pair
         match_type_names tag_eqb promotable Nat.leb];
    try (split; reflexivity).
  all: try (match goal with |- smatch _ _ true ?a ?b = _ /\ _ => destruct (IHw b Hw Hsr) as [H1 _]; rewrite H1; split; reflexivity end).
  all: rewrite names_or; split; try reflexivity; apply andb_comm.
Qed.

Lemma match_types_scoped we re f w r : env_scoped we = true -> env_scoped re = true ->
  (2 * amdepth w + 2 <= f)%nat -> scoped we w = true -> scoped re r = true ->
  match_types f we re 2 w r = ROk (smatch we re true w r).
Proof.
  intros Hew Her Hf Hw Hr.
  rewrite (proj1 (match_scoped we re Hew Her w Hw) f 2%nat r Hf Hr), (proj1 (smatch_mspecS we re Hew Her w r Hw Hr)). reflexivity.
Qed.

(** level 0 of the code = "the very same named type" of the specification; for a writer type that is not
    named, levels 0 and 1 coincide *)
Lemma level0_scoped we re w b : env_scoped we = true -> env_scoped re = true ->
  scoped we w = true -> scoped re b = true -> is_union (deref1 we w) = false -> is_union (deref1 re b) = false ->
  (in_named_types (tag_of (deref1 we w)) = true -> mspecS we re 0 w b = same_named we re w b) /\
  (in_named_types (tag_of (deref1 we w)) = false -> mspecS we re 0 w b = mspecS we re 1 w b /\ same_named we re w b = false).
Proof.
  intros Hew Her Hw Hb Huw Hub.
  rewrite !(mspecS_node we re _ w b Hew Hw), Huw, Hub. cbn [orb]. unfold same_named.
  destruct (deref1_node we w Hew Hw) as (Hnw & Hsw & Hdw & _). destruct (deref1_node re b Her Hb) as (Hnb & Hsb & Hdb & _).
  rewrite Hdw, Hdb. set (w' := deref1 we w) in *. set (b' := deref1 re b) in *. clearbody w' b'.
  split; intros Hn;
    dnode w' Hsw Hnw ltw pw; try discriminate Huw; try discriminate Hn;
    dnode b' Hsb Hnb ltb pb; try discriminate Hub;
    cbn; rewrite ?orb_false_r; try reflexivity; try (split; reflexivity); apply andb_comm.
Qed.

Lemma scoped_branch e rbs b : scoped e (SUnion rbs) = true -> In b rbs -> scoped e b = true /\ is_union b = false.
Proof.
  cbn [scoped]. intros H Hin. rewrite forallb_forall in H. specialize (H b Hin).
  apply andb_prop in H. destruct H as [H1 H2]. split; [exact H2|]. destruct (is_union b); [discriminate|reflexivity].
Qed.

Lemma nonunion_deref1 e b : env_scoped e = true -> scoped e b = true -> is_union b = false -> is_union (deref1 e b) = false.
Proof.
  intros He Hb Hu. destruct b; try exact Hu; try reflexivity. cbn [scoped] in Hb. cbn [deref1].
  destruct (lookup e n) as [d|] eqn:E; [|discriminate Hb]. destruct (lookup_scoped e n d He E) as [Hn _].
  destruct d; try discriminate Hn; reflexivity.
Qed.

Lemma reader_branch_idx_scoped we re f w rbs : env_scoped we = true -> env_scoped re = true ->
  (2 * amdepth w + 2 <= f)%nat -> scoped we w = true -> is_union (deref1 we w) = false -> scoped re (SUnion rbs) = true ->
  reader_branch_idx (fun l => match_types f we re l w) rbs = ROk (spec_idx we re w rbs).
Proof.
  intros Hew Her Hf Hw Huw Hr.
  assert (Hb : forall b, In b rbs -> scoped re b = true /\ is_union (deref1 re b) = false).
  { intros b Hin. destruct (scoped_branch re rbs b Hr Hin) as [H1 H2]. split; [exact H1|]. apply nonunion_deref1; assumption. }
  assert (Hmt : forall l b, In b rbs -> match_types f we re l w b = ROk (mspecS we re l w b)).
  { intros l b Hin. apply (proj1 (match_scoped we re Hew Her w Hw)); [exact Hf|apply Hb; exact Hin]. }
  unfold reader_branch_idx, spec_idx.
  rewrite (find_branch_idx_pure _ (mspecS we re 0 w) rbs (Hmt 0%nat)),
          (find_branch_idx_pure _ (mspecS we re 1 w) rbs (Hmt 1%nat)),
          (find_branch_idx_pure _ (mspecS we re 2 w) rbs (Hmt 2%nat)). cbn [rbind].
  assert (H1 : find_idx (smatch we re false w) rbs = find_idx (mspecS we re 1 w) rbs).
  { apply find_idx_ext. intros b Hin. apply (smatch_mspecS we re Hew Her w b Hw). apply Hb; exact Hin. }
  assert (H2 : find_idx (smatch we re true w) rbs = find_idx (mspecS we re 2 w) rbs).
  { apply find_idx_ext. intros b Hin. apply (smatch_mspecS we re Hew Her w b Hw). apply Hb; exact Hin. }
  rewrite H1, H2.
  destruct (in_named_types (tag_of (deref1 we w))) eqn:Hn.
  - assert (H0 : find_idx (same_named we re w) rbs = find_idx (mspecS we re 0 w) rbs).
    { apply find_idx_ext. intros b Hin. destruct (Hb b Hin) as [Hbi Hbu]. symmetry.
      apply (proj1 (level0_scoped we re w b Hew Her Hw Hbi Huw Hbu) Hn). }
    rewrite H0. destruct (find_idx (mspecS we re 0 w) rbs); [reflexivity|].
    destruct (find_idx (mspecS we re 1 w) rbs); reflexivity.
  - assert (H0 : find_idx (same_named we re w) rbs = None).
    { apply find_idx_none. intros b Hin. destruct (Hb b Hin) as [Hbi Hbu].
      apply (proj2 (level0_scoped we re w b Hew Her Hw Hbi Huw Hbu) Hn). }
    assert (H01 : find_idx (mspecS we re 0 w) rbs = find_idx (mspecS we re 1 w) rbs).
    { apply find_idx_ext. intros b Hin. destruct (Hb b Hin) as [Hbi Hbu].
      apply (proj2 (level0_scoped we re w b Hew Her Hw Hbi Huw Hbu) Hn). }
    rewrite H0, H01. destruct (find_idx (mspecS we re 1 w) rbs); reflexivity.
Qed.

(** *** dereferencing is invisible to the specification *)
Lemma deref_deref1 e s : env_scoped e = true -> scoped e s = true -> deref e (deref1 e s) = deref e s.
Proof.
  intros He Hs. destruct (deref1_node e s He Hs) as (Hn & Hs' & Hd & Hi).
  destruct (deref1_node e (deref1 e s) He Hs') as (_ & _ & Hd' & _). rewrite Hd', Hi, Hd. reflexivity.
Qed.

Lemma resolve_deref1_r we re w r a : env_scoped re = true -> scoped re r = true ->
  resolve o we re w (deref1 re r) a = resolve o we re w r a.
Proof. intros He Hr. apply resolve_deref_r. apply deref_deref1; assumption. Qed.

Lemma resolve_deref1_w we re w r a : env_scoped we = true -> scoped we w = true ->
  resolve o we re (deref1 we w) r a = resolve o we re w r a.
Proof. intros He Hw. apply resolve_deref_w. apply deref_deref1; assumption. Qed.

Lemma smatch_deref_r we re promo : forall w r r', deref re r = deref re r' -> smatch we re promo w r = smatch we re promo w r'.
Proof.
  induction w; intros r r' H; cbn [smatch]; rewrite H; try reflexivity.
  rewrite (IHw r r' H). reflexivity.
Qed.

Lemma smatch_deref1_r we re promo w r : env_scoped re = true -> scoped re r = true ->
  smatch we re promo w (deref1 re r) = smatch we re promo w r.
Proof. intros He Hr. apply smatch_deref_r. apply deref_deref1; assumption. Qed.

Lemma smatch_deref1_w we re promo w r : env_scoped we = true -> scoped we w = true ->
  smatch we re promo (deref1 we w) r = smatch we re promo w r.
Proof.
  intros He Hw. destruct w; try reflexivity. cbn [scoped] in Hw. cbn [deref1 smatch].
  destruct (lookup we n) as [d|] eqn:E; [|discriminate Hw]. destruct (lookup_scoped we n d He E) as [Hn _].
  unfold deref, Read.resolve. cbn [strip]. rewrite E.
  destruct d; try discriminate Hn; cbn [smatch strip]; reflexivity.
Qed.

Lemma same_named_deref1_w we re w b : env_scoped we = true -> scoped we w = true ->
  same_named we re (deref1 we w) b = same_named we re w b.
Proof. intros He Hw. unfold same_named. rewrite (deref_deref1 we w He Hw). reflexivity. Qed.

Lemma spec_idx_deref1 we re w rbs : env_scoped we = true -> scoped we w = true ->
  spec_idx we re (deref1 we w) rbs = spec_idx we re w rbs.
Proof.
  intros He Hw. unfold spec_idx.
  rewrite (find_idx_ext (same_named we re (deref1 we w)) (same_named we re w) rbs (fun b _ => same_named_deref1_w we re w b He Hw)).
  rewrite (find_idx_ext (smatch we re false (deref1 we w)) (smatch we re false w) rbs (fun b _ => smatch_deref1_w we re false w b He Hw)).
  rewrite (find_idx_ext (smatch we re true (deref1 we w)) (smatch we re true w) rbs (fun b _ => smatch_deref1_w we re true w b He Hw)).
  reflexivity.
Qed.

Lemma deref1_union e r rbs : env_scoped e = true -> scoped e r = true -> deref1 e r = SUnion rbs -> r = SUnion rbs.
Proof.
  intros He Hr H. destruct r; try exact H. cbn [scoped] in Hr. cbn [deref1] in H.
  destruct (lookup e n) as [d|] eqn:E; [|discriminate Hr]. destruct (lookup_scoped e n d He E) as [Hn _].
  subst d. discriminate Hn.
Qed.

(** *** the verdicts of match_schemas on scoped schemas *)
Lemma match_schemas_scoped we re f level w r : env_scoped we = true -> env_scoped re = true ->
  (2 * amdepth w + 1 <= f)%nat -> scoped we w = true -> scoped re r = true ->
  is_union (deref1 we w) = false -> is_union (deref1 re r) = false ->
  match_schemas f we re level w r =
  if nspecS we re level (deref1 we w) (deref1 re r) then ROk r else RErrResolution.
Proof.
  intros Hew Her Hf Hw Hr Huw Hur. destruct f as [|f]; [lia|]. rewrite match_schemas_S. unfold match_schemas_body.
  destruct (deref1_node we w Hew Hw) as (Hnw & Hsw & _ & _). destruct (deref1_node re r Her Hr) as (Hnr & Hsr & _ & _).
  rewrite (ms_core_scoped we re (match_types f we re) level (deref1 we w) (deref1 re r) Hnw Hsw Hnr Hsr Huw Hur).
  - destruct (nspecS we re level (deref1 we w) (deref1 re r)); reflexivity.
  - intros wi Hwi ri Hri.
    assert (Hww : deref1 we w = w).
    { destruct w; try reflexivity. cbn [scoped] in Hw. cbn [deref1] in Hwi |- *.
      destruct (lookup we n) as [d|] eqn:E; [|discriminate Hw]. destruct (lookup_scoped we n d Hew E) as [Hn _].
      destruct Hwi as [->| ->]; discriminate Hn. }
    rewrite Hww in Hwi.
    apply (proj1 (match_scoped we re Hew Her wi ltac:(destruct Hwi as [->| ->]; exact Hw))); [|exact Hri].
    destruct Hwi as [->| ->]; cbn [amdepth] in Hf; lia.
Qed.

Lemma match_top_scoped we re w r : env_scoped we = true -> env_scoped re = true ->
  scoped we w = true -> scoped re r = true -> is_union (deref1 we w) = false -> is_union (deref1 re r) = false ->
  match_top we re w r = if smatch we re true w r then ROk r else RErrResolution.
Proof.
  intros Hew Her Hw Hr Huw Hur. unfold match_top.
  rewrite (match_schemas_scoped we re (mfuel w) 2 w r Hew Her ltac:(unfold mfuel; lia) Hw Hr Huw Hur).
  rewrite (proj1 (smatch_mspecS we re Hew Her w r Hw Hr)), (mspecS_node we re 2 w r Hew Hw), Huw, Hur. reflexivity.
Qed.

Lemma match_top_scoped_union we re w rbs : env_scoped we = true -> scoped we w = true -> is_union (deref1 we w) = false ->
  match_top we re w (SUnion rbs) =
  (let+ x := reader_branch (fun l => match_types (pred (mfuel w)) we re l (deref1 we w)) rbs in
   match x with Some b => ROk b | None => RErrResolution end).
Proof.
  intros He Hw Hu. unfold match_top. rewrite mfuel_S, match_schemas_S. cbn [pred]. unfold match_schemas_body, match_schemas_core.
  rewrite is_list_union, Hu. cbn [deref1].
  destruct (reader_branch (fun l => match_types (2 * amdepth w + 7) we re l (deref1 we w)) rbs) as [[b|]| | |]; reflexivity.
Qed.

Lemma amdepth_deref1 e w : env_scoped e = true -> scoped e w = true -> amdepth (deref1 e w) = amdepth w.
Proof.
  intros He Hw. destruct w; try reflexivity. cbn [scoped] in Hw. cbn [deref1 amdepth].
  destruct (lookup e n) as [d|] eqn:E; [|discriminate Hw]. destruct (lookup_scoped e n d He E) as [Hn _].
  destruct d; try discriminate Hn; reflexivity.
Qed.

(** *** nodes: a writer schema that is no reference meets a dereferenced reader schema *)
Lemma resolve_rejectS we re n w b a :
  nonref w = true -> scoped we w = true -> nonref b = true -> scoped re b = true ->
  is_union w = false -> is_union b = false ->
  typedn (S n) we w a -> smatch we re true w b = false -> resolve o we re w b a = RErrResolution.
Proof.
  intros Hnw Hw Hnb Hb Huw Hub Ht Hm.
  dnode w Hw Hnw ltw pw; try discriminate Huw;
    try (apply (proj1 (typedn_annot _ _ _ _ _)) in Ht; destruct n as [|n']; [destruct Ht|]);
    destruct a; cbn [typedn] in Ht; try contradiction;
    dnode b Hb Hnb ltb pb; try discriminate Hub;
    cbn [smatch deref Read.resolve strip named_match prim_match] in Hm; try discriminate Hm;
    cbn [resolve]; cbv zeta; cbn [deref Read.resolve strip reader_side]; try reflexivity;
    rewrite ?Hm; try reflexivity.
Qed.

Lemma typed_fitsS we n w a : nonref w = true -> scoped we w = true -> is_union w = false ->
  typedn (S n) we w a -> fits (strip w) a = true.
Proof.
  intros Hnw Hw Hu Ht. dnode w Hw Hnw ltw pw; try discriminate Hu;
    try (apply (proj1 (typedn_annot _ _ _ _ _)) in Ht; destruct n as [|n']; [destruct Ht|]);
    destruct a; cbn [typedn] in Ht; try contradiction; reflexivity.
Qed.

Lemma leaf_spec_mono l1 l2 w' r' : (l1 <= l2)%nat -> leaf_spec l1 w' r' = true -> leaf_spec l2 w' r' = true.
Proof.
  intros Hl. unfold leaf_spec, named_pair_b, named_pair, match_type_names.
  destruct (in_named_types (tag_of w') && in_named_types (tag_of r')).
  - destruct (strip w'); destruct (strip r'); try (intros H; exact H);
      intros H; repeat (apply andb_prop in H; destruct H as [? H]);
      destruct (1 <=? l1)%nat eqn:E1; destruct (1 <=? l2)%nat eqn:E2; try lia; rewrite ?andb_true_l, ?andb_false_l, ?orb_false_r in *;
      try assumption; try (rewrite H; rewrite ?orb_true_r; try reflexivity).
    all: try (match goal with H0 : (_ =? _) = true |- _ => rewrite H0 end; cbn [andb]; rewrite H; rewrite ?orb_true_r; reflexivity).
    all: try (apply orb_true_iff; left; assumption).
  - intros H. apply orb_prop in H. destruct H as [H|H]; [rewrite H; reflexivity|].
    apply andb_prop in H. destruct H as [H1 H2]. rewrite H2. destruct (2 <=? l2)%nat eqn:E; [rewrite orb_true_r; reflexivity|lia].
Qed.

Lemma mspecS_mono we re l1 l2 w r : env_scoped we = true -> scoped we w = true -> (l1 <= l2)%nat ->
  mspecS we re l1 w r = true -> mspecS we re l2 w r = true.
Proof.
  intros He Hw Hl. rewrite !(mspecS_node we re _ w r He Hw).
  destruct (is_union (deref1 we w)); [trivial|]. destruct (is_union (deref1 re r)); [trivial|]. cbn [orb].
  unfold nspecS. destruct (deref1 we w); destruct (deref1 re r); try (apply leaf_spec_mono; exact Hl); trivial.
Qed.

Lemma spec_idx_smatchS we re w rbs k b : env_scoped we = true -> env_scoped re = true ->
  scoped we w = true -> is_union (deref1 we w) = false -> scoped re (SUnion rbs) = true ->
  spec_idx we re w rbs = Some k -> nth_error rbs k = Some b -> smatch we re true w b = true.
Proof.
  intros Hew Her Hw Huw Hr Hk Hn.
  destruct (scoped_branch re rbs b Hr (nth_error_In _ _ Hn)) as [Hbs Hbu].
  pose proof (nonunion_deref1 re b Her Hbs Hbu) as Hbu'.
  destruct (smatch_mspecS we re Hew Her w b Hw Hbs) as [E2 E1].
  unfold spec_idx in Hk.
  destruct (find_idx (same_named we re w) rbs) as [k0|] eqn:E0.
  - injection Hk as <-. destruct (find_idx_some _ _ _ E0) as (x & Hx & Px). rewrite Hn in Hx. injection Hx as <-.
    destruct (level0_scoped we re w b Hew Her Hw Hbs Huw Hbu') as [L0 L1].
    destruct (in_named_types (tag_of (deref1 we w))) eqn:Hnm.
    + rewrite E2. apply (mspecS_mono we re 0 2 w b Hew Hw ltac:(lia)). rewrite (L0 eq_refl). exact Px.
    + destruct (L1 eq_refl) as [_ Hf]. congruence.
  - destruct (find_idx (smatch we re false w) rbs) as [k1|] eqn:E1'.
    + injection Hk as <-. destruct (find_idx_some _ _ _ E1') as (x & Hx & Px). rewrite Hn in Hx. injection Hx as <-.
      rewrite E2. apply (mspecS_mono we re 1 2 w b Hew Hw ltac:(lia)). rewrite <- E1. exact Px.
    + destruct (find_idx_some _ _ _ Hk) as (x & Hx & Px). rewrite Hn in Hx. injection Hx as <-. exact Px.
Qed.


(** the reader schema the specification resolves against *)
Lemma reader_sideS_plain we re dw b : env_scoped re = true -> scoped re b = true -> is_union (deref1 re b) = false ->
  reader_side we re dw b = Some (strip (deref1 re b)).
Proof.
  intros He Hb Hu. unfold reader_side. destruct (deref1_node re b He Hb) as (Hn & Hs & Hd & _). rewrite Hd.
  set (b' := deref1 re b) in *. clearbody b'. dnode b' Hs Hn ltb pb; try discriminate Hu; reflexivity.
Qed.

Lemma reader_sideS_union we re dw rbs k b : env_scoped re = true ->
  spec_idx we re dw rbs = Some k -> nth_error rbs k = Some b -> scoped re b = true -> is_union (deref1 re b) = false ->
  reader_side we re dw (SUnion rbs) = Some (strip (deref1 re b)).
Proof.
  intros He Hk Hn Hb Hu. unfold reader_side. cbn [deref Read.resolve strip]. rewrite pick_branch_idx, Hk, Hn.
  destruct (deref1_node re b He Hb) as (Hnb & Hs & Hd & _). rewrite Hd.
  set (b' := deref1 re b) in *. clearbody b'. dnode b' Hs Hnb ltb pb; try discriminate Hu; reflexivity.
Qed.

(** *** unfolding [agreen] *)
Definition node_ok (k : nat) (we re : env) (w' b : schema) : bool :=
  match w', b with
  | SEnum _ _ _ _, SEnum _ _ _ (Some []) => false
  | SArray wi, SArray ri => agreen k we re wi ri
  | SMap wv, SMap rv => agreen k we re wv rv
  | SRecord _ _ wfs, SRecord _ _ rfs =>
      forallb (fun wf => match reader_field rfs (fname wf) with
                         | Some rf => agreen k we re (ftype wf) (ftype rf)
                         | None => true end) wfs
      && defaults_ok re rfs
  | _, _ => true
  end.

Lemma agreen_node k we re w r : nonref w = true -> is_union w = false ->
  agreen (S k) we re w r =
  truthy_ok r &&
  match deref1 re r with
  | SUnion rbs => match spec_idx we re w rbs with
                  | Some j => match nth_error rbs j with Some b => node_ok k we re w (deref1 re b) | None => true end
                  | None => true
                  end
  | _ => if smatch we re true w r then node_ok k we re w (deref1 re r) else true
  end.
Proof. intros Hn Hu. destruct w; try discriminate Hn; try discriminate Hu; reflexivity. Qed.

Lemma agreen_ref k we re nm r :
  agreen (S k) we re (SRef nm) r =
  truthy_ok r &&
  match lookup we nm with
  | None => false
  | Some wd =>
      match deref1 re r with
      | SUnion rbs => match spec_idx we re (SRef nm) rbs with
                      | Some j => match nth_error rbs j with Some b => agreen k we re wd (deref1 re b) | None => true end
                      | None => true
                      end
      | _ => if smatch we re true (SRef nm) r then agreen k we re wd (deref1 re r) else true
      end
  end.
Proof. reflexivity. Qed.

Lemma agreen_union k we re wbs r :
  agreen (S k) we re (SUnion wbs) r =
  truthy_ok r &&
  forallb (fun wb =>
          match deref1 re r with
          | SUnion rbs => match spec_idx we re wb rbs with
                          | Some j => match nth_error rbs j with Some b => agreen k we re wb b | None => true end
                          | None => true
                          end
          | _ => if smatch we re true wb r then agreen k we re wb (deref1 re r) else true
          end) wbs.
Proof. reflexivity. Qed.

Section BodyS.
  Variable n : nat.
  Hypothesis IH : forall we w a, typedn n we w a -> forall re r k f, (n <= k)%nat -> (n <= f)%nat ->
    env_scoped we = true -> env_scoped re = true -> scoped we w = true -> scoped re r = true ->
    agreen k we re w r = true ->
    rval f we re o w (Some r) a = resolve o we re w r a.

  Lemma items_agreeS we re wi ri k f l : (n <= k)%nat -> (n <= f)%nat ->
    env_scoped we = true -> env_scoped re = true -> scoped we wi = true -> scoped re ri = true ->
    agreen k we re wi ri = true -> Forall (typedn n we wi) l ->
    vitems (fun a => rval f we re o wi (Some ri) a) l = res_items (resolve o we re) wi ri l.
  Proof.
    intros Hk Hf Hew Her Hw Hr Ha. induction 1 as [|x l Hx _ IHl]; cbn [vitems res_items]; [reflexivity|].
    rewrite (IH we wi x Hx re ri k f Hk Hf Hew Her Hw Hr Ha), IHl. reflexivity.
  Qed.

  Lemma entries_agreeS we re wv rv k f (l : list (bytes * aval)) : (n <= k)%nat -> (n <= f)%nat ->
    env_scoped we = true -> env_scoped re = true -> scoped we wv = true -> scoped re rv = true ->
    agreen k we re wv rv = true ->
    Forall (fun kv => key_ok (fst kv) /\ typedn n we wv (snd kv)) l ->
    vmap_items (fun a => rval f we re o wv (Some rv) a) l = res_entries (resolve o we re) wv rv l.
  Proof.
    intros Hk Hf Hew Her Hw Hr Ha. induction 1 as [|[key x] l [_ Hx] _ IHl]; cbn [vmap_items res_entries]; [reflexivity|].
    cbn [snd] in Hx. rewrite (IH we wv x Hx re rv k f Hk Hf Hew Her Hw Hr Ha), IHl. reflexivity.
  Qed.

  Lemma fields_agreeS we re rfs k f : (n <= k)%nat -> (n <= f)%nat -> env_scoped we = true -> env_scoped re = true ->
    forallb (fun rf : field => scoped re (ftype rf)) rfs = true ->
    forall wfs l acc, Forall2 (fun fd a => typedn n we (ftype fd) a) wfs l ->
    forallb (fun wf : field => scoped we (ftype wf)) wfs = true ->
    forallb (fun wf => match reader_field rfs (fname wf) with
                       | Some rf => agreen k we re (ftype wf) (ftype rf)
                       | None => true end) wfs = true ->
    vfields (rval f we re o) rfs wfs l acc = res_fields (resolve o we re) rfs wfs l acc.
  Proof.
    intros Hk Hf Hew Her Hrfs wfs l acc H. revert acc. induction H as [|wf x wfs l Hx _ IHl]; intros acc Hi Ha; cbn [vfields res_fields]; [reflexivity|].
    cbn [forallb] in Hi, Ha. apply andb_prop in Hi. destruct Hi as [Hi1 Hi2]. apply andb_prop in Ha. destruct Ha as [Ha1 Ha2].
    destruct (reader_field rfs (fname wf)) as [rf|] eqn:E.
    - assert (Hrf : scoped re (ftype rf) = true).
      { rewrite forallb_forall in Hrfs. apply Hrfs. eapply reader_field_in. exact E. }
      rewrite (IH we (ftype wf) x Hx re (ftype rf) k f Hk Hf Hew Her Hi1 Hrf Ha1).
      destruct (resolve o we re (ftype wf) (ftype rf) x); cbn [rbind]; try reflexivity. apply IHl; assumption.
    - apply IHl; assumption.
  Qed.

  Lemma body_agreeS we re w b a k f : typedn (S n) we w a -> (n <= k)%nat -> (n <= f)%nat ->
    env_scoped we = true -> env_scoped re = true ->
    nonref w = true -> scoped we w = true -> nonref b = true -> scoped re b = true ->
    is_union w = false -> is_union b = false ->
    smatch we re true w b = true -> node_ok k we re w b = true ->
    rbody f we re o w (Some b) a = resolve o we re w b a.
  Proof.
    intros Ht Hk Hf Hew Her Hnw Hw Hnb Hb Huw Hub Hm Hs.
    dnode w Hw Hnw ltw pw; try discriminate Huw;
      try (apply (proj1 (typedn_annot _ _ _ _ _)) in Ht; apply typedn_mono in Ht);
      destruct a; cbn [typedn] in Ht; try contradiction;
      dnode b Hb Hnb ltb pb; try discriminate Hub;
      cbn [smatch deref Read.resolve strip named_match prim_match] in Hm; try discriminate Hm;
      cbn [node_ok] in Hs; try discriminate Hs; try reflexivity.
    - (* fixed *)
      cbn [resolve]; cbv zeta; cbn [deref Read.resolve strip reader_side]. rewrite Hm. reflexivity.
    - (* enum *)
      cbn [resolve]; cbv zeta; cbn [deref Read.resolve strip reader_side]. rewrite Hm.
      unfold rbody. cbn [strip]. destruct (nthZ syms i) as [sym|]; [|reflexivity].
      unfold enum_symbol. cbn [truthy is_dict is_list is_str negb andb strip].
      destruct (mem sym syms0); [reflexivity|]. destruct dflt0 as [[|c d]|]; try discriminate Hs; reflexivity.
    - (* array *)
      destruct Ht as [_ Hl]. cbn [scoped] in Hw, Hb.
      cbn [resolve]; cbv zeta; cbn [deref Read.resolve strip reader_side]. rewrite Hm.
      unfold rbody. cbn [strip truthy r_items is_dict is_list is_str negb andb rbind].
      rewrite (items_agreeS we re w b k f l Hk Hf Hew Her Hw Hb Hs Hl).
      destruct (res_items (resolve o we re) w b l); reflexivity.
    - (* map *)
      destruct Ht as [_ Hl]. cbn [scoped] in Hw, Hb.
      cbn [resolve]; cbv zeta; cbn [deref Read.resolve strip reader_side]. rewrite Hm.
      unfold rbody. cbn [strip truthy r_values is_dict is_list is_str negb andb rbind].
      rewrite (entries_agreeS we re w b k f l Hk Hf Hew Her Hw Hb Hs Hl).
      destruct (res_entries (resolve o we re) w b l); reflexivity.
    - (* record *)
      cbn [scoped] in Hw, Hb. apply andb_prop in Hs. destruct Hs as [Hs Hd]. pose proof (guard_always fs0 fs) as Hg.
      cbn [resolve]; cbv zeta; cbn [deref Read.resolve strip reader_side]. rewrite Hm.
      unfold rbody. cbn [strip r_fields is_dict is_list is_str negb andb rbind].
      rewrite (fields_agreeS we re fs0 k f Hk Hf Hew Her Hb fs l [] Ht Hw Hs).
      destruct (res_fields (resolve o we re) fs0 fs l []) as [record| | |] eqn:E; cbn [rbind]; try reflexivity.
      assert (Hkeys : keys_inv record (rec_keys fs0 fs [])).
      { rewrite <- (fields_agreeS we re fs0 k f Hk Hf Hew Her Hb fs l [] Ht Hw Hs) in E. eapply vfields_keys; [|exact E]. reflexivity. }
      rewrite (finish_eq re fs0 fs record Hkeys Hd Hg).
      destruct (spec_defaults re (field_table fs0) record); reflexivity.
  Qed.
End BodyS.

Lemma spec_idx_stripS we re s rbs : nonref s = true -> scoped we s = true ->
  spec_idx we re (strip s) rbs = spec_idx we re s rbs.
Proof.
  intros Hn Hs. unfold spec_idx.
  assert (H0 : find_idx (same_named we re (strip s)) rbs = find_idx (same_named we re s) rbs).
  { apply find_idx_ext. intros b _. dnode s Hs Hn lts ps; reflexivity. }
  assert (H1 : forall promo, find_idx (smatch we re promo (strip s)) rbs = find_idx (smatch we re promo s) rbs).
  { intros promo. apply find_idx_ext. intros b _. dnode s Hs Hn lts ps; try reflexivity;
      cbn [strip smatch]; destruct (deref re b); reflexivity. }
  rewrite H0, !H1. reflexivity.
Qed.

Lemma spec_idx_derefS we re w rbs : env_scoped we = true -> scoped we w = true ->
  spec_idx we re (deref we w) rbs = spec_idx we re w rbs.
Proof.
  intros He Hw. destruct (deref1_node we w He Hw) as (Hn & Hs & Hd & _).
  rewrite Hd, (spec_idx_stripS we re (deref1 we w) rbs Hn Hs). apply spec_idx_deref1; assumption.
Qed.

Lemma deref_nonunionS e w : env_scoped e = true -> scoped e w = true -> is_union (deref1 e w) = false ->
  is_union (deref e w) = false.
Proof.
  intros He Hw Hu. destruct (deref1_node e w He Hw) as (Hn & Hs & Hd & _). rewrite Hd.
  set (w' := deref1 e w) in *. clearbody w'. dnode w' Hs Hn ltw pw; try discriminate Hu; reflexivity.
Qed.

(* typing follows a reference *)
Lemma typedn_deref1 we m w a : typedn (S m) we w a -> typedn (S m) we (deref1 we w) a.
Proof.
  intros Ht. destruct w; try exact Ht. apply typedn_ref in Ht. destruct Ht as (d & Hl & Ht). cbn [deref1]. rewrite Hl.
  apply typedn_mono. exact Ht.
Qed.

Lemma resolve_reject_gen we re m w r a : env_scoped we = true -> env_scoped re = true ->
  scoped we w = true -> scoped re r = true -> is_union (deref1 we w) = false -> is_union (deref1 re r) = false ->
  typedn (S m) we w a -> smatch we re true w r = false -> resolve o we re w r a = RErrResolution.
Proof.
  intros Hew Her Hw Hr Huw Hur Ht Hm.
  destruct (deref1_node we w Hew Hw) as (Hnw & Hsw & _ & _). destruct (deref1_node re r Her Hr) as (Hnr & Hsr & _ & _).
  rewrite <- (resolve_deref1_w we re w r a Hew Hw), <- (resolve_deref1_r we re (deref1 we w) r a Her Hr).
  apply (resolve_rejectS we re m); try assumption.
  - apply typedn_deref1. exact Ht.
  - rewrite (smatch_deref1_r we re true (deref1 we w) r Her Hr), (smatch_deref1_w we re true w r Hew Hw). exact Hm.
Qed.

Lemma fits_gen we m w a : env_scoped we = true -> scoped we w = true -> is_union (deref1 we w) = false ->
  typedn (S m) we w a -> fits (deref we w) a = true.
Proof.
  intros He Hw Hu Ht. destruct (deref1_node we w He Hw) as (Hn & Hs & Hd & _). rewrite Hd.
  apply (typed_fitsS we m); try assumption. apply typedn_deref1. exact Ht.
Qed.

(* the specification on a reader union: resolves against the picked branch *)
Lemma resolve_pick we re w rbs j b a : env_scoped we = true -> env_scoped re = true ->
  scoped we w = true -> is_union (deref1 we w) = false -> scoped re (SUnion rbs) = true ->
  spec_idx we re w rbs = Some j -> nth_error rbs j = Some b ->
  resolve o we re w (SUnion rbs) a = resolve o we re w (deref1 re b) a /\ resolve o we re w (SUnion rbs) a = resolve o we re w b a.
Proof.
  intros Hew Her Hw Huw Hr Hj Hn.
  destruct (scoped_branch re rbs b Hr (nth_error_In _ _ Hn)) as [Hbs Hbu].
  pose proof (nonunion_deref1 re b Her Hbs Hbu) as Hbu'.
  assert (E : resolve o we re w (SUnion rbs) a = resolve o we re w b a).
  { apply resolve_reader_side; [apply deref_nonunionS; assumption|].
    rewrite (reader_sideS_union we re (deref we w) rbs j b Her (eq_trans (spec_idx_derefS we re w rbs Hew Hw) Hj) Hn Hbs Hbu').
    rewrite (reader_sideS_plain we re (deref we w) b Her Hbs Hbu'). reflexivity. }
  split; [|exact E]. rewrite E. symmetry. apply resolve_deref1_r; assumption.
Qed.

Lemma resolve_no_branch we re m w rbs a : env_scoped we = true -> scoped we w = true -> is_union (deref1 we w) = false ->
  typedn (S m) we w a -> spec_idx we re w rbs = None -> resolve o we re w (SUnion rbs) a = RErrResolution.
Proof.
  intros He Hw Hu Ht Hk. apply (error_no_branch we re w (SUnion rbs) a rbs).
  - apply deref_nonunionS; assumption.
  - eapply fits_gen; eassumption.
  - reflexivity.
  - rewrite pick_branch_idx, (spec_idx_derefS we re w rbs He Hw), Hk. reflexivity.
Qed.

Lemma reader_branch_idx_topS we re wb rbs : env_scoped we = true -> env_scoped re = true ->
  scoped we wb = true -> is_union (deref1 we wb) = false -> scoped re (SUnion rbs) = true ->
  reader_branch_idx (fun l => match_types_top we re l wb) rbs = ROk (spec_idx we re wb rbs).
Proof. intros H1 H2 H3 H4 H5. exact (reader_branch_idx_scoped we re (mfuel wb) wb rbs H1 H2 (proj2 (mfuel_ge wb)) H3 H4 H5). Qed.

Lemma match_types_topS we re wb r : env_scoped we = true -> env_scoped re = true ->
  scoped we wb = true -> scoped re r = true -> match_types_top we re 2 wb r = ROk (smatch we re true wb r).
Proof. intros H1 H2 H3 H4. exact (match_types_scoped we re (mfuel wb) wb r H1 H2 (proj2 (mfuel_ge wb)) H3 H4). Qed.

Lemma topnode_of e s : nonref s = true -> scoped e s = true -> topnode s = true.
Proof. intros Hn Hs. destruct s; try discriminate Hn; try reflexivity. exact Hs. Qed.

Lemma wrap_eq_scoped we re wbs wb rb v : env_scoped we = true -> env_scoped re = true -> scoped we wb = true ->
  (forall b, rb = Some b -> scoped re b = true /\
       (in_named_types (tag_of (deref1 we wb)) = true -> in_named_types (tag_of (deref1 re b)) = true)) ->
  wrap_union_r o we re wbs wb rb v = wrap_spec o we re wbs wb rb v.
Proof.
  intros Hew Her Hw Hb. destruct (deref1_node we wb Hew Hw) as (Hn & Hs & Hd & _). apply wrap_eq_core.
  - apply (topnode_of we); assumption.
  - exact Hd.
  - intros b E. destruct (Hb b E) as [Hbs Hnm]. destruct (deref1_node re b Her Hbs) as (Hnb & Hsb & Hdb & _).
    split; [apply (topnode_of re); assumption|]. split; [exact Hdb|exact Hnm].
Qed.

Lemma smatch_named_scoped we re wb b : env_scoped we = true -> env_scoped re = true ->
  scoped we wb = true -> scoped re b = true -> is_union (deref1 we wb) = false -> is_union (deref1 re b) = false ->
  smatch we re true wb b = true ->
  in_named_types (tag_of (deref1 we wb)) = true -> in_named_types (tag_of (deref1 re b)) = true.
Proof.
  intros Hew Her Hw Hb Huw Hub Hm Hn.
  rewrite <- (smatch_deref1_w we re true wb b Hew Hw), <- (smatch_deref1_r we re true (deref1 we wb) b Her Hb) in Hm.
  destruct (deref1_node we wb Hew Hw) as (Hnw & Hsw & _ & _). destruct (deref1_node re b Her Hb) as (Hnb & Hsb & _ & _).
  set (w' := deref1 we wb) in *. set (b' := deref1 re b) in *. clearbody w' b'.
  dnode w' Hsw Hnw ltw pw; try discriminate Huw; try discriminate Hn;
    dnode b' Hsb Hnb ltb pb; try discriminate Hub; try reflexivity;
    cbn [smatch deref Read.resolve strip named_match prim_match] in Hm; discriminate Hm.
Qed.

Lemma union_pick_unionS we re wb rbs j b : env_scoped we = true -> scoped we wb = true ->
  spec_idx we re wb rbs = Some j -> nth_error rbs j = Some b -> union_pick we re wb (SUnion rbs) = Some b.
Proof.
  intros He Hw Hj Hn. unfold union_pick. cbn [deref Read.resolve strip].
  rewrite pick_branch_idx, (spec_idx_derefS we re wb rbs He Hw), Hj. exact Hn.
Qed.

Theorem rval_resolveS : forall n we w a, typedn n we w a -> forall re r k f, (n <= k)%nat -> (n <= f)%nat ->
  env_scoped we = true -> env_scoped re = true -> scoped we w = true -> scoped re r = true ->
  agreen k we re w r = true ->
  rval f we re o w (Some r) a = resolve o we re w r a.
Proof.
  induction n as [|n IH]; intros we w a Ht re r k f Hk Hf Hew Her Hw Hr Ha; [destruct Ht|].
  destruct f as [|f]; [lia|]. destruct k as [|k]; [lia|].
  assert (Hf' : (n <= f)%nat) by lia. assert (Hk' : (n <= k)%nat) by lia.
  rewrite rval_S.
  destruct (deref1_node re r Her Hr) as (Hnr & Hsr & _ & Hidr).
  destruct (nonref w) eqn:Hnw.
  2:{ (* ---- a by-name reference: one step to its definition *)
    destruct w as [| | | | | | | | | | | | | |nm|]; try discriminate Hnw.
    apply typedn_ref in Ht. destruct Ht as (d & Hl & Ht).
    destruct (lookup_scoped we nm d Hew Hl) as [Hnd Hsd]. destruct (named_core_facts d Hnd) as (Hnrd & Hstrd & Hud & _).
    assert (Hd1 : deref1 we (SRef nm) = d) by (cbn [deref1]; rewrite Hl; reflexivity).
    assert (Huw : is_union (deref1 we (SRef nm)) = false) by (rewrite Hd1; exact Hud).
    rewrite agreen_ref, Hl in Ha. apply andb_prop in Ha. destruct Ha as [Htr Ha].
    destruct n as [|m]; [destruct Ht|].
    assert (Hbody : forall R', rbody f we re o (SRef nm) R' a = rval f we re o d R' a).
    { intros R'. unfold rbody. cbn [strip]. rewrite Hl. destruct (rval f we re o d R' a); reflexivity. }
    assert (Hspec : forall r0, resolve o we re (SRef nm) r0 a = resolve o we re d r0 a).
    { intros r0. rewrite <- (resolve_deref1_w we re (SRef nm) r0 a Hew Hw), Hd1. reflexivity. }
    unfold matched. rewrite (truthy_some r Htr).
    destruct (is_union (deref1 re r)) eqn:Hur.
    - (* reader union *)
      destruct (deref1 re r) as [| | | | | | | | | | | |rbs| | |] eqn:Erd; try discriminate Hur.
      pose proof (deref1_union re r rbs Her Hr Erd) as ->. clear Erd.
      rewrite (match_top_scoped_union we re (SRef nm) rbs Hew Hw Huw), Hd1, reader_branch_nth.
      rewrite (reader_branch_idx_scoped we re (pred (mfuel (SRef nm))) d rbs Hew Her ltac:(destruct d; try discriminate Hnd; cbn; lia) Hsd
                 ltac:(rewrite (deref1_nonref we d Hnrd); exact Hud) Hr).
      rewrite <- Hd1, (spec_idx_deref1 we re (SRef nm) rbs Hew Hw). cbn [rbind].
      destruct (spec_idx we re (SRef nm) rbs) as [j|] eqn:Hj; cbn [nth_opt].
      + destruct (spec_idx_range _ _ _ _ _ Hj) as (b & Hnth). rewrite Hnth in Ha |- *. cbn [rbind].
        destruct (scoped_branch re rbs b Hr (nth_error_In _ _ Hnth)) as [Hbs Hbu].
        destruct (deref1_node re b Her Hbs) as (_ & Hsb' & _ & _).
        rewrite Hbody, (IH we d a Ht re (deref1 re b) k f Hk' Hf' Hew Her Hsd Hsb' Ha), <- Hspec.
        symmetry. apply (resolve_pick we re (SRef nm) rbs j b a Hew Her Hw Huw Hr Hj Hnth).
      + symmetry. apply (resolve_no_branch we re (S m) (SRef nm) rbs a Hew Hw Huw); [|exact Hj].
        apply typedn_ref. exists d. split; [exact Hl|exact Ht].
    - (* reader not a union *)
      assert (Ha2 : (if smatch we re true (SRef nm) r then agreen k we re d (deref1 re r) else true) = true)
        by (destruct (deref1 re r); try discriminate Hur; exact Ha).
      rewrite (match_top_scoped we re (SRef nm) r Hew Her Hw Hr Huw Hur).
      destruct (smatch we re true (SRef nm) r) eqn:Hm; cbn [rbind].
      + rewrite Hbody, (IH we d a Ht re (deref1 re r) k f Hk' Hf' Hew Her Hsd Hsr Ha2), <- Hspec.
        apply resolve_deref1_r; assumption.
      + symmetry. apply (resolve_reject_gen we re (S m) (SRef nm) r a Hew Her Hw Hr Huw Hur); [|exact Hm].
        apply typedn_ref. exists d. split; [exact Hl|exact Ht]. }
  destruct (is_union w) eqn:Hu.
  - (* ---- the writer schema is a union *)
    destruct w as [| | | | | | | | | | | |wbs| | |]; try discriminate Hu.
    destruct a; cbn [typedn] in Ht; try contradiction. destruct Ht as (_ & wb & Hn & Hx).
    rewrite agreen_union in Ha. apply andb_prop in Ha. destruct Ha as [Htr Ha].
    unfold matched. rewrite (truthy_some r Htr), match_top_union_writer. cbn [rbind].
    unfold rbody. cbn [strip]. rewrite Hn.
    assert (Hin : In wb wbs) by (eapply nthZ_In; exact Hn).
    destruct (scoped_branch we wbs wb Hw Hin) as [Hwbs Hwbu].
    pose proof (nonunion_deref1 we wb Hew Hwbs Hwbu) as Hwbu'.
    rewrite forallb_forall in Ha. specialize (Ha wb Hin).
    destruct n as [|m]; [destruct Hx|].
    assert (Hres : resolve o we re (SUnion wbs) r (AUnion i a) =
                   (let+ v := resolve o we re wb r a in wrap_spec o we re wbs wb (union_pick we re wb r) v)).
    { cbn [resolve]; cbv zeta. cbn [deref Read.resolve strip]. rewrite Hn. reflexivity. }
    rewrite Hres.
    destruct (is_union (deref1 re r)) eqn:Hur.
    + destruct (deref1 re r) as [| | | | | | | | | | | |rbs| | |] eqn:Erd; try discriminate Hur.
      pose proof (deref1_union re r rbs Her Hr Erd) as ->. clear Erd.
      rewrite (union_reader_union we re wb rbs Htr), reader_branch_nth.
      rewrite (reader_branch_idx_topS we re wb rbs Hew Her Hwbs Hwbu' Hr). cbn [rbind].
      destruct (spec_idx we re wb rbs) as [j|] eqn:Hj; cbn [nth_opt].
      * destruct (spec_idx_range _ _ _ _ _ Hj) as (b & Hnth). rewrite Hnth in Ha |- *. cbn [rbind].
        destruct (scoped_branch re rbs b Hr (nth_error_In _ _ Hnth)) as [Hbs Hbu].
        pose proof (nonunion_deref1 re b Her Hbs Hbu) as Hbu'.
        rewrite (IH we wb a Hx re b k f Hk' Hf' Hew Her Hwbs Hbs Ha).
        rewrite (union_pick_unionS we re wb rbs j b Hew Hwbs Hj Hnth).
        rewrite (proj2 (resolve_pick we re wb rbs j b a Hew Her Hwbs Hwbu' Hr Hj Hnth)).
        destruct (resolve o we re wb b a) as [v| | |]; cbn [rbind]; try reflexivity.
        rewrite (wrap_eq_scoped we re wbs wb (Some b) v Hew Her Hwbs).
        -- destruct (wrap_spec o we re wbs wb (Some b) v); reflexivity.
        -- intros b0 E. injection E as <-. split; [exact Hbs|].
           apply (smatch_named_scoped we re wb b Hew Her Hwbs Hbs Hwbu' Hbu').
           apply (spec_idx_smatchS we re wb rbs j b Hew Her Hwbs Hwbu' Hr Hj Hnth).
      * rewrite (resolve_no_branch we re m wb rbs a Hew Hwbs Hwbu' Hx Hj). reflexivity.
    + assert (Ha2 : (if smatch we re true wb r then agreen k we re wb (deref1 re r) else true) = true)
        by (destruct (deref1 re r); try discriminate Hur; exact Ha).
      rewrite (union_reader_plain we re wb (deref1 re r) Hur), (match_types_topS we re wb (deref1 re r) Hew Her Hwbs Hsr).
      rewrite (smatch_deref1_r we re true wb r Her Hr). cbn [rbind].
      rewrite (union_pick_plain we re wb r) by (apply deref_nonunionS; assumption).
      destruct (smatch we re true wb r) eqn:Hm; cbn [rbind].
      * rewrite (IH we wb a Hx re (deref1 re r) k f Hk' Hf' Hew Her Hwbs Hsr Ha2), (resolve_deref1_r we re wb r a Her Hr).
        destruct (resolve o we re wb r a) as [v| | |]; cbn [rbind]; try reflexivity.
        rewrite (wrap_eq_scoped we re wbs wb None v Hew Her Hwbs) by (intros b0 E; discriminate E).
        destruct (wrap_spec o we re wbs wb None v); reflexivity.
      * rewrite (resolve_reject_gen we re m wb r a Hew Her Hwbs Hr Hwbu' Hur Hx Hm). reflexivity.
  - (* ---- the writer schema is neither a union nor a reference *)
    assert (Huw : is_union (deref1 we w) = false) by (rewrite (deref1_nonref we w Hnw); exact Hu).
    rewrite (agreen_node k we re w r Hnw Hu) in Ha. apply andb_prop in Ha. destruct Ha as [Htr Ha].
    unfold matched. rewrite (truthy_some r Htr).
    destruct (is_union (deref1 re r)) eqn:Hur.
    + destruct (deref1 re r) as [| | | | | | | | | | | |rbs| | |] eqn:Erd; try discriminate Hur.
      pose proof (deref1_union re r rbs Her Hr Erd) as ->. clear Erd.
      rewrite (match_top_scoped_union we re w rbs Hew Hw Huw), (deref1_nonref we w Hnw), reader_branch_nth.
      rewrite (reader_branch_idx_scoped we re (pred (mfuel w)) w rbs Hew Her (proj1 (mfuel_ge w)) Hw Huw Hr). cbn [rbind].
      destruct (spec_idx we re w rbs) as [j|] eqn:Hj; cbn [nth_opt].
      * destruct (spec_idx_range _ _ _ _ _ Hj) as (b & Hnth). rewrite Hnth in Ha |- *. cbn [rbind].
        destruct (scoped_branch re rbs b Hr (nth_error_In _ _ Hnth)) as [Hbs Hbu].
        destruct (deref1_node re b Her Hbs) as (Hnb' & Hsb' & _ & _).
        pose proof (nonunion_deref1 re b Her Hbs Hbu) as Hbu'.
        pose proof (spec_idx_smatchS we re w rbs j b Hew Her Hw Huw Hr Hj Hnth) as Hm.
        rewrite <- (smatch_deref1_r we re true w b Her Hbs) in Hm.
        rewrite (body_agreeS n IH we re w (deref1 re b) a k f Ht Hk' Hf' Hew Her Hnw Hw Hnb' Hsb' Hu Hbu' Hm Ha).
        symmetry. apply (resolve_pick we re w rbs j b a Hew Her Hw Huw Hr Hj Hnth).
      * symmetry. apply (resolve_no_branch we re n w rbs a Hew Hw Huw Ht Hj).
    + assert (Ha2 : (if smatch we re true w r then node_ok k we re w (deref1 re r) else true) = true)
        by (destruct (deref1 re r); try discriminate Hur; exact Ha).
      rewrite (match_top_scoped we re w r Hew Her Hw Hr Huw Hur).
      destruct (smatch we re true w r) eqn:Hm; cbn [rbind].
      * rewrite <- (smatch_deref1_r we re true w r Her Hr) in Hm.
        rewrite (body_agreeS n IH we re w (deref1 re r) a k f Ht Hk' Hf' Hew Her Hnw Hw Hnr Hsr Hu Hur Hm Ha2).
        apply resolve_deref1_r; assumption.
      * symmetry. apply (resolve_reject_gen we re n w r a Hew Her Hw Hr Huw Hur Ht Hm).
Qed.

(** reading with a reader schema = decode, then the SPECIFICATION, with by-name references *)
Theorem rdec_resolve_zoneS : forall n we w a, typedn n we w a ->
  forall re r k f x, (n <= k)%nat -> (n <= f)%nat ->
  env_scoped we = true -> env_scoped re = true -> scoped we w = true -> scoped re r = true ->
  agreen k we re w r = true ->
  rdec f we re o w (Some r) (wire a ++ x) = lift x (resolve o we re w r a).
Proof.
  intros n we w a Ht re r k f x Hk Hf Hew Her Hw Hr Ha.
  rewrite (rdec_rval_wire n we w a Ht f Hf re o (Some r) x).
  rewrite (rval_resolveS n we w a Ht re r k f Hk Hf Hew Her Hw Hr Ha). reflexivity.
Qed.


(** reader == writer through the code, with by-name references (recursive types included) *)
Theorem rdec_identity_zoneS : forall n e s a, typedn n e s a -> wf_ident n e s ->
  env_scoped e = true -> scoped e s = true ->
  forall k f x, (n <= k)%nat -> (n <= f)%nat -> agreen k e e s s = true ->
  exists v, py_of o e s a = Some v /\ rdec f e e o s (Some s) (wire a ++ x) = ROk (v, x).
Proof.
  intros n e s a Ht Hwf He Hs k f x Hk Hf Ha. destruct (resolve_identity n e s a Ht Hwf) as (v & H1 & H2).
  exists v. split; [exact H1|].
  rewrite (rdec_resolve_zoneS n e s a Ht e s k f x Hk Hf He He Hs Hs Ha), H2. reflexivity.
Qed.


End Opts.

(* ------------------------------------------------------------------------------------------ *)
(** * Part D3: the zone with references, independent of the depth: monotonicity of [agreen] in its depth, and the
    closed-set certificate [agree_all] (a finite set of schema pairs, closed under the pairs visited next) *)
Open Scope Z_scope.
Lemma agreen_S k we re w r : agreen (S k) we re w r = agree_step (agreen k we re) we re w r.
Proof. reflexivity. Qed.

Lemma on_reader_mono we re w r (f1 g1 f2 g2 : schema -> bool) :
  (forall b, f1 b = true -> f2 b = true) -> (forall b, g1 b = true -> g2 b = true) ->
  on_reader we re w r f1 g1 = true -> on_reader we re w r f2 g2 = true.
Proof.
  intros Hf Hg. unfold on_reader.
  destruct (deref1 re r); try (destruct (smatch we re true w r); [apply Hg|trivial]).
  destruct (spec_idx we re w bs) as [j|]; [|trivial]. destruct (nth_error bs j); [apply Hf|trivial].
Qed.

Lemma agree_step_mono (f g : schema -> schema -> bool) we re w r :
  (forall a b, f a b = true -> g a b = true) ->
  agree_step f we re w r = true -> agree_step g we re w r = true.
Proof.
  intros IH H. unfold agree_step in H |- *.
  apply andb_prop in H. destruct H as [Htr H]. rewrite Htr. cbn [andb].
  assert (Hrec : forall wfs rfs,
     forallb (fun wf => match reader_field rfs (fname wf) with
                        | Some rf => f (ftype wf) (ftype rf)
                        | None => true end) wfs && defaults_ok re rfs = true ->
     forallb (fun wf => match reader_field rfs (fname wf) with
                        | Some rf => g (ftype wf) (ftype rf)
                        | None => true end) wfs && defaults_ok re rfs = true).
  { intros wfs rfs Hn. apply andb_prop in Hn. destruct Hn as [Hf Hd]. rewrite Hd, andb_true_r.
    rewrite forallb_forall in Hf |- *. intros wf Hin. specialize (Hf wf Hin).
    destruct (reader_field rfs (fname wf)); [apply IH; exact Hf|reflexivity]. }
  destruct w; cbv beta iota in H |- *;
    try (eapply on_reader_mono; [| |exact H]; cbv beta; intros b Hb;
         solve [ exact Hb
               | destruct (deref1 re b); solve [exact Hb | apply IH; exact Hb | apply Hrec; exact Hb]
               | destruct b; solve [exact Hb | apply IH; exact Hb | apply Hrec; exact Hb] ]).
  all: try (destruct (lookup we n) as [wd|]; [|discriminate H];
    eapply on_reader_mono; [| |exact H]; intros b Hb; apply IH; exact Hb).
  all: rewrite forallb_forall in H |- *; intros wb Hin; specialize (H wb Hin);
    eapply on_reader_mono; [| |exact H]; intros b Hb; apply IH; exact Hb.
Qed.

(** checking deeper implies checking less deep *)
Lemma agreen_anti : forall k we re w r, agreen (S k) we re w r = true -> agreen k we re w r = true.
Proof.
  induction k as [|k IH]; intros we re w r H; [reflexivity|].
  rewrite agreen_S in H |- *. revert H. apply agree_step_mono. intros a b. apply IH.
Qed.
Lemma agreen_le k k' we re w r : (k <= k')%nat -> agreen k' we re w r = true -> agreen k we re w r = true.
Proof. induction 1 as [|k' _ IH]; intros H; [exact H|]. apply IH. apply agreen_anti. exact H. Qed.

(** structural equality is equality *)
Lemma py_eqb_eq : forall a b, py_eqb a b = true -> a = b.
Proof.
  fix IH 1. intros a b; destruct a; destruct b; cbn; try discriminate; intros H; try reflexivity.
  - f_equal. apply Bool.eqb_prop. exact H.
  - f_equal. lia.
  - f_equal. lia.
  - f_equal. apply bytes_eqb_eq; exact H.
  - f_equal. apply bytes_eqb_eq; exact H.
  - f_equal. apply bytes_eqb_eq; exact H.
  - f_equal. revert l0 H. induction l as [|x l IHl]; intros [|y l0] H; try discriminate; auto.
    apply andb_prop in H as [H1 H2]. f_equal; [apply IH; exact H1 | apply IHl; exact H2].
  - f_equal. revert l0 H. induction l as [|x l IHl]; intros [|y l0] H; try discriminate; auto.
    apply andb_prop in H as [H1 H2]. f_equal; [apply IH; exact H1 | apply IHl; exact H2].
  - f_equal. revert kv0 H. induction kv as [|[k x] l IHl]; intros [|[k' y] l0] H; try discriminate; auto.
    apply andb_prop in H as [H1 H2]. apply andb_prop in H1 as [H0 H1].
    f_equal; [f_equal; apply IH; assumption | apply IHl; exact H2].
Qed.
Lemma sl_eqb_eq : forall a b, sl_eqb a b = true -> a = b.
Proof.
  induction a as [|x a IH]; intros [|y b] H; cbn in H; try discriminate; auto.
  apply andb_prop in H as [H1 H2]. f_equal; [apply bytes_eqb_eq; exact H1|auto].
Qed.
Lemma o_eqb_eq {A} (eq : A -> A -> bool) : (forall a b, eq a b = true -> a = b) ->
  forall a b, o_eqb eq a b = true -> a = b.
Proof. intros He [a|] [b|] H; cbn in H; try discriminate; auto. f_equal; auto. Qed.

Lemma sch_eqb_eq : forall a b, sch_eqb a b = true -> a = b.
Proof.
  fix IH 1. intros a b; destruct a; destruct b; cbn; try discriminate; intros H; try reflexivity.
  - repeat (apply andb_prop in H as [H ?]). f_equal; [apply bytes_eqb_eq|apply sl_eqb_eq|lia]; assumption.
  - repeat (apply andb_prop in H as [H ?]).
    f_equal; [apply bytes_eqb_eq|apply sl_eqb_eq|apply sl_eqb_eq|apply (o_eqb_eq _ bytes_eqb_eq)]; assumption.
  - f_equal. apply IH; exact H.
  - f_equal. apply IH; exact H.
  - f_equal. revert bs0 H. induction bs as [|x l IHl]; intros [|y l0] H; try discriminate; auto.
    apply andb_prop in H as [H1 H2]. f_equal; [apply IH; exact H1 | apply IHl; exact H2].
  - apply andb_prop in H as [H H3]. apply andb_prop in H as [H1 H2].
    f_equal; [apply bytes_eqb_eq; assumption|apply sl_eqb_eq; assumption|].
    clear H1 H2. revert fs0 H3. induction fs as [|x l IHl]; intros [|y l0] H; try discriminate; auto.
    repeat (apply andb_prop in H as [H ?]).
    f_equal; [|apply IHl; assumption].
    destruct x as [xn xt xd xa], y as [yn yt yd ya]; cbn in *.
    f_equal; [apply bytes_eqb_eq|apply IH|apply (o_eqb_eq _ py_eqb_eq)|apply sl_eqb_eq]; assumption.
  - f_equal. apply bytes_eqb_eq; exact H.
  - apply andb_prop in H as [H1 H2]. f_equal; [apply bytes_eqb_eq; exact H1|apply IH; exact H2].
Qed.

Lemma memp_In p S : memp p S = true -> In p S.
Proof.
  unfold memp. rewrite existsb_exists. intros (q & Hin & Hq). unfold pair_eqb in Hq.
  apply andb_prop in Hq as [H1 H2]. apply sch_eqb_eq in H1, H2. destruct p, q; cbn in *. subst. exact Hin.
Qed.

(** a closed set of pairs lies in the zone at every depth *)
Lemma closed_agreen we re S : closedb we re S = true ->
  forall k w r, memp (w, r) S = true -> agreen k we re w r = true.
Proof.
  intros Hc. induction k as [|k IH]; intros w r Hm; [reflexivity|].
  rewrite agreen_S. unfold closedb in Hc. rewrite forallb_forall in Hc.
  specialize (Hc (w, r) (memp_In _ _ Hm)). cbn [fst snd] in Hc.
  revert Hc. apply agree_step_mono. intros a b. apply IH.
Qed.

Theorem agree_all_agreen we re w r : agree_all we re w r = true -> forall k, agreen k we re w r = true.
Proof.
  unfold agree_all. intros H k. apply andb_prop in H as [Hm Hc]. exact (closed_agreen we re _ Hc k w r Hm).
Qed.


(** reading with a reader schema = decode, then the SPECIFICATION, with by-name references, for values of any height *)
Theorem rval_resolveS_all : forall o n we w a, typedn n we w a -> forall re r f, (n <= f)%nat ->
  env_scoped we = true -> env_scoped re = true -> scoped we w = true -> scoped re r = true ->
  agree_all we re w r = true ->
  rval f we re o w (Some r) a = resolve o we re w r a.
Proof.
  intros o n we w a Ht re r f Hf Hew Her Hw Hr Ha.
  exact (rval_resolveS o n we w a Ht re r n f (le_n n) Hf Hew Her Hw Hr (agree_all_agreen we re w r Ha n)).
Qed.

Theorem rdec_resolve_zoneS_all : forall o n we w a, typedn n we w a ->
  forall re r f x, (n <= f)%nat ->
  env_scoped we = true -> env_scoped re = true -> scoped we w = true -> scoped re r = true ->
  agree_all we re w r = true ->
  rdec f we re o w (Some r) (wire a ++ x)%list = lift x (resolve o we re w r a).
Proof.
  intros o n we w a Ht re r f x Hf Hew Her Hw Hr Ha.
  exact (rdec_resolve_zoneS o n we w a Ht re r n f x (le_n n) Hf Hew Her Hw Hr (agree_all_agreen we re w r Ha n)).
Qed.

(** the well-formedness needed for the identity, independent of the depth: the conditions of [wf_ident] on the schema
    itself and on every definition of the table *)
Fixpoint wf_local (e : env) (s : schema) {struct s} : Prop :=
  match s with
  | SArray s' | SMap s' => wf_local e s' /\ smatch e e true s' s' = true
  | SUnion bs => (fix go (bs : list schema) : Prop :=
                    match bs with [] => True | b :: bs => wf_local e b /\ go bs end) bs /\ union_ok e bs
  | SRecord _ _ fs => (fix go (fs : list field) : Prop :=
                    match fs with [] => True | f :: fs => wf_local e (ftype f) /\ go fs end) fs /\ fields_ok fs
  | SRef nm => exists d, lookup e nm = Some d /\ deref e d = strip d
  | SAnnot _ s' => wf_local e s'
  | _ => True
  end.
Definition wf_env (e : env) : Prop := Forall (fun nd => wf_local e (snd nd)) e.

Lemma lookup_In e nm : forall d, lookup e nm = Some d -> exists k, In (k, d) e.
Proof.
  induction e as [|[k s] e IH]; intros d H; cbn in H; [discriminate|].
  destruct (bytes_eqb k nm).
  - injection H as <-. exists k. left. reflexivity.
  - destruct (IH d H) as (k' & Hin). exists k'. right. exact Hin.
Qed.

Lemma wf_local_ident e : wf_env e -> forall n s, wf_local e s -> wf_ident n e s.
Proof.
  intros He. induction n as [|n IH]; intros s H; [exact I|].
  destruct s; try exact I; cbn [wf_ident]; cbn [wf_local] in H.
  - destruct H as [H1 H2]. split; [apply IH; exact H1|exact H2].
  - destruct H as [H1 H2]. split; [apply IH; exact H1|exact H2].
  - destruct H as [H1 H2]. split; [|exact H2]. clear H2.
    induction bs as [|b bs IHb]; constructor; [apply IH; apply H1|apply IHb; apply H1].
  - destruct H as [H1 H2]. split; [|exact H2]. clear H2.
    induction fs as [|b bs IHb]; constructor; [apply IH; apply H1|apply IHb; apply H1].
  - destruct H as (d & H1 & H2). exists d. split; [exact H1|split; [exact H2|]]. apply IH.
    destruct (lookup_In e n0 d H1) as (k & Hin). unfold wf_env in He. rewrite Forall_forall in He.
    exact (He _ Hin).
  - apply IH. exact H.
Qed.

(** reader == writer through the code, with by-name references (recursive types included), values of any height *)
Theorem rdec_identity_zoneS_all : forall o n e s a, typedn n e s a -> wf_env e -> wf_local e s ->
  env_scoped e = true -> scoped e s = true -> agree_all e e s s = true ->
  forall f x, (n <= f)%nat ->
  exists v, py_of o e s a = Some v /\ rdec f e e o s (Some s) (wire a ++ x)%list = ROk (v, x).
Proof.
  intros o n e s a Ht He Hl Hes Hs Ha f x Hf.
  exact (rdec_identity_zoneS o n e s a Ht (wf_local_ident e He n s Hl) Hes Hs n f x (le_n n) Hf
           (agree_all_agreen e e s s Ha n)).
Qed.


From Coq Require Import String.
Open Scope string_scope. Open Scope Z_scope.
(* ------------------------------------------------------------------------------------------ *)
(** * Part E: concrete witnesses (by computation): the inputs on which the code USED TO leave the specification
      (the refutations about the old code are in proofs/ResolveOldProofs.v) now agree with it *)

Ltac typed_tac :=
  repeat first
    [ exact I
    | progress cbn [typedn ftype fst snd nthZ lookup bytes_eqb s2b]
    | split
    | apply Forall_nil | apply Forall_cons | apply Forall2_nil | apply Forall2_cons
    | (eexists; split; [reflexivity|])
    | progress (unfold in_int32, in_int64, is_byte, bytes_ok, key_ok, len; cbn [length])
    | lia
    | reflexivity ].

Definition fld (n : str) (s : schema) : field := mkField n s None [].
Definition fldd (n : str) (s : schema) (d : pyval) : field := mkField n s (Some d) [].


(** F6: writer "bytes", reader ["string","bytes"] *)
Definition f6_r := SUnion [SString; SBytes].
Definition f6_a := ABytes [97; 98; 99].
Lemma typed_F6 : typedn 1 [] SBytes f6_a. Proof. typed_tac. Qed.
Lemma fixed_F6 :
  rdec 3 [] [] ropts0 SBytes (Some f6_r) (wire f6_a) = ROk (PBytes [97; 98; 99], []) /\
  resolve ropts0 [] [] SBytes f6_r f6_a = ROk (PBytes [97; 98; 99]).
Proof. split; vm_compute; reflexivity. Qed.

(** F7: the writer defines fixed F at field x and refers to it at y; the reader the other way round *)
Definition F4 := SFixed (s2b "F") [] 4.
Definition f7_w := SRecord (s2b "R") [] [fld (s2b "x") F4; fld (s2b "y") (SRef (s2b "F"))].
Definition f7_r := SRecord (s2b "R") [] [fld (s2b "y") F4; fld (s2b "x") (SRef (s2b "F"))].
Definition f7_we : env := [(s2b "R", f7_w); (s2b "F", F4)].
Definition f7_re : env := [(s2b "R", f7_r); (s2b "F", F4)].
Definition f7_a := ARecord [AFixed [1; 2; 3; 4]; AFixed [5; 6; 7; 8]].
Definition f7_out := PDict [(PStr (s2b "x"), PBytes [1; 2; 3; 4]); (PStr (s2b "y"), PBytes [5; 6; 7; 8])].
Lemma typed_F7 : typedn 3 f7_we f7_w f7_a. Proof. typed_tac. Qed.
Lemma fixed_F7 :
  rdec 5 f7_we f7_re ropts0 f7_w (Some f7_r) (wire f7_a) = ROk (f7_out, []) /\
  resolve ropts0 f7_we f7_re f7_w f7_r f7_a = ROk f7_out.
Proof. split; vm_compute; reflexivity. Qed.

(** the writer refers to enum E by name where the reader has a union with the inline definition *)
Definition EAB := SEnum (s2b "E") [] [s2b "A"; s2b "B"] None.
Definition g1_w := SRecord (s2b "R") [] [fld (s2b "x") EAB; fld (s2b "y") (SRef (s2b "E"))].
Definition g1_r := SRecord (s2b "R") [] [fld (s2b "y") (SUnion [SNull; EAB])].
Definition g1_we : env := [(s2b "R", g1_w); (s2b "E", EAB)].
Definition g1_re : env := [(s2b "R", g1_r); (s2b "E", EAB)].
Definition g1_a := ARecord [AEnum 0; AEnum 1].
Definition g1_out := PDict [(PStr (s2b "y"), PStr (s2b "B"))].
Lemma typed_g1 : typedn 3 g1_we g1_w g1_a. Proof. typed_tac. Qed.
Lemma fixed_ref_vs_union_inline :
  rdec 5 g1_we g1_re ropts0 g1_w (Some g1_r) (wire g1_a) = ROk (g1_out, []) /\
  resolve ropts0 g1_we g1_re g1_w g1_r g1_a = ROk g1_out.
Proof. split; vm_compute; reflexivity. Qed.

(** the kind of a named type: record against enum, fixed against record of the same name *)
Definition g2_w := SRecord (s2b "R") [] [fld (s2b "x") SInt].
Definition g2_r := SEnum (s2b "R") [] [s2b "A"] None.
Definition g2b_r := SRecord (s2b "F") [] [].
Lemma typed_g2 : typedn 2 [(s2b "R", g2_w)] g2_w (ARecord [AInt 1]). Proof. typed_tac. Qed.
Lemma typed_g2b : typedn 1 [(s2b "F", F4)] F4 (AFixed [1; 2; 3; 4]). Proof. typed_tac. Qed.
Lemma fixed_kind :
  rdec 5 [(s2b "R", g2_w)] [(s2b "R", g2_r)] ropts0 g2_w (Some g2_r) (wire (ARecord [AInt 1])) = RErrResolution /\
  resolve ropts0 [(s2b "R", g2_w)] [(s2b "R", g2_r)] g2_w g2_r (ARecord [AInt 1]) = RErrResolution /\
  rdec 5 [(s2b "F", F4)] [(s2b "F", g2b_r)] ropts0 F4 (Some g2b_r) (wire (AFixed [1; 2; 3; 4])) = RErrResolution /\
  resolve ropts0 [(s2b "F", F4)] [(s2b "F", g2b_r)] F4 g2b_r (AFixed [1; 2; 3; 4]) = RErrResolution.
Proof. repeat split; vm_compute; reflexivity. Qed.

(** the JSON default of a reader-only bytes field *)
Definition g3_w := SRecord (s2b "R") [] [fld (s2b "x") SInt].
Definition g3_r := SRecord (s2b "R") [] [fld (s2b "x") SInt; fldd (s2b "b") SBytes (PStr [195; 191])].
Definition g3_out := PDict [(PStr (s2b "x"), PInt 1); (PStr (s2b "b"), PBytes [255])].
Lemma typed_g3 : typedn 2 [(s2b "R", g3_w)] g3_w (ARecord [AInt 1]). Proof. typed_tac. Qed.
Lemma fixed_default_bytes :
  rdec 5 [(s2b "R", g3_w)] [(s2b "R", g3_r)] ropts0 g3_w (Some g3_r) (wire (ARecord [AInt 1])) = ROk (g3_out, []) /\
  resolve ropts0 [(s2b "R", g3_w)] [(s2b "R", g3_r)] g3_w g3_r (ARecord [AInt 1]) = ROk g3_out.
Proof. split; vm_compute; reflexivity. Qed.

(** int -> float: 16777217 is not a binary32 value *)
Lemma typed_g4 : typedn 1 [] SInt (AInt 16777217). Proof. typed_tac. Qed.
Lemma fixed_int_to_float :
  rdec 3 [] [] ropts0 SInt (Some SFloat) (wire (AInt 16777217)) = ROk (PFloat 4715268809856909312, []) /\
  resolve ropts0 [] [] SInt SFloat (AInt 16777217) = ROk (PFloat 4715268809856909312).
Proof. split; vm_compute; reflexivity. Qed.

(** reader == writer: a union of two records with the same unqualified name *)
Definition g5_a := SRecord (s2b "a.R") [] [fld (s2b "x") SInt].
Definition g5_b := SRecord (s2b "b.R") [] [fld (s2b "y") SString].
Definition g5_u := SUnion [g5_a; g5_b].
Definition g5_e : env := [(s2b "a.R", g5_a); (s2b "b.R", g5_b)].
Definition g5_v := AUnion 1 (ARecord [AString [104; 105]]).
Definition g5_out := PDict [(PStr (s2b "y"), PStr [104; 105])].
Lemma typed_g5 : typedn 3 g5_e g5_u g5_v. Proof. typed_tac. Qed.
Lemma fixed_identity_same_unqualified_name :
  rdec 5 g5_e g5_e ropts0 g5_u (Some g5_u) (wire g5_v) = ROk (g5_out, []) /\
  resolve ropts0 g5_e g5_e g5_u g5_u g5_v = ROk g5_out /\
  py_of ropts0 g5_e g5_u g5_v = Some g5_out.
Proof. repeat split; vm_compute; reflexivity. Qed.

(** two by-name references: fixed F of size 4 against F of size 5, empty array *)
Definition F5 := SFixed (s2b "F") [] 5.
Definition g6_w := SRecord (s2b "R") [] [fld (s2b "u") (SUnion [SNull; F4]); fld (s2b "xs") (SArray (SRef (s2b "F")))].
Definition g6_r := SRecord (s2b "R") [] [fld (s2b "u") (SUnion [SNull; F5]); fld (s2b "xs") (SArray (SRef (s2b "F")))].
Definition g6_a := ARecord [AUnion 0 ANull; AArray []].
Lemma typed_g6 : typedn 3 [(s2b "R", g6_w); (s2b "F", F4)] g6_w g6_a. Proof. typed_tac. Qed.
Lemma fixed_refs_by_name_only :
  rdec 5 [(s2b "R", g6_w); (s2b "F", F4)] [(s2b "R", g6_r); (s2b "F", F5)] ropts0 g6_w (Some g6_r) (wire g6_a) = RErrResolution /\
  resolve ropts0 [(s2b "R", g6_w); (s2b "F", F4)] [(s2b "R", g6_r); (s2b "F", F5)] g6_w g6_r g6_a = RErrResolution.
Proof. split; vm_compute; reflexivity. Qed.

(** *** a non-trivial pair on which code and specification agree: fields reordered, one renamed with an alias and
        promoted string -> bytes, one reader-only field with a default, int -> double, a writer-only array field
        ahead of the retained ones (skipped: the stream stays aligned), trailing bytes left on the stream *)
Definition ex_w := SRecord (s2b "R") []
  [fld (s2b "a") (SArray SString); fld (s2b "b") SInt; fld (s2b "c") SString].
Definition ex_r := SRecord (s2b "ns.R") []
  [mkField (s2b "c2") SBytes None [s2b "c"]; fldd (s2b "d") SLong (PInt 9); fld (s2b "b") SDouble].
Definition ex_a := ARecord [AArray [AString [120]; AString [121; 121]]; AInt 3; AString [104; 195; 169]].
Definition ex_out := PDict [(PStr (s2b "b"), PFloat 4613937818241073152); (PStr (s2b "c2"), PBytes [104; 195; 169]);
                            (PStr (s2b "d"), PInt 9)].
Lemma example_agree :
  typedn 3 [(s2b "R", ex_w)] ex_w ex_a /\
  wire ex_a = [4; 2; 120; 4; 121; 121; 0; 6; 6; 104; 195; 169] /\
  rdec 5 [(s2b "R", ex_w)] [(s2b "ns.R", ex_r)] ropts0 ex_w (Some ex_r) (wire ex_a ++ [7; 7])%list = ROk (ex_out, [7; 7]) /\
  resolve ropts0 [(s2b "R", ex_w)] [(s2b "ns.R", ex_r)] ex_w ex_r ex_a = ROk ex_out.
Proof. split; [typed_tac|split; [|split]; vm_compute; reflexivity]. Qed.

(** the example pair and the inline witnesses lie inside the agreement zone *)
Lemma example_in_zone : inline ex_w = true /\ inline ex_r = true /\ agree [(s2b "R", ex_w)] [(s2b "ns.R", ex_r)] ex_w ex_r = true.
Proof. repeat split; vm_compute; reflexivity. Qed.

Lemma witnesses_in_zone :
  agree [] [] SBytes f6_r = true /\
  agree [(s2b "R", g2_w)] [(s2b "R", g2_r)] g2_w g2_r = true /\
  agree [(s2b "F", F4)] [(s2b "F", g2b_r)] F4 g2b_r = true /\
  agree [(s2b "R", g3_w)] [(s2b "R", g3_r)] g3_w g3_r = true /\
  agree [] [] SInt SFloat = true /\
  agree g5_e g5_e g5_u g5_u = true.
Proof. repeat split; vm_compute; reflexivity. Qed.

(** the witnesses with by-name references lie inside the zone with references *)
Lemma ref_witnesses_in_zone :
  (env_scoped f7_we && env_scoped f7_re && scoped f7_we f7_w && scoped f7_re f7_r && agreen 6 f7_we f7_re f7_w f7_r = true) /\
  (env_scoped g1_we && env_scoped g1_re && scoped g1_we g1_w && scoped g1_re g1_r && agreen 6 g1_we g1_re g1_w g1_r = true).
Proof. split; vm_compute; reflexivity. Qed.

(** a recursive type: a linked list read with a reader that promotes the payload and adds a field *)
Definition ll_next := SUnion [SNull; SRef (s2b "Node")].
Definition ll_w := SRecord (s2b "Node") [] [fld (s2b "v") SInt; fld (s2b "next") ll_next].
Definition ll_r := SRecord (s2b "Node") [] [fldd (s2b "tag") SString (PStr (s2b "t")); fld (s2b "next") ll_next; fld (s2b "v") SLong].
Definition ll_we : env := [(s2b "Node", ll_w)].
Definition ll_re : env := [(s2b "Node", ll_r)].
Lemma ll_in_zone :
  env_scoped ll_we && env_scoped ll_re && scoped ll_we ll_w && scoped ll_re ll_r && agree_all ll_we ll_re ll_w ll_r = true /\
  env_scoped ll_we && scoped ll_we ll_w && agree_all ll_we ll_we ll_w ll_w = true.
Proof. split; vm_compute; reflexivity. Qed.
Lemma ll_union_ok : union_ok ll_we [SNull; SRef (s2b "Node")].
Proof.
  intros i b Hn. cbn [nthZ] in Hn.
  destruct (i =? 0); [injection Hn as <-; split; [reflexivity|eexists; split; vm_compute; reflexivity]|].
  destruct (i <? 0); [discriminate|]. destruct (i - 1 =? 0); [|destruct (i - 1 <? 0); discriminate].
  injection Hn as <-; split; [reflexivity|eexists; split; vm_compute; reflexivity].
Qed.
Lemma ll_wf : wf_env ll_we /\ wf_local ll_we ll_w.
Proof.
  assert (H : wf_local ll_we ll_w).
  { unfold ll_w, ll_next. cbn [wf_local ftype fld].
    split; [|repeat constructor]. split; [exact I|]. split; [|exact I]. split; [|exact ll_union_ok].
    split; [exact I|]. split; [|exact I]. eexists; split; vm_compute; reflexivity. }
  split; [constructor; [exact H|constructor]|exact H].
Qed.

(* any list, of any length, is read as the specification says; one of length 3 by computation *)
Lemma ll_any_length : forall o n a, typedn n ll_we ll_w a -> forall f x, (n <= f)%nat ->
  rdec f ll_we ll_re o ll_w (Some ll_r) (wire a ++ x)%list = lift x (resolve o ll_we ll_re ll_w ll_r a).
Proof.
  intros o n a Ht f x Hf. destruct ll_in_zone as [H _].
  repeat (apply andb_prop in H as [H ?]).
  apply (rdec_resolve_zoneS_all o n ll_we ll_w a Ht ll_re ll_r f x Hf); assumption.
Qed.
Definition ll_a := ARecord [AInt 1; AUnion 1 (ARecord [AInt 2; AUnion 1 (ARecord [AInt 3; AUnion 0 ANull])])].
Definition ll_node (v : Z) (next : pyval) :=
  PDict [(PStr (s2b "v"), PInt v); (PStr (s2b "next"), next); (PStr (s2b "tag"), PStr (s2b "t"))].
Lemma ll_three :
  rdec 12 ll_we ll_re ropts0 ll_w (Some ll_r) (wire ll_a) = ROk (ll_node 1 (ll_node 2 (ll_node 3 PNone)), []).
Proof. vm_compute. reflexivity. Qed.
