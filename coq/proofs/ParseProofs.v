(** Facts about the parser model: the code's naming functions agree with the
    specification's, inversion of successful parses, and the invariants that
    tie the parser's state to the specification's document-order definitions. *)
From Coq Require Import String Ascii Lia ZifyBool.
From FA Require Import model.Base model.Json model.Parse model.SchemaSpec model.Canon proofs.JsonProofs.
Open Scope string_scope.

(** ---- the code's naming functions are the specification's ---- *)
Lemma is_prim_spec s : is_prim s = spec_is_prim s.
Proof.
  unfold is_prim, spec_is_prim, mem, PRIMITIVES, spec_prims. cbn [existsb].
  repeat match goal with |- context [String.eqb s ?x] => destruct (String.eqb s x) end; reflexivity.
Qed.

Lemma qualify_spec ns s : qualify ns s = spec_ref ns s.
Proof.
  unfold qualify, spec_ref. destruct (has_dot s); cbn [negb andb]; [reflexivity|].
  destruct (String.eqb ns ""); reflexivity.
Qed.

Lemma schema_name_spec kv ns ns' full :
  schema_name kv ns = POk (ns', full) ->
  full = spec_fullname ns kv /\ ns' = spec_namespace ns kv /\ jget "name" kv = Some (JStr (spec_name kv)).
Proof.
  unfold schema_name, spec_fullname, spec_namespace, spec_space, spec_name.
  destruct (jget "name" kv) as [[| | | |name| |]|]; try discriminate.
  destruct (has_dot name).
  - intros H. injection H as <- <-. auto.
  - destruct (jget "namespace" kv) as [[| | | |s| |]|]; try discriminate.
    + rewrite String.eqb_refl. intros H. injection H as <- <-. auto.
    + destruct (String.eqb s "") eqn:E; intros H; injection H as <- <-; auto.
      apply String.eqb_eq in E. subst. auto.
    + destruct (String.eqb ns "") eqn:E; intros H; injection H as <- <-; auto.
      apply String.eqb_eq in E. subst. auto.
Qed.

(** ---- inversion of successful parses ---- *)
Ltac pinv H :=
  repeat match type of H with
         | pbind ?e _ = POk _ => let E := fresh "E" in destruct e eqn:E; cbn [pbind] in H; try discriminate H
         | (let (_, _) := ?x in _) = POk _ => destruct x
         | (if ?c then _ else _) = POk _ => let E := fresh "E" in destruct c eqn:E; try discriminate H
         | match ?e with _ => _ end = POk _ => let E := fresh "E" in destruct e eqn:E; try discriminate H
         end.

(* the dict every branch starts from: custom attributes, "type", "doc" *)
Definition base_of (kv : list (string * json)) (ty : json) : list (string * json) :=
  copy_prop "doc" kv (jset "type" ty (jdrop RESERVED_PROPERTIES kv)).

Definition declared (full : string) (st : pstate) : pstate :=
  mkst (st_names st ++ [full]) (st_tbl st).

Definition fields_list (kv : list (string * json)) (fl : list json) : Prop :=
  jget "fields" kv = Some (JArr fl) \/ (jget "fields" kv = None /\ fl = []).

(* the dict a record starts from: base plus the kept null namespace *)
Definition rbase (kv : list (string * json)) (t full ns : string) : list (string * json) :=
  keep_null_ns full ns (base_of kv (JStr t)).

Definition mark (wh : bool) (reckv : list (string * json)) : json :=
  if wh then JObj (jset "__named_schemas" JNull (jset "__fastavro_parsed" (JBool true) reckv)) else JObj reckv.

Section Inv.
  Variable rec : recfun.

  Inductive members_ok (ns : string) : list json -> pstate -> list json -> pstate -> Prop :=
  | MNil st : members_ok ns [] st [] st
  | MCons s r st p st1 ps st2 :
      rec s ns false st None = POk (p, st1) -> members_ok ns r st1 ps st2 ->
      members_ok ns (s :: r) st (p :: ps) st2.

  Lemma parse_members_inv ns l : forall st ps st',
    parse_members rec ns l st = POk (ps, st') -> members_ok ns l st ps st'.
  Proof.
    induction l as [|s r IH]; intros st ps st' H; cbn [parse_members] in H.
    - injection H as <- <-. constructor.
    - pinv H. injection H as <- <-. econstructor; eauto.
  Qed.

  Inductive field_ok (ns : string) : json -> pstate -> json -> pstate -> Prop :=
  | FOk fkv nm ty st p st1 :
      jget "name" fkv = Some nm -> jget "type" fkv = Some ty ->
      rec ty ns false st (jget "default" fkv) = POk (p, st1) ->
      field_ok ns (JObj fkv) st
               (JObj (jset "type" p (jset "name" nm
                  (copy_prop "doc" fkv (copy_prop "aliases" fkv (copy_prop "default" fkv
                     (jdrop RESERVED_FIELD_PROPERTIES fkv))))))) st1.

  Lemma parse_field_inv ns fd st p st' :
    parse_field rec ns fd st = POk (p, st') -> field_ok ns fd st p st'.
  Proof.
    unfold parse_field. intros H. destruct fd; try discriminate H.
    pinv H; injection H as <- <-; econstructor; eauto.
  Qed.

  Inductive fields_ok (ns : string) : list json -> pstate -> list json -> pstate -> Prop :=
  | FNil st : fields_ok ns [] st [] st
  | FCons fd r st p st1 ps st2 :
      field_ok ns fd st p st1 -> fields_ok ns r st1 ps st2 ->
      fields_ok ns (fd :: r) st (p :: ps) st2.

  Lemma parse_fields_inv ns l : forall st ps st',
    parse_fields rec ns l st = POk (ps, st') -> fields_ok ns l st ps st'.
  Proof.
    induction l as [|s r IH]; intros st ps st' H; cbn [parse_fields] in H.
    - injection H as <- <-. constructor.
    - pinv H. injection H as <- <-. econstructor; eauto using parse_field_inv.
  Qed.

  Inductive node_ok : json -> string -> bool -> pstate -> option json -> json -> pstate -> Prop :=
  | NPrim s ns wh st d : is_prim s = true -> node_ok (JStr s) ns wh st d (JStr s) st
  | NRef s ns wh st d :
      is_prim s = false -> jhas (qualify ns s) (st_tbl st) = true ->
      node_ok (JStr s) ns wh st d (JStr (qualify ns s)) st
  | NUnion l ns wh st d ps st' :
      members_ok ns l st ps st' -> node_ok (JArr l) ns wh st d (JArr ps) st'
  | NPrimDict kv t ns wh st d :
      jget "type" kv = Some (JStr t) -> is_prim t = true ->
      node_ok (JObj kv) ns wh st d (JObj (base_of kv (JStr t))) st
  | NArray kv it ns wh st d p st' :
      jget "type" kv = Some (JStr "array") -> jget "items" kv = Some it ->
      rec it ns false st None = POk (p, st') ->
      node_ok (JObj kv) ns wh st d (JObj (jset "items" p (base_of kv (JStr "array")))) st'
  | NMap kv it ns wh st d p st' :
      jget "type" kv = Some (JStr "map") -> jget "values" kv = Some it ->
      rec it ns false st None = POk (p, st') ->
      node_ok (JObj kv) ns wh st d (JObj (jset "values" p (base_of kv (JStr "map")))) st'
  | NEnum kv ns wh st d ns' full syms ss :
      jget "type" kv = Some (JStr "enum") ->
      schema_name kv ns = POk (ns', full) -> mem full (st_names st) = false ->
      jget "symbols" kv = Some (JArr syms) -> symbol_strings syms = Some ss -> nodupb ss = true ->
      let parsed := JObj (jset "symbols" (JArr syms) (keep_null_ns full ns (jset "name" (JStr full) (base_of kv (JStr "enum"))))) in
      node_ok (JObj kv) ns wh st d parsed (set_tbl full parsed (declared full st))
  | NFixed kv ns wh st d ns' full sz :
      jget "type" kv = Some (JStr "fixed") ->
      schema_name kv ns = POk (ns', full) -> mem full (st_names st) = false ->
      jget "size" kv = Some sz ->
      let parsed := JObj (jset "size" sz (keep_null_ns full ns (jset "name" (JStr full) (base_of kv (JStr "fixed"))))) in
      node_ok (JObj kv) ns wh st d parsed (set_tbl full parsed (declared full st))
  | NRecord kv t ns wh st d ns' full fl fs st3 :
      jget "type" kv = Some (JStr t) -> (t = "record" \/ t = "error") ->
      schema_name kv ns = POk (ns', full) -> mem full (st_names st) = false ->
      fields_list kv fl ->
      fields_ok ns' fl (set_tbl full (JObj (rbase kv t full ns)) (declared full st)) fs st3 ->
      let reckv := jset "fields" (JArr fs) (jset "name" (JStr full) (rbase kv t full ns)) in
      node_ok (JObj kv) ns wh st d (mark wh reckv) (set_tbl full (JObj reckv) st3).

  Lemma declare_inv full st st1 :
    declare full st = POk st1 -> mem full (st_names st) = false /\ st1 = declared full st.
  Proof. unfold declare. destruct (mem full (st_names st)); [discriminate|]. intros H. injection H as <-. auto. Qed.

  Lemma validate_enum_inv kv :
    validate_enum_symbols kv = POk tt ->
    exists syms ss, jget "symbols" kv = Some (JArr syms) /\ symbol_strings syms = Some ss /\ nodupb ss = true.
  Proof.
    unfold validate_enum_symbols. intros H. pinv H; eauto.
    all: match goal with E : negb _ = false |- _ => apply Bool.negb_false_iff in E end; eauto.
  Qed.

  Lemma parse_node_inv j ns wh st d p st' :
    parse_node rec j ns wh st d = POk (p, st') -> node_ok j ns wh st d p st'.
  Proof.
    intros H. destruct j as [| | | |s|l|kv]; cbn [parse_node] in H; try discriminate H.
    - (* string *)
      destruct (is_prim s) eqn:P.
      + pinv H; injection H as <- <-; now constructor.
      + destruct (jhas (qualify ns s) (st_tbl st)) eqn:J; [|discriminate H].
        pinv H; injection H as <- <-; now constructor.
    - (* union *)
      destruct (parse_members rec ns l st) as [[ps st1]| | | |] eqn:M; cbn [pbind] in H; try discriminate H.
      apply parse_members_inv in M.
      destruct d as [dv|]; cbn [pbind] in H.
      + destruct (any_match (st_tbl st1) dv ps) as [[|]| | | |]; cbn [pbind] in H; try discriminate H.
        injection H as <- <-. now constructor.
      + injection H as <- <-. now constructor.
    - (* dict *)
      unfold parse_dict in H.
      destruct (jget "type" kv) as [ty|] eqn:T; [|discriminate H].
      fold (base_of kv ty) in H.
      destruct (decimal_checks (base_of kv ty) kv ty); cbn [pbind] in H; try discriminate H.
      destruct ty as [| | | |t| |]; try discriminate H.
      destruct (String.eqb t "array") eqn:E1.
      { apply String.eqb_eq in E1. subst t. pinv H; injection H as <- <-; econstructor; eauto. }
      destruct (String.eqb t "map") eqn:E2.
      { apply String.eqb_eq in E2. subst t. pinv H; injection H as <- <-; econstructor; eauto. }
      destruct (String.eqb t "enum") eqn:E3.
      { apply String.eqb_eq in E3. subst t.
        destruct (schema_name kv ns) as [[ns' full]| | | |] eqn:SN; cbn [pbind] in H; try discriminate H.
        destruct (declare full st) as [st1| | | |] eqn:D; cbn [pbind] in H; try discriminate H.
        apply declare_inv in D. destruct D as [D ->].
        destruct (validate_enum_symbols kv) as [[]| | | |] eqn:V; cbn [pbind] in H; try discriminate H.
        apply validate_enum_inv in V. destruct V as (syms & ss & S1 & S2 & S3).
        destruct (check_default d is_jstr); cbn [pbind] in H; try discriminate H.
        rewrite S1 in H. injection H as <- <-. econstructor; eauto. }
      destruct (String.eqb t "fixed") eqn:E4.
      { apply String.eqb_eq in E4. subst t.
        destruct (schema_name kv ns) as [[ns' full]| | | |] eqn:SN; cbn [pbind] in H; try discriminate H.
        destruct (declare full st) as [st1| | | |] eqn:D; cbn [pbind] in H; try discriminate H.
        apply declare_inv in D. destruct D as [D ->].
        destruct (check_default d is_jstr); cbn [pbind] in H; try discriminate H.
        destruct (jget "size" kv) as [sz|] eqn:SZ; [|discriminate H].
        injection H as <- <-. econstructor; eauto. }
      destruct (String.eqb t "record" || String.eqb t "error") eqn:E5.
      { assert (TT : t = "record" \/ t = "error").
        { apply Bool.orb_true_iff in E5. destruct E5 as [E|E]; apply String.eqb_eq in E; auto. }
        destruct (schema_name kv ns) as [[ns' full]| | | |] eqn:SN; cbn [pbind] in H; try discriminate H.
        destruct (declare full st) as [st1| | | |] eqn:D; cbn [pbind] in H; try discriminate H.
        apply declare_inv in D. destruct D as [D ->].
        destruct (check_default d is_jobj); cbn [pbind] in H; try discriminate H.
        assert (exists fl, fields_list kv fl /\
                 match jget "fields" kv with None => POk [] | Some (JArr fl) => POk fl | Some _ => PErrOther end = POk fl) as (fl & FL & EQ).
        { unfold fields_list. destruct (jget "fields" kv) as [[| | | | |fl|]|]; try discriminate H; eauto. }
        rewrite EQ in H. cbn [pbind] in H. fold (rbase kv t full ns) in H.
        destruct (parse_fields rec ns' fl _) as [[fs st3]| | | |] eqn:PF; cbn [pbind] in H; try discriminate H.
        apply parse_fields_inv in PF.
        destruct wh; injection H as <- <-;
          [apply (NRecord kv t ns true st d ns' full fl fs st3)|apply (NRecord kv t ns false st d ns' full fl fs st3)]; auto. }
      destruct (is_prim t) eqn:E6; [|discriminate H].
      pinv H; injection H as <- <-; now constructor.
  Qed.
End Inv.

(** ---- acceptance of a schema implies acceptance of every traversed subschema ---- *)
Inductive traversed : json -> json -> Prop :=
| TRefl j : traversed j j
| TMember l m sub : In m l -> traversed m sub -> traversed (JArr l) sub
| TItems kv it sub :
    jget "type" kv = Some (JStr "array") -> jget "items" kv = Some it -> traversed it sub ->
    traversed (JObj kv) sub
| TValues kv it sub :
    jget "type" kv = Some (JStr "map") -> jget "values" kv = Some it -> traversed it sub ->
    traversed (JObj kv) sub
| TField kv t fl fkv ty sub :
    jget "type" kv = Some (JStr t) -> (t = "record" \/ t = "error") ->
    jget "fields" kv = Some (JArr fl) -> In (JObj fkv) fl -> jget "type" fkv = Some ty ->
    traversed ty sub -> traversed (JObj kv) sub.

Definition accepted (j : json) : Prop :=
  exists f ns wh st d r, parse_rec f j ns wh st d = POk r.

Lemma members_ok_in rec ns l st ps st' m :
  members_ok rec ns l st ps st' -> In m l -> exists st0 r, rec m ns false st0 None = POk r.
Proof.
  induction 1 as [|s r st p st1 ps st2 R M IH]; intros I; [destruct I|].
  destruct I as [->|I]; [eauto|auto].
Qed.

Lemma fields_ok_in rec ns l st ps st' fkv ty :
  fields_ok rec ns l st ps st' -> In (JObj fkv) l -> jget "type" fkv = Some ty ->
  exists st0 d r, rec ty ns false st0 d = POk r.
Proof.
  induction 1 as [|fd r st p st1 ps st2 F M IH]; intros I T; [destruct I|].
  destruct I as [->|I]; [|auto].
  inversion F; subst. match goal with H : jget "type" _ = Some ?x |- _ => rewrite T in H; injection H as <- end. eauto.
Qed.

Ltac same_type :=
  match goal with
  | H1 : jget "type" ?kv = Some _, H2 : jget "type" ?kv = Some _ |- _ =>
      rewrite H1 in H2; try (injection H2; intros; subst); clear H2
  end;
  try discriminate;
  try match goal with P : is_prim _ = true |- _ => vm_compute in P; discriminate P end.

Ltac open_accept H :=
  match type of H with
  | parse_rec ?f _ _ _ _ _ = POk _ =>
      destruct f as [|?f]; [discriminate H|]; cbn [parse_rec] in H; apply parse_node_inv in H
  end.

Lemma accepted_member l m : accepted (JArr l) -> In m l -> accepted m.
Proof.
  intros (f & ns & wh & st & d & [p st'] & H) I. open_accept H. inversion H; subst.
  match goal with M : members_ok _ _ _ _ _ _ |- _ => destruct (members_ok_in _ _ _ _ _ _ m M I) as (st0 & r & R) end.
  unfold accepted. eauto 10.
Qed.

Lemma accepted_items kv it :
  accepted (JObj kv) -> jget "type" kv = Some (JStr "array") -> jget "items" kv = Some it -> accepted it.
Proof.
  intros (f & ns & wh & st & d & [p st'] & H) T I. open_accept H.
  inversion H; subst; same_type; try discriminate;
    repeat match goal with HH : _ \/ _ |- _ => destruct HH; try discriminate end.
  match goal with H1 : jget "items" kv = Some ?x |- _ => rewrite I in H1; injection H1 as <- end.
  unfold accepted. eauto 10.
Qed.

Lemma accepted_values kv it :
  accepted (JObj kv) -> jget "type" kv = Some (JStr "map") -> jget "values" kv = Some it -> accepted it.
Proof.
  intros (f & ns & wh & st & d & [p st'] & H) T I. open_accept H.
  inversion H; subst; same_type; try discriminate;
    repeat match goal with HH : _ \/ _ |- _ => destruct HH; try discriminate end.
  match goal with H1 : jget "values" kv = Some ?x |- _ => rewrite I in H1; injection H1 as <- end.
  unfold accepted. eauto 10.
Qed.

Lemma accepted_field kv t fl fkv ty :
  accepted (JObj kv) -> jget "type" kv = Some (JStr t) -> (t = "record" \/ t = "error") ->
  jget "fields" kv = Some (JArr fl) -> In (JObj fkv) fl -> jget "type" fkv = Some ty -> accepted ty.
Proof.
  intros (f & ns & wh & st & d & [p st'] & H) T TT F I FT. open_accept H.
  inversion H; subst; same_type; try (destruct TT; subst; discriminate).
  match goal with FL : fields_list kv ?fl0 |- _ => destruct FL as [FL|[FL _]]; rewrite F in FL; [injection FL as <-|discriminate FL] end.
  match goal with FS : fields_ok _ _ _ _ _ _ |- _ => destruct (fields_ok_in _ _ _ _ _ _ fkv ty FS I FT) as (st0 & d0 & r & R) end.
  unfold accepted. eauto 10.
Qed.

Lemma accepted_traversed j sub : traversed j sub -> accepted j -> accepted sub.
Proof.
  induction 1 as [j|l m sub I T IH|kv it sub T I Tr IH|kv it sub T I Tr IH|kv t fl fkv ty sub T TT F I FT Tr IH];
    intros A; [exact A|apply IH..].
  - eapply accepted_member; eauto.
  - eapply accepted_items; eauto.
  - eapply accepted_values; eauto.
  - eapply accepted_field; eauto.
Qed.

(** parse_schema: members of top-level unions are parsed separately *)
Inductive top_traversed : json -> json -> Prop :=
| TTLeaf j sub : (forall l, j <> JArr l) -> traversed j sub -> top_traversed j sub
| TTMember l m sub : In m l -> top_traversed m sub -> top_traversed (JArr l) sub.

Definition is_raw (j : json) : Prop :=
  forall kv, j = JObj kv -> jhas "__fastavro_parsed" kv = false.

Lemma run_parse_accepted f j st r : run_parse f j st = POk r -> accepted j.
Proof. unfold run_parse, accepted. eauto 10. Qed.

Lemma parse_tops_in rec l : forall st ps st' m,
  parse_tops rec l st = POk (ps, st') -> In m l -> exists st0 r, rec m st0 = POk r.
Proof.
  induction l as [|s r IH]; intros st ps st' m H I; [destruct I|].
  cbn [parse_tops] in H.
  destruct (rec s st) as [[p st1]| | | |] eqn:E; cbn [pbind] in H; try discriminate H.
  destruct (parse_tops rec r st1) as [[ps' st2]| | | |] eqn:E2; cbn [pbind] in H; try discriminate H.
  destruct I as [->|I]; eauto.
Qed.

Lemma parse_schema_rec_accepted f : forall j st r sub,
  parse_schema_rec f j st = POk r -> top_traversed j sub ->
  (forall m, top_traversed j m -> is_raw m) -> accepted sub.
Proof.
  induction f as [|f IH]; intros j st r sub H TT RAW; cbn [parse_schema_rec] in H; [discriminate H|].
  destruct TT as [j sub NL Tr|l m sub I TT].
  - assert (A : accepted j).
    { destruct j as [| | | | |l|kv]; try (eapply run_parse_accepted; eauto; fail).
      - exfalso. now apply (NL l).
      - assert (R : jhas "__fastavro_parsed" kv = false).
        { apply (RAW (JObj kv)); [|reflexivity]. apply TTLeaf; [intros; discriminate|constructor]. }
        rewrite R in H. eapply run_parse_accepted; eauto. }
    eapply accepted_traversed; eauto.
  - destruct (parse_tops (parse_schema_rec f) l st) as [[ps st1]| | | |] eqn:E; cbn [pbind] in H; try discriminate H.
    destruct (parse_tops_in _ _ _ _ _ m E I) as (st0 & r0 & R).
    eapply IH; eauto. intros m' T'. apply RAW. eapply TTMember; eauto.
Qed.

Theorem parse_schema_accepts_subschemas f j t r sub :
  parse_schema f j t = POk r -> top_traversed j sub ->
  (forall m, top_traversed j m -> is_raw m) -> accepted sub.
Proof.
  unfold parse_schema. intros H TT RAW.
  destruct (parse_schema_rec f j (mkst [] t)) as [[p st1]| | | |] eqn:E; try discriminate H.
  eapply parse_schema_rec_accepted; eauto.
Qed.

(** ---- what acceptance of a node implies: one lemma per rejection kind ----
    (contrapositive: a node with the defect is accepted in no state, under no
    namespace, with no default, for no fuel) *)
Ltac open_accepted A :=
  let f := fresh "f" in let ns := fresh "ns" in let wh := fresh "wh" in let st := fresh "st" in
  let d := fresh "d" in let p := fresh "p" in let st' := fresh "st'" in let H := fresh "H" in
  destruct A as (f & ns & wh & st & d & [p st'] & H); open_accept H.

Lemma accepted_ref_known s :
  accepted (JStr s) -> is_prim s = true \/ exists ns st, jhas (qualify ns s) (st_tbl st) = true.
Proof. intros A. open_accepted A. inversion H; subst; eauto. Qed.

Definition named_type (t : string) : Prop := t = "enum" \/ t = "fixed" \/ t = "record" \/ t = "error".

Lemma accepted_has_name kv t :
  accepted (JObj kv) -> jget "type" kv = Some (JStr t) -> named_type t ->
  exists n, jget "name" kv = Some (JStr n).
Proof.
  intros A T N. open_accepted A.
  inversion H; subst; same_type;
    try (destruct N as [N|[N|[N|N]]]; subst; try discriminate;
         match goal with P : is_prim _ = true |- _ => vm_compute in P; discriminate P end);
    match goal with SN : schema_name kv _ = POk _ |- _ => apply schema_name_spec in SN; destruct SN as (_ & _ & SN); eauto end.
Qed.

Lemma accepted_enum_symbols kv :
  accepted (JObj kv) -> jget "type" kv = Some (JStr "enum") ->
  exists syms ss, jget "symbols" kv = Some (JArr syms) /\ symbol_strings syms = Some ss /\ nodupb ss = true /\
    match jget "default" kv with
    | None => True
    | Some (JStr dv) => mem dv ss = true
    | Some _ => False
    end.
Proof.
  intros (f & ns & wh & st & d & [p st'] & H) T.
  destruct f as [|f]; [discriminate H|]. cbn [parse_rec parse_node] in H. unfold parse_dict in H.
  rewrite T in H.
  destruct (decimal_checks _ kv (JStr "enum")); cbn [pbind] in H; try discriminate H.
  cbn [String.eqb Ascii.eqb Bool.eqb] in H.
  destruct (schema_name kv ns) as [[ns' full]| | | |]; cbn [pbind] in H; try discriminate H.
  destruct (declare full st); cbn [pbind] in H; try discriminate H.
  destruct (validate_enum_symbols kv) as [[]| | | |] eqn:V; cbn [pbind] in H; try discriminate H.
  clear H. unfold validate_enum_symbols in V.
  destruct (jget "symbols" kv) as [[| | | | |syms|]|]; try discriminate V.
  destruct (symbol_strings syms) as [ss|] eqn:SS; [|discriminate V].
  destruct (nodupb ss) eqn:ND; cbn [negb] in V; [|discriminate V].
  exists syms, ss. repeat split; auto.
  destruct (jget "default" kv) as [[| | | |dv| |]|]; try discriminate V; try exact I.
  destruct (mem dv ss); [reflexivity|discriminate V].
Qed.

Lemma accepted_decimal kv ty :
  accepted (JObj kv) -> jget "type" kv = Some ty -> decimal_checks (base_of kv ty) kv ty = POk tt.
Proof.
  intros (f & ns & wh & st & d & [p st'] & H) T.
  destruct f as [|f]; [discriminate H|]. cbn [parse_rec parse_node] in H. unfold parse_dict in H.
  rewrite T in H. fold (base_of kv ty) in H.
  destruct (decimal_checks (base_of kv ty) kv ty) as [[]| | | |]; cbn [pbind] in H; try discriminate H. reflexivity.
Qed.

(* what decimal_checks = POk means, attribute by attribute *)
Lemma pbind_ok {A B} (e : pres A) (k : A -> pres B) r : pbind e k = POk r -> exists x, e = POk x /\ k x = POk r.
Proof. destruct e; cbn [pbind]; try discriminate. eauto. Qed.

Definition attr_or_null (k : string) (kv : list (string * json)) : json :=
  match jget k kv with Some v => v | None => JNull end.

Lemma decimal_checks_ok parsed kv ty :
  jget "logicalType" parsed = Some (JStr "decimal") -> decimal_checks parsed kv ty = POk tt ->
  let scale := attr_or_null "scale" parsed in
  let precision := attr_or_null "precision" parsed in
  (present scale = true -> exists s, as_jint scale = Some s /\ 0 <= s) /\
  (present precision = true -> exists p, as_jint precision = Some p /\ 0 < p /\
      (ty = JStr "fixed" -> exists sz size, jget "size" kv = Some sz /\ as_pyint sz = Some size /\ p <= max_precision size)) /\
  (present scale = true -> present precision = true ->
     forall s p, as_jint scale = Some s -> as_jint precision = Some p -> s <= p).
Proof.
  intros L H. unfold decimal_checks in H. rewrite L in H. cbn [String.eqb Ascii.eqb Bool.eqb negb] in H.
  fold (attr_or_null "scale" parsed) in H. fold (attr_or_null "precision" parsed) in H.
  cbv zeta. generalize dependent (attr_or_null "scale" parsed). intros scale.
  generalize dependent (attr_or_null "precision" parsed). intros precision H.
  apply pbind_ok in H. destruct H as ([] & H1 & H).
  apply pbind_ok in H. destruct H as ([] & H2 & H3).
  split; [|split].
  - intros TS. rewrite TS in H1. destruct (as_jint scale) as [z|]; [|discriminate H1].
    destruct (Z.ltb z 0) eqn:E; [discriminate H1|]. exists z. split; [reflexivity|lia].
  - intros TP. rewrite TP in H2. destruct (as_jint precision) as [z|]; [|discriminate H2].
    destruct (Z.leb z 0) eqn:E; [discriminate H2|]. exists z. split; [reflexivity|]. split; [lia|].
    intros ->. cbn [String.eqb Ascii.eqb Bool.eqb] in H2.
    destruct (jget "size" kv) as [sz|]; [|discriminate H2].
    destruct (as_pyint sz) as [size|] eqn:ESZ; [|discriminate H2].
    destruct (Z.ltb (max_precision size) z) eqn:E2; [discriminate H2|].
    exists sz, size. repeat split; auto. lia.
  - intros TS TP s p' ES EP. rewrite TS, TP, ES, EP in H3. cbn [andb] in H3.
    destruct (Z.ltb p' s) eqn:E; [discriminate H3|]. lia.
Qed.

(** ---- the parser's state and the names it writes are the specification's ---- *)
Lemma copy_prop_get k k' src dst :
  String.eqb k k' = false -> jget k (copy_prop k' src dst) = jget k dst.
Proof. intros N. unfold copy_prop. destruct (jget k' src); [now rewrite jget_jset_neq|reflexivity]. Qed.

Lemma base_type kv ty : jget "type" (base_of kv ty) = Some ty.
Proof. unfold base_of. rewrite copy_prop_get by reflexivity. apply jget_jset_eq. Qed.

Lemma base_reserved kv ty k :
  mem k RESERVED_PROPERTIES = true -> String.eqb k "type" = false -> String.eqb k "doc" = false ->
  jget k (base_of kv ty) = None.
Proof.
  intros M N1 N2. unfold base_of. rewrite copy_prop_get by exact N2.
  rewrite jget_jset_neq by exact N1. now apply jget_jdrop_in.
Qed.

Lemma keep_get k full enc kv :
  String.eqb k "namespace" = false -> jget k (keep_null_ns full enc kv) = jget k kv.
Proof.
  intros N. unfold keep_null_ns. destruct (negb (String.eqb enc "") && negb (has_dot full)); [|reflexivity].
  now rewrite jget_jset_neq.
Qed.

Ltac getk :=
  unfold rbase;
  repeat first [rewrite jget_jset_eq | rewrite jget_jset_neq by reflexivity | rewrite keep_get by reflexivity
               | rewrite base_type | rewrite base_reserved by reflexivity].

Lemma prim_not_complex t :
  is_prim t = true ->
  String.eqb t "array" = false /\ String.eqb t "map" = false /\ String.eqb t "enum" = false /\
  String.eqb t "fixed" = false /\ String.eqb t "record" = false /\ String.eqb t "error" = false.
Proof.
  intros P. repeat split;
    match goal with |- String.eqb t ?x = false => destruct (String.eqb_spec t x); [subst; discriminate P|reflexivity] end.
Qed.

(* one-level unfoldings of the three observers *)
Lemma spec_names_m_obj kv m ns :
  spec_names_m (JObj kv) m ns =
  let sub k m ns := match jget k kv with Some v => spec_names_m v m ns | None => [] end in
  match m with
  | PField => sub "type" PSchema ns
  | _ =>
      if type_is kv "array" then sub "items" PSchema ns
      else if type_is kv "map" then sub "values" PSchema ns
      else if type_is kv "enum" || type_is kv "fixed" then [spec_fullname ns kv]
      else if type_is kv "record" || type_is kv "error" then
        spec_fullname ns kv :: sub "fields" PFields (spec_namespace ns kv)
      else []
  end.
Proof.
  unfold spec_names_m at 1. rewrite jfold_obj. fold spec_names_m. unfold nsub. rewrite !jget_map.
  cbv zeta. destruct m; repeat match goal with |- context [jget ?k kv] => destruct (jget k kv) end; reflexivity.
Qed.

Lemma spec_names_m_arr l m ns :
  spec_names_m (JArr l) m ns =
  concat (map (fun j => spec_names_m j (match m with PFields => PField | _ => PSchema end) ns) l).
Proof. unfold spec_names_m. rewrite jfold_arr. now rewrite map_map. Qed.

Lemma carried_names_m_obj kv m :
  carried_names_m (JObj kv) m =
  let sub k m := match jget k kv with Some v => carried_names_m v m | None => [] end in
  match m with
  | PField => sub "type" PSchema
  | _ =>
      if type_is kv "array" then sub "items" PSchema
      else if type_is kv "map" then sub "values" PSchema
      else if type_is kv "enum" || type_is kv "fixed" then [name_attr kv]
      else if type_is kv "record" || type_is kv "error" then name_attr kv :: sub "fields" PFields
      else []
  end.
Proof.
  unfold carried_names_m at 1. rewrite jfold_obj. fold carried_names_m. unfold lsub. rewrite !jget_map.
  cbv zeta. destruct m; repeat match goal with |- context [jget ?k kv] => destruct (jget k kv) end; reflexivity.
Qed.

Lemma carried_names_m_arr l m :
  carried_names_m (JArr l) m =
  concat (map (fun j => carried_names_m j (match m with PFields => PField | _ => PSchema end)) l).
Proof. unfold carried_names_m. rewrite jfold_arr. now rewrite map_map. Qed.

Lemma refs_m_obj kv m :
  refs_m (JObj kv) m =
  let sub k m := match jget k kv with Some v => refs_m v m | None => [] end in
  match m with
  | PField => sub "type" PSchema
  | _ =>
      if type_is kv "array" then sub "items" PSchema
      else if type_is kv "map" then sub "values" PSchema
      else if type_is kv "record" || type_is kv "error" then sub "fields" PFields
      else []
  end.
Proof.
  unfold refs_m at 1. rewrite jfold_obj. fold refs_m. unfold lsub. rewrite !jget_map.
  cbv zeta. destruct m; repeat match goal with |- context [jget ?k kv] => destruct (jget k kv) end; reflexivity.
Qed.

Lemma refs_m_arr l m :
  refs_m (JArr l) m = concat (map (fun j => refs_m j (match m with PFields => PField | _ => PSchema end)) l).
Proof. unfold refs_m. rewrite jfold_arr. now rewrite map_map. Qed.

Lemma type_is_get kv t t' : jget "type" kv = Some (JStr t) -> type_is kv t' = String.eqb t t'.
Proof. intros H. unfold type_is. now rewrite H. Qed.

Definition names_spec (rec : recfun) : Prop :=
  forall j ns wh st d p st',
    rec j ns wh st d = POk (p, st') ->
    st_names st' = (st_names st ++ spec_names ns j)%list /\ carried_names p = spec_names ns j.

Section NamesStep.
  Variable rec : recfun.
  Hypothesis IH : names_spec rec.

  Lemma members_names ns l st ps st' :
    members_ok rec ns l st ps st' ->
    st_names st' = (st_names st ++ concat (map (spec_names ns) l))%list /\
    concat (map carried_names ps) = concat (map (spec_names ns) l).
  Proof.
    induction 1 as [st|s r st p st1 ps st2 R M [IH1 IH2]]; cbn [map concat].
    - now rewrite app_nil_r.
    - destruct (IH _ _ _ _ _ _ _ R) as [A B]. rewrite IH1, A, B, IH2. now rewrite app_assoc.
  Qed.

  Lemma field_names_spec ns fd st p st' :
    field_ok rec ns fd st p st' ->
    st_names st' = (st_names st ++ spec_names_m fd PField ns)%list /\
    carried_names_m p PField = spec_names_m fd PField ns.
  Proof.
    intros F. destruct F as [fkv nm ty st p st1 N T R].
    destruct (IH _ _ _ _ _ _ _ R) as [A B].
    rewrite spec_names_m_obj, carried_names_m_obj. cbv beta iota zeta. getk. rewrite T. auto.
  Qed.

  Lemma fields_names ns l st ps st' :
    fields_ok rec ns l st ps st' ->
    st_names st' = (st_names st ++ concat (map (fun f => spec_names_m f PField ns) l))%list /\
    concat (map (fun f => carried_names_m f PField) ps) = concat (map (fun f => spec_names_m f PField ns) l).
  Proof.
    induction 1 as [st|s r st p st1 ps st2 F M [IH1 IH2]]; cbn [map concat].
    - now rewrite app_nil_r.
    - destruct (field_names_spec _ _ _ _ _ F) as [A B]. rewrite IH1, A, B, IH2. now rewrite app_assoc.
  Qed.

  Lemma node_names : names_spec (parse_node rec).
  Proof.
    intros j ns wh st d p st' H. apply parse_node_inv in H.
    destruct H as [s ns wh st d P|s ns wh st d P J|l ns wh st d ps st' M|kv t ns wh st d T P
                   |kv it ns wh st d p st' T I R|kv it ns wh st d p st' T I R
                   |kv ns wh st d ns' full syms ss T SN D SY SS ND parsed
                   |kv ns wh st d ns' full sz T SN D SZ parsed
                   |kv t ns wh st d ns' full fl fs st3 T TT SN D FL FS reckv].
    - unfold spec_names, carried_names. cbn. now rewrite app_nil_r.
    - unfold spec_names, carried_names. cbn. now rewrite app_nil_r.
    - unfold spec_names, carried_names. rewrite spec_names_m_arr, carried_names_m_arr.
      exact (members_names _ _ _ _ _ M).
    - destruct (prim_not_complex _ P) as (N1 & N2 & N3 & N4 & N5 & N6).
      unfold spec_names, carried_names. rewrite spec_names_m_obj, carried_names_m_obj. cbv beta iota zeta.
      rewrite !(type_is_get _ _ _ T), !(type_is_get _ _ _ (base_type kv (JStr t))).
      rewrite N1, N2, N3, N4, N5, N6. cbn [orb]. now rewrite app_nil_r.
    - destruct (IH _ _ _ _ _ _ _ R) as [A B].
      unfold spec_names, carried_names. rewrite spec_names_m_obj, carried_names_m_obj. cbv beta iota zeta.
      rewrite !(type_is_get _ _ _ T). unfold type_is. getk. cbn [String.eqb Ascii.eqb Bool.eqb]. rewrite I. auto.
    - destruct (IH _ _ _ _ _ _ _ R) as [A B].
      unfold spec_names, carried_names. rewrite spec_names_m_obj, carried_names_m_obj. cbv beta iota zeta.
      rewrite !(type_is_get _ _ _ T). unfold type_is. getk. cbn [String.eqb Ascii.eqb Bool.eqb]. rewrite I. auto.
    - apply schema_name_spec in SN. destruct SN as (-> & -> & NM).
      unfold spec_names, carried_names. subst parsed. rewrite spec_names_m_obj, carried_names_m_obj. cbv beta iota zeta.
      rewrite !(type_is_get _ _ _ T). unfold type_is, name_attr. getk. cbn [String.eqb Ascii.eqb Bool.eqb orb]. auto.
    - apply schema_name_spec in SN. destruct SN as (-> & -> & NM).
      unfold spec_names, carried_names. subst parsed. rewrite spec_names_m_obj, carried_names_m_obj. cbv beta iota zeta.
      rewrite !(type_is_get _ _ _ T). unfold type_is, name_attr. getk. cbn [String.eqb Ascii.eqb Bool.eqb orb]. auto.
    - apply schema_name_spec in SN. destruct SN as (-> & -> & NM).
      destruct (fields_names _ _ _ _ _ FS) as [A B]. cbn [set_tbl declared st_names] in A.
      assert (SF : match jget "fields" kv with
                   | Some v => spec_names_m v PFields (spec_namespace ns kv) | None => [] end
                   = concat (map (fun f => spec_names_m f PField (spec_namespace ns kv)) fl)).
      { destruct FL as [FL|[FL ->]]; rewrite FL; [apply spec_names_m_arr|reflexivity]. }
      assert (CN : carried_names (mark wh reckv) = carried_names (JObj reckv)).
      { destruct wh; [|reflexivity]. unfold mark, carried_names. rewrite !carried_names_m_obj. cbv beta iota zeta.
        unfold type_is, name_attr. subst reckv. getk. reflexivity. }
      rewrite CN. unfold spec_names, carried_names. subst reckv.
      rewrite spec_names_m_obj, carried_names_m_obj. cbv beta iota zeta.
      rewrite !(type_is_get _ _ _ T), SF. unfold type_is, name_attr. getk. rewrite carried_names_m_arr, B.
      cbn [set_tbl st_names]. rewrite A.
      destruct TT as [-> | ->]; cbn [String.eqb Ascii.eqb Bool.eqb orb]; rewrite <- app_assoc; auto.
  Qed.
End NamesStep.

Theorem parse_rec_names f : names_spec (parse_rec f).
Proof.
  induction f as [|f IH]; cbn [parse_rec].
  - intros j ns wh st d p st' H. discriminate H.
  - apply node_names. exact IH.
Qed.

(** ---- every reference of the result is a key of the returned table ---- *)
Definition refs_spec (rec : recfun) : Prop :=
  forall j ns wh st d p st',
    rec j ns wh st d = POk (p, st') ->
    (forall n, jhas n (st_tbl st) = true -> jhas n (st_tbl st') = true) /\
    (forall r, In r (refs p) -> jhas r (st_tbl st') = true).

Section RefsStep.
  Variable rec : recfun.
  Hypothesis IH : refs_spec rec.

  Lemma members_refs ns l st ps st' :
    members_ok rec ns l st ps st' ->
    (forall n, jhas n (st_tbl st) = true -> jhas n (st_tbl st') = true) /\
    (forall r, In r (concat (map refs ps)) -> jhas r (st_tbl st') = true).
  Proof.
    induction 1 as [st|s r st p st1 ps st2 R M [IH1 IH2]]; cbn [map concat].
    - split; [auto|intros r []].
    - destruct (IH _ _ _ _ _ _ _ R) as [A B]. split; [auto|].
      intros x I. apply in_app_or in I. destruct I as [I|I]; auto.
  Qed.

  Lemma field_refs ns fd st p st' :
    field_ok rec ns fd st p st' ->
    (forall n, jhas n (st_tbl st) = true -> jhas n (st_tbl st') = true) /\
    (forall r, In r (refs_m p PField) -> jhas r (st_tbl st') = true).
  Proof.
    intros F. destruct F as [fkv nm ty st p st1 N T R].
    destruct (IH _ _ _ _ _ _ _ R) as [A B]. split; [exact A|].
    rewrite refs_m_obj. cbv beta iota zeta. getk. exact B.
  Qed.

  Lemma fields_refs ns l st ps st' :
    fields_ok rec ns l st ps st' ->
    (forall n, jhas n (st_tbl st) = true -> jhas n (st_tbl st') = true) /\
    (forall r, In r (concat (map (fun f => refs_m f PField) ps)) -> jhas r (st_tbl st') = true).
  Proof.
    induction 1 as [st|s r st p st1 ps st2 F M [IH1 IH2]]; cbn [map concat].
    - split; [auto|intros r []].
    - destruct (field_refs _ _ _ _ _ F) as [A B]. split; [auto|].
      intros x I. apply in_app_or in I. destruct I as [I|I]; auto.
  Qed.

  Lemma node_refs : refs_spec (parse_node rec).
  Proof.
    intros j ns wh st d p st' H. apply parse_node_inv in H.
    destruct H as [s ns wh st d P|s ns wh st d P J|l ns wh st d ps st' M|kv t ns wh st d T P
                   |kv it ns wh st d p st' T I R|kv it ns wh st d p st' T I R
                   |kv ns wh st d ns' full syms ss T SN D SY SS ND parsed
                   |kv ns wh st d ns' full sz T SN D SZ parsed
                   |kv t ns wh st d ns' full fl fs st3 T TT SN D FL FS reckv].
    - split; [auto|]. unfold refs, refs_m. cbn [jfold]. rewrite <- is_prim_spec, P. intros r [].
    - split; [auto|]. unfold refs, refs_m. cbn [jfold].
      destruct (spec_is_prim (qualify ns s)); [intros r []|]. intros r [<-|[]]. exact J.
    - unfold refs. rewrite refs_m_arr. exact (members_refs _ _ _ _ _ M).
    - split; [auto|]. destruct (prim_not_complex _ P) as (N1 & N2 & N3 & N4 & N5 & N6).
      unfold refs. rewrite refs_m_obj. cbv beta iota zeta.
      rewrite !(type_is_get _ _ _ (base_type kv (JStr t))), N1, N2, N5, N6. intros r [].
    - destruct (IH _ _ _ _ _ _ _ R) as [A B]. split; [exact A|].
      unfold refs. rewrite refs_m_obj. cbv beta iota zeta. unfold type_is. getk. cbn [String.eqb Ascii.eqb Bool.eqb]. exact B.
    - destruct (IH _ _ _ _ _ _ _ R) as [A B]. split; [exact A|].
      unfold refs. rewrite refs_m_obj. cbv beta iota zeta. unfold type_is. getk. cbn [String.eqb Ascii.eqb Bool.eqb]. exact B.
    - split; [intros n J; cbn [set_tbl declared st_tbl]; now apply jhas_jset_mono|].
      subst parsed. unfold refs. rewrite refs_m_obj. cbv beta iota zeta. unfold type_is. getk. intros r [].
    - split; [intros n J; cbn [set_tbl declared st_tbl]; now apply jhas_jset_mono|].
      subst parsed. unfold refs. rewrite refs_m_obj. cbv beta iota zeta. unfold type_is. getk. intros r [].
    - destruct (fields_refs _ _ _ _ _ FS) as [A B]. cbn [set_tbl declared st_tbl st_names] in A.
      split.
      + intros n J. cbn [set_tbl st_tbl]. apply jhas_jset_mono. apply A. now apply jhas_jset_mono.
      + assert (CN : refs (mark wh reckv) = refs (JObj reckv)).
        { destruct wh; [|reflexivity]. unfold mark, refs. rewrite !refs_m_obj. cbv beta iota zeta.
          unfold type_is. subst reckv. getk. reflexivity. }
        rewrite CN. unfold refs. subst reckv. rewrite refs_m_obj. cbv beta iota zeta. unfold type_is. getk.
        intros r I. cbn [set_tbl st_tbl]. apply jhas_jset_mono. apply B.
        destruct TT as [-> | ->]; cbn [String.eqb Ascii.eqb Bool.eqb orb] in I; now rewrite refs_m_arr in I.
  Qed.
End RefsStep.

Theorem parse_rec_refs f : refs_spec (parse_rec f).
Proof.
  induction f as [|f IH]; cbn [parse_rec].
  - intros j ns wh st d p st' H. discriminate H.
  - apply node_refs. exact IH.
Qed.

(** ---- no accepted schema defines a name twice (within one _parse_schema call) ---- *)
Definition nodup_spec (rec : recfun) : Prop :=
  forall j ns wh st d p st', rec j ns wh st d = POk (p, st') -> NoDup (st_names st) -> NoDup (st_names st').

Lemma nodup_snoc (l : list string) x : NoDup l -> mem x l = false -> NoDup (l ++ [x]).
Proof.
  intros N M. induction N as [|y l NI N IH]; cbn [app].
  - constructor; [intros []|constructor].
  - cbn [mem existsb] in M. apply Bool.orb_false_iff in M. destruct M as [M1 M2].
    constructor; [|auto]. intros I. apply in_app_or in I. destruct I as [I|[<-|[]]]; [contradiction|].
    now rewrite String.eqb_refl in M1.
Qed.

Section NodupStep.
  Variable rec : recfun.
  Hypothesis IH : nodup_spec rec.
  Lemma node_nodup : nodup_spec (parse_node rec).
  Proof.
    intros j ns wh st d p st' H. apply parse_node_inv in H.
    destruct H as [s ns wh st d P|s ns wh st d P J|l ns wh st d ps st' M|kv t ns wh st d T P
                   |kv it ns wh st d p st' T I R|kv it ns wh st d p st' T I R
                   |kv ns wh st d ns' full syms ss T SN D SY SS ND parsed
                   |kv ns wh st d ns' full sz T SN D SZ parsed
                   |kv t ns wh st d ns' full fl fs st3 T TT SN D FL FS reckv]; intros N; auto.
    - revert N. induction M as [st0|s0 r0 st0 p0 st1 ps0 st2 R M IHM]; intros N; [exact N|].
      apply IHM. exact (IH _ _ _ _ _ _ _ R N).
    - exact (IH _ _ _ _ _ _ _ R N).
    - exact (IH _ _ _ _ _ _ _ R N).
    - cbn [set_tbl declared st_names]. now apply nodup_snoc.
    - cbn [set_tbl declared st_names]. now apply nodup_snoc.
    - cbn [set_tbl st_names].
      assert (N2 : NoDup (st_names (set_tbl full (JObj (rbase kv t full ns)) (declared full st)))).
      { cbn [set_tbl declared st_names]. now apply nodup_snoc. }
      remember (set_tbl full (JObj (rbase kv t full ns)) (declared full st)) as sta eqn:Esta. clear Esta.
      clear reckv FL. revert N2. induction FS as [st0|fd r0 st0 p0 st1 ps0 st2 F M IHM]; intros N2; auto.
      apply IHM. destruct F as [fkv nm ty st5 p5 st6 N5 T5 R5]. exact (IH _ _ _ _ _ _ _ R5 N2).
  Qed.
End NodupStep.

Theorem parse_rec_nodup f : nodup_spec (parse_rec f).
Proof.
  induction f as [|f IH]; cbn [parse_rec].
  - intros j ns wh st d p st' H. discriminate H.
  - apply node_nodup. exact IH.
Qed.

Theorem accepted_names_unique f j ns wh st d p st' :
  parse_rec f j ns wh st d = POk (p, st') -> NoDup (st_names st) ->
  NoDup (st_names st ++ spec_names ns j)%list.
Proof.
  intros H N. destruct (parse_rec_names f _ _ _ _ _ _ _ H) as [A _]. rewrite <- A.
  eapply parse_rec_nodup; eauto.
Qed.

(** ---- the exact error at the node, one lemma per kind ---- *)
Lemma exact_unknown_ref f s ns wh st d :
  is_prim s = false -> jhas (qualify ns s) (st_tbl st) = false ->
  parse_rec (S f) (JStr s) ns wh st d = PErrUnknown (qualify ns s) (st_tbl st).
Proof. intros P J. cbn [parse_rec parse_node]. now rewrite P, J. Qed.

Lemma exact_decimal f kv ty ns wh st d :
  jget "type" kv = Some ty -> decimal_checks (base_of kv ty) kv ty = PErrParse ->
  parse_rec (S f) (JObj kv) ns wh st d = PErrParse.
Proof.
  intros T D. cbn [parse_rec parse_node]. unfold parse_dict. rewrite T. fold (base_of kv ty). now rewrite D.
Qed.

Lemma schema_name_missing kv ns : jget "name" kv = None -> schema_name kv ns = PErrParse.
Proof. intros H. unfold schema_name. now rewrite H. Qed.

Lemma exact_missing_name f kv t ns wh st d :
  jget "type" kv = Some (JStr t) -> named_type t -> jget "name" kv = None ->
  decimal_checks (base_of kv (JStr t)) kv (JStr t) = POk tt ->
  parse_rec (S f) (JObj kv) ns wh st d = PErrParse.
Proof.
  intros T N M D. cbn [parse_rec parse_node]. unfold parse_dict. rewrite T. fold (base_of kv (JStr t)). rewrite D.
  cbn [pbind]. rewrite (schema_name_missing _ _ M).
  destruct N as [-> | [-> | [-> | ->]]]; reflexivity.
Qed.

Lemma exact_redefined f kv t ns wh st d ns' full :
  jget "type" kv = Some (JStr t) -> named_type t ->
  decimal_checks (base_of kv (JStr t)) kv (JStr t) = POk tt ->
  schema_name kv ns = POk (ns', full) -> mem full (st_names st) = true ->
  parse_rec (S f) (JObj kv) ns wh st d = PErrParse.
Proof.
  intros T N D SN M. cbn [parse_rec parse_node]. unfold parse_dict. rewrite T. fold (base_of kv (JStr t)). rewrite D.
  cbn [pbind]. unfold declare.
  destruct N as [-> | [-> | [-> | ->]]]; cbn [String.eqb Ascii.eqb Bool.eqb orb]; rewrite SN; cbn [pbind]; now rewrite M.
Qed.

Lemma exact_enum_symbols f kv ns wh st d ns' full :
  jget "type" kv = Some (JStr "enum") ->
  decimal_checks (base_of kv (JStr "enum")) kv (JStr "enum") = POk tt ->
  schema_name kv ns = POk (ns', full) -> mem full (st_names st) = false ->
  validate_enum_symbols kv = PErrParse ->
  parse_rec (S f) (JObj kv) ns wh st d = PErrParse.
Proof.
  intros T D SN M V. cbn [parse_rec parse_node]. unfold parse_dict. rewrite T. fold (base_of kv (JStr "enum")). rewrite D.
  cbn [pbind String.eqb Ascii.eqb Bool.eqb]. rewrite SN. cbn [pbind]. unfold declare. rewrite M. cbn [pbind]. now rewrite V.
Qed.

(* the three ways the symbols of an enum are rejected *)
Lemma enum_malformed_symbol kv syms :
  jget "symbols" kv = Some (JArr syms) -> symbol_strings syms = None -> validate_enum_symbols kv = PErrParse.
Proof. intros S N. unfold validate_enum_symbols. now rewrite S, N. Qed.

Lemma symbol_strings_none syms x :
  In x syms -> (forall s, x = JStr s -> symbol_ok s = false) -> symbol_strings syms = None.
Proof.
  intros I B. induction syms as [|y r IH]; [destruct I|].
  destruct I as [->|I].
  - destruct x; try reflexivity. cbn [symbol_strings]. now rewrite (B _ eq_refl).
  - cbn [symbol_strings]. destruct y; try reflexivity. rewrite (IH I). now destruct (symbol_ok s).
Qed.

Lemma enum_duplicate_symbol kv syms ss :
  jget "symbols" kv = Some (JArr syms) -> symbol_strings syms = Some ss -> nodupb ss = false ->
  validate_enum_symbols kv = PErrParse.
Proof. intros S N D. unfold validate_enum_symbols. now rewrite S, N, D. Qed.

Lemma enum_default_outside kv syms ss dv :
  jget "symbols" kv = Some (JArr syms) -> symbol_strings syms = Some ss -> nodupb ss = true ->
  jget "default" kv = Some dv -> (forall s, dv = JStr s -> mem s ss = false) ->
  validate_enum_symbols kv = PErrParse.
Proof.
  intros S N D DV B. unfold validate_enum_symbols. rewrite S, N, D, DV. cbn [negb].
  destruct dv; try reflexivity. now rewrite (B _ eq_refl).
Qed.

(* defaults *)
Lemma exact_default_prim f s ns wh st dv :
  is_prim s = true -> default_matches_prim dv (JStr s) = POk false ->
  parse_rec (S f) (JStr s) ns wh st (Some dv) = PErrParse.
Proof. intros P M. cbn [parse_rec parse_node]. now rewrite P, M. Qed.

Lemma exact_default_ref f s ns wh st dv :
  is_prim s = false -> jhas (qualify ns s) (st_tbl st) = true ->
  default_matches (st_tbl st) dv (JStr (qualify ns s)) = POk false ->
  parse_rec (S f) (JStr s) ns wh st (Some dv) = PErrParse.
Proof. intros P J M. cbn [parse_rec parse_node]. now rewrite P, J, M. Qed.

Lemma exact_default_union f l ns wh st dv ps st1 :
  parse_members (parse_rec f) ns l st = POk (ps, st1) -> any_match (st_tbl st1) dv ps = POk false ->
  parse_rec (S f) (JArr l) ns wh st (Some dv) = PErrParse.
Proof. intros M A. cbn [parse_rec parse_node]. now rewrite M; cbn [pbind]; rewrite A. Qed.

Lemma exact_default_primdict f kv t ns wh st dv :
  jget "type" kv = Some (JStr t) -> is_prim t = true ->
  decimal_checks (base_of kv (JStr t)) kv (JStr t) = POk tt ->
  default_matches_prim dv (JStr t) = POk false ->
  parse_rec (S f) (JObj kv) ns wh st (Some dv) = PErrParse.
Proof.
  intros T P D M. destruct (prim_not_complex _ P) as (N1 & N2 & N3 & N4 & N5 & N6).
  cbn [parse_rec parse_node]. unfold parse_dict. rewrite T. fold (base_of kv (JStr t)). rewrite D.
  cbn [pbind]. rewrite N1, N2, N3, N4, N5, N6, P. cbn [orb]. now rewrite M.
Qed.

(* what the default rule says about booleans, named references and complex members (the repaired checks) *)
Lemma default_bool_not_number b t :
  t = "int" \/ t = "long" \/ t = "float" \/ t = "double" -> default_matches_prim (JBool b) (JStr t) = POk false.
Proof. intros [-> | [-> | [-> | ->]]]; reflexivity. Qed.

Lemma default_ref_by_definition tbl dv q kv :
  is_prim q = false -> jget q tbl = Some (JObj kv) ->
  default_matches tbl dv (JStr q) = default_matches_leaf dv (JObj kv).
Proof.
  intros P G. cbn [default_matches]. rewrite P, G. cbn [negb andb].
  destruct tbl; [discriminate G|reflexivity].
Qed.

Lemma default_complex_member dv kv t :
  jget "type" kv = Some (JStr t) ->
  default_matches_leaf dv (JObj kv) =
    if String.eqb t "array" then POk (is_jarr dv)
    else if String.eqb t "map" || String.eqb t "record" || String.eqb t "error" then POk (is_jobj dv)
    else if String.eqb t "enum" || String.eqb t "fixed" then POk (is_jstr dv)
    else default_matches_prim dv (JStr t).
Proof. intros T. cbn [default_matches_leaf]. now rewrite T. Qed.

Lemma exact_default_named f kv t ns wh st dv ns' full :
  jget "type" kv = Some (JStr t) -> (t = "enum" \/ t = "fixed") ->
  decimal_checks (base_of kv (JStr t)) kv (JStr t) = POk tt ->
  schema_name kv ns = POk (ns', full) -> mem full (st_names st) = false ->
  (t = "enum" -> validate_enum_symbols kv = POk tt) ->
  is_jstr dv = false ->
  parse_rec (S f) (JObj kv) ns wh st (Some dv) = PErrParse.
Proof.
  intros T N D SN M V J. cbn [parse_rec parse_node]. unfold parse_dict. rewrite T. fold (base_of kv (JStr t)). rewrite D.
  cbn [pbind]. unfold declare.
  destruct N as [-> | ->]; cbn [String.eqb Ascii.eqb Bool.eqb]; rewrite SN; cbn [pbind]; rewrite M; cbn [pbind check_default];
    [rewrite (V eq_refl); cbn [pbind]|]; now rewrite J.
Qed.

Lemma exact_default_record f kv t ns wh st dv ns' full :
  jget "type" kv = Some (JStr t) -> (t = "record" \/ t = "error") ->
  decimal_checks (base_of kv (JStr t)) kv (JStr t) = POk tt ->
  schema_name kv ns = POk (ns', full) -> mem full (st_names st) = false ->
  is_jobj dv = false ->
  parse_rec (S f) (JObj kv) ns wh st (Some dv) = PErrParse.
Proof.
  intros T N D SN M J. cbn [parse_rec parse_node]. unfold parse_dict. rewrite T. fold (base_of kv (JStr t)). rewrite D.
  cbn [pbind]. unfold declare.
  destruct N as [-> | ->]; cbn [String.eqb Ascii.eqb Bool.eqb orb]; rewrite SN; cbn [pbind]; rewrite M;
    cbn [pbind check_default]; now rewrite J.
Qed.

(* decimal: each listed violation makes decimal_checks fail with a parse error *)
Section Decimal.
  Variables (parsed kv : list (string * json)) (ty : json).
  Hypothesis L : jget "logicalType" parsed = Some (JStr "decimal").

  Lemma decimal_scale_bad sc :
    jget "scale" parsed = Some sc -> present sc = true ->
    (as_jint sc = None \/ exists z, as_jint sc = Some z /\ z < 0) ->
    decimal_checks parsed kv ty = PErrParse.
  Proof.
    intros S T B. unfold decimal_checks. rewrite L, S, T. cbn [String.eqb Ascii.eqb Bool.eqb negb].
    destruct B as [-> | (z & -> & Z)]; [reflexivity|].
    destruct (Z.ltb z 0) eqn:E; [reflexivity|lia].
  Qed.

  Lemma decimal_precision_bad pr :
    (forall sc, jget "scale" parsed = Some sc -> present sc = true -> exists z, as_jint sc = Some z /\ 0 <= z) ->
    jget "precision" parsed = Some pr -> present pr = true ->
    (as_jint pr = None \/ exists z, as_jint pr = Some z /\ z <= 0) ->
    decimal_checks parsed kv ty = PErrParse.
  Proof.
    intros SC P T B. unfold decimal_checks. rewrite L, P, T. cbn [String.eqb Ascii.eqb Bool.eqb negb].
    assert (S1 : (if present (match jget "scale" parsed with Some v => v | None => JNull end)
                  then match as_jint (match jget "scale" parsed with Some v => v | None => JNull end) with
                       | Some z => if Z.ltb z 0 then PErrParse else POk tt | None => PErrParse end
                  else POk tt) = (POk tt : pres unit)).
    { destruct (jget "scale" parsed) as [sc|]; [|reflexivity].
      destruct (present sc) eqn:TS; [|reflexivity].
      destruct (SC sc eq_refl TS) as (z & -> & Z). destruct (Z.ltb z 0) eqn:E; [lia|reflexivity]. }
    rewrite S1. cbn [pbind].
    destruct B as [-> | (z & -> & Z)]; [reflexivity|].
    destruct (Z.leb z 0) eqn:E; [reflexivity|lia].
  Qed.
End Decimal.

Lemma decimal_precision_too_large parsed kv sz size p :
  jget "logicalType" parsed = Some (JStr "decimal") ->
  jget "scale" parsed = None -> jget "precision" parsed = Some (JInt p) ->
  jget "size" kv = Some sz -> as_pyint sz = Some size -> max_precision size < p -> 0 < p ->
  decimal_checks parsed kv (JStr "fixed") = PErrParse.
Proof.
  intros L S P SZ AS M Z. unfold decimal_checks. rewrite L, S, P, SZ, AS.
  cbn [String.eqb Ascii.eqb Bool.eqb negb present is_jnull as_jint as_pyint pbind].
  destruct (Z.eqb p 0) eqn:E0; [lia|]. cbn [negb].
  destruct (Z.leb p 0) eqn:E1; [lia|].
  destruct (Z.ltb (max_precision size) p) eqn:E2; [reflexivity|lia].
Qed.

Lemma decimal_scale_above_precision parsed kv ty s p :
  jget "logicalType" parsed = Some (JStr "decimal") ->
  jget "scale" parsed = Some (JInt s) -> jget "precision" parsed = Some (JInt p) ->
  0 < p -> p < s -> (ty <> JStr "fixed") ->
  decimal_checks parsed kv ty = PErrParse.
Proof.
  intros L S P Z1 Z2 NF. unfold decimal_checks. rewrite L, S, P.
  cbn [String.eqb Ascii.eqb Bool.eqb negb present is_jnull as_jint as_pyint].
  destruct (Z.eqb s 0) eqn:E0; [lia|]. destruct (Z.eqb p 0) eqn:E1; [lia|]. cbn [negb andb].
  destruct (Z.ltb s 0) eqn:E2; [lia|]. cbn [pbind].
  destruct (Z.leb p 0) eqn:E3; [lia|].
  assert (F : match ty with
              | JStr t => if String.eqb t "fixed" then
                            match jget "size" kv with
                            | Some sz => match as_pyint sz with
                                         | Some size => if Z.ltb (max_precision size) p then PErrParse else POk tt
                                         | None => PErrOther end
                            | None => PErrOther end
                          else POk tt
              | _ => POk tt end = (POk tt : pres unit)).
  { destruct ty; try reflexivity. destruct (String.eqb_spec s0 "fixed"); [subst; contradiction|reflexivity]. }
  rewrite F. cbn [pbind]. destruct (Z.ltb p s) eqn:E4; [reflexivity|lia].
Qed.

(** ---- parse_schema: the name set is shared by the members of a top-level union ---- *)
Lemma unmarked_arr l : unmarked (JArr l) = forallb unmarked l.
Proof. unfold unmarked. rewrite jfold_arr. rewrite forallb_map. reflexivity. Qed.

Lemma unmarked_obj kv : unmarked (JObj kv) = negb (jhas "__fastavro_parsed" kv).
Proof. reflexivity. Qed.

Lemma parse_schema_rec_names f : forall j st p st',
  unmarked j = true -> parse_schema_rec f j st = POk (p, st') ->
  st_names st' = (st_names st ++ spec_names "" j)%list /\ (NoDup (st_names st) -> NoDup (st_names st')).
Proof.
  induction f as [|f IH]; intros j st p st' U H; cbn [parse_schema_rec] in H; [discriminate H|].
  assert (RUN : forall j0, run_parse f j0 st = POk (p, st') ->
                st_names st' = (st_names st ++ spec_names "" j0)%list /\ (NoDup (st_names st) -> NoDup (st_names st'))).
  { unfold run_parse. intros j0 R. split; [exact (proj1 (parse_rec_names f _ _ _ _ _ _ _ R))|].
    exact (parse_rec_nodup f _ _ _ _ _ _ _ R). }
  destruct j as [| | | | |l|kv]; try (apply RUN; exact H).
  - destruct (parse_tops (parse_schema_rec f) l st) as [[ps st1]| | | |] eqn:E; cbn [pbind] in H; try discriminate H.
    injection H as <- <-. rewrite unmarked_arr in U.
    unfold spec_names. rewrite spec_names_m_arr. fold (spec_names "").
    clear RUN. revert st ps st1 E. induction l as [|m r IHl]; intros st ps st1 E; cbn [parse_tops] in E.
    + injection E as <- <-. cbn [map concat]. rewrite app_nil_r. auto.
    + cbn [forallb] in U. apply Bool.andb_true_iff in U. destruct U as [U1 U2].
      destruct (parse_schema_rec f m st) as [[p1 st2]| | | |] eqn:E1; cbn [pbind] in E; try discriminate E.
      destruct (parse_tops (parse_schema_rec f) r st2) as [[ps2 st3]| | | |] eqn:E2; cbn [pbind] in E; try discriminate E.
      injection E as <- <-.
      destruct (IH _ _ _ _ U1 E1) as [A1 B1].
      destruct (IHl U2 _ _ _ E2) as [A2 B2].
      cbn [map concat]. split; [rewrite A2, A1, <- app_assoc; reflexivity|auto].
  - rewrite unmarked_obj in U. apply Bool.negb_true_iff in U. rewrite U in H. apply RUN. exact H.
Qed.

Theorem parse_schema_names_unique f j t p t' :
  unmarked j = true -> parse_schema f j t = POk (p, t') -> NoDup (spec_names "" j).
Proof.
  unfold parse_schema. intros U H.
  destruct (parse_schema_rec f j (mkst [] t)) as [[p0 st1]| | | |] eqn:E; cbn [pbind] in H; try discriminate H.
  destruct (parse_schema_rec_names f _ _ _ _ U E) as [A B]. cbn [st_names app] in A, B.
  rewrite <- A. apply B. constructor.
Qed.

(** ---- the table entry of every name carries that name ----
    [open]: the records whose fields are being parsed (their entries are the partially built dicts) *)
Definition entries_ok (open : list string) (tbl : named) : Prop :=
  forall n d, jget n tbl = Some d -> In n open \/ exists kv, d = JObj kv /\ jget "name" kv = Some (JStr n).

Lemma entries_set open tbl n kv :
  entries_ok open tbl -> jget "name" kv = Some (JStr n) -> entries_ok open (jset n (JObj kv) tbl).
Proof.
  intros E N m d G. destruct (String.eqb_spec m n) as [->|NE].
  - rewrite jget_jset_eq in G. injection G as <-. right. eauto.
  - rewrite jget_jset_neq in G; [eauto|]. now apply String.eqb_neq.
Qed.

Lemma entries_set_open open tbl n v : entries_ok open tbl -> entries_ok (n :: open) (jset n v tbl).
Proof.
  intros E m d G. destruct (String.eqb_spec m n) as [->|NE]; [left; left; reflexivity|].
  rewrite jget_jset_neq in G by (now apply String.eqb_neq).
  destruct (E _ _ G) as [I|X]; [left; right; exact I|right; exact X].
Qed.

Lemma entries_close open tbl n kv :
  entries_ok (n :: open) tbl -> jget "name" kv = Some (JStr n) -> entries_ok open (jset n (JObj kv) tbl).
Proof.
  intros E N m d G. destruct (String.eqb_spec m n) as [->|NE].
  - rewrite jget_jset_eq in G. injection G as <-. right. eauto.
  - rewrite jget_jset_neq in G by (now apply String.eqb_neq).
    destruct (E _ _ G) as [[X|I]|X]; [congruence|left; exact I|right; exact X].
Qed.

Definition entries_spec (rec : recfun) : Prop :=
  forall j ns wh st d p st' open,
    rec j ns wh st d = POk (p, st') -> entries_ok open (st_tbl st) -> entries_ok open (st_tbl st').

Section EntriesStep.
  Variable rec : recfun.
  Hypothesis IH : entries_spec rec.
  Lemma node_entries : entries_spec (parse_node rec).
  Proof.
    intros j ns wh st d p st' open H. apply parse_node_inv in H.
    destruct H as [s ns wh st d P|s ns wh st d P J|l ns wh st d ps st' M|kv t ns wh st d T P
                   |kv it ns wh st d p st' T I R|kv it ns wh st d p st' T I R
                   |kv ns wh st d ns' full syms ss T SN D SY SS ND parsed
                   |kv ns wh st d ns' full sz T SN D SZ parsed
                   |kv t ns wh st d ns' full fl fs st3 T TT SN D FL FS reckv]; intros E; auto.
    - revert E. induction M as [st0|s0 r0 st0 p0 st1 ps0 st2 R M IHM]; intros E; [exact E|].
      apply IHM. exact (IH _ _ _ _ _ _ _ _ R E).
    - exact (IH _ _ _ _ _ _ _ _ R E).
    - exact (IH _ _ _ _ _ _ _ _ R E).
    - cbn [set_tbl declared st_tbl]. apply entries_set; [exact E|]. getk. reflexivity.
    - cbn [set_tbl declared st_tbl]. apply entries_set; [exact E|]. getk. reflexivity.
    - cbn [set_tbl st_tbl]. apply entries_close; [|subst reckv; getk; reflexivity].
      assert (E2 : entries_ok (full :: open) (st_tbl (set_tbl full (JObj (rbase kv t full ns)) (declared full st)))).
      { cbn [set_tbl declared st_tbl]. now apply entries_set_open. }
      remember (set_tbl full (JObj (rbase kv t full ns)) (declared full st)) as sta eqn:Esta. clear Esta.
      clear reckv FL. revert E2. induction FS as [st0|fd r0 st0 p0 st1 ps0 st2 F M IHM]; intros E2; auto.
      apply IHM. destruct F as [fkv nm ty st5 p5 st6 N5 T5 R5]. exact (IH _ _ _ _ _ _ _ _ R5 E2).
  Qed.
End EntriesStep.

Theorem parse_rec_entries f : entries_spec (parse_rec f).
Proof.
  induction f as [|f IH]; cbn [parse_rec].
  - intros j ns wh st d p st' open H. discriminate H.
  - apply node_entries. exact IH.
Qed.

(* every reference of the result denotes a table entry that carries that full name *)
Theorem refs_denote f j ns wh st d p st' :
  parse_rec f j ns wh st d = POk (p, st') -> entries_ok [] (st_tbl st) ->
  forall r, In r (refs p) -> exists kv, jget r (st_tbl st') = Some (JObj kv) /\ jget "name" kv = Some (JStr r).
Proof.
  intros H E r I.
  destruct (parse_rec_refs f _ _ _ _ _ _ _ H) as [_ B]. specialize (B r I).
  pose proof (parse_rec_entries f _ _ _ _ _ _ _ [] H E) as E'.
  unfold jhas in B. destruct (jget r (st_tbl st')) as [dv|] eqn:G; [|discriminate B].
  destruct (E' _ _ G) as [[]|(kv & -> & N)]. eauto.
Qed.

(** ---- the "namespace" key of the output (_keep_null_namespace) ---- *)
Definition kept_namespace (ns full : string) : option json :=
  if negb (String.eqb ns "") && negb (has_dot full) then Some (JStr "") else None.

Lemma keep_get_namespace full enc kv :
  jget "namespace" kv = None -> jget "namespace" (keep_null_ns full enc kv) = kept_namespace enc full.
Proof.
  intros N. unfold keep_null_ns, kept_namespace.
  destruct (negb (String.eqb enc "") && negb (has_dot full)); [apply jget_jset_eq|exact N].
Qed.

Theorem output_namespace f kv t ns wh st d pkv st' :
  parse_rec f (JObj kv) ns wh st d = POk (JObj pkv, st') ->
  jget "type" kv = Some (JStr t) -> named_type t ->
  jget "namespace" pkv = kept_namespace ns (spec_fullname ns kv) /\ jget "name" pkv = Some (JStr (spec_fullname ns kv)).
Proof.
  intros H T N. open_accept H.
  inversion H; subst; same_type;
    try (destruct N as [N|[N|[N|N]]]; subst; discriminate);
    match goal with SN : schema_name kv _ = POk _ |- _ => apply schema_name_spec in SN; destruct SN as (-> & -> & _) end.
  - rewrite jget_jset_neq by reflexivity. rewrite keep_get_namespace; [|getk; reflexivity]. split; [reflexivity|getk; reflexivity].
  - rewrite jget_jset_neq by reflexivity. rewrite keep_get_namespace; [|getk; reflexivity]. split; [reflexivity|getk; reflexivity].
  - match goal with X : mark _ _ = JObj pkv |- _ => unfold mark in X; destruct wh; injection X as <- end;
      repeat match goal with x := _ |- _ => subst x end;
      (split; [|getk; reflexivity]);
      repeat rewrite jget_jset_neq by reflexivity; unfold rbase; (rewrite keep_get_namespace; [|getk; reflexivity]);
      reflexivity.
Qed.
