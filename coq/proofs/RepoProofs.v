(** Facts about the repository loader model (model/Repo.v). *)
From Coq Require Import String Ascii Lia.
From FA Require Import model.Base model.Json model.Parse model.SchemaSpec model.Inline model.Canon model.Repo
     proofs.JsonProofs proofs.ParseProofs.
Open Scope string_scope.

(** parse_schema_g with the hint is parse_schema *)
Lemma parse_schema_rec_g_true f : forall j st, parse_schema_rec_g true f j st = parse_schema_rec f j st.
Proof.
  induction f as [|f IH]; intros j st; cbn [parse_schema_rec_g parse_schema_rec]; [reflexivity|].
  unfold run_parse. destruct j as [| | | | |l|kv]; try reflexivity.
  assert (E : forall st, parse_tops (parse_schema_rec_g true f) l st = parse_tops (parse_schema_rec f) l st).
  { induction l as [|x r IHl]; intros st0; cbn [parse_tops]; [reflexivity|]. rewrite IH.
    destruct (parse_schema_rec f x st0) as [[p st1]| | | |]; cbn [pbind]; try reflexivity. now rewrite IHl. }
  now rewrite E.
Qed.

Lemma parse_schema_g_true f j t : parse_schema_g true f j t = parse_schema f j t.
Proof. unfold parse_schema_g, parse_schema. now rewrite parse_schema_rec_g_true. Qed.

(** the first attempt succeeds: nothing is loaded *)
Lemma pwr_first_try f rp schema tbl wh inj p tbl' :
  parse_schema_g wh (fuel_for schema) schema tbl = POk (p, tbl') ->
  pwr (S f) rp schema tbl wh inj = Some (POk (p, tbl', inj)).
Proof. intros H. cbn [pwr]. now rewrite H. Qed.

(** a missing file surfaces as UnknownType naming the missing subject, from any depth *)
Lemma pwr_missing f rp schema tbl wh inj q junk :
  parse_schema_g wh (fuel_for schema) schema tbl = PErrUnknown q junk -> jget q rp = None ->
  pwr (S f) rp schema tbl wh inj = Some (PErrUnknown q junk).
Proof. intros H G. cbn [pwr]. now rewrite H, G. Qed.

Lemma pwr_missing_nested f rp schema tbl wh inj q junk raw q' junk' :
  parse_schema_g wh (fuel_for schema) schema tbl = PErrUnknown q junk -> jget q rp = Some raw ->
  pwr f rp raw tbl false inj = Some (PErrUnknown q' junk') ->
  pwr (S f) rp schema tbl wh inj = Some (PErrUnknown q' junk').
Proof. intros H G S. cbn [pwr]. now rewrite H, G, S. Qed.

Lemma load_missing_top rp name : jget name rp = None -> load rp name = None.
Proof. intros G. unfold load, load_g. now rewrite G. Qed.

(* pwr never reports a repository error itself: only the top-level file can be missing *)
Lemma pwr_some f : forall rp schema tbl wh inj, pwr f rp schema tbl wh inj <> None.
Proof.
  induction f as [|f IH]; intros rp schema tbl wh inj; cbn [pwr]; [discriminate|].
  destruct (parse_schema_g wh (fuel_for schema) schema tbl) as [[p t]| |q junk| |]; try discriminate.
  destruct (jget q rp) as [raw|]; [|discriminate].
  destruct (pwr f rp raw tbl false inj) as [[[[sub c] i]| |a b| |]|] eqn:E; try discriminate.
  destruct (sub_name sub); [|discriminate].
  match goal with |- context [match ?x with POk _ => _ | _ => _ end] => destruct x as [[s2 i2]| | | |] end; try discriminate.
  destruct (pwr f rp s2 c wh i2) as [[[[p2 c2] i3]| |a b| |]|] eqn:E2; try discriminate.
  exfalso. exact (IH _ _ _ _ _ E2).
Qed.

(* whatever the loader returns is the result of a successful parse_schema of some schema
   against some dictionary: the C11 / C13 theorems about parse results apply to it *)
Theorem pwr_result_is_a_parse f : forall rp schema tbl wh inj p t i,
  pwr f rp schema tbl wh inj = Some (POk (p, t, i)) ->
  exists schema' tbl' t', parse_schema_g wh (fuel_for schema') schema' tbl' = POk (p, t').
Proof.
  induction f as [|f IH]; intros rp schema tbl wh inj p t i H; cbn [pwr] in H; [discriminate H|].
  destruct (parse_schema_g wh (fuel_for schema) schema tbl) as [[p0 t0]| |q junk| |] eqn:P; try discriminate H.
  - injection H as <- <- <-. eauto.
  - destruct (jget q rp) as [raw|]; [|discriminate H].
    destruct (pwr f rp raw tbl false inj) as [[[[sub c] i1]| |a b| |]|] eqn:E; try discriminate H.
    destruct (sub_name sub); [|discriminate H].
    match type of H with context [match ?x with POk _ => _ | _ => _ end] => destruct x as [[s2 i2]| | | |] end; try discriminate H.
    destruct (pwr f rp s2 c wh i2) as [[[[p2 c2] i3]| |a b| |]|] eqn:E2; try discriminate H.
    injection H as <- <- <-. eapply IH; eauto.
Qed.
