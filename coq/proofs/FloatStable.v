(** What pack("<f") produces survives unpack("<f") followed by pack("<f"): d2s b = Ok x -> d2s (s2d x) = Ok x.
    (Through Flocq like proofs/FloatProofs.v: Reals axioms + classic.)  Used to discharge the float clause of the C09
    closure side condition for values the writer wrote. *)
From Coq Require Import ZArith Reals Lia Lra SpecFloat Bool.
From Flocq Require Import Core Round Digits FLT Generic_fmt Float_prop Raux BinarySingleNaN.
From FA Require Import model.Base model.Float proofs.FloatBits proofs.FloatProofs.
Open Scope Z_scope.

Lemma finite_unique prec emax s1 m1 e1 s2 m2 e2 :
  valid_binary prec emax (S754_finite s1 m1 e1) = true -> valid_binary prec emax (S754_finite s2 m2 e2) = true ->
  rval s1 m1 e1 = rval s2 m2 e2 -> S754_finite s1 m1 e1 = S754_finite s2 m2 e2.
Proof.
  intros H1 H2 Hr. cbn [valid_binary] in H1, H2.
  assert (E : B754_finite s1 m1 e1 H1 = B754_finite s2 m2 e2 H2 :> binary_float prec emax).
  { apply B2R_inj; [reflexivity|reflexivity|exact Hr]. }
  inversion E. reflexivity.
Qed.

Lemma rval_neq0 s m e : rval s m e <> 0%R.
Proof.
  unfold rval. intros H. apply eq_0_F2R in H. destruct s; cbn [cond_Zopp] in H; lia.
Qed.

(* quiet NaNs: sign and payload survive *)
Lemma nan32_stable sgn K : 0 <= K < 2 ^ 23 ->
  let x := signbit 23 8 sgn + 255 * 2 ^ 23 + Z.lor (2 ^ 22) K in d2s (s2d x) = Ok x.
Proof.
  intros HK x. set (M := Z.lor (2 ^ 22) K) in *.
  assert (HM : 0 <= M < 2 ^ 23) by (apply lor_lt; lia).
  assert (HM0 : M <> 0) by (intros E; apply Z.lor_eq_0_iff in E; destruct E as [E _]; discriminate E).
  assert (Hx : x = b2z sgn * 2 ^ (23 + 8) + 255 * 2 ^ 23 + M) by (unfold x; rewrite signbit_b2z; reflexivity).
  destruct (split_fields 23 8 (b2z sgn) 255 M ltac:(lia) ltac:(lia) HM ltac:(lia) (b2z_range sgn)) as (F1 & _ & F3 & _).
  cbv zeta in F1, F3. rewrite <- Hx in F1, F3. rewrite b2z_eqb in F3.
  assert (Hd : fdecode 23 8 x = S754_nan).
  { rewrite Hx, fdecode_fields by (try lia; apply b2z_range). cbv zeta. change (255 =? 0) with false. change (255 =? 2 ^ 8 - 1) with true.
    cbv iota. destruct (M =? 0) eqn:E; [lia|reflexivity]. }
  unfold s2d. rewrite Hd. change (23 + 8) with 31 in F3. rewrite F3. unfold frac32. rewrite land_ones' by lia. rewrite F1.
  set (M2 := Z.lor (2 ^ 51) (Z.shiftl M 29)).
  assert (HM2 : 0 <= M2 < 2 ^ 52).
  { apply lor_lt; [lia|lia|]. rewrite Z.shiftl_mul_pow2 by lia. change (2 ^ 52) with (2 ^ 23 * 2 ^ 29). nia. }
  assert (HM20 : M2 <> 0) by (intros E; apply Z.lor_eq_0_iff in E; destruct E as [E _]; discriminate E).
  set (y := signbit 52 11 sgn + 2047 * 2 ^ 52 + M2).
  assert (Hy : y = b2z sgn * 2 ^ (52 + 11) + 2047 * 2 ^ 52 + M2) by (unfold y; rewrite signbit_b2z; reflexivity).
  destruct (split_fields 52 11 (b2z sgn) 2047 M2 ltac:(lia) ltac:(lia) HM2 ltac:(lia) (b2z_range sgn)) as (G1 & _ & G3 & _).
  cbv zeta in G1, G3. rewrite <- Hy in G1, G3. rewrite b2z_eqb in G3.
  assert (Hdy : fdecode 52 11 y = S754_nan).
  { rewrite Hy, fdecode_fields by (try lia; apply b2z_range). cbv zeta. change (2047 =? 0) with false. change (2047 =? 2 ^ 11 - 1) with true.
    cbv iota. destruct (M2 =? 0) eqn:E; [lia|reflexivity]. }
  unfold d2s. rewrite Hdy. change (52 + 11) with 63 in G3. rewrite G3. unfold frac64. rewrite land_ones' by lia. rewrite G1.
  f_equal. unfold x. f_equal. unfold M2. rewrite Z.shiftr_lor, Z.shiftr_shiftl_l by lia. change (29 - 29) with 0. rewrite Z.shiftl_0_r.
  change (Z.shiftr (2 ^ 51) 29) with (2 ^ 22). unfold M. rewrite !Z.lor_assoc, !Z.lor_diag. reflexivity.
Qed.

(* zeros and infinities *)
Lemma special32_stable y : (exists s, y = S754_zero s) \/ (exists s, y = S754_infinity s) -> d2s (s2d (fencode 23 8 y)) = Ok (fencode 23 8 y).
Proof. intros [[s ->]|[s ->]]; destruct s; vm_compute; reflexivity. Qed.

(* finite binary32 values *)
Lemma finite32_stable s m e : valid_binary 24 128 (S754_finite s m e) = true ->
  d2s (s2d (fencode 23 8 (S754_finite s m e))) = Ok (fencode 23 8 (S754_finite s m e)).
Proof.
  intros Hv. set (x := fencode 23 8 (S754_finite s m e)).
  assert (Hdx : fdecode 23 8 x = S754_finite s m e) by (apply fdecode32_fencode; [exact Hv|discriminate]).
  destruct (s2d_finite_exact x s m e Hdx) as (y64 & _ & Hy & Hval & Hfin).
  destruct y64 as [s2| | |s2 m2 e2]; try discriminate Hfin.
  { exfalso. cbn in Hval. symmetry in Hval. exact (rval_neq0 _ _ _ Hval). }
  pose proof (d2s_finite_spec (s2d x) s2 m2 e2 Hy) as Hs. cbv zeta in Hs.
  assert (Hr : rne 24 128 (rval s2 m2 e2) = rval s m e).
  { change (rval s2 m2 e2) with (SF2R radix2 (S754_finite s2 m2 e2)). rewrite Hval. unfold rne.
    apply round_generic; [typeclasses eauto|]. apply valid_generic. exact Hv. }
  rewrite Hr in Hs. rewrite Rlt_bool_true in Hs by (apply (valid_lt_emax 24 128); try lia; exact Hv).
  destruct Hs as (y' & Hd & Hrt & Hv' & Hf' & _ & _). rewrite Hd. f_equal. unfold x. f_equal.
  assert (Hvy : valid_binary 24 128 y' = true) by (rewrite <- Hrt; apply (fdecode_valid 23 8); lia).
  destruct y' as [s'| | |s' m' e']; try discriminate Hf'.
  { exfalso. cbn in Hv'. exact (rval_neq0 _ _ _ (eq_sym Hv')). }
  apply finite_unique with (prec := 24) (emax := 128); [exact Hvy|exact Hv|exact Hv'].
Qed.

(** pack("<f") after unpack("<f") is the identity on everything pack("<f") produces *)
Theorem d2s_stable b x : d2s b = Ok x -> d2s (s2d x) = Ok x.
Proof.
  unfold d2s at 1. destruct (fdecode 52 11 b) as [s|s| |s m e] eqn:Hd; intros H.
  - injection H as <-. apply special32_stable. left. eauto.
  - injection H as <-. apply special32_stable. right. eauto.
  - injection H as <-. apply nan32_stable. apply frac_shift.
  - pose proof (spec_round 24 128 s m e ltac:(lia) ltac:(lia)) as [Hv _].
    destruct (SpecFloat.binary_round 24 128 s m e) as [s'|s'| |s' m' e'] eqn:Er; try discriminate H; injection H as <-.
    + apply special32_stable. left. eauto.
    + exfalso. exact (round_not_nan 24 128 s m e ltac:(lia) ltac:(lia) Er).
    + apply finite32_stable. exact Hv.
Qed.
