(** What pack("<f") produces survives unpack("<f") followed by pack("<f").  The proof is proofs/FloatProofs.v's
    [d2s_image_stable] (Flocq: Reals axioms + classic); this file only keeps the name used by proofs/ElabFloats.v. *)
From Coq Require Import ZArith.
From FA Require Import model.Base model.Float proofs.FloatBits proofs.FloatProofs.
Open Scope Z_scope.

Theorem d2s_stable b x : d2s b = Ok x -> d2s (s2d x) = Ok x.
Proof. exact (d2s_image_stable b x). Qed.
