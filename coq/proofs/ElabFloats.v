(** The float side condition of [elab_typed] discharged: every binary32 / binary64 pattern the writer's elaboration
    produces is in range, because the input floats are binary64 patterns ([pyfloats_ok]) and d2s / z2d only produce
    patterns (proofs/FloatProofs.v, through Flocq: depends on the standard library's Reals axioms and classic).
    Kept apart from proofs/ElabProofs.v, which stays closed under the global context. *)
From Coq Require Import String Lia ZifyBool.
From FA Require Import model.Base model.Varint model.Value model.Schema model.Utf8 model.Float model.Codec
                       model.Validate model.Write model.Read model.Conform
                       proofs.VarintProofs proofs.CodecProofs proofs.ElabProofs proofs.FloatProofs.

Lemma pyfl_dict_get kv k x : pyfloats_ok (PDict kv) = true -> dict_get kv k = Some x -> pyfloats_ok x = true.
Proof.
  cbn [pyfloats_ok]. intros H Hg. rewrite forallb_forall in H. destruct (dict_get_in _ _ _ Hg) as [k' Hin].
  specialize (H _ Hin). cbn [fst snd] in H. apply andb_prop in H. apply H.
Qed.

Lemma dflt_lookup e n s : env_floats_ok e = true -> lookup e n = Some s -> dflt_floats_ok s = true.
Proof. unfold env_floats_ok. intros H Hl. rewrite forallb_forall in H. destruct (lookup_in _ _ _ Hl) as [k Hin]. exact (H _ Hin). Qed.

Lemma to_double_range v b : pyfloats_ok v = true -> to_double v = WOk b -> 0 <= b < 2 ^ 64.
Proof.
  destruct v; cbn [to_double]; intros Hv H; try discriminate.
  - destruct (z2d z) as [d| |] eqn:E; cbn [of_res] in H; try discriminate. injection H as <-. exact (z2d_range _ _ E).
  - injection H as <-. cbn [pyfloats_ok] in Hv. lia.
Qed.

Lemma Forall2_forallb_r {A B} (R : A -> B -> Prop) (p : A -> bool) (q : B -> bool) l r :
  Forall2 R l r -> forallb p l = true -> (forall x y, R x y -> p x = true -> q y = true) -> forallb q r = true.
Proof.
  intros H; induction H as [|x y l r Hxy _ IH]; intros Hp Hq; [reflexivity|]. cbn [forallb] in *.
  apply andb_prop in Hp. destruct Hp as [H1 H2]. rewrite (Hq _ _ Hxy H1), (IH H2 Hq). reflexivity.
Qed.

Theorem elab_floats_ok : forall f o e s v a,
  elab f o e s v = WOk a -> env_floats_ok e = true -> dflt_floats_ok s = true -> pyfloats_ok v = true -> floats_ok a = true.
Proof.
  induction f as [|f IH]; intros o e s v a H He Hs Hv; [discriminate|].
  destruct s.
  - cbn [elab] in H. destruct v; try discriminate. injection H as <-. reflexivity.
  - cbn [elab] in H. destruct v; try discriminate. injection H as <-. reflexivity.
  - cbn [elab] in H. destruct v; try discriminate. destruct ((INT_MIN <=? z) && (z <=? INT_MAX)); [|discriminate]. injection H as <-. reflexivity.
  - cbn [elab] in H. destruct v; try discriminate. destruct ((LONG_MIN <=? z) && (z <=? LONG_MAX)); [|discriminate]. injection H as <-. reflexivity.
  - (* float *)
    assert (Hn : exists b x, to_double v = WOk b /\ d2s b = Ok x /\ a = AFloat x).
    { cbn [elab] in H. destruct v; try discriminate; inv_w H; inv_w H; injection H as <-;
        (destruct (d2s x) as [y| |] eqn:Ed; cbn [of_res] in E0; try discriminate; injection E0 as <-; eauto). }
    destruct Hn as (b & x & _ & Hd & ->). cbn [floats_ok]. pose proof (d2s_range _ _ Hd). lia.
  - (* double *)
    assert (Hn : exists b, to_double v = WOk b /\ a = ADouble b).
    { cbn [elab] in H. destruct v; try discriminate; inv_w H; injection H as <-; eauto. }
    destruct Hn as (b & Hb & ->). cbn [floats_ok]. pose proof (to_double_range _ _ Hv Hb). lia.
  - cbn [elab] in H. destruct v; try discriminate; injection H as <-; reflexivity.
  - cbn [elab] in H. destruct v; try discriminate. injection H as <-. reflexivity.
  - cbn [elab] in H. destruct v; try discriminate; [|destruct (len b =? size); discriminate].
    destruct (len b =? size); [|discriminate]. injection H as <-. reflexivity.
  - cbn [elab] in H. destruct v; try discriminate. destruct (index_of syms s 0); [|discriminate]. injection H as <-. reflexivity.
  - (* array *)
    cbn [dflt_floats_ok] in Hs.
    assert (Hitems : forall l r, elab_items (elab f o e) s l = WOk r -> forallb pyfloats_ok l = true -> floats_ok (AArray r) = true).
    { intros l r Hi Hl. apply elab_items_inv in Hi. cbn [floats_ok].
      eapply Forall2_forallb_r; [exact Hi|exact Hl|]. intros x y Hxy Hx. cbn beta in *. eapply IH; eassumption. }
    cbn [elab] in H. destruct v; try discriminate; inv_w H; injection H as <-.
    + apply (Hitems _ _ E). clear. induction b; [reflexivity|exact IHb].
    + apply (Hitems _ _ E). clear. induction b; [reflexivity|exact IHb].
    + apply (Hitems _ _ E). exact Hv.
    + apply (Hitems _ _ E). exact Hv.
  - (* map *)
    cbn [dflt_floats_ok] in Hs. cbn [elab] in H. destruct v as [| | | | | | |l0|l0|kv]; try discriminate; try (destruct l0; discriminate).
    inv_w H. injection H as <-. apply elab_map_inv in E. cbn [floats_ok]. cbn [pyfloats_ok] in Hv.
    eapply Forall2_forallb_r; [exact E|exact Hv|]. intros p q [_ Hel] Hp. cbn beta in *. apply andb_prop in Hp.
    eapply IH; [exact Hel|exact He|exact Hs|apply Hp].
  - (* union *)
    apply elab_union_inv in H. destruct H as (i & b & v' & a0 & -> & Hn & Hel & Hcase).
    cbn [dflt_floats_ok] in Hs. rewrite forallb_forall in Hs. cbn [floats_ok].
    eapply IH; [exact Hel|exact He|apply Hs; eapply nthZ_In; exact Hn|].
    destruct Hcase as [(-> & _)|(nm & -> & _)]; [exact Hv|].
    cbn [pyfloats_ok forallb] in Hv. apply andb_prop in Hv. destruct Hv as [_ Hv]. apply andb_prop in Hv. apply Hv.
  - (* record *)
    cbn [elab] in H. destruct v; try discriminate.
    destruct ((strict o || strict_allow_default o) && has_extras kv fs); [discriminate|]. inv_w H. injection H as <-.
    apply elab_fields_inv in E. cbn [floats_ok]. cbn [dflt_floats_ok] in Hs.
    eapply Forall2_forallb_r; [exact E|exact Hs|]. intros fd y (v' & Harg & Hel) Hfd. cbn beta in *.
    apply andb_prop in Hfd. destruct Hfd as [Hst Hsd].
    assert (Hdat : pyfloats_ok (field_datum kv fd) = true).
    { unfold field_datum. destruct (dict_get kv (fname fd)) as [x0|] eqn:Eg; [eapply pyfl_dict_get; eassumption|].
      destruct (fdefault fd); [exact Hsd|reflexivity]. }
    eapply IH; [exact Hel|exact He|exact Hst|].
    unfold field_arg in Harg. destruct (ftype fd); try (subst v'; exact Hdat);
      (destruct Harg as (b & Hb & ->); cbn [pyfloats_ok]; pose proof (to_double_range _ _ Hdat Hb); lia).
  - cbn [elab] in H. destruct (lookup e n) as [s'|] eqn:El; [|discriminate].
    eapply IH; [exact H|exact He|eapply dflt_lookup; eassumption|exact Hv].
  - cbn [elab] in H. cbn [dflt_floats_ok] in Hs. eapply IH; eassumption.
Qed.

(** the typing / round-trip theorems without the hypothesis on the OUTPUT *)
Definition data_ok (e : env) (s : schema) (v : pyval) : Prop :=
  wf_env e = true /\ wf_schema s = true /\ wf_py v = true /\
  env_floats_ok e = true /\ dflt_floats_ok s = true /\ pyfloats_ok v = true.

Theorem elab_typed_py f o e s v a : elab f o e s v = WOk a -> data_ok e s v -> exists n, (n <= f)%nat /\ typedn n e s a.
Proof.
  intros H (He & Hs & Hv & Hfe & Hfs & Hfv). eapply elab_typed; try eassumption. eapply elab_floats_ok; eassumption.
Qed.

Theorem roundtrip_conforming_py f wo ro e s v a pv :
  elab f wo e s v = WOk a -> data_ok e s v -> py_of ro e s a = Some pv ->
  write f wo e s v = WOk (wire a) /\ forall f', (f <= f')%nat -> forall r, read f' ro e s (wire a ++ r) = Ok (pv, r).
Proof.
  intros H (He & Hs & Hv & Hfe & Hfs & Hfv) Hp.
  pose proof (elab_typedn f wo e s v a H He Hs Hv (elab_floats_ok _ _ _ _ _ _ H Hfe Hfs Hfv)) as Ht.
  split; [unfold write; rewrite H; reflexivity|]. intros f' Hf r. unfold read.
  rewrite (wire_dec f e s a Ht f' Hf r). cbn [bind]. rewrite Hp. reflexivity.
Qed.

Theorem roundtrip_normalised_py f wo e s v a :
  elab f wo e s v = WOk a -> data_ok e s v -> named_env e = true ->
  exists out, normalises f wo e s v out /\ write f wo e s v = WOk (wire a) /\
    forall f', (f <= f')%nat -> forall r, read f' ropts0 e s (wire a ++ r) = Ok (out, r).
Proof.
  intros H (He & Hs & Hv & Hfe & Hfs & Hfv) Hne.
  exact (roundtrip_normalised f wo e s v a H He Hne Hs Hv (elab_floats_ok _ _ _ _ _ _ H Hfe Hfs Hfv)).
Qed.

Theorem accepted_roundtrip_py n o ro e s v f : default_writer o -> wdom n o e s v -> validate f o e s (Some v) = Ok true ->
  data_ok e s v ->
  exists f0, forall f', (f0 <= f')%nat -> exists a,
    elab f' o e s v = WOk a /\ write f' o e s v = WOk (wire a) /\
    (forall pv, py_of ro e s a = Some pv ->
       forall f'', (f' <= f'')%nat -> forall r, read f'' ro e s (wire a ++ r) = Ok (pv, r)).
Proof.
  intros Ho Hd Hv (He & Hs & Hp & Hfe & Hfs & Hfv).
  destruct (accepted_roundtrip n o ro e s v f Ho Hd Hv He Hs Hp) as [f0 Hf0]. exists f0. intros f' Hf.
  destruct (Hf0 f' Hf) as (a & Ha & Hw & Hr). exists a. split; [exact Ha|]. split; [exact Hw|].
  apply Hr. eapply elab_floats_ok; eassumption.
Qed.

(** accepted (validate) + writable (wneed: proofs/AcceptIff.v, any writer options) => encoded => read back *)
From FA Require Import proofs.AcceptIff.
Theorem accepted_roundtrip_wneed n o ro e s v f : wneed n o e s v -> validate f o e s (Some v) = Ok true -> data_ok e s v ->
  exists f0, forall f', (f0 <= f')%nat -> exists a,
    elab f' o e s v = WOk a /\ write f' o e s v = WOk (wire a) /\
    (forall pv, py_of ro e s a = Some pv ->
       forall f'', (f' <= f'')%nat -> forall r, read f'' ro e s (wire a ++ r) = Ok (pv, r)).
Proof.
  intros Hn Hv Hd. destruct (wneed_sufficient n o e s v f Hn Hv) as [f0 Hf0]. exists f0. intros f' Hf.
  destruct (Hf0 f' Hf) as [a Ha]. exists a. split; [exact Ha|]. split; [unfold write; rewrite Ha; reflexivity|].
  intros pv Hp. exact (proj2 (roundtrip_conforming_py f' o ro e s v a pv Ha Hd Hp)).
Qed.

(** every binary32 leaf the writer produces survives unpack then pack (no hypothesis on the input) *)
From FA Require Import proofs.FloatStable.
Theorem elab_floats_stable : forall f o e s v a, elab f o e s v = WOk a -> floats_stable a = true.
Proof.
  induction f as [|f IH]; intros o e s v a H; [discriminate|].
  destruct s.
  - cbn [elab] in H. destruct v; try discriminate. injection H as <-. reflexivity.
  - cbn [elab] in H. destruct v; try discriminate. injection H as <-. reflexivity.
  - cbn [elab] in H. destruct v; try discriminate. destruct ((INT_MIN <=? z) && (z <=? INT_MAX)); [|discriminate]. injection H as <-. reflexivity.
  - cbn [elab] in H. destruct v; try discriminate. destruct ((LONG_MIN <=? z) && (z <=? LONG_MAX)); [|discriminate]. injection H as <-. reflexivity.
  - assert (Hn : exists b x, d2s b = Ok x /\ a = AFloat x).
    { cbn [elab] in H. destruct v; try discriminate; inv_w H; inv_w H; injection H as <-;
        (destruct (d2s x) as [y| |] eqn:Ed; cbn [of_res] in E0; try discriminate; injection E0 as <-; eauto). }
    destruct Hn as (b & x & Hd & ->). cbn [floats_stable]. rewrite (d2s_stable _ _ Hd). apply Z.eqb_refl.
  - cbn [elab] in H. destruct v; try discriminate; inv_w H; injection H as <-; reflexivity.
  - cbn [elab] in H. destruct v; try discriminate; injection H as <-; reflexivity.
  - cbn [elab] in H. destruct v; try discriminate. injection H as <-. reflexivity.
  - cbn [elab] in H. destruct v; try discriminate; [|destruct (len b =? size); discriminate].
    destruct (len b =? size); [|discriminate]. injection H as <-. reflexivity.
  - cbn [elab] in H. destruct v; try discriminate. destruct (index_of syms s 0); [|discriminate]. injection H as <-. reflexivity.
  - assert (Hitems : forall l r, elab_items (elab f o e) s l = WOk r -> floats_stable (AArray r) = true).
    { intros l r Hi. apply elab_items_inv in Hi. cbn [floats_stable].
      eapply (Forall2_forallb_r _ (fun _ => true)); [exact Hi|clear; induction l; [reflexivity|exact IHl]|].
      intros x y Hxy _. cbn beta in *. eapply IH; eassumption. }
    cbn [elab] in H. destruct v; try discriminate; inv_w H; injection H as <-; eapply Hitems; eassumption.
  - cbn [elab] in H. destruct v as [| | | | | | |l0|l0|kv]; try discriminate; try (destruct l0; discriminate).
    inv_w H. injection H as <-. apply elab_map_inv in E. cbn [floats_stable].
    eapply (Forall2_forallb_r _ (fun _ => true)); [exact E|clear; induction kv; [reflexivity|exact IHkv]|].
    intros p q [_ Hel] _. cbn beta in *. eapply IH; exact Hel.
  - apply elab_union_inv in H. destruct H as (i & b & v' & a0 & -> & _ & Hel & _). cbn [floats_stable]. eapply IH; exact Hel.
  - cbn [elab] in H. destruct v; try discriminate.
    destruct ((strict o || strict_allow_default o) && has_extras kv fs); [discriminate|]. inv_w H. injection H as <-.
    apply elab_fields_inv in E. cbn [floats_stable].
    eapply (Forall2_forallb_r _ (fun _ => true)); [exact E|clear; induction fs; [reflexivity|exact IHfs]|].
    intros fd y (v' & _ & Hel) _. cbn beta in *. eapply IH; exact Hel.
  - cbn [elab] in H. destruct (lookup e n) as [s'|]; [|discriminate]. eapply IH; exact H.
  - cbn [elab] in H. eapply IH; exact H.
Qed.

(** C09 closure for what the writer wrote: write v, read the bytes with return_named_type=True, write the result back:
    the identical bytes (side condition [closb] on the written value, see model/Conform.v) *)
From FA Require Import proofs.ClosureProofs.
Theorem closure_written f o e s v a pv :
  elab f o e s v = WOk a -> data_ok e s v -> closb f o e s a = true -> py_of ro_named e s a = Some pv ->
  write f o e s v = WOk (wire a) /\
  (forall f' r, (f <= f')%nat -> read f' ro_named e s (wire a ++ r) = Ok (pv, r)) /\
  exists f0, forall f', (f0 <= f')%nat -> write f' o e s pv = WOk (wire a).
Proof.
  intros H (He & Hs & Hv & Hfe & Hfs & Hfv) Hc Hp.
  pose proof (elab_typedn f o e s v a H He Hs Hv (elab_floats_ok _ _ _ _ _ _ H Hfe Hfs Hfv)) as Ht.
  split; [unfold write; rewrite H; reflexivity|]. split.
  - intros f' r Hf. unfold read. rewrite (wire_dec f e s a Ht f' Hf r). cbn [bind]. rewrite Hp. reflexivity.
  - exact (closure_bytes f o e s a pv Ht Hc (elab_floats_stable _ _ _ _ _ _ H) Hp).
Qed.

(** C01: read-after-write is idempotent.  Write v, read it (no named-type reporting): out.  Write out: the same bytes; read:
    out again.  Side condition [closb0] on the written value (every union value re-resolves to its branch when read back plain). *)
From FA Require Import proofs.NormalForm.
Theorem normal_form_idempotent f o e s v a out :
  elab f o e s v = WOk a -> data_ok e s v -> closb0 f o e s a = true -> py_of ropts0 e s a = Some out ->
  write f o e s v = WOk (wire a) /\
  exists f0, forall f', (f0 <= f')%nat ->
    elab f' o e s out = WOk a /\ write f' o e s out = WOk (wire a) /\
    forall f'' r, (f <= f'')%nat -> read f'' ropts0 e s (wire a ++ r) = Ok (out, r).
Proof.
  intros H (He & Hs & Hv & Hfe & Hfs & Hfv) Hc Hp.
  pose proof (elab_typedn f o e s v a H He Hs Hv (elab_floats_ok _ _ _ _ _ _ H Hfe Hfs Hfv)) as Ht.
  split; [unfold write; rewrite H; reflexivity|].
  exact (normal_form_fixed f o e s a out Ht Hc (elab_floats_stable _ _ _ _ _ _ H) Hp).
Qed.
