(** Proofs for C20 (generate_one / generate_many): model/Gen.v against model/Validate.v and the
    logical readers of model/Logical.v.  Statements of the property: props/C20.v. *)
From Coq Require Import ZArith List Bool Lia ZifyBool String.
From FA Require Import model.Base model.Value model.Schema model.Validate model.Codec model.Logical model.Gen
                       proofs.CodecProofs proofs.LogicalProofs.
Ltac Zify.zify_post_hook ::= Z.to_euclidean_division_equations.
Open Scope Z_scope.

(* ------------------------------------------------------------------ *)
(** * Small facts *)

Lemma gbeqb_refl : forall a, bytes_eqb a a = true.
Proof. induction a; cbn; [reflexivity|]. rewrite Z.eqb_refl. exact IHa. Qed.

Lemma gbeqb_eq : forall a b, bytes_eqb a b = true -> a = b.
Proof.
  induction a; destruct b; cbn; intros H; try discriminate; [reflexivity|].
  apply andb_true_iff in H. destruct H as [H1 H2]. apply Z.eqb_eq in H1. subst. f_equal. auto.
Qed.

Lemma gbeqb_neq a b : a <> b -> bytes_eqb a b = false.
Proof. intros H. destruct (bytes_eqb a b) eqn:E; [apply gbeqb_eq in E; contradiction|reflexivity]. Qed.

Lemma nthZ_In {A} (l : list A) : forall i x, nthZ l i = Some x -> In x l.
Proof.
  induction l; cbn; intros i x H; [discriminate|].
  destruct (i =? 0); [injection H as <-; auto|]. destruct (i <? 0); [discriminate|]. right. eauto.
Qed.

Lemma nthZ_some {A} (l : list A) : forall i, 0 <= i < len l -> exists x, nthZ l i = Some x.
Proof.
  induction l; intros i H.
  - unfold len in H. cbn in H. lia.
  - rewrite len_cons in H. cbn. destruct (i =? 0) eqn:E0; [eauto|].
    destruct (i <? 0) eqn:E1; [lia|]. apply IHl. lia.
Qed.

Lemma existsb_beqb_In x syms : In x syms -> existsb (bytes_eqb x) syms = true.
Proof. intros H. apply existsb_exists. exists x. split; [exact H|apply gbeqb_refl]. Qed.

(** ** dict_get / dict_set *)
Lemma dict_get_set_same kv k v : dict_get (dict_set kv k v) k = Some v.
Proof.
  induction kv as [|[k' v'] kv IH]; cbn.
  - rewrite gbeqb_refl. reflexivity.
  - destruct k'; cbn; try exact IH.
    destruct (bytes_eqb s k) eqn:E; cbn; rewrite ?E; [reflexivity|exact IH].
Qed.

Lemma dict_get_set_other kv k v k' : k' <> k -> dict_get (dict_set kv k v) k' = dict_get kv k'.
Proof.
  intros N. induction kv as [|[k0 v0] kv IH]; cbn.
  - rewrite gbeqb_neq; [reflexivity|congruence].
  - destruct k0; cbn; try exact IH.
    destruct (bytes_eqb s k) eqn:E; cbn.
    + apply gbeqb_eq in E. subst s. rewrite gbeqb_neq by congruence. reflexivity.
    + destruct (bytes_eqb s k'); [reflexivity|exact IH].
Qed.

(** entries of a dict built by dict_set from []: string keys, values with a property *)
Definition entries_ok (P : pyval -> Prop) (kv : list (pyval * pyval)) : Prop :=
  Forall (fun p => (exists k, fst p = PStr k) /\ P (snd p)) kv.

Lemma dict_set_entries P kv k v : entries_ok P kv -> P v -> entries_ok P (dict_set kv k v).
Proof.
  unfold entries_ok. intros H Hv. induction kv as [|[k' v'] kv IH]; cbn.
  - constructor; [|constructor]. split; [eexists; reflexivity|exact Hv].
  - inversion H as [|? ? [[k0 Hk] Hp] Ht]; subst. cbn in Hk. subst k'.
    destruct (bytes_eqb k0 k).
    + constructor; [split; [eexists; reflexivity|exact Hv]|exact Ht].
    + constructor; [split; [eexists; reflexivity|exact Hp]|auto].
Qed.

Lemma entries_str_keys P kv : entries_ok P kv -> forallb is_str_key kv = true.
Proof.
  induction 1 as [|[k v] kv [[k0 Hk] _] _ IH]; [reflexivity|]. cbn in Hk. subst k. cbn. exact IH.
Qed.

Lemma entries_values P kv : entries_ok P kv -> Forall P (map snd kv).
Proof. induction 1 as [|p kv [_ Hp] _ IH]; cbn; constructor; auto. Qed.

Lemma entries_get P kv k v : entries_ok P kv -> dict_get kv k = Some v -> P v.
Proof.
  induction 1 as [|[k' v'] kv [[k0 Hk] Hp] _ IH]; cbn; [discriminate|]. cbn in Hk, Hp. subst k'.
  destruct (bytes_eqb k0 k); [intros H; injection H as <-; exact Hp|exact IH].
Qed.

(* ------------------------------------------------------------------ *)
(** * The random primitives: what every stream yields *)

Lemma draw_inv rs d rs' : draw rs = Ok (d, rs') -> rs = d :: rs'.
Proof. destruct rs; cbn; intros H; [discriminate|]. injection H as <- <-. reflexivity. Qed.

Lemma randint_inv a b rs z rs' : randint a b rs = Ok (z, rs') -> a <= z <= b /\ exists d, rs = d :: rs'.
Proof.
  unfold randint. destruct (b <? a) eqn:E; [discriminate|]. destruct rs as [|d rs]; cbn; [discriminate|].
  intros H. injection H as <- <-. split; [|eauto].
  pose proof (Z.mod_pos_bound d (b - a + 1)). lia.
Qed.

Lemma pint_inv r v rs' : pint r = Ok (v, rs') -> exists z, v = PInt z /\ r = Ok (z, rs').
Proof.
  unfold pint. destruct r as [[z rs]| |]; cbn; intros H; try discriminate. injection H as <- <-. eauto.
Qed.

Lemma INT_MIN_lit : INT_MIN = -2147483648. Proof. reflexivity. Qed.
Lemma INT_MAX_lit : INT_MAX = 2147483647. Proof. reflexivity. Qed.
Lemma LONG_MIN_lit : LONG_MIN = -9223372036854775808. Proof. reflexivity. Qed.
Lemma LONG_MAX_lit : LONG_MAX = 9223372036854775807. Proof. reflexivity. Qed.
Lemma MAX_TS_MILLIS_lit : MAX_TIMESTAMP_MILLIS = 35184372088832. Proof. reflexivity. Qed.
Lemma MAX_TS_MICROS_lit : MAX_TIMESTAMP_MICROS = 36028797018963968. Proof. reflexivity. Qed.
Lemma DATE_LO_lit : DATE_LO = -719162. Proof. reflexivity. Qed.
Lemma DATE_HI_lit : DATE_HI = 2932896. Proof. reflexivity. Qed.

(** every int generated under "int" (with or without a logical annotation) is a 32-bit int *)
Lemma gen_int_range lt rs v rs' : gen_int lt rs = Ok (v, rs') ->
  exists z, v = PInt z /\ INT_MIN <= z <= INT_MAX.
Proof.
  unfold gen_int. rewrite INT_MIN_lit, INT_MAX_lit.
  destruct (lt_is lt "date"); [|destruct (lt_is lt "time-millis")]; intros H;
    apply pint_inv in H; destruct H as (z & -> & H); apply randint_inv in H; destruct H as [H _];
    exists z; (split; [reflexivity|]).
  - rewrite DATE_LO_lit, DATE_HI_lit in H. lia.
  - unfold MLS_PER_HOUR in H. lia.
  - unfold INT_MIN_VALUE, INT_MAX_VALUE in H. lia.
Qed.

Lemma gen_long_range lt rs v rs' : gen_long lt rs = Ok (v, rs') ->
  exists z, v = PInt z /\ LONG_MIN <= z <= LONG_MAX.
Proof.
  unfold gen_long. rewrite LONG_MIN_lit, LONG_MAX_lit.
  destruct (lt_is lt "time-micros"); [|destruct (lt_is lt "timestamp-millis" || lt_is lt "local-timestamp-millis");
    [|destruct (lt_is lt "timestamp-micros" || lt_is lt "local-timestamp-micros")]]; intros H;
    apply pint_inv in H; destruct H as (z & -> & H); apply randint_inv in H; destruct H as [H _];
    exists z; (split; [reflexivity|]).
  - unfold MCS_PER_HOUR in H. lia.
  - rewrite MAX_TS_MILLIS_lit in H. lia.
  - rewrite MAX_TS_MICROS_lit in H. lia.
  - unfold LONG_MIN_VALUE, LONG_MAX_VALUE in H. lia.
Qed.

Lemma gen_string_str lt rs v rs' : gen_string lt rs = Ok (v, rs') -> exists s, v = PStr s.
Proof.
  unfold gen_string. destruct (if lt_is lt "uuid" then uuid4_hex rs else gen_utf8 rs) as [[s r]| |]; cbn; intros H;
    try discriminate. injection H as <- <-. eauto.
Qed.

Lemma gen_float_flt rs v rs' : gen_float rs = Ok (v, rs') -> exists b, v = PFloat b /\ 0 <= b < ONE_BITS.
Proof.
  unfold gen_float, rand_float. destruct rs as [|d rs]; cbn; [discriminate|]. intros H. injection H as <- <-.
  eexists. split; [reflexivity|]. apply Z.mod_pos_bound. reflexivity.
Qed.

Lemma gen_bool_bool rs v rs' : gen_bool rs = Ok (v, rs') -> exists b, v = PBool b.
Proof.
  unfold gen_bool. destruct (randint 0 1 rs) as [[z r]| |]; cbn; intros H; try discriminate.
  injection H as <- <-. eauto.
Qed.

Lemma gen_bytes_len n rs v rs' : gen_bytes n rs = Ok (v, rs') -> exists b, v = PBytes b /\ len b = n /\ Forall is_byte b.
Proof.
  unfold gen_bytes, randbytes. destruct (n <? 0) eqn:E; [discriminate|].
  destruct rs as [|d rs]; cbn; [discriminate|]. intros H. injection H as <- <-.
  eexists. split; [reflexivity|]. split; [|apply le_bytes_ok].
  unfold len. rewrite le_bytes_length. lia.
Qed.

Lemma gen_enum_sym syms rs v rs' : gen_enum syms rs = Ok (v, rs') -> exists x, v = PStr x /\ In x syms.
Proof.
  unfold gen_enum. destruct (randint 0 (len syms - 1) rs) as [[i r]| |]; cbn; try discriminate.
  destruct (nthZ syms i) eqn:E; intros H; try discriminate. injection H as <- <-.
  eexists. split; [reflexivity|]. eapply nthZ_In; eauto.
Qed.

(* ------------------------------------------------------------------ *)
(** * Well-formed schemas

    [sall P s]: the one-level predicate [P] holds at [s] and at every schema nested in it
    (by-name references are not followed: the table is covered by [wf_env]). *)
Fixpoint sall (P : schema -> Prop) (s : schema) {struct s} : Prop :=
  P s /\
  match s with
  | SArray it => sall P it
  | SMap vs => sall P vs
  | SUnion bs => (fix all (l : list schema) : Prop := match l with [] => True | b :: l => sall P b /\ all l end) bs
  | SRecord _ _ fs => (fix all (l : list field) : Prop := match l with [] => True | f :: l => sall P (ftype f) /\ all l end) fs
  | SAnnot _ s' => sall P s'
  | _ => True
  end.

Lemma sall_here P s : sall P s -> P s.
Proof. destruct s; cbn; intros H; apply H. Qed.

Lemma sall_union P bs : sall P (SUnion bs) -> Forall (sall P) bs.
Proof.
  cbn. intros [_ H]. induction bs as [|b bs IH]; constructor; [apply H|apply IH, H].
Qed.

Lemma sall_record P n al fs : sall P (SRecord n al fs) -> Forall (fun f => sall P (ftype f)) fs.
Proof.
  cbn. intros [_ H]. induction fs as [|f fs IH]; constructor; [apply H|apply IH, H].
Qed.

(** a Python value without tuples (what json.loads and gen_data produce) *)
Fixpoint tfree (v : pyval) : Prop :=
  match v with
  | PTuple _ => False
  | PList l => (fix all (l : list pyval) : Prop := match l with [] => True | x :: l => tfree x /\ all l end) l
  | PDict kv => (fix all (l : list (pyval * pyval)) : Prop :=
                   match l with [] => True | (k, x) :: l => tfree k /\ tfree x /\ all l end) kv
  | _ => True
  end.

Lemma tfree_list l : tfree (PList l) <-> Forall tfree l.
Proof.
  cbn. induction l as [|x l IH].
  - split; intros _; [constructor|exact I].
  - split; intros H.
    + constructor; [apply H|apply IH, H].
    + inversion H; subst. split; [assumption|apply IH; assumption].
Qed.

Lemma tfree_dict kv : tfree (PDict kv) <-> Forall (fun p => tfree (fst p) /\ tfree (snd p)) kv.
Proof.
  cbn. induction kv as [|[k x] kv IH].
  - split; intros _; [constructor|exact I].
  - split; intros H.
    + constructor; [cbn; split; apply H|apply IH, H].
    + inversion H as [|? ? [H1 H2] H3]; subst. cbn in H1, H2. split; [assumption|]. split; [assumption|]. apply IH; assumption.
Qed.

Lemma tfree_entries kv : entries_ok tfree kv -> tfree (PDict kv).
Proof.
  intros H. apply tfree_dict. induction H as [|[k v] kv [[k0 Hk] Hv] _ IH]; constructor; [|exact IH].
  cbn in *. subst k. split; [exact I|exact Hv].
Qed.

Definition otfree (ov : option pyval) : Prop := match ov with Some v => tfree v | None => True end.

(** the one-level conditions: every reference resolves, enums have a symbol, unions a branch,
    fixed sizes are not negative, field names are distinct and none is the hint key "-type",
    JSON defaults contain no tuples, the "type" of a dict-form schema is not itself a dict form or a union
    (what parse_schema returns for a valid schema has all of these) *)
Definition node_wf (e : env) (s : schema) : Prop :=
  match s with
  | SFixed _ _ size => 0 <= size
  | SEnum _ _ syms _ => syms <> []
  | SUnion bs => bs <> []
  | SRecord _ _ fs =>
      NoDup (map (fun f => fname f) fs) /\
      Forall (fun f => fname f <> s2b "-type" /\ otfree (fdefault f)) fs
  | SRef n => exists s', lookup e n = Some s'
  | SAnnot _ s' => match s' with SAnnot _ _ | SUnion _ => False | _ => True end   (* "type" of a dict form is a type name *)
  | _ => True
  end.

Definition wf_schema (e : env) (s : schema) : Prop := sall (node_wf e) s.
Definition wf_env (e : env) : Prop := forall n s, lookup e n = Some s -> wf_schema e s.

(* ------------------------------------------------------------------ *)
(** * Loop lemmas, generic in the recursive call *)

(** results of the validator that are acceptable for a generated value: True, or not enough fuel *)
Definition vok (r : res bool) : Prop := r = Ok true \/ r = OutOfFuel.

Section LoopFacts.
  Variable rec : schema -> option pyval -> res bool.

  Lemma all_items_vok s l : Forall (fun v => vok (rec s (Some v))) l -> vok (all_items rec s l).
  Proof.
    induction 1 as [|v l [H|H] _ IH]; cbn; [left; reflexivity| |]; rewrite H; cbn; [exact IH|right; reflexivity].
  Qed.

  Lemma all_items_noerr s l : Forall (fun v => rec s (Some v) <> Err) l -> all_items rec s l <> Err.
  Proof.
    induction 1 as [|v l H _ IH]; cbn; [discriminate|].
    destruct (rec s (Some v)) as [[|]| |]; cbn; try discriminate; try assumption.
  Qed.

  Lemma all_items_nofuel s l : Forall (fun v => rec s (Some v) <> OutOfFuel) l -> all_items rec s l <> OutOfFuel.
  Proof.
    induction 1 as [|v l H _ IH]; cbn; [discriminate|].
    destruct (rec s (Some v)) as [[|]| |]; cbn; try discriminate; try assumption.
  Qed.

  Definition field_arg (kv : list (pyval * pyval)) (f : field) : option pyval :=
    match dict_get kv (fname f) with Some v => Some v | None => fdefault f end.

  Lemma all_fields_vok kv fs : Forall (fun f => vok (rec (ftype f) (field_arg kv f))) fs -> vok (all_fields rec kv fs).
  Proof.
    induction 1 as [|f fs [H|H] _ IH]; cbn; [left; reflexivity| |]; fold (field_arg kv f); rewrite H; cbn;
      [exact IH|right; reflexivity].
  Qed.

  Lemma all_fields_noerr kv fs : Forall (fun f => rec (ftype f) (field_arg kv f) <> Err) fs -> all_fields rec kv fs <> Err.
  Proof.
    induction 1 as [|f fs H _ IH]; cbn; [discriminate|]. fold (field_arg kv f).
    destruct (rec (ftype f) (field_arg kv f)) as [[|]| |]; cbn; try discriminate; try assumption.
  Qed.

  Lemma all_fields_nofuel kv fs : Forall (fun f => rec (ftype f) (field_arg kv f) <> OutOfFuel) fs ->
    all_fields rec kv fs <> OutOfFuel.
  Proof.
    induction 1 as [|f fs H _ IH]; cbn; [discriminate|]. fold (field_arg kv f).
    destruct (rec (ftype f) (field_arg kv f)) as [[|]| |]; cbn; try discriminate; try assumption.
  Qed.

  (** one branch accepts (given enough fuel) and passes the "-type" filter, no branch raises: the union accepts *)
  Lemma any_branch_vok pass v bs b : In b bs -> pass b = true -> vok (rec b (Some v)) ->
    Forall (fun b' => rec b' (Some v) <> Err) bs -> vok (any_branch rec pass v bs).
  Proof.
    intros Hin Hp Hb Hall. induction Hall as [|b' bs H _ IH]; [contradiction|]. cbn.
    destruct Hin as [->|Hin].
    - rewrite Hp. cbn. destruct Hb as [Hb|Hb]; rewrite Hb; cbn; [left|right]; reflexivity.
    - destruct (pass b'); cbn; [|auto].
      destruct (rec b' (Some v)) as [[|]| |]; cbn; [left; reflexivity|auto|contradiction|right; reflexivity].
  Qed.

  Lemma any_branch_noerr pass v bs : Forall (fun b' => rec b' (Some v) <> Err) bs -> any_branch rec pass v bs <> Err.
  Proof.
    induction 1 as [|b' bs H _ IH]; cbn; [discriminate|]. destruct (pass b'); cbn; [|assumption].
    destruct (rec b' (Some v)) as [[|]| |]; cbn; try discriminate; try assumption.
  Qed.

  Lemma any_branch_nofuel pass v bs : Forall (fun b' => rec b' (Some v) <> OutOfFuel) bs -> any_branch rec pass v bs <> OutOfFuel.
  Proof.
    induction 1 as [|b' bs H _ IH]; cbn; [discriminate|]. destruct (pass b'); cbn; [|assumption].
    destruct (rec b' (Some v)) as [[|]| |]; cbn; try discriminate; try assumption.
  Qed.

  Lemma hinted_nofuel nm v bs : Forall (fun b' => rec b' (Some v) <> OutOfFuel) bs -> hinted rec nm v bs <> OutOfFuel.
  Proof.
    induction 1 as [|b' bs H _ IH]; cbn; [discriminate|].
    destruct nm; try assumption. destruct (bytes_eqb (branch_name b') s); assumption.
  Qed.
End LoopFacts.

Arguments gen_utf8 : simpl never.
Arguments gen_string : simpl never.
Arguments gen_int : simpl never.
Arguments gen_long : simpl never.
Arguments gen_float : simpl never.
Arguments gen_bool : simpl never.
Arguments gen_bytes : simpl never.
Arguments gen_enum : simpl never.
Arguments randint : simpl never.

Section GenLoopFacts.
  Variable rec : schema -> rand_stream -> res (pyval * rand_stream).

  Lemma gen_items_all (P : pyval -> Prop) s :
    (forall rs v rs', rec s rs = Ok (v, rs') -> P v) ->
    forall n rs l rs', gen_items rec n s rs = Ok (l, rs') -> Forall P l /\ length l = n.
  Proof.
    intros HP. induction n as [|n IH]; cbn; intros rs l rs' H.
    - injection H as <- <-. split; [constructor|reflexivity].
    - destruct (rec s rs) as [[v r1]| |] eqn:E1; cbn in H; try discriminate.
      destruct (gen_items rec n s r1) as [[l1 r2]| |] eqn:E2; cbn in H; try discriminate.
      injection H as <- <-. apply IH in E2. destruct E2 as [E2 E3]. split; [constructor; eauto|cbn; congruence].
  Qed.

  Lemma rand_letters_inv k : forall rs s rs', rand_letters k rs = Ok (s, rs') -> length s = k.
  Proof.
    induction k as [|k IH]; cbn; intros rs s rs' H.
    - injection H as <- <-. reflexivity.
    - destruct rs as [|d rs]; cbn in H; [discriminate|].
      destruct (rand_letters k rs) as [[l r]| |] eqn:E; cbn in H; try discriminate.
      injection H as <- <-. cbn. f_equal. eauto.
  Qed.

  Lemma gen_entries_all (P : pyval -> Prop) s :
    (forall rs v rs', rec s rs = Ok (v, rs') -> P v) ->
    forall n acc rs kv rs', entries_ok P acc -> gen_entries rec n s acc rs = Ok (kv, rs') -> entries_ok P kv.
  Proof.
    intros HP. induction n as [|n IH]; cbn; intros acc rs kv rs' Hacc H.
    - injection H as <- <-. exact Hacc.
    - destruct (gen_utf8 rs) as [[k r1]| |]; cbn in H; try discriminate.
      destruct (rec s r1) as [[v r2]| |] eqn:E; cbn in H; try discriminate.
      eapply IH; [|exact H]. apply dict_set_entries; eauto.
  Qed.

  (** the dict a record generates: every field is present with a value its type generated *)
  Lemma gen_fields_all (Q : field -> pyval -> Prop) (P : pyval -> Prop) :
    forall fs,
    (forall f rs v rs', In f fs -> rec (ftype f) rs = Ok (v, rs') -> Q f v /\ P v) ->
    NoDup (map (fun f => fname f) fs) ->
    forall acc rs kv rs', entries_ok P acc -> gen_fields rec fs acc rs = Ok (kv, rs') ->
      entries_ok P kv /\
      (forall f, In f fs -> exists v, dict_get kv (fname f) = Some v /\ Q f v) /\
      (forall k, ~ In k (map (fun f => fname f) fs) -> dict_get kv k = dict_get acc k).
  Proof.
    induction fs as [|f fs IH]; cbn; intros HQ ND acc rs kv rs' Hacc H.
    - injection H as <- <-. repeat split; [exact Hacc|contradiction].
    - destruct (rec (ftype f) rs) as [[v r1]| |] eqn:E; cbn in H; try discriminate.
      inversion ND as [|? ? Hnin ND']; subst.
      destruct (HQ f rs v r1 (or_introl eq_refl) E) as [Hq Hp].
      assert (HQ' : forall g rs v rs', In g fs -> rec (ftype g) rs = Ok (v, rs') -> Q g v /\ P v) by (intros; eapply HQ; eauto).
      destruct (IH HQ' ND' _ _ _ _ (dict_set_entries P acc (fname f) v Hacc Hp) H) as (I1 & I2 & I3).
      split; [exact I1|]. split.
      + intros g [<-|Hg]; [|auto]. exists v. split; [|exact Hq]. rewrite (I3 _ Hnin). apply dict_get_set_same.
      + intros k Hk. rewrite I3 by tauto. apply dict_get_set_other. intros ->. tauto.
  Qed.
End GenLoopFacts.

Lemma sall_array P it : sall P (SArray it) -> sall P it. Proof. intros [_ H]. exact H. Qed.
Lemma sall_map P vs : sall P (SMap vs) -> sall P vs. Proof. intros [_ H]. exact H. Qed.
Lemma sall_annot P lt s : sall P (SAnnot lt s) -> sall P s. Proof. intros [_ H]. exact H. Qed.

Lemma as_sequence_tfree v l : tfree v -> as_sequence v = Some l -> Forall tfree l.
Proof.
  destruct v; cbn [as_sequence]; intros Hv H; try discriminate; injection H as <-.
  - apply Forall_forall. intros x Hx. apply in_map_iff in Hx. destruct Hx as (z & <- & _). exact I.
  - apply Forall_forall. intros x Hx. apply in_map_iff in Hx. destruct Hx as (z & <- & _). exact I.
  - apply tfree_list. exact Hv.
  - contradiction.
Qed.

Lemma dict_get_tfree kv k v : tfree (PDict kv) -> dict_get kv k = Some v -> tfree v.
Proof.
  intros H. apply tfree_dict in H. induction H as [|[k' v'] kv [_ Hv] _ IH]; cbn; [discriminate|].
  destruct k'; try exact IH. destruct (bytes_eqb s k); [intros E; injection E as <-; exact Hv|exact IH].
Qed.


(** generated values carry no "-type" entry: map keys are ten letters, record keys are the field names *)
Lemma gen_entries_get_other rec s k : length k <> 10%nat ->
  forall n acc rs kv rs', gen_entries rec n s acc rs = Ok (kv, rs') -> dict_get kv k = dict_get acc k.
Proof.
  intros Hk. induction n as [|n IH]; cbn [gen_entries]; intros acc rs kv rs' H.
  - injection H as <- <-. reflexivity.
  - destruct (gen_utf8 rs) as [[k0 r1]| |] eqn:E0; cbn [bind] in H; try discriminate.
    destruct (rec s r1) as [[v r2]| |]; cbn [bind] in H; try discriminate.
    rewrite (IH _ _ _ _ H). apply dict_get_set_other. intros ->.
    unfold gen_utf8 in E0. apply rand_letters_inv in E0. contradiction.
Qed.

Lemma gen_fields_get_other rec k : forall fs acc rs kv rs', ~ In k (map (fun f => fname f) fs) ->
  gen_fields rec fs acc rs = Ok (kv, rs') -> dict_get kv k = dict_get acc k.
Proof.
  induction fs as [|f fs IH]; cbn [gen_fields map]; intros acc rs kv rs' Hn H.
  - injection H as <- <-. reflexivity.
  - destruct (rec (ftype f) rs) as [[v r1]| |]; cbn [bind] in H; try discriminate.
    rewrite (IH _ _ _ _ ltac:(cbn in Hn; tauto) H). apply dict_get_set_other. intros ->. apply Hn. left. reflexivity.
Qed.

Lemma type_hint_none kv : dict_get kv (s2b "-type") = None -> type_hint (PDict kv) = None.
Proof. intros H. cbn [type_hint]. rewrite H. reflexivity. Qed.

Lemma hint_pass_none e v c : type_hint v = None -> hint_pass e v c = true.
Proof. intros H. unfold hint_pass. rewrite H. reflexivity. Qed.

Theorem gen_nohint e : wf_env e -> forall f s rs v rs', wf_schema e s -> gen f e s rs = Ok (v, rs') -> type_hint v = None.
Proof.
  intros We. induction f as [|f IH]; intros s rs v rs' Ws H; [discriminate|].
  assert (LI : forall lt rs v rs', gen_int lt rs = Ok (v, rs') -> type_hint v = None)
    by (intros lt0 r0 v0 r0' H0; apply gen_int_range in H0; destruct H0 as (z & -> & _); reflexivity).
  assert (LL : forall lt rs v rs', gen_long lt rs = Ok (v, rs') -> type_hint v = None)
    by (intros lt0 r0 v0 r0' H0; apply gen_long_range in H0; destruct H0 as (z & -> & _); reflexivity).
  assert (LS : forall lt rs v rs', gen_string lt rs = Ok (v, rs') -> type_hint v = None)
    by (intros lt0 r0 v0 r0' H0; apply gen_string_str in H0; destruct H0 as (z & ->); reflexivity).
  destruct s; cbn [gen] in H.
  - injection H as <- <-. reflexivity.
  - apply gen_bool_bool in H. destruct H as (b & ->). reflexivity.
  - eapply LI; eauto.
  - eapply LL; eauto.
  - apply gen_float_flt in H. destruct H as (b & -> & _). reflexivity.
  - apply gen_float_flt in H. destruct H as (b & -> & _). reflexivity.
  - apply gen_bytes_len in H. destruct H as (b & -> & _). reflexivity.
  - eapply LS; eauto.
  - apply gen_bytes_len in H. destruct H as (b & -> & _). reflexivity.
  - apply gen_enum_sym in H. destruct H as (x & -> & _). reflexivity.
  - destruct (gen_items (gen f e) ITEMS s rs) as [[l r]| |]; cbn [bind] in H; try discriminate. injection H as <- <-. reflexivity.
  - destruct (gen_entries (gen f e) ITEMS s [] rs) as [[kv r]| |] eqn:E; cbn [bind] in H; try discriminate. injection H as <- <-.
    apply type_hint_none. rewrite (gen_entries_get_other _ _ (s2b "-type") ltac:(cbn; lia) _ _ _ _ _ E). reflexivity.
  - destruct (randint 0 (len bs - 1) rs) as [[i r]| |]; cbn [bind] in H; try discriminate.
    destruct (nthZ bs i) as [b|] eqn:E; [|discriminate].
    pose proof (sall_union _ _ Ws) as HB. apply nthZ_In in E. rewrite Forall_forall in HB. eapply IH; [exact (HB _ E)|exact H].
  - destruct (gen_fields (gen f e) fs [] rs) as [[kv r]| |] eqn:E; cbn [bind] in H; try discriminate. injection H as <- <-.
    pose proof (sall_here _ _ Ws) as HN. cbn in HN. destruct HN as [_ HD].
    apply type_hint_none.
    assert (Hn : ~ In (s2b "-type") (map (fun f => fname f) fs)); [|rewrite (gen_fields_get_other _ _ _ _ _ _ _ Hn E); reflexivity].
    intros Hin. apply in_map_iff in Hin. destruct Hin as (g & Hg1 & Hg2). rewrite Forall_forall in HD. apply HD in Hg2. tauto.
  - destruct (lookup e n) as [s'|] eqn:E; [|discriminate]. eapply IH; [exact (We _ _ E)|exact H].
  - pose proof (sall_annot _ _ _ Ws) as Ws'.
    destruct s; try discriminate; try (eapply IH; [exact Ws'|exact H]).
    + eapply LI; eauto. + eapply LL; eauto. + eapply LS; eauto.
Qed.

(* ------------------------------------------------------------------ *)
(** * The validator on well-formed schemas and tuple-free data never raises *)
Section Conform.
  Variable o : wopts.
  Variable e : env.
  Hypothesis We : wf_env e.

  Lemma validate_noerr : forall fv s ov, wf_schema e s -> otfree ov -> validate fv o e s ov <> Err.
  Proof.
    induction fv as [|fv IH]; intros s ov Ws Hv; [cbn; discriminate|].
    destruct ov as [v|].
    2:{ cbn [validate]. destruct (strict o); [discriminate|]. apply IH; [exact Ws|exact I]. }
    cbn in Hv.
    destruct s; cbn [validate]; try discriminate.
    - (* array *)
      destruct (as_sequence v) as [l|] eqn:E; [|discriminate]. apply all_items_noerr.
      eapply Forall_impl; [|eapply as_sequence_tfree; eauto]. intros x Hx. apply IH; [eapply sall_array; eauto|exact Hx].
    - (* map *)
      destruct v; try discriminate. destruct (forallb is_str_key kv); [|discriminate]. apply all_items_noerr.
      apply tfree_dict in Hv. apply Forall_forall. intros x Hx. apply in_map_iff in Hx. destruct Hx as (p & <- & Hp).
      apply IH; [eapply sall_map; eauto|]. rewrite Forall_forall in Hv. apply Hv in Hp. apply Hp.
    - (* union *)
      assert (HB : Forall (fun b' => forall x, tfree x -> validate fv o e b' (Some x) <> Err) bs).
      { eapply Forall_impl; [|eapply sall_union; eauto]. intros b Hb x Hx. apply IH; assumption. }
      destruct v; try (apply any_branch_noerr; eapply Forall_impl; [|exact HB]; cbn; intros b0 Hb0; apply Hb0; exact Hv).
      exfalso; exact Hv.
    - (* record *)
      destruct v; try discriminate.
      match goal with |- (if ?c then _ else _) <> _ => destruct c end; [|discriminate].
      apply all_fields_noerr. pose proof (sall_record _ _ _ _ Ws) as Hf.
      apply sall_here in Ws. cbn in Ws. destruct Ws as [_ Hd].
      rewrite Forall_forall in *. intros f Hin. apply IH; [apply Hf; exact Hin|].
      unfold field_arg. destruct (dict_get kv (fname f)) eqn:E; cbn.
      + eapply dict_get_tfree; eauto.
      + apply Hd; exact Hin.
    - (* reference *)
      apply sall_here in Ws. cbn in Ws. destruct Ws as [s' Hs']. rewrite Hs'. apply IH; [eapply We; eauto|exact Hv].
    - (* annotation *)
      apply IH; [exact (sall_annot _ _ _ Ws)|exact Hv].
  Qed.
End Conform.

(* ------------------------------------------------------------------ *)
(** * C20_conforms: what generate produces is never rejected by validate *)
Section Main.
  Variable o : wopts.
  Variable e : env.
  Hypothesis We : wf_env e.

  (** [v] contains no tuple, and validate answers True whenever it answers at all *)
  Definition conf (s : schema) (v : pyval) : Prop :=
    tfree v /\ forall fv, vok (validate fv o e s (Some v)).

  Lemma conf_annot lt s v : conf s v -> conf (SAnnot lt s) v.
  Proof.
    intros [Ht Hc]. split; [exact Ht|]. intros [|fv]; [right; reflexivity|]. cbn [validate]. apply Hc.
  Qed.

  Lemma conf_int lt rs v rs' : gen_int lt rs = Ok (v, rs') -> conf SInt v.
  Proof.
    intros H. apply gen_int_range in H. destruct H as (z & -> & Hz). split; [exact I|].
    intros [|fv]; [right; reflexivity|left]. cbn [validate]. f_equal. lia.
  Qed.

  Lemma conf_long lt rs v rs' : gen_long lt rs = Ok (v, rs') -> conf SLong v.
  Proof.
    intros H. apply gen_long_range in H. destruct H as (z & -> & Hz). split; [exact I|].
    intros [|fv]; [right; reflexivity|left]. cbn [validate]. f_equal. lia.
  Qed.

  Lemma conf_string lt rs v rs' : gen_string lt rs = Ok (v, rs') -> conf SString v.
  Proof.
    intros H. apply gen_string_str in H. destruct H as (x & ->). split; [exact I|].
    intros [|fv]; [right|left]; reflexivity.
  Qed.

  Theorem gen_conforms : forall f s rs v rs', wf_schema e s -> gen f e s rs = Ok (v, rs') -> conf s v.
  Proof.
    induction f as [|f IH]; intros s rs v rs' Ws H; [discriminate|].
    destruct s; cbn [gen] in H.
    - (* null *) injection H as <- <-. split; [exact I|]. intros [|fv]; [right|left]; reflexivity.
    - (* boolean *) apply gen_bool_bool in H. destruct H as (b & ->). split; [exact I|]. intros [|fv]; [right|left]; reflexivity.
    - (* int *) eapply conf_int; eauto.
    - (* long *) eapply conf_long; eauto.
    - (* float *) apply gen_float_flt in H. destruct H as (b & -> & _). split; [exact I|]. intros [|fv]; [right|left]; reflexivity.
    - (* double *) apply gen_float_flt in H. destruct H as (b & -> & _). split; [exact I|]. intros [|fv]; [right|left]; reflexivity.
    - (* bytes *) apply gen_bytes_len in H. destruct H as (b & -> & _). split; [exact I|]. intros [|fv]; [right|left]; reflexivity.
    - (* string *) eapply conf_string; eauto.
    - (* fixed *)
      apply gen_bytes_len in H. destruct H as (b & -> & Hl & _). split; [exact I|].
      intros [|fv]; [right; reflexivity|left]. cbn [validate]. f_equal. lia.
    - (* enum *)
      apply gen_enum_sym in H. destruct H as (x & -> & Hin). split; [exact I|].
      intros [|fv]; [right; reflexivity|left]. cbn [validate]. f_equal. apply existsb_beqb_In. exact Hin.
    - (* array: ten items, each generated from the item type *)
      destruct (gen_items (gen f e) ITEMS s rs) as [[l r]| |] eqn:E; cbn in H; try discriminate. injection H as <- <-.
      apply (gen_items_all _ (conf s)) in E; [|intros; eapply IH; [exact (sall_array _ _ Ws)|eauto]].
      destruct E as [E _]. split.
      + apply tfree_list. eapply Forall_impl; [|exact E]. intros x Hx. apply Hx.
      + intros [|fv]; [right; reflexivity|]. cbn [validate as_sequence]. apply all_items_vok.
        eapply Forall_impl; [|exact E]. intros x Hx. apply Hx.
    - (* map *)
      destruct (gen_entries (gen f e) ITEMS s [] rs) as [[kv r]| |] eqn:E; cbn in H; try discriminate. injection H as <- <-.
      apply (gen_entries_all _ (conf s)) in E; [|intros; eapply IH; [exact (sall_map _ _ Ws)|eauto]|constructor].
      split.
      + apply tfree_entries. eapply Forall_impl; [|exact E]. intros p [Hk Hp]. split; [exact Hk|apply Hp].
      + intros [|fv]; [right; reflexivity|]. cbn [validate]. rewrite (entries_str_keys _ _ E). apply all_items_vok.
        eapply Forall_impl; [|exact (entries_values _ _ E)]. intros x Hx. apply Hx.
    - (* union: the branch the draw selects; the branches before it never raise *)
      destruct (randint 0 (len bs - 1) rs) as [[i r]| |]; cbn in H; try discriminate.
      destruct (nthZ bs i) as [b|] eqn:E; [|discriminate].
      pose proof (sall_union _ _ Ws) as HB. apply nthZ_In in E.
      assert (Hb : wf_schema e b) by (rewrite Forall_forall in HB; apply HB; exact E).
      destruct (IH _ _ _ _ Hb H) as [Ht Hc]. split; [exact Ht|].
      intros [|fv]; [right; reflexivity|]. cbn [validate].
      assert (V : vok (any_branch (validate fv o e) (hint_pass e v) v bs)).
      { eapply any_branch_vok; [exact E|apply hint_pass_none; eapply gen_nohint; eauto|apply Hc|].
        eapply Forall_impl; [|exact HB]. intros b' Hb'. apply validate_noerr; assumption. }
      destruct v; try exact V. exfalso; exact Ht.
    - (* record *)
      destruct (gen_fields (gen f e) fs [] rs) as [[kv r]| |] eqn:E; cbn in H; try discriminate. injection H as <- <-.
      pose proof (sall_record _ _ _ _ Ws) as HF. pose proof (sall_here _ _ Ws) as HN. cbn in HN. destruct HN as [ND HD].
      apply (gen_fields_all _ (fun g x => forall fv, vok (validate fv o e (ftype g) (Some x))) tfree) in E;
        [|intros g rs0 v0 rs0' Hg Hgen; rewrite Forall_forall in HF; destruct (IH _ _ _ _ (HF g Hg) Hgen); split; assumption
         |exact ND|constructor].
      destruct E as (E1 & E2 & E3). split; [apply tfree_entries; exact E1|].
      intros [|fv]; [right; reflexivity|]. cbn [validate].
      assert (Hh : dict_get kv (s2b "-type") = None).
      { rewrite E3; [reflexivity|]. intros Hin. apply in_map_iff in Hin. destruct Hin as (g & Hg1 & Hg2).
        rewrite Forall_forall in HD. apply HD in Hg2. tauto. }
      rewrite Hh. apply all_fields_vok. apply Forall_forall. intros g Hg.
      destruct (E2 g Hg) as (x & Hx1 & Hx2). unfold field_arg. rewrite Hx1. apply Hx2.
    - (* by-name reference *)
      destruct (lookup e n) as [s'|] eqn:E; [|discriminate].
      destruct (IH _ _ _ _ (We _ _ E) H) as [Ht Hc]. split; [exact Ht|].
      intros [|fv]; [right; reflexivity|]. cbn [validate]. rewrite E. apply Hc.
    - (* dict form with a logicalType: int / long / string look at it, everything else ignores it *)
      pose proof (sall_annot _ _ _ Ws) as Ws'. apply conf_annot.
      destruct s; try discriminate; try (eapply IH; [exact Ws'|exact H]).
      + eapply conf_int; eauto.
      + eapply conf_long; eauto.
      + eapply conf_string; eauto.
  Qed.
End Main.

(* ------------------------------------------------------------------ *)
(** * C20_count *)
Lemma gen_many_count f e s n rs l rs' : gen_many f e s n rs = Ok (l, rs') -> len l = Z.max 0 n.
Proof.
  unfold gen_many. intros H. apply (gen_items_all _ (fun _ => True)) in H; [|auto].
  destruct H as [_ H]. unfold len. rewrite H. lia.
Qed.

Lemma gen_one_is_gen f e s rs : gen_one f e s rs = gen f e s rs.
Proof.
  unfold gen_one, gen_many. change (Z.to_nat 1) with 1%nat. cbn [gen_items].
  destruct (gen f e s rs) as [[v r]| |]; reflexivity.
Qed.

Lemma gen_one_first f e s rs l rs' : gen_many f e s 1 rs = Ok (l, rs') ->
  exists v, l = [v] /\ gen_one f e s rs = Ok (v, rs').
Proof.
  intros H. unfold gen_one. rewrite H. cbn. pose proof (gen_many_count _ _ _ _ _ _ _ H) as Hl.
  destruct l as [|v [|w l]]; unfold len in Hl; cbn in Hl; try lia. eauto.
Qed.

(** every value of generate_many conforms *)
Lemma gen_many_conforms o e : wf_env e -> forall f s n rs l rs', wf_schema e s ->
  gen_many f e s n rs = Ok (l, rs') -> Forall (conf o e s) l.
Proof.
  intros We f s n rs l rs' Ws H. unfold gen_many in H.
  apply (gen_items_all _ (conf o e s)) in H; [apply H|]. intros. eapply gen_conforms; eauto.
Qed.

(* ------------------------------------------------------------------ *)
(** * Schemas with an acyclic reference graph: [ranked n e s] = every path of nested types and
      by-name references from [s] ends within [n] steps *)
Fixpoint ranked (n : nat) (e : env) (s : schema) {struct n} : Prop :=
  match n with
  | O => False
  | S n =>
      match s with
      | SArray it => ranked n e it
      | SMap vs => ranked n e vs
      | SUnion bs => Forall (ranked n e) bs
      | SRecord _ _ fs => Forall (fun f => ranked n e (ftype f)) fs
      | SRef nm => exists s', lookup e nm = Some s' /\ ranked n e s'
      | SAnnot _ s' => ranked n e s'
      | _ => True
      end
  end.

Fixpoint rankedb (n : nat) (e : env) (s : schema) {struct n} : bool :=
  match n with
  | O => false
  | S n =>
      match s with
      | SArray it => rankedb n e it
      | SMap vs => rankedb n e vs
      | SUnion bs => forallb (rankedb n e) bs
      | SRecord _ _ fs => forallb (fun f => rankedb n e (ftype f)) fs
      | SRef nm => match lookup e nm with Some s' => rankedb n e s' | None => false end
      | SAnnot _ s' => rankedb n e s'
      | _ => true
      end
  end.

Lemma rankedb_ok : forall n e s, rankedb n e s = true -> ranked n e s.
Proof.
  induction n as [|n IH]; intros e s H; [discriminate|]. destruct s; cbn in *; auto.
  - rewrite forallb_forall in H. apply Forall_forall. auto.
  - rewrite forallb_forall in H. apply Forall_forall. intros f Hf. apply IH. apply (H f Hf).
  - destruct (lookup e n0); [eauto|discriminate].
Qed.

Lemma ranked_S : forall n e s, ranked n e s -> ranked (S n) e s.
Proof.
  induction n as [|n IH]; intros e s H; [contradiction|].
  destruct s; try exact I; cbn [ranked] in H.
  - exact (IH _ _ H).
  - exact (IH _ _ H).
  - change (Forall (ranked (S n) e) bs). eapply Forall_impl; [|exact H]. auto.
  - change (Forall (fun f => ranked (S n) e (ftype f)) fs). eapply Forall_impl; [|exact H]. intros f Hf. exact (IH _ _ Hf).
  - change (exists s', lookup e n0 = Some s' /\ ranked (S n) e s'). destruct H as (s' & H1 & H2). eauto.
  - exact (IH _ _ H).
Qed.

(** validate needs at most two units of fuel per level *)
Lemma validate_ranked_nofuel o e : forall n s, ranked n e s ->
  forall fv ov, (2 * n <= fv + match ov with Some _ => 1 | None => 0 end)%nat -> validate fv o e s ov <> OutOfFuel.
Proof.
  induction n as [|n IH]; intros s R fv ov Hf; [contradiction|].
  destruct ov as [v|].
  2:{ destruct fv as [|fv]; [lia|]. cbn [validate]. destruct (strict o); [discriminate|].
      assert (A : forall fv' v, (2 * S n <= fv' + 1)%nat -> validate fv' o e s (Some v) <> OutOfFuel).
      { clear fv Hf. intros fv v Hf. destruct fv as [|fv]; [lia|].
        destruct s; cbn [validate ranked] in *; try discriminate.
        - destruct (as_sequence v); [|discriminate]. apply all_items_nofuel. apply Forall_forall. intros x _. apply IH; [exact R|lia].
        - destruct v; try discriminate. destruct (forallb is_str_key kv); [|discriminate].
          apply all_items_nofuel. apply Forall_forall. intros x _. apply IH; [exact R|lia].
        - assert (B : forall x, Forall (fun b' => validate fv o e b' (Some x) <> OutOfFuel) bs).
          { intros x. eapply Forall_impl; [|exact R]. intros b Hb. apply IH; [exact Hb|lia]. }
          destruct v; try (apply any_branch_nofuel; apply B).
          destruct (disable_tuple o); [apply any_branch_nofuel; apply B|].
          destruct l as [|nm [|v' [|? ?]]]; try discriminate. apply hinted_nofuel. apply B.
        - destruct v; try discriminate.
          match goal with |- (if ?c then _ else _) <> _ => destruct c end; [|discriminate].
          apply all_fields_nofuel. eapply Forall_impl; [|exact R]. cbn. intros f Hf'. apply IH; [exact Hf'|].
          destruct (field_arg kv f); lia.
        - destruct R as (s' & -> & R). apply IH; [exact R|lia].
        - apply IH; [exact R|lia]. }
      apply A. lia. }
  revert fv v Hf.
  intros fv v Hf. destruct fv as [|fv]; [lia|].
  destruct s; cbn [validate ranked] in *; try discriminate.
  - destruct (as_sequence v); [|discriminate]. apply all_items_nofuel. apply Forall_forall. intros x _. apply IH; [exact R|lia].
  - destruct v; try discriminate. destruct (forallb is_str_key kv); [|discriminate].
    apply all_items_nofuel. apply Forall_forall. intros x _. apply IH; [exact R|lia].
  - assert (B : forall x, Forall (fun b' => validate fv o e b' (Some x) <> OutOfFuel) bs).
    { intros x. eapply Forall_impl; [|exact R]. intros b Hb. apply IH; [exact Hb|lia]. }
    destruct v; try (apply any_branch_nofuel; apply B).
    destruct (disable_tuple o); [apply any_branch_nofuel; apply B|].
    destruct l as [|nm [|v' [|? ?]]]; try discriminate. apply hinted_nofuel. apply B.
  - destruct v; try discriminate.
    match goal with |- (if ?c then _ else _) <> _ => destruct c end; [|discriminate].
    apply all_fields_nofuel. eapply Forall_impl; [|exact R]. cbn. intros f Hf'. apply IH; [exact Hf'|].
    destruct (field_arg kv f); lia.
  - destruct R as (s' & -> & R). apply IH; [exact R|lia].
  - apply IH; [exact R|lia].
Qed.

(* ------------------------------------------------------------------ *)
(** * Termination on schemas with an acyclic reference graph *)

Ltac leaf_nofuel :=
  unfold gen_string, gen_int, gen_long, gen_float, gen_bool, gen_bytes, gen_enum, uuid4_hex, rand_float, randbytes, pint, randint, draw;
  repeat match goal with |- context [if ?c then _ else _] => destruct c end;
  try discriminate;
  match goal with rs : rand_stream |- _ => destruct rs; cbn [bind]; try discriminate end.

Lemma rand_letters_nofuel k : forall rs, rand_letters k rs <> OutOfFuel.
Proof.
  induction k as [|k IH]; intros rs; cbn; [discriminate|]. destruct rs as [|d rs]; cbn; [discriminate|].
  specialize (IH rs). destruct (rand_letters k rs) as [[l r]| |]; cbn; try discriminate. contradiction.
Qed.

Lemma gen_utf8_nofuel rs : gen_utf8 rs <> OutOfFuel.
Proof. apply rand_letters_nofuel. Qed.

Lemma gen_string_nofuel lt rs : gen_string lt rs <> OutOfFuel.
Proof.
  unfold gen_string. destruct (lt_is lt "uuid").
  - unfold uuid4_hex, draw. destruct rs; cbn [bind]; discriminate.
  - pose proof (gen_utf8_nofuel rs). destruct (gen_utf8 rs) as [[l r]| |]; cbn; try discriminate. contradiction.
Qed.
Lemma gen_int_nofuel lt rs : gen_int lt rs <> OutOfFuel. Proof. leaf_nofuel. Qed.
Lemma gen_long_nofuel lt rs : gen_long lt rs <> OutOfFuel. Proof. leaf_nofuel. Qed.
Lemma gen_float_nofuel rs : gen_float rs <> OutOfFuel. Proof. leaf_nofuel. Qed.
Lemma gen_bool_nofuel rs : gen_bool rs <> OutOfFuel. Proof. leaf_nofuel. Qed.
Lemma gen_bytes_nofuel n rs : gen_bytes n rs <> OutOfFuel. Proof. leaf_nofuel. Qed.
Lemma gen_enum_nofuel syms rs : gen_enum syms rs <> OutOfFuel.
Proof. leaf_nofuel. match goal with |- context [nthZ ?l ?i] => destruct (nthZ l i) end; discriminate. Qed.

Section GenTermination.
  Variable rec : schema -> rand_stream -> res (pyval * rand_stream).

  Lemma gen_items_nofuel s : (forall rs, rec s rs <> OutOfFuel) -> forall n rs, gen_items rec n s rs <> OutOfFuel.
  Proof.
    intros H. induction n as [|n IH]; intros rs; cbn; [discriminate|].
    specialize (H rs). destruct (rec s rs) as [[v r]| |]; cbn; try discriminate; [|contradiction].
    specialize (IH r). destruct (gen_items rec n s r) as [[l r']| |]; cbn; try discriminate. contradiction.
  Qed.

  Lemma gen_entries_nofuel s : (forall rs, rec s rs <> OutOfFuel) -> forall n acc rs, gen_entries rec n s acc rs <> OutOfFuel.
  Proof.
    intros H. induction n as [|n IH]; intros acc rs; cbn; [discriminate|].
    pose proof (gen_utf8_nofuel rs). destruct (gen_utf8 rs) as [[k r]| |]; cbn; try discriminate; [|contradiction].
    specialize (H r). destruct (rec s r) as [[v r']| |]; cbn; try discriminate; [apply IH|contradiction].
  Qed.

  Lemma gen_fields_nofuel fs : Forall (fun f => forall rs, rec (ftype f) rs <> OutOfFuel) fs ->
    forall acc rs, gen_fields rec fs acc rs <> OutOfFuel.
  Proof.
    induction 1 as [|f fs H _ IH]; intros acc rs; cbn; [discriminate|].
    specialize (H rs). destruct (rec (ftype f) rs) as [[v r]| |]; cbn; try discriminate; [apply IH|contradiction].
  Qed.
End GenTermination.

(** fuel = rank suffices, for every stream (the result is a value or, on a short stream, Err) *)
Theorem gen_ranked_nofuel e : forall n s, ranked n e s -> forall f rs, (n <= f)%nat -> gen f e s rs <> OutOfFuel.
Proof.
  induction n as [|n IH]; intros s R f rs Hf; [contradiction|].
  destruct f as [|f]; [lia|]. assert (Hf' : (n <= f)%nat) by lia.
  destruct s; cbn [gen ranked] in *; try discriminate.
  - apply gen_bool_nofuel. - apply gen_int_nofuel. - apply gen_long_nofuel. - apply gen_float_nofuel. - apply gen_float_nofuel.
  - apply gen_bytes_nofuel. - apply gen_string_nofuel. - apply gen_bytes_nofuel. - apply gen_enum_nofuel.
  - pose proof (gen_items_nofuel (gen f e) s (fun rs => IH s R f rs Hf') ITEMS rs) as H.
    destruct (gen_items (gen f e) ITEMS s rs) as [[l r]| |]; cbn; try discriminate. contradiction.
  - pose proof (gen_entries_nofuel (gen f e) s (fun rs => IH s R f rs Hf') ITEMS [] rs) as H.
    destruct (gen_entries (gen f e) ITEMS s [] rs) as [[l r]| |]; cbn; try discriminate. contradiction.
  - pose proof (fun a b => randint_inv a b rs) as HR.
    destruct (randint 0 (len bs - 1) rs) as [[i r]| |] eqn:E; cbn; try discriminate.
    + destruct (nthZ bs i) as [b|] eqn:E2; [|discriminate]. apply IH; [|exact Hf'].
      rewrite Forall_forall in R. apply R. eapply nthZ_In; eauto.
    + revert E. clear. unfold randint, draw. destruct (len bs - 1 <? 0); [discriminate|]. destruct rs; cbn; discriminate.
  - assert (H : Forall (fun g => forall rs, gen f e (ftype g) rs <> OutOfFuel) fs).
    { eapply Forall_impl; [|exact R]. intros g Hg rs0. apply IH; assumption. }
    pose proof (gen_fields_nofuel (gen f e) fs H [] rs) as H2.
    destruct (gen_fields (gen f e) fs [] rs) as [[l r]| |]; cbn; try discriminate. contradiction.
  - destruct R as (s' & -> & R). apply IH; assumption.
  - destruct s; try discriminate; try (apply IH; assumption).
    + apply gen_int_nofuel. + apply gen_long_nofuel. + apply gen_string_nofuel.
Qed.

(** ** ... and with enough draws the result is a value.  [cost n e s] bounds the number of draws. *)
Fixpoint cost (n : nat) (e : env) (s : schema) {struct n} : nat :=
  match n with
  | O => 0
  | S n =>
      match s with
      | SNull => 0
      | SString => 10
      | SArray it => 10 * cost n e it
      | SMap vs => 10 * (10 + cost n e vs)
      | SUnion bs => 1 + fold_right (fun b m => Nat.max (cost n e b) m) 0 bs
      | SRecord _ _ fs => fold_right (fun f m => cost n e (ftype f) + m) 0 fs
      | SRef nm => match lookup e nm with Some s' => cost n e s' | None => 0 end
      | SAnnot _ s' => match s' with SInt | SLong => 1 | SString => 10 | _ => cost n e s' end
      | _ => 1
      end
  end%nat.

(** [took c rs r]: [r] is a value, and at most [c] draws of [rs] were used *)
Definition took {A} (c : nat) (rs : rand_stream) (r : res (A * rand_stream)) : Prop :=
  exists v rs', r = Ok (v, rs') /\ (length rs <= length rs' + c)%nat /\ (length rs' <= length rs)%nat.

Lemma took_le {A} c c' rs (r : res (A * rand_stream)) : (c <= c')%nat -> took c rs r -> took c' rs r.
Proof. intros L (v & rs' & H1 & H2 & H3). exists v, rs'. repeat split; auto; lia. Qed.

Lemma randint_took a b rs : a <= b -> (1 <= length rs)%nat -> took 1 rs (randint a b rs).
Proof.
  intros L H. unfold randint. destruct (b <? a) eqn:E; [lia|]. destruct rs as [|d rs]; cbn in *; [lia|].
  eexists _, _. split; [reflexivity|]. cbn [length] in *. lia.
Qed.

Lemma pint_took r rs : took 1 rs r -> took 1 rs (pint r).
Proof. intros (z & rs' & -> & H). cbn. eexists _, _. split; [reflexivity|exact H]. Qed.

Lemma gen_int_took lt rs : (1 <= length rs)%nat -> took 1 rs (gen_int lt rs).
Proof.
  intros H. unfold gen_int.
  destruct (lt_is lt "date"); [|destruct (lt_is lt "time-millis")]; apply pint_took, randint_took; try exact H.
  - rewrite DATE_LO_lit, DATE_HI_lit. lia. - unfold MLS_PER_HOUR. lia. - unfold INT_MIN_VALUE, INT_MAX_VALUE. lia.
Qed.

Lemma gen_long_took lt rs : (1 <= length rs)%nat -> took 1 rs (gen_long lt rs).
Proof.
  intros H. unfold gen_long.
  destruct (lt_is lt "time-micros"); [|destruct (lt_is lt "timestamp-millis" || lt_is lt "local-timestamp-millis");
    [|destruct (lt_is lt "timestamp-micros" || lt_is lt "local-timestamp-micros")]]; apply pint_took, randint_took; try exact H.
  - unfold MCS_PER_HOUR. lia. - rewrite MAX_TS_MILLIS_lit. lia. - rewrite MAX_TS_MICROS_lit. lia.
  - unfold LONG_MIN_VALUE, LONG_MAX_VALUE. lia.
Qed.

Lemma rand_letters_took k : forall rs, (k <= length rs)%nat -> took k rs (rand_letters k rs).
Proof.
  induction k as [|k IH]; intros rs H; cbn.
  - eexists _, _. split; [reflexivity|cbn [length] in *; lia].
  - destruct rs as [|d rs]; cbn in *; [lia|]. destruct (IH rs ltac:(lia)) as (l & rs' & -> & H1 & H2). cbn.
    eexists _, _. split; [reflexivity|cbn [length] in *; lia].
Qed.

Lemma gen_string_took lt rs : (10 <= length rs)%nat -> took 10 rs (gen_string lt rs).
Proof.
  intros H. unfold gen_string. destruct (lt_is lt "uuid").
  - unfold uuid4_hex. destruct rs as [|d rs]; cbn [draw bind length] in *; [lia|]. eexists _, _. split; [reflexivity|cbn [length] in *; lia].
  - destruct (rand_letters_took 10 rs H) as (l & rs' & E & H1). unfold gen_utf8. rewrite E. cbn.
    eexists _, _. split; [reflexivity|exact H1].
Qed.

Lemma gen_float_took rs : (1 <= length rs)%nat -> took 1 rs (gen_float rs).
Proof.
  intros H. unfold gen_float, rand_float. destruct rs as [|d rs]; cbn in *; [lia|]. eexists _, _. split; [reflexivity|cbn [length] in *; lia].
Qed.

Lemma gen_bool_took rs : (1 <= length rs)%nat -> took 1 rs (gen_bool rs).
Proof.
  intros H. unfold gen_bool. destruct (randint_took 0 1 rs ltac:(lia) H) as (z & rs' & -> & H1). cbn.
  eexists _, _. split; [reflexivity|exact H1].
Qed.

Lemma gen_bytes_took n rs : 0 <= n -> (1 <= length rs)%nat -> took 1 rs (gen_bytes n rs).
Proof.
  intros L H. unfold gen_bytes, randbytes. destruct (n <? 0) eqn:E; [lia|].
  destruct rs as [|d rs]; cbn [draw bind length] in *; [lia|]. eexists _, _. split; [reflexivity|cbn [length] in *; lia].
Qed.

Lemma len_pos_of_nonempty {A} (l : list A) : l <> [] -> 0 <= len l - 1.
Proof. destruct l; [contradiction|]. rewrite len_cons. pose proof (len_nonneg l). lia. Qed.

Lemma gen_enum_took syms rs : syms <> [] -> (1 <= length rs)%nat -> took 1 rs (gen_enum syms rs).
Proof.
  intros N H. unfold gen_enum. pose proof (len_pos_of_nonempty _ N) as L.
  destruct (randint_took 0 (len syms - 1) rs L H) as (i & rs' & E & H1). rewrite E. cbn.
  apply randint_inv in E. destruct E as [E _]. destruct (nthZ_some syms i ltac:(lia)) as (x & ->).
  eexists _, _. split; [reflexivity|exact H1].
Qed.

Section GenProgress.
  Variable rec : schema -> rand_stream -> res (pyval * rand_stream).

  Lemma gen_items_took s c : (forall rs, (c <= length rs)%nat -> took c rs (rec s rs)) ->
    forall n rs, (n * c <= length rs)%nat -> took (n * c) rs (gen_items rec n s rs).
  Proof.
    intros H. induction n as [|n IH]; intros rs L; cbn [gen_items].
    - eexists _, _. split; [reflexivity|cbn [length] in *; lia].
    - destruct (H rs ltac:(lia)) as (v & r1 & -> & A1 & A2). cbn [bind].
      destruct (IH r1 ltac:(lia)) as (l & r2 & -> & B1 & B2). cbn [bind].
      eexists _, _. split; [reflexivity|cbn [length] in *; lia].
  Qed.

  Lemma gen_entries_took s c : (forall rs, (c <= length rs)%nat -> took c rs (rec s rs)) ->
    forall n acc rs, (n * (10 + c) <= length rs)%nat -> took (n * (10 + c)) rs (gen_entries rec n s acc rs).
  Proof.
    intros H. induction n as [|n IH]; intros acc rs L; cbn [gen_entries].
    - eexists _, _. split; [reflexivity|cbn [length] in *; lia].
    - destruct (rand_letters_took 10 rs ltac:(lia)) as (k & r0 & E & Z1 & Z2). unfold gen_utf8 at 1. rewrite E. cbn [bind].
      destruct (H r0 ltac:(lia)) as (v & r1 & -> & A1 & A2). cbn [bind].
      destruct (IH (dict_set acc k v) r1 ltac:(lia)) as (l & r2 & -> & B1 & B2).
      eexists _, _. split; [reflexivity|cbn [length] in *; lia].
  Qed.

  Lemma gen_fields_took (c : field -> nat) : forall fs,
    Forall (fun f => forall rs, (c f <= length rs)%nat -> took (c f) rs (rec (ftype f) rs)) fs ->
    forall acc rs, (fold_right (fun f m => c f + m) 0 fs <= length rs)%nat ->
      took (fold_right (fun f m => c f + m) 0 fs)%nat rs (gen_fields rec fs acc rs).
  Proof.
    induction 1 as [|f fs H _ IH]; intros acc rs L; cbn [gen_fields fold_right] in *.
    - eexists _, _. split; [reflexivity|cbn [length] in *; lia].
    - destruct (H rs ltac:(lia)) as (v & r1 & -> & A1 & A2). cbn [bind].
      destruct (IH (dict_set acc (fname f) v) r1 ltac:(lia)) as (l & r2 & -> & B1 & B2).
      eexists _, _. split; [reflexivity|cbn [length] in *; lia].
  Qed.
End GenProgress.

Lemma fold_max_ge {A} (g : A -> nat) l x : In x l -> (g x <= fold_right (fun b m => Nat.max (g b) m) 0 l)%nat.
Proof. induction l as [|y l IH]; cbn; [intros []|intros [->|H]; [lia|]]. specialize (IH H). lia. Qed.

Theorem gen_ranked_ok e : wf_env e -> forall n s, ranked n e s -> wf_schema e s ->
  forall rs, (cost n e s <= length rs)%nat -> took (cost n e s) rs (gen n e s rs).
Proof.
  intros We. induction n as [|n IH]; intros s R Ws rs L; [contradiction|].
  destruct s; cbn [gen ranked cost] in *.
  - eexists _, _. split; [reflexivity|cbn [length] in *; lia].
  - apply gen_bool_took; exact L.
  - apply gen_int_took; exact L.
  - apply gen_long_took; exact L.
  - apply gen_float_took; exact L.
  - apply gen_float_took; exact L.
  - apply gen_bytes_took; [lia|exact L].
  - apply gen_string_took; exact L.
  - apply gen_bytes_took; [exact (sall_here _ _ Ws)|exact L].
  - apply gen_enum_took; [exact (sall_here _ _ Ws)|exact L].
  - destruct (gen_items_took (gen n e) s (cost n e s) (fun rs0 => IH s R (sall_array _ _ Ws) rs0) 10 rs L) as (l & r & E & H).
    unfold ITEMS. rewrite E. cbn [bind]. eexists _, _. split; [reflexivity|exact H].
  - destruct (gen_entries_took (gen n e) s (cost n e s) (fun rs0 => IH s R (sall_map _ _ Ws) rs0) 10 [] rs L) as (l & r & E & H).
    unfold ITEMS. rewrite E. cbn [bind]. eexists _, _. split; [reflexivity|exact H].
  - pose proof (sall_here _ _ Ws) as N. cbn in N.
    destruct (randint_took 0 (len bs - 1) rs (len_pos_of_nonempty _ N) ltac:(lia)) as (i & r & E & A1 & A2).
    rewrite E. cbn [bind]. apply randint_inv in E. destruct E as [E _].
    destruct (nthZ_some bs i ltac:(lia)) as (b & Hb). rewrite Hb. pose proof (nthZ_In _ _ _ Hb) as Hin.
    pose proof (fold_max_ge (cost n e) bs b Hin) as M.
    pose proof (sall_union _ _ Ws) as WB. rewrite Forall_forall in R, WB.
    destruct (IH b (R _ Hin) (WB _ Hin) r ltac:(lia)) as (v & r' & -> & B1 & B2).
    eexists _, _. split; [reflexivity|cbn [length] in *; lia].
  - pose proof (sall_record _ _ _ _ Ws) as WF.
    assert (H : Forall (fun f => forall rs, (cost n e (ftype f) <= length rs)%nat -> took (cost n e (ftype f)) rs (gen n e (ftype f) rs)) fs).
    { apply Forall_forall. intros f Hf rs0. rewrite Forall_forall in R, WF. apply IH; [exact (R f Hf)|exact (WF f Hf)]. }
    destruct (gen_fields_took (gen n e) (fun f => cost n e (ftype f)) fs H [] rs L) as (l & r & E & H1).
    rewrite E. cbn [bind]. eexists _, _. split; [reflexivity|exact H1].
  - destruct R as (s' & E & R). rewrite E in *. apply IH; [exact R|exact (We _ _ E)|exact L].
  - pose proof (sall_here _ _ Ws) as N. cbn in N. pose proof (sall_annot _ _ _ Ws) as Ws'.
    destruct s; try contradiction; try (apply IH; assumption).
    + apply gen_int_took; exact L. + apply gen_long_took; exact L. + apply gen_string_took; exact L.
Qed.

(* ------------------------------------------------------------------ *)
(** * F12: a type that contains itself through an array is never generated *)
Definition T_name : str := s2b "T".
Definition T_rec : schema := SRecord T_name [] [mkField (s2b "kids") (SArray (SRef T_name)) None []].
Definition T_env : env := [(T_name, T_rec)].

Lemma T_lookup : lookup T_env T_name = Some T_rec.
Proof. reflexivity. Qed.

(** no fuel suffices, whatever the stream: no draw is ever consumed, the recursion just goes on *)
Theorem rec_array_never : forall f rs,
  gen f T_env T_rec rs = OutOfFuel /\ gen f T_env (SRef T_name) rs = OutOfFuel /\
  gen f T_env (SArray (SRef T_name)) rs = OutOfFuel.
Proof.
  induction f as [|f IH]; intros rs; [repeat split; reflexivity|].
  destruct (IH rs) as (H1 & H2 & H3). repeat split.
  - unfold T_rec. cbn [gen gen_fields ftype]. fold T_rec. rewrite H3. reflexivity.
  - cbn [gen]. rewrite T_lookup. exact H1.
  - cbn [gen]. unfold ITEMS. cbn [gen_items]. rewrite H2. reflexivity.
Qed.

Lemma T_wf : wf_env T_env /\ wf_schema T_env T_rec.
Proof.
  assert (W : wf_schema T_env T_rec).
  { unfold wf_schema, T_rec. cbn [sall ftype]. repeat split; try exact I.
    - cbn. constructor; [intros []|constructor].
    - cbn. constructor; [|constructor]. split; [discriminate|exact I].
    - cbn. eexists. apply T_lookup. }
  split; [|exact W]. intros n s H. unfold T_env in H. cbn [lookup] in H. destruct (bytes_eqb T_name n); [|discriminate]. injection H as <-. exact W.
Qed.

(* ------------------------------------------------------------------ *)
(** * C20_readable: the generated stored values lie in the domain of the logical readers *)
Definition is_hexdigit (c : Z) : Prop := 48 <= c <= 57 \/ 97 <= c <= 102.

Lemma hexchar_ok n : 0 <= n < 16 -> is_hexdigit (hexchar n).
Proof. unfold is_hexdigit, hexchar. intros H. destruct (n <? 10) eqn:E; lia. Qed.

Lemma hex_str_ok b : Forall is_byte b -> length (hex_str b) = (2 * length b)%nat /\ Forall is_hexdigit (hex_str b).
Proof.
  induction 1 as [|x b Hx _ [IH1 IH2]]; [split; [reflexivity|constructor]|].
  unfold hex_str in *. cbn [flat_map app length]. split; [lia|].
  unfold is_byte in Hx. constructor; [apply hexchar_ok; lia|]. constructor; [apply hexchar_ok; lia|exact IH2].
Qed.

Lemma lt_is_refl s : lt_is (s2b s) s = true.
Proof. apply gbeqb_refl. Qed.

Lemma annot_int_unfold f e lt rs : gen (S f) e (SAnnot lt SInt) rs = gen_int lt rs. Proof. reflexivity. Qed.
Lemma annot_long_unfold f e lt rs : gen (S f) e (SAnnot lt SLong) rs = gen_long lt rs. Proof. reflexivity. Qed.
Lemma annot_string_unfold f e lt rs : gen (S f) e (SAnnot lt SString) rs = gen_string lt rs. Proof. reflexivity. Qed.

Lemma gen_nonzero f e s rs x : gen f e s rs = Ok x -> exists f', f = S f'.
Proof. destruct f; [discriminate|eauto]. Qed.

Theorem readable_date f e rs v rs' : gen f e (SAnnot (s2b "date") SInt) rs = Ok (v, rs') ->
  exists d, v = PInt d /\ 1 <= d + 719163 <= 3652059 /\ read_date d = Ok (d + DAYS_SHIFT).
Proof.
  intros H. destruct (gen_nonzero _ _ _ _ _ H) as [f' ->]. rewrite annot_int_unfold in H.
  unfold gen_int in H. rewrite lt_is_refl in H. apply pint_inv in H. destruct H as (d & -> & H).
  apply randint_inv in H. destruct H as [H _]. rewrite DATE_LO_lit, DATE_HI_lit in H.
  exists d. split; [reflexivity|]. split; [lia|].
  unfold read_date, DAYS_SHIFT, MIN_ORDINAL, MAX_ORDINAL.
  destruct ((1 <=? d + 719163) && (d + 719163 <=? 3652059)) eqn:E; [reflexivity|lia].
Qed.

Theorem readable_time_millis f e rs v rs' : gen f e (SAnnot (s2b "time-millis") SInt) rs = Ok (v, rs') ->
  exists n, v = PInt n /\ 0 <= n < 86400000 /\
    exists h m s ms, valid_tod h m s (ms * 1000) /\ read_time_millis n = Ok (h, m, s, ms * 1000) /\
                     prepare_time_millis h m s (ms * 1000) = n.
Proof.
  intros H. destruct (gen_nonzero _ _ _ _ _ H) as [f' ->]. rewrite annot_int_unfold in H.
  unfold gen_int in H. change (lt_is (s2b "time-millis") "date") with false in H. rewrite lt_is_refl in H.
  apply pint_inv in H. destruct H as (n & -> & H). apply randint_inv in H. destruct H as [H _].
  unfold MLS_PER_HOUR in H. assert (R : 0 <= n < 86400000) by lia.
  exists n. split; [reflexivity|]. split; [exact R|].
  destruct (time_millis_onto n R) as (h & m & s & ms & A & _ & B & C). exists h, m, s, ms. auto.
Qed.

Theorem readable_time_micros f e rs v rs' : gen f e (SAnnot (s2b "time-micros") SLong) rs = Ok (v, rs') ->
  exists n, v = PInt n /\ 0 <= n < 86400000000 /\
    exists h m s us, valid_tod h m s us /\ read_time_micros n = Ok (h, m, s, us) /\ prepare_time_micros h m s us = n.
Proof.
  intros H. destruct (gen_nonzero _ _ _ _ _ H) as [f' ->]. rewrite annot_long_unfold in H.
  unfold gen_long in H. rewrite lt_is_refl in H.
  apply pint_inv in H. destruct H as (n & -> & H). apply randint_inv in H. destruct H as [H _].
  unfold MCS_PER_HOUR in H. assert (R : 0 <= n < 86400000000) by lia.
  exists n. split; [reflexivity|]. split; [exact R|].
  destruct (time_micros_onto n R) as (h & m & s & us & A & B & C). exists h, m, s, us. auto.
Qed.

Definition is_millis_lt (lt : str) : Prop := lt = s2b "timestamp-millis" \/ lt = s2b "local-timestamp-millis".
Definition is_micros_lt (lt : str) : Prop := lt = s2b "timestamp-micros" \/ lt = s2b "local-timestamp-micros".

Theorem readable_ts_millis f e lt rs v rs' : is_millis_lt lt -> gen f e (SAnnot lt SLong) rs = Ok (v, rs') ->
  exists n, v = PInt n /\ 0 <= n <= 2 ^ 45 /\
    read_timestamp_millis n = Ok (n * 1000) /\ read_local_timestamp_millis n = Ok (n * 1000).
Proof.
  intros L H. destruct (gen_nonzero _ _ _ _ _ H) as [f' ->]. rewrite annot_long_unfold in H.
  assert (E : exists n, v = PInt n /\ 0 <= n <= MAX_TIMESTAMP_MILLIS).
  { destruct L as [-> | ->]; unfold gen_long in H;
      [change (lt_is (s2b "timestamp-millis") "time-micros") with false in H
      |change (lt_is (s2b "local-timestamp-millis") "time-micros") with false in H;
       change (lt_is (s2b "local-timestamp-millis") "timestamp-millis") with false in H];
      rewrite lt_is_refl in H; cbn [orb] in H;
      apply pint_inv in H; destruct H as (n & -> & H); apply randint_inv in H; destruct H as [H _]; eauto. }
  destruct E as (n & -> & R). rewrite MAX_TS_MILLIS_lit in R. exists n. split; [reflexivity|].
  change (2 ^ 45) with 35184372088832. split; [exact R|].
  unfold read_timestamp_millis, read_local_timestamp_millis. split; apply mk_datetime_ok; unfold in_datetime_range, DT_MIN, DT_MAX; lia.
Qed.

Theorem readable_ts_micros f e lt rs v rs' : is_micros_lt lt -> gen f e (SAnnot lt SLong) rs = Ok (v, rs') ->
  exists n, v = PInt n /\ 0 <= n <= 2 ^ 55 /\
    read_timestamp_micros n = Ok n /\ read_local_timestamp_micros n = Ok n.
Proof.
  intros L H. destruct (gen_nonzero _ _ _ _ _ H) as [f' ->]. rewrite annot_long_unfold in H.
  assert (E : exists n, v = PInt n /\ 0 <= n <= MAX_TIMESTAMP_MICROS).
  { destruct L as [-> | ->]; unfold gen_long in H;
      [change (lt_is (s2b "timestamp-micros") "time-micros") with false in H;
       change (lt_is (s2b "timestamp-micros") "timestamp-millis") with false in H;
       change (lt_is (s2b "timestamp-micros") "local-timestamp-millis") with false in H
      |change (lt_is (s2b "local-timestamp-micros") "time-micros") with false in H;
       change (lt_is (s2b "local-timestamp-micros") "timestamp-millis") with false in H;
       change (lt_is (s2b "local-timestamp-micros") "local-timestamp-millis") with false in H;
       change (lt_is (s2b "local-timestamp-micros") "timestamp-micros") with false in H];
      rewrite lt_is_refl in H; cbn [orb] in H;
      apply pint_inv in H; destruct H as (n & -> & H); apply randint_inv in H; destruct H as [H _]; eauto. }
  destruct E as (n & -> & R). rewrite MAX_TS_MICROS_lit in R. exists n. split; [reflexivity|].
  change (2 ^ 55) with 36028797018963968. split; [exact R|].
  unfold read_timestamp_micros, read_local_timestamp_micros. split; apply mk_datetime_ok; unfold in_datetime_range, DT_MIN, DT_MAX; lia.
Qed.

(** uuid.UUID(hex) accepts exactly 32 hex digits (after stripping "urn:uuid:", braces and hyphens) *)
Lemma ok_pair_inv {A B} (a a' : A) (b b' : B) : @Ok (A * B) (a, b) = Ok (a', b') -> a = a' /\ b = b'.
Proof. intros H. inversion H. auto. Qed.

Theorem readable_uuid f e rs v rs' : gen f e (SAnnot (s2b "uuid") SString) rs = Ok (v, rs') ->
  exists h, v = PStr h /\ length h = 32%nat /\ Forall is_hexdigit h.
Proof.
  intros H. destruct (gen_nonzero _ _ _ _ _ H) as [f' ->]. rewrite annot_string_unfold in H.
  unfold gen_string in H. rewrite lt_is_refl in H. unfold uuid4_hex in H.
  destruct rs as [|d rs]; cbn [draw bind] in H; [discriminate|].
  pose proof (be_loop_bytes 16 (uuid4_int d)) as HB.
  pose proof (be_loop_length 16 (uuid4_int d)) as HL.
  revert H HB HL. generalize (be_loop 16 (uuid4_int d)). intros b H HB HL.
  apply ok_pair_inv in H. destruct H as [<- <-].
  eexists. split; [reflexivity|].
  destruct (hex_str_ok _ HB) as [H1 H2].
  rewrite HL in H1. split; [exact H1|exact H2].
Qed.


(* ------------------------------------------------------------------ *)
(** * Enough validate fuel exists for recursive schemas too

    Shape of the schemas parse_schema returns for valid input: no union directly inside a union, a dict form with a
    logicalType wraps a primitive or a complex/named type (never a reference, a union or another dict form), the
    named-schema table holds named types.  Then between two descents into the datum validate takes at most four
    steps (union -> reference -> annotation -> named type), plus one for an absent field. *)
Fixpoint vd (v : pyval) : nat :=
  match v with
  | PList l | PTuple l => S ((fix mx (l : list pyval) : nat := match l with [] => 0 | x :: l => Nat.max (vd x) (mx l) end) l)
  | PDict kv => S (S ((fix mx (l : list (pyval * pyval)) : nat :=
                         match l with [] => 0 | (_, x) :: l => Nat.max (vd x) (mx l) end) kv))
  | PBytes _ | PByteArray _ => 2
  | _ => 1
  end%nat.

Lemma vd_list_in l x : In x l -> (vd x < vd (PList l))%nat.
Proof.
  cbn [vd]. induction l as [|y l IH]; [intros []|]. intros [->|H]; [lia|]. specialize (IH H). lia.
Qed.

Lemma vd_tuple_in l x : In x l -> (vd x < vd (PTuple l))%nat.
Proof. exact (vd_list_in l x). Qed.

Lemma vd_dict_in kv k x : In (k, x) kv -> (vd x + 2 <= vd (PDict kv))%nat.
Proof.
  cbn [vd]. induction kv as [|[k' y] kv IH]; [intros []|]. intros [E|H]; [injection E as -> ->; lia|]. specialize (IH H). lia.
Qed.

Lemma dict_get_in kv k x : dict_get kv k = Some x -> exists k', In (k', x) kv.
Proof.
  induction kv as [|[k' y] kv IH]; cbn; [discriminate|].
  destruct k'; try (intros H; destruct (IH H) as [k0 Hk]; eauto).
  destruct (bytes_eqb s k); [intros H; injection H as ->; eauto|intros H; destruct (IH H) as [k0 Hk]; eauto].
Qed.

Lemma vd_seq v l x : as_sequence v = Some l -> In x l -> (vd x < vd v)%nat.
Proof.
  destruct v; cbn [as_sequence]; intros H Hin; try discriminate; injection H as <-.
  - apply in_map_iff in Hin. destruct Hin as (z & <- & _). cbn. lia.
  - apply in_map_iff in Hin. destruct Hin as (z & <- & _). cbn. lia.
  - apply vd_list_in; assumption.
  - apply vd_tuple_in; assumption.
Qed.

Lemma vd_pos v : (1 <= vd v)%nat.
Proof. destruct v; cbn; lia. Qed.

Definition crank (s : schema) : nat :=
  match s with SUnion _ => 4 | SRef _ => 3 | SAnnot _ _ => 2 | _ => 1 end%nat.

Definition is_named (s : schema) : Prop :=
  match s with
  | SRecord _ _ _ | SEnum _ _ _ _ | SFixed _ _ _ => True
  | SAnnot _ (SRecord _ _ _) | SAnnot _ (SEnum _ _ _ _) | SAnnot _ (SFixed _ _ _) => True
  | _ => False
  end.

(** one-level shape conditions, and: validating a field's JSON default terminates within [fd] *)
Definition node_shape (fd : nat) (o : wopts) (e : env) (s : schema) : Prop :=
  match s with
  | SUnion bs => Forall (fun b => match b with SUnion _ => False | _ => True end) bs
  | SAnnot _ s' => match s' with SAnnot _ _ | SUnion _ | SRef _ => False | _ => True end
  | SRecord _ _ fs =>
      Forall (fun f => forall d, fdefault f = Some d ->
                forall fv, (fd <= fv)%nat -> validate fv o e (ftype f) (Some d) <> OutOfFuel) fs
  | SRef n => exists s', lookup e n = Some s'
  | _ => True
  end.

Definition shaped (fd : nat) (o : wopts) (e : env) (s : schema) : Prop := sall (node_shape fd o e) s.
Definition shaped_env (fd : nat) (o : wopts) (e : env) : Prop :=
  forall n s, lookup e n = Some s -> shaped fd o e s /\ is_named s.

Definition ovd (ov : option pyval) : nat := match ov with Some v => vd v | None => 1%nat end.

Section Fuel.
  Variable fd : nat.
  Variable o : wopts.
  Variable e : env.
  Hypothesis She : shaped_env fd o e.

  Definition need (n : nat) (s : schema) (ov : option pyval) : nat :=
    (5 * n + fd + crank s + match ov with Some _ => 0 | None => 1 end)%nat.

  Definition total_at (n : nat) : Prop :=
    forall s ov, shaped fd o e s -> (ovd ov <= n)%nat -> forall fv, (need n s ov <= fv)%nat -> validate fv o e s ov <> OutOfFuel.

  Lemma crank_le4 s : (crank s <= 4)%nat. Proof. destruct s; cbn; lia. Qed.

  Lemma total_step n : total_at n -> total_at (S n).
  Proof.
    intros IH.
    (* sub-calls one level down in the datum *)
    assert (SUB : forall s ov fv, shaped fd o e s -> (ovd ov <= n)%nat -> (5 * S n + fd <= fv)%nat -> validate fv o e s ov <> OutOfFuel).
    { intros s ov fv Hs Hv Hf. apply IH; [exact Hs|exact Hv|]. unfold need. pose proof (crank_le4 s). destruct ov; lia. }
    (* crank 1: the types that look at the datum *)
    assert (A1 : forall s v fv, shaped fd o e s -> crank s = 1%nat -> (vd v <= S n)%nat -> (5 * S n + fd + 1 <= fv)%nat ->
                  validate fv o e s (Some v) <> OutOfFuel).
    { intros s v fv Hs Hc Hv Hf. destruct fv as [|fv]; [lia|].
      destruct s; cbn [crank] in Hc; try discriminate; cbn [validate]; try discriminate.
      - destruct (as_sequence v) as [l|] eqn:E; [|discriminate]. apply all_items_nofuel. apply Forall_forall. intros x Hx.
        apply SUB; [exact (sall_array _ _ Hs)| |lia]. pose proof (vd_seq _ _ _ E Hx). cbn [ovd]. lia.
      - destruct v; try discriminate. destruct (forallb is_str_key kv); [|discriminate].
        apply all_items_nofuel. apply Forall_forall. intros x Hx. apply in_map_iff in Hx. destruct Hx as ([k y] & <- & Hin).
        apply SUB; [exact (sall_map _ _ Hs)| |lia]. pose proof (vd_dict_in _ _ _ Hin). cbn [ovd snd]. lia.
      - destruct v; try discriminate.
        match goal with |- (if ?c then _ else _) <> _ => destruct c end; [|discriminate].
        apply all_fields_nofuel. pose proof (sall_record _ _ _ _ Hs) as HF. pose proof (sall_here _ _ Hs) as HD. cbn in HD.
        rewrite Forall_forall in *. intros f Hin. unfold field_arg.
        destruct (dict_get kv (fname f)) as [x|] eqn:E.
        + destruct (dict_get_in _ _ _ E) as [k' Hk']. pose proof (vd_dict_in _ _ _ Hk').
          apply SUB; [exact (HF f Hin)|cbn [ovd]; lia|lia].
        + destruct (fdefault f) as [d|] eqn:Ed.
          * apply (HD f Hin d Ed). lia.
          * apply SUB; [exact (HF f Hin)| |lia]. cbn [ovd]. pose proof (vd_pos (PDict kv)). cbn [vd] in *. lia. }
    (* crank 2: a dict form with a logicalType *)
    assert (A2 : forall s v fv, shaped fd o e s -> (crank s <= 2)%nat -> (vd v <= S n)%nat -> (5 * S n + fd + 2 <= fv)%nat ->
                  validate fv o e s (Some v) <> OutOfFuel).
    { intros s v fv Hs Hc Hv Hf. destruct s; cbn [crank] in Hc; try lia; try (apply A1; [exact Hs|reflexivity|exact Hv|lia]).
      destruct fv as [|fv]; [lia|]. cbn [validate]. pose proof (sall_here _ _ Hs) as HN. cbn in HN.
      apply A1; [exact (sall_annot _ _ _ Hs)| |exact Hv|lia]. destruct s; try contradiction; reflexivity. }
    (* crank 3: a reference: the table holds named types *)
    assert (A3 : forall s v fv, shaped fd o e s -> (crank s <= 3)%nat -> (vd v <= S n)%nat -> (5 * S n + fd + 3 <= fv)%nat ->
                  validate fv o e s (Some v) <> OutOfFuel).
    { intros s v fv Hs Hc Hv Hf. destruct s; cbn [crank] in Hc; try lia; try (apply A2; [exact Hs|cbn; lia|exact Hv|lia]).
      destruct fv as [|fv]; [lia|]. cbn [validate]. pose proof (sall_here _ _ Hs) as HN. cbn in HN. destruct HN as [s' Es'].
      rewrite Es'. destruct (She _ _ Es') as [Hs' Hn]. apply A2; [exact Hs'| |exact Hv|lia].
      destruct s'; try contradiction; cbn; lia. }
    intros s ov Hs Hv fv Hf. unfold need in Hf.
    assert (A4 : forall v fv, (vd v <= S n)%nat -> (5 * S n + fd + crank s <= fv)%nat -> validate fv o e s (Some v) <> OutOfFuel).
    { clear ov Hv fv Hf. intros v fv Hv Hf.
      destruct s; cbn [crank] in Hf;
        first [apply A1; [exact Hs|reflexivity|exact Hv|lia] | apply A2; [exact Hs|cbn; lia|exact Hv|lia]
              | apply A3; [exact Hs|cbn; lia|exact Hv|lia] | idtac].
      destruct fv as [|fv]; [lia|]. cbn [validate].
      pose proof (sall_union _ _ Hs) as HB. pose proof (sall_here _ _ Hs) as HN. cbn in HN.
      assert (B : forall x, (vd x <= S n)%nat -> Forall (fun b' => validate fv o e b' (Some x) <> OutOfFuel) bs).
      { intros x Hx. rewrite Forall_forall in *. intros b Hb. apply A3; [exact (HB b Hb)| |exact Hx|lia].
        specialize (HN b Hb). destruct b; try contradiction; cbn; lia. }
      destruct v; try (apply any_branch_nofuel; apply B; exact Hv).
      destruct (disable_tuple o); [apply any_branch_nofuel; apply B; exact Hv|].
      destruct l as [|nm [|v' [|? ?]]]; try discriminate. apply hinted_nofuel. apply B.
      pose proof (vd_tuple_in [nm; v'] v' ltac:(cbn; auto)). lia. }
    destruct ov as [v|].
    - apply A4; [exact Hv|lia].
    - destruct fv as [|fv]; [lia|]. cbn [validate]. destruct (strict o); [discriminate|]. apply A4; [cbn; lia|lia].
  Qed.

  Lemma total_all : forall n, total_at n.
  Proof.
    induction n as [|n IH]; [|apply total_step; exact IH].
    intros s ov Hs Hv. destruct ov as [v|]; cbn [ovd] in Hv; [pose proof (vd_pos v)|]; lia.
  Qed.

  Lemma validate_total s v fv : shaped fd o e s -> (5 * vd v + fd + 4 <= fv)%nat -> validate fv o e s (Some v) <> OutOfFuel.
  Proof.
    intros Hs Hf. apply (total_all (vd v) s (Some v) Hs (le_n _)). unfold need. pose proof (crank_le4 s). lia.
  Qed.
End Fuel.

(** a field whose type has an acyclic reference graph: validating its default terminates *)
Lemma ranked_default_ok o e n s d fv : ranked n e s -> (2 * n <= fv + 1)%nat -> validate fv o e s (Some d) <> OutOfFuel.
Proof. intros R H. exact (validate_ranked_nofuel o e n s R fv (Some d) H). Qed.

(** ** C20_conforms with explicit fuel, recursive schemas included *)
Theorem gen_conforms_fuel fd o e : wf_env e -> shaped_env fd o e ->
  forall f s rs v rs', wf_schema e s -> shaped fd o e s -> gen f e s rs = Ok (v, rs') ->
  forall f', (5 * vd v + fd + 4 <= f')%nat -> validate f' o e s (Some v) = Ok true.
Proof.
  intros We She f s rs v rs' Ws Hs H f' Hf.
  destruct (proj2 (gen_conforms o e We f s rs v rs' Ws H) f') as [A|A]; [exact A|].
  exfalso. exact (validate_total fd o e She s v f' Hs Hf A).
Qed.

(** ** why the hypothesis on defaults is there: two records whose field defaults ({}) refer to each other.
    validate({}, R) never returns (RecursionError in the real code), so a value generated for another branch
    of a union that lists R first is never accepted. *)
Definition DR : str := s2b "R".
Definition DR2 : str := s2b "R2".
Definition DR_rec : schema := SRecord DR [] [mkField (s2b "f") (SRef DR2) (Some (PDict [])) []].
Definition DR2_rec : schema := SRecord DR2 [] [mkField (s2b "g") (SRef DR) (Some (PDict [])) []].
Definition DS_rec : schema := SRecord (s2b "S") [] [mkField (s2b "x") SInt None []].
Definition D_env : env := [(DR, DR_rec); (DR2, DR2_rec)].
Definition D_union : schema := SUnion [SRef DR; DS_rec].

Lemma default_cycle_never o : forall fv kv,
  dict_get kv (s2b "f") = None -> dict_get kv (s2b "g") = None -> dict_get kv (s2b "-type") = None ->
  validate fv o D_env DR_rec (Some (PDict kv)) = OutOfFuel /\ validate fv o D_env DR2_rec (Some (PDict kv)) = OutOfFuel /\
  validate fv o D_env (SRef DR) (Some (PDict kv)) = OutOfFuel /\ validate fv o D_env (SRef DR2) (Some (PDict kv)) = OutOfFuel.
Proof.
  induction fv as [|fv IH]; intros kv Hf Hg Ht; [repeat split; reflexivity|].
  assert (E : forall k, dict_get [] k = None) by reflexivity.
  destruct (IH kv Hf Hg Ht) as (A1 & A2 & A3 & A4).
  destruct (IH [] (E _) (E _) (E _)) as (B1 & B2 & B3 & B4).
  repeat split.
  - unfold DR_rec. cbn [validate]. rewrite Ht. cbn [all_fields fname ftype fdefault]. rewrite Hf. rewrite B4. reflexivity.
  - unfold DR2_rec. cbn [validate]. rewrite Ht. cbn [all_fields fname ftype fdefault]. rewrite Hg. rewrite B3. reflexivity.
  - cbn [validate]. change (lookup D_env DR) with (Some DR_rec). exact A1.
  - cbn [validate]. change (lookup D_env DR2) with (Some DR2_rec). exact A2.
Qed.

Theorem default_cycle_union o :
  wf_env D_env /\ wf_schema D_env D_union /\
  (exists v, gen 3 D_env D_union [1; 7] = Ok (v, []) /\ forall fv, validate fv o D_env D_union (Some v) = OutOfFuel).
Proof.
  assert (W1 : wf_schema D_env DR_rec).
  { unfold wf_schema, DR_rec. cbn [sall ftype]. repeat split; try exact I.
    - cbn. constructor; [intros []|constructor]. - cbn. constructor; [|constructor]. split; [discriminate|exact I].
    - cbn. eexists. reflexivity. }
  assert (W2 : wf_schema D_env DR2_rec).
  { unfold wf_schema, DR2_rec. cbn [sall ftype]. repeat split; try exact I.
    - cbn. constructor; [intros []|constructor]. - cbn. constructor; [|constructor]. split; [discriminate|exact I].
    - cbn. eexists. reflexivity. }
  split.
  { intros n s H. unfold D_env in H. cbn [lookup] in H. destruct (bytes_eqb DR n); [injection H as <-; exact W1|].
    destruct (bytes_eqb DR2 n); [injection H as <-; exact W2|discriminate]. }
  split.
  { unfold wf_schema, D_union, DS_rec. cbn [sall ftype]. repeat split; try exact I; try discriminate.
    - cbn. eexists. reflexivity.
    - cbn. constructor; [intros []|constructor]. - cbn. constructor; [|constructor]. split; [discriminate|exact I]. }
  eexists. split; [vm_compute; reflexivity|].
  intros [|fv]; [reflexivity|]. unfold D_union. cbn [validate any_branch].
  match goal with |- context [hint_pass ?e ?v ?c] => change (hint_pass e v c) with true end. cbn [negb].
  match goal with |- context [validate fv o D_env (SRef DR) (Some (PDict ?kv))] =>
    destruct (default_cycle_never o fv kv eq_refl eq_refl eq_refl) as (_ & _ & A & _); rewrite A end.
  reflexivity.
Qed.
