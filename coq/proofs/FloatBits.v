(** Bit-level facts about the IEEE-754 pattern model of model/Float.v (no real numbers, no axioms):
    the shape of valid finite values, field splitting, fdecode (fencode y) = y for every valid non-NaN y,
    every pattern decodes to a valid value, range lemmas.  Flocq's Digits library is used for digits2_pos. *)
From Coq Require Import ZArith Lia SpecFloat Bool.
From Flocq Require Import Core Digits.
From FA Require Import model.Base model.Float.
Open Scope Z_scope.

Lemma digits_bounds m : 2 ^ (Zpos (digits2_pos m) - 1) <= Zpos m < 2 ^ Zpos (digits2_pos m).
Proof. rewrite Zpos_digits2_pos. generalize (Zdigits_correct radix2 (Zpos m)). cbn [Z.abs]. 
  change (Zpower radix2) with (Z.pow 2). tauto. Qed.

Lemma valid_finite_shape prec emax s m e : 0 < prec ->
  valid_binary prec emax (S754_finite s m e) = true ->
  let emin := 3 - emax - prec in
  e <= emax - prec /\
  ((Zpos m < 2 ^ (prec - 1) /\ e = emin) \/ (2 ^ (prec - 1) <= Zpos m < 2 ^ prec /\ emin <= e)).
Proof.
  intros Hp H. cbn [valid_binary] in H. unfold bounded, canonical_mantissa in H.
  apply andb_prop in H as [H1 H2]. apply Zeq_bool_eq in H1. apply Z.leb_le in H2.
  unfold SpecFloat.fexp, SpecFloat.emin in H1. pose proof (digits_bounds m) as [Hlo Hhi].
  set (d := Zpos (digits2_pos m)) in *. cbv zeta. split; [exact H2|].
  destruct (Z.max_spec (d + e - prec) (3 - emax - prec)) as [[Hlt Hm]|[Hge Hm]]; rewrite Hm in H1.
  - left. split; [|lia]. assert (d <= prec - 1) by lia.
    eapply Z.lt_le_trans; [exact Hhi|]. apply Z.pow_le_mono_r; lia.
  - right. assert (d = prec) by lia. subst d. rewrite H in *. split; [split; assumption | lia].
Qed.
Lemma land_ones' a n : 0 <= n -> Z.land a (2 ^ n - 1) = a mod 2 ^ n.
Proof. intros Hn. rewrite <- Z.land_ones by exact Hn. rewrite Z.ones_equiv, Z.sub_1_r. reflexivity. Qed.

Lemma split_fields mw ew sb E M : 0 < mw -> 0 < ew -> 0 <= M < 2 ^ mw -> 0 <= E < 2 ^ ew -> 0 <= sb <= 1 ->
  let bits := sb * 2 ^ (mw + ew) + E * 2 ^ mw + M in
  bits mod 2 ^ mw = M /\ (bits / 2 ^ mw) mod 2 ^ ew = E /\ Z.testbit bits (mw + ew) = (sb =? 1) /\ 0 <= bits < 2 ^ (mw + ew + 1).
Proof.
  intros Hmw Hew HM HE Hsb bits. subst bits.
  rewrite !Z.pow_add_r by lia. change (2 ^ 1) with 2.
  set (P := 2 ^ mw) in *. set (Q := 2 ^ ew) in *.
  assert (HP : 0 < P) by (apply Z.pow_pos_nonneg; lia). assert (HQ : 0 < Q) by (apply Z.pow_pos_nonneg; lia).
  assert (Hdiv : (sb * (P * Q) + E * P + M) / P = sb * Q + E).
  { symmetry. apply Z.div_unique with (r := M); [left; lia | ring]. }
  assert (Hlow : E * P + M < P * Q) by nia.
  split; [symmetry; apply Z.mod_unique with (q := sb * Q + E); [left; lia | ring]|].
  split; [rewrite Hdiv; symmetry; apply Z.mod_unique with (q := sb); [left; lia | ring]|].
  split.
  - rewrite Z.testbit_odd, Z.shiftr_div_pow2 by lia. rewrite Z.pow_add_r by lia. fold P Q.
    replace ((sb * (P * Q) + E * P + M) / (P * Q)) with sb.
    + destruct (Z.eqb_spec sb 1) as [->|Hn]; [reflexivity|]. assert (sb = 0) by lia. subst sb. reflexivity.
    + apply Z.div_unique with (r := E * P + M); [left; nia | ring].
  - nia.
Qed.

Lemma fdecode_fields mw ew sb E M : 0 < mw -> 0 < ew -> 0 <= M < 2 ^ mw -> 0 <= E < 2 ^ ew -> 0 <= sb <= 1 ->
  fdecode mw ew (sb * 2 ^ (mw + ew) + E * 2 ^ mw + M) =
  let s := sb =? 1 in let bias := 2 ^ (ew - 1) - 1 in
  if E =? 0 then match M with Zpos p => S754_finite s p (1 - bias - mw) | _ => S754_zero s end
  else if E =? 2 ^ ew - 1 then (if M =? 0 then S754_infinity s else S754_nan)
  else match M + 2 ^ mw with Zpos p => S754_finite s p (E - bias - mw) | _ => S754_nan end.
Proof.
  intros Hmw Hew HM HE Hsb. destruct (split_fields mw ew sb E M Hmw Hew HM HE Hsb) as (H1 & H2 & H3 & _).
  unfold fdecode. rewrite !land_ones' by lia. rewrite Z.shiftr_div_pow2 by lia. rewrite H1, H2, H3. reflexivity.
Qed.

Definition b2z (b : bool) : Z := if b then 1 else 0.
Lemma signbit_b2z mw ew s : signbit mw ew s = b2z s * 2 ^ (mw + ew).
Proof. destruct s; cbn [signbit b2z]; lia. Qed.
Lemma b2z_eqb s : (b2z s =? 1) = s. Proof. destruct s; reflexivity. Qed.
Lemma b2z_range s : 0 <= b2z s <= 1. Proof. destruct s; cbn; lia. Qed.

Section Format.
Variables mw ew : Z.
Hypothesis Hmw : 0 < mw.
Hypothesis Hew : 1 < ew.
Let prec := mw + 1.
Let emax := 2 ^ (ew - 1).

Lemma pow_ew : 2 ^ ew = 2 * emax.
Proof. unfold emax. replace ew with (1 + (ew - 1)) at 1 by lia. rewrite Z.pow_add_r by lia. reflexivity. Qed.
Lemma emax_ge2 : 2 <= emax.
Proof. unfold emax. change 2 with (2 ^ 1) at 1. apply Z.pow_le_mono_r; lia. Qed.

(** the pattern of a valid non-NaN value decodes to that value, and fits the width *)
Theorem fdecode_fencode y : valid_binary prec emax y = true -> y <> S754_nan ->
  fdecode mw ew (fencode mw ew y) = y /\ 0 <= fencode mw ew y < 2 ^ (mw + ew + 1).
Proof.
  intros Hv Hn. pose proof pow_ew as Hpe. pose proof emax_ge2 as He2.
  assert (HP : 0 < 2 ^ mw) by (apply Z.pow_pos_nonneg; lia).
  destruct y as [s|s| |s m e]; [| |congruence|]; unfold fencode; rewrite signbit_b2z.
  - (* zero *)
    replace (b2z s * 2 ^ (mw + ew)) with (b2z s * 2 ^ (mw + ew) + 0 * 2 ^ mw + 0) by ring.
    split; [|apply split_fields; try lia; apply b2z_range].
    rewrite fdecode_fields by (try lia; apply b2z_range). cbn. rewrite b2z_eqb. reflexivity.
  - (* infinity *)
    replace (b2z s * 2 ^ (mw + ew) + (2 ^ ew - 1) * 2 ^ mw) with (b2z s * 2 ^ (mw + ew) + (2 ^ ew - 1) * 2 ^ mw + 0) by ring.
    split; [|apply split_fields; try lia; apply b2z_range].
    rewrite fdecode_fields by (try lia; apply b2z_range). cbv zeta.
    destruct (Z.eqb_spec (2 ^ ew - 1) 0) as [E|_]; [lia|]. rewrite Z.eqb_refl, b2z_eqb. reflexivity.
  - (* finite *)
    apply valid_finite_shape in Hv; [|unfold prec; lia]. cbv zeta in Hv. unfold prec in Hv.
    replace (mw + 1 - 1) with mw in Hv by lia. destruct Hv as [Hle [[Hsub He]|[Hnorm He]]].
    + destruct (Z.ltb_spec (Zpos m) (2 ^ mw)) as [_|?]; [|lia].
      replace (b2z s * 2 ^ (mw + ew) + Z.pos m) with (b2z s * 2 ^ (mw + ew) + 0 * 2 ^ mw + Z.pos m) by ring.
      split; [|apply split_fields; try lia; apply b2z_range].
      rewrite fdecode_fields by (try lia; apply b2z_range). cbn [Z.eqb]. cbv zeta. rewrite b2z_eqb. f_equal. fold emax. lia.
    + destruct (Z.ltb_spec (Zpos m) (2 ^ mw)) as [?|_]; [lia|]. fold emax.
      assert (HM : 0 <= Z.pos m - 2 ^ mw < 2 ^ mw). { rewrite Z.pow_add_r in Hnorm by lia. change (2 ^ 1) with 2 in Hnorm. lia. }
      assert (HE : 1 <= e + (emax - 1) + mw <= 2 * emax - 2) by lia.
      split; [|apply split_fields; try lia; apply b2z_range].
      rewrite fdecode_fields by (try lia; apply b2z_range). cbv zeta. fold emax.
      destruct (Z.eqb_spec (e + (emax - 1) + mw) 0) as [?|_]; [lia|].
      destruct (Z.eqb_spec (e + (emax - 1) + mw) (2 ^ ew - 1)) as [?|_]; [lia|].
      replace (Z.pos m - 2 ^ mw + 2 ^ mw) with (Z.pos m) by lia. rewrite b2z_eqb. f_equal. lia.
Qed.
End Format.

Lemma valid_zero prec emax s : valid_binary prec emax (S754_zero s) = true. Proof. reflexivity. Qed.
Lemma valid_inf prec emax s : valid_binary prec emax (S754_infinity s) = true. Proof. reflexivity. Qed.

Lemma lor_lt a b n : 0 <= n -> 0 <= a < 2 ^ n -> 0 <= b < 2 ^ n -> 0 <= Z.lor a b < 2 ^ n.
Proof.
  intros Hn Ha Hb. split; [apply Z.lor_nonneg; lia|].
  destruct (Z.eq_dec (Z.lor a b) 0) as [->|Hz]; [apply Z.pow_pos_nonneg; lia|].
  assert (Hp : 0 < Z.lor a b) by (pose proof (proj2 (Z.lor_nonneg a b) (conj (proj1 Ha) (proj1 Hb))); lia).
  apply Z.log2_lt_pow2; [exact Hp|].
  rewrite Z.log2_lor by lia. apply Z.max_lub_lt.
  - destruct (Z.eq_dec a 0) as [->|?]; [|apply Z.log2_lt_pow2; lia].
    change (Z.log2 0) with 0. destruct (Z.eq_dec n 0) as [->|?]; [|lia].
    exfalso. change (2 ^ 0) with 1 in *. assert (b = 0) by lia. subst b. apply Hz. reflexivity.
  - destruct (Z.eq_dec b 0) as [->|?]; [|apply Z.log2_lt_pow2; lia].
    change (Z.log2 0) with 0. destruct (Z.eq_dec n 0) as [->|?]; [|lia].
    exfalso. change (2 ^ 0) with 1 in *. assert (a = 0) by lia. subst a. apply Hz. reflexivity.
Qed.

Lemma signbit_range mw ew s : signbit mw ew s = 0 \/ signbit mw ew s = 2 ^ (mw + ew).
Proof. destruct s; cbn [signbit]; auto. Qed.

Lemma frac_shift b : 0 <= Z.shiftr (frac64 b) 29 < 2 ^ 23.
Proof.
  unfold frac64. rewrite land_ones' by lia. rewrite Z.shiftr_div_pow2 by lia.
  pose proof (Z.mod_pos_bound b (2 ^ 52) ltac:(lia)) as Hm. split; [apply Z.div_pos; lia|].
  apply Z.div_lt_upper_bound; [lia|]. replace (2 ^ 29 * 2 ^ 23) with (2 ^ 52) by reflexivity. lia.
Qed.


(** every bit pattern decodes to a valid value of the format *)
Lemma digits_of_bounds m d : 2 ^ (d - 1) <= Zpos m < 2 ^ d -> Zpos (digits2_pos m) = d.
Proof. intros H. rewrite Zpos_digits2_pos. apply Zdigits_unique. cbn [Z.abs]. exact H. Qed.

Lemma digits_le m d : 0 <= d -> Zpos m < 2 ^ d -> Zpos (digits2_pos m) <= d.
Proof.
  intros Hd H. pose proof (digits_bounds m) as [Hlo _]. destruct (Z_le_gt_dec (Zpos (digits2_pos m)) d) as [?|Hgt]; [assumption|].
  exfalso. assert (2 ^ d <= 2 ^ (Zpos (digits2_pos m) - 1)) by (apply Z.pow_le_mono_r; lia). lia.
Qed.

Section Format2.
Variables mw ew : Z.
Hypothesis Hmw : 0 < mw.
Hypothesis Hew : 1 < ew.
Let prec := mw + 1.
Let emax := 2 ^ (ew - 1).

Theorem fdecode_valid bits : valid_binary prec emax (fdecode mw ew bits) = true.
Proof.
  pose proof (pow_ew mw ew Hew) as Hpe. pose proof (emax_ge2 mw ew Hew) as He2. fold emax in Hpe, He2.
  assert (HP : 0 < 2 ^ mw) by (apply Z.pow_pos_nonneg; lia).
  unfold fdecode. rewrite !land_ones' by lia.
  pose proof (Z.mod_pos_bound (Z.shiftr bits mw) (2 ^ ew) ltac:(lia)) as HE.
  pose proof (Z.mod_pos_bound bits (2 ^ mw) HP) as HM.
  set (E := Z.shiftr bits mw mod 2 ^ ew) in *. set (M := bits mod 2 ^ mw) in *. fold emax.
  destruct (Z.eqb_spec E 0) as [E0|E0].
  - destruct M as [|p|p] eqn:EM; try reflexivity.
    cbn [valid_binary]. unfold bounded, canonical_mantissa, SpecFloat.fexp, SpecFloat.emin. apply andb_true_intro. split.
    + apply Zeq_bool_true. pose proof (digits_le p mw ltac:(lia) ltac:(lia)). unfold prec. lia.
    + apply Z.leb_le. unfold prec. lia.
  - destruct (Z.eqb_spec E (2 ^ ew - 1)) as [E1|E1]; [destruct (M =? 0); reflexivity|].
    destruct (M + 2 ^ mw) as [|p|p] eqn:EM; try reflexivity.
    cbn [valid_binary]. unfold bounded, canonical_mantissa, SpecFloat.fexp, SpecFloat.emin. apply andb_true_intro.
    assert (Hd : Zpos (digits2_pos p) = mw + 1).
    { apply digits_of_bounds. replace (mw + 1 - 1) with mw by lia. rewrite Z.pow_add_r by lia. change (2 ^ 1) with 2. lia. }
    rewrite Hd. split.
    + apply Zeq_bool_true. unfold prec. lia.
    + apply Z.leb_le. unfold prec. lia.
Qed.
End Format2.


Lemma fencode32_range y : valid_binary 24 128 y = true -> y <> S754_nan -> 0 <= fencode 23 8 y < 2 ^ 32.
Proof. intros Hv Hn. pose proof (fdecode_fencode 23 8 ltac:(lia) ltac:(lia) y Hv Hn) as [_ HH]. exact HH. Qed.
Lemma fencode64_range y : valid_binary 53 1024 y = true -> y <> S754_nan -> 0 <= fencode 52 11 y < 2 ^ 64.
Proof. intros Hv Hn. pose proof (fdecode_fencode 52 11 ltac:(lia) ltac:(lia) y Hv Hn) as [_ HH]. exact HH. Qed.
Lemma fdecode32_fencode y : valid_binary 24 128 y = true -> y <> S754_nan -> fdecode 23 8 (fencode 23 8 y) = y.
Proof. intros Hv Hn. pose proof (fdecode_fencode 23 8 ltac:(lia) ltac:(lia) y Hv Hn) as [HH _]. exact HH. Qed.
Lemma fdecode64_fencode y : valid_binary 53 1024 y = true -> y <> S754_nan -> fdecode 52 11 (fencode 52 11 y) = y.
Proof. intros Hv Hn. pose proof (fdecode_fencode 52 11 ltac:(lia) ltac:(lia) y Hv Hn) as [HH _]. exact HH. Qed.

(** pattern -> value -> pattern is the identity on non-NaN patterns of the right width *)
Section Format3.
Variables mw ew : Z.
Hypothesis Hmw : 0 < mw.
Hypothesis Hew : 1 < ew.

Lemma fencode_fdecode bits : 0 <= bits < 2 ^ (mw + ew + 1) -> fdecode mw ew bits <> S754_nan ->
  fencode mw ew (fdecode mw ew bits) = bits.
Proof.
  intros Hb Hn.
  assert (HP : 0 < 2 ^ mw) by (apply Z.pow_pos_nonneg; lia).
  assert (HQ : 0 < 2 ^ ew) by (apply Z.pow_pos_nonneg; lia).
  pose proof (pow_ew mw ew Hew) as Hpe. pose proof (emax_ge2 mw ew Hew) as He2.
  set (M := bits mod 2 ^ mw). set (q := bits / 2 ^ mw). set (E := q mod 2 ^ ew). set (sb := q / 2 ^ ew).
  assert (Hbits : bits = sb * 2 ^ (mw + ew) + E * 2 ^ mw + M).
  { rewrite Z.pow_add_r by lia. unfold sb, E, M, q.
    pose proof (Z.div_mod bits (2 ^ mw) ltac:(lia)). pose proof (Z.div_mod (bits / 2 ^ mw) (2 ^ ew) ltac:(lia)). nia. }
  assert (HM : 0 <= M < 2 ^ mw) by (apply Z.mod_pos_bound; lia).
  assert (HE : 0 <= E < 2 ^ ew) by (apply Z.mod_pos_bound; lia).
  assert (Hsb : 0 <= sb <= 1).
  { unfold sb, q. rewrite Z.div_div by lia. rewrite <- Z.pow_add_r by lia.
    split; [apply Z.div_pos; [lia|apply Z.pow_pos_nonneg; lia]|].
    assert (bits / 2 ^ (mw + ew) < 2); [|lia]. apply Z.div_lt_upper_bound; [apply Z.pow_pos_nonneg; lia|].
    replace (mw + ew + 1) with (1 + (mw + ew)) in Hb by lia. rewrite Z.pow_add_r in Hb by lia. change (2 ^ 1) with 2 in Hb. lia. }
  clearbody sb E M. clear q. rewrite Hbits in Hn |- *. rewrite fdecode_fields in Hn |- * by (try assumption; lia). cbv zeta in *.
  assert (Hsg : signbit mw ew (sb =? 1) = sb * 2 ^ (mw + ew)).
  { unfold signbit. destruct (Z.eqb_spec sb 1) as [H1|H1]; [rewrite H1; lia|]. assert (H0 : sb = 0) by lia. rewrite H0. lia. }
  destruct (Z.eqb_spec E 0) as [E0|E0].
  - rewrite E0. destruct M as [|p|p] eqn:EM; [| |lia]; unfold fencode; rewrite Hsg; [lia|].
    destruct (Z.ltb_spec (Z.pos p) (2 ^ mw)); lia.
  - destruct (Z.eqb_spec E (2 ^ ew - 1)) as [E1|E1].
    + destruct (Z.eqb_spec M 0) as [M0|M0]; [|congruence]. unfold fencode. rewrite Hsg, E1, M0. lia.
    + destruct (M + 2 ^ mw) as [|p|p] eqn:EM; [lia| |lia]. unfold fencode. rewrite Hsg.
      destruct (Z.ltb_spec (Z.pos p) (2 ^ mw)); [lia|]. lia.
Qed.
End Format3.

Lemma lor_pow2_neq0 k a : 0 <= k -> 0 <= a -> Z.lor (2 ^ k) a <> 0.
Proof.
  intros Hk Ha E. assert (H : Z.testbit (Z.lor (2 ^ k) a) k = true) by (rewrite Z.lor_spec, Z.pow2_bits_true by lia; reflexivity).
  rewrite E in H. rewrite Z.bits_0 in H. discriminate.
Qed.

