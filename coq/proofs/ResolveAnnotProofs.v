(** C08: logicalType annotations on non-primitive types are transparent -- for the code model ([rval]) and for the
    specification ([resolve]).  [unannot] (model/Resolve.v) removes the annotations over array / map / named-type nodes; both functions
    give the same result on the schemas with and without them, so the zone theorems extend to annotated schemas. *)
From Coq Require Import Lia ZifyBool.
From FA Require Import model.Base model.Varint model.Value model.Schema model.Float model.Utf8 model.Codec
                       model.Validate model.Read model.Resolve proofs.VarintProofs proofs.CodecProofs proofs.ResolveProofs.
Open Scope Z_scope.

Local Notation U := unannot.
Local Notation Uf := unannot_field.
Local Notation Ue := unannot_env.
Definition Uo (R : option schema) : option schema := option_map U R.

Definition rmap {A B} (g : A -> B) (x : rres A) : rres B :=
  match x with ROk a => ROk (g a) | RErrResolution => RErrResolution | RErrOther => RErrOther | RFuel => RFuel end.

Definition nonannot (s : schema) : bool := match s with SAnnot _ _ => false | _ => true end.
Lemma strip_nonannot s : nonannot (strip s) = true.
Proof. induction s; cbn; auto. Qed.

Lemma dict_node_U p : dict_node p = true -> dict_node (U p) = true /\ nonannot (U p) = true.
Proof. destruct p; cbn; intros H; try discriminate H; auto. Qed.

Lemma strip_U s : strip (U s) = U (strip s).
Proof.
  induction s; cbn [U strip]; try reflexivity.
  destruct (dict_node s) eqn:E; [exact IHs|]. cbn [strip]. exact IHs.
Qed.

(* U on a schema that is no annotation keeps the head *)
Ltac head s := destruct s; cbn; try reflexivity; try discriminate.

Lemma is_list_U s : is_list (U s) = is_list s.
Proof.
  destruct s; cbn; try reflexivity. destruct (dict_node s) eqn:E; [|reflexivity].
  destruct s; try discriminate E; reflexivity.
Qed.
Lemma is_str_U s : is_str (U s) = is_str s.
Proof.
  destruct s; cbn; try reflexivity. destruct (dict_node s) eqn:E; [|reflexivity].
  destruct s; try discriminate E; reflexivity.
Qed.
Lemma is_dict_U s : is_dict (U s) = is_dict s.
Proof. unfold is_dict. rewrite is_list_U, is_str_U. reflexivity. Qed.
Lemma is_union_U s : is_union (U s) = is_union s.
Proof. rewrite <- !is_list_union. apply is_list_U. Qed.

Lemma tag_of_U s : tag_of (U s) = tag_of s.
Proof.
  unfold tag_of. rewrite strip_U. pose proof (strip_nonannot s) as H. destruct (strip s); try discriminate H; reflexivity.
Qed.
Lemma name_of_U s : name_of (U s) = name_of s.
Proof.
  unfold name_of. rewrite strip_U. pose proof (strip_nonannot s) as H. destruct (strip s); try discriminate H; reflexivity.
Qed.
Lemma aliases_of_U s : aliases_of (U s) = aliases_of s.
Proof.
  unfold aliases_of. rewrite strip_U. pose proof (strip_nonannot s) as H. destruct (strip s); try discriminate H; reflexivity.
Qed.
Lemma amdepth_U s : amdepth (U s) = amdepth s.
Proof.
  induction s; cbn [U amdepth]; try reflexivity; try (rewrite IHs; reflexivity).
  destruct (dict_node s); [exact IHs|]. cbn [amdepth]. exact IHs.
Qed.
Lemma mfuel_U s : mfuel (U s) = mfuel s.
Proof. unfold mfuel. rewrite amdepth_U. reflexivity. Qed.

Lemma lookup_Ue e n : lookup (Ue e) n = option_map U (lookup e n).
Proof. induction e as [|[k s] e IH]; cbn; [reflexivity|]. destruct (bytes_eqb k n); [reflexivity|exact IH]. Qed.
Lemma deref1_U e s : deref1 (Ue e) (U s) = U (deref1 e s).
Proof.
  destruct s; cbn [U deref1]; try reflexivity.
  - rewrite lookup_Ue. destruct (lookup e n); reflexivity.
  - destruct (dict_node s) eqn:E; [|reflexivity]. destruct s; try discriminate E; reflexivity.
Qed.
Lemma deref_U e s : deref (Ue e) (U s) = U (deref e s).
Proof.
  unfold deref, Read.resolve. rewrite strip_U. pose proof (strip_nonannot s) as H.
  destruct (strip s); try discriminate H; try reflexivity.
  cbn [U]. rewrite lookup_Ue. destruct (lookup e n); cbn [option_map]; [apply strip_U|reflexivity].
Qed.
Lemma deref_nonannot e s : nonannot (deref e s) = true.
Proof.
  unfold deref, Read.resolve. pose proof (strip_nonannot s) as H. destruct (strip s); try exact H; try reflexivity.
  destruct (lookup e n); [apply strip_nonannot|reflexivity].
Qed.
Lemma truthy_U R : truthy (Uo R) = Uo (truthy R).
Proof.
  destruct R as [r|]; [|reflexivity]. cbn. destruct r; try reflexivity.
  - destruct bs; reflexivity.
  - cbn. destruct (dict_node r) eqn:E; [|reflexivity]. destruct r; try discriminate E; reflexivity.
Qed.

(** ** the matchers *)
Lemma rbind_rmap {A B C} (g : A -> B) (x : rres A) (k : B -> rres C) : rbind (rmap g x) k = rbind x (fun a => k (g a)).
Proof. destruct x; reflexivity. Qed.

Lemma find_branch_U (mt mt' : schema -> rres bool) bs : (forall b, mt' (U b) = mt b) ->
  find_branch mt' (map U bs) = rmap (option_map U) (find_branch mt bs).
Proof.
  intros H. induction bs as [|b bs IH]; cbn [map find_branch]; [reflexivity|].
  rewrite H. destruct (mt b) as [[|]| | |]; cbn [rbind rmap option_map]; try reflexivity. exact IH.
Qed.
Lemma reader_branch_U (mt mt' : nat -> schema -> rres bool) bs : (forall l b, mt' l (U b) = mt l b) ->
  reader_branch mt' (map U bs) = rmap (option_map U) (reader_branch mt bs).
Proof.
  intros H. unfold reader_branch.
  rewrite !(find_branch_U (mt 0%nat) (mt' 0%nat)), !(find_branch_U (mt 1%nat) (mt' 1%nat)), !(find_branch_U (mt 2%nat) (mt' 2%nat)) by (intros; apply H).
  destruct (find_branch (mt 0%nat) bs) as [[b|]| | |]; cbn [rbind rmap option_map]; try reflexivity.
  destruct (find_branch (mt 1%nat) bs) as [[b|]| | |]; cbn [rbind rmap option_map]; try reflexivity.
Qed.

Lemma named_pair_U level sw sr : nonannot sw = true -> nonannot sr = true ->
  named_pair level (U sw) (U sr) = named_pair level sw sr.
Proof. intros Hw Hr. destruct sw; try discriminate Hw; try reflexivity; destruct sr; try discriminate Hr; reflexivity. Qed.

Lemma core_U (mt mt' : nat -> schema -> schema -> rres bool) level w r :
  (forall l a b, mt' l (U a) (U b) = mt l a b) ->
  match_schemas_core mt' level (U w) (U r) = rmap (option_map U) (match_schemas_core mt level w r).
Proof.
  intros H. unfold match_schemas_core. rewrite is_list_U. destruct (is_list w); [reflexivity|].
  destruct (is_union r) eqn:Hu.
  - destruct r; try discriminate Hu. cbn [U].
    rewrite (reader_branch_U (fun l => mt l w) (fun l => mt' l (U w))) by (intros; apply H).
    destruct (reader_branch (fun l => mt l w) bs) as [[b|]| | |]; reflexivity.
  - assert (Hu' : is_union (U r) = false) by (rewrite is_union_U; exact Hu).
    assert (E2 : forall (X : list schema -> rres (option schema)) Y,
              match r with SUnion bs => X bs | _ => Y end = Y) by (intros; destruct r; try discriminate Hu; reflexivity).
    rewrite E2.
    transitivity (
      let wt := tag_of (U w) in let rt := tag_of (U r) in
      let verdict (b : rres bool) : rres (option schema) := let+ x := b in if x then ROk None else RErrResolution in
      match strip (U w), strip (U r) with
      | SMap wv, SMap rv => verdict (mt' 2%nat wv rv)
      | SArray wi, SArray ri => verdict (mt' 2%nat wi ri)
      | sw, sr => if in_named_types wt && in_named_types rt then verdict (named_pair level sw sr)
                  else verdict (ROk (match_type_names wt rt level))
      end).
    { destruct (U r); try discriminate Hu'; reflexivity. }
    cbv zeta. rewrite !tag_of_U, !strip_U.
    pose proof (strip_nonannot w) as Hw. pose proof (strip_nonannot r) as Hr.
    assert (V : forall b : rres bool,
       (let+ x := b in if x then ROk None else RErrResolution) =
       rmap (option_map U) (let+ x := b in if x then ROk None else RErrResolution)).
    { intros [[|]| | |]; reflexivity. }
    destruct (strip w) eqn:Ew; try discriminate Hw; destruct (strip r) eqn:Er; try discriminate Hr;
      cbn [U named_pair]; try rewrite H;
      try (destruct (in_named_types (tag_of w) && in_named_types (tag_of r))); apply V.
Qed.

Lemma match_U : forall f we re l w r,
  match_types f (Ue we) (Ue re) l (U w) (U r) = match_types f we re l w r /\
  match_schemas f (Ue we) (Ue re) l (U w) (U r) = rmap U (match_schemas f we re l w r).
Proof.
  induction f as [|f IH]; intros we re l w r; [split; reflexivity|]. split.
  - rewrite !match_types_S. unfold match_types_body. rewrite !deref1_U, !is_list_U, !is_dict_U, !tag_of_U.
    destruct (is_list (deref1 we w) || is_list (deref1 re r)); [reflexivity|].
    destruct (is_dict (deref1 we w) || is_dict (deref1 re r)); [|reflexivity].
    rewrite (proj2 (IH we re l (deref1 we w) (deref1 re r))).
    destruct (match_schemas f we re l (deref1 we w) (deref1 re r)); reflexivity.
  - rewrite !match_schemas_S. unfold match_schemas_body. rewrite !deref1_U.
    rewrite (core_U (match_types f we re) (match_types f (Ue we) (Ue re)) l (deref1 we w) (deref1 re r))
      by (intros l0 a b; apply (proj1 (IH we re l0 a b))).
    destruct (match_schemas_core (match_types f we re) l (deref1 we w) (deref1 re r)) as [[b|]| | |]; reflexivity.
Qed.

Lemma match_top_U we re w r : match_top (Ue we) (Ue re) (U w) (U r) = rmap U (match_top we re w r).
Proof. unfold match_top. rewrite mfuel_U. apply match_U. Qed.
Lemma match_types_top_U we re l w r : match_types_top (Ue we) (Ue re) l (U w) (U r) = match_types_top we re l w r.
Proof. unfold match_types_top. rewrite mfuel_U. apply match_U. Qed.

Lemma matched_U we re w R : matched (Ue we) (Ue re) (U w) (Uo R) = rmap Uo (matched we re w R).
Proof.
  unfold matched. rewrite truthy_U. destruct (truthy R) as [r|] eqn:E; cbn [Uo option_map].
  - rewrite match_top_U. destruct (match_top we re w r); cbn [rbind rmap]; try reflexivity.
    rewrite deref1_U. reflexivity.
  - reflexivity.
Qed.

Definition Upair (p : option schema * option schema) := (Uo (fst p), Uo (snd p)).
Lemma union_reader_U we re wb R : union_reader (Ue we) (Ue re) (U wb) (Uo R) = rmap Upair (union_reader we re wb R).
Proof.
  unfold union_reader. rewrite truthy_U. destruct (truthy R) as [r|] eqn:E; cbn [Uo option_map]; [|reflexivity].
  destruct (is_union r) eqn:Hu.
  - destruct r; try discriminate Hu. cbn [U].
    rewrite (reader_branch_U (fun l => match_types_top we re l wb) (fun l => match_types_top (Ue we) (Ue re) l (U wb)))
      by (intros; apply match_types_top_U).
    destruct (reader_branch (fun l => match_types_top we re l wb) bs) as [[b|]| | |]; reflexivity.
  - assert (Hu' : is_union (U r) = false) by (rewrite is_union_U; exact Hu).
    transitivity (let+ x := match_types_top (Ue we) (Ue re) 2 (U wb) (U r) in
                  if x then ROk (Some (U r), @None schema) else RErrResolution).
    { destruct (U r); try discriminate Hu'; reflexivity. }
    rewrite match_types_top_U.
    transitivity (rmap Upair (let+ x := match_types_top we re 2 wb r in if x then ROk (Some r, @None schema) else RErrResolution)).
    { destruct (match_types_top we re 2 wb r) as [[|]| | |]; reflexivity. }
    destruct r; try discriminate Hu; reflexivity.
Qed.

(** ** reader fields, defaults *)
Definition Ukv (kv : str * field) : str * field := (fst kv, Uf (snd kv)).
Lemma tbl_set_U d k v : tbl_set (map Ukv d) k (Uf v) = map Ukv (tbl_set d k v).
Proof.
  induction d as [|[k' v'] d IH]; cbn [map tbl_set Ukv fst snd]; [reflexivity|].
  destruct (bytes_eqb k' k); [reflexivity|]. cbn [map]. rewrite IH. reflexivity.
Qed.
Lemma tbl_get_U d k : tbl_get (map Ukv d) k = option_map Uf (tbl_get d k).
Proof.
  induction d as [|[k' v'] d IH]; cbn [map tbl_get Ukv fst snd]; [reflexivity|].
  destruct (bytes_eqb k' k); [reflexivity|exact IH].
Qed.
Lemma field_table_U rfs : field_table (map Uf rfs) = map Ukv (field_table rfs).
Proof.
  unfold field_table.
  assert (G : forall d, fold_left (fun d f => tbl_set d (fname f) f) (map Uf rfs) (map Ukv d) =
                        map Ukv (fold_left (fun d f => tbl_set d (fname f) f) rfs d)).
  { induction rfs as [|f rfs IH]; intros d; cbn [map fold_left]; [reflexivity|].
    change (fname (Uf f)) with (fname f). rewrite tbl_set_U. apply IH. }
  exact (G []).
Qed.
Lemma alias_table_U rfs : alias_table (map Uf rfs) = map Ukv (alias_table rfs).
Proof.
  unfold alias_table.
  assert (G : forall d, fold_left (fun d f => fold_left (fun d a => tbl_set d a f) (faliases f) d) (map Uf rfs) (map Ukv d) =
                        map Ukv (fold_left (fun d f => fold_left (fun d a => tbl_set d a f) (faliases f) d) rfs d)).
  { induction rfs as [|f rfs IH]; intros d; cbn [map fold_left]; [reflexivity|].
    change (faliases (Uf f)) with (faliases f).
    assert (E : forall al d, fold_left (fun d a => tbl_set d a (Uf f)) al (map Ukv d) =
                             map Ukv (fold_left (fun d a => tbl_set d a f) al d)).
    { induction al as [|a al IHa]; intros d0; cbn [fold_left]; [reflexivity|]. rewrite tbl_set_U. apply IHa. }
    rewrite E. apply IH. }
  exact (G []).
Qed.
Lemma reader_field_U rfs n : reader_field (map Uf rfs) n = option_map Uf (reader_field rfs n).
Proof.
  unfold reader_field. rewrite field_table_U, alias_table_U, !tbl_get_U.
  destruct (tbl_get (field_table rfs) n); reflexivity.
Qed.

Lemma r_items_U r : r_items (U r) = rmap U (r_items r).
Proof.
  unfold r_items. rewrite is_dict_U, strip_U. destruct (is_dict r); [|reflexivity].
  pose proof (strip_nonannot r) as H. destruct (strip r); try discriminate H; reflexivity.
Qed.
Lemma r_values_U r : r_values (U r) = rmap U (r_values r).
Proof.
  unfold r_values. rewrite is_dict_U, strip_U. destruct (is_dict r); [|reflexivity].
  pose proof (strip_nonannot r) as H. destruct (strip r); try discriminate H; reflexivity.
Qed.
Lemma r_fields_U r : r_fields (U r) = rmap (map Uf) (r_fields r).
Proof.
  unfold r_fields. rewrite is_dict_U, strip_U. destruct (is_dict r); [|reflexivity].
  pose proof (strip_nonannot r) as H. destruct (strip r); try discriminate H; reflexivity.
Qed.

Lemma json_fits1_U ds d : nonannot ds = true -> json_fits1 (U ds) d = json_fits1 ds d.
Proof. intros H. destruct ds; try discriminate H; reflexivity. Qed.
Lemma json_fits_U e s d : json_fits (Ue e) (U s) d = json_fits e s d.
Proof.
  unfold json_fits. rewrite deref_U. pose proof (deref_nonannot e s) as H.
  destruct (deref e s) eqn:E; try discriminate H; cbn [U]; try reflexivity.
  clear E H. induction bs as [|b bs IH]; cbn [map existsb]; [reflexivity|].
  rewrite deref_U, json_fits1_U by apply deref_nonannot. rewrite IH. reflexivity.
Qed.

Lemma code_default_U : forall f re r d, code_default f (Ue re) (U r) d = code_default f re r d.
Proof.
  induction f as [|f IH]; intros re r d; [reflexivity|]. cbn [code_default]. rewrite deref_U.
  pose proof (deref_nonannot re r) as H. destruct (deref re r) eqn:E; try discriminate H; cbn [U]; try reflexivity; clear E H.
  - (* array *) destruct d; try reflexivity. f_equal.
    induction l as [|x l IHl]; [reflexivity|]. rewrite IH, IHl. reflexivity.
  - (* map *) destruct d; try reflexivity. f_equal.
    induction kv as [|[k x] kv IHl]; [reflexivity|]. rewrite IH, IHl. reflexivity.
  - (* union *) induction bs as [|b bs IHb]; cbn [map]; [reflexivity|]. cbv beta iota fix. rewrite json_fits_U, IH. destruct (json_fits re b d); [reflexivity|exact IHb].
  - (* record *) destruct d; try reflexivity. f_equal.
    induction fs as [|fd fs IHl]; cbn [map]; [reflexivity|]. cbv beta iota fix. cbn [fname ftype fdefault].
    rewrite IHl. destruct (dict_get kv (fname fd)); [rewrite IH; reflexivity|].
    destruct (fdefault fd); [rewrite IH; reflexivity|reflexivity].
Qed.

Lemma fill_defaults_U re tbl : forall record, fill_defaults (Ue re) (map Ukv tbl) record = fill_defaults re tbl record.
Proof.
  induction tbl as [|[n fd] tbl IH]; intros record; cbn [map fill_defaults Ukv fst snd]; [reflexivity|].
  destruct (dict_get record n); [apply IH|].
  change (fdefault (Uf fd)) with (fdefault fd). change (fname (Uf fd)) with (fname fd). change (ftype (Uf fd)) with (U (ftype fd)).
  destruct (fdefault fd); [|reflexivity]. rewrite code_default_U.
  destruct (code_default DFUEL re (ftype fd) p); cbn [rbind]; try reflexivity. apply IH.
Qed.
Lemma finish_record_U re rfs record : finish_record (Ue re) (map Uf rfs) record = finish_record re rfs record.
Proof.
  unfold finish_record. rewrite field_table_U, fill_defaults_U.
  replace (len (map Ukv (field_table rfs))) with (len (field_table rfs)); [reflexivity|].
  unfold len. rewrite map_length. reflexivity.
Qed.

Lemma enum_symbol_U R sym : enum_symbol (Uo R) sym = enum_symbol R sym.
Proof.
  unfold enum_symbol. rewrite truthy_U. destruct (truthy R) as [r|]; cbn [Uo option_map]; [|reflexivity].
  destruct (is_union r) eqn:Hu.
  - destruct r; try discriminate Hu. reflexivity.
  - assert (Hu' : is_union (U r) = false) by (rewrite is_union_U; exact Hu).
    transitivity (if is_dict (U r) then
               match strip (U r) with
               | SEnum _ _ rsyms rd =>
                   if mem sym rsyms then ROk (PStr sym)
                   else match rd with Some (c :: d) => ROk (PStr (c :: d)) | _ => RErrResolution end
               | _ => RErrOther end else RErrOther).
    { destruct (U r); try discriminate Hu'; reflexivity. }
    rewrite is_dict_U, strip_U. pose proof (strip_nonannot r) as H.
    transitivity (if is_dict r then
               match strip r with
               | SEnum _ _ rsyms rd =>
                   if mem sym rsyms then ROk (PStr sym)
                   else match rd with Some (c :: d) => ROk (PStr (c :: d)) | _ => RErrResolution end
               | _ => RErrOther end else RErrOther).
    { destruct (strip r); try discriminate H; reflexivity. }
    destruct r; try discriminate Hu; reflexivity.
Qed.
Lemma promote_with_U t R v : promote_with t (Uo R) v = promote_with t R v.
Proof. destruct R as [r|]; [|reflexivity]. cbn. rewrite tag_of_U. reflexivity. Qed.

(** ** union results under the reader options *)
Lemma branch_kind_U e b : branch_kind (Ue e) (U b) = branch_kind e b.
Proof.
  unfold branch_kind. change (Read.resolve (Ue e) (U b)) with (deref (Ue e) (U b)). change (Read.resolve e b) with (deref e b).
  rewrite deref_U. pose proof (deref_nonannot e b) as H. destruct (deref e b); try discriminate H; reflexivity.
Qed.
Lemma filter_map_len (P P' : schema -> bool) bs : (forall b, P' (U b) = P b) -> len (filter P' (map U bs)) = len (filter P bs).
Proof.
  intros H. induction bs as [|b bs IH]; [reflexivity|]. cbn [map filter]. rewrite H. destruct (P b); [|exact IH].
  unfold len in *. cbn [length]. lia.
Qed.
Lemma count_named_U e bs : count_named (Ue e) (map U bs) = count_named e bs.
Proof. unfold count_named. apply filter_map_len. intros b. rewrite branch_kind_U. reflexivity. Qed.
Lemma count_records_U e bs : count_records (Ue e) (map U bs) = count_records e bs.
Proof. unfold count_records. apply filter_map_len. intros b. rewrite branch_kind_U. reflexivity. Qed.
Lemma dict_name_U s : dict_name (U s) = dict_name s.
Proof. unfold dict_name. rewrite is_dict_U, name_of_U. reflexivity. Qed.

Lemma wrap_union_r_U o we re bs b rb v :
  wrap_union_r o (Ue we) (Ue re) (map U bs) (U b) (Uo rb) v = wrap_union_r o we re bs b rb v.
Proof.
  unfold wrap_union_r. rewrite deref1_U, tag_of_U, count_named_U, count_records_U.
  set (idx := deref1 we b).
  assert (E : (let+ d := match Uo rb with
                         | None => ROk (U idx)
                         | Some r => if is_dict r then ROk r
                                     else match r with
                                          | SRef m => ROk (match lookup (Ue re) m with Some d => d | None => U idx end)
                                          | SUnion _ => RErrOther
                                          | _ => ROk (U idx)
                                          end
                         end in let+ n := dict_name d in ROk (PTuple [PStr n; v])) =
               (let+ d := match rb with
                         | None => ROk idx
                         | Some r => if is_dict r then ROk r
                                     else match r with
                                          | SRef m => ROk (match lookup re m with Some d => d | None => idx end)
                                          | SUnion _ => RErrOther
                                          | _ => ROk idx
                                          end
                         end in let+ n := dict_name d in ROk (PTuple [PStr n; v]))).
  { destruct rb as [r|]; cbn [Uo option_map rbind]; [|rewrite dict_name_U; reflexivity].
    rewrite is_dict_U. destruct (is_dict r) eqn:Hd; cbn [rbind]; [rewrite dict_name_U; reflexivity|].
    destruct r; try discriminate Hd; cbn [U rbind]; try (rewrite dict_name_U; reflexivity); try reflexivity.
    rewrite lookup_Ue. destruct (lookup re n); cbn [option_map]; rewrite dict_name_U; reflexivity. }
  rewrite E. reflexivity.
Qed.

(** ** the value-level algorithm of the code *)
Lemma vitems_ext (g g' : aval -> rres pyval) l : (forall a, g a = g' a) -> vitems g l = vitems g' l.
Proof. intros H. induction l as [|a l IH]; cbn [vitems]; [reflexivity|]. rewrite H, IH. reflexivity. Qed.
Lemma vmap_items_ext (g g' : aval -> rres pyval) l : (forall a, g a = g' a) -> vmap_items g l = vmap_items g' l.
Proof. intros H. induction l as [|[k a] l IH]; cbn [vmap_items]; [reflexivity|]. rewrite H, IH. reflexivity. Qed.
Lemma vfields_plain_U (rec rec' : schema -> option schema -> aval -> rres pyval) :
  (forall t a, rec' (U t) None a = rec t None a) ->
  forall wfs l acc, vfields_plain rec' (map Uf wfs) l acc = vfields_plain rec wfs l acc.
Proof.
  intros H. induction wfs as [|wf wfs IH]; intros l acc; destruct l as [|a l]; cbn [map vfields_plain]; try reflexivity.
  change (ftype (Uf wf)) with (U (ftype wf)). change (fname (Uf wf)) with (fname wf). rewrite H.
  destruct (rec (ftype wf) None a); cbn [rbind]; try reflexivity. apply IH.
Qed.
Lemma vfields_U (rec rec' : schema -> option schema -> aval -> rres pyval) rfs :
  (forall t r a, rec' (U t) (Some (U r)) a = rec t (Some r) a) ->
  forall wfs l acc, vfields rec' (map Uf rfs) (map Uf wfs) l acc = vfields rec rfs wfs l acc.
Proof.
  intros H. induction wfs as [|wf wfs IH]; intros l acc; destruct l as [|a l]; cbn [map vfields]; try reflexivity.
  change (fname (Uf wf)) with (fname wf). rewrite reader_field_U.
  destruct (reader_field rfs (fname wf)) as [rf|]; cbn [option_map]; [|apply IH].
  change (ftype (Uf wf)) with (U (ftype wf)). change (ftype (Uf rf)) with (U (ftype rf)). change (fname (Uf rf)) with (fname rf).
  rewrite H. destruct (rec (ftype wf) (Some (ftype rf)) a); cbn [rbind]; try reflexivity. apply IH.
Qed.
Lemma nthZ_map {A B} (g : A -> B) l : forall i, nthZ (map g l) i = option_map g (nthZ l i).
Proof.
  induction l as [|x l IH]; intros i; cbn [map nthZ]; [reflexivity|].
  destruct (i =? 0); [reflexivity|]. destruct (i <? 0); [reflexivity|]. apply IH.
Qed.

Lemma rbind_congr {A B} (x y : rres A) (k k' : A -> rres B) : x = y -> (forall v, k v = k' v) -> rbind x k = rbind y k'.
Proof. intros <- H. destruct x; cbn; auto. Qed.

Lemma rbody_U o f we re :
  (forall w R a, rval f (Ue we) (Ue re) o (U w) (Uo R) a = rval f we re o w R a) ->
  forall w R' a, rbody f (Ue we) (Ue re) o (U w) (Uo R') a = rbody f we re o w R' a.
Proof.
  intros IH w R' a. unfold rbody. rewrite strip_U, tag_of_U. pose proof (strip_nonannot w) as Hn.
  apply rbind_congr.
  2:{ intros v. destruct (strip w); try discriminate Hn; cbn [U]; rewrite ?promote_with_U; reflexivity. }
  destruct (strip w) eqn:E; try discriminate Hn; cbn [U]; try reflexivity.
  - (* enum *) destruct a; try reflexivity. match goal with |- context [nthZ syms ?i] => destruct (nthZ syms i) end; [|reflexivity]. rewrite enum_symbol_U. reflexivity.
  - (* array *) destruct a; try reflexivity. rewrite truthy_U.
    rewrite (vitems_ext _ (fun a => match truthy R' with
                                     | Some r => let+ ri := r_items r in rval f we re o s (Some ri) a
                                     | None => rval f we re o s None a end)); [reflexivity|].
    intros a. destruct (truthy R') as [r|]; cbn [Uo option_map].
    + rewrite r_items_U. destruct (r_items r); cbn [rmap rbind]; try reflexivity. apply (IH s (Some x) a).
    + apply (IH s None a).
  - (* map *) destruct a; try reflexivity. rewrite truthy_U.
    rewrite (vmap_items_ext _ (fun a => match truthy R' with
                                     | Some r => let+ rv := r_values r in rval f we re o s (Some rv) a
                                     | None => rval f we re o s None a end)); [reflexivity|].
    intros a. destruct (truthy R') as [r|]; cbn [Uo option_map].
    + rewrite r_values_U. destruct (r_values r); cbn [rmap rbind]; try reflexivity. apply (IH s (Some x) a).
    + apply (IH s None a).
  - (* union *) destruct a; try reflexivity. rewrite nthZ_map. match goal with |- context [nthZ bs ?i] => destruct (nthZ bs i) as [wb|] end; cbn [option_map]; [|reflexivity].
    rewrite union_reader_U. destruct (union_reader we re wb R') as [[rb idx]| | |]; cbn [rmap rbind Upair fst snd]; try reflexivity.
    rewrite (IH wb rb a). destruct (rval f we re o wb rb a); cbn [rbind]; try reflexivity.
    rewrite wrap_union_r_U. reflexivity.
  - (* record *) destruct a; try reflexivity. destruct R' as [r|]; cbn [Uo option_map].
    + rewrite r_fields_U. destruct (r_fields r) as [rfs| | |]; cbn [rmap rbind]; try reflexivity.
      change (map (fun f0 : field_ schema => {| fname := fname f0; ftype := U (ftype f0); fdefault := fdefault f0; faliases := faliases f0 |}) fs)
        with (map Uf fs).
      rewrite (vfields_U (rval f we re o) (rval f (Ue we) (Ue re) o) rfs) by (intros t r0 a0; apply (IH t (Some r0) a0)).
      match goal with |- context [vfields (rval f we re o) rfs fs ?l []] => destruct (vfields (rval f we re o) rfs fs l []) end; cbn [rbind]; try reflexivity.
      rewrite finish_record_U. reflexivity.
    + change (map (fun f0 : field_ schema => {| fname := fname f0; ftype := U (ftype f0); fdefault := fdefault f0; faliases := faliases f0 |}) fs)
        with (map Uf fs).
      rewrite (vfields_plain_U (rval f we re o) (rval f (Ue we) (Ue re) o)) by (intros t a0; apply (IH t None a0)).
      reflexivity.
  - (* reference *) rewrite lookup_Ue. destruct (lookup we n) as [w'|]; cbn [option_map]; [|reflexivity].
    rewrite (IH w' R' a). reflexivity.
Qed.

Theorem rval_U o : forall f we re w R a, rval f (Ue we) (Ue re) o (U w) (Uo R) a = rval f we re o w R a.
Proof.
  induction f as [|f IH]; intros we re w R a; [reflexivity|].
  rewrite !rval_S, matched_U, rbind_rmap.
  destruct (matched we re w R) as [R'| | |]; cbn [rbind]; try reflexivity.
  apply rbody_U. intros; apply IH.
Qed.

(** ** the specification *)
Lemma named_match_U dw dr : nonannot dw = true -> nonannot dr = true -> named_match (U dw) (U dr) = named_match dw dr.
Proof. intros Hw Hr. destruct dw; try discriminate Hw; try reflexivity; destruct dr; try discriminate Hr; reflexivity. Qed.
Lemma prim_match_U promo w dr : nonannot dr = true -> is_prim w = true -> prim_match promo w (U dr) = prim_match promo w dr.
Proof. intros Hr Hp. destruct w; try discriminate Hp; destruct dr; try discriminate Hr; reflexivity. Qed.

Lemma smatch_annot we re promo lt p r : smatch we re promo (SAnnot lt p) r = smatch we re promo p r.
Proof.
  cbn [smatch]. destruct (deref re r) eqn:E; try reflexivity.
  destruct p; cbn [smatch]; rewrite E; reflexivity.
Qed.

Lemma smatch_U we re : forall w promo r, smatch (Ue we) (Ue re) promo (U w) (U r) = smatch we re promo w r.
Proof.
  induction w; intros promo r;
    try (cbn [U smatch]; rewrite deref_U; pose proof (deref_nonannot re r) as Hn;
         destruct (deref re r) eqn:E; try discriminate Hn; cbn [U]; reflexivity).
  - (* array *) cbn [U smatch]. rewrite deref_U. pose proof (deref_nonannot re r) as Hn.
    destruct (deref re r) eqn:E; try discriminate Hn; cbn [U]; try reflexivity. apply IHw.
  - (* map *) cbn [U smatch]. rewrite deref_U. pose proof (deref_nonannot re r) as Hn.
    destruct (deref re r) eqn:E; try discriminate Hn; cbn [U]; try reflexivity. apply IHw.
  - (* reference *) cbn [U smatch]. rewrite deref_U. pose proof (deref_nonannot re r) as Hn.
    change (deref (Ue we) (SRef n)) with (deref (Ue we) (U (SRef n))). rewrite deref_U.
    pose proof (deref_nonannot we (SRef n)) as Hw.
    destruct (deref re r) eqn:E; try discriminate Hn; cbn [U]; try reflexivity;
      rewrite <- (named_match_U (deref we (SRef n))) by (auto); reflexivity.
  - (* annotation *) rewrite smatch_annot. cbn [U]. destruct (dict_node w); [apply IHw|]. rewrite smatch_annot. apply IHw.
Qed.

Lemma same_named_U we re w b : same_named (Ue we) (Ue re) (U w) (U b) = same_named we re w b.
Proof.
  unfold same_named. rewrite !deref_U. pose proof (deref_nonannot we w) as Hw. pose proof (deref_nonannot re b) as Hb.
  destruct (deref we w); try discriminate Hw; try reflexivity; destruct (deref re b); try discriminate Hb; reflexivity.
Qed.
Lemma find_U (P P' : schema -> bool) bs : (forall b, P' (U b) = P b) -> find P' (map U bs) = option_map U (find P bs).
Proof.
  intros H. induction bs as [|b bs IH]; [reflexivity|]. cbn [map find]. rewrite H. destruct (P b); [reflexivity|exact IH].
Qed.
Lemma pick_branch_U we re w rbs : pick_branch (Ue we) (Ue re) (U w) (map U rbs) = option_map U (pick_branch we re w rbs).
Proof.
  unfold pick_branch.
  rewrite (find_U (same_named we re w)) by (intros; apply same_named_U).
  rewrite (find_U (smatch we re false w)) by (intros; apply smatch_U).
  rewrite (find_U (smatch we re true w)) by (intros; apply smatch_U).
  destruct (find (same_named we re w) rbs); [reflexivity|]. destruct (find (smatch we re false w) rbs); reflexivity.
Qed.
Lemma reader_side_U we re w r : reader_side (Ue we) (Ue re) (U w) (U r) = option_map U (reader_side we re w r).
Proof.
  unfold reader_side. rewrite deref_U. pose proof (deref_nonannot re r) as Hn.
  destruct (deref re r) eqn:E; try discriminate Hn; cbn [U]; try reflexivity.
  rewrite pick_branch_U. destruct (pick_branch we re w bs) as [b|]; cbn [option_map]; [|reflexivity].
  rewrite deref_U. pose proof (deref_nonannot re b) as Hb. destruct (deref re b); try discriminate Hb; reflexivity.
Qed.
Lemma union_pick_U we re wb r : union_pick (Ue we) (Ue re) (U wb) (U r) = option_map U (union_pick we re wb r).
Proof.
  unfold union_pick. rewrite !deref_U. pose proof (deref_nonannot re r) as Hn.
  destruct (deref re r) eqn:E; try discriminate Hn; cbn [U]; try reflexivity. apply pick_branch_U.
Qed.
Lemma wrap_spec_U o we re wbs wb rb v :
  wrap_spec o (Ue we) (Ue re) (map U wbs) (U wb) (Uo rb) v = wrap_spec o we re wbs wb rb v.
Proof.
  unfold wrap_spec. rewrite branch_kind_U, count_named_U, count_records_U.
  destruct rb as [b|]; cbn [Uo option_map]; [rewrite branch_kind_U|]; reflexivity.
Qed.

Lemma default_value_U : forall f re r d, default_value f (Ue re) (U r) d = default_value f re r d.
Proof.
  induction f as [|f IH]; intros re r d; [reflexivity|]. cbn [default_value]. rewrite deref_U.
  pose proof (deref_nonannot re r) as H. destruct (deref re r) eqn:E; try discriminate H; cbn [U]; try reflexivity; clear E H.
  - (* array *) destruct d; try reflexivity. f_equal.
    induction l as [|x l IHl]; [reflexivity|]. rewrite IH, IHl. reflexivity.
  - (* map *) destruct d; try reflexivity. f_equal.
    induction kv as [|[k x] kv IHl]; [reflexivity|]. rewrite IH, IHl. reflexivity.
  - (* union *) induction bs as [|b bs IHb]; cbn [map]; [reflexivity|]. cbv beta iota fix. rewrite json_fits_U, IH.
    destruct (json_fits re b d); [reflexivity|exact IHb].
  - (* record *) destruct d; try reflexivity. f_equal.
    induction fs as [|fd fs IHl]; cbn [map]; [reflexivity|]. cbv beta iota fix. cbn [fname ftype fdefault].
    rewrite IHl. destruct (dict_get kv (fname fd)); [rewrite IH; reflexivity|].
    destruct (fdefault fd); [rewrite IH; reflexivity|reflexivity].
Qed.
Lemma spec_defaults_U re tbl : forall record, spec_defaults (Ue re) (map Ukv tbl) record = spec_defaults re tbl record.
Proof.
  induction tbl as [|[n fd] tbl IH]; intros record; cbn [map spec_defaults Ukv fst snd]; [reflexivity|].
  destruct (dict_get record n); [apply IH|].
  change (fdefault (Uf fd)) with (fdefault fd). change (fname (Uf fd)) with (fname fd). change (ftype (Uf fd)) with (U (ftype fd)).
  destruct (fdefault fd); [|reflexivity]. rewrite default_value_U.
  destruct (default_value DFUEL re (ftype fd) p); cbn [rbind]; try reflexivity. apply IH.
Qed.

Lemma reader_side_nonannot we re dw r d : reader_side we re dw r = Some d -> nonannot d = true.
Proof.
  unfold reader_side. pose proof (deref_nonannot re r) as Hn.
  destruct (deref re r) eqn:E; try discriminate Hn; try (intros H; injection H as <-; reflexivity).
  destruct (pick_branch we re dw bs) as [b|]; [|discriminate]. pose proof (deref_nonannot re b) as Hb.
  destruct (deref re b); try discriminate Hb; try discriminate; intros H; injection H as <-; reflexivity.
Qed.

Theorem resolve_U o we re : forall a w r, resolve o (Ue we) (Ue re) (U w) (U r) a = resolve o we re w r a.
Proof.
  fix IH 1. intros a w r.
  destruct a; cbn [resolve]; cbv zeta; rewrite deref_U, ?reader_side_U; pose proof (deref_nonannot we w) as Hw;
    destruct (deref we w) eqn:Ew; try discriminate Hw; cbn [U]; try reflexivity.
  all: try (destruct (reader_side we re _ r) as [d|] eqn:Er; cbn [option_map]; try reflexivity;
            pose proof (reader_side_nonannot _ _ _ _ _ Er) as Hd; destruct d; try discriminate Hd; cbn [U]; try reflexivity).
  - (* array *)
    rewrite smatch_U. destruct (smatch we re true s d); [|reflexivity]. f_equal.
    induction l as [|x l IHl]; cbn [res_items]; [reflexivity|]. rewrite IH, IHl. reflexivity.
  - (* map *)
    rewrite smatch_U. destruct (smatch we re true s d); [|reflexivity]. f_equal.
    induction l as [|[k x] l IHl]; cbn [res_entries]; [reflexivity|]. rewrite IH, IHl. reflexivity.
  - (* union *)
    rewrite nthZ_map. destruct (nthZ bs i) as [wb|]; cbn [option_map]; [|reflexivity].
    rewrite IH. destruct (resolve o we re wb r a); cbn [rbind]; try reflexivity.
    rewrite union_pick_U. apply wrap_spec_U.
  - (* record *)
    destruct (names_match n n0 al0); [|reflexivity].
    change (map (fun f0 : field_ schema => {| fname := fname f0; ftype := U (ftype f0); fdefault := fdefault f0; faliases := faliases f0 |}) fs)
      with (map Uf fs).
    change (map (fun f0 : field_ schema => {| fname := fname f0; ftype := U (ftype f0); fdefault := fdefault f0; faliases := faliases f0 |}) fs0)
      with (map Uf fs0).
    assert (E : forall l wfs acc, (forall x, In x l -> forall w r, resolve o (Ue we) (Ue re) (U w) (U r) x = resolve o we re w r x) ->
                res_fields (resolve o (Ue we) (Ue re)) (map Uf fs0) (map Uf wfs) l acc =
                res_fields (resolve o we re) fs0 wfs l acc).
    { clear. induction l as [|x l IHl]; intros wfs acc Hx; destruct wfs as [|wf wfs]; cbn [map res_fields]; try reflexivity.
      change (fname (Uf wf)) with (fname wf). rewrite reader_field_U.
      destruct (reader_field fs0 (fname wf)) as [rf|]; cbn [option_map].
      - change (ftype (Uf wf)) with (U (ftype wf)). change (ftype (Uf rf)) with (U (ftype rf)). change (fname (Uf rf)) with (fname rf).
        rewrite (Hx x (or_introl eq_refl)). destruct (resolve o we re (ftype wf) (ftype rf) x); cbn [rbind]; try reflexivity.
        apply IHl. intros y Hy. apply Hx. right. exact Hy.
      - apply IHl. intros y Hy. apply Hx. right. exact Hy. }
    rewrite E.
    + destruct (res_fields (resolve o we re) fs0 fs l []); cbn [rbind]; try reflexivity.
      rewrite field_table_U, spec_defaults_U. reflexivity.
    + clear E. induction l as [|x l IHl]; intros y Hy; [destruct Hy|]. destruct Hy as [<-|Hy]; [apply IH|apply IHl; exact Hy].
Qed.

(** ** values typed under a schema are typed under the schema without the annotations *)
Lemma typedn_U : forall n e s a, typedn n e s a -> typedn n (Ue e) (U s) a.
Proof.
  induction n as [|n IH]; intros e s a H; [destruct H|].
  destruct s.
  15:{ apply typedn_ref in H. cbn [U]. apply typedn_ref. destruct H as (s0 & Hl & H). exists (U s0).
       split; [rewrite lookup_Ue, Hl; reflexivity|apply IH; exact H]. }
  15:{ apply typedn_annot in H. cbn [U]. destruct (dict_node s).
       - apply typedn_mono. apply IH. exact H.
       - apply typedn_annot. apply IH. exact H. }
  all: destruct a; cbn [typedn U] in H |- *; try contradiction; try exact H.
  - destruct H as [H1 H2]. split; [exact H1|]. eapply Forall_impl; [|exact H2]. intros x Hx. apply IH. exact Hx.
  - destruct H as [H1 H2]. split; [exact H1|]. eapply Forall_impl; [|exact H2]. intros x [Hk Hx]. split; [exact Hk|apply IH; exact Hx].
  - destruct H as (H1 & s0 & Hn & Hx). split; [exact H1|]. exists (U s0). split; [rewrite nthZ_map, Hn; reflexivity|apply IH; exact Hx].
  - induction H as [|f x fs l Hx _ IHl]; cbn [map]; constructor; [apply IH; exact Hx|exact IHl].
Qed.

(** ** the zone theorems for schemas with logicalType annotations on array / map / named-type nodes *)
Theorem rval_resolve_annot o : forall n we w a, typedn n we w a -> forall re r f, (n <= f)%nat ->
  inline (U w) = true -> inline (U r) = true -> agree (Ue we) (Ue re) (U w) (U r) = true ->
  rval f we re o w (Some r) a = resolve o we re w r a.
Proof.
  intros n we w a Ht re r f Hf Hw Hr Ha.
  rewrite <- (rval_U o f we re w (Some r) a), <- (resolve_U o we re a w r).
  exact (rval_resolve o n (Ue we) (U w) a (typedn_U n we w a Ht) (Ue re) (U r) f Hf Hw Hr Ha).
Qed.

Theorem rdec_resolve_zone_annot o : forall n we w a, typedn n we w a -> forall re r f x, (n <= f)%nat ->
  inline (U w) = true -> inline (U r) = true -> agree (Ue we) (Ue re) (U w) (U r) = true ->
  rdec f we re o w (Some r) (wire a ++ x) = lift x (resolve o we re w r a).
Proof.
  intros n we w a Ht re r f x Hf Hw Hr Ha.
  rewrite (rdec_rval_wire n we w a Ht f Hf re o (Some r) x), (rval_resolve_annot o n we w a Ht re r f Hf Hw Hr Ha). reflexivity.
Qed.

Theorem rval_resolveS_annot o : forall n we w a, typedn n we w a -> forall re r f, (n <= f)%nat ->
  env_scoped (Ue we) = true -> env_scoped (Ue re) = true -> scoped (Ue we) (U w) = true -> scoped (Ue re) (U r) = true ->
  agree_all (Ue we) (Ue re) (U w) (U r) = true ->
  rval f we re o w (Some r) a = resolve o we re w r a.
Proof.
  intros n we w a Ht re r f Hf Hew Her Hw Hr Ha.
  rewrite <- (rval_U o f we re w (Some r) a), <- (resolve_U o we re a w r).
  exact (rval_resolveS_all o n (Ue we) (U w) a (typedn_U n we w a Ht) (Ue re) (U r) f Hf Hew Her Hw Hr Ha).
Qed.

Theorem rdec_resolve_zoneS_annot o : forall n we w a, typedn n we w a -> forall re r f x, (n <= f)%nat ->
  env_scoped (Ue we) = true -> env_scoped (Ue re) = true -> scoped (Ue we) (U w) = true -> scoped (Ue re) (U r) = true ->
  agree_all (Ue we) (Ue re) (U w) (U r) = true ->
  rdec f we re o w (Some r) (wire a ++ x) = lift x (resolve o we re w r a).
Proof.
  intros n we w a Ht re r f x Hf Hew Her Hw Hr Ha.
  rewrite (rdec_rval_wire n we w a Ht f Hf re o (Some r) x), (rval_resolveS_annot o n we w a Ht re r f Hf Hew Her Hw Hr Ha). reflexivity.
Qed.

(* any block layout of the value *)
Theorem rdec_resolve_zone_annot_layout o : forall n we w l, typedl n we w l ->
  forall re r f x, (n <= f)%nat -> typedn n we w (erase l) ->
  inline (U w) = true -> inline (U r) = true -> agree (Ue we) (Ue re) (U w) (U r) = true ->
  rdec f we re o w (Some r) (wire_l l ++ x) = lift x (resolve o we re w r (erase l)).
Proof.
  intros n we w l Hl re r f x Hf Ht Hw Hr Ha.
  rewrite (rdec_rval n we w l Hl f Hf re o (Some r) x), (rval_resolve_annot o n we w (erase l) Ht re r f Hf Hw Hr Ha). reflexivity.
Qed.
Theorem rdec_resolve_zoneS_annot_layout o : forall n we w l, typedl n we w l ->
  forall re r f x, (n <= f)%nat -> typedn n we w (erase l) ->
  env_scoped (Ue we) = true -> env_scoped (Ue re) = true -> scoped (Ue we) (U w) = true -> scoped (Ue re) (U r) = true ->
  agree_all (Ue we) (Ue re) (U w) (U r) = true ->
  rdec f we re o w (Some r) (wire_l l ++ x) = lift x (resolve o we re w r (erase l)).
Proof.
  intros n we w l Hl re r f x Hf Ht Hew Her Hw Hr Ha.
  rewrite (rdec_rval n we w l Hl f Hf re o (Some r) x), (rval_resolveS_annot o n we w (erase l) Ht re r f Hf Hew Her Hw Hr Ha). reflexivity.
Qed.

(** ** an example: a record whose array field, the array's item type (a fixed, referred to by name afterwards) and the
    record itself carry logicalType annotations; the reader adds a field and promotes one *)
From Coq Require Import String.
Open Scope string_scope. Open Scope Z_scope.
Definition an_F := SAnnot (s2b "my-fixed") (SFixed (s2b "F") [] 2).
Definition an_w := SAnnot (s2b "my-record") (SRecord (s2b "R") []
  [fld (s2b "xs") (SAnnot (s2b "my-array") (SArray an_F)); fld (s2b "n") SInt; fld (s2b "f") (SRef (s2b "F"))]).
Definition an_r := SAnnot (s2b "their-record") (SRecord (s2b "R") []
  [fld (s2b "n") SLong; fld (s2b "xs") (SAnnot (s2b "their-array") (SArray an_F)); fld (s2b "f") (SRef (s2b "F"));
   fldd (s2b "m") (SAnnot (s2b "my-map") (SMap SInt)) (PDict [])]).
Definition an_we : env := [(s2b "R", an_w); (s2b "F", an_F)].
Definition an_re : env := [(s2b "R", an_r); (s2b "F", an_F)].
Definition an_a := ARecord [AArray [AFixed [1; 2]; AFixed [3; 4]]; AInt 7; AFixed [5; 6]].
Definition an_out := PDict [(PStr (s2b "xs"), PList [PBytes [1; 2]; PBytes [3; 4]]); (PStr (s2b "n"), PInt 7);
                            (PStr (s2b "f"), PBytes [5; 6]); (PStr (s2b "m"), PDict [])].
Lemma an_in_zone :
  env_scoped (Ue an_we) && env_scoped (Ue an_re) && scoped (Ue an_we) (U an_w) && scoped (Ue an_re) (U an_r)
  && agree_all (Ue an_we) (Ue an_re) (U an_w) (U an_r) = true.
Proof. vm_compute. reflexivity. Qed.
Lemma an_not_in_plain_zone : scoped an_we an_w = false /\ inline an_w = false.
Proof. split; vm_compute; reflexivity. Qed.
Lemma an_example :
  rdec 8 an_we an_re ropts0 an_w (Some an_r) (wire an_a) = ROk (an_out, []) /\
  resolve ropts0 an_we an_re an_w an_r an_a = ROk an_out.
Proof. split; vm_compute; reflexivity. Qed.
Lemma an_any_value : forall o n a, typedn n an_we an_w a -> forall f x, (n <= f)%nat ->
  rdec f an_we an_re o an_w (Some an_r) (wire a ++ x)%list = lift x (resolve o an_we an_re an_w an_r a).
Proof.
  intros o n a Ht f x Hf. pose proof an_in_zone as H. repeat (apply andb_prop in H as [H ?]).
  apply (rdec_resolve_zoneS_annot o n an_we an_w a Ht an_re an_r f x Hf); assumption.
Qed.
