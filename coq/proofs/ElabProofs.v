(** Proofs about validation (C10), the writer's elaboration (C01: [elab_typed]) and the union
    branch search (C09). *)
From Coq Require Import String Lia ZifyBool.
From FA Require Import model.Base model.Varint model.Value model.Schema model.Utf8 model.Float model.Codec
                       model.Validate model.Write model.Read model.Conform proofs.VarintProofs proofs.CodecProofs.

(** *** small facts *)
Lemma beqb_eq : forall a b, bytes_eqb a b = true -> a = b.
Proof.
  induction a as [|x a IH]; intros [|y b] H; cbn [bytes_eqb] in H; try discriminate; [reflexivity|].
  apply andb_prop in H. destruct H as [H1 H2]. apply Z.eqb_eq in H1. subst y. rewrite (IH _ H2). reflexivity.
Qed.
Lemma beqb_refl : forall a, bytes_eqb a a = true.
Proof. induction a as [|x a IH]; cbn [bytes_eqb]; [reflexivity|]. rewrite Z.eqb_refl, IH. reflexivity. Qed.
Lemma beqb_iff a b : bytes_eqb a b = true <-> a = b.
Proof. split; [apply beqb_eq|intros ->; apply beqb_refl]. Qed.

Lemma existsb_beqb x syms : existsb (bytes_eqb x) syms = true <-> In x syms.
Proof.
  rewrite existsb_exists. split.
  - intros (y & Hy & E). apply beqb_eq in E. subst y. exact Hy.
  - intros H. exists x. split; [exact H|apply beqb_refl].
Qed.

Lemma as_sequence_items v l : as_sequence v = Some l <-> seq_items v l.
Proof.
  unfold seq_items. split.
  - destruct v; cbn [as_sequence]; intros H; try discriminate; injection H as <-; eauto 6.
  - intros [->|[->|(b & [->| ->] & ->)]]; reflexivity.
Qed.

(** *** the validator's loops, generically in the recursive call *)
Section VLoops.
  Variable rec : schema -> option pyval -> res bool.

  Lemma all_items_true s l : all_items rec s l = Ok true -> Forall (fun x => rec s (Some x) = Ok true) l.
  Proof.
    induction l as [|x l IH]; cbn [all_items]; intros H; [constructor|].
    destruct (rec s (Some x)) as [[|]| |] eqn:E; cbn [bind] in H; try discriminate. constructor; auto.
  Qed.
  Lemma all_items_false s l : all_items rec s l = Ok false -> Exists (fun x => rec s (Some x) = Ok false) l.
  Proof.
    induction l as [|x l IH]; cbn [all_items]; intros H; [discriminate|].
    destruct (rec s (Some x)) as [[|]| |] eqn:E; cbn [bind] in H; try discriminate.
    - apply Exists_cons_tl. auto.
    - apply Exists_cons_hd. exact E.
  Qed.

  Definition field_value (kv : list (pyval * pyval)) (fd : field) : option pyval :=
    match dict_get kv (fname fd) with Some v => Some v | None => fdefault fd end.

  Lemma all_fields_true kv fs : all_fields rec kv fs = Ok true ->
    Forall (fun fd => rec (ftype fd) (field_value kv fd) = Ok true) fs.
  Proof.
    induction fs as [|fd fs IH]; cbn [all_fields]; intros H; [constructor|]. fold (field_value kv fd) in H.
    destruct (rec (ftype fd) (field_value kv fd)) as [[|]| |] eqn:E; cbn [bind] in H; try discriminate. constructor; auto.
  Qed.
  Lemma all_fields_false kv fs : all_fields rec kv fs = Ok false ->
    Exists (fun fd => rec (ftype fd) (field_value kv fd) = Ok false) fs.
  Proof.
    induction fs as [|fd fs IH]; cbn [all_fields]; intros H; [discriminate|]. fold (field_value kv fd) in H.
    destruct (rec (ftype fd) (field_value kv fd)) as [[|]| |] eqn:E; cbn [bind] in H; try discriminate.
    - apply Exists_cons_tl. auto.
    - apply Exists_cons_hd. exact E.
  Qed.

  (* the first passing branch: everything before it was excluded by the "-type" entry or failed *)
  Lemma any_branch_true pass v bs : any_branch rec pass v bs = Ok true ->
    exists pre c post, bs = pre ++ c :: post /\ Forall (fun b => pass b = false \/ rec b (Some v) = Ok false) pre /\
      pass c = true /\ rec c (Some v) = Ok true.
  Proof.
    induction bs as [|b bs IH]; cbn [any_branch]; intros H; [discriminate|].
    destruct (pass b) eqn:Ep; cbn [negb] in H.
    - destruct (rec b (Some v)) as [[|]| |] eqn:E; cbn [bind] in H; try discriminate.
      + exists [], b, bs. repeat split; [constructor|exact Ep|exact E].
      + destruct (IH H) as (pre & c & post & -> & Hp & Hpc & Hc). exists (b :: pre), c, post.
        repeat split; [constructor; [right; exact E|assumption]|exact Hpc|exact Hc].
    - destruct (IH H) as (pre & c & post & -> & Hp & Hpc & Hc). exists (b :: pre), c, post.
      repeat split; [constructor; [left; exact Ep|assumption]|exact Hpc|exact Hc].
  Qed.
  Lemma any_branch_false pass v bs : any_branch rec pass v bs = Ok false ->
    Forall (fun b => pass b = false \/ rec b (Some v) = Ok false) bs.
  Proof.
    induction bs as [|b bs IH]; cbn [any_branch]; intros H; [constructor|].
    destruct (pass b) eqn:Ep; cbn [negb] in H; [|constructor; [left; exact Ep|auto]].
    destruct (rec b (Some v)) as [[|]| |] eqn:E; cbn [bind] in H; try discriminate. constructor; [right; exact E|auto].
  Qed.

  Lemma hinted_str nm v bs :
    hinted rec (PStr nm) v bs = match first_named nm bs with Some b => rec b (Some v) | None => Ok false end.
  Proof.
    induction bs as [|b bs IH]; cbn [hinted first_named]; [reflexivity|].
    destruct (bytes_eqb (branch_name b) nm); [reflexivity|exact IH].
  Qed.
  Lemma hinted_nonstr name v bs : (forall nm, name <> PStr nm) -> hinted rec name v bs = Ok false.
  Proof.
    intros Hn. induction bs as [|b bs IH]; cbn [hinted]; [reflexivity|].
    destruct name; try exact IH. exfalso. eapply Hn. reflexivity.
  Qed.
End VLoops.

(** *** conformance is monotone in the height *)
Lemma field_conforms_impl (C1 C2 : schema -> pyval -> Prop) o kv fd :
  (forall s v, C1 s v -> C2 s v) -> field_conforms C1 o kv fd -> field_conforms C2 o kv fd.
Proof.
  intros H. unfold field_conforms. destruct (dict_get kv (fname fd)); [apply H|].
  destruct (fdefault fd); [apply H|]. intros [H1 H2]. split; [exact H1|apply H; exact H2].
Qed.

Lemma conforms_mono : forall n o e s v, conforms n o e s v -> conforms (S n) o e s v.
Proof.
  induction n as [|n IH]; intros o e s v H; [destruct H|].
  destruct s; try exact H.
  - destruct H as (l & Hs & Hl). exists l. split; [exact Hs|]. eapply Forall_impl; [|exact Hl]. intros; apply IH; assumption.
  - destruct H as (kv & -> & Hl). exists kv. split; [reflexivity|]. eapply Forall_impl; [|exact Hl].
    intros p [Hk Hv]. split; [exact Hk|apply IH; exact Hv].
  - change (conforms (S (S n)) o e (SUnion bs) v) with
      (match v with
       | PTuple l => if disable_tuple o then Exists (fun b => hint_pass e v b = true /\ conforms (S n) o e b v) bs
                     else exists name x b, l = [PStr name; x] /\ first_named name bs = Some b /\ conforms (S n) o e b x
       | _ => Exists (fun b => hint_pass e v b = true /\ conforms (S n) o e b v) bs end).
    change (conforms (S n) o e (SUnion bs) v) with
      (match v with
       | PTuple l => if disable_tuple o then Exists (fun b => hint_pass e v b = true /\ conforms n o e b v) bs
                     else exists name x b, l = [PStr name; x] /\ first_named name bs = Some b /\ conforms n o e b x
       | _ => Exists (fun b => hint_pass e v b = true /\ conforms n o e b v) bs end) in H.
    assert (HE : Exists (fun b => hint_pass e v b = true /\ conforms n o e b v) bs ->
                 Exists (fun b => hint_pass e v b = true /\ conforms (S n) o e b v) bs).
    { intros HE. eapply Exists_impl; [|exact HE]. intros b0 [H1 H2]. split; [exact H1|apply IH; exact H2]. }
    destruct v; try (apply HE; exact H).
    destruct (disable_tuple o); [apply HE; exact H|].
    destruct H as (name & x & b & H1 & H2 & H3). exists name, x, b. repeat split; try assumption. apply IH; exact H3.
  - destruct H as (kv & -> & Hh & Hl). exists kv. split; [reflexivity|]. split; [exact Hh|].
    eapply Forall_impl; [|exact Hl]. intros fd Hfd. eapply field_conforms_impl; [|exact Hfd]. intros; apply IH; assumption.
  - destruct H as (s' & Hl & H). exists s'. split; [exact Hl|apply IH; exact H].
  - apply IH. exact H.
Qed.

Lemma conforms_le n m o e s v : (n <= m)%nat -> conforms n o e s v -> conforms m o e s v.
Proof. induction 1 as [|m _ IH]; intros H; [exact H|]. apply conforms_mono. auto. Qed.

(** *** validate = Ok true  ==>  conforms (same height as the fuel) *)
Definition conforms_opt n o e s (ov : option pyval) : Prop :=
  match ov with Some v => conforms n o e s v | None => strict o = false /\ conforms n o e s PNone end.

Lemma validate_sound : forall f o e s ov, validate f o e s ov = Ok true -> conforms_opt f o e s ov.
Proof.
  induction f as [|f IH]; intros o e s ov H; [discriminate|].
  destruct ov as [v|].
  2:{ cbn [validate] in H. cbn [conforms_opt]. destruct (strict o) eqn:Es; [discriminate|].
      split; [reflexivity|]. apply conforms_mono. exact (IH _ _ _ _ H). }
  cbn [conforms_opt]. cbn [validate] in H.
  destruct s.
  - destruct v; try discriminate. reflexivity.
  - destruct v; try discriminate. eexists; reflexivity.
  - destruct v; try discriminate. injection H as H. exists z. split; [reflexivity|]. unfold INT_MIN, INT_MAX in H. lia.
  - destruct v; try discriminate. injection H as H. exists z. split; [reflexivity|]. unfold LONG_MIN, LONG_MAX in H. lia.
  - destruct v; try discriminate; [left|right]; eexists; reflexivity.
  - destruct v; try discriminate; [left|right]; eexists; reflexivity.
  - destruct v; try discriminate; [left|right]; eexists; reflexivity.
  - destruct v; try discriminate. eexists; reflexivity.
  - destruct v; try discriminate. injection H as H. exists b. split; [reflexivity|lia].
  - destruct v; try discriminate. injection H as H. exists s. split; [reflexivity|]. apply existsb_beqb. exact H.
  - destruct (as_sequence v) as [l|] eqn:Es; [|discriminate]. exists l. split; [apply as_sequence_items; exact Es|].
    apply all_items_true in H. eapply Forall_impl; [|exact H]. intros x Hx. exact (IH _ _ _ _ Hx).
  - destruct v; try discriminate. destruct (forallb is_str_key kv) eqn:Ek; [|discriminate].
    exists kv. split; [reflexivity|]. apply all_items_true in H. rewrite forallb_forall in Ek.
    clear - H Ek IH. induction kv as [|p kv IHkv]; [constructor|]. cbn [map] in H. inversion H as [|? ? H1 H2]; subst.
    constructor.
    + split; [|exact (IH _ _ _ _ H1)]. specialize (Ek p (or_introl eq_refl)). unfold is_str_key in Ek.
      destruct (fst p); try discriminate. eexists; reflexivity.
    + apply IHkv; [|exact H2]. intros q Hq. apply Ek. right. exact Hq.
  - change (conforms (S f) o e (SUnion bs) v) with
      (match v with
       | PTuple l => if disable_tuple o then Exists (fun b => hint_pass e v b = true /\ conforms f o e b v) bs
                     else exists name x b, l = [PStr name; x] /\ first_named name bs = Some b /\ conforms f o e b x
       | _ => Exists (fun b => hint_pass e v b = true /\ conforms f o e b v) bs end).
    assert (HA : any_branch (validate f o e) (hint_pass e v) v bs = Ok true ->
                 Exists (fun b => hint_pass e v b = true /\ conforms f o e b v) bs).
    { intros HA. apply any_branch_true in HA. destruct HA as (pre & c & post & -> & _ & Hpc & Hc).
      apply Exists_app. right. apply Exists_cons_hd. split; [exact Hpc|exact (IH _ _ _ _ Hc)]. }
    destruct v; try (apply HA; exact H).
    destruct (disable_tuple o); [apply HA; exact H|].
    destruct l as [|name [|x [|? ?]]]; try discriminate.
    destruct name as [| | | |nm| | | | |];
      try (rewrite hinted_nonstr in H by (intros ? ?; discriminate); discriminate).
    rewrite hinted_str in H. destruct (first_named nm bs) as [b|] eqn:Ef; [|discriminate].
    exists nm, x, b. repeat split; [exact Ef|exact (IH _ _ _ _ H)].
  - destruct v; try discriminate. exists kv. split; [reflexivity|].
    unfold type_hint_ok. destruct (dict_get kv (s2b "-type")) as [t|] eqn:Et.
    + destruct t; try discriminate. destruct (bytes_eqb s n) eqn:En; [|discriminate]. apply beqb_eq in En. subst s.
      split; [reflexivity|]. apply all_fields_true in H. eapply Forall_impl; [|exact H].
      intros fd Hfd. unfold field_conforms. unfold field_value in Hfd. apply IH in Hfd.
      destruct (dict_get kv (fname fd)); [exact Hfd|]. destruct (fdefault fd); exact Hfd.
    + split; [exact I|]. apply all_fields_true in H. eapply Forall_impl; [|exact H].
      intros fd Hfd. unfold field_conforms. unfold field_value in Hfd. apply IH in Hfd.
      destruct (dict_get kv (fname fd)); [exact Hfd|]. destruct (fdefault fd); exact Hfd.
  - destruct (lookup e n) as [s'|] eqn:El; [|discriminate]. exists s'. split; [exact El|]. exact (IH _ _ _ _ H).
  - exact (IH _ _ _ _ H).
Qed.

(** *** conforms  ==>  validate never answers False (whatever fuel, as long as it answers) *)
Lemma validate_complete : forall n o e s v, conforms n o e s v ->
  forall f b, validate f o e s (Some v) = Ok b -> b = true.
Proof.
  induction n as [|n IH]; intros o e s v Hc f b H; [destruct Hc|].
  destruct f as [|f]; [discriminate|]. cbn [validate] in H.
  destruct s; cbn [conforms] in Hc.
  - subst v. injection H as <-. reflexivity.
  - destruct Hc as [x ->]. injection H as <-. reflexivity.
  - destruct Hc as (z & -> & Hz). injection H as <-. unfold INT_MIN, INT_MAX. lia.
  - destruct Hc as (z & -> & Hz). injection H as <-. unfold LONG_MIN, LONG_MAX. lia.
  - destruct Hc as [[z ->]|[x ->]]; injection H as <-; reflexivity.
  - destruct Hc as [[z ->]|[x ->]]; injection H as <-; reflexivity.
  - destruct Hc as [[z ->]|[x ->]]; injection H as <-; reflexivity.
  - destruct Hc as [x ->]. injection H as <-. reflexivity.
  - destruct Hc as (x & -> & Hl). injection H as <-. lia.
  - destruct Hc as (x & -> & Hin). injection H as <-. apply existsb_beqb. exact Hin.
  - destruct Hc as (l & Hs & Hl). apply as_sequence_items in Hs. rewrite Hs in H.
    destruct b; [reflexivity|]. apply all_items_false in H. apply Exists_exists in H. destruct H as (x & Hx & Hf).
    rewrite Forall_forall in Hl. exact (IH _ _ _ _ (Hl x Hx) _ _ Hf).
  - destruct Hc as (kv & -> & Hl).
    assert (Hk : forallb is_str_key kv = true).
    { apply forallb_forall. intros p Hp. rewrite Forall_forall in Hl. destruct (Hl p Hp) as [[k Hk] _].
      unfold is_str_key. rewrite Hk. reflexivity. }
    rewrite Hk in H. destruct b; [reflexivity|]. apply all_items_false in H. apply Exists_exists in H.
    destruct H as (x & Hx & Hf). apply in_map_iff in Hx. destruct Hx as (p & <- & Hp).
    rewrite Forall_forall in Hl. destruct (Hl p Hp) as [_ Hv]. exact (IH _ _ _ _ Hv _ _ Hf).
  - assert (HA : Exists (fun b => hint_pass e v b = true /\ conforms n o e b v) bs ->
                 any_branch (validate f o e) (hint_pass e v) v bs = Ok b -> b = true).
    { intros HE HA. destruct b; [reflexivity|]. apply any_branch_false in HA. apply Exists_exists in HE.
      destruct HE as (c & Hin & Hpc & Hcc). rewrite Forall_forall in HA.
      destruct (HA c Hin) as [Hf|Hf]; [congruence|exact (IH _ _ _ _ Hcc _ _ Hf)]. }
    destruct v; try (apply HA; [exact Hc|exact H]).
    destruct (disable_tuple o); [apply HA; [exact Hc|exact H]|].
    destruct Hc as (name & x & c & -> & Hf & Hcc). rewrite hinted_str, Hf in H. exact (IH _ _ _ _ Hcc _ _ H).
  - destruct Hc as (kv & -> & Hh & Hl). unfold type_hint_ok in Hh.
    assert (Hhint : match dict_get kv (s2b "-type") with
                    | Some (PStr t) => bytes_eqb t n0 | Some _ => false | None => true end = true).
    { destruct (dict_get kv (s2b "-type")) as [t|]; [|reflexivity]. subst t. apply beqb_refl. }
    rewrite Hhint in H. destruct b; [reflexivity|]. apply all_fields_false in H. apply Exists_exists in H.
    destruct H as (fd & Hfd & Hf). rewrite Forall_forall in Hl. specialize (Hl fd Hfd).
    unfold field_conforms in Hl. unfold field_value in Hf.
    destruct (dict_get kv (fname fd)) as [x|]; [exact (IH _ _ _ _ Hl _ _ Hf)|].
    destruct (fdefault fd) as [d|]; [exact (IH _ _ _ _ Hl _ _ Hf)|].
    destruct Hl as [Hs Hn]. destruct f as [|f]; [discriminate|]. cbn [validate] in Hf. rewrite Hs in Hf.
    exact (IH _ _ _ _ Hn _ _ Hf).
  - destruct Hc as (s' & Hl & Hcc). rewrite Hl in H. exact (IH _ _ _ _ Hcc _ _ H).
  - exact (IH _ _ _ _ Hc _ _ H).
Qed.

(** C10: whenever the validator answers, it answers True exactly on conforming data *)
Theorem validate_iff f o e s v b : validate f o e s (Some v) = Ok b -> (b = true <-> conformsP o e s v).
Proof.
  intros H. split.
  - intros ->. exists f. exact (validate_sound _ _ _ _ _ H).
  - intros [n Hn]. exact (validate_complete _ _ _ _ _ Hn _ _ H).
Qed.

(** *** raise_errors=True raises exactly where raise_errors=False answers False *)
Section RLoopsProofs.
  Variable rec : schema -> option pyval -> res bool.
  Variable rrec : schema -> option pyval -> vres.
  Hypothesis Hrec : forall s ov, rrec s ov = vres_of (rec s ov).

  Lemma rall_items_eq s l : rall_items rrec s l = vres_of (all_items rec s l).
  Proof.
    induction l as [|x l IH]; cbn [rall_items all_items]; [reflexivity|]. rewrite Hrec.
    destruct (rec s (Some x)) as [[|]| |]; cbn [bind vres_of]; [exact IH|reflexivity..].
  Qed.
  Lemma rall_fields_eq kv fs : rall_fields rrec kv fs = vres_of (all_fields rec kv fs).
  Proof.
    induction fs as [|fd fs IH]; cbn [rall_fields all_fields]; [reflexivity|]. rewrite Hrec.
    destruct (rec (ftype fd) _) as [[|]| |]; cbn [bind vres_of]; [exact IH|reflexivity..].
  Qed.
  Lemma rany_branch_eq pass v bs : rany_branch rrec pass v bs = vres_of (any_branch rec pass v bs).
  Proof.
    induction bs as [|b bs IH]; cbn [rany_branch any_branch]; [reflexivity|].
    destruct (pass b); cbn [negb]; [|exact IH]. rewrite Hrec.
    destruct (rec b (Some v)) as [[|]| |]; cbn [bind vres_of]; [reflexivity|exact IH|reflexivity..].
  Qed.
  Lemma rhinted_eq name v bs : rhinted rrec name v bs = vres_of (hinted rec name v bs).
  Proof.
    induction bs as [|b bs IH]; cbn [rhinted hinted]; [reflexivity|].
    destruct name; try exact IH. destruct (bytes_eqb (branch_name b) s); [apply Hrec|exact IH].
  Qed.
End RLoopsProofs.

Lemma vbool_eq b : vbool b = vres_of (Ok b). Proof. destruct b; reflexivity. Qed.

Theorem validate_raise_eq : forall f o e s ov, validate_raise f o e s ov = vres_of (validate f o e s ov).
Proof.
  induction f as [|f IH]; intros o e s ov; [reflexivity|].
  cbn [validate_raise validate]. destruct ov as [v|].
  2:{ destruct (strict o); [reflexivity|apply IH]. }
  destruct s; try apply vbool_eq.
  - destruct (as_sequence v); [|reflexivity]. apply rall_items_eq. intros; apply IH.
  - destruct v; try reflexivity. destruct (forallb is_str_key kv); [|reflexivity]. apply rall_items_eq. intros; apply IH.
  - destruct v; try (apply rany_branch_eq; intros; apply IH).
    destruct (disable_tuple o); [apply rany_branch_eq; intros; apply IH|].
    destruct l as [|name [|x [|? ?]]]; try reflexivity. apply rhinted_eq. intros; apply IH.
  - destruct v; try reflexivity.
    destruct (match dict_get kv (s2b "-type") with Some (PStr t) => bytes_eqb t n | Some _ => false | None => true end);
      [|reflexivity]. apply rall_fields_eq. intros; apply IH.
  - destruct (lookup e n); [apply IH|reflexivity].
  - apply IH.
Qed.

Theorem validate_raise_iff f o e s ov : validate_raise f o e s ov = VRaised <-> validate f o e s ov = Ok false.
Proof.
  rewrite validate_raise_eq. destruct (validate f o e s ov) as [[|]| |]; cbn [vres_of]; split; intros H; try discriminate; reflexivity.
Qed.
Theorem validate_raise_true f o e s ov : validate_raise f o e s ov = VTrue <-> validate f o e s ov = Ok true.
Proof.
  rewrite validate_raise_eq. destruct (validate f o e s ov) as [[|]| |]; cbn [vres_of]; split; intros H; try discriminate; reflexivity.
Qed.

(** *** strict mode: a field that is absent and has no default is never accepted, whatever its type *)
Theorem validate_strict f o e n al fs kv fd :
  strict o = true -> In fd fs -> dict_get kv (fname fd) = None -> fdefault fd = None ->
  forall b, validate f o e (SRecord n al fs) (Some (PDict kv)) = Ok b -> b = false.
Proof.
  intros Hs Hin Hd Hdef b H. destruct b; [|reflexivity]. exfalso.
  destruct f as [|f]; [discriminate|]. cbn [validate] in H.
  destruct (match dict_get kv (s2b "-type") with Some (PStr t) => bytes_eqb t n | Some _ => false | None => true end);
    [|discriminate].
  apply all_fields_true in H. rewrite Forall_forall in H. specialize (H fd Hin).
  unfold field_value in H. rewrite Hd, Hdef in H. destruct f as [|f]; [discriminate|]. cbn [validate] in H.
  rewrite Hs in H. discriminate.
Qed.

(* ... and with enough fuel for the fields before it the answer IS False: stated through the raising mode as well *)
Corollary validate_strict_raise f o e n al fs kv fd :
  strict o = true -> In fd fs -> dict_get kv (fname fd) = None -> fdefault fd = None ->
  validate_raise f o e (SRecord n al fs) (Some (PDict kv)) <> VTrue.
Proof.
  intros Hs Hin Hd Hdef H. apply validate_raise_true in H.
  pose proof (validate_strict f o e n al fs kv fd Hs Hin Hd Hdef true H). discriminate.
Qed.

(** *** more fuel never changes the validator's answer *)
Definition vmono (r1 r2 : schema -> option pyval -> res bool) := forall s ov b, r1 s ov = Ok b -> r2 s ov = Ok b.

Section VMono.
  Variables r1 r2 : schema -> option pyval -> res bool.
  Hypothesis Hm : vmono r1 r2.
  Lemma all_items_mono s l b : all_items r1 s l = Ok b -> all_items r2 s l = Ok b.
  Proof.
    revert b; induction l as [|x l IH]; intros b H; cbn [all_items] in *; [exact H|].
    destruct (r1 s (Some x)) as [[|]| |] eqn:E; cbn [bind] in H; try discriminate; rewrite (Hm _ _ _ E); cbn [bind]; auto.
  Qed.
  Lemma all_fields_mono kv fs b : all_fields r1 kv fs = Ok b -> all_fields r2 kv fs = Ok b.
  Proof.
    revert b; induction fs as [|fd fs IH]; intros b H; cbn [all_fields] in *; [exact H|].
    destruct (r1 (ftype fd) _) as [[|]| |] eqn:E; cbn [bind] in H; try discriminate; rewrite (Hm _ _ _ E); cbn [bind]; auto.
  Qed.
  Lemma any_branch_mono pass v bs b : any_branch r1 pass v bs = Ok b -> any_branch r2 pass v bs = Ok b.
  Proof.
    revert b; induction bs as [|c bs IH]; intros b H; cbn [any_branch] in *; [exact H|].
    destruct (pass c); cbn [negb] in *; [|auto].
    destruct (r1 c (Some v)) as [[|]| |] eqn:E; cbn [bind] in H; try discriminate; rewrite (Hm _ _ _ E); cbn [bind]; auto.
  Qed.
  Lemma hinted_mono name v bs b : hinted r1 name v bs = Ok b -> hinted r2 name v bs = Ok b.
  Proof.
    revert b; induction bs as [|c bs IH]; intros b H; cbn [hinted] in *; [exact H|].
    destruct name; auto. destruct (bytes_eqb (branch_name c) s); auto.
  Qed.
End VMono.

Lemma validate_fuel_S : forall f o e, vmono (validate f o e) (validate (S f) o e).
Proof.
  induction f as [|f IH]; intros o e s ov b H; [discriminate|].
  cbn [validate] in H. remember (S f) as f1. cbn [validate]. subst f1.
  destruct ov as [v|].
  2:{ destruct (strict o); [exact H|]. apply IH. exact H. }
  destruct s; try exact H.
  - destruct (as_sequence v); [|exact H]. eapply all_items_mono; [apply IH|exact H].
  - destruct v; try exact H. destruct (forallb is_str_key kv); [|exact H]. eapply all_items_mono; [apply IH|exact H].
  - destruct v; try (eapply any_branch_mono; [apply IH|exact H]).
    destruct (disable_tuple o); [eapply any_branch_mono; [apply IH|exact H]|].
    destruct l as [|name [|x [|? ?]]]; try exact H. eapply hinted_mono; [apply IH|exact H].
  - destruct v; try exact H.
    destruct (match dict_get kv (s2b "-type") with Some (PStr t) => bytes_eqb t n | Some _ => false | None => true end);
      [|exact H]. eapply all_fields_mono; [apply IH|exact H].
  - destruct (lookup e n); [|exact H]. apply IH. exact H.
  - apply IH. exact H.
Qed.

Theorem validate_fuel_mono f f' o e : (f <= f')%nat -> vmono (validate f o e) (validate f' o e).
Proof. induction 1 as [|f' _ IH]; intros s ov b H; [exact H|]. apply validate_fuel_S. apply IH. exact H. Qed.

(** *** elaboration: inversion of the writer's loops, generically in the recursive call *)
Ltac inv_w H :=
  match type of H with
  | wbind ?x _ = WOk _ => let E := fresh "E" in destruct x eqn:E; cbn [wbind] in H; try discriminate H
  end.

Section ElabLoops.
  Variable rec : schema -> pyval -> wres aval.

  Lemma elab_items_inv s l : forall r, elab_items rec s l = WOk r -> Forall2 (fun v a => rec s v = WOk a) l r.
  Proof.
    induction l as [|x l IH]; intros r H; cbn [elab_items] in H.
    - injection H as <-. constructor.
    - inv_w H. inv_w H. injection H as <-. constructor; [exact E|apply IH; reflexivity].
  Qed.

  Lemma elab_map_inv s kv : forall r, elab_map rec s kv = WOk r ->
    Forall2 (fun p q => fst p = PStr (fst q) /\ rec s (snd p) = WOk (snd q)) kv r.
  Proof.
    induction kv as [|[k x] kv IH]; intros r H; cbn [elab_map] in H.
    - injection H as <-. constructor.
    - destruct k; try discriminate. inv_w H. inv_w H. injection H as <-.
      constructor; [split; [reflexivity|exact E]|apply IH; reflexivity].
  Qed.

  (* the datum handed to the field's writer *)
  Definition field_datum (kv : list (pyval * pyval)) (fd : field) : pyval :=
    match dict_get kv (fname fd) with
    | Some v => v
    | None => match fdefault fd with Some d => d | None => PNone end
    end.
  Definition field_arg (kv : list (pyval * pyval)) (fd : field) (v' : pyval) : Prop :=
    match ftype fd with
    | SFloat | SDouble => exists b, to_double (field_datum kv fd) = WOk b /\ v' = PFloat b
    | _ => v' = field_datum kv fd
    end.

  Lemma elab_fields_inv o kv fs : forall r, elab_fields rec o kv fs = WOk r ->
    Forall2 (fun fd a => exists v', field_arg kv fd v' /\ rec (ftype fd) v' = WOk a) fs r.
  Proof.
    induction fs as [|fd fs IH]; intros r H; cbn [elab_fields] in H.
    - injection H as <-. constructor.
    - destruct (negb (key_in kv (fname fd)) && (strict o || strict_allow_default o && negb match fdefault fd with Some _ => true | None => false end)); [discriminate|].
      destruct (negb (key_in kv (fname fd)) && negb match fdefault fd with Some _ => true | None => false end && negb (nullok (ftype fd))); [discriminate|].
      fold (field_datum kv fd) in H.
      inv_w H. inv_w H. inv_w H. injection H as <-. constructor; [|apply IH; reflexivity].
      exists x. split; [|exact E0]. unfold field_arg.
      destruct (ftype fd); try (injection E as <-; reflexivity);
        (inv_w E; injection E as <-; eexists; split; reflexivity).
  Qed.
End ElabLoops.

Definition union_go f o e bs (i : Z) (v' : pyval) : wres aval :=
  match nthZ bs i with
  | Some b => let+ a := elab f o e b v' in WOk (AUnion i a)
  | None => WErr
  end.
Definition union_search f o e bs (v : pyval) : wres aval :=
  let+ i := of_res (choose (fun c x => validate f o e c (Some x)) e v bs 0 (-1) (-1) false) in
  if i <? 0 then WErr else union_go f o e bs i v.

Lemma elab_union_eq f o e bs v :
  elab (S f) o e (SUnion bs) v =
  match v with
  | PTuple l =>
      if disable_tuple o then union_search f o e bs v
      else match l with
           | [PStr name; v'] => match find_named name bs 0 with Some i => union_go f o e bs i v' | None => WErr end
           | _ => WErr
           end
  | _ => union_search f o e bs v
  end.
Proof.
  destruct v; try reflexivity. cbn [elab]. destruct (disable_tuple o); [reflexivity|].
  destruct l as [|[] [|? [|? ?]]]; reflexivity.
Qed.

Definition hinted_by (o : wopts) (v : pyval) : Prop := exists l, v = PTuple l /\ disable_tuple o = false.

Lemma elab_union_inv f o e bs v a : elab (S f) o e (SUnion bs) v = WOk a ->
  exists i b v' a0, a = AUnion i a0 /\ nthZ bs i = Some b /\ elab f o e b v' = WOk a0 /\
    ((v' = v /\ ~ hinted_by o v /\ choose (fun c x => validate f o e c (Some x)) e v bs 0 (-1) (-1) false = Ok i)
     \/ (exists nm, v = PTuple [PStr nm; v'] /\ disable_tuple o = false /\ find_named nm bs 0 = Some i)).
Proof.
  rewrite elab_union_eq. intros H.
  assert (Hgo : forall i v', union_go f o e bs i v' = WOk a ->
            exists b a0, a = AUnion i a0 /\ nthZ bs i = Some b /\ elab f o e b v' = WOk a0).
  { intros i v' Hg. unfold union_go in Hg. destruct (nthZ bs i) as [b|]; [|discriminate]. inv_w Hg. injection Hg as <-.
    exists b, x. repeat split; exact E. }
  assert (Hs : union_search f o e bs v = WOk a -> ~ hinted_by o v ->
            exists i b v' a0, a = AUnion i a0 /\ nthZ bs i = Some b /\ elab f o e b v' = WOk a0 /\
    ((v' = v /\ ~ hinted_by o v /\ choose (fun c x => validate f o e c (Some x)) e v bs 0 (-1) (-1) false = Ok i)
     \/ (exists nm, v = PTuple [PStr nm; v'] /\ disable_tuple o = false /\ find_named nm bs 0 = Some i))).
  { intros Hs Hnh. unfold union_search in Hs.
    destruct (choose _ e v bs 0 (-1) (-1) false) as [i| |] eqn:Ec; cbn [of_res wbind] in Hs; try discriminate.
    destruct (i <? 0); [discriminate|]. destruct (Hgo _ _ Hs) as (b & a0 & H1 & H2 & H3).
    exists i, b, v, a0. repeat split; try assumption. left. repeat split; assumption. }
  destruct v; try (apply Hs; [exact H|intros (? & Hl & _); discriminate]).
  destruct (disable_tuple o) eqn:Ed; [apply Hs; [exact H|intros (l' & _ & Hd); congruence]|].
  destruct l as [|[| | | |nm| | | | |] [|x [|? ?]]]; try discriminate.
  destruct (find_named nm bs 0) as [i|] eqn:Ef; [|discriminate].
  destruct (Hgo _ _ H) as (b & a0 & H1 & H2 & H3). exists i, b, x, a0. repeat split; try assumption.
  right. exists nm. repeat split; assumption.
Qed.

(** *** well-formedness plumbing *)
Lemma bytes_okb_ok b : bytes_okb b = true -> bytes_ok b.
Proof.
  unfold bytes_okb, bytes_ok. intros H. apply andb_prop in H. destruct H as [H1 H2]. split; [|lia].
  rewrite forallb_forall in H1. apply Forall_forall. intros x Hx. specialize (H1 x Hx). unfold is_byteb, is_byte in *. lia.
Qed.

Lemma wf_str s : wf_py (PStr s) = true -> key_ok s.
Proof. cbn [wf_py]. intros H. apply andb_prop in H. destruct H as [H1 H2]. split; [apply bytes_okb_ok; exact H1|exact H2]. Qed.

Lemma dict_get_in kv k x : dict_get kv k = Some x -> exists k', In (k', x) kv.
Proof.
  induction kv as [|[k0 x0] kv IH]; cbn [dict_get]; intros H; [discriminate|].
  destruct k0; try (destruct (IH H) as [k' Hk]; exists k'; right; exact Hk).
  destruct (bytes_eqb s k).
  - injection H as <-. eexists. left. reflexivity.
  - destruct (IH H) as [k' Hk]. exists k'. right. exact Hk.
Qed.

Lemma wf_dict_get kv k x : wf_py (PDict kv) = true -> dict_get kv k = Some x -> wf_py x = true.
Proof.
  cbn [wf_py]. intros H Hg. apply andb_prop in H. destruct H as [_ H]. rewrite forallb_forall in H.
  destruct (dict_get_in _ _ _ Hg) as [k' Hin]. specialize (H _ Hin). cbn [fst snd] in H. apply andb_prop in H. apply H.
Qed.

Lemma lookup_in e n s : lookup e n = Some s -> exists k, In (k, s) e.
Proof.
  induction e as [|[k s0] e IH]; cbn [lookup]; intros H; [discriminate|].
  destruct (bytes_eqb k n).
  - injection H as <-. eexists. left. reflexivity.
  - destruct (IH H) as [k' Hk]. exists k'. right. exact Hk.
Qed.
Lemma wf_lookup e n s : wf_env e = true -> lookup e n = Some s -> wf_schema s = true.
Proof.
  unfold wf_env. intros H Hl. rewrite forallb_forall in H. destruct (lookup_in _ _ _ Hl) as [k Hin]. exact (H _ Hin).
Qed.

Lemma nthZ_In {A} (l : list A) : forall i x, nthZ l i = Some x -> In x l.
Proof.
  induction l as [|a l IH]; intros i x H; cbn [nthZ] in H; [discriminate|].
  destruct (i =? 0); [injection H as <-; left; reflexivity|]. destruct (i <? 0); [discriminate|]. right. eapply IH. exact H.
Qed.

Lemma Forall2_len {A B} (R : A -> B -> Prop) l r : Forall2 R l r -> len l = len r.
Proof. intros H. unfold len. f_equal. induction H; cbn [List.length]; [reflexivity|]. rewrite IHForall2. reflexivity. Qed.

Lemma Forall2_to_r {A B} (R : A -> B -> Prop) (P : A -> Prop) (Q T : B -> Prop) l r :
  Forall2 R l r -> Forall P l -> Forall Q r -> (forall x y, R x y -> P x -> Q y -> T y) -> Forall T r.
Proof.
  intros H; induction H as [|x y l r Hxy _ IH]; intros HP HQ HT; [constructor|].
  inversion HP; subst. inversion HQ; subst. constructor; [eapply HT; eassumption|apply IH; assumption].
Qed.

Lemma forallb_Forall {A} (p : A -> bool) l : forallb p l = true -> Forall (fun x => p x = true) l.
Proof. intros H. apply Forall_forall. apply forallb_forall. exact H. Qed.

Lemma index_of_range syms x : forall i0 i, index_of syms x i0 = Some i -> i0 <= i < i0 + len syms.
Proof.
  induction syms as [|s syms IH]; intros i0 i H; cbn [index_of] in H; [discriminate|]. rewrite len_cons.
  pose proof (len_nonneg syms). destruct (bytes_eqb s x); [injection H as <-; lia|]. specialize (IH _ _ H). lia.
Qed.

(** *** C01 [elab_typed]: what the writer elaborates is a well-typed wire value, of height <= the fuel *)
Theorem elab_typedn : forall f o e s v a,
  elab f o e s v = WOk a -> wf_env e = true -> wf_schema s = true -> wf_py v = true -> floats_ok a = true ->
  typedn f e s a.
Proof.
  induction f as [|f IH]; intros o e s v a H He Hs Hv Ha; [discriminate|].
  destruct s.
  - cbn [elab] in H. destruct v; try discriminate. injection H as <-. exact I.
  - cbn [elab] in H. destruct v; try discriminate. injection H as <-. exact I.
  - cbn [elab] in H. destruct v; try discriminate. destruct ((INT_MIN <=? z) && (z <=? INT_MAX)) eqn:E; [|discriminate].
    injection H as <-. cbn [typedn]. unfold in_int32, INT_MIN, INT_MAX in *. lia.
  - cbn [elab] in H. destruct v; try discriminate. destruct ((LONG_MIN <=? z) && (z <=? LONG_MAX)) eqn:E; [|discriminate].
    injection H as <-. cbn [typedn]. unfold in_int64, LONG_MIN, LONG_MAX in *. lia.
  - cbn [elab] in H. destruct v; try discriminate; inv_w H; inv_w H; injection H as <-; cbn [typedn floats_ok] in *; lia.
  - cbn [elab] in H. destruct v; try discriminate; inv_w H; injection H as <-; cbn [typedn floats_ok] in *; lia.
  - cbn [elab] in H. destruct v; try discriminate; injection H as <-; cbn [typedn]; apply bytes_okb_ok; exact Hv.
  - cbn [elab] in H. destruct v; try discriminate. injection H as <-. cbn [typedn]. apply wf_str. exact Hv.
  - cbn [elab] in H. destruct v; try discriminate.
    + destruct (len b =? size) eqn:E; [|discriminate]. injection H as <-. cbn [typedn]. split; [lia|apply bytes_okb_ok; exact Hv].
    + destruct (len b =? size); discriminate.
  - cbn [elab] in H. destruct v; try discriminate. destruct (index_of syms s 0) as [i|] eqn:E; [|discriminate].
    injection H as <-. cbn [typedn]. apply index_of_range in E. cbn [wf_schema] in Hs. lia.
  - (* array *)
    cbn [wf_schema] in Hs.
    assert (Hitems : forall l r, elab_items (elab f o e) s l = WOk r -> len l < 2 ^ 63 -> Forall (fun x => wf_py x = true) l ->
              floats_ok (AArray r) = true -> typedn (S f) e (SArray s) (AArray r)).
    { intros l r Hi Hlen Hwf Hfl. apply elab_items_inv in Hi. cbn [typedn]. split; [rewrite <- (Forall2_len _ _ _ Hi); exact Hlen|].
      cbn [floats_ok] in Hfl. apply forallb_Forall in Hfl.
      eapply Forall2_to_r; [exact Hi|exact Hwf|exact Hfl|]. intros x y Hxy Hx Hy. cbn beta in *. eapply IH; eassumption. }
    cbn [elab] in H. destruct v; try discriminate; inv_w H; injection H as <-.
    + cbn [wf_py] in Hv. apply andb_prop in Hv. destruct Hv as [Hl Hw]. apply (Hitems _ _ E); [unfold len in *; rewrite map_length; lia| |exact Ha].
      apply Forall_forall. intros y Hy. apply in_map_iff in Hy. destruct Hy as (z & <- & _). reflexivity.
    + cbn [wf_py] in Hv. apply andb_prop in Hv. destruct Hv as [Hl Hw]. apply (Hitems _ _ E); [unfold len in *; rewrite map_length; lia| |exact Ha].
      apply Forall_forall. intros y Hy. apply in_map_iff in Hy. destruct Hy as (z & <- & _). reflexivity.
    + cbn [wf_py] in Hv. apply andb_prop in Hv. destruct Hv as [Hl Hw]. apply (Hitems _ _ E); [lia|apply forallb_Forall; exact Hw|exact Ha].
    + cbn [wf_py] in Hv. apply andb_prop in Hv. destruct Hv as [Hl Hw]. apply (Hitems _ _ E); [lia|apply forallb_Forall; exact Hw|exact Ha].
  - (* map *)
    cbn [wf_schema] in Hs. cbn [elab] in H. destruct v as [| | | | | | |l0|l0|kv]; try discriminate; try (destruct l0; discriminate). inv_w H. injection H as <-.
    apply elab_map_inv in E. cbn [typedn]. cbn [wf_py] in Hv. apply andb_prop in Hv. destruct Hv as [Hv Hw].
    apply andb_prop in Hv. destruct Hv as [Hl _]. assert (Hlen : len kv = @len (bytes * aval) x) by exact (Forall2_len _ _ _ E). split; [lia|].
    cbn [floats_ok] in Ha. apply forallb_Forall in Ha. apply forallb_Forall in Hw.
    eapply Forall2_to_r; [exact E|exact Hw|exact Ha|]. intros [k x0] [k' y] [Hk Hxy] Hx Hy. cbn [fst snd] in *. subst k.
    apply andb_prop in Hx. destruct Hx as [Hx1 Hx2]. split; [apply wf_str; exact Hx1|]. eapply IH; eassumption.
  - (* union *)
    apply elab_union_inv in H. destruct H as (i & b & v' & a0 & -> & Hn & Hel & Hcase).
    cbn [wf_schema] in Hs. apply andb_prop in Hs. destruct Hs as [Hlen Hbs].
    cbn [typedn]. pose proof (nthZ_range _ _ _ Hn). split; [lia|]. exists b. split; [exact Hn|].
    rewrite forallb_forall in Hbs. eapply IH; [exact Hel|exact He|apply Hbs; eapply nthZ_In; exact Hn| |exact Ha].
    destruct Hcase as [(-> & _)|(nm & -> & _)]; [exact Hv|].
    cbn [wf_py forallb] in Hv. apply andb_prop in Hv. destruct Hv as [_ Hv].
    apply andb_prop in Hv. destruct Hv as [_ Hv]. apply andb_prop in Hv. apply Hv.
  - (* record *)
    cbn [elab] in H. destruct v; try discriminate.
    destruct ((strict o || strict_allow_default o) && has_extras kv fs); [discriminate|]. inv_w H. injection H as <-.
    apply elab_fields_inv in E. cbn [typedn]. cbn [wf_schema] in Hs. apply andb_prop in Hs. destruct Hs as [_ Hs]. apply forallb_Forall in Hs.
    cbn [floats_ok] in Ha. apply forallb_Forall in Ha.
    assert (Hg : Forall2 (fun fd a => typedn f e (ftype fd) a) fs x); [|exact Hg].
    clear - E Hs Ha IH He Hv. induction E as [|fd y fs r (v' & Harg & Hel) _ IHl]; [constructor|].
    inversion Hs as [|? ? Hs1 Hs2]; subst. inversion Ha as [|? ? Ha1 Ha2]; subst. constructor; [|apply IHl; assumption].
    apply andb_prop in Hs1. destruct Hs1 as [Hst Hsd].
    eapply IH; [exact Hel|exact He|exact Hst| |exact Ha1].
    assert (Hfd : wf_py (field_datum kv fd) = true).
    { unfold field_datum. destruct (dict_get kv (fname fd)) as [x0|] eqn:Eg; [eapply wf_dict_get; eassumption|].
      destruct (fdefault fd); [exact Hsd|reflexivity]. }
    unfold field_arg in Harg. destruct (ftype fd); try (subst v'; exact Hfd); destruct Harg as (b & _ & ->); reflexivity.
  - (* reference *)
    cbn [elab] in H. destruct (lookup e n) as [s'|] eqn:El; [|discriminate].
    apply typedn_ref. exists s'. split; [exact El|]. eapply IH; [exact H|exact He|eapply wf_lookup; eassumption|exact Hv|exact Ha].
  - cbn [elab] in H. apply typedn_annot. cbn [wf_schema] in Hs. eapply IH; eassumption.
Qed.

Theorem elab_typed f o e s v a :
  elab f o e s v = WOk a -> wf_env e = true -> wf_schema s = true -> wf_py v = true -> floats_ok a = true ->
  exists n, (n <= f)%nat /\ typedn n e s a.
Proof. intros. exists f. split; [lia|]. eapply elab_typedn; eassumption. Qed.

(** *** list positions *)
Lemma nthZ_app_cases {A} (a b : list A) : forall k d, nthZ (a ++ b) k = Some d ->
  (0 <= k < len a /\ nthZ a k = Some d) \/ (len a <= k /\ nthZ b (k - len a) = Some d).
Proof.
  induction a as [|x a IH]; intros k d H; cbn [app] in H.
  - right. change (len (@nil A)) with 0. rewrite Z.sub_0_r. split; [|exact H]. apply nthZ_range in H. lia.
  - cbn [nthZ] in H. rewrite len_cons. pose proof (len_nonneg a). cbn [nthZ].
    destruct (k =? 0) eqn:E0; [left; split; [lia|exact H]|]. destruct (k <? 0) eqn:E1; [discriminate|].
    destruct (IH _ _ H) as [[Hk Hn]|[Hk Hn]]; [left; split; [lia|exact Hn]|right; split; [lia|]].
    replace (k - (1 + len a)) with (k - 1 - len a) by lia. exact Hn.
Qed.

Lemma nthZ_app_mid {A} (a : list A) c b : nthZ (a ++ c :: b) (len a) = Some c.
Proof.
  induction a as [|x a IH]; cbn [app nthZ]; [reflexivity|]. rewrite len_cons. pose proof (len_nonneg a).
  destruct (1 + len a =? 0) eqn:E0; [lia|]. destruct (1 + len a <? 0) eqn:E1; [lia|].
  replace (1 + len a - 1) with (len a) by lia. exact IH.
Qed.

Lemma nthZ_cons_pos {A} (x : A) l k : 0 < k -> nthZ (x :: l) k = nthZ l (k - 1).
Proof. intros H. cbn [nthZ]. destruct (k =? 0) eqn:E0; [lia|]. destruct (k <? 0) eqn:E1; [lia|]. reflexivity. Qed.

Lemma nthZ_before {A} (a b : list A) k d : nthZ (a ++ b) k = Some d -> k < len a -> In d a.
Proof. intros H Hk. destruct (nthZ_app_cases _ _ _ _ H) as [[_ Hn]|[Hl _]]; [eapply nthZ_In; exact Hn|lia]. Qed.

Lemma nthZ_after {A} (a : list A) c b k d : nthZ (a ++ c :: b) k = Some d -> len a < k -> nthZ b (k - len a - 1) = Some d.
Proof.
  intros H Hk. destruct (nthZ_app_cases _ _ _ _ H) as [[Hl _]|[_ Hn]]; [lia|].
  rewrite nthZ_cons_pos in Hn by lia. exact Hn.
Qed.

(** *** the branch search of write_union: what the loop computes *)
Lemma is_double_kind e c : is_double c = true -> kind_of e c = SDouble.
Proof. unfold is_double, kind_of. destruct (strip c); try discriminate. reflexivity. Qed.

Section ChooseProofs.
  Variable val : schema -> pyval -> res bool.
  Variable e : env.
  Variable v : pyval.

  Definition pass (c : schema) : bool := hint_pass e v c.        (* not excluded by a "-type" entry of the datum *)
  Definition vrec (c : schema) : Prop :=                         (* a validating record branch the search considers *)
    pass c = true /\ val c v = Ok true /\ is_rec (kind_of e c) = true.
  Definition skipped (c : schema) : Prop :=                      (* what the loop passes over without stopping *)
    pass c = false \/ val c v = Ok false \/ vrec c.
  Definition nodbl (c : schema) : Prop := pass c = false \/ is_double c = false.
  Notation sh := (shared_of e v).

  (* after a validating float branch only a "double" branch can still win *)
  Lemma choose_cbf bs : forall i best most j, choose val e v bs i best most true = Ok j ->
    (j = best /\ Forall nodbl bs) \/
    (exists pre d post, bs = pre ++ d :: post /\ Forall nodbl pre /\ pass d = true /\ is_double d = true /\ j = i + len pre).
  Proof.
    induction bs as [|c bs IH]; intros i best most j H; cbn [choose] in H.
    - injection H as <-. left. split; [reflexivity|constructor].
    - fold (pass c) in H. destruct (pass c) eqn:Ep; cbn [negb] in H.
      + destruct (is_double c) eqn:Ed.
        * injection H as <-. right. exists [], c, bs. repeat split; [constructor|exact Ep|exact Ed|]. change (len (@nil schema)) with 0. lia.
        * destruct (IH _ _ _ _ H) as [[-> Hf]|(pre & d & post & -> & Hp & Hpd & Hd & ->)].
          -- left. split; [reflexivity|constructor; [right; exact Ed|assumption]].
          -- right. exists (c :: pre), d, post. repeat split; [constructor; [right; exact Ed|assumption]|exact Hpd|exact Hd|]. rewrite len_cons. lia.
      + destruct (IH _ _ _ _ H) as [[-> Hf]|(pre & d & post & -> & Hp & Hpd & Hd & ->)].
        * left. split; [reflexivity|constructor; [left; exact Ep|assumption]].
        * right. exists (c :: pre), d, post. repeat split; [constructor; [left; exact Ep|assumption]|exact Hpd|exact Hd|]. rewrite len_cons. lia.
  Qed.

  (* the record part of the search: best index so far / its number of shared field names *)
  Definition rec_best (bs : list schema) (i best most j : Z) : Prop :=
    (j = best /\ forall c, In c bs -> vrec c -> sh c <= most) \/
    (exists pre c post, bs = pre ++ c :: post /\ j = i + len pre /\ vrec c /\ most < sh c /\
       (forall d, In d pre -> vrec d -> sh d < sh c) /\ (forall d, In d post -> vrec d -> sh d <= sh c)).

  Lemma rec_best_cons_low c bs i best most j :
    (vrec c -> sh c <= most) -> rec_best bs (i + 1) best most j -> rec_best (c :: bs) i best most j.
  Proof.
    intros Hc [[-> Hall]|(pre & c' & post & -> & -> & Hv & Hm & Hpre & Hpost)].
    - left. split; [reflexivity|]. intros d [<-|Hd]; [exact Hc|apply Hall; exact Hd].
    - right. exists (c :: pre), c', post. rewrite len_cons. split; [reflexivity|]. split; [lia|]. split; [exact Hv|].
      split; [exact Hm|]. split; [|exact Hpost].
      intros d [<-|Hd] Hvd; [specialize (Hc Hvd); lia|apply Hpre; assumption].
  Qed.

  Lemma rec_best_cons_high c bs i best most j :
    vrec c -> most < sh c -> rec_best bs (i + 1) i (sh c) j -> rec_best (c :: bs) i best most j.
  Proof.
    intros Hvc Hm [[-> Hall]|(pre & c' & post & -> & -> & Hv & Hm' & Hpre & Hpost)]; right.
    - exists [], c, bs. change (len (@nil schema)) with 0. split; [reflexivity|]. split; [lia|]. split; [exact Hvc|].
      split; [exact Hm|]. split; [intros d []|exact Hall].
    - exists (c :: pre), c', post. rewrite len_cons. split; [reflexivity|]. split; [lia|]. split; [exact Hv|].
      split; [lia|]. split; [|exact Hpost].
      intros d [<-|Hd] Hvd; [lia|apply Hpre; assumption].
  Qed.

  Definition stop_at (bs : list schema) (i j : Z) : Prop :=
    exists pre c post, bs = pre ++ c :: post /\ Forall skipped pre /\ pass c = true /\ val c v = Ok true /\
      is_rec (kind_of e c) = false /\
      ((is_flt (kind_of e c) = false /\ j = i + len pre) \/
       (is_flt (kind_of e c) = true /\
        ((Forall nodbl post /\ j = i + len pre) \/
         (exists p2 d q2, post = p2 ++ d :: q2 /\ Forall nodbl p2 /\ pass d = true /\ is_double d = true /\
                          j = i + len pre + 1 + len p2)))).

  Lemma stop_at_cons c bs i j : skipped c -> stop_at bs (i + 1) j -> stop_at (c :: bs) i j.
  Proof.
    intros Hc (pre & c0 & post & -> & Hp & Hpc & Hv & Hr & Hcase). exists (c :: pre), c0, post. rewrite len_cons.
    split; [reflexivity|]. split; [constructor; assumption|]. split; [exact Hpc|]. split; [exact Hv|]. split; [exact Hr|].
    destruct Hcase as [[Hf ->]|[Hf [[Hn ->]|(p2 & d & q2 & -> & Hn & Hpd & Hd & ->)]]].
    - left. split; [exact Hf|lia].
    - right. split; [exact Hf|]. left. split; [exact Hn|lia].
    - right. split; [exact Hf|]. right. exists p2, d, q2. repeat split; try assumption. lia.
  Qed.

  (** the master statement: either no (considered) non-record branch validates and the result is the best record
      (or [best]), or the search stops at the first validating non-record branch -- deferring from "float" to a later
      "double".  Branches excluded by a "-type" entry of the datum are passed over. *)
  Theorem choose_spec bs : forall i best most j, choose val e v bs i best most false = Ok j ->
    (Forall skipped bs /\ rec_best bs i best most j) \/ stop_at bs i j.
  Proof.
    induction bs as [|c bs IH]; intros i best most j H; cbn [choose] in H.
    - injection H as <-. left. split; [constructor|]. left. split; [reflexivity|]. intros c [].
    - fold (pass c) in H. destruct (pass c) eqn:Ep; cbn [negb] in H.
      2:{ destruct (IH _ _ _ _ H) as [[Hs Hr]|Hst].
          - left. split; [constructor; [left; exact Ep|exact Hs]|]. apply rec_best_cons_low; [|exact Hr].
            intros [Hv _]. congruence.
          - right. apply stop_at_cons; [left; exact Ep|exact Hst]. }
      destruct (val c v) as [[|]| |] eqn:Ev; cbn [bind negb] in H; try discriminate.
      2:{ destruct (IH _ _ _ _ H) as [[Hs Hr]|Hst].
          - left. split; [constructor; [right; left; exact Ev|exact Hs]|]. apply rec_best_cons_low; [|exact Hr].
            intros (_ & Hv & _). congruence.
          - right. apply stop_at_cons; [right; left; exact Ev|exact Hst]. }
      change (match strip c with
              | SRef n => match lookup e n with Some d0 => strip d0 | None => strip c end
              | d1 => d1 end) with (kind_of e c) in H.
      destruct (kind_of e c) eqn:K;
        try (injection H as <-; right; exists [], c, bs; rewrite K; change (len (@nil schema)) with 0;
             split; [reflexivity|]; split; [constructor|]; split; [exact Ep|]; split; [exact Ev|]; split; [reflexivity|];
             left; split; [reflexivity|lia]).
      + (* float *)
        right. exists [], c, bs. rewrite K. change (len (@nil schema)) with 0.
        split; [reflexivity|]. split; [constructor|]. split; [exact Ep|]. split; [exact Ev|]. split; [reflexivity|].
        right. split; [reflexivity|].
        destruct (choose_cbf _ _ _ _ _ H) as [[-> Hf]|(p2 & d & q2 & -> & Hp & Hpd & Hd & ->)].
        * left. split; [exact Hf|lia].
        * right. exists p2, d, q2. repeat split; try assumption. lia.
      + (* record *)
        assert (Hvc : vrec c) by (split; [exact Ep|split; [exact Ev|rewrite K; reflexivity]]).
        assert (Hn : sh c = match v with PDict kv => shared_fields kv fs | _ => 0 end)
          by (unfold shared_of; rewrite K; reflexivity).
        rewrite <- Hn in H.
        destruct (most <? sh c) eqn:Em.
        * destruct (IH _ _ _ _ H) as [[Hs Hr]|Hst].
          -- left. split; [constructor; [right; right; exact Hvc|exact Hs]|]. apply rec_best_cons_high; [exact Hvc|lia|exact Hr].
          -- right. apply stop_at_cons; [right; right; exact Hvc|exact Hst].
        * destruct (IH _ _ _ _ H) as [[Hs Hr]|Hst].
          -- left. split; [constructor; [right; right; exact Hvc|exact Hs]|]. apply rec_best_cons_low; [intros _; lia|exact Hr].
          -- right. apply stop_at_cons; [right; right; exact Hvc|exact Hst].
  Qed.

  (** corollaries for the top-level call, by position *)
  Definition search (bs : list schema) : res Z := choose val e v bs 0 (-1) (-1) false.

  Lemma is_rec_not_flt s : is_rec s = true -> is_flt s = true -> False.
  Proof. destruct s; discriminate. Qed.

  Ltac mid Hn := rewrite ?Z.add_0_l in Hn; rewrite nthZ_app_mid in Hn; injection Hn as <-.
  Ltac mid2 Hn pre c0 p2 d q2 :=
    replace (pre ++ c0 :: p2 ++ d :: q2) with ((pre ++ c0 :: p2) ++ d :: q2) in Hn by (rewrite <- app_assoc; reflexivity);
    replace (0 + len pre + 1 + len p2) with (len (pre ++ c0 :: p2)) in Hn by (rewrite len_app, len_cons; lia);
    rewrite nthZ_app_mid in Hn; injection Hn as <-.

  (* the chosen branch is not excluded by a "-type" entry, and it validated -- or is the "double" the search deferred
     to from an earlier validating "float" *)
  Theorem search_valid bs j : search bs = Ok j -> 0 <= j ->
    exists c, nthZ bs j = Some c /\ pass c = true /\
      (val c v = Ok true \/
       (is_double c = true /\ exists k cf, 0 <= k < j /\ nthZ bs k = Some cf /\ val cf v = Ok true /\ is_flt (kind_of e cf) = true)).
  Proof.
    intros H Hj. destruct (choose_spec _ _ _ _ _ H) as [[_ [[-> _]|(pre & c & post & -> & -> & Hv & _)]]|Hst]; [lia| |].
    - exists c. rewrite Z.add_0_l. split; [apply nthZ_app_mid|]. split; [apply Hv|left; apply Hv].
    - destruct Hst as (pre & c & post & -> & Hp & Hpc & Hv & Hr & Hcase).
      destruct Hcase as [[Hf ->]|[Hf [[Hn ->]|(p2 & d & q2 & -> & Hn & Hpd & Hd & ->)]]].
      + exists c. rewrite Z.add_0_l. split; [apply nthZ_app_mid|]. split; [exact Hpc|left; exact Hv].
      + exists c. rewrite Z.add_0_l. split; [apply nthZ_app_mid|]. split; [exact Hpc|left; exact Hv].
      + exists d. split; [|split; [exact Hpd|]].
        * replace (pre ++ c :: p2 ++ d :: q2) with ((pre ++ c :: p2) ++ d :: q2) by (rewrite <- app_assoc; reflexivity).
          replace (0 + len pre + 1 + len p2) with (len (pre ++ c :: p2)) by (rewrite len_app, len_cons; lia). apply nthZ_app_mid.
        * right. split; [exact Hd|]. exists (len pre), c. pose proof (len_nonneg pre). pose proof (len_nonneg p2).
          repeat split; try assumption; try lia. apply nthZ_app_mid.
  Qed.

  (* among non-record branches the FIRST validating one is taken: if the chosen branch is neither a record nor a
     "double", every earlier branch was excluded by the "-type" entry, failed validation, or is a validating record *)
  Theorem search_first_nonrecord bs j c : search bs = Ok j -> nthZ bs j = Some c ->
    is_rec (kind_of e c) = false -> is_double c = false ->
    val c v = Ok true /\ forall k d, 0 <= k < j -> nthZ bs k = Some d -> skipped d.
  Proof.
    intros H Hn Hr Hd. pose proof (nthZ_range _ _ _ Hn) as Hj.
    destruct (choose_spec _ _ _ _ _ H) as [[_ [[-> _]|(pre & c0 & post & -> & -> & Hv & _)]]|Hst]; [lia| |].
    - mid Hn. destruct Hv as (_ & _ & Hv). congruence.
    - destruct Hst as (pre & c0 & post & -> & Hp & Hpc & Hv & Hr0 & Hcase).
      assert (Hfirst : j = 0 + len pre -> val c v = Ok true /\ forall k d, 0 <= k < j -> nthZ (pre ++ c0 :: post) k = Some d -> skipped d).
      { intros ->. mid Hn. split; [exact Hv|].
        intros k d Hk Hkd. rewrite Forall_forall in Hp. apply Hp. eapply nthZ_before; [exact Hkd|lia]. }
      destruct Hcase as [[Hf Hjj]|[Hf [[Hnn Hjj]|(p2 & d & q2 & -> & Hnn & Hpd & Hdd & ->)]]]; try (apply Hfirst; exact Hjj).
      exfalso. mid2 Hn pre c0 p2 d q2. congruence.
  Qed.

  (* "float" is only taken when no (considered) "double" branch follows it *)
  Theorem search_float_last bs j c : search bs = Ok j -> nthZ bs j = Some c -> is_flt (kind_of e c) = true ->
    forall k d, j < k -> nthZ bs k = Some d -> nodbl d.
  Proof.
    intros H Hn Hf k d Hk Hkd. pose proof (nthZ_range _ _ _ Hn) as Hj.
    destruct (choose_spec _ _ _ _ _ H) as [[_ [[-> _]|(pre & c0 & post & -> & -> & Hv & _)]]|Hst]; [lia| |].
    - mid Hn. destruct Hv as (_ & _ & Hv). exfalso. eapply is_rec_not_flt; eassumption.
    - destruct Hst as (pre & c0 & post & -> & Hp & Hpc & Hv & Hr0 & Hcase).
      destruct Hcase as [[Hf0 ->]|[Hf0 [[Hnn ->]|(p2 & d0 & q2 & -> & Hnn & Hpd & Hdd & ->)]]].
      + mid Hn. congruence.
      + rewrite Z.add_0_l in *. rewrite nthZ_app_mid in Hn. injection Hn as <-.
        apply nthZ_after in Hkd; [|lia]. rewrite Forall_forall in Hnn. apply Hnn. eapply nthZ_In. exact Hkd.
      + exfalso. mid2 Hn pre c0 p2 d0 q2. rewrite (is_double_kind _ _ Hdd) in Hf. discriminate.
  Qed.

  (* a chosen "double" branch is either itself the first validating non-record branch, or the first "double" after
     the first validating non-record branch, which is a "float" *)
  Theorem search_double bs j c : search bs = Ok j -> nthZ bs j = Some c -> is_double c = true ->
    (val c v = Ok true /\ forall k d, 0 <= k < j -> nthZ bs k = Some d -> skipped d) \/
    (exists k cf, 0 <= k < j /\ nthZ bs k = Some cf /\ val cf v = Ok true /\ is_flt (kind_of e cf) = true /\
       (forall m d, 0 <= m < k -> nthZ bs m = Some d -> skipped d) /\
       (forall m d, k < m < j -> nthZ bs m = Some d -> nodbl d)).
  Proof.
    intros H Hn Hd. pose proof (nthZ_range _ _ _ Hn) as Hj.
    destruct (choose_spec _ _ _ _ _ H) as [[_ [[-> _]|(pre & c0 & post & -> & -> & Hv & _)]]|Hst]; [lia| |].
    - mid Hn. destruct Hv as (_ & _ & Hv). rewrite (is_double_kind _ _ Hd) in Hv. discriminate.
    - destruct Hst as (pre & c0 & post & -> & Hp & Hpc & Hv & Hr0 & Hcase).
      assert (Hfirst : j = 0 + len pre -> val c v = Ok true /\ forall k d, 0 <= k < j -> nthZ (pre ++ c0 :: post) k = Some d -> skipped d).
      { intros ->. mid Hn. split; [exact Hv|].
        intros k d Hk Hkd. rewrite Forall_forall in Hp. apply Hp. eapply nthZ_before; [exact Hkd|lia]. }
      destruct Hcase as [[Hf Hjj]|[Hf [[Hnn Hjj]|(p2 & d & q2 & -> & Hnn & Hpd & Hdd & ->)]]]; try (left; apply Hfirst; exact Hjj).
      right. exists (len pre), c0. pose proof (len_nonneg pre). pose proof (len_nonneg p2).
      split; [lia|]. split; [apply nthZ_app_mid|]. split; [exact Hv|]. split; [exact Hf|]. split.
      + intros m d0 Hm Hmd. rewrite Forall_forall in Hp. apply Hp. eapply nthZ_before; [exact Hmd|lia].
      + intros m d0 Hm Hmd. apply nthZ_after in Hmd; [|lia].
        rewrite Forall_forall in Hnn. apply Hnn. eapply nthZ_before; [exact Hmd|lia].
  Qed.

  (* among (considered) validating record branches the chosen one shares the most field names with the datum, first
     on ties (and a record is only chosen when no considered non-record branch validates) *)
  Theorem search_most_fields bs j c : search bs = Ok j -> nthZ bs j = Some c -> is_rec (kind_of e c) = true ->
    val c v = Ok true /\ Forall skipped bs /\
    forall k d, nthZ bs k = Some d -> vrec d -> sh d <= sh c /\ (k < j -> sh d < sh c).
  Proof.
    intros H Hn Hr. pose proof (nthZ_range _ _ _ Hn) as Hj.
    destruct (choose_spec _ _ _ _ _ H) as [[Hsk [[-> _]|(pre & c0 & post & -> & -> & Hv & Hm & Hpre & Hpost)]]|Hst]; [lia| |].
    - rewrite Z.add_0_l in *. rewrite nthZ_app_mid in Hn. injection Hn as <-.
      split; [apply Hv|]. split; [exact Hsk|]. intros k d Hkd Hvd.
      destruct (nthZ_app_cases _ _ _ _ Hkd) as [[Hk Hin]|[Hk Hin]].
      + apply nthZ_In in Hin. specialize (Hpre _ Hin Hvd). lia.
      + destruct (Z.eq_dec k (len pre)) as [->|Hne].
        * rewrite Z.sub_diag in Hin. injection Hin as <-. lia.
        * rewrite nthZ_cons_pos in Hin by lia. apply nthZ_In in Hin. specialize (Hpost _ Hin Hvd). lia.
    - exfalso. destruct Hst as (pre & c0 & post & -> & Hp & Hpc & Hv & Hr0 & Hcase).
      destruct Hcase as [[Hf ->]|[Hf [[Hnn ->]|(p2 & d & q2 & -> & Hnn & Hpd & Hdd & ->)]]].
      + mid Hn. congruence.
      + mid Hn. congruence.
      + mid2 Hn pre c0 p2 d q2. rewrite (is_double_kind _ _ Hdd) in Hr. discriminate.
  Qed.

  (* no considered branch validates: the search reports -1 (the writer raises) *)
  Theorem search_none bs : search bs = Ok (-1) -> Forall (fun c => pass c = false \/ val c v = Ok false) bs.
  Proof.
    intros H. destruct (choose_spec _ _ _ _ _ H) as [[Hsk [[_ Hall]|(pre & c0 & post & -> & Hj & _)]]|Hst].
    - apply Forall_forall. intros c Hc. rewrite Forall_forall in Hsk. destruct (Hsk c Hc) as [Hf|[Hf|Hv]]; [left; exact Hf|right; exact Hf|].
      specialize (Hall c Hc Hv). exfalso. unfold shared_of in Hall. clear - Hall.
      destruct (kind_of e c); try lia. destruct v; try lia. unfold shared_fields in Hall.
      pose proof (len_nonneg (filter (key_in kv) (dedup (field_names fs)))). lia.
    - pose proof (len_nonneg pre). lia.
    - destruct Hst as (pre & c0 & post & -> & _ & _ & _ & _ & Hcase). pose proof (len_nonneg pre).
      destruct Hcase as [[_ Hj]|[_ [[_ Hj]|(p2 & d & q2 & _ & _ & _ & _ & Hj)]]]; try lia. pose proof (len_nonneg p2). lia.
  Qed.

  (* a "-type" entry selects exactly a record branch of that full name *)
  Lemma pass_hint c h : type_hint v = Some h -> pass c = true -> exists n al fs, kind_of e c = SRecord n al fs /\ h = PStr n.
  Proof.
    unfold pass, hint_pass. intros -> H.
    change (match strip c with
            | SRef n => match lookup e n with Some d0 => strip d0 | None => strip c end
            | d1 => d1 end) with (kind_of e c) in H.
    destruct (kind_of e c); try discriminate. destruct h; try discriminate. apply beqb_eq in H. subst. eauto.
  Qed.
End ChooseProofs.

(** *** C09 at the level of the writer *)
Lemma double_validates : forall f o e c v a, is_double c = true -> elab f o e c v = WOk a -> validate f o e c (Some v) = Ok true.
Proof.
  induction f as [|f IH]; intros o e c v a Hd H; [discriminate|].
  destruct c; try discriminate Hd.
  - cbn [elab] in H. cbn [validate]. destruct v; try discriminate; reflexivity.
  - cbn [elab] in H. cbn [validate]. unfold is_double in *. cbn [strip] in Hd. eapply IH; eassumption.
Qed.

(* without a hint the writer picks a branch the datum validates against (hence conforms to) and writes the datum under it *)
Theorem union_conforming f o e bs v i a :
  elab (S f) o e (SUnion bs) v = WOk (AUnion i a) -> ~ hinted_by o v ->
  exists b, nthZ bs i = Some b /\ elab f o e b v = WOk a /\ validate f o e b (Some v) = Ok true /\ conformsP o e b v.
Proof.
  intros H Hnh. apply elab_union_inv in H. destruct H as (i' & b & v' & a0 & Heq & Hn & Hel & Hcase).
  injection Heq as <- <-.
  destruct Hcase as [(-> & _ & Hc)|(nm & -> & Hd & _)].
  2:{ exfalso. apply Hnh. eexists. split; [reflexivity|exact Hd]. }
  exists b. split; [exact Hn|]. split; [exact Hel|].
  assert (Hv : validate f o e b (Some v) = Ok true).
  { pose proof (nthZ_range _ _ _ Hn) as Hi.
    destruct (search_valid _ e v bs i Hc ltac:(lia)) as (c & Hnc & _ & Hcase). rewrite Hn in Hnc. injection Hnc as <-.
    destruct Hcase as [Hv|[Hd _]]; [exact Hv|]. eapply double_validates; eassumption. }
  split; [exact Hv|]. exists f. exact (validate_sound _ _ _ _ _ Hv).
Qed.

Lemma find_named_spec nm bs : forall i0,
  match find_named nm bs i0 with
  | Some i => exists pre b post, bs = pre ++ b :: post /\ i = i0 + len pre /\ branch_name b = nm /\
                Forall (fun c => branch_name c <> nm) pre
  | None => Forall (fun c => branch_name c <> nm) bs
  end.
Proof.
  induction bs as [|b bs IH]; intros i0; cbn [find_named]; [constructor|].
  destruct (bytes_eqb (branch_name b) nm) eqn:E.
  - exists [], b, bs. change (len (@nil schema)) with 0. repeat split; [lia|apply beqb_eq; exact E|constructor].
  - assert (Hne : branch_name b <> nm) by (intros Heq; rewrite Heq, beqb_refl in E; discriminate).
    specialize (IH (i0 + 1)). destruct (find_named nm bs (i0 + 1)) as [i|].
    + destruct IH as (pre & c & post & -> & -> & Hc & Hp). exists (b :: pre), c, post. rewrite len_cons.
      repeat split; [lia|exact Hc|constructor; assumption].
    + constructor; assumption.
Qed.

(* (name, value) notation: the FIRST branch answering to the name is written, whatever the value; no such branch: error *)
Theorem union_tuple_hint f o e bs nm x : disable_tuple o = false ->
  elab (S f) o e (SUnion bs) (PTuple [PStr nm; x]) =
    match find_named nm bs 0 with
    | Some i => match nthZ bs i with
                | Some b => let+ a := elab f o e b x in WOk (AUnion i a)
                | None => WErr end
    | None => WErr
    end
  /\ (forall i, find_named nm bs 0 = Some i ->
        exists b, nthZ bs i = Some b /\ branch_name b = nm /\
                  forall k c, 0 <= k < i -> nthZ bs k = Some c -> branch_name c <> nm)
  /\ (find_named nm bs 0 = None -> forall k c, nthZ bs k = Some c -> branch_name c <> nm).
Proof.
  intros Hd. split; [|split].
  - rewrite elab_union_eq, Hd. reflexivity.
  - intros i Hi. pose proof (find_named_spec nm bs 0) as Hs. rewrite Hi in Hs.
    destruct Hs as (pre & b & post & -> & -> & Hb & Hp). exists b. rewrite Z.add_0_l.
    split; [apply nthZ_app_mid|]. split; [exact Hb|]. intros k c Hk Hkc. rewrite Forall_forall in Hp. apply Hp.
    eapply nthZ_before; [exact Hkc|lia].
  - intros Hn k c Hkc. pose proof (find_named_spec nm bs 0) as Hs. rewrite Hn in Hs. rewrite Forall_forall in Hs.
    apply Hs. eapply nthZ_In. exact Hkc.
Qed.

Lemma validate_strip o e : forall b f v r, validate f o e b (Some v) = Ok r -> exists f', validate f' o e (strip b) (Some v) = Ok r.
Proof.
  induction b; intros f v r H; try (exists f; exact H).
  destruct f as [|f]; [discriminate|]. cbn [validate] in H. cbn [strip]. eapply IHb. exact H.
Qed.

(* a "-type" entry is only accepted by the record branch of that full name (directly or through a reference) *)
Theorem type_hint_selects f o e b kv n al fs t :
  validate f o e b (Some (PDict kv)) = Ok true -> kind_of e b = SRecord n al fs ->
  dict_get kv (s2b "-type") = Some t -> t = PStr n.
Proof.
  intros H K Ht.
  assert (Hrec : forall f0 n0 al0 fs0, validate f0 o e (SRecord n0 al0 fs0) (Some (PDict kv)) = Ok true -> t = PStr n0).
  { intros f0 n0 al0 fs0 H0. apply validate_sound in H0. destruct f0 as [|f0]; [destruct H0|].
    cbn [conforms_opt conforms] in H0. destruct H0 as (kv' & Hkv & Hh & _). injection Hkv as <-.
    unfold type_hint_ok in Hh. rewrite Ht in Hh. exact Hh. }
  destruct (validate_strip _ _ _ _ _ _ H) as (f1 & H1). unfold kind_of in K.
  destruct (strip b) eqn:Es; try discriminate K.
  - injection K as <- <- <-. eapply Hrec. exact H1.
  - destruct f1 as [|f1]; [discriminate|]. cbn [validate] in H1. destruct (lookup e n0) as [d|]; [|discriminate].
    destruct (validate_strip _ _ _ _ _ _ H1) as (f2 & H2). rewrite K in H2. eapply Hrec. exact H2.
Qed.

(* determinism: the choice is a function of (options, named schemas, union, datum) *)
Theorem union_choice_function f o e bs v a a' :
  elab f o e (SUnion bs) v = WOk a -> elab f o e (SUnion bs) v = WOk a' -> a = a'.
Proof. intros H H'. rewrite H in H'. injection H' as <-. reflexivity. Qed.

(** the search theorems, stated for the writer: [vval f o e] is the validator call of write_union *)
Definition vval f o e : schema -> pyval -> res bool := fun c x => validate f o e c (Some x).

Lemma union_search_of_elab f o e bs v i a :
  elab (S f) o e (SUnion bs) v = WOk (AUnion i a) -> ~ hinted_by o v -> search (vval f o e) e v bs = Ok i.
Proof.
  intros H Hnh. apply elab_union_inv in H. destruct H as (i' & b & v' & a0 & Heq & Hn & Hel & Hcase).
  injection Heq as <- <-. destruct Hcase as [(_ & _ & Hc)|(nm & -> & Hd & _)]; [exact Hc|].
  exfalso. apply Hnh. eexists. split; [reflexivity|exact Hd].
Qed.

Definition passed_over f o e v (d : schema) : Prop :=     (* excluded by "-type", failed validation, or a validating record *)
  hint_pass e v d = false \/ validate f o e d (Some v) = Ok false \/
  (hint_pass e v d = true /\ validate f o e d (Some v) = Ok true /\ is_rec (kind_of e d) = true).

Theorem union_first_nonrecord f o e bs v i a c :
  elab (S f) o e (SUnion bs) v = WOk (AUnion i a) -> ~ hinted_by o v -> nthZ bs i = Some c ->
  is_rec (kind_of e c) = false -> is_double c = false ->
  validate f o e c (Some v) = Ok true /\
  forall k d, 0 <= k < i -> nthZ bs k = Some d -> passed_over f o e v d.
Proof. intros H Hnh. exact (search_first_nonrecord (vval f o e) e v bs i c (union_search_of_elab _ _ _ _ _ _ _ H Hnh)). Qed.

Theorem union_float_last f o e bs v i a c :
  elab (S f) o e (SUnion bs) v = WOk (AUnion i a) -> ~ hinted_by o v -> nthZ bs i = Some c ->
  is_flt (kind_of e c) = true -> forall k d, i < k -> nthZ bs k = Some d -> hint_pass e v d = false \/ is_double d = false.
Proof. intros H Hnh. exact (search_float_last (vval f o e) e v bs i c (union_search_of_elab _ _ _ _ _ _ _ H Hnh)). Qed.

Theorem union_double f o e bs v i a c :
  elab (S f) o e (SUnion bs) v = WOk (AUnion i a) -> ~ hinted_by o v -> nthZ bs i = Some c -> is_double c = true ->
  (validate f o e c (Some v) = Ok true /\
   forall k d, 0 <= k < i -> nthZ bs k = Some d -> passed_over f o e v d) \/
  (exists k cf, 0 <= k < i /\ nthZ bs k = Some cf /\ validate f o e cf (Some v) = Ok true /\ is_flt (kind_of e cf) = true /\
     (forall m d, 0 <= m < k -> nthZ bs m = Some d -> passed_over f o e v d) /\
     (forall m d, k < m < i -> nthZ bs m = Some d -> hint_pass e v d = false \/ is_double d = false)).
Proof. intros H Hnh. exact (search_double (vval f o e) e v bs i c (union_search_of_elab _ _ _ _ _ _ _ H Hnh)). Qed.

Theorem union_most_fields f o e bs v i a c :
  elab (S f) o e (SUnion bs) v = WOk (AUnion i a) -> ~ hinted_by o v -> nthZ bs i = Some c ->
  is_rec (kind_of e c) = true ->
  validate f o e c (Some v) = Ok true /\
  Forall (passed_over f o e v) bs /\
  forall k d, nthZ bs k = Some d ->
    hint_pass e v d = true /\ validate f o e d (Some v) = Ok true /\ is_rec (kind_of e d) = true ->
    shared_of e v d <= shared_of e v c /\ (k < i -> shared_of e v d < shared_of e v c).
Proof. intros H Hnh. exact (search_most_fields (vval f o e) e v bs i c (union_search_of_elab _ _ _ _ _ _ _ H Hnh)). Qed.

(* a "-type" entry (other than None) in the datum: the branch written is a record of exactly that full name *)
Theorem union_type_hint f o e bs v i a c h :
  elab (S f) o e (SUnion bs) v = WOk (AUnion i a) -> ~ hinted_by o v -> type_hint v = Some h -> nthZ bs i = Some c ->
  exists n al fs, kind_of e c = SRecord n al fs /\ h = PStr n.
Proof.
  intros H Hnh Hh Hn. pose proof (union_search_of_elab _ _ _ _ _ _ _ H Hnh) as Hs. pose proof (nthZ_range _ _ _ Hn) as Hi.
  destruct (search_valid _ e v bs i Hs ltac:(lia)) as (c' & Hnc & Hp & _). rewrite Hn in Hnc. injection Hnc as <-.
  eapply pass_hint; eassumption.
Qed.

(* when no branch is both considered and validating the writer raises; in particular when a "-type" entry names no
   record branch of the union *)
Theorem union_no_branch f o e bs v :
  ~ hinted_by o v -> Forall (fun c => hint_pass e v c = false \/ validate f o e c (Some v) = Ok false) bs ->
  elab (S f) o e (SUnion bs) v = WErr.
Proof.
  intros Hnh Hall.
  assert (Hc : forall i best most, choose (vval f o e) e v bs i best most false = Ok best).
  { induction Hall as [|c bs Hc _ IH]; intros i best most; cbn [choose]; [reflexivity|].
    destruct (hint_pass e v c) eqn:Ep; cbn [negb]; [|apply IH].
    destruct Hc as [Hc|Hc]; [discriminate|]. unfold vval at 1. rewrite Hc. cbn [bind negb]. apply IH. }
  assert (Hs : union_search f o e bs v = WErr).
  { unfold union_search. fold (vval f o e). rewrite Hc. reflexivity. }
  rewrite elab_union_eq. destruct v; try exact Hs. destruct (disable_tuple o) eqn:Ed; [exact Hs|].
  exfalso. apply Hnh. eexists. split; [reflexivity|exact Ed].
Qed.

(** *** Writer.write with validator=True: the record is validated (raising mode) before anything is encoded *)
Definition writer_write (validator : bool) f o e s (buf : bytes) (v : pyval) : wres bytes :=
  if validator then
    match validate_raise f o e s (Some v) with
    | VTrue => let+ bs := write f o e s v in WOk (buf ++ bs)
    | VRaised | VErr => WErr              (* the exception leaves [buf] as it was *)
    | VFuel => WFuel
    end
  else let+ bs := write f o e s v in WOk (buf ++ bs).

Theorem writer_gate f o e s buf v : validate f o e s (Some v) = Ok false -> writer_write true f o e s buf v = WErr.
Proof. intros H. unfold writer_write. apply validate_raise_iff in H. rewrite H. reflexivity. Qed.

(** *** C10: what validate accepts the (default) writer encodes -- under the side condition [wdom] *)
Definition ev_elab o e s v : Prop := exists f0, forall f', (f0 <= f')%nat -> exists a, elab f' o e s v = WOk a.

Lemma ev_now o e s v (f0 : nat) : (forall f', (f0 <= f')%nat -> exists a, elab f' o e s v = WOk a) -> ev_elab o e s v.
Proof. intros H. exists f0. exact H. Qed.

Lemma elab_items_ev o e it l : Forall (ev_elab o e it) l ->
  exists f0, forall f', (f0 <= f')%nat -> exists r, elab_items (elab f' o e) it l = WOk r.
Proof.
  induction 1 as [|x l [fx Hx] _ [fl Hl]].
  - exists O. intros f' _. exists []. reflexivity.
  - exists (Nat.max fx fl). intros f' Hf. destruct (Hx f' ltac:(lia)) as [a Ha]. destruct (Hl f' ltac:(lia)) as [r Hr].
    exists (a :: r). cbn [elab_items]. rewrite Ha. cbn [wbind]. rewrite Hr. reflexivity.
Qed.

Lemma elab_map_ev o e vs kv : Forall (fun p => (exists k, fst p = PStr k) /\ ev_elab o e vs (snd p)) kv ->
  exists f0, forall f', (f0 <= f')%nat -> exists r, elab_map (elab f' o e) vs kv = WOk r.
Proof.
  induction 1 as [|[k x] l [[k' Hk] [fx Hx]] _ [fl Hl]].
  - exists O. intros f' _. exists []. reflexivity.
  - cbn [fst snd] in *. subst k. exists (Nat.max fx fl). intros f' Hf.
    destruct (Hx f' ltac:(lia)) as [a Ha]. destruct (Hl f' ltac:(lia)) as [r Hr].
    exists ((k', a) :: r). cbn [elab_map]. rewrite Ha. cbn [wbind]. rewrite Hr. reflexivity.
Qed.

(* float(datum_value) for fields spelled "float" / "double" *)
Definition fconv (t : schema) (v : pyval) : wres pyval :=
  match t with
  | SFloat | SDouble => let+ b := to_double v in WOk (PFloat b)
  | _ => WOk v
  end.

Definition field_ready o e (kv : list (pyval * pyval)) (fd : field) : Prop :=
  (key_in kv (fname fd) = false -> fdefault fd = None -> nullok (ftype fd) = true) /\
  exists v', fconv (ftype fd) (field_datum kv fd) = WOk v' /\ ev_elab o e (ftype fd) v'.

Lemma elab_fields_ev o e kv fs : strict o = false -> strict_allow_default o = false ->
  Forall (field_ready o e kv) fs ->
  exists f0, forall f', (f0 <= f')%nat -> exists r, elab_fields (elab f' o e) o kv fs = WOk r.
Proof.
  intros Hs Hsd. induction 1 as [|fd l [Hnull (v' & Hc & [fx Hx])] _ [fl Hl]].
  - exists O. intros f' _. exists []. reflexivity.
  - exists (Nat.max fx fl). intros f' Hf. destruct (Hx f' ltac:(lia)) as [a Ha]. destruct (Hl f' ltac:(lia)) as [r Hr].
    exists (a :: r). cbn [elab_fields]. rewrite Hs, Hsd. cbn [orb andb]. rewrite andb_false_r. cbn [andb].
    assert (Hg : negb (key_in kv (fname fd)) && negb match fdefault fd with Some _ => true | None => false end
                 && negb (nullok (ftype fd)) = false).
    { destruct (key_in kv (fname fd)) eqn:Ek; [reflexivity|]. destruct (fdefault fd) eqn:Ed; [reflexivity|].
      rewrite (Hnull eq_refl eq_refl). reflexivity. }
    rewrite Hg. fold (field_datum kv fd). fold (fconv (ftype fd) (field_datum kv fd)). rewrite Hc. cbn [wbind].
    rewrite Ha. cbn [wbind]. rewrite Hr. reflexivity.
Qed.

Lemma elab_array_eq f o e it v l : as_sequence v = Some l ->
  elab (S f) o e (SArray it) v = let+ r := elab_items (elab f o e) it l in WOk (AArray r).
Proof. destruct v; cbn [as_sequence]; intros H; try discriminate; injection H as <-; reflexivity. Qed.

(* the search never fails when the validator answers on every branch, and its result is an index or [best] *)
Section ChooseTotal.
  Variables (val1 val2 : schema -> pyval -> res bool) (e : env) (v : pyval).

  Lemma choose_ext bs : (forall c, In c bs -> val1 c v = val2 c v) ->
    forall i best most cbf, choose val1 e v bs i best most cbf = choose val2 e v bs i best most cbf.
  Proof.
    induction bs as [|c bs IH]; intros Hv i best most cbf; cbn [choose]; [reflexivity|].
    assert (IH' := IH (fun c0 H0 => Hv c0 (or_intror H0))).
    destruct (hint_pass e v c); cbn [negb]; [|apply IH'].
    destruct cbf; [destruct (is_double c); [reflexivity|apply IH']|].
    rewrite (Hv c (or_introl eq_refl)). destruct (val2 c v) as [[|]| |]; cbn [bind negb]; try reflexivity; [|apply IH'].
    destruct (match strip c with SRef n => match lookup e n with Some d => strip d | None => strip c end | d => d end);
      try reflexivity; try apply IH'.
    destruct (most <? _); apply IH'.
  Qed.

End ChooseTotal.

Section ChooseTotal2.
  Variables (val1 : schema -> pyval -> res bool) (e : env) (v : pyval).

  Lemma choose_total bs : (forall c, In c bs -> exists b, val1 c v = Ok b) ->
    forall i best most cbf, exists j, choose val1 e v bs i best most cbf = Ok j /\ (j = best \/ i <= j < i + len bs).
  Proof.
    induction bs as [|c bs IH]; intros Hv i best most cbf; cbn [choose].
    - exists best. split; [reflexivity|left; reflexivity].
    - assert (IH' := IH (fun c0 H0 => Hv c0 (or_intror H0))). rewrite len_cons. pose proof (len_nonneg bs).
      assert (Hstep : forall best' most' cbf', exists j, choose val1 e v bs (i + 1) best' most' cbf' = Ok j /\
                        (j = best' \/ i <= j < i + (1 + len bs))).
      { intros b' m' c'. destruct (IH' (i + 1) b' m' c') as (j & Hj & Hr). exists j. split; [exact Hj|]. lia. }
      assert (Hhere : forall most' cbf', exists j, choose val1 e v bs (i + 1) i most' cbf' = Ok j /\
                        (j = best \/ i <= j < i + (1 + len bs))).
      { intros m' c'. destruct (IH' (i + 1) i m' c') as (j & Hj & Hr). exists j. split; [exact Hj|]. lia. }
      destruct (hint_pass e v c); cbn [negb]; [|apply Hstep].
      destruct cbf.
      + destruct (is_double c); [exists i; split; [reflexivity|lia]|apply Hstep].
      + destruct (Hv c (or_introl eq_refl)) as [b Hb]. rewrite Hb. cbn [bind]. destruct b; cbn [negb]; [|apply Hstep].
        destruct (match strip c with SRef n => match lookup e n with Some d => strip d | None => strip c end | d => d end);
          try (exists i; split; [reflexivity|lia]).
        * apply (Hhere most true).
        * destruct (most <? _); [apply (Hhere _ false)|apply Hstep].
  Qed.
End ChooseTotal2.

Lemma nthZ_some {A} (l : list A) : forall i, 0 <= i < len l -> exists x, nthZ l i = Some x.
Proof.
  induction l as [|a l IH]; intros i Hi; [change (len (@nil A)) with 0 in Hi; lia|]. rewrite len_cons in Hi. cbn [nthZ].
  destruct (i =? 0) eqn:E0; [eexists; reflexivity|]. destruct (i <? 0) eqn:E1; [lia|]. apply IH. lia.
Qed.

Lemma find_first_named nm bs : forall i0,
  match find_named nm bs i0 with
  | Some i => exists b, first_named nm bs = Some b /\ nthZ bs (i - i0) = Some b
  | None => first_named nm bs = None
  end.
Proof.
  induction bs as [|b bs IH]; intros i0; cbn [find_named first_named]; [reflexivity|].
  destruct (bytes_eqb (branch_name b) nm).
  - exists b. split; [reflexivity|]. rewrite Z.sub_diag. reflexivity.
  - specialize (IH (i0 + 1)). destruct (find_named nm bs (i0 + 1)) as [i|] eqn:Ef; [|exact IH].
    destruct IH as (c & Hc & Hn). exists c. split; [exact Hc|].
    pose proof (find_named_spec nm bs (i0 + 1)) as Hs. rewrite Ef in Hs. destruct Hs as (pre & ? & ? & _ & Hi & _).
    pose proof (len_nonneg pre). rewrite nthZ_cons_pos by lia. replace (i - i0 - 1) with (i - (i0 + 1)) by lia. exact Hn.
Qed.

Lemma number_of_float_kind f o e cf v : validate f o e cf (Some v) = Ok true -> is_flt (kind_of e cf) = true ->
  (exists z, v = PInt z) \/ (exists b, v = PFloat b).
Proof.
  intros H K.
  assert (Hflt : forall f0, validate f0 o e SFloat (Some v) = Ok true -> (exists z, v = PInt z) \/ (exists b, v = PFloat b)).
  { intros [|f0] H0; [discriminate|]. cbn [validate] in H0. destruct v; try discriminate; [left|right]; eexists; reflexivity. }
  destruct (validate_strip _ _ _ _ _ _ H) as (f1 & H1). unfold kind_of in K.
  destruct (strip cf) eqn:Es; try discriminate K.
  - eapply Hflt. exact H1.
  - destruct f1 as [|f1]; [discriminate|]. cbn [validate] in H1. destruct (lookup e n) as [d|]; [|discriminate].
    destruct (validate_strip _ _ _ _ _ _ H1) as (f2 & H2). destruct (strip d); try discriminate K. eapply Hflt. exact H2.
Qed.

Lemma double_accepts_numbers o e : forall c f v b, is_double c = true ->
  ((exists z, v = PInt z) \/ (exists x, v = PFloat x)) -> validate f o e c (Some v) = Ok b -> b = true.
Proof.
  induction c; intros f v b Hd Hv H; try discriminate Hd.
  - destruct f as [|f]; [discriminate|]. cbn [validate] in H. destruct Hv as [[z ->]|[x ->]]; injection H as <-; reflexivity.
  - destruct f as [|f]; [discriminate|]. cbn [validate] in H. unfold is_double in *. cbn [strip] in Hd. eapply IHc; eassumption.
Qed.

Lemma bytes_eqb_sym a : forall b, bytes_eqb a b = bytes_eqb b a.
Proof. induction a as [|x a IH]; intros [|y b]; cbn [bytes_eqb]; try reflexivity. rewrite Z.eqb_sym, IH. reflexivity. Qed.

Lemma index_of_some x syms : existsb (bytes_eqb x) syms = true -> forall i0, exists i, index_of syms x i0 = Some i.
Proof.
  induction syms as [|s syms IH]; cbn [existsb index_of]; intros H i0; [discriminate|].
  rewrite (bytes_eqb_sym s x). destruct (bytes_eqb x s); [eexists; reflexivity|]. apply IH. exact H.
Qed.

Definition default_writer (o : wopts) : Prop := strict o = false /\ strict_allow_default o = false.

Theorem writer_accepts : forall n o e s v f, default_writer o ->
  wdom n o e s v -> validate f o e s (Some v) = Ok true -> ev_elab o e s v.
Proof.
  induction n as [|n IH]; intros o e s v f Ho Hd Hv; [destruct Hd|].
  destruct f as [|f]; [discriminate|]. cbn [validate] in Hv.
  assert (Hleaf : forall a, (forall f', elab (S f') o e s v = WOk a) -> ev_elab o e s v).
  { intros a Ha. exists 1%nat. intros [|f'] Hf; [lia|]. exists a. apply Ha. }
  destruct s.
  - destruct v; try discriminate. apply (Hleaf ANull). reflexivity.
  - destruct v; try discriminate. apply (Hleaf (ABool b)). reflexivity.
  - destruct v; try discriminate. injection Hv as Hv. apply (Hleaf (AInt z)). intros f'. cbn [elab]. rewrite Hv. reflexivity.
  - destruct v; try discriminate. injection Hv as Hv. apply (Hleaf (AInt z)). intros f'. cbn [elab]. rewrite Hv. reflexivity.
  - (* float *)
    destruct Hd as [Hdb Hfl].
    assert (Hb : exists b, to_double v = WOk b).
    { destruct v; try discriminate; [|eexists; reflexivity]. destruct (Hdb z eq_refl) as [d Hz]. exists d. cbn [to_double]. rewrite Hz. reflexivity. }
    destruct Hb as [b Hb]. destruct (Hfl b Hb) as [x Hx]. apply (Hleaf (AFloat x)). intros f'. cbn [elab].
    destruct v; try discriminate; rewrite Hb; cbn [wbind]; rewrite Hx; reflexivity.
  - (* double *)
    assert (Hb : exists b, to_double v = WOk b).
    { destruct v; try discriminate; [|eexists; reflexivity]. destruct (Hd z eq_refl) as [d Hz]. exists d. cbn [to_double]. rewrite Hz. reflexivity. }
    destruct Hb as [b Hb]. apply (Hleaf (ADouble b)). intros f'. cbn [elab]. destruct v; try discriminate; rewrite Hb; reflexivity.
  - destruct v; try discriminate; [apply (Hleaf (ABytes b))|apply (Hleaf (ABytes b))]; reflexivity.
  - destruct v; try discriminate. apply (Hleaf (AString s)). reflexivity.
  - destruct v; try discriminate. injection Hv as Hv. apply (Hleaf (AFixed b)). intros f'. cbn [elab]. rewrite Hv. reflexivity.
  - destruct v; try discriminate. injection Hv as Hv. destruct (index_of_some _ _ Hv 0) as [i Hi].
    apply (Hleaf (AEnum i)). intros f'. cbn [elab]. rewrite Hi. reflexivity.
  - (* array *)
    destruct (as_sequence v) as [l|] eqn:Es; [|discriminate]. apply all_items_true in Hv.
    cbn [wdom] in Hd. specialize (Hd l (proj1 (as_sequence_items v l) Es)).
    assert (Hev : Forall (ev_elab o e s) l).
    { rewrite Forall_forall in *. intros x Hx. eapply IH; [exact Ho|apply Hd; exact Hx|apply Hv; exact Hx]. }
    destruct (elab_items_ev _ _ _ _ Hev) as [f0 Hf0]. exists (S f0). intros [|f'] Hf; [lia|].
    destruct (Hf0 f' ltac:(lia)) as [r Hr]. exists (AArray r). rewrite (elab_array_eq _ _ _ _ _ _ Es), Hr. reflexivity.
  - (* map *)
    destruct v; try discriminate. destruct (forallb is_str_key kv) eqn:Ek; [|discriminate]. apply all_items_true in Hv.
    cbn [wdom] in Hd. specialize (Hd kv eq_refl). rewrite forallb_forall in Ek.
    assert (Hev : Forall (fun p => (exists k, fst p = PStr k) /\ ev_elab o e s (snd p)) kv).
    { rewrite Forall_forall in *. intros p Hp. split.
      - specialize (Ek p Hp). unfold is_str_key in Ek. destruct (fst p); try discriminate. eexists; reflexivity.
      - eapply IH; [exact Ho|apply Hd; exact Hp|apply Hv; apply in_map; exact Hp]. }
    destruct (elab_map_ev _ _ _ _ Hev) as [f0 Hf0]. exists (S f0). intros [|f'] Hf; [lia|].
    destruct (Hf0 f' ltac:(lia)) as [r Hr]. exists (AMap r). cbn [elab]. rewrite Hr. reflexivity.
  - (* union *)
    assert (Hsearch : any_branch (validate f o e) (hint_pass e v) v bs = Ok true ->
              Forall (fun c => (exists b, validate n o e c (Some v) = Ok b) /\ wdom n o e c v) bs ->
              exists f0, forall f', (f0 <= f')%nat -> exists a, union_search f' o e bs v = WOk a).
    { intros Ha Hall. rewrite Forall_forall in Hall.
      (* the answers of the validator are the same for every fuel >= n *)
      assert (Hsame : forall f', (n <= f')%nat -> forall c, In c bs -> vval f' o e c v = vval n o e c v).
      { intros f' Hf c Hc. destruct (Hall c Hc) as [(b & Hb) _]. unfold vval. rewrite Hb.
        eapply validate_fuel_mono; [exact Hf|exact Hb]. }
      assert (Hans : forall c, In c bs -> exists b, vval n o e c v = Ok b).
      { intros c Hc. destruct (Hall c Hc) as [(b & Hb) _]. exists b. exact Hb. }
      destruct (choose_total (vval n o e) e v bs Hans 0 (-1) (-1) false) as (j & Hj & Hr).
      (* some branch validates, so the result is not -1 *)
      apply any_branch_true in Ha. destruct Ha as (pre & c0 & post & Hbs & _ & Hpass0 & Hc0).
      assert (Hin0 : In c0 bs) by (rewrite Hbs; apply in_or_app; right; left; reflexivity).
      assert (Hc0n : validate n o e c0 (Some v) = Ok true /\ hint_pass e v c0 = true).
      { destruct (Hall c0 Hin0) as [(b & Hb) _]. assert (b = true); [|subst b; split; [exact Hb|exact Hpass0]].
        pose proof (validate_fuel_mono f (Nat.max f n) o e (Nat.le_max_l _ _) _ _ _ Hc0) as H1.
        pose proof (validate_fuel_mono n (Nat.max f n) o e (Nat.le_max_r _ _) _ _ _ Hb) as H2. congruence. }
      assert (Hj0 : 0 <= j < len bs).
      { destruct Hr as [->|Hr]; [|lia]. exfalso. apply search_none in Hj. rewrite Forall_forall in Hj.
        destruct Hc0n as [Hc0n Hp0]. destruct (Hj c0 Hin0) as [Hj0|Hj0]; unfold pass, vval in Hj0; congruence. }
      destruct (nthZ_some bs j Hj0) as [c Hc]. assert (Hinc : In c bs) by (eapply nthZ_In; exact Hc).
      assert (Hcv : validate n o e c (Some v) = Ok true).
      { destruct (search_valid _ _ _ _ _ Hj ltac:(lia)) as (c' & Hc' & _ & Hcase). rewrite Hc in Hc'. injection Hc' as <-.
        destruct Hcase as [Hok|(Hdbl & k & cf & _ & _ & Hcf & Hkf)]; [exact Hok|].
        destruct (Hall c Hinc) as [(b & Hb) _]. rewrite Hb. f_equal.
        eapply double_accepts_numbers; [exact Hdbl| |exact Hb]. eapply number_of_float_kind; [exact Hcf|exact Hkf]. }
      destruct (IH o e c v n Ho (proj2 (Hall c Hinc)) Hcv) as [fc Hfc].
      exists (Nat.max n fc). intros f' Hf. destruct (Hfc f' ltac:(lia)) as [a Ha'].
      exists (AUnion j a). unfold union_search. fold (vval f' o e).
      rewrite (choose_ext (vval f' o e) (vval n o e) e v bs (Hsame f' ltac:(lia))), Hj. cbn [of_res wbind].
      destruct (j <? 0) eqn:Ej; [lia|]. unfold union_go. rewrite Hc, Ha'. reflexivity. }
    assert (Hwrap : (exists f0, forall f', (f0 <= f')%nat -> exists a, union_search f' o e bs v = WOk a) ->
                    ~ hinted_by o v -> ev_elab o e (SUnion bs) v).
    { intros [f0 Hf0] Hnh. exists (S f0). intros [|f'] Hf; [lia|]. destruct (Hf0 f' ltac:(lia)) as [a Ha].
      exists a. rewrite elab_union_eq. destruct v; try exact Ha. destruct (disable_tuple o) eqn:Ed; [exact Ha|].
      exfalso. apply Hnh. eexists. split; [reflexivity|exact Ed]. }
    destruct v; try (apply Hwrap; [apply Hsearch; [exact Hv|exact Hd]|intros (? & Hl & _); discriminate]).
    cbn [wdom] in Hd. destruct (disable_tuple o) eqn:Edt.
    { apply Hwrap; [apply Hsearch; [exact Hv|exact Hd]|intros (? & _ & Hf); congruence]. }
    destruct l as [|name [|x [|? ?]]]; try discriminate.
    destruct name as [| | | |nm| | | | |]; try (rewrite hinted_nonstr in Hv by (intros ? ?; discriminate); discriminate).
    rewrite hinted_str in Hv. destruct (first_named nm bs) as [b|] eqn:Ef; [|discriminate].
    specialize (Hd nm x b eq_refl Ef). destruct (IH o e b x f Ho Hd Hv) as [fb Hfb].
    pose proof (find_first_named nm bs 0) as Hff. destruct (find_named nm bs 0) as [i|] eqn:Efn; [|congruence].
    destruct Hff as (b' & Hb' & Hn). rewrite Ef in Hb'. injection Hb' as <-. rewrite Z.sub_0_r in Hn.
    exists (S fb). intros [|f'] Hf; [lia|]. destruct (Hfb f' ltac:(lia)) as [a Ha]. exists (AUnion i a).
    rewrite elab_union_eq, Edt, Efn. unfold union_go. rewrite Hn, Ha. reflexivity.
  - (* record *)
    destruct v; try discriminate.
    destruct (match dict_get kv (s2b "-type") with Some (PStr t) => bytes_eqb t n0 | Some _ => false | None => true end);
      [|discriminate].
    apply all_fields_true in Hv. cbn [wdom] in Hd. specialize (Hd kv eq_refl). destruct Ho as [Hs Hsd].
    assert (Hready : Forall (field_ready o e kv) fs).
    { rewrite Forall_forall in *. intros fd Hfd. specialize (Hv fd Hfd). specialize (Hd fd Hfd).
      unfold field_value in Hv. unfold field_wdom in Hd. unfold field_ready, field_datum, key_in.
      (* the value handed to the field's writer, when there is one *)
      assert (Hnum : forall x, validate f o e (ftype fd) (Some x) = Ok true ->
                match ftype fd with
                | SFloat | SDouble => dbl_ok x /\ forall b, to_double x = WOk b -> wdom n o e (ftype fd) (PFloat b)
                | _ => wdom n o e (ftype fd) x end ->
                exists v', fconv (ftype fd) x = WOk v' /\ ev_elab o e (ftype fd) v').
      { intros x Hx Hw. destruct (ftype fd) eqn:Et;
          try (exists x; split; [reflexivity|]; eapply IH; [split; assumption|exact Hw|exact Hx]).
        - destruct Hw as [Hdb Hw]. destruct f as [|f1]; [discriminate|]. cbn [validate] in Hx.
          assert (Hb : exists b, to_double x = WOk b).
          { destruct x; try discriminate; [|eexists; reflexivity]. destruct (Hdb z eq_refl) as [d Hz]. exists d. cbn [to_double]. rewrite Hz. reflexivity. }
          destruct Hb as [b Hb]. exists (PFloat b). split; [unfold fconv; rewrite Hb; reflexivity|].
          eapply (IH o e SFloat (PFloat b) 1%nat); [split; assumption|apply Hw; exact Hb|reflexivity].
        - destruct Hw as [Hdb Hw]. destruct f as [|f1]; [discriminate|]. cbn [validate] in Hx.
          assert (Hb : exists b, to_double x = WOk b).
          { destruct x; try discriminate; [|eexists; reflexivity]. destruct (Hdb z eq_refl) as [d Hz]. exists d. cbn [to_double]. rewrite Hz. reflexivity. }
          destruct Hb as [b Hb]. exists (PFloat b). split; [unfold fconv; rewrite Hb; reflexivity|].
          eapply (IH o e SDouble (PFloat b) 1%nat); [split; assumption|apply Hw; exact Hb|reflexivity]. }
      destruct (dict_get kv (fname fd)) as [x|] eqn:Eg.
      - split; [intros; discriminate|]. apply Hnum; assumption.
      - destruct (fdefault fd) as [d|] eqn:Edf.
        + split; [intros; discriminate|]. apply Hnum; assumption.
        + destruct Hd as [Hnull Hw]. split; [intros _ _; exact Hnull|].
          destruct f as [|f1]; [discriminate|]. cbn [validate] in Hv. rewrite Hs in Hv.
          exists PNone. split.
          * unfold fconv. destruct (ftype fd); try reflexivity; discriminate Hnull.
          * eapply IH; [split; assumption|exact Hw|exact Hv]. }
    destruct (elab_fields_ev o e kv fs Hs Hsd Hready) as [f0 Hf0]. exists (S f0). intros [|f'] Hf; [lia|].
    destruct (Hf0 f' ltac:(lia)) as [r Hr]. exists (ARecord r). cbn [elab]. rewrite Hs, Hsd. cbn [orb andb]. rewrite Hr. reflexivity.
  - (* reference *)
    destruct (lookup e n0) as [s'|] eqn:El; [|discriminate]. cbn [wdom] in Hd. specialize (Hd s' El).
    destruct (IH o e s' v f Ho Hd Hv) as [f0 Hf0]. exists (S f0). intros [|f'] Hf; [lia|].
    destruct (Hf0 f' ltac:(lia)) as [a Ha]. exists a. cbn [elab]. rewrite El. exact Ha.
  - cbn [wdom] in Hd. destruct (IH o e s v f Ho Hd Hv) as [f0 Hf0]. exists (S f0). intros [|f'] Hf; [lia|].
    destruct (Hf0 f' ltac:(lia)) as [a Ha]. exists a. cbn [elab]. exact Ha.
Qed.

(* accepted => encoded => read back (C01), with the float side condition of elab_typed made explicit *)
Theorem accepted_roundtrip n o ro e s v f : default_writer o -> wdom n o e s v -> validate f o e s (Some v) = Ok true ->
  wf_env e = true -> wf_schema s = true -> wf_py v = true ->
  exists f0, forall f', (f0 <= f')%nat -> exists a,
    elab f' o e s v = WOk a /\ write f' o e s v = WOk (wire a) /\
    (floats_ok a = true -> forall pv, py_of ro e s a = Some pv ->
       forall f'', (f' <= f'')%nat -> forall r, read f'' ro e s (wire a ++ r) = Ok (pv, r)).
Proof.
  intros Ho Hd Hv He Hs Hp. destruct (writer_accepts n o e s v f Ho Hd Hv) as [f0 Hf0]. exists f0. intros f' Hf.
  destruct (Hf0 f' Hf) as [a Ha]. exists a. split; [exact Ha|]. split; [unfold write; rewrite Ha; reflexivity|].
  intros Hfl pv Hpv f'' Hf'' r. unfold read.
  rewrite (wire_dec f' e s a (elab_typedn f' o e s v a Ha He Hs Hp Hfl) f'' Hf'' r). cbn [bind]. rewrite Hpv. reflexivity.
Qed.

(** one-step unfoldings of [wdom], for examples *)
Lemma wdom_record n o e nm al fs kv :
  Forall (field_wdom (wdom n o e) kv) fs -> wdom (S n) o e (SRecord nm al fs) (PDict kv).
Proof. intros H. cbn [wdom]. intros kv' E. injection E as <-. exact H. Qed.
Lemma wdom_array n o e it v l : as_sequence v = Some l -> Forall (wdom n o e it) l -> wdom (S n) o e (SArray it) v.
Proof.
  intros Hs H. cbn [wdom]. intros l' Hl. apply as_sequence_items in Hl. rewrite Hs in Hl. injection Hl as <-. exact H.
Qed.
Lemma wdom_union_plain n o e bs v : (forall l, v <> PTuple l) ->
  Forall (fun c => (exists b, validate n o e c (Some v) = Ok b) /\ wdom n o e c v) bs ->
  wdom (S n) o e (SUnion bs) v.
Proof. intros Hn H. cbn [wdom]. destruct v; try exact H. exfalso. eapply Hn. reflexivity. Qed.
Lemma wdom_union_hint n o e bs nm x b : disable_tuple o = false ->
  first_named nm bs = Some b -> wdom n o e b x -> wdom (S n) o e (SUnion bs) (PTuple [PStr nm; x]).
Proof.
  intros Hd Hf H. cbn [wdom]. rewrite Hd. intros name x' b' E Hf'. injection E as <- <-. rewrite Hf in Hf'. injection Hf' as <-. exact H.
Qed.
Lemma wdom_float n o e v : dbl_ok v -> flt_ok v -> wdom (S n) o e SFloat v.
Proof. intros H1 H2. split; assumption. Qed.

(** *** C09 closure, the union node: a value read with return_named_type=True under a NAMED branch (record / enum /
    fixed given inline, or a by-name reference) is a (name, value) pair, and writing that pair back selects the same
    index -- provided no earlier branch answers to the same name -- and re-encodes the inner value under the branch *)
(* b denotes a named type (inline, or by name through the table) whose name is the one the branch answers to in tuple
   notation; for a by-name branch this says that the table entry carries the name it is filed under (C11_refs_denote) *)
Definition named_branch (e : env) (b : schema) : bool :=
  match branch_kind e b with Some (n, _) => bytes_eqb n (branch_name b) | None => false end.

Lemma find_named_first nm bs : forall i0 i b, nthZ bs (i - i0) = Some b -> branch_name b = nm -> i0 <= i ->
  (forall k c, 0 <= k < i - i0 -> nthZ bs k = Some c -> branch_name c <> nm) -> find_named nm bs i0 = Some i.
Proof.
  induction bs as [|c bs IH]; intros i0 i b Hn Hb Hi Hfirst; [discriminate|]. cbn [find_named].
  destruct (Z.eq_dec i i0) as [->|Hne].
  - rewrite Z.sub_diag in Hn. cbn [nthZ] in Hn. injection Hn as <-. rewrite Hb, beqb_refl. reflexivity.
  - assert (Hc : bytes_eqb (branch_name c) nm = false).
    { destruct (bytes_eqb (branch_name c) nm) eqn:E; [|reflexivity]. apply beqb_eq in E. exfalso.
      apply (Hfirst 0 c); [lia|reflexivity|exact E]. }
    rewrite Hc. apply (IH (i0 + 1) i b); [|exact Hb|lia|].
    + rewrite nthZ_cons_pos in Hn by lia. replace (i - (i0 + 1)) with (i - i0 - 1) by lia. exact Hn.
    + intros k c' Hk Hkc. apply (Hfirst (k + 1) c'); [lia|]. rewrite nthZ_cons_pos by lia.
      replace (k + 1 - 1) with k by lia. exact Hkc.
Qed.

Theorem union_closure_step f o e bs i b a pv0 pv :
  disable_tuple o = false -> nthZ bs i = Some b -> named_branch e b = true ->
  (forall k c, 0 <= k < i -> nthZ bs k = Some c -> branch_name c <> branch_name b) ->
  py_of ro_named e b a = Some pv0 -> elab f o e b pv0 = WOk a ->
  py_of ro_named e (SUnion bs) (AUnion i a) = Some pv ->
  pv = PTuple [PStr (branch_name b); pv0] /\ elab (S f) o e (SUnion bs) pv = WOk (AUnion i a).
Proof.
  intros Hd Hn Hnb Hfirst Hp0 Hel Hp.
  assert (Hpv : pv = PTuple [PStr (branch_name b); pv0]).
  { cbn [py_of resolve strip] in Hp. rewrite Hn, Hp0 in Hp. injection Hp as <-.
    unfold wrap_union, ro_named, named_branch in *. cbn [ret_named_override ret_named andb] in *.
    destruct (branch_kind e b) as [[n r]|]; [|discriminate Hnb]. apply beqb_eq in Hnb. rewrite Hnb. reflexivity. }
  split; [exact Hpv|]. subst pv. rewrite elab_union_eq, Hd.
  pose proof (nthZ_range _ _ _ Hn) as Hi.
  rewrite (find_named_first (branch_name b) bs 0 i b); [|rewrite Z.sub_0_r; exact Hn|reflexivity|lia|rewrite Z.sub_0_r; exact Hfirst].
  unfold union_go. rewrite Hn, Hel. reflexivity.
Qed.

(** *** write_record's _accepts_null agrees with validate: a type that accepts None (so that validate lets the field be
    absent without default) is one the writer lets be absent *)
Lemma none_rejected_by_named o e s : match s with SRecord _ _ _ | SEnum _ _ _ _ | SFixed _ _ _ => True | _ => False end ->
  forall f, validate f o e s (Some PNone) <> Ok true.
Proof. intros Hs [|f] H; [discriminate|]. destruct s; try contradiction; cbn [validate] in H; discriminate. Qed.

Theorem none_nullok : forall f o e t, named_env e = true -> plain_type t = true ->
  validate f o e t (Some PNone) = Ok true -> nullok t = true.
Proof.
  induction f as [|f IH]; intros o e t He Hp H; [discriminate|].
  destruct t; try reflexivity; try (cbn [validate] in H; discriminate).
  - (* union *)
    cbn [validate] in H. apply any_branch_true in H. destruct H as (pre & c & post & -> & _ & _ & Hc).
    cbn [plain_type] in Hp. rewrite forallb_forall in Hp. cbn [nullok]. apply existsb_exists. exists c.
    assert (Hin : In c (pre ++ c :: post)) by (apply in_or_app; right; left; reflexivity).
    split; [exact Hin|]. eapply IH; [exact He|apply Hp; exact Hin|exact Hc].
  - (* reference: named_schemas holds named types, which never accept None *)
    cbn [validate] in H. destruct (lookup e n) as [s'|] eqn:El; [|discriminate]. exfalso.
    destruct (lookup_in _ _ _ El) as [k Hin]. unfold named_env in He. rewrite forallb_forall in He. specialize (He _ Hin).
    cbn [snd] in He. destruct (validate_strip _ _ _ _ _ _ H) as (f1 & H1).
    eapply (none_rejected_by_named o e (strip s')); [|exact H1]. destruct (strip s'); try discriminate; exact I.
  - (* dict form *)
    cbn [validate] in H. cbn [nullok plain_type] in *. destruct t; try discriminate Hp; try reflexivity;
      (destruct f as [|f']; [discriminate|]; cbn [validate] in H; discriminate).
Qed.

(** *** C01: the value read back is the documented normalisation of the datum *)
Lemma py_of_resolve ro e s1 s2 a : resolve e s1 = resolve e s2 -> py_of ro e s1 a = py_of ro e s2 a.
Proof. intros H. destruct a; cbn [py_of]; rewrite H; reflexivity. Qed.

Lemma py_of_annot ro e lt s a : py_of ro e (SAnnot lt s) a = py_of ro e s a.
Proof. apply py_of_resolve. reflexivity. Qed.

Lemma py_of_ref ro e n s' a out : lookup e n = Some s' -> py_of ro e (SRef n) a = Some out -> py_of ro e s' a = Some out.
Proof.
  intros Hl H. assert (Hr : resolve e (SRef n) = strip s') by (unfold resolve; cbn [strip]; rewrite Hl; reflexivity).
  destruct (strip s') eqn:Es;
    try (rewrite <- H; symmetry; apply py_of_resolve; rewrite Hr; unfold resolve; rewrite Es; reflexivity).
  exfalso. destruct a; cbn [py_of] in H; rewrite Hr in H; discriminate.
Qed.

Lemma dict_set_fresh acc k v : dict_get acc k = None -> dict_set acc k v = acc ++ [(PStr k, v)].
Proof.
  induction acc as [|[k0 x0] acc IH]; cbn [dict_get dict_set app]; intros H; [reflexivity|].
  destruct k0; try (rewrite IH by exact H; reflexivity).
  destruct (bytes_eqb s k); [discriminate|]. rewrite IH by exact H. reflexivity.
Qed.

Lemma dict_get_snoc acc k v k' : dict_get acc k' = None -> bytes_eqb k k' = false -> dict_get (acc ++ [(PStr k, v)]) k' = None.
Proof.
  induction acc as [|[k0 x0] acc IH]; cbn [dict_get app]; intros H Hk; [rewrite Hk; reflexivity|].
  destruct k0; try (apply IH; assumption). destruct (bytes_eqb s k'); [discriminate|]. apply IH; assumption.
Qed.

Lemma beqb_neq a b : a <> b -> bytes_eqb a b = false.
Proof. intros H. destruct (bytes_eqb a b) eqn:E; [|reflexivity]. apply beqb_eq in E. contradiction. Qed.

Section PyLoops.
  Variables (ro : ropts) (e : env).

  Lemma py_items_spec (P : aval -> Prop) (Q : pyval -> pyval -> Prop) it (src : list pyval) :
    forall l, Forall2 (fun x a => P a /\ forall out, py_of ro e it a = Some out -> Q x out) src l ->
    forall outs,
    (fix go (l : list aval) : option (list pyval) :=
       match l with
       | [] => Some []
       | x :: l => match py_of ro e it x, go l with Some v, Some r => Some (v :: r) | _, _ => None end
       end) l = Some outs -> Forall2 Q src outs.
  Proof.
    induction 1 as [|x a src l [_ Hq] _ IH]; intros outs H.
    - injection H as <-. constructor.
    - destruct (py_of ro e it a) as [v|] eqn:Ea; [|discriminate].
      match type of H with match ?g with _ => _ end = _ => destruct g as [r|] eqn:Eg; [|discriminate] end.
      injection H as <-. constructor; [apply Hq; reflexivity|apply IH; reflexivity].
  Qed.

  Lemma py_map_spec (Q : pyval -> pyval -> Prop) vs :
    forall (src : list (pyval * pyval)) (l : list (bytes * aval)),
    Forall2 (fun p q => fst p = PStr (fst q) /\ forall out, py_of ro e vs (snd q) = Some out -> Q (snd p) out) src l ->
    NoDup (map fst l) -> forall acc res, (forall k, In k (map fst l) -> dict_get acc k = None) ->
    (fix go (l : list (bytes * aval)) (acc : list (pyval * pyval)) : option (list (pyval * pyval)) :=
       match l with
       | [] => Some acc
       | (k, x) :: l => match py_of ro e vs x with Some v => go l (dict_set acc k v) | None => None end
       end) l acc = Some res ->
    exists outs, res = acc ++ outs /\
      Forall2 (fun p q => exists k, fst p = PStr k /\ fst q = PStr k /\ Q (snd p) (snd q)) src outs.
  Proof.
    induction 1 as [|p [k a] src l [Hk Hq] _ IH]; intros Hnd acc res Hfresh H.
    - injection H as <-. exists []. rewrite app_nil_r. split; [reflexivity|constructor].
    - cbn [fst snd map] in *. destruct (py_of ro e vs a) as [v|] eqn:Ea; [|discriminate].
      inversion Hnd as [|? ? Hnotin Hnd']; subst.
      rewrite dict_set_fresh in H by (apply Hfresh; left; reflexivity).
      destruct (IH Hnd' _ _ (fun k' Hk' => dict_get_snoc acc k v k' (Hfresh k' (or_intror Hk'))
                                             (beqb_neq _ _ (fun E => Hnotin (eq_ind_r (fun z => In z (map fst l)) Hk' E)))) H)
        as (outs & -> & Ho).
      exists ((PStr k, v) :: outs). split; [rewrite <- app_assoc; reflexivity|].
      constructor; [exists k; repeat split; [exact Hk|apply Hq; reflexivity]|exact Ho].
  Qed.

  Lemma py_rec_spec (Q : field -> pyval -> Prop) :
    forall (fs : list field) (l : list aval),
    Forall2 (fun fd a => forall out, py_of ro e (ftype fd) a = Some out -> Q fd out) fs l ->
    NoDup (map (fun fd => fname fd) fs) -> forall acc res, (forall k, In k (map (fun fd => fname fd) fs) -> dict_get acc k = None) ->
    (fix go (fs : list field) (l : list aval) (acc : list (pyval * pyval)) {struct l} : option (list (pyval * pyval)) :=
       match fs, l with
       | [], [] => Some acc
       | f :: fs, x :: l => match py_of ro e (ftype f) x with
                            | Some v => go fs l (dict_set acc (fname f) v)
                            | None => None end
       | _, _ => None
       end) fs l acc = Some res ->
    exists outs, res = acc ++ outs /\ Forall2 (fun fd q => fst q = PStr (fname fd) /\ Q fd (snd q)) fs outs.
  Proof.
    induction 1 as [|fd a fs l Hq _ IH]; intros Hnd acc res Hfresh H.
    - injection H as <-. exists []. rewrite app_nil_r. split; [reflexivity|constructor].
    - cbn [map] in *. destruct (py_of ro e (ftype fd) a) as [v|] eqn:Ea; [|discriminate].
      inversion Hnd as [|? ? Hnotin Hnd']; subst.
      rewrite dict_set_fresh in H by (apply Hfresh; left; reflexivity).
      destruct (IH Hnd' _ _ (fun k' Hk' => dict_get_snoc acc (fname fd) v k' (Hfresh k' (or_intror Hk'))
                 (beqb_neq _ _ (fun E => Hnotin (eq_ind_r (fun z => In z (map (fun fd => fname fd) fs)) Hk' E)))) H)
        as (outs & -> & Ho).
      exists ((PStr (fname fd), v) :: outs). split; [rewrite <- app_assoc; reflexivity|].
      constructor; [split; [reflexivity|apply Hq; reflexivity]|exact Ho].
  Qed.
End PyLoops.

Lemma Forall2_and_l {A B} (R : A -> B -> Prop) (P : A -> Prop) l r :
  Forall2 R l r -> Forall P l -> Forall2 (fun x y => P x /\ R x y) l r.
Proof. induction 1; intros HP; [constructor|]. inversion HP; subst. constructor; [split; assumption|auto]. Qed.

Lemma Forall2_impl2 {A B} (R S : A -> B -> Prop) l r : (forall x y, R x y -> S x y) -> Forall2 R l r -> Forall2 S l r.
Proof. intros H; induction 1; constructor; auto. Qed.

Lemma Forall2_in_r {A B} (R : A -> B -> Prop) l r y : Forall2 R l r -> In y r -> exists x, In x l /\ R x y.
Proof.
  induction 1 as [|x0 y0 l r Hxy _ IH]; intros Hin; [destruct Hin|]. destruct Hin as [<-|Hin].
  - exists x0. split; [left; reflexivity|exact Hxy].
  - destruct (IH Hin) as (x & Hx & Hr). exists x. split; [right; exact Hx|exact Hr].
Qed.

Lemma nodup_str_NoDup l : nodup_str l = true -> NoDup l.
Proof.
  induction l as [|x l IH]; cbn [nodup_str]; intros H; [constructor|]. apply andb_prop in H. destruct H as [H1 H2].
  constructor; [|apply IH; exact H2]. intros Hin. apply existsb_beqb in Hin. rewrite Hin in H1. discriminate.
Qed.

Lemma nodup_keys_NoDup (R : pyval -> aval -> Prop) kv (r : list (bytes * aval)) :
  Forall2 (fun p q => fst p = PStr (fst q) /\ R (snd p) (snd q)) kv r -> nodup_keys kv = true -> NoDup (map fst r).
Proof.
  induction 1 as [|[k x] [kb a] kv r [Hk _] Hrest IH]; intros Hn; [constructor|]. cbn [fst snd map] in *. subst k.
  cbn [nodup_keys] in Hn. apply andb_prop in Hn. destruct Hn as [H1 H2]. constructor; [|apply IH; exact H2].
  intros Hin. apply in_map_iff in Hin. destruct Hin as (q & Hq & Hinq).
  destruct (Forall2_in_r _ _ _ _ Hrest Hinq) as (p & Hp & Hpk & _).
  assert (Hex : existsb (fun p0 => py_eqb (PStr kb) (fst p0)) kv = true).
  { apply existsb_exists. exists p. split; [exact Hp|]. cbn beta. rewrite Hpk. cbn [py_eqb]. subst kb. apply beqb_refl. }
  rewrite Hex in H1. discriminate.
Qed.

Lemma index_of_nth syms x : forall i0 i, index_of syms x i0 = Some i -> nthZ syms (i - i0) = Some x.
Proof.
  induction syms as [|s syms IH]; intros i0 i H; cbn [index_of] in H; [discriminate|].
  destruct (bytes_eqb s x) eqn:E.
  - injection H as <-. rewrite Z.sub_diag. apply beqb_eq in E. subst. reflexivity.
  - pose proof (index_of_range _ _ _ _ H) as Hr. rewrite nthZ_cons_pos by lia.
    replace (i - i0 - 1) with (i - (i0 + 1)) by lia. apply IH. exact H.
Qed.

Lemma wrap_union_ropts0 e bs b r : wrap_union ropts0 e bs b r = r.
Proof. reflexivity. Qed.

(* float(datum_value) before a "float"/"double" field is written does not change the normalisation *)
Lemma normalises_float_arg n o e t x b out : match t with SFloat | SDouble => True | _ => False end ->
  to_double x = WOk b -> normalises n o e t (PFloat b) out -> normalises n o e t x out.
Proof.
  intros Ht Hb H. destruct n as [|n]; [destruct H|]. destruct t; try contradiction; cbn [normalises] in *.
  - destruct H as (b' & x' & H1 & H2 & H3). cbn [to_double] in H1. injection H1 as <-. exists b, x'. repeat split; assumption.
  - destruct H as (b' & H1 & H2). cbn [to_double] in H1. injection H1 as <-. exists b. split; assumption.
Qed.

Theorem elab_normalises : forall f o e s v a out,
  elab f o e s v = WOk a -> wf_env e = true -> wf_schema s = true -> wf_py v = true ->
  py_of ropts0 e s a = Some out -> normalises f o e s v out.
Proof.
  induction f as [|f IH]; intros o e s v a out H He Hs Hv Hp; [discriminate|].
  destruct s.
  - cbn [elab] in H. destruct v; try discriminate. injection H as <-. cbn [py_of resolve strip] in Hp. injection Hp as <-. reflexivity.
  - cbn [elab] in H. destruct v; try discriminate. injection H as <-. cbn [py_of resolve strip] in Hp. injection Hp as <-. reflexivity.
  - cbn [elab] in H. destruct v; try discriminate. destruct ((INT_MIN <=? z) && (z <=? INT_MAX)); [|discriminate].
    injection H as <-. cbn [py_of resolve strip] in Hp. injection Hp as <-. reflexivity.
  - cbn [elab] in H. destruct v; try discriminate. destruct ((LONG_MIN <=? z) && (z <=? LONG_MAX)); [|discriminate].
    injection H as <-. cbn [py_of resolve strip] in Hp. injection Hp as <-. reflexivity.
  - (* float *)
    assert (Hn : exists b x, to_double v = WOk b /\ d2s b = Ok x /\ a = AFloat x).
    { cbn [elab] in H. destruct v; try discriminate; inv_w H; inv_w H; injection H as <-;
        (destruct (d2s x) as [y| |] eqn:Ed; cbn [of_res] in E0; try discriminate; injection E0 as <-; eauto). }
    destruct Hn as (b & x & Hb & Hd & ->). cbn [py_of resolve strip] in Hp. injection Hp as <-. cbn [normalises]. eauto.
  - (* double *)
    assert (Hn : exists b, to_double v = WOk b /\ a = ADouble b).
    { cbn [elab] in H. destruct v; try discriminate; inv_w H; injection H as <-; eauto. }
    destruct Hn as (b & Hb & ->). cbn [py_of resolve strip] in Hp. injection Hp as <-. cbn [normalises]. eauto.
  - cbn [elab] in H. destruct v; try discriminate; injection H as <-; cbn [py_of resolve strip] in Hp; injection Hp as <-;
      cbn [normalises]; eauto.
  - cbn [elab] in H. destruct v; try discriminate. injection H as <-. cbn [py_of resolve strip] in Hp. injection Hp as <-. reflexivity.
  - cbn [elab] in H. destruct v; try discriminate; [|destruct (len b =? size); discriminate].
    destruct (len b =? size); [|discriminate]. injection H as <-. cbn [py_of resolve strip] in Hp. injection Hp as <-. reflexivity.
  - cbn [elab] in H. destruct v; try discriminate. destruct (index_of syms s 0) as [i|] eqn:Ei; [|discriminate].
    injection H as <-. cbn [py_of resolve strip] in Hp. apply index_of_nth in Ei. rewrite Z.sub_0_r in Ei. rewrite Ei in Hp.
    injection Hp as <-. reflexivity.
  - (* array *)
    cbn [wf_schema] in Hs.
    assert (Hitems : forall l r, as_sequence v = Some l -> Forall (fun x => wf_py x = true) l ->
              elab_items (elab f o e) s l = WOk r -> a = AArray r -> normalises (S f) o e (SArray s) v out).
    { intros l r Hseq Hwf Hi ->. apply elab_items_inv in Hi. cbn [py_of resolve strip] in Hp.
      match type of Hp with option_map _ ?g = _ => destruct g as [outs|] eqn:Eg; [|discriminate] end.
      cbn [option_map] in Hp. injection Hp as <-. cbn [normalises]. exists l, outs.
      split; [apply as_sequence_items; exact Hseq|]. split; [reflexivity|].
      eapply (py_items_spec ropts0 e (fun _ => True) (normalises f o e s) s l r); [|exact Eg].
      eapply Forall2_impl2; [|exact (Forall2_and_l _ _ _ _ Hi Hwf)].
      intros x y [Hx Hxy]. cbn beta in *. split; [exact I|]. intros out0 Ho. eapply IH; eassumption. }
    cbn [elab] in H. destruct v; try discriminate; inv_w H; injection H as H.
    + eapply Hitems; [reflexivity| |exact E|symmetry; exact H].
      apply Forall_forall. intros y Hy. apply in_map_iff in Hy. destruct Hy as (z & <- & _). reflexivity.
    + eapply Hitems; [reflexivity| |exact E|symmetry; exact H].
      apply Forall_forall. intros y Hy. apply in_map_iff in Hy. destruct Hy as (z & <- & _). reflexivity.
    + cbn [wf_py] in Hv. apply andb_prop in Hv. destruct Hv as [_ Hw].
      eapply Hitems; [reflexivity|apply forallb_Forall; exact Hw|exact E|symmetry; exact H].
    + cbn [wf_py] in Hv. apply andb_prop in Hv. destruct Hv as [_ Hw].
      eapply Hitems; [reflexivity|apply forallb_Forall; exact Hw|exact E|symmetry; exact H].
  - (* map *)
    cbn [wf_schema] in Hs. cbn [elab] in H. destruct v as [| | | | | | |l0|l0|kv]; try discriminate; try (destruct l0; discriminate).
    inv_w H. injection H as <-. apply elab_map_inv in E.
    cbn [wf_py] in Hv. apply andb_prop in Hv. destruct Hv as [Hv Hw]. apply andb_prop in Hv. destruct Hv as [_ Hnd].
    apply forallb_Forall in Hw.
    cbn [py_of resolve strip] in Hp.
    match type of Hp with option_map _ ?g = _ => destruct g as [res|] eqn:Eg; [|discriminate] end.
    cbn [option_map] in Hp. injection Hp as <-.
    assert (HND : NoDup (map fst x)) by exact (nodup_keys_NoDup (fun p0 a0 => elab f o e s p0 = WOk a0) kv x E Hnd).
    destruct (py_map_spec ropts0 e (normalises f o e s) s kv x) with (acc := @nil (pyval * pyval)) (res := res)
      as (outs & -> & Ho); [|exact HND|intros; reflexivity|exact Eg|].
    + eapply Forall2_impl2; [|exact (Forall2_and_l _ _ _ _ E Hw)].
      intros p q [Hpw [Hk Hel]]. cbn beta in *. split; [exact Hk|]. intros out0 Ho. apply andb_prop in Hpw. destruct Hpw as [_ Hpw].
      eapply IH; eassumption.
    + cbn [normalises app]. exists kv, outs. repeat split. exact Ho.
  - (* union *)
    pose proof H as H0. apply elab_union_inv in H. destruct H as (i & b & v' & a0 & -> & Hn & Hel & Hcase).
    cbn [wf_schema] in Hs. apply andb_prop in Hs. destruct Hs as [_ Hbs]. rewrite forallb_forall in Hbs.
    assert (Hinb : In b bs) by (eapply nthZ_In; exact Hn).
    cbn [py_of resolve strip] in Hp. rewrite Hn in Hp. destruct (py_of ropts0 e b a0) as [pv|] eqn:Epv; [|discriminate].
    rewrite wrap_union_ropts0 in Hp. injection Hp as <-.
    destruct Hcase as [(-> & Hnh & Hc)|(nm & -> & Hd & Hfn)].
    + assert (Hnb : normalises f o e b v pv) by (eapply IH; [exact Hel|exact He|apply Hbs; exact Hinb|exact Hv|exact Epv]).
      destruct (union_conforming _ _ _ _ _ _ _ H0 Hnh) as (b' & Hn' & _ & _ & Hconf). rewrite Hn in Hn'. injection Hn' as <-.
      pose proof (nthZ_range _ _ _ Hn) as Hi.
      destruct (search_valid _ e v bs i Hc ltac:(lia)) as (c' & Hnc & Hpass & _). rewrite Hn in Hnc. injection Hnc as <-.
      assert (Hplain : exists b0, In b0 bs /\ hint_pass e v b0 = true /\ conformsP o e b0 v /\ normalises f o e b0 v pv).
      { exists b. repeat split; assumption. }
      cbn [normalises]. destruct v; try exact Hplain. destruct (disable_tuple o) eqn:Ed; [exact Hplain|].
      exfalso. apply Hnh. eexists. split; [reflexivity|exact Ed].
    + assert (Hwv : wf_py v' = true).
      { cbn [wf_py forallb] in Hv. apply andb_prop in Hv. destruct Hv as [_ Hv].
        apply andb_prop in Hv. destruct Hv as [_ Hv]. apply andb_prop in Hv. apply Hv. }
      assert (Hnb : normalises f o e b v' pv) by (eapply IH; [exact Hel|exact He|apply Hbs; exact Hinb|exact Hwv|exact Epv]).
      cbn [normalises]. rewrite Hd. exists nm, v', b. split; [reflexivity|]. split; [exact Hinb|]. split; [|exact Hnb].
      pose proof (find_named_spec nm bs 0) as Hsp. rewrite Hfn in Hsp. destruct Hsp as (pre & b' & post & -> & -> & Hb' & _).
      rewrite Z.add_0_l, nthZ_app_mid in Hn. injection Hn as <-. exact Hb'.
  - (* record *)
    cbn [elab] in H. destruct v; try discriminate.
    destruct ((strict o || strict_allow_default o) && has_extras kv fs); [discriminate|]. inv_w H. injection H as <-.
    apply elab_fields_inv in E. cbn [wf_schema] in Hs. apply andb_prop in Hs. destruct Hs as [Hnd Hs]. apply forallb_Forall in Hs.
    cbn [py_of resolve strip] in Hp.
    match type of Hp with option_map _ ?g = _ => destruct g as [res|] eqn:Eg; [|discriminate] end.
    cbn [option_map] in Hp. injection Hp as <-.
    destruct (py_rec_spec ropts0 e (fun fd out0 => normalises f o e (ftype fd) (field_source kv fd) out0) fs x)
      with (acc := @nil (pyval * pyval)) (res := res) as (outs & -> & Ho);
      [|apply nodup_str_NoDup; exact Hnd|intros; reflexivity|exact Eg|].
    + eapply Forall2_impl2; [|exact (Forall2_and_l _ _ _ _ E Hs)].
      intros fd y [Hfs (v' & Harg & Hel)] out0 Ho. cbn beta in *. apply andb_prop in Hfs. destruct Hfs as [Hst Hsd].
      assert (Hfd : wf_py (field_datum kv fd) = true).
      { unfold field_datum. destruct (dict_get kv (fname fd)) as [x0|] eqn:Eg0; [eapply wf_dict_get; eassumption|].
        destruct (fdefault fd); [exact Hsd|reflexivity]. }
      change (field_source kv fd) with (field_datum kv fd).
      unfold field_arg in Harg. destruct (ftype fd) eqn:Et;
        try (subst v'; eapply IH; [exact Hel|exact He|exact Hst|exact Hfd|exact Ho]);
        (destruct Harg as (b & Hb & ->); eapply normalises_float_arg; [exact I|exact Hb|];
         eapply IH; [exact Hel|exact He|exact Hst|reflexivity|exact Ho]).
    + cbn [normalises app]. exists kv, outs. repeat split. exact Ho.
  - (* reference *)
    cbn [elab] in H. destruct (lookup e n) as [s'|] eqn:El; [|discriminate].
    cbn [normalises]. exists s'. split; [exact El|].
    eapply IH; [exact H|exact He|eapply wf_lookup; eassumption|exact Hv|eapply py_of_ref; eassumption].
  - cbn [elab] in H. cbn [normalises]. cbn [wf_schema] in Hs. rewrite py_of_annot in Hp. eapply IH; eassumption.
Qed.

(** *** the reader builds a value from every well-typed wire value (named_schemas holds named types) *)
Section PyTotal.
  Variables (ro : ropts) (e : env).

  Lemma py_items_total it l : Forall (fun x => exists v, py_of ro e it x = Some v) l ->
    exists outs,
    (fix go (l : list aval) : option (list pyval) :=
       match l with
       | [] => Some []
       | x :: l => match py_of ro e it x, go l with Some v, Some r => Some (v :: r) | _, _ => None end
       end) l = Some outs.
  Proof.
    induction 1 as [|x l [v Hv] _ [outs IH]]; [exists []; reflexivity|]. exists (v :: outs). rewrite Hv, IH. reflexivity.
  Qed.

  Lemma py_map_total vs (l : list (bytes * aval)) : Forall (fun kx => exists v, py_of ro e vs (snd kx) = Some v) l ->
    forall acc, exists res,
    (fix go (l : list (bytes * aval)) (acc : list (pyval * pyval)) : option (list (pyval * pyval)) :=
       match l with
       | [] => Some acc
       | (k, x) :: l => match py_of ro e vs x with Some v => go l (dict_set acc k v) | None => None end
       end) l acc = Some res.
  Proof.
    induction 1 as [|[k x] l [v Hv] _ IH]; intros acc; [exists acc; reflexivity|]. cbn [snd] in Hv. rewrite Hv. apply IH.
  Qed.

  Lemma py_rec_total fs l : Forall2 (fun fd a => exists v, py_of ro e (ftype fd) a = Some v) fs l ->
    forall acc, exists res,
    (fix go (fs : list field) (l : list aval) (acc : list (pyval * pyval)) {struct l} : option (list (pyval * pyval)) :=
       match fs, l with
       | [], [] => Some acc
       | f :: fs, x :: l => match py_of ro e (ftype f) x with
                            | Some v => go fs l (dict_set acc (fname f) v)
                            | None => None end
       | _, _ => None
       end) fs l acc = Some res.
  Proof.
    induction 1 as [|fd a fs l [v Hv] _ IH]; intros acc; [exists acc; reflexivity|]. rewrite Hv. apply IH.
  Qed.

  Theorem py_of_total : named_env e = true -> forall n s a, typedn n e s a -> exists out, py_of ro e s a = Some out.
  Proof.
    intros He. induction n as [|n IH]; intros s a Ht; [destruct Ht|].
    destruct s.
    15:{ apply typedn_ref in Ht. destruct Ht as (s' & Hl & Ht). destruct (IH _ _ Ht) as [out Ho]. exists out. rewrite <- Ho.
         apply py_of_resolve. unfold resolve at 1. cbn [strip]. rewrite Hl.
         destruct (lookup_in _ _ _ Hl) as [k Hin]. unfold named_env in He. rewrite forallb_forall in He. specialize (He _ Hin).
         cbn [snd] in He. unfold resolve. destruct (strip s'); try discriminate; reflexivity. }
    15:{ apply typedn_annot in Ht. destruct (IH _ _ Ht) as [out Ho]. exists out. rewrite py_of_annot. exact Ho. }
    all: destruct a; cbn [typedn] in Ht; try contradiction; cbn [py_of resolve strip]; try (eexists; reflexivity).
    - destruct Ht as [Hi _]. destruct (nthZ_some syms i Hi) as [x Hx]. rewrite Hx. eexists; reflexivity.
    - destruct Ht as [_ Hl].
      destruct (py_items_total s l) as [outs Ho]; [eapply Forall_impl; [|exact Hl]; intros x Hx; exact (IH _ _ Hx)|].
      rewrite Ho. eexists; reflexivity.
    - destruct Ht as [_ Hl].
      destruct (py_map_total s l) with (acc := @nil (pyval * pyval)) as [res Ho];
        [eapply Forall_impl; [|exact Hl]; intros kx [_ Hx]; exact (IH _ _ Hx)|].
      match goal with |- exists out, option_map _ ?g = Some out => assert (Hg : g = Some res) by exact Ho; rewrite Hg end.
      eexists; reflexivity.
    - destruct Ht as (_ & s0 & Hn & Ht). rewrite Hn. destruct (IH _ _ Ht) as [out Ho]. rewrite Ho. eexists; reflexivity.
    - destruct (py_rec_total fs l) with (acc := @nil (pyval * pyval)) as [res Ho];
        [eapply Forall2_impl'; [|exact Ht]; intros fd x Hx; exact (IH _ _ Hx)|].
      match goal with |- exists out, option_map _ ?g = Some out => assert (Hg : g = Some res) by exact Ho; rewrite Hg end.
      eexists; reflexivity.
  Qed.
End PyTotal.

(* C01, end to end at the Python level: the reader returns the documented normalisation of what was written *)
Theorem roundtrip_normalised f wo e s v a :
  elab f wo e s v = WOk a -> wf_env e = true -> named_env e = true -> wf_schema s = true -> wf_py v = true ->
  floats_ok a = true ->
  exists out, normalises f wo e s v out /\ write f wo e s v = WOk (wire a) /\
    forall f', (f <= f')%nat -> forall r, read f' ropts0 e s (wire a ++ r) = Ok (out, r).
Proof.
  intros H He Hne Hs Hv Hfl. pose proof (elab_typedn f wo e s v a H He Hs Hv Hfl) as Ht.
  destruct (py_of_total ropts0 e Hne f s a Ht) as [out Ho]. exists out.
  split; [eapply elab_normalises; eassumption|]. split; [unfold write; rewrite H; reflexivity|].
  intros f' Hf r. unfold read. rewrite (wire_dec f e s a Ht f' Hf r). cbn [bind]. rewrite Ho. reflexivity.
Qed.
