(** Proofs about validation (C10), the writer's elaboration (C01: [elab_typed]) and the union
    branch search (C09). *)
From Coq Require Import String Lia ZifyBool.
From FA Require Import model.Base model.Varint model.Value model.Schema model.Utf8 model.Float model.Codec
                       model.Validate model.Write model.Read model.Conform proofs.VarintProofs proofs.CodecProofs.

(** *** small facts *)
Lemma beqb_eq : forall a b, bytes_eqb a b = true -> a = b.
Proof.
  induction a as [|x a IH]; intros [|y b] H; cbn [bytes_eqb] in H; try discriminate; [reflexivity|].
  apply andb_prop in H. destruct H as [H1 H2]. apply Z.eqb_eq in H1. subst y. rewrite (IH _ H2). reflexivity.
Qed.
Lemma beqb_refl : forall a, bytes_eqb a a = true.
Proof. induction a as [|x a IH]; cbn [bytes_eqb]; [reflexivity|]. rewrite Z.eqb_refl, IH. reflexivity. Qed.
Lemma beqb_iff a b : bytes_eqb a b = true <-> a = b.
Proof. split; [apply beqb_eq|intros ->; apply beqb_refl]. Qed.

Lemma existsb_beqb x syms : existsb (bytes_eqb x) syms = true <-> In x syms.
Proof.
  rewrite existsb_exists. split.
  - intros (y & Hy & E). apply beqb_eq in E. subst y. exact Hy.
  - intros H. exists x. split; [exact H|apply beqb_refl].
Qed.

Lemma as_sequence_items v l : as_sequence v = Some l <-> seq_items v l.
Proof.
  unfold seq_items. split.
  - destruct v; cbn [as_sequence]; intros H; try discriminate; injection H as <-; eauto 6.
  - intros [->|[->|(b & [->| ->] & ->)]]; reflexivity.
Qed.

(** *** the validator's loops, generically in the recursive call *)
Section VLoops.
  Variable rec : schema -> option pyval -> res bool.

  Lemma all_items_true s l : all_items rec s l = Ok true -> Forall (fun x => rec s (Some x) = Ok true) l.
  Proof.
    induction l as [|x l IH]; cbn [all_items]; intros H; [constructor|].
    destruct (rec s (Some x)) as [[|]| |] eqn:E; cbn [bind] in H; try discriminate. constructor; auto.
  Qed.
  Lemma all_items_false s l : all_items rec s l = Ok false -> Exists (fun x => rec s (Some x) = Ok false) l.
  Proof.
    induction l as [|x l IH]; cbn [all_items]; intros H; [discriminate|].
    destruct (rec s (Some x)) as [[|]| |] eqn:E; cbn [bind] in H; try discriminate.
    - apply Exists_cons_tl. auto.
    - apply Exists_cons_hd. exact E.
  Qed.

  Definition field_value (kv : list (pyval * pyval)) (fd : field) : option pyval :=
    match dict_get kv (fname fd) with Some v => Some v | None => fdefault fd end.

  Lemma all_fields_true kv fs : all_fields rec kv fs = Ok true ->
    Forall (fun fd => rec (ftype fd) (field_value kv fd) = Ok true) fs.
  Proof.
    induction fs as [|fd fs IH]; cbn [all_fields]; intros H; [constructor|]. fold (field_value kv fd) in H.
    destruct (rec (ftype fd) (field_value kv fd)) as [[|]| |] eqn:E; cbn [bind] in H; try discriminate. constructor; auto.
  Qed.
  Lemma all_fields_false kv fs : all_fields rec kv fs = Ok false ->
    Exists (fun fd => rec (ftype fd) (field_value kv fd) = Ok false) fs.
  Proof.
    induction fs as [|fd fs IH]; cbn [all_fields]; intros H; [discriminate|]. fold (field_value kv fd) in H.
    destruct (rec (ftype fd) (field_value kv fd)) as [[|]| |] eqn:E; cbn [bind] in H; try discriminate.
    - apply Exists_cons_tl. auto.
    - apply Exists_cons_hd. exact E.
  Qed.

  (* the first passing branch: everything before it failed *)
  Lemma any_branch_true v bs : any_branch rec v bs = Ok true ->
    exists pre c post, bs = pre ++ c :: post /\ Forall (fun b => rec b (Some v) = Ok false) pre /\ rec c (Some v) = Ok true.
  Proof.
    induction bs as [|b bs IH]; cbn [any_branch]; intros H; [discriminate|].
    destruct (rec b (Some v)) as [[|]| |] eqn:E; cbn [bind] in H; try discriminate.
    - exists [], b, bs. repeat split; [constructor|exact E].
    - destruct (IH H) as (pre & c & post & -> & Hp & Hc). exists (b :: pre), c, post. repeat split; [constructor; assumption|exact Hc].
  Qed.
  Lemma any_branch_false v bs : any_branch rec v bs = Ok false -> Forall (fun b => rec b (Some v) = Ok false) bs.
  Proof.
    induction bs as [|b bs IH]; cbn [any_branch]; intros H; [constructor|].
    destruct (rec b (Some v)) as [[|]| |] eqn:E; cbn [bind] in H; try discriminate. constructor; auto.
  Qed.

  Lemma hinted_str nm v bs :
    hinted rec (PStr nm) v bs = match first_named nm bs with Some b => rec b (Some v) | None => Ok false end.
  Proof.
    induction bs as [|b bs IH]; cbn [hinted first_named]; [reflexivity|].
    destruct (bytes_eqb (branch_name b) nm); [reflexivity|exact IH].
  Qed.
  Lemma hinted_nonstr name v bs : (forall nm, name <> PStr nm) -> hinted rec name v bs = Ok false.
  Proof.
    intros Hn. induction bs as [|b bs IH]; cbn [hinted]; [reflexivity|].
    destruct name; try exact IH. exfalso. eapply Hn. reflexivity.
  Qed.
End VLoops.

(** *** conformance is monotone in the height *)
Lemma field_conforms_impl (C1 C2 : schema -> pyval -> Prop) o kv fd :
  (forall s v, C1 s v -> C2 s v) -> field_conforms C1 o kv fd -> field_conforms C2 o kv fd.
Proof.
  intros H. unfold field_conforms. destruct (dict_get kv (fname fd)); [apply H|].
  destruct (fdefault fd); [apply H|]. intros [H1 H2]. split; [exact H1|apply H; exact H2].
Qed.

Lemma conforms_mono : forall n o e s v, conforms n o e s v -> conforms (S n) o e s v.
Proof.
  induction n as [|n IH]; intros o e s v H; [destruct H|].
  destruct s; try exact H.
  - destruct H as (l & Hs & Hl). exists l. split; [exact Hs|]. eapply Forall_impl; [|exact Hl]. intros; apply IH; assumption.
  - destruct H as (kv & -> & Hl). exists kv. split; [reflexivity|]. eapply Forall_impl; [|exact Hl].
    intros p [Hk Hv]. split; [exact Hk|apply IH; exact Hv].
  - change (conforms (S (S n)) o e (SUnion bs) v) with
      (match v with
       | PTuple l => if disable_tuple o then Exists (fun b => conforms (S n) o e b v) bs
                     else exists name x b, l = [PStr name; x] /\ first_named name bs = Some b /\ conforms (S n) o e b x
       | _ => Exists (fun b => conforms (S n) o e b v) bs end).
    change (conforms (S n) o e (SUnion bs) v) with
      (match v with
       | PTuple l => if disable_tuple o then Exists (fun b => conforms n o e b v) bs
                     else exists name x b, l = [PStr name; x] /\ first_named name bs = Some b /\ conforms n o e b x
       | _ => Exists (fun b => conforms n o e b v) bs end) in H.
    assert (HE : Exists (fun b => conforms n o e b v) bs -> Exists (fun b => conforms (S n) o e b v) bs).
    { intros HE. eapply Exists_impl; [|exact HE]. intros; apply IH; assumption. }
    destruct v; try (apply HE; exact H).
    destruct (disable_tuple o); [apply HE; exact H|].
    destruct H as (name & x & b & H1 & H2 & H3). exists name, x, b. repeat split; try assumption. apply IH; exact H3.
  - destruct H as (kv & -> & Hh & Hl). exists kv. split; [reflexivity|]. split; [exact Hh|].
    eapply Forall_impl; [|exact Hl]. intros fd Hfd. eapply field_conforms_impl; [|exact Hfd]. intros; apply IH; assumption.
  - destruct H as (s' & Hl & H). exists s'. split; [exact Hl|apply IH; exact H].
  - apply IH. exact H.
Qed.

Lemma conforms_le n m o e s v : (n <= m)%nat -> conforms n o e s v -> conforms m o e s v.
Proof. induction 1 as [|m _ IH]; intros H; [exact H|]. apply conforms_mono. auto. Qed.

(** *** validate = Ok true  ==>  conforms (same height as the fuel) *)
Definition conforms_opt n o e s (ov : option pyval) : Prop :=
  match ov with Some v => conforms n o e s v | None => strict o = false /\ conforms n o e s PNone end.

Lemma validate_sound : forall f o e s ov, validate f o e s ov = Ok true -> conforms_opt f o e s ov.
Proof.
  induction f as [|f IH]; intros o e s ov H; [discriminate|].
  destruct ov as [v|].
  2:{ cbn [validate] in H. cbn [conforms_opt]. destruct (strict o) eqn:Es; [discriminate|].
      split; [reflexivity|]. apply conforms_mono. exact (IH _ _ _ _ H). }
  cbn [conforms_opt]. cbn [validate] in H.
  destruct s.
  - destruct v; try discriminate. reflexivity.
  - destruct v; try discriminate. eexists; reflexivity.
  - destruct v; try discriminate. injection H as H. exists z. split; [reflexivity|]. unfold INT_MIN, INT_MAX in H. lia.
  - destruct v; try discriminate. injection H as H. exists z. split; [reflexivity|]. unfold LONG_MIN, LONG_MAX in H. lia.
  - destruct v; try discriminate; [left|right]; eexists; reflexivity.
  - destruct v; try discriminate; [left|right]; eexists; reflexivity.
  - destruct v; try discriminate; [left|right]; eexists; reflexivity.
  - destruct v; try discriminate. eexists; reflexivity.
  - destruct v; try discriminate. injection H as H. exists b. split; [reflexivity|lia].
  - destruct v; try discriminate. injection H as H. exists s. split; [reflexivity|]. apply existsb_beqb. exact H.
  - destruct (as_sequence v) as [l|] eqn:Es; [|discriminate]. exists l. split; [apply as_sequence_items; exact Es|].
    apply all_items_true in H. eapply Forall_impl; [|exact H]. intros x Hx. exact (IH _ _ _ _ Hx).
  - destruct v; try discriminate. destruct (forallb is_str_key kv) eqn:Ek; [|discriminate].
    exists kv. split; [reflexivity|]. apply all_items_true in H. rewrite forallb_forall in Ek.
    clear - H Ek IH. induction kv as [|p kv IHkv]; [constructor|]. cbn [map] in H. inversion H as [|? ? H1 H2]; subst.
    constructor.
    + split; [|exact (IH _ _ _ _ H1)]. specialize (Ek p (or_introl eq_refl)). unfold is_str_key in Ek.
      destruct (fst p); try discriminate. eexists; reflexivity.
    + apply IHkv; [|exact H2]. intros q Hq. apply Ek. right. exact Hq.
  - change (conforms (S f) o e (SUnion bs) v) with
      (match v with
       | PTuple l => if disable_tuple o then Exists (fun b => conforms f o e b v) bs
                     else exists name x b, l = [PStr name; x] /\ first_named name bs = Some b /\ conforms f o e b x
       | _ => Exists (fun b => conforms f o e b v) bs end).
    assert (HA : any_branch (validate f o e) v bs = Ok true -> Exists (fun b => conforms f o e b v) bs).
    { intros HA. apply any_branch_true in HA. destruct HA as (pre & c & post & -> & _ & Hc).
      apply Exists_app. right. apply Exists_cons_hd. exact (IH _ _ _ _ Hc). }
    destruct v; try (apply HA; exact H).
    destruct (disable_tuple o); [apply HA; exact H|].
    destruct l as [|name [|x [|? ?]]]; try discriminate.
    destruct name as [| | | |nm| | | | |];
      try (rewrite hinted_nonstr in H by (intros ? ?; discriminate); discriminate).
    rewrite hinted_str in H. destruct (first_named nm bs) as [b|] eqn:Ef; [|discriminate].
    exists nm, x, b. repeat split; [exact Ef|exact (IH _ _ _ _ H)].
  - destruct v; try discriminate. exists kv. split; [reflexivity|].
    unfold type_hint_ok. destruct (dict_get kv (s2b "-type")) as [t|] eqn:Et.
    + destruct t; try discriminate. destruct (bytes_eqb s n) eqn:En; [|discriminate]. apply beqb_eq in En. subst s.
      split; [reflexivity|]. apply all_fields_true in H. eapply Forall_impl; [|exact H].
      intros fd Hfd. unfold field_conforms. unfold field_value in Hfd. apply IH in Hfd.
      destruct (dict_get kv (fname fd)); [exact Hfd|]. destruct (fdefault fd); exact Hfd.
    + split; [exact I|]. apply all_fields_true in H. eapply Forall_impl; [|exact H].
      intros fd Hfd. unfold field_conforms. unfold field_value in Hfd. apply IH in Hfd.
      destruct (dict_get kv (fname fd)); [exact Hfd|]. destruct (fdefault fd); exact Hfd.
  - destruct (lookup e n) as [s'|] eqn:El; [|discriminate]. exists s'. split; [exact El|]. exact (IH _ _ _ _ H).
  - exact (IH _ _ _ _ H).
Qed.

(** *** conforms  ==>  validate never answers False (whatever fuel, as long as it answers) *)
Lemma validate_complete : forall n o e s v, conforms n o e s v ->
  forall f b, validate f o e s (Some v) = Ok b -> b = true.
Proof.
  induction n as [|n IH]; intros o e s v Hc f b H; [destruct Hc|].
  destruct f as [|f]; [discriminate|]. cbn [validate] in H.
  destruct s; cbn [conforms] in Hc.
  - subst v. injection H as <-. reflexivity.
  - destruct Hc as [x ->]. injection H as <-. reflexivity.
  - destruct Hc as (z & -> & Hz). injection H as <-. unfold INT_MIN, INT_MAX. lia.
  - destruct Hc as (z & -> & Hz). injection H as <-. unfold LONG_MIN, LONG_MAX. lia.
  - destruct Hc as [[z ->]|[x ->]]; injection H as <-; reflexivity.
  - destruct Hc as [[z ->]|[x ->]]; injection H as <-; reflexivity.
  - destruct Hc as [[z ->]|[x ->]]; injection H as <-; reflexivity.
  - destruct Hc as [x ->]. injection H as <-. reflexivity.
  - destruct Hc as (x & -> & Hl). injection H as <-. lia.
  - destruct Hc as (x & -> & Hin). injection H as <-. apply existsb_beqb. exact Hin.
  - destruct Hc as (l & Hs & Hl). apply as_sequence_items in Hs. rewrite Hs in H.
    destruct b; [reflexivity|]. apply all_items_false in H. apply Exists_exists in H. destruct H as (x & Hx & Hf).
    rewrite Forall_forall in Hl. exact (IH _ _ _ _ (Hl x Hx) _ _ Hf).
  - destruct Hc as (kv & -> & Hl).
    assert (Hk : forallb is_str_key kv = true).
    { apply forallb_forall. intros p Hp. rewrite Forall_forall in Hl. destruct (Hl p Hp) as [[k Hk] _].
      unfold is_str_key. rewrite Hk. reflexivity. }
    rewrite Hk in H. destruct b; [reflexivity|]. apply all_items_false in H. apply Exists_exists in H.
    destruct H as (x & Hx & Hf). apply in_map_iff in Hx. destruct Hx as (p & <- & Hp).
    rewrite Forall_forall in Hl. destruct (Hl p Hp) as [_ Hv]. exact (IH _ _ _ _ Hv _ _ Hf).
  - assert (HA : Exists (fun b => conforms n o e b v) bs -> any_branch (validate f o e) v bs = Ok b -> b = true).
    { intros HE HA. destruct b; [reflexivity|]. apply any_branch_false in HA. apply Exists_exists in HE.
      destruct HE as (c & Hin & Hcc). rewrite Forall_forall in HA. exact (IH _ _ _ _ Hcc _ _ (HA c Hin)). }
    destruct v; try (apply HA; [exact Hc|exact H]).
    destruct (disable_tuple o); [apply HA; [exact Hc|exact H]|].
    destruct Hc as (name & x & c & -> & Hf & Hcc). rewrite hinted_str, Hf in H. exact (IH _ _ _ _ Hcc _ _ H).
  - destruct Hc as (kv & -> & Hh & Hl). unfold type_hint_ok in Hh.
    assert (Hhint : match dict_get kv (s2b "-type") with
                    | Some (PStr t) => bytes_eqb t n0 | Some _ => false | None => true end = true).
    { destruct (dict_get kv (s2b "-type")) as [t|]; [|reflexivity]. subst t. apply beqb_refl. }
    rewrite Hhint in H. destruct b; [reflexivity|]. apply all_fields_false in H. apply Exists_exists in H.
    destruct H as (fd & Hfd & Hf). rewrite Forall_forall in Hl. specialize (Hl fd Hfd).
    unfold field_conforms in Hl. unfold field_value in Hf.
    destruct (dict_get kv (fname fd)) as [x|]; [exact (IH _ _ _ _ Hl _ _ Hf)|].
    destruct (fdefault fd) as [d|]; [exact (IH _ _ _ _ Hl _ _ Hf)|].
    destruct Hl as [Hs Hn]. destruct f as [|f]; [discriminate|]. cbn [validate] in Hf. rewrite Hs in Hf.
    exact (IH _ _ _ _ Hn _ _ Hf).
  - destruct Hc as (s' & Hl & Hcc). rewrite Hl in H. exact (IH _ _ _ _ Hcc _ _ H).
  - exact (IH _ _ _ _ Hc _ _ H).
Qed.

(** C10: whenever the validator answers, it answers True exactly on conforming data *)
Theorem validate_iff f o e s v b : validate f o e s (Some v) = Ok b -> (b = true <-> conformsP o e s v).
Proof.
  intros H. split.
  - intros ->. exists f. exact (validate_sound _ _ _ _ _ H).
  - intros [n Hn]. exact (validate_complete _ _ _ _ _ Hn _ _ H).
Qed.

(** *** raise_errors=True raises exactly where raise_errors=False answers False *)
Section RLoopsProofs.
  Variable rec : schema -> option pyval -> res bool.
  Variable rrec : schema -> option pyval -> vres.
  Hypothesis Hrec : forall s ov, rrec s ov = vres_of (rec s ov).

  Lemma rall_items_eq s l : rall_items rrec s l = vres_of (all_items rec s l).
  Proof.
    induction l as [|x l IH]; cbn [rall_items all_items]; [reflexivity|]. rewrite Hrec.
    destruct (rec s (Some x)) as [[|]| |]; cbn [bind vres_of]; [exact IH|reflexivity..].
  Qed.
  Lemma rall_fields_eq kv fs : rall_fields rrec kv fs = vres_of (all_fields rec kv fs).
  Proof.
    induction fs as [|fd fs IH]; cbn [rall_fields all_fields]; [reflexivity|]. rewrite Hrec.
    destruct (rec (ftype fd) _) as [[|]| |]; cbn [bind vres_of]; [exact IH|reflexivity..].
  Qed.
  Lemma rany_branch_eq v bs : rany_branch rrec v bs = vres_of (any_branch rec v bs).
  Proof.
    induction bs as [|b bs IH]; cbn [rany_branch any_branch]; [reflexivity|]. rewrite Hrec.
    destruct (rec b (Some v)) as [[|]| |]; cbn [bind vres_of]; [reflexivity|exact IH|reflexivity..].
  Qed.
  Lemma rhinted_eq name v bs : rhinted rrec name v bs = vres_of (hinted rec name v bs).
  Proof.
    induction bs as [|b bs IH]; cbn [rhinted hinted]; [reflexivity|].
    destruct name; try exact IH. destruct (bytes_eqb (branch_name b) s); [apply Hrec|exact IH].
  Qed.
End RLoopsProofs.

Lemma vbool_eq b : vbool b = vres_of (Ok b). Proof. destruct b; reflexivity. Qed.

Theorem validate_raise_eq : forall f o e s ov, validate_raise f o e s ov = vres_of (validate f o e s ov).
Proof.
  induction f as [|f IH]; intros o e s ov; [reflexivity|].
  cbn [validate_raise validate]. destruct ov as [v|].
  2:{ destruct (strict o); [reflexivity|apply IH]. }
  destruct s; try apply vbool_eq.
  - destruct (as_sequence v); [|reflexivity]. apply rall_items_eq. intros; apply IH.
  - destruct v; try reflexivity. destruct (forallb is_str_key kv); [|reflexivity]. apply rall_items_eq. intros; apply IH.
  - destruct v; try (apply rany_branch_eq; intros; apply IH).
    destruct (disable_tuple o); [apply rany_branch_eq; intros; apply IH|].
    destruct l as [|name [|x [|? ?]]]; try reflexivity. apply rhinted_eq. intros; apply IH.
  - destruct v; try reflexivity.
    destruct (match dict_get kv (s2b "-type") with Some (PStr t) => bytes_eqb t n | Some _ => false | None => true end);
      [|reflexivity]. apply rall_fields_eq. intros; apply IH.
  - destruct (lookup e n); [apply IH|reflexivity].
  - apply IH.
Qed.

Theorem validate_raise_iff f o e s ov : validate_raise f o e s ov = VRaised <-> validate f o e s ov = Ok false.
Proof.
  rewrite validate_raise_eq. destruct (validate f o e s ov) as [[|]| |]; cbn [vres_of]; split; intros H; try discriminate; reflexivity.
Qed.
Theorem validate_raise_true f o e s ov : validate_raise f o e s ov = VTrue <-> validate f o e s ov = Ok true.
Proof.
  rewrite validate_raise_eq. destruct (validate f o e s ov) as [[|]| |]; cbn [vres_of]; split; intros H; try discriminate; reflexivity.
Qed.

(** *** strict mode: a field that is absent and has no default is never accepted, whatever its type *)
Theorem validate_strict f o e n al fs kv fd :
  strict o = true -> In fd fs -> dict_get kv (fname fd) = None -> fdefault fd = None ->
  forall b, validate f o e (SRecord n al fs) (Some (PDict kv)) = Ok b -> b = false.
Proof.
  intros Hs Hin Hd Hdef b H. destruct b; [|reflexivity]. exfalso.
  destruct f as [|f]; [discriminate|]. cbn [validate] in H.
  destruct (match dict_get kv (s2b "-type") with Some (PStr t) => bytes_eqb t n | Some _ => false | None => true end);
    [|discriminate].
  apply all_fields_true in H. rewrite Forall_forall in H. specialize (H fd Hin).
  unfold field_value in H. rewrite Hd, Hdef in H. destruct f as [|f]; [discriminate|]. cbn [validate] in H.
  rewrite Hs in H. discriminate.
Qed.

(* ... and with enough fuel for the fields before it the answer IS False: stated through the raising mode as well *)
Corollary validate_strict_raise f o e n al fs kv fd :
  strict o = true -> In fd fs -> dict_get kv (fname fd) = None -> fdefault fd = None ->
  validate_raise f o e (SRecord n al fs) (Some (PDict kv)) <> VTrue.
Proof.
  intros Hs Hin Hd Hdef H. apply validate_raise_true in H.
  pose proof (validate_strict f o e n al fs kv fd Hs Hin Hd Hdef true H). discriminate.
Qed.

(** *** more fuel never changes the validator's answer *)
Definition vmono (r1 r2 : schema -> option pyval -> res bool) := forall s ov b, r1 s ov = Ok b -> r2 s ov = Ok b.

Section VMono.
  Variables r1 r2 : schema -> option pyval -> res bool.
  Hypothesis Hm : vmono r1 r2.
  Lemma all_items_mono s l b : all_items r1 s l = Ok b -> all_items r2 s l = Ok b.
  Proof.
    revert b; induction l as [|x l IH]; intros b H; cbn [all_items] in *; [exact H|].
    destruct (r1 s (Some x)) as [[|]| |] eqn:E; cbn [bind] in H; try discriminate; rewrite (Hm _ _ _ E); cbn [bind]; auto.
  Qed.
  Lemma all_fields_mono kv fs b : all_fields r1 kv fs = Ok b -> all_fields r2 kv fs = Ok b.
  Proof.
    revert b; induction fs as [|fd fs IH]; intros b H; cbn [all_fields] in *; [exact H|].
    destruct (r1 (ftype fd) _) as [[|]| |] eqn:E; cbn [bind] in H; try discriminate; rewrite (Hm _ _ _ E); cbn [bind]; auto.
  Qed.
  Lemma any_branch_mono v bs b : any_branch r1 v bs = Ok b -> any_branch r2 v bs = Ok b.
  Proof.
    revert b; induction bs as [|c bs IH]; intros b H; cbn [any_branch] in *; [exact H|].
    destruct (r1 c (Some v)) as [[|]| |] eqn:E; cbn [bind] in H; try discriminate; rewrite (Hm _ _ _ E); cbn [bind]; auto.
  Qed.
  Lemma hinted_mono name v bs b : hinted r1 name v bs = Ok b -> hinted r2 name v bs = Ok b.
  Proof.
    revert b; induction bs as [|c bs IH]; intros b H; cbn [hinted] in *; [exact H|].
    destruct name; auto. destruct (bytes_eqb (branch_name c) s); auto.
  Qed.
End VMono.

Lemma validate_fuel_S : forall f o e, vmono (validate f o e) (validate (S f) o e).
Proof.
  induction f as [|f IH]; intros o e s ov b H; [discriminate|].
  cbn [validate] in H. remember (S f) as f1. cbn [validate]. subst f1.
  destruct ov as [v|].
  2:{ destruct (strict o); [exact H|]. apply IH. exact H. }
  destruct s; try exact H.
  - destruct (as_sequence v); [|exact H]. eapply all_items_mono; [apply IH|exact H].
  - destruct v; try exact H. destruct (forallb is_str_key kv); [|exact H]. eapply all_items_mono; [apply IH|exact H].
  - destruct v; try (eapply any_branch_mono; [apply IH|exact H]).
    destruct (disable_tuple o); [eapply any_branch_mono; [apply IH|exact H]|].
    destruct l as [|name [|x [|? ?]]]; try exact H. eapply hinted_mono; [apply IH|exact H].
  - destruct v; try exact H.
    destruct (match dict_get kv (s2b "-type") with Some (PStr t) => bytes_eqb t n | Some _ => false | None => true end);
      [|exact H]. eapply all_fields_mono; [apply IH|exact H].
  - destruct (lookup e n); [|exact H]. apply IH. exact H.
  - apply IH. exact H.
Qed.

Theorem validate_fuel_mono f f' o e : (f <= f')%nat -> vmono (validate f o e) (validate f' o e).
Proof. induction 1 as [|f' _ IH]; intros s ov b H; [exact H|]. apply validate_fuel_S. apply IH. exact H. Qed.

(** *** elaboration: inversion of the writer's loops, generically in the recursive call *)
Ltac inv_w H :=
  match type of H with
  | wbind ?x _ = WOk _ => let E := fresh "E" in destruct x eqn:E; cbn [wbind] in H; try discriminate H
  end.

Section ElabLoops.
  Variable rec : schema -> pyval -> wres aval.

  Lemma elab_items_inv s l : forall r, elab_items rec s l = WOk r -> Forall2 (fun v a => rec s v = WOk a) l r.
  Proof.
    induction l as [|x l IH]; intros r H; cbn [elab_items] in H.
    - injection H as <-. constructor.
    - inv_w H. inv_w H. injection H as <-. constructor; [exact E|apply IH; reflexivity].
  Qed.

  Lemma elab_map_inv s kv : forall r, elab_map rec s kv = WOk r ->
    Forall2 (fun p q => fst p = PStr (fst q) /\ rec s (snd p) = WOk (snd q)) kv r.
  Proof.
    induction kv as [|[k x] kv IH]; intros r H; cbn [elab_map] in H.
    - injection H as <-. constructor.
    - destruct k; try discriminate. inv_w H. inv_w H. injection H as <-.
      constructor; [split; [reflexivity|exact E]|apply IH; reflexivity].
  Qed.

  (* the datum handed to the field's writer *)
  Definition field_datum (kv : list (pyval * pyval)) (fd : field) : pyval :=
    match dict_get kv (fname fd) with
    | Some v => v
    | None => match fdefault fd with Some d => d | None => PNone end
    end.
  Definition field_arg (kv : list (pyval * pyval)) (fd : field) (v' : pyval) : Prop :=
    match ftype fd with
    | SFloat | SDouble => exists b, to_double (field_datum kv fd) = WOk b /\ v' = PFloat b
    | _ => v' = field_datum kv fd
    end.

  Lemma elab_fields_inv o kv fs : forall r, elab_fields rec o kv fs = WOk r ->
    Forall2 (fun fd a => exists v', field_arg kv fd v' /\ rec (ftype fd) v' = WOk a) fs r.
  Proof.
    induction fs as [|fd fs IH]; intros r H; cbn [elab_fields] in H.
    - injection H as <-. constructor.
    - destruct (negb (key_in kv (fname fd)) && (strict o || strict_allow_default o && negb match fdefault fd with Some _ => true | None => false end)); [discriminate|].
      destruct (negb (key_in kv (fname fd)) && negb match fdefault fd with Some _ => true | None => false end && negb (nullok (ftype fd))); [discriminate|].
      fold (field_datum kv fd) in H.
      inv_w H. inv_w H. inv_w H. injection H as <-. constructor; [|apply IH; reflexivity].
      exists x. split; [|exact E0]. unfold field_arg.
      destruct (ftype fd); try (injection E as <-; reflexivity);
        (inv_w E; injection E as <-; eexists; split; reflexivity).
  Qed.
End ElabLoops.

Definition union_go f o e bs (i : Z) (v' : pyval) : wres aval :=
  match nthZ bs i with
  | Some b => let+ a := elab f o e b v' in WOk (AUnion i a)
  | None => WErr
  end.
Definition union_search f o e bs (v : pyval) : wres aval :=
  let+ i := of_res (choose (fun c x => validate f o e c (Some x)) e v bs 0 (-1) (-1) false) in
  if i <? 0 then WErr else union_go f o e bs i v.

Lemma elab_union_eq f o e bs v :
  elab (S f) o e (SUnion bs) v =
  match v with
  | PTuple l =>
      if disable_tuple o then union_search f o e bs v
      else match l with
           | [PStr name; v'] => match find_named name bs 0 with Some i => union_go f o e bs i v' | None => WErr end
           | _ => WErr
           end
  | _ => union_search f o e bs v
  end.
Proof.
  destruct v; try reflexivity. cbn [elab]. destruct (disable_tuple o); [reflexivity|].
  destruct l as [|[] [|? [|? ?]]]; reflexivity.
Qed.

Definition hinted_by (o : wopts) (v : pyval) : Prop := exists l, v = PTuple l /\ disable_tuple o = false.

Lemma elab_union_inv f o e bs v a : elab (S f) o e (SUnion bs) v = WOk a ->
  exists i b v' a0, a = AUnion i a0 /\ nthZ bs i = Some b /\ elab f o e b v' = WOk a0 /\
    ((v' = v /\ ~ hinted_by o v /\ choose (fun c x => validate f o e c (Some x)) e v bs 0 (-1) (-1) false = Ok i)
     \/ (exists nm, v = PTuple [PStr nm; v'] /\ disable_tuple o = false /\ find_named nm bs 0 = Some i)).
Proof.
  rewrite elab_union_eq. intros H.
  assert (Hgo : forall i v', union_go f o e bs i v' = WOk a ->
            exists b a0, a = AUnion i a0 /\ nthZ bs i = Some b /\ elab f o e b v' = WOk a0).
  { intros i v' Hg. unfold union_go in Hg. destruct (nthZ bs i) as [b|]; [|discriminate]. inv_w Hg. injection Hg as <-.
    exists b, x. repeat split; exact E. }
  assert (Hs : union_search f o e bs v = WOk a -> ~ hinted_by o v ->
            exists i b v' a0, a = AUnion i a0 /\ nthZ bs i = Some b /\ elab f o e b v' = WOk a0 /\
    ((v' = v /\ ~ hinted_by o v /\ choose (fun c x => validate f o e c (Some x)) e v bs 0 (-1) (-1) false = Ok i)
     \/ (exists nm, v = PTuple [PStr nm; v'] /\ disable_tuple o = false /\ find_named nm bs 0 = Some i))).
  { intros Hs Hnh. unfold union_search in Hs.
    destruct (choose _ e v bs 0 (-1) (-1) false) as [i| |] eqn:Ec; cbn [of_res wbind] in Hs; try discriminate.
    destruct (i <? 0); [discriminate|]. destruct (Hgo _ _ Hs) as (b & a0 & H1 & H2 & H3).
    exists i, b, v, a0. repeat split; try assumption. left. repeat split; assumption. }
  destruct v; try (apply Hs; [exact H|intros (? & Hl & _); discriminate]).
  destruct (disable_tuple o) eqn:Ed; [apply Hs; [exact H|intros (l' & _ & Hd); congruence]|].
  destruct l as [|[| | | |nm| | | | |] [|x [|? ?]]]; try discriminate.
  destruct (find_named nm bs 0) as [i|] eqn:Ef; [|discriminate].
  destruct (Hgo _ _ H) as (b & a0 & H1 & H2 & H3). exists i, b, x, a0. repeat split; try assumption.
  right. exists nm. repeat split; assumption.
Qed.

(** *** well-formedness plumbing *)
Lemma bytes_okb_ok b : bytes_okb b = true -> bytes_ok b.
Proof.
  unfold bytes_okb, bytes_ok. intros H. apply andb_prop in H. destruct H as [H1 H2]. split; [|lia].
  rewrite forallb_forall in H1. apply Forall_forall. intros x Hx. specialize (H1 x Hx). unfold is_byteb, is_byte in *. lia.
Qed.

Lemma wf_str s : wf_py (PStr s) = true -> key_ok s.
Proof. cbn [wf_py]. intros H. apply andb_prop in H. destruct H as [H1 H2]. split; [apply bytes_okb_ok; exact H1|exact H2]. Qed.

Lemma dict_get_in kv k x : dict_get kv k = Some x -> exists k', In (k', x) kv.
Proof.
  induction kv as [|[k0 x0] kv IH]; cbn [dict_get]; intros H; [discriminate|].
  destruct k0; try (destruct (IH H) as [k' Hk]; exists k'; right; exact Hk).
  destruct (bytes_eqb s k).
  - injection H as <-. eexists. left. reflexivity.
  - destruct (IH H) as [k' Hk]. exists k'. right. exact Hk.
Qed.

Lemma wf_dict_get kv k x : wf_py (PDict kv) = true -> dict_get kv k = Some x -> wf_py x = true.
Proof.
  cbn [wf_py]. intros H Hg. apply andb_prop in H. destruct H as [_ H]. rewrite forallb_forall in H.
  destruct (dict_get_in _ _ _ Hg) as [k' Hin]. specialize (H _ Hin). cbn [fst snd] in H. apply andb_prop in H. apply H.
Qed.

Lemma lookup_in e n s : lookup e n = Some s -> exists k, In (k, s) e.
Proof.
  induction e as [|[k s0] e IH]; cbn [lookup]; intros H; [discriminate|].
  destruct (bytes_eqb k n).
  - injection H as <-. eexists. left. reflexivity.
  - destruct (IH H) as [k' Hk]. exists k'. right. exact Hk.
Qed.
Lemma wf_lookup e n s : wf_env e = true -> lookup e n = Some s -> wf_schema s = true.
Proof.
  unfold wf_env. intros H Hl. rewrite forallb_forall in H. destruct (lookup_in _ _ _ Hl) as [k Hin]. exact (H _ Hin).
Qed.

Lemma nthZ_In {A} (l : list A) : forall i x, nthZ l i = Some x -> In x l.
Proof.
  induction l as [|a l IH]; intros i x H; cbn [nthZ] in H; [discriminate|].
  destruct (i =? 0); [injection H as <-; left; reflexivity|]. destruct (i <? 0); [discriminate|]. right. eapply IH. exact H.
Qed.

Lemma Forall2_len {A B} (R : A -> B -> Prop) l r : Forall2 R l r -> len l = len r.
Proof. intros H. unfold len. f_equal. induction H; cbn [List.length]; [reflexivity|]. rewrite IHForall2. reflexivity. Qed.

Lemma Forall2_to_r {A B} (R : A -> B -> Prop) (P : A -> Prop) (Q T : B -> Prop) l r :
  Forall2 R l r -> Forall P l -> Forall Q r -> (forall x y, R x y -> P x -> Q y -> T y) -> Forall T r.
Proof.
  intros H; induction H as [|x y l r Hxy _ IH]; intros HP HQ HT; [constructor|].
  inversion HP; subst. inversion HQ; subst. constructor; [eapply HT; eassumption|apply IH; assumption].
Qed.

Lemma forallb_Forall {A} (p : A -> bool) l : forallb p l = true -> Forall (fun x => p x = true) l.
Proof. intros H. apply Forall_forall. apply forallb_forall. exact H. Qed.

Lemma index_of_range syms x : forall i0 i, index_of syms x i0 = Some i -> i0 <= i < i0 + len syms.
Proof.
  induction syms as [|s syms IH]; intros i0 i H; cbn [index_of] in H; [discriminate|]. rewrite len_cons.
  pose proof (len_nonneg syms). destruct (bytes_eqb s x); [injection H as <-; lia|]. specialize (IH _ _ H). lia.
Qed.

(** *** C01 [elab_typed]: what the writer elaborates is a well-typed wire value, of height <= the fuel *)
Theorem elab_typedn : forall f o e s v a,
  elab f o e s v = WOk a -> wf_env e = true -> wf_schema s = true -> wf_py v = true -> floats_ok a = true ->
  typedn f e s a.
Proof.
  induction f as [|f IH]; intros o e s v a H He Hs Hv Ha; [discriminate|].
  destruct s.
  - cbn [elab] in H. destruct v; try discriminate. injection H as <-. exact I.
  - cbn [elab] in H. destruct v; try discriminate. injection H as <-. exact I.
  - cbn [elab] in H. destruct v; try discriminate. destruct ((INT_MIN <=? z) && (z <=? INT_MAX)) eqn:E; [|discriminate].
    injection H as <-. cbn [typedn]. unfold in_int32, INT_MIN, INT_MAX in *. lia.
  - cbn [elab] in H. destruct v; try discriminate. destruct ((LONG_MIN <=? z) && (z <=? LONG_MAX)) eqn:E; [|discriminate].
    injection H as <-. cbn [typedn]. unfold in_int64, LONG_MIN, LONG_MAX in *. lia.
  - cbn [elab] in H. destruct v; try discriminate; inv_w H; inv_w H; injection H as <-; cbn [typedn floats_ok] in *; lia.
  - cbn [elab] in H. destruct v; try discriminate; inv_w H; injection H as <-; cbn [typedn floats_ok] in *; lia.
  - cbn [elab] in H. destruct v; try discriminate; injection H as <-; cbn [typedn]; apply bytes_okb_ok; exact Hv.
  - cbn [elab] in H. destruct v; try discriminate. injection H as <-. cbn [typedn]. apply wf_str. exact Hv.
  - cbn [elab] in H. destruct v; try discriminate.
    + destruct (len b =? size) eqn:E; [|discriminate]. injection H as <-. cbn [typedn]. split; [lia|apply bytes_okb_ok; exact Hv].
    + destruct (len b =? size); discriminate.
  - cbn [elab] in H. destruct v; try discriminate. destruct (index_of syms s 0) as [i|] eqn:E; [|discriminate].
    injection H as <-. cbn [typedn]. apply index_of_range in E. cbn [wf_schema] in Hs. lia.
  - (* array *)
    cbn [wf_schema] in Hs.
    assert (Hitems : forall l r, elab_items (elab f o e) s l = WOk r -> len l < 2 ^ 63 -> Forall (fun x => wf_py x = true) l ->
              floats_ok (AArray r) = true -> typedn (S f) e (SArray s) (AArray r)).
    { intros l r Hi Hlen Hwf Hfl. apply elab_items_inv in Hi. cbn [typedn]. split; [rewrite <- (Forall2_len _ _ _ Hi); exact Hlen|].
      cbn [floats_ok] in Hfl. apply forallb_Forall in Hfl.
      eapply Forall2_to_r; [exact Hi|exact Hwf|exact Hfl|]. intros x y Hxy Hx Hy. cbn beta in *. eapply IH; eassumption. }
    cbn [elab] in H. destruct v; try discriminate; inv_w H; injection H as <-.
    + cbn [wf_py] in Hv. apply andb_prop in Hv. destruct Hv as [Hl Hw]. apply (Hitems _ _ E); [unfold len in *; rewrite map_length; lia| |exact Ha].
      apply Forall_forall. intros y Hy. apply in_map_iff in Hy. destruct Hy as (z & <- & _). reflexivity.
    + cbn [wf_py] in Hv. apply andb_prop in Hv. destruct Hv as [Hl Hw]. apply (Hitems _ _ E); [unfold len in *; rewrite map_length; lia| |exact Ha].
      apply Forall_forall. intros y Hy. apply in_map_iff in Hy. destruct Hy as (z & <- & _). reflexivity.
    + cbn [wf_py] in Hv. apply andb_prop in Hv. destruct Hv as [Hl Hw]. apply (Hitems _ _ E); [lia|apply forallb_Forall; exact Hw|exact Ha].
    + cbn [wf_py] in Hv. apply andb_prop in Hv. destruct Hv as [Hl Hw]. apply (Hitems _ _ E); [lia|apply forallb_Forall; exact Hw|exact Ha].
  - (* map *)
    cbn [wf_schema] in Hs. cbn [elab] in H. destruct v; try discriminate. inv_w H. injection H as <-.
    apply elab_map_inv in E. cbn [typedn]. cbn [wf_py] in Hv. apply andb_prop in Hv. destruct Hv as [Hv Hw].
    apply andb_prop in Hv. destruct Hv as [Hl _]. assert (Hlen : len kv = @len (bytes * aval) x) by exact (Forall2_len _ _ _ E). split; [lia|].
    cbn [floats_ok] in Ha. apply forallb_Forall in Ha. apply forallb_Forall in Hw.
    eapply Forall2_to_r; [exact E|exact Hw|exact Ha|]. intros [k x] [k' y] [Hk Hxy] Hx Hy. cbn [fst snd] in *. subst k.
    apply andb_prop in Hx. destruct Hx as [Hx1 Hx2]. split; [apply wf_str; exact Hx1|]. eapply IH; eassumption.
  - (* union *)
    apply elab_union_inv in H. destruct H as (i & b & v' & a0 & -> & Hn & Hel & Hcase).
    cbn [wf_schema] in Hs. apply andb_prop in Hs. destruct Hs as [Hlen Hbs].
    cbn [typedn]. pose proof (nthZ_range _ _ _ Hn). split; [lia|]. exists b. split; [exact Hn|].
    rewrite forallb_forall in Hbs. eapply IH; [exact Hel|exact He|apply Hbs; eapply nthZ_In; exact Hn| |exact Ha].
    destruct Hcase as [(-> & _)|(nm & -> & _)]; [exact Hv|].
    cbn [wf_py forallb] in Hv. apply andb_prop in Hv. destruct Hv as [_ Hv].
    apply andb_prop in Hv. destruct Hv as [_ Hv]. apply andb_prop in Hv. apply Hv.
  - (* record *)
    cbn [elab] in H. destruct v; try discriminate.
    destruct ((strict o || strict_allow_default o) && has_extras kv fs); [discriminate|]. inv_w H. injection H as <-.
    apply elab_fields_inv in E. cbn [typedn]. cbn [wf_schema] in Hs. apply forallb_Forall in Hs.
    cbn [floats_ok] in Ha. apply forallb_Forall in Ha.
    assert (Hg : Forall2 (fun fd a => typedn f e (ftype fd) a) fs x); [|exact Hg].
    clear - E Hs Ha IH He Hv. induction E as [|fd y fs r (v' & Harg & Hel) _ IHl]; [constructor|].
    inversion Hs as [|? ? Hs1 Hs2]; subst. inversion Ha as [|? ? Ha1 Ha2]; subst. constructor; [|apply IHl; assumption].
    apply andb_prop in Hs1. destruct Hs1 as [Hst Hsd].
    eapply IH; [exact Hel|exact He|exact Hst| |exact Ha1].
    assert (Hfd : wf_py (field_datum kv fd) = true).
    { unfold field_datum. destruct (dict_get kv (fname fd)) as [x0|] eqn:Eg; [eapply wf_dict_get; eassumption|].
      destruct (fdefault fd); [exact Hsd|reflexivity]. }
    unfold field_arg in Harg. destruct (ftype fd); try (subst v'; exact Hfd); destruct Harg as (b & _ & ->); reflexivity.
  - (* reference *)
    cbn [elab] in H. destruct (lookup e n) as [s'|] eqn:El; [|discriminate].
    apply typedn_ref. exists s'. split; [exact El|]. eapply IH; [exact H|exact He|eapply wf_lookup; eassumption|exact Hv|exact Ha].
  - cbn [elab] in H. apply typedn_annot. cbn [wf_schema] in Hs. eapply IH; eassumption.
Qed.

Theorem elab_typed f o e s v a :
  elab f o e s v = WOk a -> wf_env e = true -> wf_schema s = true -> wf_py v = true -> floats_ok a = true ->
  exists n, (n <= f)%nat /\ typedn n e s a.
Proof. intros. exists f. split; [lia|]. eapply elab_typedn; eassumption. Qed.
