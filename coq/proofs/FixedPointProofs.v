(** C13_fixed_point: the parser accepts the canonical JSON of every schema it accepts (in the class
    ns_closed), with the same names and table keys; hence canonicalising the canonical form again
    gives the same text. *)
From Coq Require Import String Ascii Lia.
From FA Require Import model.Base model.Json model.Parse model.SchemaSpec model.Inline model.Canon
     proofs.JsonProofs proofs.ParseProofs proofs.CanonProofs proofs.AcceptProofs proofs.PiecewiseProofs.
Open Scope string_scope.

(* the two parser states agree on which names are defined and which are in the table *)
Definition st_equiv (a b : pstate) : Prop :=
  (forall n, mem n (st_names a) = mem n (st_names b)) /\ (forall n, jhas n (st_tbl a) = jhas n (st_tbl b)).

Lemma st_equiv_declare a b full va vb :
  st_equiv a b -> st_equiv (set_tbl full va (declared full a)) (set_tbl full vb (declared full b)).
Proof.
  intros [N T]. split; intros n; cbn [set_tbl declared st_names st_tbl].
  - rewrite !mem_app, N. reflexivity.
  - destruct (String.eqb_spec n full) as [->|NE]; [now rewrite !jhas_jset_eq|].
    rewrite !jhas_jset_neq by (now apply String.eqb_neq). apply T.
Qed.

Lemma st_equiv_set a b full va vb : st_equiv a b -> st_equiv (set_tbl full va a) (set_tbl full vb b).
Proof.
  intros [N T]. split; intros n; cbn [set_tbl st_names st_tbl]; [apply N|].
  destruct (String.eqb_spec n full) as [->|NE]; [now rewrite !jhas_jset_eq|].
  rewrite !jhas_jset_neq by (now apply String.eqb_neq). apply T.
Qed.

Lemma decimal_checks_plain parsed kv ty : jget "logicalType" parsed = None -> decimal_checks parsed kv ty = POk tt.
Proof. intros H. unfold decimal_checks. now rewrite H. Qed.

Lemma spec_ref_idem ns s : spec_ref ns (spec_ref ns s) = spec_ref ns s.
Proof.
  unfold spec_ref. destruct (has_dot s) eqn:D; [now rewrite D|].
  destruct (String.eqb ns ""); [now rewrite D|now rewrite has_dot_join].
Qed.

Lemma spec_ref_nonprim ns s : is_prim s = false -> is_prim (spec_ref ns s) = false.
Proof. intros P. rewrite <- qualify_spec. now apply qualify_nonprim. Qed.

(* the full name written into the canonical JSON is read back as itself when it is dotted or the
   enclosing namespace is null *)
Lemma schema_name_canon ns full rest :
  has_dot full || String.eqb ns "" = true -> jget "namespace" rest = None ->
  schema_name (("name", JStr full) :: rest) ns = POk ((if has_dot full then before_last_dot full else ""), full).
Proof.
  intros H NS. unfold schema_name. cbn [jget String.eqb Ascii.eqb Bool.eqb].
  destruct (has_dot full) eqn:D; [reflexivity|]. cbn [orb] in H. apply String.eqb_eq in H. subst ns.
  rewrite NS. reflexivity.
Qed.

Definition canon_accept_spec (rec : recfun) : Prop :=
  forall j ns wh st d p st' wh2 st2,
    simple_m j PSchema = true -> ns_closed_m j PSchema ns = true ->
    rec j ns wh st d = POk (p, st') -> st_equiv st st2 ->
    exists p2 st2', rec (pcf_json_in ns j) ns wh2 st2 None = POk (p2, st2') /\ st_equiv st' st2'.

Section CanonAcceptStep.
  Variable rec : recfun.
  Hypothesis IH : canon_accept_spec rec.

  Lemma parse_field_canon ns nm cty st :
    parse_field rec ns (JObj [("name", nm); ("type", cty)]) st =
    (let+ (p, st1) := rec cty ns false st None in POk (JObj (jset "type" p (jset "name" nm [])), st1)).
  Proof. reflexivity. Qed.

  Lemma members_canon ns l st ps st' : members_ok rec ns l st ps st' ->
    forallb (fun j => simple_m j PSchema) l = true -> forallb (fun j => ns_closed_m j PSchema ns) l = true ->
    forall st2, st_equiv st st2 ->
    exists ps2 st2', parse_members rec ns (map (pcf_json_in ns) l) st2 = POk (ps2, st2') /\ st_equiv st' st2'.
  Proof.
    induction 1 as [st|s r st p st1 ps st3 R M IHM]; intros S C st2 E; cbn [map parse_members].
    - eauto.
    - cbn [forallb] in S, C. apply Bool.andb_true_iff in S. apply Bool.andb_true_iff in C. destruct S as [S1 S2], C as [C1 C2].
      destruct (IH _ _ _ _ _ _ _ false st2 S1 C1 R E) as (p2 & st2a & P2 & E2). rewrite P2. cbn [pbind].
      destruct (IHM S2 C2 _ E2) as (ps2 & st2b & P3 & E3). rewrite P3. cbn [pbind]. eauto.
  Qed.

  Lemma field_canon ns fd st p st' : field_ok rec ns fd st p st' ->
    simple_m fd PField = true -> ns_closed_m fd PField ns = true ->
    forall st2, st_equiv st st2 ->
    exists p2 st2', parse_field rec ns (pcf_m fd PField ns) st2 = POk (p2, st2') /\ st_equiv st' st2'.
  Proof.
    intros F S C st2 E. destruct F as [fkv nm ty st p st1 N T R].
    rewrite simple_m_obj in S. cbn zeta in S. rewrite N, bsub_map, T in S.
    destruct nm as [| | | |nm| |]; try discriminate S. cbn [andb] in S.
    rewrite ns_closed_m_obj in C. cbn zeta in C. rewrite csub_map, T in C.
    rewrite pcf_m_obj. unfold pcf_obj, attr. rewrite N, psub_map, T. rewrite parse_field_canon.
    destruct (IH _ _ _ _ _ _ _ false st2 S C R E) as (p2 & st2a & P2 & E2).
    unfold pcf_json_in in P2. rewrite P2. cbn [pbind]. eauto.
  Qed.

  Lemma fields_canon ns l st ps st' : fields_ok rec ns l st ps st' ->
    forallb (fun j => simple_m j PField) l = true -> forallb (fun j => ns_closed_m j PField ns) l = true ->
    forall st2, st_equiv st st2 ->
    exists ps2 st2', parse_fields rec ns (map (fun f => pcf_m f PField ns) l) st2 = POk (ps2, st2') /\ st_equiv st' st2'.
  Proof.
    induction 1 as [st|s r st p st1 ps st3 R M IHM]; intros S C st2 E; cbn [map parse_fields].
    - eauto.
    - cbn [forallb] in S, C. apply Bool.andb_true_iff in S. apply Bool.andb_true_iff in C. destruct S as [S1 S2], C as [C1 C2].
      destruct (field_canon _ _ _ _ _ R S1 C1 _ E) as (p2 & st2a & P2 & E2). rewrite P2. cbn [pbind].
      destruct (IHM S2 C2 _ E2) as (ps2 & st2b & P3 & E3). rewrite P3. cbn [pbind]. eauto.
  Qed.

  Lemma closed_named ns kv t : jget "type" kv = Some (JStr t) -> named_type t ->
    ns_closed_m (JObj kv) PSchema ns = true -> has_dot (spec_fullname ns kv) || String.eqb ns "" = true.
  Proof.
    intros T N C. rewrite ns_closed_m_obj in C. cbn zeta in C. rewrite !(type_is_eq _ _ T) in C.
    destruct N as [-> | [-> | [-> | ->]]]; cbn [String.eqb Ascii.eqb Bool.eqb orb] in C;
      try exact C; apply Bool.andb_true_iff in C; tauto.
  Qed.

  Lemma node_canon : canon_accept_spec (parse_node rec).
  Proof.
    intros j ns wh st d p st' wh2 st2 S C H E. apply parse_node_inv in H.
    destruct H as [s ns wh st d P|s ns wh st d P J|l ns wh st d ps st' M|kv t ns wh st d T P
                   |kv it ns wh st d p st' T I R|kv it ns wh st d p st' T I R
                   |kv ns wh st d ns' full syms ss T SN D SY SS ND parsed
                   |kv ns wh st d ns' full sz T SN D SZ parsed
                   |kv t ns wh st d ns' full fl fs st3 T TT SN D FL FS reckv].
    - unfold pcf_json_in, pcf_m. cbn [jfold]. rewrite <- is_prim_spec, P. cbn [parse_node]. rewrite P. do 2 eexists; split; [reflexivity|exact E].
    - unfold pcf_json_in, pcf_m. cbn [jfold]. rewrite <- is_prim_spec, P. cbn [parse_node].
      rewrite (spec_ref_nonprim _ _ P), qualify_spec, spec_ref_idem, <- qualify_spec.
      rewrite <- (proj2 E), J. do 2 eexists; split; [reflexivity|exact E].
    - rewrite simple_arr in S. rewrite ns_closed_arr in C. rewrite pcf_arr. cbn [parse_node].
      destruct (members_canon _ _ _ _ _ M S C _ E) as (ps2 & st2' & P2 & E2). rewrite P2. cbn [pbind]. eauto.
    - rewrite pcf_json_in_obj. unfold pcf_obj. rewrite T, <- is_prim_spec, P. cbn [parse_node]. rewrite P. do 2 eexists; split; [reflexivity|exact E].
    - (* array *)
      rewrite simple_m_obj in S. cbn zeta in S. rewrite (type_is_eq _ _ T) in S. cbn [String.eqb Ascii.eqb Bool.eqb] in S.
      rewrite bsub_map, I in S.
      rewrite ns_closed_m_obj in C. cbn zeta in C. rewrite (type_is_eq _ _ T) in C. cbn [String.eqb Ascii.eqb Bool.eqb] in C.
      rewrite csub_map, I in C.
      rewrite pcf_json_in_obj. unfold pcf_obj. rewrite T.
      cbn [spec_is_prim mem existsb spec_prims String.eqb Ascii.eqb Bool.eqb orb]. rewrite psub_map, I.
      destruct (IH _ _ _ _ _ _ _ false st2 S C R E) as (p2 & st2' & P2 & E2). unfold pcf_json_in in P2.
      cbn [parse_node]. unfold parse_dict. cbn [jget String.eqb Ascii.eqb Bool.eqb].
      rewrite decimal_checks_plain by reflexivity. cbn [pbind]. rewrite P2. cbn [pbind check_default]. eauto.
    - (* map *)
      rewrite simple_m_obj in S. cbn zeta in S. rewrite !(type_is_eq _ _ T) in S. cbn [String.eqb Ascii.eqb Bool.eqb] in S.
      rewrite bsub_map, I in S.
      rewrite ns_closed_m_obj in C. cbn zeta in C. rewrite !(type_is_eq _ _ T) in C. cbn [String.eqb Ascii.eqb Bool.eqb] in C.
      rewrite csub_map, I in C.
      rewrite pcf_json_in_obj. unfold pcf_obj. rewrite T.
      cbn [spec_is_prim mem existsb spec_prims String.eqb Ascii.eqb Bool.eqb orb]. rewrite psub_map, I.
      destruct (IH _ _ _ _ _ _ _ false st2 S C R E) as (p2 & st2' & P2 & E2). unfold pcf_json_in in P2.
      cbn [parse_node]. unfold parse_dict. cbn [jget String.eqb Ascii.eqb Bool.eqb].
      rewrite decimal_checks_plain by reflexivity. cbn [pbind]. rewrite P2. cbn [pbind check_default]. eauto.
    - (* enum *)
      pose proof (closed_named _ _ _ T ltac:(left; reflexivity) C) as CN.
      apply schema_name_spec in SN. destruct SN as (-> & -> & NM).
      rewrite pcf_json_in_obj. unfold pcf_obj, attr. rewrite T, SY.
      cbn [spec_is_prim mem existsb spec_prims String.eqb Ascii.eqb Bool.eqb orb].
      cbn [parse_node]. unfold parse_dict. cbn [jget String.eqb Ascii.eqb Bool.eqb].
      rewrite decimal_checks_plain by reflexivity. cbn [pbind].
      rewrite (schema_name_canon ns _ _ CN) by reflexivity. cbn [pbind]. unfold declare.
      rewrite <- (proj1 E), D. cbn [pbind]. unfold validate_enum_symbols. cbn [jget String.eqb Ascii.eqb Bool.eqb].
      rewrite SS, ND. cbn [negb pbind check_default]. do 2 eexists. split; [reflexivity|]. now apply st_equiv_declare.
    - (* fixed *)
      pose proof (closed_named _ _ _ T ltac:(right; left; reflexivity) C) as CN.
      apply schema_name_spec in SN. destruct SN as (-> & -> & NM).
      rewrite pcf_json_in_obj. unfold pcf_obj, attr. rewrite T, SZ.
      cbn [spec_is_prim mem existsb spec_prims String.eqb Ascii.eqb Bool.eqb orb].
      cbn [parse_node]. unfold parse_dict. cbn [jget String.eqb Ascii.eqb Bool.eqb].
      rewrite decimal_checks_plain by reflexivity. cbn [pbind].
      rewrite (schema_name_canon ns _ _ CN) by reflexivity. cbn [pbind]. unfold declare.
      rewrite <- (proj1 E), D. cbn [pbind check_default]. do 2 eexists. split; [reflexivity|]. now apply st_equiv_declare.
    - (* record / error *)
      assert (NT : named_type t) by (destruct TT as [-> | ->]; unfold named_type; auto).
      pose proof (closed_named _ _ _ T NT C) as CN.
      apply schema_name_spec in SN. destruct SN as (-> & -> & NM).
      assert (SFL : forallb (fun j => simple_m j PField) fl = true).
      { rewrite simple_m_obj in S. cbn zeta in S. rewrite !(type_is_eq _ _ T) in S.
        destruct FL as [FL|[FL ->]]; [|reflexivity].
        destruct TT as [-> | ->]; cbn [String.eqb Ascii.eqb Bool.eqb orb] in S; rewrite bsub_map, FL in S;
          now rewrite <- simple_fields. }
      assert (CFL : forallb (fun j => ns_closed_m j PField (spec_namespace ns kv)) fl = true).
      { rewrite ns_closed_m_obj in C. cbn zeta in C. rewrite !(type_is_eq _ _ T) in C.
        destruct FL as [FL|[FL ->]]; [|reflexivity].
        destruct TT as [-> | ->]; cbn [String.eqb Ascii.eqb Bool.eqb orb] in C; apply Bool.andb_true_iff in C; destruct C as [_ C];
          rewrite csub_map, FL, ns_closed_arr in C; exact C. }
      assert (PF : match jget "fields" (map (fun p => (fst p, pcf_m (snd p))) kv) with
                   | Some r => r PFields (spec_namespace ns kv)
                   | None => JArr []
                   end = JArr (map (fun f => pcf_m f PField (spec_namespace ns kv)) fl)).
      { rewrite jget_map. destruct FL as [FL|[FL ->]]; rewrite FL; cbn [option_map]; [apply pcf_fields|reflexivity]. }
      rewrite pcf_json_in_obj. unfold pcf_obj. rewrite T, PF.
      assert (TYP : (if String.eqb t "record" || String.eqb t "error" then true else false) = true)
        by (destruct TT as [-> | ->]; reflexivity).
      assert (NP : spec_is_prim t = false) by (destruct TT as [-> | ->]; reflexivity).
      assert (NA : String.eqb t "array" = false /\ String.eqb t "map" = false /\ String.eqb t "enum" = false /\ String.eqb t "fixed" = false)
        by (destruct TT as [-> | ->]; repeat split; reflexivity).
      destruct NA as (N1 & N2 & N3 & N4). rewrite NP, N1, N2, N3, N4.
      destruct (String.eqb t "record" || String.eqb t "error"); [|discriminate TYP].
      cbn [parse_node]. unfold parse_dict. cbn [jget String.eqb Ascii.eqb Bool.eqb orb].
      rewrite decimal_checks_plain by reflexivity. cbn [pbind].
      rewrite (schema_name_canon ns _ _ CN) by reflexivity. cbn [pbind]. unfold declare.
      rewrite <- (proj1 E), D. cbn [pbind check_default].
      (* the namespace the fields are read in is the same *)
      assert (NSE : (if has_dot (spec_fullname ns kv) then before_last_dot (spec_fullname ns kv) else "") = spec_namespace ns kv).
      { destruct (names_rel ns kv) as [R1 R2]. destruct (has_dot (spec_fullname ns kv)); [now apply R1|symmetry; now apply R2]. }
      rewrite NSE.
      match goal with |- context [parse_fields rec ?n ?l ?s] =>
        destruct (fields_canon n fl _ _ _ FS SFL CFL s) as (fs2 & st2b & PF2 & E2) end.
      { now apply st_equiv_declare. }
      rewrite PF2. cbn [pbind].
      destruct wh2; do 2 eexists; (split; [reflexivity|]); now apply st_equiv_set.
  Qed.
End CanonAcceptStep.

Theorem parse_rec_canon f : canon_accept_spec (parse_rec f).
Proof.
  induction f as [|f IH]; cbn [parse_rec].
  - intros j ns wh st d p st' wh2 st2 _ _ H. discriminate H.
  - apply node_canon. exact IH.
Qed.

(** ---- the canonical JSON stays in the class simple_raw ---- *)
Lemma simple_m_arr l m :
  simple_m (JArr l) m = forallb (fun j => simple_m j (match m with PFields => PField | _ => PSchema end)) l.
Proof. unfold simple_m. rewrite jfold_arr. now rewrite forallb_map. Qed.

Lemma simple_pcf j : forall m ns, simple_m j m = true -> simple_m (pcf_m j m ns) m = true.
Proof.
  induction j as [| | | |s|l IH|kv IH] using json_ind'; intros m ns S; try reflexivity.
  - unfold pcf_m. cbn [jfold]. destruct (spec_is_prim s); reflexivity.
  - rewrite simple_m_arr in S. rewrite pcf_m_arr, simple_m_arr, forallb_map.
    induction IH as [|x r Hx Hr IHr]; [reflexivity|]. cbn [forallb] in *.
    apply Bool.andb_true_iff in S. destruct S as [S1 S2]. rewrite IHr by exact S2. rewrite Bool.andb_true_r.
    destruct m; apply Hx; exact S1.
  - assert (IH' : forall k v, jget k kv = Some v -> forall m ns, simple_m v m = true -> simple_m (pcf_m v m ns) m = true).
    { intros k v G. exact (jget_Forall (fun v => forall m ns, simple_m v m = true -> simple_m (pcf_m v m ns) m = true) k kv v IH G). }
    rewrite simple_m_obj in S. cbn zeta in S. rewrite pcf_m_obj. unfold pcf_obj, attr. rewrite !psub_map, !jget_map.
    destruct m.
    + unfold type_is in S. destruct (jget "type" kv) as [[| | | |t| |]|] eqn:T; try reflexivity.
      destruct (spec_is_prim t); [reflexivity|].
      destruct (String.eqb t "array") eqn:E1.
      { rewrite bsub_map in S. rewrite simple_m_obj. cbn zeta. unfold type_is. cbn [jget String.eqb Ascii.eqb Bool.eqb].
        rewrite bsub_map. cbn [jget String.eqb Ascii.eqb Bool.eqb]. destruct (jget "items" kv) as [v|] eqn:G; [|reflexivity]. eapply IH'; eauto. }
      destruct (String.eqb t "map") eqn:E2.
      { rewrite bsub_map in S. rewrite simple_m_obj. cbn zeta. unfold type_is. cbn [jget String.eqb Ascii.eqb Bool.eqb].
        rewrite bsub_map. cbn [jget String.eqb Ascii.eqb Bool.eqb]. destruct (jget "values" kv) as [v|] eqn:G; [|reflexivity]. eapply IH'; eauto. }
      destruct (String.eqb t "enum") eqn:E3; [reflexivity|].
      destruct (String.eqb t "fixed") eqn:E4.
      { cbn [orb] in S. rewrite simple_m_obj. cbn zeta. unfold type_is. cbn [jget String.eqb Ascii.eqb Bool.eqb].
        destruct (jget "size" kv) as [[| |z| | | |]|]; try discriminate S; reflexivity. }
      destruct (String.eqb t "record" || String.eqb t "error") eqn:E5; [|reflexivity].
      rewrite bsub_map in S. rewrite simple_m_obj. cbn zeta. unfold type_is. cbn [jget String.eqb Ascii.eqb Bool.eqb orb].
      rewrite bsub_map. cbn [jget String.eqb Ascii.eqb Bool.eqb].
      destruct (jget "fields" kv) as [v|] eqn:G; cbn [option_map]; [|reflexivity]. eapply IH'; eauto.
    + (* field-list mode on a dict: read as a schema *)
      unfold type_is in S. destruct (jget "type" kv) as [[| | | |t| |]|] eqn:T; try reflexivity.
      destruct (spec_is_prim t); [reflexivity|].
      destruct (String.eqb t "array") eqn:E1.
      { rewrite bsub_map in S. rewrite simple_m_obj. cbn zeta. unfold type_is. cbn [jget String.eqb Ascii.eqb Bool.eqb].
        rewrite bsub_map. cbn [jget String.eqb Ascii.eqb Bool.eqb]. destruct (jget "items" kv) as [v|] eqn:G; [|reflexivity]. eapply IH'; eauto. }
      destruct (String.eqb t "map") eqn:E2.
      { rewrite bsub_map in S. rewrite simple_m_obj. cbn zeta. unfold type_is. cbn [jget String.eqb Ascii.eqb Bool.eqb].
        rewrite bsub_map. cbn [jget String.eqb Ascii.eqb Bool.eqb]. destruct (jget "values" kv) as [v|] eqn:G; [|reflexivity]. eapply IH'; eauto. }
      destruct (String.eqb t "enum") eqn:E3; [reflexivity|].
      destruct (String.eqb t "fixed") eqn:E4.
      { cbn [orb] in S. rewrite simple_m_obj. cbn zeta. unfold type_is. cbn [jget String.eqb Ascii.eqb Bool.eqb].
        destruct (jget "size" kv) as [[| |z| | | |]|]; try discriminate S; reflexivity. }
      destruct (String.eqb t "record" || String.eqb t "error") eqn:E5; [|reflexivity].
      rewrite bsub_map in S. rewrite simple_m_obj. cbn zeta. unfold type_is. cbn [jget String.eqb Ascii.eqb Bool.eqb orb].
      rewrite bsub_map. cbn [jget String.eqb Ascii.eqb Bool.eqb].
      destruct (jget "fields" kv) as [v|] eqn:G; cbn [option_map]; [|reflexivity]. eapply IH'; eauto.
    + (* field *)
      rewrite bsub_map in S. apply Bool.andb_true_iff in S. destruct S as [S1 S2].
      rewrite simple_m_obj. cbn zeta. cbn [jget String.eqb Ascii.eqb Bool.eqb]. rewrite bsub_map. cbn [jget String.eqb Ascii.eqb Bool.eqb].
      destruct (jget "name" kv) as [[| | | |nm| |]|]; try discriminate S1. cbn [andb].
      destruct (jget "type" kv) as [v|] eqn:G; [|reflexivity]. eapply IH'; eauto.
Qed.

Lemma unmarked_pcf j : forall ns, unmarked (pcf_json_in ns j) = true.
Proof.
  induction j as [| | | |s|l IH|kv IH] using json_ind'; intros ns; try reflexivity.
  - unfold pcf_json_in, pcf_m. cbn [jfold]. destruct (spec_is_prim s); reflexivity.
  - rewrite pcf_arr, unmarked_arr, forallb_map. induction IH as [|x r Hx Hr IHr]; [reflexivity|]. cbn [forallb]. now rewrite Hx, IHr.
  - rewrite pcf_json_in_obj. unfold pcf_obj.
    destruct (jget "type" kv) as [[| | | |t| |]|]; try reflexivity.
    repeat match goal with |- context [if ?c then _ else _] => destruct c; try reflexivity end.
Qed.

Lemma simple_raw_pcf j : simple_raw j = true -> simple_raw (pcf_json j) = true.
Proof.
  unfold simple_raw. intros S. apply Bool.andb_true_iff in S. destruct S as [S _].
  unfold pcf_json. rewrite unmarked_pcf, Bool.andb_true_r. unfold pcf_json_in. now apply simple_pcf.
Qed.

(** ---- parse_schema ---- *)
Lemma top_is_run f c st : (forall l, c <> JArr l) -> unmarked c = true -> parse_schema_rec (S f) c st = run_parse f c st.
Proof.
  intros NA U. cbn [parse_schema_rec]. destruct c as [| | | | |l|kv]; try reflexivity.
  - exfalso. now apply (NA l).
  - rewrite unmarked_obj in U. apply Bool.negb_true_iff in U. now rewrite U.
Qed.

Lemma pcf_not_arr ns j : (forall l, j <> JArr l) -> forall l, pcf_json_in ns j <> JArr l.
Proof.
  intros NA l. destruct j as [| | | |s|l0|kv]; try discriminate.
  - unfold pcf_json_in, pcf_m. cbn [jfold]. destruct (spec_is_prim s); discriminate.
  - exfalso. now apply (NA l0).
  - rewrite pcf_json_in_obj. unfold pcf_obj. destruct (jget "type" kv) as [[| | | |t| |]|]; try discriminate.
    repeat match goal with |- context [if ?c then _ else _] => destruct c; try discriminate end.
Qed.

Lemma ns_closed_arr_top l : ns_closed_m (JArr l) PSchema "" = forallb (fun j => ns_closed_m j PSchema "") l.
Proof. apply ns_closed_arr. Qed.

Lemma parse_schema_rec_canon f : forall j st p st' st2,
  simple_raw j = true -> ns_closed_m j PSchema "" = true ->
  parse_schema_rec f j st = POk (p, st') -> st_equiv st st2 ->
  exists p2 st2', parse_schema_rec f (pcf_json j) st2 = POk (p2, st2') /\ st_equiv st' st2'.
Proof.
  induction f as [|f IH]; intros j st p st' st2 S C H E; [discriminate H|].
  destruct j as [| | | | |l|kv].
  6: { (* top-level union *)
    cbn [parse_schema_rec] in H.
    destruct (parse_tops (parse_schema_rec f) l st) as [[ps st1]| | | |] eqn:PT; cbn [pbind] in H; try discriminate H.
    injection H as <- <-. apply parse_tops_inv in PT. apply simple_raw_arr in S. rewrite ns_closed_arr_top in C.
    unfold pcf_json. rewrite pcf_arr. cbn [parse_schema_rec].
    assert (X : exists ps2 st2', parse_tops (parse_schema_rec f) (map (pcf_json_in "") l) st2 = POk (ps2, st2') /\ st_equiv st1 st2').
    { revert st2 E. induction PT as [|s r t p t1' ps t2 R PT IHP]; intros st2 E; cbn [map parse_tops]; [eauto|].
      cbn [forallb] in S, C. apply Bool.andb_true_iff in S. apply Bool.andb_true_iff in C. destruct S as [S1 S2], C as [C1 C2].
      destruct (IH _ _ _ _ st2 S1 C1 R E) as (p2 & st2a & P2 & E2). unfold pcf_json in P2. rewrite P2. cbn [pbind].
      destruct (IHP S2 C2 _ E2) as (ps2 & st2b & P3 & E3). rewrite P3. cbn [pbind]. eauto. }
    destruct X as (ps2 & st2' & P2 & E2). rewrite P2. cbn [pbind]. eauto. }
  all: match goal with |- context [pcf_json ?j0] =>
         assert (NA : forall l, j0 <> JArr l) by (intros; discriminate);
         assert (U : unmarked j0 = true) by (unfold simple_raw in S; apply Bool.andb_true_iff in S; tauto);
         assert (S0 : simple_m j0 PSchema = true) by (unfold simple_raw in S; apply Bool.andb_true_iff in S; tauto);
         rewrite (top_is_run f j0 st NA U) in H; unfold run_parse in H;
         destruct (parse_rec_canon f _ _ _ _ _ _ _ true st2 S0 C H E) as (p2 & st2' & P2 & E2);
         exists p2, st2'; split; [|exact E2];
         unfold pcf_json; rewrite (top_is_run f _ st2 (pcf_not_arr "" j0 NA) (unmarked_pcf j0 "")); exact P2
       end.
Qed.

(* the canonical JSON of an accepted schema is accepted, and canonicalises to itself *)
Theorem fixed_point f j t p t' :
  simple_raw j = true -> ns_closed j = true -> parse_schema f j t = POk (p, t') ->
  exists p2 t2, parse_schema f (pcf_json j) t = POk (p2, t2) /\
                canon p2 = canon p /\ canon p2 = print_json (pcf_json j) /\
                (forall n, jhas n t2 = jhas n t').
Proof.
  unfold parse_schema, ns_closed. intros S C H.
  destruct (parse_schema_rec f j (mkst [] t)) as [[p0 st1]| | | |] eqn:E; cbn [pbind] in H; try discriminate H.
  injection H as <- <-.
  destruct (parse_schema_rec_canon f _ _ _ _ (mkst [] t) S C E) as (p2 & st2' & P2 & [_ E2]); [split; reflexivity|].
  rewrite P2. cbn [pbind]. do 2 eexists. split; [reflexivity|].
  assert (A : canon (tie (st_tbl st2') p2) = pcf (pcf_json j)).
  { apply (canon_parse_is_pcf f (pcf_json j) t _ (st_tbl st2') (simple_raw_pcf _ S)). unfold parse_schema. now rewrite P2. }
  assert (B : canon (tie (st_tbl st1) p0) = pcf j).
  { apply (canon_parse_is_pcf f j t _ (st_tbl st1) S). unfold parse_schema. now rewrite E. }
  rewrite A, B. unfold pcf. rewrite (pcf_json_fixed_point j C). repeat split. intros n. symmetry. apply E2.
Qed.
