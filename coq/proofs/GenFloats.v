(** The float conversions never overflow on what the generator produces: random.random() gives doubles in [0, 1), the
    integers it produces are 64-bit.  (Flocq, like proofs/FloatProofs.v: Reals axioms + classic.) *)
From Coq Require Import ZArith Reals Lia Lra SpecFloat Bool.
From Flocq Require Import Core Round Digits FLT Generic_fmt Float_prop Raux BinarySingleNaN.
From FA Require Import model.Base model.Float proofs.FloatBits proofs.FloatProofs.
Open Scope Z_scope.

Local Instance p24 : Prec_gt_0 24. Proof. unfold Prec_gt_0. lia. Qed.
Local Instance p53 : Prec_gt_0 53. Proof. unfold Prec_gt_0. lia. Qed.
Local Instance v24 : Valid_exp (SpecFloat.fexp 24 128) := fexp_correct 24 128 p24.
Local Instance v53 : Valid_exp (SpecFloat.fexp 53 1024) := fexp_correct 53 1024 p53.

Lemma rne24_le_bpow k x : -149 <= k -> (Rabs x <= bpow radix2 k)%R -> (Rabs (rne 24 128 x) <= bpow radix2 k)%R.
Proof.
  intros Hk Hx. unfold rne. apply abs_round_le_generic; [typeclasses eauto|typeclasses eauto| |exact Hx].
  apply generic_format_bpow. unfold SpecFloat.fexp, SpecFloat.emin. lia.
Qed.
Lemma rne53_le_bpow k x : -1074 <= k -> (Rabs x <= bpow radix2 k)%R -> (Rabs (rne 53 1024 x) <= bpow radix2 k)%R.
Proof.
  intros Hk Hx. unfold rne. apply abs_round_le_generic; [typeclasses eauto|typeclasses eauto| |exact Hx].
  apply generic_format_bpow. unfold SpecFloat.fexp, SpecFloat.emin. lia.
Qed.

Lemma bpow_lt_big k K : k < K -> (bpow radix2 k < bpow radix2 K)%R.
Proof. intros H. apply bpow_lt. exact H. Qed.

Lemma IZR_abs_le_bpow z k : 0 <= k -> - 2 ^ k <= z <= 2 ^ k -> (Rabs (IZR z) <= bpow radix2 k)%R.
Proof.
  intros Hk Hz. rewrite <- abs_IZR. replace (bpow radix2 k) with (IZR (2 ^ k)).
  - apply IZR_le. lia.
  - rewrite <- (IZR_Zpower radix2) by exact Hk. reflexivity.
Qed.

(** float(n) does not overflow on 64-bit integers, and the double it gives narrows to binary32 without overflow *)
Theorem z2d_int64 z : - 2 ^ 63 <= z <= 2 ^ 63 ->
  exists d, z2d z = Ok d /\ exists x, d2s d = Ok x.
Proof.
  intros Hz. pose proof (z2d_spec z) as Hs. cbv zeta in Hs.
  assert (Hr : (Rabs (rne 53 1024 (IZR z)) <= bpow radix2 63)%R) by (apply rne53_le_bpow; [lia|apply IZR_abs_le_bpow; lia]).
  rewrite Rlt_bool_true in Hs by (eapply Rle_lt_trans; [exact Hr|apply bpow_lt_big; lia]).
  destruct Hs as (y & Hd & Hdec & Hval & Hfin). exists (fencode 52 11 y). split; [exact Hd|].
  unfold d2s. rewrite Hdec. destruct y as [s| | |s m e]; try discriminate Hfin; [eexists; reflexivity|].
  pose proof (d2s_finite_spec (fencode 52 11 (S754_finite s m e)) s m e Hdec) as H2. cbv zeta in H2.
  assert (Hr2 : (Rabs (rne 24 128 (rval s m e)) <= bpow radix2 63)%R).
  { apply rne24_le_bpow; [lia|]. change (rval s m e) with (SF2R radix2 (S754_finite s m e)). rewrite Hval. exact Hr. }
  rewrite Rlt_bool_true in H2 by (eapply Rle_lt_trans; [exact Hr2|apply bpow_lt_big; lia]).
  destruct H2 as (y' & Hd2 & _). unfold d2s in Hd2. rewrite Hdec in Hd2. eexists. exact Hd2.
Qed.

(** random.random(): a double in [0, 1) narrows to binary32 without overflow *)
Theorem d2s_below_one b : 0 <= b < 4607182418800017408 -> exists x, d2s b = Ok x.
Proof.
  intros Hb. set (E := b / 2 ^ 52). set (M := b mod 2 ^ 52).
  assert (HM : 0 <= M < 2 ^ 52) by (apply Z.mod_pos_bound; lia).
  assert (HE : 0 <= E < 1023).
  { unfold E. change (2 ^ 52) with 4503599627370496. split.
    - apply Z.div_pos; [apply Hb|reflexivity].
    - apply Z.div_lt_upper_bound; [reflexivity|]. change (4503599627370496 * 1023) with 4607182418800017408. apply Hb. }
  assert (Hbits : b = 0 * 2 ^ (52 + 11) + E * 2 ^ 52 + M).
  { unfold E, M. rewrite Z.mul_0_l, Z.add_0_l, Z.mul_comm. apply Z.div_mod. discriminate. }
  assert (HE' : 0 <= E < 2 ^ 11) by (change (2 ^ 11) with 2048; lia).
  pose proof (fdecode_fields 52 11 0 E M ltac:(lia) ltac:(lia) HM HE' ltac:(lia)) as Hf. rewrite <- Hbits in Hf. cbv zeta in Hf.
  change (0 =? 1) with false in Hf.
  assert (Hfin : forall p e, fdecode 52 11 b = S754_finite false p e -> Zpos p < 2 ^ 53 -> e <= -53 -> exists x, d2s b = Ok x).
  { intros p e Hd Hp He. pose proof (d2s_finite_spec b false p e Hd) as H2. cbv zeta in H2.
    assert (Hv : (Rabs (rval false p e) <= bpow radix2 0)%R).
    { unfold rval. apply Rlt_le. apply F2R_lt_bpow. cbn [Fnum Fexp cond_Zopp]. rewrite Z.abs_eq by lia.
      eapply Z.lt_le_trans; [exact Hp|]. apply (Zpower_le radix2). lia. }
    rewrite Rlt_bool_true in H2 by (eapply Rle_lt_trans; [apply (rne24_le_bpow 0); [lia|exact Hv]|apply bpow_lt_big; lia]).
    destruct H2 as (y' & Hd2 & _). eexists. exact Hd2. }
  destruct (E =? 0) eqn:E0.
  - destruct M as [|p|p] eqn:EM; [| |lia].
    + unfold d2s. rewrite Hf. eexists. reflexivity.
    + apply (Hfin p _ Hf); [lia|cbv; discriminate].
  - destruct (E =? 2 ^ 11 - 1) eqn:E1; [lia|].
    destruct (M + 2 ^ 52) as [|p|p] eqn:EM; [lia| |lia].
    apply (Hfin p _ Hf); [lia|]. change (2 ^ (11 - 1) - 1) with 1023. lia.
Qed.
