(** inline_first_use on schemas the parser accepts: nothing to inline. *)
From Coq Require Import String Ascii Lia.
From FA Require Import model.Base model.Json model.Parse model.SchemaSpec model.Inline model.Canon model.Repo
     proofs.JsonProofs proofs.ParseProofs proofs.AcceptProofs proofs.CanonProofs proofs.InlineProofs
     proofs.PiecewiseProofs proofs.RepoProofs.
Open Scope string_scope.

Lemma jhas_jset_bool {A} n k (v : A) tbl : jhas n (jset k v tbl) = String.eqb n k || jhas n tbl.
Proof.
  destruct (String.eqb n k) eqn:E.
  - apply String.eqb_eq in E. subst. now rewrite jhas_jset_eq.
  - now rewrite jhas_jset_neq.
Qed.

Section IfuId.
  Variable rp : repo.

  (* the defined list of the specification and the parser's dictionary hold the same names *)
  Definition same_names (D : list string) (st : pstate) : Prop := forall n, mem n D = jhas n (st_tbl st).

  Definition ifu_id_spec (f : nat) : Prop :=
    forall j ns wh st d p st', parse_rec f j ns wh st d = POk (p, st') ->
      forall D, same_names D st -> exists D', ifu_rec f rp j ns D = POk (j, D') /\ same_names D' st'.

  Section Step.
    Variable f : nat.
    Hypothesis IH : ifu_id_spec f.

    Lemma ifu_id_members ns l st ps st' : members_ok (parse_rec f) ns l st ps st' ->
      forall D, same_names D st -> exists D', ifu_members (ifu_rec f rp) ns l D = POk (l, D') /\ same_names D' st'.
    Proof.
      induction 1 as [st|s r st p st1 ps st2 R M IHM]; intros D S; cbn [ifu_members]; [eauto|].
      destruct (IH _ _ _ _ _ _ _ R _ S) as (D1 & E1 & S1). rewrite E1. cbn [pbind].
      destruct (IHM _ S1) as (D2 & E2 & S2). rewrite E2. cbn [pbind]. eauto.
    Qed.

    Lemma ifu_id_fields ns l st ps st' : fields_ok (parse_rec f) ns l st ps st' ->
      forall D, same_names D st -> exists D', ifu_fields (ifu_rec f rp) ns l D = POk (l, D') /\ same_names D' st'.
    Proof.
      induction 1 as [st|s r st p st1 ps st2 R M IHM]; intros D S; cbn [ifu_fields]; [eauto|].
      destruct R as [fkv nm ty st p st1 N T R]. rewrite T.
      destruct (IH _ _ _ _ _ _ _ R _ S) as (D1 & E1 & S1). rewrite E1. cbn [pbind].
      destruct (IHM _ S1) as (D2 & E2 & S2). rewrite E2. cbn [pbind]. rewrite (jset_same _ _ _ T). eauto.
    Qed.

    Lemma ifu_id_node : ifu_id_spec (S f).
    Proof.
      intros j ns wh st d p st' H D S. cbn [parse_rec] in H. apply parse_node_inv in H. cbn [ifu_rec].
      destruct H as [s ns wh st d P|s ns wh st d P J|l ns wh st d ps st' M|kv t ns wh st d T P
                     |kv it ns wh st d p st' T I R|kv it ns wh st d p st' T I R
                     |kv ns wh st d ns' full syms ss T SN DD SY SS ND parsed
                     |kv ns wh st d ns' full sz T SN DD SZ parsed
                     |kv t ns wh st d ns' full fl fs st3 T TT SN DD FL FS reckv]; cbn [ifu_node].
      - rewrite <- is_prim_spec, P. eauto.
      - rewrite <- is_prim_spec, P, <- qualify_spec, (S (qualify ns s)), J. eauto.
      - destruct (ifu_id_members _ _ _ _ _ M _ S) as (D' & E & S'). rewrite E. cbn [pbind]. eauto.
      - destruct (prim_not_complex _ P) as (N1 & N2 & N3 & N4 & N5 & N6).
        rewrite !(type_is_get _ _ _ T), N1, N2, N3, N4, N5, N6. cbn [orb]. eauto.
      - rewrite !(type_is_get _ _ _ T). cbn [String.eqb Ascii.eqb Bool.eqb]. rewrite I.
        destruct (IH _ _ _ _ _ _ _ R _ S) as (D' & E & S'). rewrite E. cbn [pbind]. rewrite (jset_same _ _ _ I). eauto.
      - rewrite !(type_is_get _ _ _ T). cbn [String.eqb Ascii.eqb Bool.eqb]. rewrite I.
        destruct (IH _ _ _ _ _ _ _ R _ S) as (D' & E & S'). rewrite E. cbn [pbind]. rewrite (jset_same _ _ _ I). eauto.
      - rewrite !(type_is_get _ _ _ T). cbn [String.eqb Ascii.eqb Bool.eqb orb].
        apply schema_name_spec in SN. destruct SN as (-> & -> & NM). eexists. split; [reflexivity|].
        intros n. cbn [mem existsb set_tbl declared st_tbl]. rewrite jhas_jset_bool. fold (mem n D). now rewrite S.
      - rewrite !(type_is_get _ _ _ T). cbn [String.eqb Ascii.eqb Bool.eqb orb].
        apply schema_name_spec in SN. destruct SN as (-> & -> & NM). eexists. split; [reflexivity|].
        intros n. cbn [mem existsb set_tbl declared st_tbl]. rewrite jhas_jset_bool. fold (mem n D). now rewrite S.
      - rewrite !(type_is_get _ _ _ T).
        assert (X : String.eqb t "array" = false /\ String.eqb t "map" = false /\
                    (String.eqb t "enum" || String.eqb t "fixed") = false /\ (String.eqb t "record" || String.eqb t "error") = true).
        { destruct TT as [-> | ->]; repeat split; reflexivity. }
        destruct X as (-> & -> & -> & ->).
        apply schema_name_spec in SN. destruct SN as (-> & -> & NM).
        assert (S2 : same_names (spec_fullname ns kv :: D) (set_tbl (spec_fullname ns kv) (JObj (rbase kv t (spec_fullname ns kv) ns)) (declared (spec_fullname ns kv) st))).
        { intros n. cbn [mem existsb set_tbl declared st_tbl]. rewrite jhas_jset_bool. fold (mem n D). now rewrite S. }
        destruct (ifu_id_fields _ _ _ _ _ FS _ S2) as (D' & E & S').
        assert (S4 : same_names D' (set_tbl (spec_fullname ns kv) (JObj reckv) st3)).
        { intros n. cbn [set_tbl st_tbl]. rewrite jhas_jset_bool, <- S'. destruct (String.eqb n (spec_fullname ns kv)) eqn:EN; [|reflexivity].
          apply String.eqb_eq in EN. subst n. cbn [orb]. rewrite S'.
          apply (proj1 (fields_refs _ (parse_rec_refs f) _ _ _ _ _ FS)). cbn [set_tbl st_tbl]. apply jhas_jset_eq. }
        destruct FL as [FL|[FL ->]]; rewrite FL.
        + rewrite E. cbn [pbind]. rewrite (jset_same _ _ _ FL). eauto.
        + cbn [ifu_fields] in E. injection E as <-. eexists. split; [reflexivity|exact S4].
    Qed.
  End Step.

  Theorem ifu_id_accepted f : ifu_id_spec f.
  Proof. induction f as [|f IH]; [intros j ns wh st d p st' H; discriminate H|]. now apply ifu_id_node. Qed.
End IfuId.

(** C19_equiv, zero rounds: a document that parses at once against the caller's dictionary is
    returned as parsed, and the specification has nothing to inline into it either *)
Theorem load_first_try_equiv rp f wh kv tbl inj p tbl' :
  jhas "__fastavro_parsed" kv = false ->
  parse_schema_g wh (fuel_for (JObj kv)) (JObj kv) tbl = POk (p, tbl') ->
  pwr (S f) rp (JObj kv) tbl wh inj = Some (POk (p, tbl', inj)) /\
  exists D', ifu_rec (S (jdepth (JObj kv))) rp (JObj kv) "" (keys tbl) = POk (JObj kv, D') /\
             (forall n, mem n D' = jhas n tbl').
Proof.
  intros U H. split; [now apply pwr_first_try|].
  unfold parse_schema_g, fuel_for in H. cbn [parse_schema_rec_g] in H. rewrite U in H.
  destruct (parse_rec (S (jdepth (JObj kv))) (JObj kv) "" wh (mkst [] tbl) None) as [[p0 st1]| | | |] eqn:E; cbn [pbind] in H; try discriminate H.
  injection H as <- <-.
  destruct (ifu_id_accepted rp _ _ _ _ _ _ _ _ E (keys tbl)) as (D' & I & S); [intros n; cbn [st_tbl]; now rewrite jhas_keys|].
  exists D'. split; [exact I|exact S].
Qed.
